"""Reproduce D4 (C19): find-snvs ignores --mapping-quality and the three keep flags.
usage: cd <scratch dir>; PYTHONDONTWRITEBYTECODE=1 PYTHONPATH=<tree>:/verif/harness /venv/bin/python /verif/notes/repro-D4.py
One sample, reference base A at chr1:31 (1-based); four reads all carrying C there:
  plain MAPQ 60 | duplicate MAPQ 60 | QC-fail MAPQ 60 | supplementary MAPQ 60 | plain MAPQ 19
"""
import io, contextlib, os, random
import numpy as np
from vlib import bamgen
from mchap.application import find_snvs as FS

rng = random.Random(1)
g = bamgen.Geometry.build(rng, ["A"])
reads = [("plain", [], 60), ("dup", ["dup"], 60), ("qcfail", ["qcfail"], 60), ("supp", ["supp"], 60), ("mapq19", [], 19)]
alns = [bamgen.realise({"qname": n, "rg": "g1", "flags": f, "mapq": q, "cells": ["C"]}, g, rng, plain=True) for n, f, q in reads]
os.makedirs("d4", exist_ok=True)
fa = bamgen.write_fasta("d4/ref.fa", {g.contig: g.ref})
bam = "d4/s1.bam"
bamgen.write_bam(bam, {g.contig: len(g.ref)}, [{"ID": "g1", "SM": "S1"}], alns, keep_sam=True)
p = g.sites[0]
print("target %s:%d  (SAM text in d4/s1.sam)" % (g.contig, p + 1))
for label, mq, sd, sq, ss, expect in [
    ("defaults (--mapping-quality 20)", 20, True, True, True, 1),
    ("--keep-duplicate-reads", 20, False, True, True, 2),
    ("--keep-qcfail-reads", 20, True, False, True, 2),
    ("--keep-supplementary-reads", 20, True, True, False, 2),
    ("--mapping-quality 0", 0, True, True, True, 2),
    ("all keep flags, --mapping-quality 0", 0, False, False, False, 5),
]:
    seen = {}
    orig = FS.bam_region_depths
    def spy(*a, **k):
        r = orig(*a, **k); seen["d"] = np.array(r); return r
    FS.bam_region_depths = spy
    try:
        with contextlib.redirect_stdout(io.StringIO()):
            FS.write_vcf_block(g.contig, p, p + 1, fa, np.array([bam]), maf=0.0, mad=0, ind_maf=0.0, ind_mad=0, min_ind=1,
                               mapping_quality=mq, skip_duplicates=sd, skip_qcfail=sq, skip_supplementary=ss)
    finally:
        FS.bam_region_depths = orig
    got = int(seen["d"][0, 0, 1])
    print("%-40s depth of C: observed %d, filtered pileup %d %s" % (label, got, expect, "" if got == expect else "  <-- VIOLATION"))
