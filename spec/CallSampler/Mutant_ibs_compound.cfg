SPECIFICATION Spec
CONSTANT Instances <- InstancesMutant
CONSTANT Mut = "ibs"
INVARIANT CompoundStationaryP2
CHECK_DEADLOCK FALSE
