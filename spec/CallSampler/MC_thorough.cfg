SPECIFICATION Spec
CONSTANT Instances <- InstancesThorough
CONSTANT Mut = "none"
INVARIANT TypeOK
INVARIANT TargetIsExactPosterior
INVARIANT GibbsIsFullConditional
INVARIANT GibbsIsPosteriorTimesCopies
INVARIANT GibbsStationary
INVARIANT MHDetailedBalance
INVARIANT PermutationEquivariant
INVARIANT CompoundStationaryP2
INVARIANT Dump
CHECK_DEADLOCK FALSE
