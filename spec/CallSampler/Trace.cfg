SPECIFICATION TSpec
CONSTANT Instances <- InstancesMutant
CONSTANT Mut = "none"
INVARIANT Consumed
CHECK_DEADLOCK FALSE
