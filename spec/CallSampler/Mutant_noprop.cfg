SPECIFICATION Spec
CONSTANT Instances <- InstancesMutant
CONSTANT Mut = "noprop"
INVARIANT MHDetailedBalance
CHECK_DEADLOCK FALSE
