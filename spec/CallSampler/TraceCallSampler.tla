-------------------------- MODULE TraceCallSampler --------------------------
(* code -> spec for C02: runs of mchap.calling.mcmc.mcmc_sampler recorded in  *)
(* py-mode (every gibbs_options / mh_options call with the arrays it filled,  *)
(* every random_choice, every compound_step return) are replayed against the  *)
(* CallSampler state machine.  One event per step, every line gets a verdict. *)
(*   begin   instance, initial vector, step type                              *)
(*   update  position k, the likelihood row and the probability row the code  *)
(*           computed (integers round(v*10^6)), the allele chosen; for the MH *)
(*           kernel also the probabilities of the K reverse moves             *)
(*   sorted  vector after the compound step, returned llk (relative to the    *)
(*           largest likelihood of the last row)                              *)
EXTENDS CallSampler, IOUtils

Trace == JsonDeserialize(IOEnv.TRACE_FILE)

VARIABLES l, bad, kind, lastMax, broken
tvars == <<vars, l, bad, kind, lastMax, broken>>

TMkInst(e) == [P |-> e.P, m |-> "trace", Fn |-> e.Fn, Fd |-> e.Fd, pat |-> "trace", rs |-> 0,
               K |-> Len(e.H), N |-> Len(e.H[1]), H |-> e.H, A |-> e.A, w |-> e.w, reads |-> e.reads,
               tile |-> IF "tile" \in DOMAIN e THEN e.tile ELSE 1]

Mul1e6(x) == BnMulSmall(BnMulSmall(x, 1000), 1000)
(* |q/10^6 - num/den| <= slack/10^6 *)
NearS(q, num, den, slack) ==
  LET lhs == BnMul(BnFromNat(q), den)
      rhs == Mul1e6(num)
      sl == BnMulSmall(den, slack)
  IN  BnLeq(lhs, BnAdd(rhs, sl)) /\ BnLeq(rhs, BnAdd(lhs, sl))
Near(q, num, den) == NearS(q, num, den, 1)
RECURSIVE BnMaxS(_)
BnMaxS(s) == IF Len(s) = 1 THEN s[1] ELSE LET t == BnMaxS(Tail(s)) IN IF BnLeq(t, Head(s)) THEN Head(s) ELSE t
RECURSIVE SumNat(_)
SumNat(s) == IF s = <<>> THEN 0 ELSE Head(s) + SumNat(Tail(s))

TInit == /\ inst = [P |-> 0, K |-> 0] /\ a = <<>> /\ remaining = {}
         /\ l = 1 /\ bad = 0 /\ kind = "" /\ lastMax = <<>> /\ broken = FALSE

Reject(c) == /\ PrintT(<<"@@J", ToJson([reject |-> l, clause |-> c])>>)
             /\ bad' = bad + 1 /\ broken' = TRUE
             /\ UNCHANGED <<vars, kind, lastMax>>
Accept == bad' = bad /\ broken' = FALSE

TBegin(e) ==
  /\ inst' = TMkInst(e) /\ a' = e.a /\ remaining' = 1..e.P
  /\ kind' = e.kind /\ lastMax' = <<>> /\ bad' = bad /\ broken' = FALSE

UpdateClause(e) ==
  LET k == e.k + 1
      K == inst.K
      lrow == [b \in 1..K |-> LBig(inst, G(With(a, k, b - 1)))]
      lmax == BnMaxS(lrow)
      gw == GWRow(inst, a, k)
      cur == a[k] + 1
  IN
  IF ~(k \in remaining) THEN "ScanVisitsEachPositionOnce"
  ELSE IF e.a # a THEN "StateCarriedBetweenUpdates"
  ELSE IF Len(e.lq) # K \/ Len(e.pq) # K THEN "RowLength"
  ELSE IF \E b \in 1..K : ~Near(e.lq[b], lrow[b], lmax) THEN "LikelihoodRowIsGenotypeLikelihood"
  ELSE IF kind = "gibbs" /\ (\E b \in 1..K : ~Near(e.pq[b], gw[b], BnSumS(gw))) THEN "GibbsRowIsFullConditional"
  ELSE IF kind = "mh" /\ (SumNat(e.pq) > 1000000 + K \/ SumNat(e.pq) < 1000000 - K) THEN "MHRowIsProbabilityVector"
  ELSE IF kind = "mh" /\ Len(e.rq) # K THEN "RowLength"
  \* detailed balance with the recorded reverse move:  pi(v) T(v->v_b) = pi(v_b) T(v_b->v)  (one unit of slack each)
  ELSE IF kind = "mh" /\ (\E b \in 1..K : b # cur /\
            LET p1 == PiNum(inst, a)  p2 == PiNum(inst, With(a, k, b - 1))
                lhs == BnMul(BnFromNat(e.pq[b]), p1)  rhs == BnMul(BnFromNat(e.rq[b]), p2)
                sl == BnAdd(p1, p2)
            IN  ~(BnLeq(lhs, BnAdd(rhs, sl)) /\ BnLeq(rhs, BnAdd(lhs, sl)))) THEN "MHDetailedBalance"
  ELSE IF ~(e.b \in 0..(K - 1)) \/ e.pq[e.b + 1] = 0 THEN "ChoiceHasPositiveProbability"
  ELSE "ok"
TUpdate(e) == LET c == UpdateClause(e) IN
  IF c = "ok"
  THEN /\ Update(e.k + 1, e.b)
       /\ lastMax' = BnMaxS([b \in 1..inst.K |-> LBig(inst, G(With(a, e.k + 1, b - 1)))])
       /\ UNCHANGED kind /\ Accept
  ELSE Reject(c)

SortedClause(e) ==
  IF remaining # {} THEN "ScanVisitsEveryPosition"
  ELSE IF e.a # SortedOf(a) THEN "SortedAfterScan"
  ELSE IF ~Near(e.retq, LBig(inst, G(a)), lastMax) THEN "ReturnedLlkIsFinalGenotype"
  ELSE "ok"
TSorted(e) == LET c == SortedClause(e) IN
  IF c = "ok" THEN Sort /\ UNCHANGED <<kind, lastMax>> /\ Accept ELSE Reject(c)

TSkip == /\ PrintT(<<"@@J", ToJson([skipped |-> l])>>) /\ UNCHANGED <<vars, bad, kind, lastMax, broken>>

TNext ==
  /\ l <= Len(Trace)
  /\ l' = l + 1
  /\ LET e == Trace[l] IN
     IF e.op = "begin" THEN TBegin(e)
     ELSE IF broken THEN TSkip
     ELSE IF e.op = "update" THEN TUpdate(e)
     ELSE IF e.op = "sorted" THEN TSorted(e)
     ELSE Reject("UnknownEvent")
TSpec == TInit /\ [][TNext]_tvars
Consumed == (l = Len(Trace) + 1) => PrintT(<<"@@J", ToJson([consumed |-> l - 1, rejected |-> bad])>>)
=============================================================================
