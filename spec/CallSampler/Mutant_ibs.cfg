SPECIFICATION Spec
CONSTANT Instances <- InstancesMutant
CONSTANT Mut = "ibs"
INVARIANT GibbsIsFullConditional
CHECK_DEADLOCK FALSE
