----------------------------- MODULE CallSampler -----------------------------
(* C02: every allele-resampling move of the `mchap call` sampler has the     *)
(* exact genotype posterior (the distribution call-exact enumerates,         *)
(* CallModel!JBig / total) as its stationary distribution.                   *)
(*                                                                           *)
(* State: the ordered allele vector `a` (indices of known haplotypes) and    *)
(* the set `remaining` of positions not yet visited in the current compound  *)
(* step.  Actions = the code's steps: Update(k, b) resamples position k      *)
(* (positions are taken in a random order, each once), Sort ends the scan.   *)
(* The two kernels are modelled by their *structure*:                        *)
(*   Gibbs : weight of option b = L(G_b) * (alpha_b + n_b(rest))             *)
(*           (likelihood of the whole genotype x single-allele conditional   *)
(*            prior given the other P-1 copies)                              *)
(*   MH    : uniform proposal among the other K-1 alleles, acceptance        *)
(*           min(1, J(G_b) Cnt_b(G_b) / (J(G) Cnt_cur(G)))                   *)
(* and the invariants say that these are the full conditional / satisfy      *)
(* detailed balance for the ordered-state target pi(v) = J(sort v)/Perms,    *)
(* whose push-forward to unordered genotypes is the call-exact posterior.    *)
(* All arithmetic is exact (BigNat).                                         *)
EXTENDS Integers, Sequences, FiniteSets, TLC, Json, CallModel

CONSTANTS Instances,    \* set of instance descriptors [m, P, Fn, pat, rs]
          Mut           \* "none" or a seeded model mutation

(* read bags used by the instance grid (three per menu)                      *)
RD(c, n) == [cells |-> c, cnt |-> n]
ReadSets(m) ==
  CASE m = "K2N1" -> << <<>>, <<RD(<<1>>, 2)>>, <<RD(<<0>>, 1), RD(<<1>>, 3)>> >>
    [] m = "K3N1" -> << <<RD(<<2>>, 1)>>, <<RD(<<-1>>, 1), RD(<<1>>, 2)>>, <<RD(<<0>>, 2), RD(<<2>>, 2)>> >>
    [] m = "K3N2" -> << <<RD(<<0, 1>>, 1)>>, <<RD(<<0, -1>>, 2), RD(<<1, 1>>, 1)>>, <<RD(<<1, 0>>, 1), RD(<<-1, 1>>, 3)>> >>
    [] m = "K4N2" -> << <<RD(<<1, 0>>, 2)>>, <<RD(<<0, 0>>, 1), RD(<<1, 1>>, 1)>>, <<RD(<<-1, 1>>, 2), RD(<<0, -1>>, 1)>> >>
    [] m = "K2N3" -> << <<RD(<<1, 1, 1>>, 1)>>, <<RD(<<0, 1, -1>>, 2)>>, <<RD(<<0, 0, 0>>, 1), RD(<<1, 0, 0>>, 1)>> >>
    [] m = "K4N3" -> << <<RD(<<0, 1, 1>>, 1)>>, <<RD(<<0, 0, 0>>, 1), RD(<<1, -1, 2>>, 2)>>,
                        <<RD(<<-1, 1, -1>>, 1), RD(<<1, 1, 0>>, 1), RD(<<0, 0, 2>>, 1)>> >>

MkInst(d) == [P |-> d.P, m |-> d.m, Fn |-> d.Fn, Fd |-> 4, pat |-> d.pat, rs |-> d.rs,
              K |-> NHap(d.m), N |-> NSnv(d.m), H |-> Hap(d.m), A |-> NAll(d.m),
              w |-> Weights(d.pat, NHap(d.m)), reads |-> ReadSets(d.m)[d.rs]]

VARIABLES inst, a, remaining
vars == <<inst, a, remaining>>

Alleles == 0..(inst.K - 1)
Full == remaining = 1..inst.P
(* every (vector, position) pair occurs exactly once as "position k is the    *)
(* last one of the scan": the row invariants are evaluated there              *)
Last == Cardinality(remaining) = 1
SortedOf(s) == SortSeq(s, LAMBDA x, y : x < y)

Init == /\ \E d \in Instances : inst = MkInst(d)
        /\ a = [h \in 1..inst.P |-> 0]
        /\ remaining = 1..inst.P

Update(k, b) ==       \* position k (next in the random scan order) takes allele b
  /\ k \in remaining
  /\ a' = [a EXCEPT ![k] = b]
  /\ remaining' = remaining \ {k}
  /\ UNCHANGED inst
Sort ==               \* end of the compound step
  /\ remaining = {}
  /\ a' = SortedOf(a)
  /\ remaining' = 1..inst.P
  /\ UNCHANGED inst
Next == (\E k \in remaining, b \in Alleles : Update(k, b)) \/ Sort
Spec == Init /\ [][Next]_vars

(* ---- kernel structure ------------------------------------------------------- *)
With(v, k, b) == [v EXCEPT ![k] = b]
G(v) == SortedOf(v)
RestCount(v, k, b) == Cardinality({h \in 1..Len(v) : h # k /\ v[h] = b})
(* single-allele conditional prior weight of allele b at position k given the rest *)
CondPrior(i, v, k, b) ==
  IF i.Fn = 0 THEN i.w[b + 1]
  ELSE AlphaNum(i)[b + 1] + (RestCount(v, k, b) + (IF Mut = "ibs" THEN 1 ELSE 0)) * AlphaDen(i)
GibbsW(i, v, k, b) == BnMulSmall(LBig(i, G(With(v, k, b))), CondPrior(i, v, k, b))
(* MH acceptance ratio num/den for the move v -> With(v,k,b)                    *)
MHNum(i, v, k, b) == LET Gb == G(With(v, k, b))
                     IN  IF Mut = "noprop" THEN JBig(i, Gb) ELSE BnMulSmall(JBig(i, Gb), CountOf(Gb, b))
MHDen(i, v, k) == IF Mut = "noprop" THEN JBig(i, G(v)) ELSE BnMulSmall(JBig(i, G(v)), CountOf(G(v), v[k]))
BnMin(x, y) == IF BnLeq(x, y) THEN x ELSE y

(* ---- the target ------------------------------------------------------------- *)
(* ordered-state target numerator: Urn(v) * L(v)  ( = J(sort v) / Perms(sort v) ) *)
PiNum(i, v) == IF Tile(i) = 1 THEN MulAll(<<1>>, UrnFactors(i, v) \o ReadFactors(i, G(v)))
               ELSE BnMul(MulAll(<<1>>, UrnFactors(i, v)), LBig(i, G(v)))
RECURSIVE BnSumS(_)
BnSumS(s) == IF s = <<>> THEN <<>> ELSE BnAdd(Head(s), BnSumS(Tail(s)))
RECURSIVE BnProdS(_)
BnProdS(s) == IF s = <<>> THEN <<1>> ELSE BnMul(Head(s), BnProdS(Tail(s)))
(* rows indexed by allele + 1, evaluated once                                   *)
GWRow(i, v, k) == TLCEval([b \in 1..i.K |-> GibbsW(i, v, k, b - 1)])
JRow(i, v, k) == TLCEval([b \in 1..i.K |-> JBig(i, G(With(v, k, b - 1)))])
PiRow(i, v, k) == TLCEval([b \in 1..i.K |-> PiNum(i, With(v, k, b - 1))])

(* ---- invariants (evaluated at the start of a scan, for every position) ------- *)
TypeOK == /\ remaining \subseteq 1..inst.P
          /\ \A h \in 1..inst.P : a[h] \in Alleles /\ inst.w[a[h] + 1] > 0
TargetIsExactPosterior ==      \* pi(v) * Perms = J(G): the unordered push-forward is the call-exact posterior
  Last => /\ BnMulSmall(PiNum(inst, a), Perms(G(a))) = JBig(inst, G(a))
          /\ PiNum(inst, a) = PiNum(inst, G(a))
GibbsIsFullConditional ==      \* row proportional to pi over the K vectors that differ at position k
  Last => \A k \in remaining :
            LET gw == GWRow(inst, a, k)  pr == PiRow(inst, a, k)
            IN  \A b \in 1..inst.K, c \in 1..inst.K : BnMul(gw[b], pr[c]) = BnMul(gw[c], pr[b])
GibbsIsPosteriorTimesCopies ==   \* proportional to (call-exact posterior of G_b) x (copies of b in G_b)
  Last => \A k \in remaining :
            LET gw == GWRow(inst, a, k)  jr == JRow(inst, a, k)
                cnt(b) == CountOf(With(a, k, b - 1), b - 1)
            IN  \A b \in 1..inst.K, c \in 1..inst.K :
                  BnMulSmall(BnMul(gw[b], jr[c]), cnt(c)) = BnMulSmall(BnMul(gw[c], jr[b]), cnt(b))
GibbsStationary ==               \* SUM_c pi(v[k:=c]) T_k(v[k:=c] -> v) = pi(v)
  Last => \A k \in remaining :
            LET gw == GWRow(inst, a, k)  pr == PiRow(inst, a, k)
            IN  BnMul(BnSumS(pr), gw[a[k] + 1]) = BnMul(pr[a[k] + 1], BnSumS(gw))
MHDetailedBalance ==             \* pi(v) T(v->v') = pi(v') T(v'->v),  T = min(1, num/den)/(K-1)
  Last => \A k \in remaining : \A b \in Alleles \ {a[k]} :
            LET v2 == With(a, k, b)
                n1 == MHNum(inst, a, k, b)      d1 == MHDen(inst, a, k)
                n2 == MHNum(inst, v2, k, a[k])  d2 == MHDen(inst, v2, k)
            IN  BnMul(BnMul(PiNum(inst, a), BnMin(n1, d1)), d2) = BnMul(BnMul(PiNum(inst, v2), BnMin(n2, d2)), d1)
PermutationEquivariant ==        \* rows depend on (multiset, allele at the position) only: sorting is neutral
  Last => \A k \in remaining :
            LET s == G(a)
                k2 == CHOOSE h \in 1..inst.P : s[h] = a[k]
            IN  /\ GWRow(inst, a, k) = GWRow(inst, s, k2)
                /\ \A b \in Alleles : MHNum(inst, a, k, b) = MHNum(inst, s, k2, b)
                /\ MHDen(inst, a, k) = MHDen(inst, s, k2)

(* compound Gibbs kernel (random order, sequential updates, sort) on the      *)
(* smallest configuration P = 2: exact stationarity at the call-exact         *)
(* posterior,  SUM_G J(G) K(G -> G') = J(G')  (common denominator 2 D^2).     *)
CompoundStationaryP2 ==
  (Full /\ inst.P = 2 /\ a = <<0, 0>>) =>
    LET i == inst
        K == i.K
        \* gw2[r+1][b+1]: weight of b at one position when the other copy is r
        gw2 == TLCEval([r \in 1..K |-> [b \in 1..K |-> GibbsW(i, <<0, r - 1>>, 1, b - 1)]])
        s2 == TLCEval([r \in 1..K |-> BnSumS(gw2[r])])
        dall == TLCEval(BnProdS(s2))
        dwo == TLCEval([r \in 1..K |-> BnProdS([q \in 1..(K - 1) |-> s2[IF q < r THEN q ELSE q + 1]])])
        \* from the other copy y: first update -> b1 (given y), second update -> b2 (given b1); 1-based alleles
        PathW(y, b1, b2) == BnMul(BnMul(gw2[y][b1], dwo[y]), BnMul(gw2[b1][b2], dwo[b1]))
        X(q) == ((q - 1) \div K) + 1
        Y(q) == ((q - 1) % K) + 1
        \* both scan orders from the sorted start <<x, y>>: rest y first, or rest x first
        Knum(x, y, Gp) == BnSumS([q \in 1..(K * K) |->
                             IF G(<<X(q) - 1, Y(q) - 1>>) = Gp
                             THEN BnAdd(PathW(y, X(q), Y(q)), PathW(x, X(q), Y(q))) ELSE <<>>])
        jt == TLCEval([q \in 1..(K * K) |-> IF X(q) <= Y(q) THEN JBig(i, <<X(q) - 1, Y(q) - 1>>) ELSE <<>>])
    IN  \A Gp \in AllSorted(2, K) :
          BnSumS([q \in 1..(K * K) |-> IF X(q) <= Y(q) THEN BnMul(jt[q], Knum(X(q), Y(q), Gp)) ELSE <<>>])
          = BnMulSmall(BnMul(JBig(i, Gp), BnMul(dall, dall)), 2)

(* ---- output for the conformance harness ---------------------------------------- *)
Dump ==
  /\ (Full /\ a = [h \in 1..inst.P |-> 0]) =>
        PrintT(<<"@@J", ToJson([key |-> [m |-> inst.m, P |-> inst.P, Fn |-> inst.Fn, pat |-> inst.pat, rs |-> inst.rs],
                                inst |-> inst])>>)
  /\ Last =>
        LET k == CHOOSE x \in remaining : TRUE IN
        PrintT(<<"@@J", ToJson([
          key |-> [m |-> inst.m, P |-> inst.P, Fn |-> inst.Fn, pat |-> inst.pat, rs |-> inst.rs],
          a |-> a, k |-> k - 1,
          gibbs |-> GWRow(inst, a, k),
          mhnum |-> [b \in 1..inst.K |-> MHNum(inst, a, k, b - 1)],
          mhden |-> MHDen(inst, a, k),
          pinum |-> PiNum(inst, a)])>>)

(* ---- tier constants --------------------------------------------------------------- *)
Grid(ms, ps, fs, pats, rss) == {[m |-> m, P |-> p, Fn |-> f, pat |-> pt, rs |-> r] : m \in ms, p \in ps, f \in fs, pt \in pats, r \in rss}
InstancesQuick == Grid({"K2N1", "K3N2"}, {2, 3, 4}, {0, 1, 3}, {"flat", "skew"}, {2, 3})
                  \cup Grid({"K4N3"}, {2, 3}, {0, 1, 3}, {"flat", "skew"}, {2, 3})
                  \cup Grid({"K4N3"}, {4}, {0, 2}, {"dom"}, {3})
InstancesThorough == Grid({"K2N1", "K3N1", "K3N2", "K2N3"}, {1, 2, 3, 4}, {0, 1, 2, 3}, {"flat", "skew", "dom"}, {1, 2, 3})
                     \cup Grid({"K4N2", "K4N3"}, {1, 2, 3}, {0, 1, 2, 3}, {"flat", "skew", "dom"}, {1, 2, 3})
                     \cup Grid({"K4N2", "K4N3"}, {4}, {0, 1, 3}, {"skew", "dom"}, {2, 3})
InstancesMutant == Grid({"K3N2"}, {2, 3}, {1}, {"skew"}, {2})
=============================================================================
