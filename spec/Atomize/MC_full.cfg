SPECIFICATION Spec
CONSTANT SiteBases <- QuickBases
CONSTANT RefRows <- QuickRef
CONSTANT Layouts <- QuickLayouts
CONSTANT HapLen = 3
CONSTANT MaxAlt = 2
CONSTANT Ploidies <- QuickPloidies
CONSTANT GTOrdered = FALSE
CONSTANT Modes <- AllModes
INVARIANT TypeOK
INVARIANT LinesAreProjections
INVARIANT OneLinePerSite
INVARIANT EveryShapeAccepted
INVARIANT ProjectionConsistent
INVARIANT ACPSumsToPloidy
CONSTRAINT Dump
CHECK_DEADLOCK FALSE
