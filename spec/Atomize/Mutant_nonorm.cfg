SPECIFICATION Spec
CONSTANT SiteBases <- QuickBases
CONSTANT RefRows <- QuickRef
CONSTANT Layouts <- QuickLayouts
CONSTANT HapLen = 3
CONSTANT MaxAlt = 2
CONSTANT Ploidies <- QuickPloidies
CONSTANT GTOrdered = FALSE
CONSTANT Modes <- AllModes
CONSTANT SiteWeight <- MutSiteWeight
INVARIANT ACPSumsToPloidy
CHECK_DEADLOCK FALSE
