SPECIFICATION Spec
CONSTANT SiteBases <- QuickBases
CONSTANT RefRows <- QuickRef
CONSTANT Layouts <- QuickLayouts
CONSTANT HapLen = 3
CONSTANT MaxAlt = 2
CONSTANT Ploidies <- TetraPloidies
CONSTANT GTOrdered = FALSE
CONSTANT Modes <- TetraModes
INVARIANT TypeOK
INVARIANT LinesAreProjections
INVARIANT OneLinePerSite
INVARIANT EveryShapeAccepted
INVARIANT ProjectionConsistent
INVARIANT ACPSumsToPloidy
CONSTRAINT Dump
CHECK_DEADLOCK FALSE
