SPECIFICATION Spec
CONSTANT SiteBases <- QuickBases
CONSTANT RefRows <- QuickRef
CONSTANT Layouts <- QuickLayouts
CONSTANT HapLen = 3
CONSTANT MaxAlt = 2
CONSTANT Ploidies <- QuickPloidies
CONSTANT GTOrdered = FALSE
CONSTANT Modes <- AllModes
CONSTANT FirstAppearance <- MutSortedAlleles
INVARIANT ProjectionConsistent
CHECK_DEADLOCK FALSE
