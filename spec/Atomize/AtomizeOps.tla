----------------------------- MODULE AtomizeOps -----------------------------
(* C20: the per-SNV projection of one haplotype record, written from the      *)
(* documented definition (docs + VCF field descriptions), as pure operators  *)
(* over an abstract record.  Shared by Atomize.tla (state machine, model     *)
(* checked) and TraceAtomize.tla (validation of what `mchap atomize` prints).*)
(*                                                                           *)
(* abstract haplotype record r:                                              *)
(*   pos     POS of the haplotype record (1-based)                           *)
(*   ref     REF as a sequence of one-character strings                      *)
(*   alts    sequence of ALT sequences (possibly <<>> : ALT = ".")           *)
(*   snvpos  INFO/SNVPOS, 1-based offsets into the haplotypes (<<>> for ".") *)
(*   gts     per sample: sequence of allele numbers, -1 for "."              *)
(*   kind    "none" | "ACP" | "AFP" : which posterior field the samples carry*)
(*   acp     per sample: thousandths of that field per listed haplotype      *)
(*           (<<>> for a sample whose value is ".", as in NOA/AF0 records)    *)
(*   dp      per sample: SNVDP values per site (<<>> when absent)            *)
EXTENDS Integers, Sequences, FiniteSets

Range(s) == {s[i] : i \in DOMAIN s}

RECURSIVE SumSeq(_)
SumSeq(s) == IF s = <<>> THEN 0 ELSE Head(s) + SumSeq(Tail(s))

(* listed haplotypes: row 1 is REF (allele 0), row j+1 is ALT_j (allele j)   *)
Haps(r) == <<r.ref>> \o r.alts
NSites(r) == Len(r.snvpos)
NSamples(r) == Len(r.gts)
Column(r, i) == LET hs == Haps(r) IN [h \in 1..Len(hs) |-> hs[h][r.snvpos[i]]]

(* the distinct entries of a column in order of first appearance down the    *)
(* rows ("numbered by first appearance, REF first")                          *)
RECURSIVE FirstAppearance(_)
FirstAppearance(col) ==
  IF col = <<>> THEN <<>>
  ELSE LET init == FirstAppearance(SubSeq(col, 1, Len(col) - 1))
           last == col[Len(col)]
       IN  IF last \in Range(init) THEN init ELSE Append(init, last)

(* site i of record r: position, REF base, ALT bases, and for every listed   *)
(* haplotype the number of the site allele it carries                        *)
SiteOf(r, i) ==
  LET col == Column(r, i)
      al  == FirstAppearance(col)
  IN  [pos  |-> r.pos + r.snvpos[i] - 1,
       ref  |-> al[1],
       alts |-> Tail(al),
       hidx |-> [h \in 1..Len(col) |-> (CHOOSE j \in 1..Len(al) : al[j] = col[h]) - 1]]

(* phased projection of a haplotype GT onto a site; "." stays "."            *)
ProjectGT(g, hidx) == [j \in 1..Len(g) |-> IF g[j] < 0 THEN -1 ELSE hidx[g[j] + 1]]

CountIn(g, a) == Cardinality({j \in 1..Len(g) : g[j] = a})

(* called copies of listed haplotype h (row number) over all samples         *)
HapCopies(r, h) == SumSeq([s \in 1..NSamples(r) |-> CountIn(r.gts[s], h - 1)])

(* posterior weight of sample s on site allele a (0-based), and the total:   *)
(* the site value is ploidy * num / den ("marginalised to the site alleles   *)
(* and renormalised to the ploidy"; AFP * ploidy and ACP differ only by the  *)
(* factor that the renormalisation removes)                                  *)
SiteWeight(r, s, hidx, a) ==
  SumSeq([h \in 1..Len(hidx) |-> IF hidx[h] = a THEN r.acp[s][h] ELSE 0])

Line(r, i) ==
  LET st == SiteOf(r, i)
      m  == Len(st.alts)
      pg == [s \in 1..NSamples(r) |-> ProjectGT(r.gts[s], st.hidx)]
  IN  [pos  |-> st.pos,
       ref  |-> st.ref,
       alts |-> st.alts,
       ps   |-> r.pos,
       hidx |-> st.hidx,
       gt   |-> pg,
       \* AC by the projection: copies of site allele a among the projected GTs
       ac   |-> [a \in 1..m |-> SumSeq([s \in 1..NSamples(r) |-> CountIn(pg[s], a)])],
       \* the same by marginalising haplotype-level counts
       acm  |-> [a \in 1..m |-> SumSeq([h \in 1..Len(st.hidx) |->
                                  IF st.hidx[h] = a THEN HapCopies(r, h) ELSE 0])],
       acp  |-> IF r.kind = "none" THEN <<>>
                ELSE [s \in 1..NSamples(r) |->
                        IF r.acp[s] = <<>> THEN [num |-> <<>>, den |-> 0]   \* field present, value "."
                        ELSE [num |-> [a \in 1..(m + 1) |-> Len(r.gts[s]) * SiteWeight(r, s, st.hidx, a - 1)],
                              den |-> SumSeq(r.acp[s])]],
       dp   |-> IF r.dp = <<>> THEN <<>> ELSE [s \in 1..NSamples(r) |-> r.dp[s][i]],
       mono |-> (m = 0)]

Lines(r) == [i \in 1..NSites(r) |-> Line(r, i)]

(* ---- properties of one model line (checked by TLC on every record) ------ *)
MaxUpTo(f, h) == IF h = 0 THEN -1 ELSE CHOOSE x \in {f[j] : j \in 1..h} : \A j \in 1..h : f[j] <= x

(* characterisation of first-appearance numbering that does not mention the  *)
(* recursive definition: REF is 0, equal bases <=> equal numbers, and every  *)
(* new number is exactly one more than the largest number used so far        *)
NumberingOK(r, i, ln) ==
  LET col == Column(r, i)
      f   == ln.hidx
  IN  /\ f[1] = 0
      /\ \A h, g \in 1..Len(col) : (col[h] = col[g]) <=> (f[h] = f[g])
      /\ \A h \in 1..Len(col) : f[h] <= MaxUpTo(f, h - 1) + 1
      /\ \A h \in 1..Len(col) : (<<ln.ref>> \o ln.alts)[f[h] + 1] = col[h]
      /\ Len(ln.alts) = MaxUpTo(f, Len(col))

(* the base the sample's j-th haplotype carries at the site is the base the  *)
(* projected allele number names                                             *)
ProjectionOK(r, i, ln) ==
  \A s \in 1..NSamples(r) : \A j \in 1..Len(r.gts[s]) :
     IF r.gts[s][j] < 0 THEN ln.gt[s][j] = -1
     ELSE (<<ln.ref>> \o ln.alts)[ln.gt[s][j] + 1] = Haps(r)[r.gts[s][j] + 1][r.snvpos[i]]

CountsOK(r, ln) ==
  /\ ln.ac = ln.acm
  /\ SumSeq(ln.ac) + SumSeq([s \in 1..NSamples(r) |-> CountIn(ln.gt[s], 0)])
       = SumSeq([s \in 1..NSamples(r) |-> Cardinality({j \in 1..Len(r.gts[s]) : r.gts[s][j] >= 0})])

PosteriorOK(r, ln) ==
  ln.acp # <<>> =>
    \A s \in 1..NSamples(r) : ln.acp[s].den > 0 => SumSeq(ln.acp[s].num) = Len(r.gts[s]) * ln.acp[s].den

LineOK(r, i, ln) ==
  /\ ln.pos = r.pos + r.snvpos[i] - 1
  /\ ln.ps = r.pos
  /\ NumberingOK(r, i, ln)
  /\ ProjectionOK(r, i, ln)
  /\ CountsOK(r, ln)
  /\ PosteriorOK(r, ln)
=============================================================================
