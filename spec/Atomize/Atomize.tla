------------------------------- MODULE Atomize -------------------------------
(* C20: `mchap atomize` as a record transducer.                               *)
(* A behaviour first assembles one abstract haplotype record field by field   *)
(* (the instance space: every record of the bounded domain is reached by      *)
(* exactly the build actions), then the atomizer consumes it site by site,    *)
(* emitting one line per SNVPOS entry; a site with no alternative base among  *)
(* the listed haplotypes may be emitted with ALT "." or skipped (the property *)
(* allows both).  Invariants are evaluated in every state; the completed      *)
(* record and the model's lines are printed once per record for the replay    *)
(* into the real `atomize_vcf`.                                               *)
EXTENDS AtomizeOps, TLC, Json

CONSTANTS
  SiteBases,   \* bases that may occur at a SNV site
  RefRows(_),  \* n |-> set of REF site-base rows (quick: all "A", by column renaming symmetry; thorough: others)
  Layouts,     \* set of SNVPOS sequences (relative, ascending, within 1..HapLen)
  HapLen,      \* haplotype length; non-SNV positions hold "T"
  MaxAlt,      \* at most this many ALT haplotypes
  Ploidies,    \* sequence: ploidy of each sample
  GTOrdered,   \* TRUE: every ordered GT tuple; FALSE: ascending with "." last (what the programs print)
  Modes        \* subset of {"none", "ACP", "ACPU", "AFP", "AFPM"}

QuickBases == {"A", "C", "G"}
QuickLayouts == {<<>>, <<2>>, <<1, 3>>}
ThoroughLayouts == {<<>>, <<2>>, <<1, 3>>, <<2, 3>>}
QuickRef(n) == {[i \in 1..n |-> "A"]}
ThoroughRef(n) == {[i \in 1..n |-> "C"], [i \in 1..n |-> IF i = 1 THEN "G" ELSE "A"]}
QuickPloidies == <<2, 2>>
TetraPloidies == <<4, 2>>
HaploDiploid == <<1, 2>>
TwoModes == {"none", "ACPU"}
OneMode == {"ACPU"}
QuickModes == {"none", "ACPU", "AFP", "AFPM"}
TetraModes == {"none", "ACP", "AFPM"}
AllModes == {"none", "ACP", "ACPU", "AFP", "AFPM"}

Pos0 == 5    \* POS of the haplotype record (not 1, so an off-by-one in POS + SNVPOS - 1 shows)

VARIABLES stage, rec, site, lines
vars == <<stage, rec, site, lines>>

(* ---- the instance domain ------------------------------------------------ *)
Rows(n) == [1..n -> SiteBases]
Full(row, sp) == [p \in 1..HapLen |-> IF \E i \in 1..Len(sp) : sp[i] = p
                                      THEN row[CHOOSE i \in 1..Len(sp) : sp[i] = p] ELSE "T"]

GTs(P, k) ==
  IF GTOrdered THEN [1..P -> -1..k]
  ELSE {g \in [1..P -> -1..k] : \A j \in 1..(P - 1) : g[j + 1] = -1 \/ (g[j] # -1 /\ g[j] <= g[j + 1])}

(* posterior fields: fixed thousandths patterns (with a zero, un-normalised  *)
(* in mode ACPU, frequencies in mode AFP, "." in mode AFPM), rotated per     *)
(* sample; the haplotype                                                     *)
(* rows they are marginalised over vary exhaustively                         *)
Rot(s, t) == [j \in 1..Len(s) |-> s[((j - 1 + t) % Len(s)) + 1]]
Pattern(mode, k, P) ==
  CASE mode = "ACP"  -> (CASE k = 0 -> <<1000 * P>> [] k = 1 -> <<1000 * P - 750, 750>>
                           [] OTHER -> <<1000 * P - 1250, 1250, 0>>)
    [] mode = "ACPU" -> (CASE k = 0 -> <<1000 * P - 500>> [] k = 1 -> <<500, 250>>
                           [] OTHER -> <<250, 0, 500>>)
    [] mode = "AFP"  -> (CASE k = 0 -> <<1000>> [] k = 1 -> <<625, 375>>
                           [] OTHER -> <<500, 125, 375>>)
    [] OTHER -> <<>>
Kind(mode) == CASE mode = "none" -> "none" [] mode \in {"AFP", "AFPM"} -> "AFP" [] OTHER -> "ACP"

Complete(r, mode) ==
  LET k == Len(r.alts)
      n == Len(r.gts)
  IN  [r EXCEPT !.kind = Kind(mode),
                !.acp = IF mode = "none" THEN <<>>
                        ELSE IF mode = "AFPM" THEN [s \in 1..n |-> <<>>]   \* AFP = "." (NOA / AF0 records)
                        ELSE [s \in 1..n |-> Rot(Pattern(mode, k, Len(r.gts[s])), s - 1)],
                !.dp = IF mode = "ACPU" THEN [s \in 1..n |-> [i \in 1..Len(r.snvpos) |-> 3 * s + i]]
                       ELSE <<>>]

(* ---- build phase -------------------------------------------------------- *)
Init ==
  /\ stage = "alts"
  /\ site = 0
  /\ lines = <<>>
  /\ \E sp \in Layouts : \E row \in RefRows(Len(sp)) : \E mode \in Modes :
       rec = [pos |-> Pos0, ref |-> Full(row, sp), alts |-> <<>>, snvpos |-> sp, gts |-> <<>>,
              kind |-> "none", acp |-> <<>>, dp |-> <<>>, mode |-> mode]

AddAlt ==
  /\ stage = "alts"
  /\ Len(rec.alts) < MaxAlt
  /\ \E row \in Rows(Len(rec.snvpos)) :
       LET h == Full(row, rec.snvpos)
       IN  /\ h \notin Range(Haps(rec))          \* listed haplotypes are pairwise distinct
           /\ rec' = [rec EXCEPT !.alts = Append(@, h)]
  /\ UNCHANGED <<stage, site, lines>>

EndAlts ==
  /\ stage = "alts"
  /\ stage' = "gts"
  /\ UNCHANGED <<rec, site, lines>>

AddGT ==
  /\ stage = "gts"
  /\ Len(rec.gts) < Len(Ploidies)
  /\ \E g \in GTs(Ploidies[Len(rec.gts) + 1], Len(rec.alts)) :
       \* mode AFPM is the filtered-record shape: nothing called, every sample field "."
       /\ (rec.mode = "AFPM" => \A j \in DOMAIN g : g[j] = -1)
       /\ LET r2 == [rec EXCEPT !.gts = Append(@, g)]
          IN  IF Len(r2.gts) = Len(Ploidies)
              THEN rec' = Complete(r2, rec.mode) /\ stage' = "atomize"
              ELSE rec' = r2 /\ stage' = stage
  /\ UNCHANGED <<site, lines>>

(* ---- the atomizer: one site per step ------------------------------------ *)
EmitSite ==
  /\ stage = "atomize"
  /\ site < NSites(rec)
  /\ site' = site + 1
  /\ lines' = Append(lines, Line(rec, site + 1))
  /\ UNCHANGED <<stage, rec>>

SkipMonomorphicSite ==
  /\ stage = "atomize"
  /\ site < NSites(rec)
  /\ Line(rec, site + 1).mono
  /\ site' = site + 1
  /\ UNCHANGED <<stage, rec, lines>>

Finish ==
  /\ stage = "atomize"
  /\ site = NSites(rec)
  /\ stage' = "done"
  /\ UNCHANGED <<rec, site, lines>>

Next == AddAlt \/ EndAlts \/ AddGT \/ EmitSite \/ SkipMonomorphicSite \/ Finish
Spec == Init /\ [][Next]_vars

(* ---- invariants --------------------------------------------------------- *)
TypeOK ==
  /\ stage \in {"alts", "gts", "atomize", "done"}
  /\ site \in 0..NSites(rec)
  /\ Len(rec.alts) <= MaxAlt
  /\ \A h \in Range(Haps(rec)) : Len(h) = HapLen

(* every emitted line is the projection of its site *)
LinesAreProjections ==
  \A l \in 1..Len(lines) :
    \E i \in 1..site : lines[l].pos = rec.pos + rec.snvpos[i] - 1 /\ LineOK(rec, i, lines[l])

(* at the end: exactly one line per polymorphic site, at most one per        *)
(* monomorphic site, nothing else, in site order                             *)
OneLinePerSite ==
  stage = "done" =>
    /\ \A i \in 1..NSites(rec) :
         LET n == Cardinality({l \in 1..Len(lines) : lines[l].pos = rec.pos + rec.snvpos[i] - 1})
         IN  IF Line(rec, i).mono THEN n <= 1 ELSE n = 1
    /\ \A l \in 1..Len(lines) : \E i \in 1..NSites(rec) : lines[l].pos = rec.pos + rec.snvpos[i] - 1
    /\ \A l \in 1..(Len(lines) - 1) : lines[l].pos < lines[l + 1].pos

(* the transducer is total on the domain: whatever the shape of the record   *)
(* (no ALT, no SNV, monomorphic sites, "." alleles, any posterior mode) the   *)
(* atomizer can always take its next step until it has consumed every site   *)
EveryShapeAccepted ==
  stage = "atomize" => (ENABLED EmitSite \/ ENABLED Finish)

(* every site of every complete record satisfies the line properties         *)
ProjectionConsistent ==
  (stage = "atomize" /\ site = 0) => \A i \in 1..NSites(rec) : LineOK(rec, i, Line(rec, i))

ACPSumsToPloidy ==
  (stage = "atomize" /\ site = 0) => \A i \in 1..NSites(rec) : PosteriorOK(rec, Line(rec, i))

(* ---- wrong definitions for the mutant configs --------------------------- *)
BaseRank(b) == CASE b = "A" -> 1 [] b = "C" -> 2 [] b = "G" -> 3 [] OTHER -> 4
RECURSIVE SortedBases(_)
SortedBases(S) == IF S = {} THEN <<>>
                  ELSE LET x == CHOOSE y \in S : \A z \in S : BaseRank(y) <= BaseRank(z)
                       IN  <<x>> \o SortedBases(S \ {x})
(* np.unique order with REF moved to the front instead of first appearance  *)
MutSortedAlleles(col) == <<col[1]>> \o SortedBases(Range(col) \ {col[1]})
(* marginalisation without the renormalisation                               *)
MutSiteWeight(r, s, hidx, a) ==
  IF a = 0 THEN 0 ELSE SumSeq([h \in 1..Len(hidx) |-> IF hidx[h] = a THEN r.acp[s][h] ELSE 0])

(* ---- output for the replay ---------------------------------------------- *)
Dump ==
  IF stage = "atomize" /\ site = 0
  THEN PrintT(<<"@@J", ToJson([rec |-> rec, lines |-> Lines(rec)])>>)
  ELSE TRUE
=============================================================================
