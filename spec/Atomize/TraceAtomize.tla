---------------------------- MODULE TraceAtomize ----------------------------
(* code -> spec for C20.  One trace event per haplotype record that was fed   *)
(* to the real `mchap atomize`:                                               *)
(*   rec     the input record as read by the independent VCF text reader      *)
(*   crashed TRUE when atomize raised on it                                   *)
(*   lines   what atomize printed for it (pos, ref, alts, ps, gt, phased, ac,  *)
(*           acp, ds; thousandths for acp/ds; -1 for ".")                     *)
(* TLC computes the model projection (AtomizeOps!Line) of every SNVPOS entry   *)
(* and gives each event a verdict naming the first failing clause.            *)
EXTENDS AtomizeOps, TLC, Json, IOUtils

Trace == JsonDeserialize(IOEnv.TRACE_FILE)

VARIABLES l, bad
vars == <<l, bad>>

Abs(x) == IF x < 0 THEN -x ELSE x
AllMissing(s) == \A j \in 1..Len(s) : s[j] = -1

(* a printed 3-decimal value (thousandths) against the exact rational num/den *)
NearMilli(out, num, den) == out >= 0 /\ 2 * Abs(out * den - 1000 * num) <= den

HasWeights(r, s) == r.kind # "none" /\ r.acp[s] # <<>> /\ SumSeq(r.acp[s]) > 0

LineVerdict(r, m, o) ==
  LET k  == Len(m.alts)
      ns == NSamples(r)
  IN
  IF ~o.chrom_ok THEN "Chrom"
  ELSE IF o.ref # m.ref THEN "RefBase"
  ELSE IF o.alts # m.alts THEN "AltBases"
  ELSE IF o.ps # m.ps THEN "PS"
  ELSE IF Len(o.gt) # ns \/ o.gt # m.gt THEN "GTProjection"
  ELSE IF \E s \in 1..ns : ~o.phased[s] THEN "Phased"
  ELSE IF (IF k = 0 THEN ~(o.ac = <<>> \/ o.ac = <<-1>>) ELSE o.ac # m.ac) THEN "AC"
  ELSE IF \E s \in 1..ns :
            IF k = 0 THEN ~(o.ds[s] = <<>> \/ o.ds[s] = <<-1>>)
            ELSE IF ~HasWeights(r, s) THEN (r.kind = "none" \/ r.acp[s] = <<>>) /\ ~AllMissing(o.ds[s])
            ELSE \/ Len(o.ds[s]) # k
                 \/ \E a \in 1..k : ~NearMilli(o.ds[s][a], m.acp[s].num[a + 1], m.acp[s].den)
       THEN "DS"
  ELSE IF r.kind = "none" THEN (IF AllMissing(o.acp) THEN "ok" ELSE "ACP")
  ELSE IF \E s \in 1..ns : ~HasWeights(r, s) THEN "ok"      \* total undefined: unconstrained
  ELSE IF Len(o.acp) # k + 1 \/ \E a \in 1..(k + 1) : o.acp[a] < 0 THEN "ACP"
  ELSE LET tot == SumSeq([s \in 1..ns |-> 1000 * Len(r.gts[s])])
           alt(a) == SumSeq([s \in 1..ns |-> o.ds[s][a]])
           altsum == SumSeq([a \in 1..k |-> alt(a)])
       IN  IF /\ \A a \in 1..k : 2 * Abs(o.acp[a + 1] - alt(a)) <= ns + 1
              /\ 2 * Abs(o.acp[1] - (tot - altsum)) <= ns * k + 1
           THEN "ok" ELSE "ACP"

Verdict(e) ==
  IF e.crashed THEN "EveryShapeAccepted"
  ELSE IF e.malformed THEN "OutputWellFormed"
  ELSE
  LET r  == e.rec
      n  == NSites(r)
      ml == Lines(r)
      at(i) == {j \in 1..Len(e.lines) : e.lines[j].pos = ml[i].pos}
  IN
  IF \E j \in 1..Len(e.lines) : \A i \in 1..n : e.lines[j].pos # ml[i].pos THEN "LineAtUnknownPosition"
  ELSE IF \E i \in 1..n : IF ml[i].mono THEN Cardinality(at(i)) > 1 ELSE Cardinality(at(i)) # 1 THEN "OneLinePerSite"
  ELSE LET vv == {<<i, j>> \in (1..n) \X (1..Len(e.lines)) : e.lines[j].pos = ml[i].pos}
           bads == {LineVerdict(r, ml[p[1]], e.lines[p[2]]) : p \in vv} \ {"ok"}
       IN  IF bads = {} THEN "ok" ELSE CHOOSE c \in bads : TRUE

Init == l = 1 /\ bad = 0
Next == /\ l <= Len(Trace)
        /\ LET v == Verdict(Trace[l])
           IN  /\ IF v = "ok" THEN TRUE ELSE PrintT(<<"@@J", ToJson([reject |-> l, clause |-> v])>>)
               /\ bad' = IF v = "ok" THEN bad ELSE bad + 1
        /\ l' = l + 1
Spec == Init /\ [][Next]_vars
Consumed == (l = Len(Trace) + 1) => PrintT(<<"@@J", ToJson([consumed |-> l - 1, rejected |-> bad])>>)
=============================================================================
