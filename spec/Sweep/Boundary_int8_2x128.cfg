SPECIFICATION Spec
CONSTANT P = 2
CONSTANT N = 128
CONSTANT IndexBits = 8
CONSTANT Order = "identity"
INVARIANT ExactlyOnce
INVARIANT AtMostOnce
INVARIANT Progress
INVARIANT CountsAdd
CONSTRAINT Dump
CHECK_DEADLOCK FALSE
