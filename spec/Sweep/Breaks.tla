------------------------------- MODULE Breaks -------------------------------
(* C15 (second clause): the random interval sets used by recombination and    *)
(* dosage moves always partition the SNV range 0..n into contiguous non-empty *)
(* half-open intervals.  Model of structural.random_breaks: `breaks` cut       *)
(* points are drawn one at a time, without replacement, from 1..n-1.          *)
EXTENDS Integers, Sequences, FiniteSets, TLC, Json

CONSTANTS NMax       \* instances: all n in 1..NMax, all breaks in 0..n-1

VARIABLES n, breaks, chosen, drawn
vars == <<n, breaks, chosen, drawn>>

Init == /\ n \in 1..NMax
        /\ breaks \in 0..(NMax - 1)
        /\ breaks < n
        /\ chosen = {}
        /\ drawn = 0

Draw == /\ drawn < breaks
        /\ \E x \in (1..(n - 1)) \ chosen :
             chosen' = chosen \cup {x}
        /\ drawn' = drawn + 1
        /\ UNCHANGED <<n, breaks>>

Next == Draw
Spec == Init /\ [][Next]_vars

Done == drawn = breaks

(* the interval list the function returns: consecutive cut points 0 < .. < n  *)
Points == {0, n} \cup chosen
RECURSIVE SortedSeq(_)
SortedSeq(S) == IF S = {} THEN <<>>
                ELSE LET m == CHOOSE x \in S : \A y \in S : x <= y
                     IN  <<m>> \o SortedSeq(S \ {m})
Intervals == LET pts == SortedSeq(Points)
             IN  [i \in 1..(Len(pts) - 1) |-> <<pts[i], pts[i + 1]>>]

IsPartition(iv, nn, k) ==
  /\ Len(iv) = k + 1
  /\ iv[1][1] = 0
  /\ iv[Len(iv)][2] = nn
  /\ \A i \in 1..Len(iv) : iv[i][1] < iv[i][2]                    \* non-empty
  /\ \A i \in 1..(Len(iv) - 1) : iv[i][2] = iv[i + 1][1]          \* contiguous, no gap/overlap

PartitionWhenDone == Done => IsPartition(Intervals, n, breaks)
NeverStuck == ~Done => (1..(n - 1)) \ chosen # {}       \* a cut point is always available
DistinctCuts == Cardinality(chosen) = drawn

Dump == Done => PrintT(<<"@@J", ToJson([n |-> n, breaks |-> breaks, intervals |-> Intervals])>>)
=============================================================================
