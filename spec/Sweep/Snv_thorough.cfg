SPECIFICATION Spec
CONSTANT Ploidies = {2, 3, 4, 6}
CONSTANT AlleleCounts = {2, 3}
CONSTANT MaxReads = 3
CONSTANT MaxCount = 3
INVARIANT WeightsPositive
INVARIANT HomozygotesListed
INVARIANT GapIsNeutral
CONSTRAINT Dump
CHECK_DEADLOCK FALSE
