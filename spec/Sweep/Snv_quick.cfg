SPECIFICATION Spec
CONSTANT Ploidies = {2, 4}
CONSTANT AlleleCounts = {2, 3}
CONSTANT MaxReads = 2
CONSTANT MaxCount = 2
INVARIANT WeightsPositive
INVARIANT HomozygotesListed
INVARIANT GapIsNeutral
CONSTRAINT Dump
CHECK_DEADLOCK FALSE
