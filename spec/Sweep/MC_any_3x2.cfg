SPECIFICATION Spec
CONSTANT P = 3
CONSTANT N = 2
CONSTANT IndexBits = 64
CONSTANT Order = "any"
INVARIANT ExactlyOnce
INVARIANT AtMostOnce
INVARIANT Progress
INVARIANT CountsAdd
CONSTRAINT Dump
CHECK_DEADLOCK FALSE
