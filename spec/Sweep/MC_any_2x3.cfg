SPECIFICATION Spec
CONSTANT P = 2
CONSTANT N = 3
CONSTANT IndexBits = 64
CONSTANT Order = "any"
INVARIANT ExactlyOnce
INVARIANT AtMostOnce
INVARIANT Progress
INVARIANT CountsAdd
CONSTRAINT Dump
CHECK_DEADLOCK FALSE
