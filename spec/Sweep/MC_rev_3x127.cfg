SPECIFICATION Spec
CONSTANT P = 3
CONSTANT N = 127
CONSTANT IndexBits = 64
CONSTANT Order = "reverse"
INVARIANT ExactlyOnce
INVARIANT AtMostOnce
INVARIANT Progress
INVARIANT CountsAdd
CONSTRAINT Dump
CHECK_DEADLOCK FALSE
