----------------------------- MODULE TraceBreaks -----------------------------
(* code -> spec: every recorded output of structural.random_breaks (compiled, *)
(* many seeds) must be a partition the Breaks model can reach; every recorded *)
(* sweep of mutation.compound_step (interpreted, base_step replaced by a      *)
(* recorder) must be a Sweep behaviour: each (h, j) once, right allele count. *)
EXTENDS Integers, Sequences, FiniteSets, TLC, Json, IOUtils

Trace == JsonDeserialize(IOEnv.TRACE_FILE)
VARIABLES l, bad
vars == <<l, bad>>

IsPartition(iv, nn, k) ==
  /\ Len(iv) = k + 1
  /\ iv[1][1] = 0
  /\ iv[Len(iv)][2] = nn
  /\ \A i \in 1..Len(iv) : iv[i][1] < iv[i][2]
  /\ \A i \in 1..(Len(iv) - 1) : iv[i][2] = iv[i + 1][1]

(* a sweep event: P, N, na (alleles per column), calls = sequence of <<h, j, n_alleles>> *)
SweepVerdict(e) ==
  LET calls == e.calls
      pairs == {<<c[1], c[2]>> : c \in {calls[i] : i \in 1..Len(calls)}}
  IN  IF Len(calls) # e.P * e.N THEN "SweepLength"
      ELSE IF \E i \in 1..Len(calls) : ~(calls[i][1] \in 0..(e.P - 1) /\ calls[i][2] \in 0..(e.N - 1)) THEN "SweepInRange"
      ELSE IF Cardinality(pairs) # e.P * e.N THEN "SweepExactlyOnce"
      ELSE IF \E i \in 1..Len(calls) : calls[i][3] # e.na[calls[i][2] + 1] THEN "SweepAlleleCount"
      ELSE "ok"

Verdict(e) ==
  CASE e.op = "breaks" -> IF IsPartition(e.intervals, e.n, e.breaks) THEN "ok" ELSE "IsPartition"
    [] e.op = "sweep"  -> SweepVerdict(e)
    [] e.op = "isteps" -> \* one structural compound step: every interval of the set stepped through exactly once
         IF Len(e.used) # Len(e.intervals) THEN "IntervalsEachOnceLength"
         ELSE IF {e.used[i] : i \in 1..Len(e.used)} # {e.intervals[i] : i \in 1..Len(e.intervals)} THEN "IntervalsEachOnce"
         ELSE IF ~IsPartition(e.intervals, e.n, Len(e.intervals) - 1) THEN "IntervalsPartition"
         ELSE "ok"
    [] OTHER -> "UnknownEvent"

Init == l = 1 /\ bad = 0
Next == /\ l <= Len(Trace)
        /\ LET v == Verdict(Trace[l])
           IN  /\ IF v = "ok" THEN TRUE ELSE PrintT(<<"@@J", ToJson([reject |-> l, clause |-> v])>>)
               /\ bad' = IF v = "ok" THEN bad ELSE bad + 1
        /\ l' = l + 1
Spec == Init /\ [][Next]_vars
Consumed == (l = Len(Trace) + 1) => PrintT(<<"@@J", ToJson([consumed |-> l - 1, rejected |-> bad])>>)
=============================================================================
