SPECIFICATION Spec
CONSTANT Ploidies = {16}
CONSTANT AlleleCounts = {3}
CONSTANT MaxReads = 2
CONSTANT MaxCount = 2
CONSTANT Fs <- FsZero
CONSTANT Perms <- PermsSafe
INVARIANT WeightsPositive
INVARIANT HomozygotesListed
INVARIANT GapIsNeutral
CONSTRAINT Dump
CHECK_DEADLOCK FALSE
