SPECIFICATION Spec
CONSTANT NMax = 11
INVARIANT PartitionWhenDone
INVARIANT NeverStuck
INVARIANT DistinctCuts
CONSTRAINT Dump
CHECK_DEADLOCK FALSE
