SPECIFICATION Spec
CONSTANT P = 6
CONSTANT N = 150
CONSTANT IndexBits = 64
CONSTANT Order = "identity"
INVARIANT ExactlyOnce
INVARIANT AtMostOnce
INVARIANT Progress
INVARIANT CountsAdd
CONSTRAINT Dump
CHECK_DEADLOCK FALSE
