SPECIFICATION Spec
CONSTANT N = 2
CONSTANT A = 3
CONSTANT T = 768
CONSTANT Ploidy = 3
CONSTANT Steps = 2
CONSTANT Strict = FALSE
INVARIANT FixedIffThreshold
INVARIANT FixedAlleleIsTheOne
INVARIANT HetColumnsAreTheSampledTrace
INVARIANT FixedColumnsConstant
INVARIANT OrderPreserved
CONSTRAINT Dump
CHECK_DEADLOCK FALSE
