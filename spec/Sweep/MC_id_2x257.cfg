SPECIFICATION Spec
CONSTANT P = 2
CONSTANT N = 257
CONSTANT IndexBits = 64
CONSTANT Order = "identity"
INVARIANT ExactlyOnce
INVARIANT AtMostOnce
INVARIANT Progress
INVARIANT CountsAdd
CONSTRAINT Dump
CHECK_DEADLOCK FALSE
