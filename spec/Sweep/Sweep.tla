------------------------------- MODULE Sweep -------------------------------
(* C15 (first clause): one assemble MCMC iteration attempts a mutation at     *)
(* every (haplotype copy, variable SNV) pair exactly once.                    *)
(* Model of mutation.compound_step: a table of (h, j) sub-steps is built,     *)
(* shuffled, and each row is visited once; row entries are stored in a table  *)
(* whose element width is IndexBits (8 models an int8 table: values wrap      *)
(* modulo 256 and a negative column index addresses from the end, as Python / *)
(* numba indexing does).  The claimed configuration is IndexBits = 64.        *)
EXTENDS Integers, Sequences, FiniteSets, TLC, Json

CONSTANTS P,          \* ploidy
          N,          \* number of variable SNVs
          IndexBits,  \* 8 or 64
          Order       \* "any": TLC explores every shuffle; "identity" / "reverse": one fixed shuffle

VARIABLES phase,      \* "build" | "visit" | "done"
          table,      \* sequence of <<h, j>> as stored (after width wrap)
          remaining,  \* set of table positions not yet visited
          visited,    \* [<<h, j>> -> number of base_step attempts]
          hist        \* sequence of table positions in visiting order
vars == <<phase, table, remaining, visited, hist>>

Wrap(x) == IF IndexBits = 8 THEN ((x + 128) % 256) - 128 ELSE x
Eff(j) == IF j < 0 THEN j + N ELSE j          \* negative index wraps around
Pairs == (0..(P - 1)) \X (0..(N - 1))

Init == /\ phase = "build"
        /\ table = <<>>
        /\ remaining = {}
        /\ visited = [pr \in Pairs |-> 0]
        /\ hist = <<>>

(* for h in range(ploidy): for j in range(n_base): substeps[h*n_base+j] = (h, j) *)
Build == /\ phase = "build"
         /\ LET s == Len(table)
                h == s \div N
                j == s % N
            IN  /\ table' = Append(table, <<Wrap(h), Wrap(j)>>)
                /\ phase' = IF s + 1 = P * N THEN "visit" ELSE "build"
                /\ remaining' = IF s + 1 = P * N THEN 1..(P * N) ELSE {}
         /\ UNCHANGED <<visited, hist>>

Pick(i) == CASE Order = "any" -> TRUE
             [] Order = "identity" -> i = Len(hist) + 1
             [] Order = "reverse" -> i = P * N - Len(hist)

Visit(i) == /\ phase = "visit"
            /\ i \in remaining
            /\ Pick(i)
            /\ LET h == Eff(table[i][1])
                   j == Eff(table[i][2])
               IN  /\ <<h, j>> \in Pairs      \* otherwise the real code raises / reads out of bounds
                   /\ visited' = [visited EXCEPT ![<<h, j>>] = @ + 1]
            /\ remaining' = remaining \ {i}
            /\ hist' = Append(hist, i)
            /\ phase' = IF remaining' = {} THEN "done" ELSE "visit"
            /\ UNCHANGED table

Next == Build \/ \E i \in 1..(P * N) : Visit(i)
Spec == Init /\ [][Next]_vars

(* ---- properties ---------------------------------------------------------- *)
ExactlyOnce == phase = "done" => \A pr \in Pairs : visited[pr] = 1
AtMostOnce == \A pr \in Pairs : visited[pr] <= 1
Progress == phase = "visit" => \E i \in remaining : <<Eff(table[i][1]), Eff(table[i][2])>> \in Pairs
CountsAdd == phase = "done" => Len(hist) = P * N

Dump == phase = "done" =>
          PrintT(<<"@@J", ToJson([P |-> P, N |-> N, order |-> hist,
                                  pairs |-> [k \in 1..Len(hist) |-> <<Eff(table[hist[k]][1]), Eff(table[hist[k]][2])>>]])>>)
=============================================================================
