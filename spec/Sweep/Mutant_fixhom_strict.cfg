SPECIFICATION Spec
CONSTANT N = 2
CONSTANT A = 2
CONSTANT T = 1023
CONSTANT Ploidy = 2
CONSTANT Steps = 2
CONSTANT Strict = TRUE
INVARIANT FixedIffThreshold
INVARIANT FixedAlleleIsTheOne
INVARIANT HetColumnsAreTheSampledTrace
INVARIANT FixedColumnsConstant
INVARIANT OrderPreserved
CONSTRAINT Dump
CHECK_DEADLOCK FALSE
