SPECIFICATION Spec
CONSTANT NMax = 8
INVARIANT PartitionWhenDone
INVARIANT NeverStuck
INVARIANT DistinctCuts
CONSTRAINT Dump
CHECK_DEADLOCK FALSE
