------------------------------- MODULE FixHom -------------------------------
(* C15 (third clause): SNVs are held fixed exactly when their single-SNV      *)
(* posterior probability of being homozygous reaches the threshold, and fixed *)
(* SNVs reappear in the trace in the correct column with the correct allele.  *)
(* Model of DenovoMCMC._mcmc around the sampler: probabilities are dyadic     *)
(* (numerators over 1024) so the implementation's float comparison is exact.  *)
(* The model assumes threshold > 1/2 (at most one allele per SNV reaches it). *)
EXTENDS Integers, Sequences, FiniteSets, TLC, Json

CONSTANTS N,        \* number of SNVs
          A,        \* alleles per SNV (same for all columns in the model)
          T,        \* threshold numerator (threshold = T/1024), T > 512
          Ploidy, Steps,
          Strict    \* FALSE: fixed iff hom >= T (documented).  TRUE: the mutant `>`.

Vals == {0, 512, T - 1, T, 1024}
RECURSIVE SumSeq(_)
SumSeq(s) == IF s = <<>> THEN 0 ELSE Head(s) + SumSeq(Tail(s))
ColVecs == {v \in [1..A -> Vals] : SumSeq(v) <= 1024}

VARIABLES hom,      \* [1..N -> [1..A -> numerator]]  single-SNV posterior of each homozygous genotype
          j,        \* next column to classify (1..N+1)
          mask,     \* sequence over classified columns: 0 = heterozygous (sampled), a+1 = fixed at allele a
          out       \* the reinserted trace once all columns are classified, else <<>>
vars == <<hom, j, mask, out>>

Reaches(v) == IF Strict THEN v > T ELSE v >= T
FixedAllele(col) ==      \* 0 if none, else allele+1 (alleles are 0-based in the code)
  IF \E a \in 1..A : Reaches(hom[col][a])
  THEN CHOOSE a \in 1..A : Reaches(hom[col][a])
  ELSE 0

(* the sampler runs on the heterozygous columns only; the stub trace used by   *)
(* the binding holds a recognisable code in every cell                         *)
HetCode(s, h, k) == 10 * (k - 1) + 2 * (h - 1) + (s - 1) + 1

HetRank(m, col) == Cardinality({c \in 1..col : m[c] = 0})
Reinsert(m) ==
  [s \in 1..Steps |-> [h \in 1..Ploidy |-> [col \in 1..N |->
      IF m[col] = 0 THEN HetCode(s, h, HetRank(m, col)) ELSE m[col] - 1]]]

Init == /\ hom \in [1..N -> ColVecs]
        /\ j = 1
        /\ mask = <<>>
        /\ out = <<>>

Classify == /\ j <= N
            /\ mask' = Append(mask, FixedAllele(j))
            /\ j' = j + 1
            /\ out' = IF j = N THEN Reinsert(mask') ELSE <<>>
            /\ UNCHANGED hom
Next == Classify
Spec == Init /\ [][Next]_vars

Done == j = N + 1
(* documented rule, stated independently of Reaches/Strict *)
FixedIffThreshold == \A col \in 1..Len(mask) :
                        (mask[col] # 0) <=> (\E a \in 1..A : hom[col][a] >= T)
FixedAlleleIsTheOne == \A col \in 1..Len(mask) : mask[col] # 0 => hom[col][mask[col]] >= T
HetColumnsAreTheSampledTrace == Done =>
   \A s \in 1..Steps, h \in 1..Ploidy :
      LET hetcols == {c \in 1..N : mask[c] = 0}
      IN  \A c \in hetcols : out[s][h][c] = HetCode(s, h, HetRank(mask, c))
FixedColumnsConstant == Done =>
   \A s \in 1..Steps, h \in 1..Ploidy, c \in 1..N : mask[c] # 0 => out[s][h][c] = mask[c] - 1
OrderPreserved == Done =>
   \A s \in 1..Steps, h \in 1..Ploidy, c1, c2 \in 1..N :
      (mask[c1] = 0 /\ mask[c2] = 0 /\ c1 < c2) => out[s][h][c1] < out[s][h][c2]

Dump == Done => PrintT(<<"@@J", ToJson([N |-> N, A |-> A, T |-> T, P |-> Ploidy, S |-> Steps,
                                        hom |-> hom, mask |-> mask, out |-> out])>>)
=============================================================================
