SPECIFICATION Spec
CONSTANT P = 2
CONSTANT N = 520
CONSTANT IndexBits = 64
CONSTANT Order = "reverse"
INVARIANT ExactlyOnce
INVARIANT AtMostOnce
INVARIANT Progress
INVARIANT CountsAdd
CONSTRAINT Dump
CHECK_DEADLOCK FALSE
