SPECIFICATION Spec
CONSTANT P = 1
CONSTANT N = 5
CONSTANT IndexBits = 64
CONSTANT Order = "any"
INVARIANT ExactlyOnce
INVARIANT AtMostOnce
INVARIANT Progress
INVARIANT CountsAdd
CONSTRAINT Dump
CHECK_DEADLOCK FALSE
