SPECIFICATION Spec
CONSTANT P = 4
CONSTANT N = 130
CONSTANT IndexBits = 64
CONSTANT Order = "reverse"
INVARIANT ExactlyOnce
INVARIANT AtMostOnce
INVARIANT Progress
INVARIANT CountsAdd
CONSTRAINT Dump
CHECK_DEADLOCK FALSE
