SPECIFICATION Spec
CONSTANT Ploidies = {8}
CONSTANT AlleleCounts = {4}
CONSTANT MaxReads = 2
CONSTANT MaxCount = 2
CONSTANT Fs <- FsZero
INVARIANT WeightsPositive
INVARIANT HomozygotesListed
INVARIANT GapIsNeutral
INVARIANT PermsAgree
CONSTRAINT Dump
CHECK_DEADLOCK FALSE
