SPECIFICATION Spec
CONSTANT N = 3
CONSTANT A = 3
CONSTANT T = 1000
CONSTANT Ploidy = 4
CONSTANT Steps = 2
CONSTANT Strict = FALSE
INVARIANT FixedIffThreshold
INVARIANT FixedAlleleIsTheOne
INVARIANT HetColumnsAreTheSampledTrace
INVARIANT FixedColumnsConstant
INVARIANT OrderPreserved
CONSTRAINT Dump
CHECK_DEADLOCK FALSE
