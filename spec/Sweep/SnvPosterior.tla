----------------------------- MODULE SnvPosterior -----------------------------
(* C15 (third clause, the quantity that is thresholded): the single-SNV        *)
(* posterior probability of each homozygous genotype, from first principles.   *)
(* Instance = ploidy P, n alleles, inbreeding F, and a bag of base calls at the *)
(* SNV (each call is correct with probability 7/8, the error mass is spread     *)
(* evenly over the other alleles; a gap contributes the factor 1).              *)
(* Joint weight of an unordered genotype G:                                     *)
(*    J(G) = PriorW(G) * prod_r ( sum_h Cell(r, G[h]) )^count_r                  *)
(* with the Dirichlet-multinomial integer prior weight for flat frequencies.    *)
(* Products overflow 32 bits, so TLC emits the factor lists; the harness        *)
(* multiplies them with exact fractions and compares the normalised values with *)
(* the implementation, then drives DenovoMCMC._mcmc with thresholds just above  *)
(* and just below the exact value.                                              *)
EXTENDS Integers, Sequences, FiniteSets, TLC, Json, Genotypes

CONSTANTS Ploidies, AlleleCounts, MaxReads, MaxCount
Fs == {<<0, 1>>, <<1, 4>>, <<1, 2>>}          \* inbreeding f1/f2
FsZero == {<<0, 1>>}                          \* high-ploidy configurations (Snv_high*.cfg): the rising factorials of F > 0 exceed 32 bits
(* The instance is ONE SNV: the posterior of a SNV is a function of that SNV's own base calls, its own number of alleles, *)
(* the ploidy and F (code comment: "independent of alleles at other positions").  The harness therefore also embeds the   *)
(* instances of one (P, F) side by side into multi-SNV loci (different allele counts next to each other, each SNV's base   *)
(* calls on reads that are gaps at the other SNVs - GapIsNeutral) and requires every column to keep its instance's values. *)

VARIABLES P, n, F, reads      \* reads: sequence of <<cell, count>>, cell = -1 (gap) or allele
vars == <<P, n, F, reads>>

Init == /\ P \in Ploidies /\ n \in AlleleCounts /\ F \in Fs /\ reads = <<>>
AddRead == /\ Len(reads) < MaxReads
           /\ \E cell \in -1..(n - 1), c \in 1..MaxCount :
                /\ IF reads = <<>> THEN TRUE
                   ELSE LET last == reads[Len(reads)] IN last[1] < cell \/ (last[1] = cell /\ last[2] <= c)   \* bag: canonical order
                /\ reads' = Append(reads, <<cell, c>>)
           /\ UNCHANGED <<P, n, F>>
Next == AddRead
Spec == Init /\ [][Next]_vars

(* numerators over the common denominator 8*(n-1) *)
Cell(cell, a) == IF cell = -1 THEN 8 * (n - 1) ELSE IF cell = a THEN 7 * (n - 1) ELSE 1
ReadSum(r, g) == LET RECURSIVE S(_) S(h) == IF h = 0 THEN 0 ELSE Cell(r[1], g[h]) + S(h - 1) IN S(P)

(* Dirichlet-multinomial integer weight, flat frequencies: alpha = (1/n)(1-F)/F = a/D *)
RECURSIVE Rising(_, _, _)
Rising(a, D, d) == IF d = 0 THEN 1 ELSE (a + (d - 1) * D) * Rising(a, D, d - 1)
PriorW(g) ==
  IF F[1] = 0 THEN Perms(g)
  ELSE LET a == F[2] - F[1]  D == n * F[1]
           RECURSIVE Pr(_)
           Pr(x) == IF x = n THEN 1 ELSE Rising(a, D, CountOf(g, x)) * Pr(x + 1)
       IN  Perms(g) * Pr(0)

(* the multinomial coefficient without forming P! (which exceeds 32 bits from P = 13): a product of binomials *)
RECURSIVE Binom(_, _)
Binom(m, k) == IF k = 0 THEN 1 ELSE (Binom(m, k - 1) * (m - k + 1)) \div k
RECURSIVE Multi(_, _, _)
Multi(g, x, rem) == IF x = n THEN 1 ELSE LET c == CountOf(g, x) IN Binom(rem, c) * Multi(g, x + 1, rem - c)
PermsSafe(g) == Multi(g, 0, P)
PermsAgree == P <= 12 => LET o == VcfOrder(n, P) IN \A i \in 1..Len(o) : PermsSafe(o[i]) = Perms(o[i])

AllG == LET o == VcfOrder(n, P) IN o
Table == LET o == AllG IN [i \in 1..Len(o) |-> [g |-> o[i], w |-> PriorW(o[i]), f |-> [r \in 1..Len(reads) |-> <<ReadSum(reads[r], o[i]), reads[r][2]>>]]]

WeightsPositive == LET o == AllG IN \A i \in 1..Len(o) : PriorW(o[i]) > 0
HomozygotesListed == LET o == AllG IN \A a \in 0..(n - 1) : \E i \in 1..Len(o) : \A h \in 1..P : o[i][h] = a
GapIsNeutral == \A r \in 1..Len(reads) : reads[r][1] = -1 =>
                  LET o == AllG IN \A i, k \in 1..Len(o) : ReadSum(reads[r], o[i]) = ReadSum(reads[r], o[k])

Dump == PrintT(<<"@@J", ToJson([P |-> P, n |-> n, F |-> F, reads |-> reads, table |-> Table])>>)
=============================================================================
