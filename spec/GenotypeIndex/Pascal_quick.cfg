SPECIFICATION Spec
CONSTANT NMax = 130
CONSTANT KMax = 40
INVARIANT Symmetric
INVARIANT RowSum
INVARIANT Canonical
INVARIANT AgreesWithChoose
CONSTRAINT Dump
CHECK_DEADLOCK FALSE
