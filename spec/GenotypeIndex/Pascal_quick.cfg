SPECIFICATION Spec
CONSTANT NMax = 130
CONSTANT KMax = 64
INVARIANT Symmetric
INVARIANT RowSum
INVARIANT Canonical
INVARIANT AgreesWithChoose
CONSTRAINT Dump
CHECK_DEADLOCK FALSE
