------------------------------- MODULE Pascal -------------------------------
(* C11 (binomials): Pascal's triangle built by additions only, in BigNat, as *)
(* a state machine (one row per step), so values up to and beyond 2^53 are   *)
(* exact.  Each state is emitted and compared with comb/_comb/               *)
(* comb_with_replacement/_comb_with_replacement of the implementation.       *)
EXTENDS Integers, Sequences, TLC, Json, BigNat, Genotypes

CONSTANTS NMax,      \* last row
          KMax       \* last column kept (rows are truncated to 0..KMax)

VARIABLES n, row, pow2
vars == <<n, row, pow2>>

Width(nn) == IF nn < KMax THEN nn ELSE KMax

Init == n = 0 /\ row = << <<1>> >> /\ pow2 = <<1>>      \* row[k+1] = C(n,k)

Next == /\ n < NMax
        /\ n' = n + 1
        /\ row' = TLCEval([k \in 1..(Width(n + 1) + 1) |->
                     IF k = 1 THEN <<1>>
                     ELSE IF k > Len(row) THEN row[k - 1]           \* C(n,k)=0 beyond the diagonal
                     ELSE BnAdd(row[k - 1], row[k])])
        /\ pow2' = BnAdd(pow2, pow2)
Spec == Init /\ [][Next]_vars

RECURSIVE BnSum(_, _)
BnSum(r, i) == IF i = 0 THEN <<>> ELSE BnAdd(r[i], BnSum(r, i - 1))

FullRow == n <= KMax
Symmetric == FullRow => \A k \in 1..Len(row) : row[k] = row[Len(row) + 1 - k]
RowSum == FullRow => BnSum(row, Len(row)) = pow2
Canonical == \A k \in 1..Len(row) : row[k] # <<>> /\ row[k][Len(row[k])] # 0
Small(b) == Len(b) = 1 \/ (Len(b) = 2 /\ b[2] < 1000)
AgreesWithChoose == \A k \in 1..Len(row) : Small(row[k]) => row[k] = BnFromNat(Choose(n, k - 1))

Dump == PrintT(<<"@@J", ToJson([n |-> n, row |-> row])>>)
=============================================================================
