--------------------------- MODULE GenotypeIndex ---------------------------
(* C11: genotype <-> G-field index is the VCF order and a bijection; the     *)
(* enumerator (increment_genotype) walks it in exactly that order.           *)
(* One behaviour per (nAlleles, ploidy) instance: the enumerator.            *)
EXTENDS Integers, Sequences, FiniteSets, TLC, Json, Genotypes

CONSTANT Grid        \* set of <<nAlleles, ploidy>>

GridQuick == {<<1,1>>, <<2,1>>, <<7,1>>, <<1,2>>, <<2,2>>, <<3,2>>, <<9,2>>, <<30,2>>,
              <<1,3>>, <<2,3>>, <<4,3>>, <<6,3>>, <<2,4>>, <<3,4>>, <<5,4>>, <<10,4>>,
              <<2,5>>, <<3,5>>, <<2,6>>, <<3,6>>, <<4,6>>, <<2,8>>,
              <<2,12>>, <<2,13>>, <<3,12>>, <<2,14>>, <<1,13>>}
GridThorough == GridQuick \cup {<<6,6>>, <<5,6>>, <<12,4>>, <<60,2>>, <<8,5>>, <<3,10>>, <<4,8>>, <<20,3>>}

VARIABLES n, p, g, idx, prev, order
vars == <<n, p, g, idx, prev, order>>

Total(nn, pp) == Choose(nn + pp - 1, pp)

Init == /\ \E inst \in Grid : n = inst[1] /\ p = inst[2]
        /\ g = [i \in 1..p |-> 0]
        /\ idx = 0
        /\ prev = <<>>
        /\ order = VcfOrder(n, p)     \* declarative, from the VCF text; computed once

(* the modelled enumerator: successor in VCF order while alleles stay < n     *)
Step == /\ idx + 1 < Total(n, p)
        /\ g' = SuccGenotype(g)
        /\ idx' = idx + 1
        /\ prev' = g
        /\ UNCHANGED <<n, p, order>>

Next == Step
Spec == Init /\ [][Next]_vars

(* ---- invariants -------------------------------------------------------- *)
Order == order

TypeOK == /\ IsSorted(g)
          /\ \A i \in 1..p : g[i] \in 0..(n - 1)
RankIsIndex == Rank(g) = idx
IsVcfOrder == Order[idx + 1] = g
LengthIsN == Len(Order) = Total(n, p)
Bijection == \* the rank formula is injective and onto 0..N-1 on the whole order
  idx = 0 => /\ \A i \in 1..Len(Order) : Rank(Order[i]) = i - 1
             /\ \A i \in 1..Len(Order) : IsSorted(Order[i])
             /\ Cardinality({Order[i] : i \in 1..Len(Order)}) = Len(Order)
StrictlyIncreasing == prev # <<>> => Rank(prev) + 1 = Rank(g)

(* mutant definitions used by Mutant_*.cfg (must violate RankIsIndex)        *)
RECURSIVE BadRankFrom(_, _)
BadRankFrom(gg, i) == IF i = 0 THEN 0 ELSE Choose(gg[i] + i - 1, i - 1) + BadRankFrom(gg, i - 1)
MutRankIsIndex == BadRankFrom(g, Len(g)) = idx

Dump == PrintT(<<"@@J", ToJson([n |-> n, p |-> p, g |-> g, idx |-> idx, prev |-> prev,
                                last |-> (idx + 1 = Total(n, p))])>>)
=============================================================================
