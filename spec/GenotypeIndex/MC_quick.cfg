SPECIFICATION Spec
CONSTANT Grid <- GridQuick
INVARIANT TypeOK
INVARIANT RankIsIndex
INVARIANT IsVcfOrder
INVARIANT LengthIsN
INVARIANT Bijection
INVARIANT StrictlyIncreasing
CONSTRAINT Dump
CHECK_DEADLOCK FALSE
