SPECIFICATION Spec
CONSTANT Grid <- GridThorough
INVARIANT TypeOK
INVARIANT RankIsIndex
INVARIANT IsVcfOrder
INVARIANT LengthIsN
INVARIANT Bijection
INVARIANT StrictlyIncreasing
CONSTRAINT Dump
CHECK_DEADLOCK FALSE
