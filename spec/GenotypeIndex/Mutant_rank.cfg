SPECIFICATION Spec
CONSTANT Grid <- GridQuick
INVARIANT MutRankIsIndex
CHECK_DEADLOCK FALSE
