--------------------------- MODULE TraceGenotypes ---------------------------
(* code -> spec: calls recorded from the implementation (index maps and      *)
(* binomials on large random arguments, results as base-10^4 limbs) are      *)
(* validated against the model: Rank in BigNat over an additions-only        *)
(* Pascal table.  One trace line per call; every line gets a verdict.        *)
EXTENDS Integers, Sequences, TLC, Json, IOUtils, BigNat

Trace == JsonDeserialize(IOEnv.TRACE_FILE)
NMaxT == 270
KMaxT == 14

VARIABLES l, table, bad
vars == <<l, table, bad>>

RECURSIVE Rows(_)
Rows(nn) ==     \* rows 0..nn, each a sequence over k = 0..KMaxT (index k+1)
  IF nn = 0 THEN << [k \in 1..(KMaxT + 1) |-> IF k = 1 THEN <<1>> ELSE <<>>] >>
  ELSE LET rs == Rows(nn - 1)
           r  == rs[nn]
       IN  Append(rs, [k \in 1..(KMaxT + 1) |-> IF k = 1 THEN <<1>> ELSE BnAdd(r[k - 1], r[k])])

C(nn, k) == IF k > nn THEN <<>> ELSE table[nn + 1][k + 1]

RECURSIVE BigRank(_, _)
BigRank(g, i) == IF i = 0 THEN <<>> ELSE BnAdd(C(g[i] + i - 1, i), BigRank(g, i - 1))

Sorted(g) == \A i \in 1..(Len(g) - 1) : g[i] <= g[i + 1]

Verdict(e) ==
  CASE e.op = "index"  -> IF BigRank(e.alleles, Len(e.alleles)) = e.limbs THEN "ok" ELSE "IndexIsRank"
    [] e.op = "unrank" -> IF ~Sorted(e.alleles) THEN "UnrankSorted"
                          ELSE IF BigRank(e.alleles, Len(e.alleles)) = e.limbs THEN "ok" ELSE "UnrankInvertsRank"
    [] e.op = "comb"   -> IF C(e.n, e.k) = e.limbs THEN "ok" ELSE "CombExact"
    [] e.op = "combr"  -> IF C(e.n + e.k - 1, e.k) = e.limbs THEN "ok" ELSE "MultisetCoefficientExact"
    [] OTHER -> "UnknownEvent"

Init == l = 1 /\ table = Rows(NMaxT) /\ bad = 0
Next == /\ l <= Len(Trace)
        /\ LET v == Verdict(Trace[l])
           IN  /\ IF v = "ok" THEN TRUE ELSE PrintT(<<"@@J", ToJson([reject |-> l, clause |-> v])>>)
               /\ bad' = IF v = "ok" THEN bad ELSE bad + 1
        /\ l' = l + 1
        /\ UNCHANGED table
Spec == Init /\ [][Next]_vars
Consumed == (l = Len(Trace) + 1) => PrintT(<<"@@J", ToJson([consumed |-> l - 1, rejected |-> bad])>>)
=============================================================================
