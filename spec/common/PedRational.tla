---------------------------- MODULE PedRational ----------------------------
(* Exact non-negative rationals <<num, den>> (den > 0) kept gcd-reduced,     *)
(* for the pedigree models (C17/C18).  Additions go through the lcm of the   *)
(* denominators so that intermediates stay inside TLC's 32-bit integers; an  *)
(* overflow is a TLC error (loud), never a wrong value.                      *)
EXTENDS Integers, FiniteSets

RECURSIVE PrGcd(_, _)
PrGcd(a, b) == IF b = 0 THEN a ELSE PrGcd(b, a % b)

RZero == <<0, 1>>
ROne  == <<1, 1>>

RFrac(n, d) == IF n = 0 THEN RZero
               ELSE LET g == PrGcd(n, d) IN <<n \div g, d \div g>>
RInt(n) == <<n, 1>>

RAdd(x, y) ==
  IF x[1] = 0 THEN y ELSE IF y[1] = 0 THEN x
  ELSE LET g == PrGcd(x[2], y[2])
           yd == y[2] \div g
           xd == x[2] \div g
       IN  RFrac(x[1] * yd + y[1] * xd, xd * y[2])

RMul(x, y) ==
  IF x[1] = 0 \/ y[1] = 0 THEN RZero
  ELSE LET g1 == PrGcd(x[1], y[2])
           g2 == PrGcd(y[1], x[2])
       IN  <<(x[1] \div g1) * (y[1] \div g2), (x[2] \div g2) * (y[2] \div g1)>>

(* 1 - x for 0 <= x <= 1                                                     *)
RCompl(x) == RFrac(x[2] - x[1], x[2])

RIsZero(x) == x[1] = 0
RPos(x) == x[1] > 0
RIsOne(x) == x[1] = x[2]
RLeqOne(x) == x[1] <= x[2]

RECURSIVE RPow(_, _)
RPow(x, n) == IF n = 0 THEN ROne ELSE RMul(x, RPow(x, n - 1))

(* sum of fn[x] over x in S, fn a function with S \subseteq DOMAIN fn         *)
RECURSIVE RSumFn(_, _)
RSumFn(fn, S) ==
  IF S = {} THEN RZero
  ELSE LET x == CHOOSE y \in S : TRUE
       IN  RAdd(fn[x], RSumFn(fn, S \ {x}))

(* product of the entries of a sequence of rationals                         *)
RECURSIVE RProdSeq(_, _)
RProdSeq(s, i) == IF i = 0 THEN ROne ELSE RMul(s[i], RProdSeq(s, i - 1))
=============================================================================
