--------------------------- MODULE HapCallingDefs ---------------------------
(* C13: the stateless definitions of haplotype calling in `mchap assemble`,    *)
(* shared by the model HapCalling and the trace validator TraceHapCalling.     *)
(* Haplotypes are numbers 0..K-1, 0 = reference.  A posterior p is a sequence  *)
(* of <<genotype, count>> (counts sum to m; probability = count / m).          *)
(* Written from the property statement and the VCF meaning of the fields.      *)
EXTENDS Integers, Sequences, FiniteSets, TLC, Genotypes, TraceFunctionals

(* ---- the posterior of a sample ------------------------------------------------ *)
Total(p) == SumSeq([j \in 1..Len(p) |-> p[j][2]])
Support(p) == {p[j][1] : j \in 1..Len(p)}
CountOfG(p, g) == SumSeq([j \in 1..Len(p) |-> IF p[j][1] = g THEN p[j][2] ELSE 0])
(* probability (x M) that haplotype h occurs at any copy number                *)
Occ(p, h) == SumSeq([j \in 1..Len(p) |-> IF h \in SuppOf(p[j][1]) THEN p[j][2] ELSE 0])
(* posterior dosage (x M): expected number of copies                           *)
Dose(p, h) == SumSeq([j \in 1..Len(p) |-> p[j][2] * Mult(p[j][1], h)])
HapsOf(p) == UNION {SuppOf(g) : g \in Support(p)}

(* ---- calling ---------------------------------------------------------------------- *)
(* a haplotype can only be reported if it occurs in some sample's posterior;    *)
(* at threshold 0 every occurring haplotype meets the criterion                 *)
Meets(p, h, th, m) == Occ(p, h) > 0 /\ Occ(p, h) * th[2] >= th[1] * m
MeetsMut(p, h, th, m) == Occ(p, h) > 0 /\ Dose(p, h) * th[2] >= th[1] * m    \* mutant: dosage instead of occurrence
Called(ps, K, th, m) == {h \in 0..(K - 1) : \E s \in 1..Len(ps) : Meets(ps[s], h, th, m)}
Score(ps, h, th, m) == SumSeq([s \in 1..Len(ps) |-> IF Meets(ps[s], h, th, m) THEN Dose(ps[s], h) ELSE 0])
ScoreMut(ps, h, th, m) == SumSeq([s \in 1..Len(ps) |-> Dose(ps[s], h)])            \* mutant: summed over all samples
OrderScore(ps, h, th, m) == Score(ps, h, th, m)                                   \* what Order sorts by (mutant hook)

Injective(f) == \A i, j \in DOMAIN f : i # j => f[i] # f[j]
ValidOrders(ps, K, th, m) ==
  LET A == Called(ps, K, th, m) \ {0}
      n == Cardinality(A)
  IN  {o \in [1..n -> A] : /\ Injective(o)
                           /\ \A i \in 1..(n - 1) : OrderScore(ps, o[i], th, m) >= OrderScore(ps, o[i + 1], th, m)}

(* ---- the record ---------------------------------------------------------------------- *)
NumOf(o, h) == IF h = 0 THEN 0 ELSE CHOOSE i \in 1..Len(o) : o[i] = h
HapAt(o, i) == IF i = 0 THEN 0 ELSE o[i]
(* number of G-ordered entries of a record with nAlt alternate alleles         *)
GpLen(nAlt, nLabelled, P) == Choose(nAlt + 1 + P - 1, P)
GpLenMut(nAlt, nLabelled, P) == Choose(nLabelled + P - 1, P)                 \* mutant: sized from the labelled alleles

(* GT: labelled numbers ascending, then one "." (-1) per excluded copy         *)
RECURSIVE Ascending(_, _, _)
Ascending(bag, a, top) == IF a > top THEN <<>> ELSE Rep(a, bag[a]) \o Ascending(bag, a + 1, top)
GtOf(g, o, labelled) ==
  LET nrec == Len(o) + 1
      cnt == [a \in 0..(nrec - 1) |-> IF HapAt(o, a) \in labelled THEN Mult(g, HapAt(o, a)) ELSE 0]
      dots == Cardinality({j \in 1..Len(g) : g[j] \notin labelled})
  IN  Ascending(cnt, 0, nrec - 1) \o Rep(-1, dots)

Expand(p) == ConcatChains([j \in 1..Len(p) |-> Rep(p[j][1], p[j][2])], Len(p))

SampleReport(p, P, o, masked) ==
  LET nrec == Len(o) + 1
      labelled == {o[i] : i \in 1..Len(o)} \cup (IF masked THEN {} ELSE {0})
      nums(g) == [j \in 1..Len(g) |-> NumOf(o, g[j])]
      full == {g \in Support(p) : SuppOf(g) \subseteq labelled}
  IN  [ ploidy |-> P,
        calls |-> {<<cl[1], GtOf(cl[1], o, labelled)>> : cl \in Calls(Expand(p))},
        afp |-> [i \in 1..nrec |-> Dose(p, HapAt(o, i - 1))],            \* / (M * P)
        aop |-> [i \in 1..nrec |-> Occ(p, HapAt(o, i - 1))],             \* / M
        gp |-> {<<Rank(Canon(nums(g))), CountOfG(p, g)>> : g \in full},  \* / M
        gpLen |-> GpLen(Len(o), Cardinality(labelled), P) ]

Report(ps, ploidies, K, th, m, o) ==
  LET masked == 0 \notin Called(ps, K, th, m)
  IN  [ masked |-> masked,
        scores |-> [i \in 1..Len(o) |-> Score(ps, o[i], th, m)],
        samples |-> [s \in 1..Len(ps) |-> SampleReport(ps[s], ploidies[s], o, masked)] ]

=============================================================================
