----------------------------- MODULE Genotypes -----------------------------
(* Sorted allele tuples (1-indexed sequences of allele numbers, ascending)   *)
(* and the VCF ordering of G-length fields, defined from the VCF text.       *)
EXTENDS Naturals, Sequences, FiniteSets, TLC

(* binomial coefficient by the exact recursion C(n,k) = C(n-1,k-1) * n / k    *)
(* (O(k) steps; instances keep every intermediate product below 2^31).      *)
(* Pascal.tla re-derives the same numbers by additions only, in BigNat.      *)
RECURSIVE Choose(_, _)
Choose(n, k) == IF k = 0 THEN 1 ELSE IF k > n THEN 0 ELSE (Choose(n - 1, k - 1) * n) \div k

(* VCF 4.3 section 1.6.2: "for P=2 ... ordering ... for a_p = 0..N,          *)
(* for a_{p-1} = 0..a_p ... ": genotypes of ploidy p with largest allele <= a *)
RECURSIVE VcfOrderUpTo(_, _)
RECURSIVE ConcatAll(_)
ConcatAll(ss) == IF ss = <<>> THEN <<>> ELSE Head(ss) \o ConcatAll(Tail(ss))
VcfOrderUpTo(p, a) ==
  IF p = 0 THEN << <<>> >>
  ELSE (ConcatAll([x \in 1..(a + 1) |->
         LET sub == VcfOrderUpTo(p - 1, x - 1)
         IN  [i \in 1..Len(sub) |-> Append(sub[i], x - 1)]]))

VcfOrder(nAlleles, p) == VcfOrderUpTo(p, nAlleles - 1)

IsSorted(g) == \A i \in 1..(Len(g) - 1) : g[i] <= g[i + 1]

(* rank formula of the VCF spec: sum_i C(g[i] + i - 1, i)  (1-indexed i)     *)
RECURSIVE RankFrom(_, _)
RankFrom(g, i) == IF i = 0 THEN 0 ELSE Choose(g[i] + i - 1, i) + RankFrom(g, i - 1)
Rank(g) == RankFrom(g, Len(g))

(* successor in VCF order                                                    *)
SuccGenotype(g) ==
  LET p == Len(g)
      cand == {i \in 1..p : i = p \/ g[i] < g[i + 1]}
      i == CHOOSE j \in cand : \A k \in cand : j <= k
  IN  [k \in 1..p |-> IF k < i THEN 0 ELSE IF k = i THEN g[k] + 1 ELSE g[k]]

(* multiplicity helpers on sorted tuples                                     *)
CountOf(g, a) == Cardinality({i \in 1..Len(g) : g[i] = a})
RECURSIVE Fact(_)
Fact(n) == IF n = 0 THEN 1 ELSE n * Fact(n - 1)
RECURSIVE ProdFactCounts(_, _)
ProdFactCounts(g, S) ==
  IF S = {} THEN 1
  ELSE LET a == CHOOSE x \in S : TRUE
       IN  Fact(CountOf(g, a)) * ProdFactCounts(g, S \ {a})
Perms(g) == Fact(Len(g)) \div ProdFactCounts(g, {g[i] : i \in 1..Len(g)})
=============================================================================
