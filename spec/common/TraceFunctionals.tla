--------------------------- MODULE TraceFunctionals ---------------------------
(* C14: the functionals of an empirical genotype distribution, written from   *)
(* their mathematical definitions over bags (no state; shared by the model    *)
(* TraceSummary and by the trace validator TraceTraceSummary).                *)
(* A genotype is a sequence of allele / haplotype numbers; its canonical form *)
(* is the ascending sequence with the same multiplicities.  All results are  *)
(* integer counts; probability = count / n.                                   *)
EXTENDS Integers, Sequences, FiniteSets, TLC, Genotypes

(* ---- bags ----------------------------------------------------------------- *)
Mult(g, a) == Cardinality({j \in 1..Len(g) : g[j] = a})
SuppOf(g) == {g[j] : j \in 1..Len(g)}

MaxOf(S) == CHOOSE x \in S : \A y \in S : y <= x
RECURSIVE Rep(_, _)
Rep(a, n) == IF n = 0 THEN <<>> ELSE <<a>> \o Rep(a, n - 1)
RECURSIVE CanonFrom(_, _, _)
CanonFrom(g, a, top) == IF a > top THEN <<>> ELSE Rep(a, Mult(g, a)) \o CanonFrom(g, a + 1, top)
(* the canonical representative of the bag of g: depends on multiplicities only *)
Canon(g) == CanonFrom(g, 0, MaxOf(SuppOf(g)))

RECURSIVE SumSeq(_)
SumSeq(s) == IF s = <<>> THEN 0 ELSE Head(s) + SumSeq(Tail(s))

RECURSIVE SetToSeq(_)
SetToSeq(S) == IF S = {} THEN <<>> ELSE LET x == CHOOSE y \in S : TRUE IN <<x>> \o SetToSeq(S \ {x})

(* ---- the retained trace ----------------------------------------------------- *)
(* which (chain, step) cells are retained: exactly the steps after the first b *)
(* of EACH chain                                                               *)
RetainedCells(C, S, burn) == {<<c, s>> \in (1..C) \X (1..S) : s > burn}
(* mutant: burn-in applied to the flattened (chain-major) trace               *)
MutRetainedCells(C, S, burn) == {<<c, s>> \in (1..C) \X (1..S) : (c - 1) * S + s > burn * C}

RECURSIVE ConcatChains(_, _)
ConcatChains(f, c) == IF c = 0 THEN <<>> ELSE ConcatChains(f, c - 1) \o f[c]

(* ---- functionals of a sequence xs of canonical genotypes ---------------------- *)
CountIn(xs, g) == Cardinality({j \in 1..Len(xs) : xs[j] = g})
DistinctOf(xs) == {xs[j] : j \in 1..Len(xs)}
(* genotypes are grouped into supports by their set of distinct alleles          *)
SupportKey(g) == SuppOf(g)
MassOf(xs, U) == Cardinality({j \in 1..Len(xs) : SupportKey(xs[j]) = U})
AlleleNum(xs, a) == SumSeq([j \in 1..Len(xs) |-> Mult(xs[j], a)])
OccNum(xs, a) == Cardinality({j \in 1..Len(xs) : a \in SuppOf(xs[j])})

ModeSet(xs) == LET D == DistinctOf(xs)
                   m == MaxOf({CountIn(xs, g) : g \in D})
               IN  {g \in D : CountIn(xs, g) = m}
ModeSupports(xs) == LET U == {SupportKey(g) : g \in DistinctOf(xs)}
                        m == MaxOf({MassOf(xs, u) : u \in U})
                    IN  {u \in U : MassOf(xs, u) = m}
(* acceptable calls: <<genotype, its count, mass of its support>>: the most    *)
(* probable genotype(s) of the mode support(s)                                 *)
Calls(xs) == LET D == DistinctOf(xs)
             IN  UNION { LET mem == {g \in D : SupportKey(g) = u}
                             m == MaxOf({CountIn(xs, g) : g \in mem})
                         IN  {<<g, m, MassOf(xs, u)>> : g \in {h \in mem : CountIn(xs, h) = m}}
                       : u \in ModeSupports(xs) }

(* ---- chain incongruence --------------------------------------------------------- *)
(* per chain: the mode support (any maximiser) with its modal genotype; a chain   *)
(* is compared only if the mass of its mode support is >= theta; 0 if the        *)
(* compared chains agree, otherwise 2 if together they hold more than ploidy     *)
(* distinct alleles (putative copy-number variation), else 1.                    *)
(* "hap": chains agree iff their mode SUPPORTS are equal.  allele traces: the    *)
(* documentation does not say whether supports or modal genotypes are compared;  *)
(* both readings are admitted (they differ only when the supports are equal and  *)
(* the modal dosage differs: 0 or 1).                                            *)
Geq(num, n, th) == num * th[2] >= th[1] * n
MinOf(S) == CHOOSE x \in S : \A y \in S : x <= y
(* the chains that are compared: mass of the chain's mode support >= theta        *)
Qualifying(chs, th) == {c \in 1..Len(chs) : LET u == CHOOSE v \in ModeSupports(chs[c]) : TRUE
                                            IN  Geq(MassOf(chs[c], u), Len(chs[c]), th)}
RECURSIVE ProdSeq(_, _)
ProdSeq(ch, n) == IF n = 0 THEN {<<>>} ELSE {Append(r, x) : r \in ProdSeq(ch, n - 1), x \in ch[n]}
(* firstSupport = FALSE: the documented functional (bound = ploidy P).             *)
(* firstSupport = TRUE : the reading of the open finding D8 (KNOWN_FINDINGS.json): *)
(* the bound is the number of distinct haplotypes in the mode support of the FIRST *)
(* compared chain.  It is never admitted; it only decides whether a mismatch is    *)
(* the listed defect or a different failure.                                       *)
IncFlagsGen(chs, P, firstSupport, genotypeReading, th) ==
  LET Q == Qualifying(chs, th)
      qs == SelectSeq([c \in 1..Len(chs) |-> c], LAMBDA c : c \in Q)     \* the compared chains, in order
      Choice(c) == {<<cl[1], SuppOf(cl[1])>> : cl \in Calls(chs[c])}
      ch == [j \in 1..Len(qs) |-> Choice(qs[j])]
      (* every way of picking one admissible <<modal genotype, mode support>> per compared chain *)
      F == ProdSeq(ch, Len(qs))
      Flag(f, bySupport) ==
        LET items == IF bySupport THEN {f[j][2] : j \in 1..Len(qs)} ELSE {f[j][1] : j \in 1..Len(qs)}
            union == UNION {f[j][2] : j \in 1..Len(qs)}
            bound == IF firstSupport THEN Cardinality(f[1][2]) ELSE P
        IN  IF Cardinality(items) <= 1 THEN 0
            ELSE IF Cardinality(union) > bound THEN 2 ELSE 1
  IN  IF Q = {} THEN {0}
      ELSE {Flag(f, TRUE) : f \in F} \cup (IF genotypeReading THEN {Flag(f, FALSE) : f \in F} ELSE {})
IncFlagsK(chs, P, genotypeReading, th) == IncFlagsGen(chs, P, FALSE, genotypeReading, th)
IncFlags(chs, P, kind, th) == IncFlagsK(chs, P, kind # "hap", th)
IncFlagsD8(chs, P, kind, th) == IF kind = "hap" THEN IncFlagsGen(chs, P, TRUE, FALSE, th) ELSE IncFlags(chs, P, kind, th)
(* the compared chains only, in their order                                        *)
OnlyChains(chs, Q) == LET idx == SelectSeq([c \in 1..Len(chs) |-> c], LAMBDA c : c \in Q)
                      IN  [j \in 1..Len(idx) |-> chs[idx[j]]]

(* ---- the summary of one individual -------------------------------------------------- *)
(* chs[c] = the retained canonical genotypes of chain c, P = ploidy, K = number of   *)
(* allele labels, thetas = sequence of <<num, den>> incongruence thresholds          *)
(* withRank = FALSE: loci whose genotype ranks do not fit TLC's 32-bit integers     *)
(* (the G-ordered array cannot be materialised there either): arr / ranks omitted   *)
SummaryOfG(chs, P, K, kind, thetas, withRank) ==
  LET xs == ConcatChains(chs, Len(chs))
      D == DistinctOf(xs)
  IN  [ n |-> Len(xs),
        ploidy |-> P,
        nAllele |-> K,
        post |-> {<<g, CountIn(xs, g)>> : g \in D},
        modes |-> ModeSet(xs),
        calls |-> Calls(xs),
        modeSupports |-> {[alleles |-> u, members |-> {<<g, CountIn(xs, g)>> : g \in {h \in D : SupportKey(h) = u}}]
                           : u \in ModeSupports(xs)},
        acount |-> [a \in 1..K |-> AlleleNum(xs, a - 1)],
        occ |-> [a \in 1..K |-> OccNum(xs, a - 1)],
        arr |-> IF withRank THEN {<<Rank(g), CountIn(xs, g)>> : g \in D} ELSE {},
        arrLen |-> IF withRank THEN Choose(K + P - 1, P) ELSE 0,
        ranks |-> IF withRank THEN [j \in 1..Len(xs) |-> Rank(xs[j])] ELSE <<>>,
        inc |-> [q \in 1..Len(thetas) |-> IncFlags(chs, P, kind, thetas[q])],
        incD8 |-> [q \in 1..Len(thetas) |-> IncFlagsD8(chs, P, kind, thetas[q])] ]
SummaryOf(chs, P, K, kind, thetas) == SummaryOfG(chs, P, K, kind, thetas, TRUE)

(* retained canonical, relabelled genotypes of chain c of a stored trace t[c][s]     *)
(* (C chains x S steps), burn-in burn, labels lb (new label of allele a = lb[a+1])  *)
ChainRetained(t, C, S, c, burn, lb) ==
  LET cells == RetainedCells(C, S, burn)
      srt == SelectSeq([s \in 1..S |-> s], LAMBDA s : <<c, s>> \in cells)
  IN  \* TLCEval: function constructors are lazy closures, every later application would canonicalise again
      TLCEval([j \in 1..Len(srt) |-> LET g == Canon(t[c][srt[j]]) IN TLCEval([q \in 1..Len(g) |-> lb[g[q] + 1]])])
=============================================================================
