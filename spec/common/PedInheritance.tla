--------------------------- MODULE PedInheritance ---------------------------
(* The pedigree inheritance model of MCHap's call-pedigree, written from     *)
(* first principles (NOT from mchap/pedigree/prior.py):                      *)
(*  - a parent of ploidy Pp carries Pp chromosome copies; a gamete of ploidy *)
(*    tau is a uniformly random tau-subset of those copies (no double        *)
(*    reduction), or - with probability lambda, tau = 2 only - one uniformly *)
(*    random copy duplicated (double reduction);                             *)
(*  - a parent slot that is unknown, clonal (tau = 0) or in error (with      *)
(*    probability e) contributes tau i.i.d. draws from the allele            *)
(*    frequency vector f;                                                    *)
(*  - the progeny genotype is the bag union of the two gametes; its          *)
(*    probability sums over all splits of the progeny bag into a p-part and  *)
(*    a q-part and over the four correct/error combinations.                 *)
(* Genotypes and gametes are bags written as ascending allele tuples over    *)
(* alleles 0..K-1.  All probabilities are exact rationals <<num, den>>.      *)
(* Pure definitions; used by Inheritance.tla (C17), TraceInheritance.tla and *)
(* PedigreeSampler.tla (C18).                                                *)
EXTENDS Integers, Sequences, FiniteSets, TLC, Genotypes, PedRational

(* ------------------------------------------------------------------------ *)
(* bags                                                                      *)
Rep(a, n) == IF n = 0 THEN <<>> ELSE [i \in 1..n |-> a]
RECURSIVE SeqFromCnt(_, _, _)
SeqFromCnt(c, a, K) == IF a = K THEN <<>> ELSE Rep(a, c[a]) \o SeqFromCnt(c, a + 1, K)
CntOf(G, K) == [a \in 0..(K - 1) |-> Cardinality({i \in DOMAIN G : G[i] = a})]
(* the bag of the alleles carried by the copies S of G                        *)
SubBag(G, S, K) == SeqFromCnt([a \in 0..(K - 1) |-> Cardinality({i \in S : G[i] = a})], 0, K)
BagDiff(G, g, K) == LET cG == CntOf(G, K)
                        cg == CntOf(g, K)
                    IN  SeqFromCnt([a \in 0..(K - 1) |-> cG[a] - cg[a]], 0, K)
SubsetsOfSize(n, k) == {S \in SUBSET (1..n) : Cardinality(S) = k}
(* all sub-bags of size k of the bag G                                       *)
SubBags(G, k, K) == {SubBag(G, S, K) : S \in SubsetsOfSize(Len(G), k)}

(* ------------------------------------------------------------------------ *)
(* gamete drawn from a known parent                                          *)
(* number of tau-subsets of the parent's copies that carry exactly bag g     *)
HyperNum(g, Gpar, K) ==
  Cardinality({S \in SubsetsOfSize(Len(Gpar), Len(g)) : SubBag(Gpar, S, K) = g})
HyperDen(Gpar, tau) == Cardinality(SubsetsOfSize(Len(Gpar), tau))
(* number of copies whose duplication gives g (tau = 2)                      *)
DRNum(g, Gpar) ==
  IF Len(g) = 2 THEN Cardinality({c \in 1..Len(Gpar) : g = <<Gpar[c], Gpar[c]>>}) ELSE 0

GametePmf(g, Gpar, lam, K) ==
  LET tau == Len(g)
      noDR == RMul(RCompl(lam), RFrac(HyperNum(g, Gpar, K), HyperDen(Gpar, tau)))
  IN  IF RPos(lam) THEN RAdd(noDR, RMul(lam, RFrac(DRNum(g, Gpar), Len(Gpar))))
      ELSE noDR

(* tau i.i.d. draws from f give the bag g: multinomial                        *)
RECURSIVE FreqPow(_, _, _)
FreqPow(c, f, a) == IF a < 0 THEN ROne ELSE RMul(RPow(f[a + 1], c[a]), FreqPow(c, f, a - 1))
IID(g, f, K) == RMul(RInt(Perms(g)), FreqPow(CntOf(g, K), f, K - 1))
(* the same from the definition: sum over the ordered draws                  *)
IIDSeqs(g, f, K) ==
  LET tau == Len(g)
      xs == {x \in [1..tau -> 0..(K - 1)] : SubBag(x, 1..tau, K) = g}
      pr == [x \in xs |-> RProdSeq([j \in 1..tau |-> f[x[j] + 1]], tau)]
  IN  RSumFn(pr, xs)

(* one parent slot: known & correct with probability 1-e, otherwise random    *)
(* Gpar = <<>> : unknown parent.  tau = 0 : the empty gamete (probability 1). *)
SideRandom(Gpar, tau, e) == Gpar = <<>> \/ tau = 0 \/ RIsOne(e)
ErrWeight(e) == e            \* (overridden by a mutant configuration)
GameteMix(g, Gpar, lam, e, f, K) ==
  IF Gpar = <<>> \/ Len(g) = 0 THEN IID(g, f, K)
  ELSE RAdd(RMul(RCompl(e), GametePmf(g, Gpar, lam, K)), RMul(ErrWeight(e), IID(g, f, K)))

(* ------------------------------------------------------------------------ *)
(* trio: P = [K, Gp, Gq, tp, tq, lp, lq, ep, eq, f]                          *)
Trio(G, P) ==
  LET subs == SubBags(G, P.tp, P.K)
      term == [gp \in subs |->
                 RMul(GameteMix(gp, P.Gp, P.lp, P.ep, P.f, P.K),
                      GameteMix(BagDiff(G, gp, P.K), P.Gq, P.lq, P.eq, P.f, P.K))]
  IN  RSumFn(term, subs)

(* Mendelian validity, defined by existence of a split into drawable gametes  *)
Drawable(g, Gpar, lam, K) ==
  \/ Gpar = <<>>
  \/ Len(g) = 0
  \/ (lam[1] < lam[2] /\ HyperNum(g, Gpar, K) > 0)
  \/ (lam[1] > 0 /\ DRNum(g, Gpar) > 0)
Valid(G, P) ==
  \E gp \in SubBags(G, P.tp, P.K) :
     Drawable(gp, P.Gp, P.lp, P.K) /\ Drawable(BagDiff(G, gp, P.K), P.Gq, P.lq, P.K)
DuoValid(G, Gpar, tau, lam, K) == \E g \in SubBags(G, tau, K) : Drawable(g, Gpar, lam, K)

(* support of the mixture without arithmetic                                 *)
InSupportF(g, f) == \A i \in DOMAIN g : RPos(f[g[i] + 1])
SidePositive(g, Gpar, lam, e, f, K) ==
  IF Gpar = <<>> \/ Len(g) = 0 THEN InSupportF(g, f)
  ELSE \/ (~RIsOne(e) /\ Drawable(g, Gpar, lam, K))
       \/ (RPos(e) /\ InSupportF(g, f))
Supported(G, P) ==
  \E gp \in SubBags(G, P.tp, P.K) :
     /\ SidePositive(gp, P.Gp, P.lp, P.ep, P.f, P.K)
     /\ SidePositive(BagDiff(G, gp, P.K), P.Gq, P.lq, P.eq, P.f, P.K)

SwapP(P) == [K |-> P.K, Gp |-> P.Gq, Gq |-> P.Gp, tp |-> P.tq, tq |-> P.tp,
             lp |-> P.lq, lq |-> P.lp, ep |-> P.eq, eq |-> P.ep, f |-> P.f]

=============================================================================
