----------------------------- MODULE CallModel -----------------------------
(* The mathematical model shared by the known-haplotype callers             *)
(* (`mchap call-exact`: ExactPosterior, `mchap call`: CallSampler):          *)
(*   J(G) = PriorW(G) * PROD_r ReadNum(r,G)^c_r   over sorted allele tuples G *)
(* with Dirichlet-multinomial / multinomial integer prior weights for         *)
(* rational inbreeding F = Fn/Fd and frequencies w_i / SUM w, and per-read    *)
(* mixture numerators for reads whose cells are gaps or calls with            *)
(* P(correct) = 7/8 (cell values 21/24, 1/24, gap 24/24).  Exact arithmetic   *)
(* (BigNat limbs).  Written from the definitions, not from the code.          *)
(* An instance record i has fields P, H (haplotype x SNV allele matrix),      *)
(* w (integer frequency weights), Fn, Fd, reads (sequence of [cells, cnt]).   *)
EXTENDS Integers, Sequences, FiniteSets, TLC, BigNat, Genotypes

(* ---- instance families (DESIGN 2.5) ------------------------------------- *)
AllMenus == {"K1N0", "K2N1", "K3N1", "K3N2", "K4N2", "K2N3", "K4N3"}
Hap(m) == CASE m = "K1N0" -> << <<>> >>
            [] m = "K2N1" -> << <<0>>, <<1>> >>
            [] m = "K3N1" -> << <<0>>, <<1>>, <<2>> >>
            [] m = "K3N2" -> << <<0,0>>, <<0,1>>, <<1,1>> >>
            [] m = "K4N2" -> << <<0,0>>, <<0,1>>, <<1,0>>, <<1,1>> >>
            [] m = "K2N3" -> << <<0,0,0>>, <<1,1,1>> >>
            [] m = "K4N3" -> << <<0,0,0>>, <<0,1,1>>, <<1,1,0>>, <<1,0,2>> >>

NHap(m) == Len(Hap(m))
NSnv(m) == Len(Hap(m)[1])
MaxOf(S) == CHOOSE x \in S : \A y \in S : y <= x
NAll(m) == [j \in 1..NSnv(m) |-> 1 + MaxOf({Hap(m)[k][j] : k \in 1..NHap(m)})]

(* read alphabet: a read is a vector of cells, -1 = gap, a >= 0 = call of    *)
(* SNV allele a.  Full alphabet for N <= 2, a curated menu for N = 3.        *)
FullReads(m) == LET A == NAll(m) IN {c \in [1..NSnv(m) -> -1..2] : \A j \in 1..NSnv(m) : c[j] < A[j]}
ReadAlphabet(m) ==
  CASE m = "K2N3" -> {<<0,0,0>>, <<1,1,1>>, <<0,1,-1>>, <<-1,-1,1>>, <<1,0,0>>, <<-1,-1,-1>>}
    [] m = "K4N3" -> {<<0,0,0>>, <<0,1,1>>, <<1,1,0>>, <<1,0,2>>, <<-1,1,-1>>, <<1,-1,2>>, <<0,0,2>>, <<-1,-1,-1>>}
    [] OTHER -> FullReads(m)

RECURSIVE CodeFrom(_, _)
CodeFrom(c, j) == IF j = 0 THEN 0 ELSE (c[j] + 1) + 4 * CodeFrom(c, j - 1)
Code(c) == CodeFrom(c, Len(c))          \* total order on cell vectors

(* frequency patterns as integer weights, f_i = w_i / SUM w                  *)
Weights(pat, K) ==
  CASE pat = "flat"     -> [i \in 1..K |-> 1]
    [] pat = "skew"     -> [i \in 1..K |-> i]
    [] pat = "dom"      -> [i \in 1..K |-> IF i = 1 THEN 3 ELSE 1]
    [] pat = "lastzero" -> [i \in 1..K |-> IF i = K THEN 0 ELSE IF i = 1 THEN 2 ELSE 1]
    [] pat = "refzero"  -> [i \in 1..K |-> IF i = 1 THEN 0 ELSE 1]
PatternOK(pat, K) == pat \in {"lastzero", "refzero"} => K >= 2

RECURSIVE SumSeq(_, _)
SumSeq(s, n) == IF n = 0 THEN 0 ELSE s[n] + SumSeq(s, n - 1)

(* ---- prior: Dirichlet-multinomial integer weights ------------------------ *)
(* F = Fn/Fd;  alpha_i = f_i (1-F)/F = w_i (Fd-Fn) / (d Fn) = a_i / D           *)
AlphaNum(i) == [k \in 1..Len(i.w) |-> i.w[k] * (i.Fd - i.Fn)]
AlphaDen(i) == SumSeq(i.w, Len(i.w)) * i.Fn
CountBefore(v, h) == Cardinality({x \in 1..(h - 1) : v[x] = v[h]})
(* Polya-urn factors of an allele vector in the given order (F > 0), or the  *)
(* independent-draw factors (F = 0); the common denominator is               *)
(* PROD_{k<P} (A + k D)  resp.  d^P  and cancels in the posterior.           *)
UrnFactors(i, v) ==
  IF i.Fn = 0 THEN [h \in 1..Len(v) |-> i.w[v[h] + 1]]
  ELSE LET a == AlphaNum(i)  D == AlphaDen(i)
       IN  [h \in 1..Len(v) |-> a[v[h] + 1] + CountBefore(v, h) * D]
PriorNormFactors(i) ==
  IF i.Fn = 0 THEN [h \in 1..i.P |-> SumSeq(i.w, Len(i.w))]
  ELSE LET a == AlphaNum(i)  D == AlphaDen(i)  A == SumSeq(a, Len(a))
       IN  [h \in 1..i.P |-> A + (h - 1) * D]

(* ---- likelihood: per-read mixture numerators ----------------------------- *)
Cell(c, x) == IF c = -1 THEN 24 ELSE IF c = x THEN 21 ELSE 1
RECURSIVE ProdCells(_, _, _)
ProdCells(cells, hap, j) == IF j = 0 THEN 1 ELSE Cell(cells[j], hap[j]) * ProdCells(cells, hap, j - 1)
RECURSIVE SumHaps(_, _, _, _)
SumHaps(cells, H, G, h) ==
  IF h = 0 THEN 0 ELSE ProdCells(cells, H[G[h] + 1], Len(cells)) + SumHaps(cells, H, G, h - 1)
ReadNum(i, r, G) == SumHaps(i.reads[r].cells, i.H, G, Len(G))    \* over P * 24^N

RECURSIVE Repeat(_, _)
Repeat(x, n) == IF n = 0 THEN <<>> ELSE <<x>> \o Repeat(x, n - 1)
RECURSIVE ReadFactorsFrom(_, _, _)
ReadFactorsFrom(i, G, r) ==
  IF r = 0 THEN <<>> ELSE ReadFactorsFrom(i, G, r - 1) \o Repeat(ReadNum(i, r, G), i.reads[r].cnt)
ReadFactors(i, G) == ReadFactorsFrom(i, G, Len(i.reads))

RECURSIVE MulAll(_, _)
MulAll(acc, fs) ==
  IF fs = <<>> THEN acc
  ELSE MulAll(IF Head(fs) <= 100000 THEN BnMulSmall(acc, Head(fs)) ELSE BnMul(acc, BnFromNat(Head(fs))), Tail(fs))

(* A long locus: an instance may carry `tile` = T > 1, meaning that its N SNV columns (of the   *)
(* haplotypes and of every read) are repeated T times, N T SNVs in all.  A haplotype's product  *)
(* over the columns is then the T-th power of its product over the N columns, so the per-read   *)
(* numerator is sum_h HapProd_h^T over P * 24^(N T): far outside machine integers, and with     *)
(* mismatches at dozens of SNVs far below the smallest factors a short locus produces.          *)
Tile(i) == IF "tile" \in DOMAIN i THEN i.tile ELSE 1
RECURSIVE BnPowBig(_, _)
BnPowBig(x, n) == IF n = 0 THEN <<1>> ELSE BnMul(BnPowBig(x, n - 1), x)
BnPowSmall(x, n) == BnPowBig(BnFromNat(x), n)
RECURSIVE SumHapsT(_, _, _, _, _)
SumHapsT(cells, H, G, h, T) ==
  IF h = 0 THEN <<>> ELSE BnAdd(BnPowSmall(ProdCells(cells, H[G[h] + 1], Len(cells)), T), SumHapsT(cells, H, G, h - 1, T))
RECURSIVE LBigTFrom(_, _, _)
LBigTFrom(i, G, r) ==
  IF r = 0 THEN <<1>>
  ELSE BnMul(LBigTFrom(i, G, r - 1), BnPowBig(SumHapsT(i.reads[r].cells, i.H, G, Len(G), Tile(i)), i.reads[r].cnt))

WFactors(i, G) == <<Perms(G)>> \o UrnFactors(i, G)                           \* prior weight W(G), G sorted
LBig(i, G) == IF Tile(i) = 1 THEN MulAll(<<1>>, ReadFactors(i, G))           \* likelihood numerator
              ELSE LBigTFrom(i, G, Len(i.reads))
JBig(i, G) == IF Tile(i) = 1 THEN MulAll(<<1>>, WFactors(i, G) \o ReadFactors(i, G))             \* joint numerator
              ELSE BnMul(MulAll(<<1>>, WFactors(i, G)), LBig(i, G))

(* ---- declarative genotype space ------------------------------------------ *)
AllSorted(P, K) == {v \in [1..P -> 0..(K - 1)] : IsSorted(v)}
AlleleSet(G) == {G[h] : h \in 1..Len(G)}
NGen(P, K) == Choose(K + P - 1, P)

RECURSIVE BnSumSet(_, _, _)
BnSumSet(i, S, acc) ==
  IF S = {} THEN acc
  ELSE LET G == CHOOSE x \in S : TRUE IN BnSumSet(i, S \ {G}, BnAdd(acc, JBig(i, G)))

=============================================================================
