------------------------------ MODULE BigNat ------------------------------
(* Naturals as little-endian limb sequences, base 10^4 (TLC integers are     *)
(* 32-bit).  <<>> is zero; canonical form has no trailing zero limb.         *)
EXTENDS Integers, Sequences

Base == 10000

RECURSIVE BnAddC(_, _, _)
BnAddC(a, b, c) ==
  IF a = <<>> /\ b = <<>>
  THEN (IF c = 0 THEN <<>> ELSE <<c>>)
  ELSE LET x == IF a = <<>> THEN 0 ELSE Head(a)
           y == IF b = <<>> THEN 0 ELSE Head(b)
           s == x + y + c
       IN  <<s % Base>> \o BnAddC(IF a = <<>> THEN <<>> ELSE Tail(a),
                                  IF b = <<>> THEN <<>> ELSE Tail(b),
                                  s \div Base)

BnAdd(a, b) == BnAddC(a, b, 0)

RECURSIVE BnFromNat(_)
BnFromNat(n) == IF n = 0 THEN <<>> ELSE <<n % Base>> \o BnFromNat(n \div Base)

(* multiply by a small natural m <= 200000 (so that limb*m+carry < 2^31)     *)
RECURSIVE BnMulSmallC(_, _, _)
BnMulSmallC(a, m, c) ==
  IF a = <<>>
  THEN BnFromNat(c)
  ELSE LET s == Head(a) * m + c
       IN  <<s % Base>> \o BnMulSmallC(Tail(a), m, s \div Base)

RECURSIVE BnStrip(_)
BnStrip(a) == IF a # <<>> /\ a[Len(a)] = 0 THEN BnStrip(SubSeq(a, 1, Len(a) - 1)) ELSE a

BnMulSmall(a, m) == IF m = 0 THEN <<>> ELSE BnStrip(BnMulSmallC(a, m, 0))

(* comparison of canonical values: -1, 0, 1                                  *)
RECURSIVE BnCmpFrom(_, _, _)
BnCmpFrom(a, b, i) ==
  IF i = 0 THEN 0
  ELSE IF a[i] < b[i] THEN -1
  ELSE IF a[i] > b[i] THEN 1
  ELSE BnCmpFrom(a, b, i - 1)

BnCmp(a, b) ==
  IF Len(a) < Len(b) THEN -1
  ELSE IF Len(a) > Len(b) THEN 1
  ELSE BnCmpFrom(a, b, Len(a))

BnEq(a, b) == a = b
BnLeq(a, b) == BnCmp(a, b) <= 0
BnLt(a, b) == BnCmp(a, b) < 0

(* a - b for a >= b                                                          *)
RECURSIVE BnSubC(_, _, _)
BnSubC(a, b, br) ==
  IF a = <<>> THEN <<>>
  ELSE LET y == (IF b = <<>> THEN 0 ELSE Head(b)) + br
           x == Head(a)
       IN  IF x >= y
           THEN <<x - y>> \o BnSubC(Tail(a), IF b = <<>> THEN <<>> ELSE Tail(b), 0)
           ELSE <<x + Base - y>> \o BnSubC(Tail(a), IF b = <<>> THEN <<>> ELSE Tail(b), 1)
BnSub(a, b) == BnStrip(BnSubC(a, b, 0))

RECURSIVE BnMulAcc(_, _, _)
BnMulAcc(a, b, shift) ==
  IF b = <<>> THEN <<>>
  ELSE BnAdd(shift \o BnMulSmall(a, Head(b)), BnMulAcc(a, Tail(b), shift \o <<0>>))
BnMul(a, b) == IF a = <<>> \/ b = <<>> THEN <<>> ELSE BnStrip(BnMulAcc(a, b, <<>>))

(* 2^53 = 9007199254740992                                                   *)
Bn2p53 == <<992, 5474, 1992, 9007>>
=============================================================================
