----------------------------- MODULE ReadWeights -----------------------------
(* Exact per-read mixture numerators of the read likelihood, from its        *)
(* documented definition:                                                    *)
(*                                                                           *)
(*   P(read | genotype) = mean over the genotype's haplotypes h of           *)
(*                        prod over SNVs j of P(observed base_j | allele h_j) *)
(*   with a missing base call contributing a factor of one.                  *)
(*                                                                           *)
(* Instance family (DESIGN 2.5): every called base has P(correct) = 7/8 and  *)
(* the error mass is split over 3 alternatives, so a cell probability is     *)
(*   21/24 (haplotype carries the called allele), 1/24 (another allele),     *)
(*   0 (the haplotype carries a non-allele of that SNV), 1 = 24/24 (gap).    *)
(* All values share the denominator 24 per SNV; the probability of a read    *)
(* under a genotype of ploidy P over N SNVs is ReadNum / (P * 24^N).         *)
(*                                                                           *)
(* Encoding: a read is a sequence of N cells, cell = -1 (gap) or the called  *)
(* allele 0..A[j]-1; a haplotype is a sequence of N alleles; a genotype is a *)
(* sequence of P haplotypes; A[j] is the number of alleles of SNV j.         *)
EXTENDS Integers, Sequences, FiniteSets

Gap == -1
CellDen == 24
CorrectNum == 21
ErrorNum == 1

CellNum(c, x, a) ==
  IF x >= a THEN 0                      \* zero-probability non-allele slot
  ELSE IF c = Gap THEN CellDen          \* missing call: factor one
  ELSE IF c = x THEN CorrectNum
  ELSE ErrorNum

RECURSIVE HapNumFrom(_, _, _, _)
HapNumFrom(cells, hap, A, j) ==
  IF j = 0 THEN 1 ELSE CellNum(cells[j], hap[j], A[j]) * HapNumFrom(cells, hap, A, j - 1)
HapNum(cells, hap, A) == HapNumFrom(cells, hap, A, Len(cells))

RECURSIVE ReadNumFrom(_, _, _, _)
ReadNumFrom(cells, G, A, h) ==
  IF h = 0 THEN 0 ELSE HapNum(cells, G[h], A) + ReadNumFrom(cells, G, A, h - 1)
ReadNum(cells, G, A) == ReadNumFrom(cells, G, A, Len(G))

RECURSIVE IPow(_, _)
IPow(b, k) == IF k = 0 THEN 1 ELSE b * IPow(b, k - 1)
ReadDen(P, N) == P * IPow(CellDen, N)

(* A read set is a sequence of <<cells, count>>.  Its likelihood is the      *)
(* product over reads of (ReadNum/ReadDen)^count; it is represented by the   *)
(* bag of its factors: numerator |-> total exponent.                         *)
FactorBag(rds, G, A) ==
  LET nums == {ReadNum(rds[k][1], G, A) : k \in 1..Len(rds)}
      RECURSIVE Tot(_, _)
      Tot(x, k) == IF k = 0 THEN 0
                   ELSE (IF ReadNum(rds[k][1], G, A) = x THEN rds[k][2] ELSE 0) + Tot(x, k - 1)
  IN  [x \in {y \in nums : Tot(y, Len(rds)) > 0} |-> Tot(x, Len(rds))]

(* per-read factors in read order (what a reads x 1 loop produces)           *)
FactorSeq(rds, G, A) == [k \in 1..Len(rds) |-> <<ReadNum(rds[k][1], G, A), rds[k][2]>>]

(* a read with count k written out as k reads with count 1                   *)
RECURSIVE Expand(_)
Expand(rds) ==
  IF rds = <<>> THEN <<>>
  ELSE [i \in 1..Head(rds)[2] |-> <<Head(rds)[1], 1>>] \o Expand(Tail(rds))

(* ---- rearrangements ------------------------------------------------------ *)
(* idx: sequence of P haplotype numbers 1..P (ANY function, not only a        *)
(* permutation); interval lo..hi-1 of 0-based SNV positions (half open).      *)
InInterval(j, lo, hi) == lo <= j - 1 /\ j - 1 < hi          \* j is the 1-based column

(* the rearranged genotype: inside the interval haplotype h takes the alleles *)
(* of haplotype idx[h] (simultaneously for all h), outside it keeps its own   *)
Rearranged(G, idx, lo, hi) ==
  [h \in 1..Len(G) |-> [j \in 1..Len(G[h]) |->
     IF InInterval(j, lo, hi) THEN G[idx[h]][j] ELSE G[h][j]]]

(* likelihood of the proposal evaluated WITHOUT building the genotype:        *)
(* haplotype h reads its alleles through the redirect inside the interval     *)
RECURSIVE RedirectHapNum(_, _, _, _, _, _, _, _)
RedirectHapNum(cells, G, A, idx, lo, hi, h, j) ==
  IF j = 0 THEN 1
  ELSE LET src == IF InInterval(j, lo, hi) THEN idx[h] ELSE h
       IN  CellNum(cells[j], G[src][j], A[j]) * RedirectHapNum(cells, G, A, idx, lo, hi, h, j - 1)
RECURSIVE StructuralNumFrom(_, _, _, _, _, _, _)
StructuralNumFrom(cells, G, A, idx, lo, hi, h) ==
  IF h = 0 THEN 0
  ELSE RedirectHapNum(cells, G, A, idx, lo, hi, h, Len(cells)) + StructuralNumFrom(cells, G, A, idx, lo, hi, h - 1)
StructuralNum(cells, G, A, idx, lo, hi) == StructuralNumFrom(cells, G, A, idx, lo, hi, Len(G))

(* all reads over the cell alphabet of a shape (gap or one of the A[j]        *)
(* alleles at every SNV), as a sequence in lexicographic order                *)
RECURSIVE ReadListUpTo(_, _)
RECURSIVE ConcatReads(_)
ConcatReads(ss) == IF ss = <<>> THEN <<>> ELSE Head(ss) \o ConcatReads(Tail(ss))
ReadListUpTo(A, j) ==
  IF j = 0 THEN << <<>> >>
  ELSE LET sub == ReadListUpTo(A, j - 1)
       IN  ConcatReads([i \in 1..Len(sub) |-> [c \in 1..(A[j] + 1) |-> Append(sub[i], c - 2)]])
ReadList(A) == ReadListUpTo(A, Len(A))
=============================================================================
