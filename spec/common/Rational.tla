------------------------------ MODULE Rational ------------------------------
(* Exact rationals as pairs <<num, den>> of TLC integers, den > 0, kept in   *)
(* lowest terms by every operator (so that equal values are equal tuples and *)
(* intermediate products stay small: TLC integers are 32-bit and overflow is *)
(* an error, not a wrap).  Callers keep |num|, den below ~40 000 before a    *)
(* product; larger magnitudes belong in BigNat.                              *)
EXTENDS Integers, Sequences

RECURSIVE Gcd(_, _)
Gcd(a, b) == IF b = 0 THEN (IF a < 0 THEN -a ELSE a) ELSE Gcd(b, a % b)

Abs(x) == IF x < 0 THEN -x ELSE x

(* lowest terms, positive denominator; 0 is <<0, 1>>                         *)
RNorm(q) ==
  LET n == q[1]
      d == q[2]
      g == Gcd(Abs(n), Abs(d))
      s == IF d < 0 THEN -1 ELSE 1
  IN  IF n = 0 THEN <<0, 1>> ELSE <<s * (n \div g), s * (d \div g)>>

RZero == <<0, 1>>
ROne  == <<1, 1>>
RInt(n) == <<n, 1>>
RMake(n, d) == RNorm(<<n, d>>)

IsRational(q) == /\ q \in Int \X Int
                 /\ q[2] > 0
                 /\ Gcd(Abs(q[1]), q[2]) = 1

(* a/b + c/d over the least common denominator (cross-reduced first)         *)
RAdd(p, q) ==
  LET g == Gcd(p[2], q[2])
  IN  RNorm(<<p[1] * (q[2] \div g) + q[1] * (p[2] \div g), (p[2] \div g) * q[2]>>)

RNeg(p) == <<-p[1], p[2]>>
RSub(p, q) == RAdd(p, RNeg(q))

(* cross-cancel before multiplying so that the product is already reduced    *)
RMul(p, q) ==
  LET g1 == Gcd(Abs(p[1]), q[2])
      g2 == Gcd(Abs(q[1]), p[2])
  IN  IF p[1] = 0 \/ q[1] = 0 THEN RZero
      ELSE <<(p[1] \div g1) * (q[1] \div g2), (p[2] \div g2) * (q[2] \div g1)>>

RInv(p) == IF p[1] < 0 THEN <<-p[2], -p[1]>> ELSE <<p[2], p[1]>>      \* p # 0
RDiv(p, q) == RMul(p, RInv(q))

(* 1 - p                                                                     *)
RMin1(p) == RSub(ROne, p)

REq(p, q)  == RNorm(p) = RNorm(q)
RLeq(p, q) == LET g == Gcd(p[2], q[2]) IN p[1] * (q[2] \div g) <= q[1] * (p[2] \div g)
RLt(p, q)  == RLeq(p, q) /\ ~REq(p, q)

RECURSIVE RSumSeq(_, _)
RSumSeq(s, i) == IF i = 0 THEN RZero ELSE RAdd(s[i], RSumSeq(s, i - 1))
RSum(s) == RSumSeq(s, Len(s))

RECURSIVE RPow(_, _)
RPow(p, k) == IF k = 0 THEN ROne ELSE RMul(p, RPow(p, k - 1))
=============================================================================
