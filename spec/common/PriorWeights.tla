---------------------------- MODULE PriorWeights ----------------------------
(* Exact integer weights of the genotype priors (multinomial and             *)
(* Dirichlet-multinomial), written from the textbook pmf.                    *)
(*                                                                           *)
(* Parameters (a record `pr`):                                               *)
(*   fn, fd : inbreeding F = fn/fd, 0 <= fn < fd                             *)
(*   m, n   : allele frequencies f_i = n[i+1]/m  (alleles are 0-based,       *)
(*            n is a 1-based sequence of naturals with sum m)                *)
(* Dispersion alpha_i = f_i (1-F)/F = a_i / D with                           *)
(*   a_i = n_i (fd - fn),  D = m fn,  A = sum a_i = m (fd - fn).             *)
(*                                                                           *)
(* Dirichlet-multinomial pmf of a dosage vector d (sum P):                   *)
(*   P! G(A')/G(P+A') * prod_i G(d_i+alpha_i)/(d_i! G(alpha_i)),  A' = A/D   *)
(* = Perms(d) * prod_i prod_{k<d_i}(alpha_i + k) / prod_{k<P}(A' + k)        *)
(* = Perms(d) * prod_i prod_{k<d_i}(a_i + k D)   / prod_{k<P}(A  + k D)      *)
(* (numerator and denominator multiplied by D^P).  Multinomial (F = 0):      *)
(*   Perms(d) * prod_i n_i^{d_i} / m^P.                                      *)
(* Every factor is a small natural; products are BigNat limb sequences, and  *)
(* the factor lists themselves are exported so that the harness can multiply *)
(* them with Python Fractions.                                               *)
EXTENDS Integers, Sequences, FiniteSets, BigNat, Genotypes

RECURSIVE BnProd(_)
BnProd(fs) == IF fs = <<>> THEN <<1>> ELSE BnMulSmall(BnProd(Tail(fs)), Head(fs))

RECURSIVE SeqSum(_)
SeqSum(s) == IF s = <<>> THEN 0 ELSE Head(s) + SeqSum(Tail(s))

(* a, a+D, ..., a+(d-1)D : the factors of the rising factorial D^d (a/D)_d   *)
RisingFactors(a, D, d) == [k \in 1..d |-> a + (k - 1) * D]

IsPriorParam(pr, K) ==
  /\ pr.fn \in Nat /\ pr.fd \in Nat /\ pr.fn < pr.fd
  /\ pr.m \in Nat \ {0}
  /\ Len(pr.n) = K
  /\ \A i \in 1..K : pr.n[i] \in Nat
  /\ SeqSum(pr.n) = pr.m

AlphaNum(pr, i) == pr.n[i + 1] * (pr.fd - pr.fn)            \* a_i, allele i is 0-based
AlphaDen(pr)    == pr.m * pr.fn                             \* D   (0 iff F = 0)
AlphaSum(pr)    == pr.m * (pr.fd - pr.fn)                   \* A

(* ---- multinomial (F = 0), from its own definition ----------------------- *)
MultinomialFactors(pr, g) == [t \in 1..Len(g) |-> pr.n[g[t] + 1]]
MultinomialZFactors(pr, P) == [t \in 1..P |-> pr.m]

(* ---- Dirichlet-multinomial (F > 0) -------------------------------------- *)
RECURSIVE DMFactorsFrom(_, _, _)
DMFactorsFrom(pr, g, i) ==       \* alleles i, i-1, .., 0
  IF i < 0 THEN <<>>
  ELSE DMFactorsFrom(pr, g, i - 1) \o RisingFactors(AlphaNum(pr, i), AlphaDen(pr), CountOf(g, i))
DMFactors(pr, g) == DMFactorsFrom(pr, g, Len(pr.n) - 1)
DMZFactors(pr, P) == RisingFactors(AlphaSum(pr), AlphaDen(pr), P)

(* ---- the genotype prior as integer weight / normaliser ------------------ *)
(* weight of ONE ordering of the genotype (ordered-state target W/Perms)     *)
OrderedFactors(pr, g) == IF pr.fn = 0 THEN MultinomialFactors(pr, g) ELSE DMFactors(pr, g)
ZFactors(pr, P)       == IF pr.fn = 0 THEN MultinomialZFactors(pr, P) ELSE DMZFactors(pr, P)

OrderedWeight(pr, g) == BnProd(OrderedFactors(pr, g))
Weight(pr, g)        == BnMulSmall(OrderedWeight(pr, g), Perms(g))       \* W(G)
Normaliser(pr, P)    == BnProd(ZFactors(pr, P))                          \* Z

(* ---- single-allele conditional (Polya urn predictive) ------------------- *)
(* P(next allele = b | the other P-1 alleles = rest)                         *)
(*   F > 0 : (alpha_b + n_b(rest)) / (A' + P - 1);   F = 0 : f_b             *)
CondNum(pr, rest, b) == AlphaNum(pr, b) + CountOf(rest, b) * AlphaDen(pr)
CondDen(pr, rest)    == AlphaSum(pr) + Len(rest) * AlphaDen(pr)

(* ---- assemble prior: flat dispersion over U possible haplotypes --------- *)
(* dosage: sequence of naturals (zeros allowed) with sum P; every non-zero   *)
(* entry is one distinct haplotype.  alpha = (1/U)(1-F)/F = (fd-fn)/(U fn).  *)
RECURSIVE ConcatSeqs(_)
ConcatSeqs(ss) == IF ss = <<>> THEN <<>> ELSE Head(ss) \o ConcatSeqs(Tail(ss))
RECURSIVE ProdFactSeq(_)
ProdFactSeq(d) == IF d = <<>> THEN 1 ELSE Fact(Head(d)) * ProdFactSeq(Tail(d))
DosagePerms(d) == Fact(SeqSum(d)) \div ProdFactSeq(d)

AsmOrderedFactors(d, U, fn, fd) ==
  IF fn = 0 THEN [t \in 1..SeqSum(d) |-> 1]
  ELSE ConcatSeqs([t \in 1..Len(d) |-> RisingFactors(fd - fn, U * fn, d[t])])
AsmZFactors(d, U, fn, fd) ==
  IF fn = 0 THEN [t \in 1..SeqSum(d) |-> U]
  ELSE RisingFactors(U * (fd - fn), U * fn, SeqSum(d))
AsmWeight(d, U, fn, fd) == BnMulSmall(BnProd(AsmOrderedFactors(d, U, fn, fd)), DosagePerms(d))
AsmNormaliser(d, U, fn, fd) == BnProd(AsmZFactors(d, U, fn, fd))

(* dosage array in the implementation's layout: count at the first           *)
(* occurrence of every distinct allele, zero at the repeats                  *)
FirstOccDosage(g) ==
  [t \in 1..Len(g) |-> IF \E s \in 1..(t - 1) : g[s] = g[t] THEN 0 ELSE CountOf(g, g[t])]

(* g with position t removed                                                 *)
Without(g, t) == [s \in 1..(Len(g) - 1) |-> IF s < t THEN g[s] ELSE g[s + 1]]

(* sorted insertion of allele b into a sorted tuple                          *)
Insert(rest, b) ==
  LET k == Cardinality({s \in 1..Len(rest) : rest[s] <= b})
  IN  [s \in 1..(Len(rest) + 1) |-> IF s <= k THEN rest[s] ELSE IF s = k + 1 THEN b ELSE rest[s - 1]]
=============================================================================
