---------------------------- MODULE AssembleMoves ----------------------------
(* C01: every elementary move of the `mchap assemble` sampler leaves the        *)
(* tempered posterior over UNORDERED genotypes invariant.                        *)
(*                                                                               *)
(* State: an unordered genotype G = bag of P haplotypes; a haplotype is a mixed- *)
(* radix code over N SNVs with A[j] alleles.  The moves are defined              *)
(* declaratively on bags (which haplotype copies may be changed into what), not  *)
(* by transcribing the code's label matrices; the binding shows that the code's  *)
(* option lists, option counts and return counts, computed from ANY row order,   *)
(* are exactly these.  The target is abstract: Target(G, t) = Bw(G)^(2t) for an  *)
(* arbitrary positive class function Bw (it stands for likelihood x prior), and  *)
(* t in {1/2, 1}; all probabilities are exact rationals.                         *)
EXTENDS Integers, Sequences, FiniteSets, TLC, Json

CONSTANTS P,         \* ploidy
          N,         \* number of SNVs
          A,         \* <<alleles at SNV 1, ..., alleles at SNV N>>
          Mutant     \* "none" or the name of a deliberately wrong acceptance rule

RECURSIVE Weight(_)
Weight(j) == IF j = 1 THEN 1 ELSE Weight(j - 1) * A[j - 1]
H == Weight(N) * A[N]                       \* number of possible haplotypes
Haps == 0..(H - 1)
Digit(c, j) == (c \div Weight(j)) % A[j]
SetDigit(c, j, a) == c + (a - Digit(c, j)) * Weight(j)

Intervals == {<<lo, hi>> \in (0..(N - 1)) \X (1..N) : lo < hi}
In(j, I) == I[1] < j /\ j <= I[2]                      \* column j (1-based) inside half-open [lo, hi)
RECURSIVE MixFrom(_, _, _, _)
MixFrom(x, y, I, j) == IF j = 0 THEN 0
                       ELSE (IF In(j, I) THEN Digit(x, j) ELSE Digit(y, j)) * Weight(j) + MixFrom(x, y, I, j - 1)
Mix(x, y, I) == MixFrom(x, y, I, N)                    \* inside part of x, outside part of y
SameIn(x, y, I) == \A j \in 1..N : In(j, I) => Digit(x, j) = Digit(y, j)
SameOut(x, y, I) == \A j \in 1..N : ~In(j, I) => Digit(x, j) = Digit(y, j)

(* ---- bags of haplotypes ---------------------------------------------------- *)
VARIABLE G            \* [Haps -> 0..P], sum = P
Support(g) == {x \in Haps : g[x] > 0}
Move1(g, x, y) == IF x = y THEN g ELSE [g EXCEPT ![x] = @ - 1, ![y] = @ + 1]   \* one copy of x becomes y
RECURSIVE SeqOf(_, _)
SeqOf(g, c) == IF c = H THEN <<>> ELSE [i \in 1..g[c] |-> c] \o SeqOf(g, c + 1)   \* sorted codes
RECURSIVE Fact(_)
Fact(n) == IF n = 0 THEN 1 ELSE n * Fact(n - 1)
RECURSIVE ProdFact(_, _)
ProdFact(g, c) == IF c = H THEN 1 ELSE Fact(g[c]) * ProdFact(g, c + 1)
Perms(g) == Fact(P) \div ProdFact(g, 0)

(* abstract class weight in 1..3 (symmetric in the rows by construction) *)
RECURSIVE SumSq(_, _)
SumSq(g, c) == IF c = H THEN 0 ELSE g[c] * (c + 1) * (c + 2) + SumSq(g, c + 1)
Bw(g) == 1 + (SumSq(g, 0) % 3)
Temps == {1, 2}                              \* t = k/2
Target(g, k) == IF k = 2 THEN Bw(g) * Bw(g) ELSE Bw(g)    \* Bw^(2t)

(* ---- rationals as <<num, den>>, den > 0 --------------------------------------- *)
Min1(n, d) == IF n >= d THEN <<1, 1>> ELSE <<n, d>>

(* ---- mutation ------------------------------------------------------------------- *)
(* base_step at (a copy of x, SNV j): proposes each other allele with prob 1/(A[j]-1), *)
(* accepts with min(1, (target ratio) * (copies of the row after / before))            *)
MutOptions(g) == {<<x, j, a>> \in Support(g) \X (1..N) \X (0..(H - 1)) : a < A[j] /\ a # Digit(x, j)}
MutResult(g, o) == Move1(g, o[1], SetDigit(o[1], o[2], o[3]))
MutAcc(g, o, k) ==
  LET x == o[1]  y == SetDigit(o[1], o[2], o[3])  g2 == MutResult(g, o)
      c == g[x]  c2 == g2[y]
  IN  CASE Mutant = "temp_on_proposal" /\ k = 1 ->
             \* wrong: the copy-count ratio tempered as well (only representable for t=1/2 with squares; use k=1 as identity check)
             Min1(Target(g2, k) * c2 * c2, Target(g, k) * c * c)
        [] Mutant = "ratio_inverted" -> Min1(Target(g2, k) * c, Target(g, k) * c2)
        [] OTHER -> Min1(Target(g2, k) * c2, Target(g, k) * c)

(* detailed balance on ORDERED states w.r.t. Target/Perms (uniform inside a class), *)
(* proposals being symmetric; it implies detailed balance of the lumped move        *)
MutationDB ==
  \A o \in MutOptions(G), k \in Temps :
    LET g2 == MutResult(G, o)
        back == <<SetDigit(o[1], o[2], o[3]), o[2], Digit(o[1], o[2])>>
        a1 == MutAcc(G, o, k)
        a2 == MutAcc(g2, back, k)
    IN  /\ back \in MutOptions(g2)
        /\ MutResult(g2, back) = G
        /\ Target(G, k) * Perms(g2) * a1[1] * a2[2] = Target(g2, k) * Perms(G) * a2[1] * a1[2]
MutationRatioIsPermRatio ==
  \A o \in MutOptions(G) :
    LET g2 == MutResult(G, o) IN  g2[SetDigit(o[1], o[2], o[3])] * Perms(g2) = G[o[1]] * Perms(G)

(* ---- recombination on interval I ------------------------------------------------- *)
(* an unordered pair of distinct haplotypes present in G whose inside parts differ and *)
(* whose outside parts differ exchange their inside parts (one copy of each)          *)
RecOptions(g, I) == {pr \in Support(g) \X Support(g) : pr[1] < pr[2] /\ ~SameIn(pr[1], pr[2], I) /\ ~SameOut(pr[1], pr[2], I)}
RecResult(g, I, pr) == Move1(Move1(g, pr[1], Mix(pr[2], pr[1], I)), pr[2], Mix(pr[1], pr[2], I))

(* ---- dosage swap on interval I ------------------------------------------------------ *)
(* one copy of a haplotype x whose inside part occurs in at least two rows has its inside *)
(* part overwritten by a different inside part s present in G                             *)
InCount(g, x, I) == LET S == {y \in Support(g) : SameIn(x, y, I)}
                    IN  IF S = {} THEN 0 ELSE
                        LET RECURSIVE Sum(_)
                            Sum(T) == IF T = {} THEN 0 ELSE LET y == CHOOSE z \in T : TRUE IN g[y] + Sum(T \ {y})
                        IN Sum(S)
InReps(g, I) == {y \in Support(g) : \A z \in Support(g) : SameIn(y, z, I) => y <= z}   \* one representative per distinct inside part
DosOptions(g, I) == {pr \in Support(g) \X InReps(g, I) : InCount(g, pr[1], I) >= 2 /\ ~SameIn(pr[1], pr[2], I)}
DosResult(g, I, pr) == Move1(g, pr[1], Mix(pr[2], pr[1], I))

Options(kind, g, I) == IF kind = "rec" THEN RecOptions(g, I) ELSE DosOptions(g, I)
Result(kind, g, I, o) == IF kind = "rec" THEN RecResult(g, I, o) ELSE DosResult(g, I, o)
Kinds == {"rec", "dos"}

(* interval_step: uniform proposal among n_fwd options, acceptance                         *)
(*   min(1, target ratio * n_fwd / n_ret)                                                    *)
StructAcc(kind, g, I, o, k) ==
  LET g2 == Result(kind, g, I, o)
      nf == Cardinality(Options(kind, g, I))
      nr == Cardinality(Options(kind, g2, I))
  IN  CASE Mutant = "nret_is_nfwd" -> Min1(Target(g2, k), Target(g, k))
        [] Mutant = "proposal_inverted" -> Min1(Target(g2, k) * nr, Target(g, k) * nf)
        [] OTHER -> Min1(Target(g2, k) * nf, Target(g, k) * nr)

OptionsNovel == \A kind \in Kinds, I \in Intervals : \A o \in Options(kind, G, I) : Result(kind, G, I, o) # G
OptionsDistinct == \A kind \in Kinds, I \in Intervals : \A o1, o2 \in Options(kind, G, I) :
                      Result(kind, G, I, o1) = Result(kind, G, I, o2) => o1 = o2
Reversible == \A kind \in Kinds, I \in Intervals : \A o \in Options(kind, G, I) :
                 LET g2 == Result(kind, G, I, o)
                 IN  Cardinality({o2 \in Options(kind, g2, I) : Result(kind, g2, I, o2) = G}) = 1
StructuralDB ==
  \A kind \in Kinds, I \in Intervals, k \in Temps : \A o \in Options(kind, G, I) :
     LET g2 == Result(kind, G, I, o)
         back == CHOOSE o2 \in Options(kind, g2, I) : Result(kind, g2, I, o2) = G
         nf == Cardinality(Options(kind, G, I))
         nr == Cardinality(Options(kind, g2, I))
         a1 == StructAcc(kind, G, I, o, k)
         a2 == StructAcc(kind, g2, I, back, k)
     IN  \* Target(G) * (1/nf) * a1 = Target(g2) * (1/nr) * a2
         Target(G, k) * a1[1] * a2[2] * nr = Target(g2, k) * a2[1] * a1[2] * nf

(* ---- state graph: any accepted move; reachability of every bag = irreducibility ---------- *)
Init == G = [x \in Haps |-> IF x = 0 THEN P ELSE 0]
Next == \/ \E o \in MutOptions(G) : G' = MutResult(G, o)
        \/ \E kind \in Kinds, I \in Intervals : \E o \in Options(kind, G, I) : G' = Result(kind, G, I, o)
Spec == Init /\ [][Next]_G

TypeOK == LET RECURSIVE S(_) S(c) == IF c = H THEN 0 ELSE G[c] + S(c + 1) IN S(0) = P

OptList(kind, I) ==
  LET os == Options(kind, G, I)
  IN  {<<SeqOf(Result(kind, G, I, o), 0), Cardinality(Options(kind, Result(kind, G, I, o), I))>> : o \in os}
A_3 == <<3>>
A_22 == <<2, 2>>
A_23 == <<2, 3>>
A_222 == <<2, 2, 2>>
A_223 == <<2, 2, 3>>
A_2222 == <<2, 2, 2, 2>>

Dump == PrintT(<<"@@J", ToJson([g |-> SeqOf(G, 0), bw |-> Bw(G), perms |-> Perms(G),
           moves |-> {<<kind, I[1], I[2], OptList(kind, I)>> : kind \in Kinds, I \in Intervals}])>>)
=============================================================================
