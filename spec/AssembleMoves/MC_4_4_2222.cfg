SPECIFICATION Spec
CONSTANT P = 4
CONSTANT N = 4
CONSTANT A <- A_2222
CONSTANT Mutant = "none"
INVARIANT TypeOK
INVARIANT MutationDB
INVARIANT MutationRatioIsPermRatio
INVARIANT OptionsNovel
INVARIANT OptionsDistinct
INVARIANT Reversible
INVARIANT StructuralDB
CONSTRAINT Dump
CHECK_DEADLOCK FALSE
