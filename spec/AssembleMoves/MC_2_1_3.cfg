SPECIFICATION Spec
CONSTANT P = 2
CONSTANT N = 1
CONSTANT A <- A_3
CONSTANT Mutant = "none"
INVARIANT TypeOK
INVARIANT MutationDB
INVARIANT MutationRatioIsPermRatio
INVARIANT OptionsNovel
INVARIANT OptionsDistinct
INVARIANT Reversible
INVARIANT StructuralDB
CONSTRAINT Dump
CHECK_DEADLOCK FALSE
