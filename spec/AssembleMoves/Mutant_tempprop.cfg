SPECIFICATION Spec
CONSTANT P = 3
CONSTANT N = 2
CONSTANT A <- A_23
CONSTANT Mutant = "temp_on_proposal"
INVARIANT MutationDB
CHECK_DEADLOCK FALSE
