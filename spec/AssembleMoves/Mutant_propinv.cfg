SPECIFICATION Spec
CONSTANT P = 3
CONSTANT N = 2
CONSTANT A <- A_23
CONSTANT Mutant = "proposal_inverted"
INVARIANT StructuralDB
CHECK_DEADLOCK FALSE
