SPECIFICATION Spec
CONSTANT P = 3
CONSTANT N = 2
CONSTANT A <- A_23
CONSTANT Mutant = "none"
INVARIANT TypeOK
INVARIANT MutationDB
INVARIANT MutationRatioIsPermRatio
INVARIANT OptionsNovel
INVARIANT OptionsDistinct
INVARIANT Reversible
INVARIANT StructuralDB
CONSTRAINT Dump
CHECK_DEADLOCK FALSE
