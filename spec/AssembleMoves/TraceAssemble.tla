---------------------------- MODULE TraceAssemble ----------------------------
(* C01 / C15, code -> spec: a complete DenovoMCMC.fit (interpreted mode, every  *)
(* base_step / interval_step / chain_swap_step call recorded with the genotype  *)
(* before and after) must be a behaviour of the sampler model:                  *)
(*  * chains are advanced in ladder order, each with its own inverse temperature*)
(*  * every Mutate event changes at most the addressed cell, and within one     *)
(*    iteration of one chain every (haplotype, SNV) pair is addressed exactly   *)
(*    once before the chain's structural moves / exchange / record              *)
(*  * every Interval event either stays or moves to the result of one of the    *)
(*    AssembleMoves options of that interval and kind (bags), leaving the part  *)
(*    of every row outside the interval untouched                               *)
(*  * an Exchange involves adjacent rungs (t, t-1), and either leaves both      *)
(*    chains alone or swaps both the matrices AND the carried log-likelihoods   *)
(*  * the carried log-likelihood is threaded through unchanged between events,  *)
(*    and the recorded row is the cold chain (last rung) with its likelihood.   *)
EXTENDS Integers, Sequences, FiniteSets, TLC, Json, IOUtils

Doc == JsonDeserialize(IOEnv.TRACE_FILE)
Hdr == Doc.header
Trace == Doc.events
NT == Len(Hdr.temps)
Unset == -2147483647

VARIABLES G, chains, llks, c, visited, structDone, exchanged, l, bad
AM == INSTANCE AssembleMoves WITH P <- Hdr.P, N <- Hdr.N, A <- Hdr.A, Mutant <- "none"
vars == <<G, chains, llks, c, visited, structDone, exchanged, l, bad>>

Bag(s) == [x \in AM!Haps |-> Cardinality({i \in 1..Len(s) : s[i] = x})]
Seq1(x) == [i \in 1..Len(x) |-> x[i]]
AllPairs == (1..Hdr.P) \X (1..Hdr.N)

Init == /\ G = Bag(Hdr.init)
        /\ chains = [t \in 1..NT |-> Seq1(Hdr.init)]
        /\ llks = [t \in 1..NT |-> Unset]
        /\ c = 1
        /\ visited = {}
        /\ structDone = FALSE
        /\ exchanged = FALSE
        /\ l = 1
        /\ bad = 0

LlkOK(t, v) == llks[t] = Unset \/ llks[t] = v

(* which chain does a move event belong to: the current one, or the next rung once the current is finished *)
ChainOf(e) == IF e.t = Hdr.temps[c] THEN c
              ELSE IF c < NT /\ e.t = Hdr.temps[c + 1] THEN c + 1 ELSE 0
Finished == visited = AllPairs /\ (c = 1 \/ exchanged)

MutateVerdict(e) ==
  LET t == ChainOf(e)
      b == Seq1(e.before)  a == Seq1(e.after)
  IN  IF t = 0 THEN "TemperatureOfChain"
      ELSE IF t = c + 1 /\ ~Finished THEN "ChainFinishedBeforeNext"
      ELSE IF t = c /\ structDone THEN "MutationsBeforeStructural"
      ELSE IF b # chains[t] THEN "StateThreaded"
      ELSE IF ~LlkOK(t, e.llk0) THEN "LlkThreaded"
      ELSE IF <<e.h, e.j>> \in (IF t = c THEN visited ELSE {}) THEN "SweepExactlyOnce"
      ELSE IF \E h \in 1..Hdr.P : h # e.h /\ a[h] # b[h] THEN "MutateOnlyAddressedRow"
      ELSE IF \E j \in 1..Hdr.N : j # e.j /\ AM!Digit(a[e.h], j) # AM!Digit(b[e.h], j) THEN "MutateOnlyAddressedSite"
      ELSE IF AM!Digit(a[e.h], e.j) >= Hdr.A[e.j] THEN "AlleleInRange"
      ELSE IF a = b /\ e.llk1 # e.llk0 THEN "StayKeepsLlk"
      ELSE "ok"

IntervalVerdict(e) ==
  LET t == ChainOf(e)
      b == Seq1(e.before)  a == Seq1(e.after)
      I == <<e.lo, e.hi>>
      gb == Bag(b)  ga == Bag(a)
  IN  IF t # c THEN "TemperatureOfChain"
      ELSE IF visited # AllPairs THEN "SweepCompleteBeforeStructural"
      ELSE IF b # chains[t] THEN "StateThreaded"
      ELSE IF ~LlkOK(t, e.llk0) THEN "LlkThreaded"
      ELSE IF a = b THEN (IF e.llk1 = e.llk0 THEN "ok" ELSE "StayKeepsLlk")
      ELSE IF \E h \in 1..Hdr.P : ~AM!SameOut(a[h], b[h], I) THEN "OutsideIntervalUntouched"
      ELSE IF ~\E o \in AM!Options(e.kind, gb, I) : AM!Result(e.kind, gb, I, o) = ga THEN "MoveIsAnOption"
      ELSE "ok"

ExchangeVerdict(e) ==
  IF c < 2 THEN "ExchangeAdjacentRungs"
  ELSE IF e.ti # Hdr.temps[c] \/ e.tj # Hdr.temps[c - 1] THEN "ExchangeAdjacentRungs"
  ELSE IF e.inb # Hdr.inb THEN "ExchangeUsesChainPrior"   \* same prior (inbreeding) as the within-chain moves; the haplotype-space size is
                                                          \* not compared: interpreted numpy takes log of an int8 array in float16
  ELSE IF visited # AllPairs THEN "SweepCompleteBeforeExchange"
  ELSE IF exchanged THEN "ExchangeOncePerRung"
  ELSE IF Seq1(e.bi) # chains[c] \/ Seq1(e.bj) # chains[c - 1] THEN "StateThreaded"
  ELSE IF ~LlkOK(c, e.li0) \/ ~LlkOK(c - 1, e.lj0) THEN "LlkThreaded"
  ELSE IF e.ai = e.bi /\ e.aj = e.bj THEN (IF e.li1 = e.li0 /\ e.lj1 = e.lj0 THEN "ok" ELSE "NoSwapKeepsLlks")
  ELSE IF e.ai = e.bj /\ e.aj = e.bi THEN (IF e.li1 = e.lj0 /\ e.lj1 = e.li0 THEN "ok" ELSE "SwapCarriesLlks")
  ELSE "ExchangeSwapsWholeMatrices"

RecordVerdict(e) ==
  IF c # NT THEN "RecordAfterLastRung"
  ELSE IF ~Finished THEN "RecordAfterSweepAndExchange"
  ELSE IF Bag(e.g) # Bag(chains[NT]) THEN "RecordIsColdChain"
  ELSE IF ~LlkOK(NT, e.llk) THEN "RecordLlkIsColdChain"
  ELSE "ok"

(* every within-chain move is made under the sample's prior: its inbreeding coefficient and the number of possible     *)
(* haplotypes of the locus, log(prod_j A_j) (recorded in micro-nats; interpreted numpy takes the log of an int8 array in   *)
(* half precision, hence the tolerance of 0.02 nats - one more or fewer allele at a single SNV changes it by >= 0.28)      *)
Abs(x) == IF x < 0 THEN -x ELSE x
PriorOfMove(e) ==
  IF "luh" \notin DOMAIN e THEN "ok"
  ELSE IF e.inb # Hdr.inb THEN "MoveUsesSamplePrior"
  ELSE IF Abs(e.luh - Hdr.luh) > 20000 THEN "MoveCountsEveryPossibleHaplotype"
  ELSE "ok"

Verdict(e) ==
  CASE e.op = "Mutate" -> (IF PriorOfMove(e) # "ok" THEN PriorOfMove(e) ELSE MutateVerdict(e))
    [] e.op = "Interval" -> (IF PriorOfMove(e) # "ok" THEN PriorOfMove(e) ELSE IntervalVerdict(e))
    [] e.op = "Exchange" -> ExchangeVerdict(e)
    [] e.op = "Record" -> RecordVerdict(e)
    [] OTHER -> "UnknownEvent"

(* the model follows the recorded values (so one defect yields one rejection, not a cascade) *)
Next ==
  /\ l <= Len(Trace)
  /\ LET e == Trace[l]
         v == Verdict(e)
     IN  /\ IF v = "ok" THEN TRUE ELSE PrintT(<<"@@J", ToJson([reject |-> l, clause |-> v])>>)
         /\ bad' = IF v = "ok" THEN bad ELSE bad + 1
         /\ CASE e.op = "Mutate" ->
                   LET t == IF ChainOf(e) = 0 THEN c ELSE ChainOf(e)
                   IN  /\ chains' = [chains EXCEPT ![t] = Seq1(e.after)]
                       /\ llks' = [llks EXCEPT ![t] = e.llk1]
                       /\ c' = t
                       /\ visited' = (IF t = c THEN visited ELSE {}) \cup {<<e.h, e.j>>}
                       /\ structDone' = (IF t = c THEN structDone ELSE FALSE)
                       /\ exchanged' = (IF t = c THEN exchanged ELSE FALSE)
              [] e.op = "Interval" ->
                   /\ chains' = [chains EXCEPT ![c] = Seq1(e.after)]
                   /\ llks' = [llks EXCEPT ![c] = e.llk1]
                   /\ structDone' = TRUE
                   /\ UNCHANGED <<c, visited, exchanged>>
              [] e.op = "Exchange" ->
                   /\ chains' = IF c >= 2 THEN [chains EXCEPT ![c] = Seq1(e.ai), ![c - 1] = Seq1(e.aj)] ELSE chains
                   /\ llks' = IF c >= 2 THEN [llks EXCEPT ![c] = e.li1, ![c - 1] = e.lj1] ELSE llks
                   /\ exchanged' = TRUE
                   /\ structDone' = TRUE
                   /\ UNCHANGED <<c, visited>>
              [] e.op = "Record" ->
                   /\ c' = 1 /\ visited' = {} /\ structDone' = FALSE /\ exchanged' = FALSE
                   /\ UNCHANGED <<chains, llks>>
              [] OTHER -> UNCHANGED <<chains, llks, c, visited, structDone, exchanged>>
  /\ l' = l + 1
  /\ UNCHANGED G
Spec == Init /\ [][Next]_vars
Consumed == (l = Len(Trace) + 1) => PrintT(<<"@@J", ToJson([consumed |-> l - 1, rejected |-> bad])>>)
=============================================================================
