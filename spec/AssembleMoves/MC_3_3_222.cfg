SPECIFICATION Spec
CONSTANT P = 3
CONSTANT N = 3
CONSTANT A <- A_222
CONSTANT Mutant = "none"
INVARIANT TypeOK
INVARIANT MutationDB
INVARIANT MutationRatioIsPermRatio
INVARIANT OptionsNovel
INVARIANT OptionsDistinct
INVARIANT Reversible
INVARIANT StructuralDB
CONSTRAINT Dump
CHECK_DEADLOCK FALSE
