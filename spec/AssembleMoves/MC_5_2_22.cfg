SPECIFICATION Spec
CONSTANT P = 5
CONSTANT N = 2
CONSTANT A <- A_22
CONSTANT Mutant = "none"
INVARIANT TypeOK
INVARIANT MutationDB
INVARIANT MutationRatioIsPermRatio
INVARIANT OptionsNovel
INVARIANT OptionsDistinct
INVARIANT Reversible
INVARIANT StructuralDB
CONSTRAINT Dump
CHECK_DEADLOCK FALSE
