SPECIFICATION Spec
CONSTANT Letters <- AC
CONSTANT L = 3
CONSTANT MaxAlt = 2
CONSTANT Hints <- AnyHint
CONSTANT Refs <- AllSeqs
INVARIANT TypeOK
INVARIANT RoundTrip
INVARIANT RefRowZero
INVARIANT IndicesDense
INVARIANT SnvColsArePolymorphic
INVARIANT FirstAppearanceNumbering
INVARIANT StepwiseMatchesDeclarative
INVARIANT EncodingInjective
INVARIANT CoveringHintRoundTrips
INVARIANT NonCoveringHintLosesSequence
CONSTRAINT Dump
CHECK_DEADLOCK FALSE
