SPECIFICATION Spec
CONSTANT Letters <- AC
CONSTANT L = 3
CONSTANT MaxAlt = 2
CONSTANT Hints <- AnyHint
CONSTANT Refs <- AllSeqs
CONSTANT FoundCols <- MutFoundColsHinted
INVARIANT SnvColsArePolymorphic
CHECK_DEADLOCK FALSE
