---------------------------- MODULE TraceHapCodec ----------------------------
(* code -> spec for C12 (pipeline clause).  One event per haplotype record    *)
(* that was handed to `call` / `call-exact` (prog = "none": the assemble       *)
(* record on its own):                                                        *)
(*   src  the input record (an assemble output line): chrom, pos, ref, alts,  *)
(*        has_snvpos, snvpos (1-based offsets), filters                       *)
(*   out  the record the program printed for it: chrom, pos, ref, alts,       *)
(*        snvpos (the SNV positions the program recovered from the            *)
(*        sequences), filters, gts (-1 for ".")                               *)
(*   src.assembled  TRUE: the record was written by assemble (its SNVPOS must  *)
(*        cover the polymorphic columns);  FALSE: a haplotype catalogue whose  *)
(*        SNVPOS may be absent, '.', incomplete or stale (merged / edited      *)
(*        files) -- the programs identify the SNVs from REF/ALT all the same.  *)
(* kind = "run": one whole program run: src / out = the <<chrom, pos, ref,     *)
(*        alts>> keys of all input / output records in file order.             *)
(* Sequences are lists of one-character strings.                              *)
EXTENDS HapCodecOps, TLC, Json, IOUtils

Trace == JsonDeserialize(IOEnv.TRACE_FILE)

VARIABLES l, bad
vars == <<l, bad>>

(* kind = "codec": what from_variant_record / encode_haplotypes / format_haplotypes *)
(* returned for a (random, larger) record; TLC recomputes the codec on it           *)
(* e.hint = the INFO/SNVPOS annotation the record carried (absent / dot / list of columns, *)
(* possibly incomplete or stale): the sequence path never depends on it.  e.trusted = what *)
(* the use_snvpos = True path returned; judged only when the annotation covers the record. *)
CodecVerdict(e) ==
  LET r == [ref |-> e.ref, alts |-> e.alts]
      t == e.trusted
  IN  IF e.cols # SnvCols(r) THEN "SnvColsArePolymorphic"
      ELSE IF e.alleles # Alleles(r) THEN "FirstAppearanceNumbering"
      ELSE IF e.matrix # Encode(r) THEN "Encode"
      ELSE IF e.decoded # Rows(r) THEN "RoundTrip"
      ELSE IF Covers(e.hint, r) /\
              (~t.ok \/ t.cols # e.hint.cols \/ t.matrix # EncodeOn(r, e.hint.cols) \/ t.decoded # Rows(r))
           THEN "CoveringSnvposRoundTrips"
      ELSE "ok"

Count(s, x) == Cardinality({i \in DOMAIN s : s[i] = x})
(* every input record is re-emitted exactly once and nothing else is printed (an aborted run *)
(* is judged record by record, clause RunAborted)                                            *)
RunVerdict(e) ==
  IF e.crashed THEN "ok"
  ELSE IF \E x \in Range(e.src) \cup Range(e.out) : Count(e.src, x) # Count(e.out, x) THEN "EveryRecordOnce"
  ELSE "ok"

PairVerdict(e) ==
  LET r  == [ref |-> e.src.ref, alts |-> e.src.alts]
      cs == SnvCols(r)
      o  == e.out
  IN
  \* the assemble record itself: the SNVs recoverable from its sequences are the
  \* polymorphic subset of the SNVPOS it reports
  IF e.src.assembled /\ e.src.has_snvpos /\ ~(Range(cs) \subseteq Range(e.src.snvpos)) THEN "SnvColsSubsetOfSNVPOS"
  ELSE IF \E h \in 1..Len(r.alts) : Len(r.alts[h]) # Len(r.ref) THEN "FixedLength"
  ELSE IF e.prog = "none" THEN "ok"
  ELSE IF e.crashed THEN "RunAborted"
  ELSE IF ~e.present THEN "RecordEmitted"
  ELSE IF o.chrom # e.src.chrom \/ o.pos # e.src.pos THEN "SameLocus"
  ELSE IF o.ref # e.src.ref THEN "SameRef"
  ELSE IF o.alts # e.src.alts THEN "SameAlt"
  ELSE IF o.snvpos # cs THEN "RecoveredSnvsArePolymorphicSubset"
  ELSE IF Range(o.filters) \cap {"NOA", "AF0"} = {} /\
          (\E s \in DOMAIN o.gts : \E j \in DOMAIN o.gts[s] : o.gts[s][j] < 0 \/ o.gts[s][j] > Len(o.alts)) THEN "GenotypeComplete"
  ELSE IF \E s \in DOMAIN o.gts : Len(o.gts[s]) = 0 THEN "GenotypeComplete"
  ELSE "ok"

Verdict(e) == IF e.kind = "codec" THEN CodecVerdict(e)
              ELSE IF e.kind = "run" THEN RunVerdict(e) ELSE PairVerdict(e)

Init == l = 1 /\ bad = 0
Next == /\ l <= Len(Trace)
        /\ LET v == Verdict(Trace[l])
           IN  /\ IF v = "ok" THEN TRUE ELSE PrintT(<<"@@J", ToJson([reject |-> l, clause |-> v])>>)
               /\ bad' = IF v = "ok" THEN bad ELSE bad + 1
        /\ l' = l + 1
Spec == Init /\ [][Next]_vars
Consumed == (l = Len(Trace) + 1) => PrintT(<<"@@J", ToJson([consumed |-> l - 1, rejected |-> bad])>>)
=============================================================================
