SPECIFICATION Spec
CONSTANT Letters <- ACGT
CONSTANT L = 2
CONSTANT MaxAlt = 2
CONSTANT Hints <- FullHint
CONSTANT Refs <- AllSeqs
CONSTANT FirstAppearance <- MutSortedAlleles
INVARIANT RefRowZero
CHECK_DEADLOCK FALSE
