SPECIFICATION Spec
CONSTANT Targets <- QuickTargets
CONSTANT MaxRec = 3
CONSTANT Emitted <- MutEmitted
INVARIANT EveryRecordOnce
CHECK_DEADLOCK FALSE
