SPECIFICATION Spec
CONSTANT Letters <- ACaN
CONSTANT L = 2
CONSTANT MaxAlt = 2
CONSTANT Hints <- FullHint
CONSTANT Refs <- AllSeqs
INVARIANT TypeOK
INVARIANT RoundTrip
INVARIANT RefRowZero
INVARIANT IndicesDense
INVARIANT SnvColsArePolymorphic
INVARIANT FirstAppearanceNumbering
INVARIANT StepwiseMatchesDeclarative
INVARIANT EncodingInjective
CONSTRAINT Dump
CHECK_DEADLOCK FALSE
