------------------------------- MODULE HapCodec -------------------------------
(* C12 as a state machine.  Build steps add ALT haplotypes to a record (every *)
(* prefix is itself a record of the domain); from any record the codec runs   *)
(* its steps  FindSnvs -> NumberAlleles -> EncodeRows -> DecodeRows  and the  *)
(* stated clauses are invariants of the final state, which is printed for the *)
(* replay into LocusPrior.from_variant_record / encode_haplotypes /           *)
(* Locus.format_haplotypes.                                                   *)
EXTENDS HapCodecOps, TLC, Json

CONSTANTS
  Letters,     \* base alphabet
  L,           \* haplotype length
  MaxAlt,      \* at most this many ALTs
  Refs         \* set of REF sequences (subset of [1..L -> Letters])

ACGT == {"A", "C", "G", "T"}
AC == {"A", "C"}
ACG == {"A", "C", "G"}
AllSeqs == [1..L -> Letters]
TwoRefs3 == {<<"G", "A", "T">>, <<"C", "C", "A">>}

VARIABLES stage, rec, cols, alleles, matrix, decoded
vars == <<stage, rec, cols, alleles, matrix, decoded>>

Init ==
  /\ stage = "build"
  /\ \E s \in Refs : rec = [ref |-> s, alts |-> <<>>]
  /\ cols = <<>> /\ alleles = <<>> /\ matrix = <<>> /\ decoded = <<>>

AddAlt ==
  /\ stage = "build"
  /\ Len(rec.alts) < MaxAlt
  /\ \E s \in AllSeqs : s \notin Range(Rows(rec)) /\ rec' = [rec EXCEPT !.alts = Append(@, s)]
  /\ UNCHANGED <<stage, cols, alleles, matrix, decoded>>

FindSnvs ==
  /\ stage = "build"
  /\ cols' = SelectSeq([p \in 1..L |-> p], LAMBDA p : \E h \in 1..Len(rec.alts) : rec.alts[h][p] # rec.ref[p])
  /\ stage' = "number"
  /\ UNCHANGED <<rec, alleles, matrix, decoded>>

NumberAlleles ==
  /\ stage = "number"
  /\ alleles' = [j \in 1..Len(cols) |-> FirstAppearance(Column(rec, cols[j]))]
  /\ stage' = "encode"
  /\ UNCHANGED <<rec, cols, matrix, decoded>>

EncodeRows ==
  /\ stage = "encode"
  /\ matrix' = LET rows == Rows(rec)
               IN  [h \in 1..Len(rows) |-> [j \in 1..Len(cols) |-> IndexOf(alleles[j], rows[h][cols[j]])]]
  /\ stage' = "decode"
  /\ UNCHANGED <<rec, cols, alleles, decoded>>

DecodeRows ==
  /\ stage = "decode"
  /\ decoded' = Decode(rec, cols, alleles, matrix)
  /\ stage' = "done"
  /\ UNCHANGED <<rec, cols, alleles, matrix>>

Next == AddAlt \/ FindSnvs \/ NumberAlleles \/ EncodeRows \/ DecodeRows
Spec == Init /\ [][Next]_vars

(* ---- invariants --------------------------------------------------------- *)
Done == stage = "done"
TypeOK == stage \in {"build", "number", "encode", "decode", "done"}

RoundTrip == Done => decoded = Rows(rec)
RefRowZero == Done => \A j \in 1..Len(cols) : matrix[1][j] = 0 /\ alleles[j][1] = rec.ref[cols[j]]
IndicesDense ==
  Done => \A j \in 1..Len(cols) :
            {matrix[h][j] : h \in 1..Len(matrix)} = 0..(Len(alleles[j]) - 1)
SnvColsArePolymorphic ==
  Done => /\ \A j \in 1..Len(cols) : Len(alleles[j]) >= 2
          /\ \A p \in 1..L : (\E j \in 1..Len(cols) : cols[j] = p) <=> Polymorphic(rec, p)
          /\ \A j \in 1..(Len(cols) - 1) : cols[j] < cols[j + 1]
(* numbering is by first appearance: a new number is one more than the largest so far *)
FirstAppearanceNumbering ==
  Done => \A j \in 1..Len(cols) : \A h \in 2..Len(matrix) :
            \/ \E g \in 1..(h - 1) : matrix[g][j] = matrix[h][j]
            \/ /\ \A g \in 1..(h - 1) : matrix[g][j] < matrix[h][j]
               /\ \E f \in 1..(h - 1) : matrix[f][j] = matrix[h][j] - 1
StepwiseMatchesDeclarative ==
  Done => cols = SnvCols(rec) /\ alleles = Alleles(rec) /\ matrix = Encode(rec)
(* distinct haplotypes stay distinct after encoding *)
EncodingInjective ==
  Done => \A g, h \in 1..Len(matrix) : g # h => matrix[g] # matrix[h]

(* ---- wrong definitions for the mutant configs --------------------------- *)
Rank(b) == CASE b = "A" -> 1 [] b = "C" -> 2 [] b = "G" -> 3 [] OTHER -> 4
RECURSIVE SortedLetters(_)
SortedLetters(S) == IF S = {} THEN <<>>
                    ELSE LET x == CHOOSE y \in S : \A z \in S : Rank(y) <= Rank(z)
                         IN  <<x>> \o SortedLetters(S \ {x})
MutSortedAlleles(col) == SortedLetters(Range(col))              \* np.unique order, REF not forced to 0
MutRefFirstSorted(col) == <<col[1]>> \o SortedLetters(Range(col) \ {col[1]})
MutDecodeRow(r, cs, al, row) ==                                 \* template offset off by one
  [p \in 1..Len0(r) |-> IF \E j \in 1..Len(cs) : cs[j] = p + 1
                        THEN LET j == CHOOSE j \in 1..Len(cs) : cs[j] = p + 1 IN al[j][row[j] + 1]
                        ELSE r.ref[p]]

Dump ==
  IF Done THEN PrintT(<<"@@J", ToJson([ref |-> rec.ref, alts |-> rec.alts, cols |-> cols,
                                       alleles |-> alleles, matrix |-> matrix])>>)
  ELSE TRUE
=============================================================================
