------------------------------- MODULE HapCodec -------------------------------
(* C12 as a state machine.  Build steps add ALT haplotypes to a record (every *)
(* prefix is itself a record of the domain); from any record the codec runs   *)
(* its steps  FindSnvs -> NumberAlleles -> EncodeRows -> DecodeRows  and the  *)
(* stated clauses are invariants of the final state, which is printed for the *)
(* replay into LocusPrior.from_variant_record / encode_haplotypes /           *)
(* Locus.format_haplotypes.                                                   *)
(* A record also carries an INFO/SNVPOS annotation (`hint`, chosen by the     *)
(* Annotate step from the set Hints): absent, '.', or any list of columns --  *)
(* complete, incomplete or stale relative to REF/ALT (merged / edited         *)
(* catalogues).  The sequence path (use_snvpos = False, the one the call      *)
(* programs use) identifies the SNVs "directly from the ref and alt           *)
(* sequences": FoundCols never consults the hint, so every clause holds for   *)
(* every hint.  The trusted path (use_snvpos = True) takes the hint's columns *)
(* and round-trips exactly when the hint covers the polymorphic columns.      *)
EXTENDS HapCodecOps, TLC, Json

CONSTANTS
  Letters,     \* base alphabet
  L,           \* haplotype length
  MaxAlt,      \* at most this many ALTs
  Refs,        \* set of REF sequences (subset of [1..L -> Letters])
  Hints        \* set of INFO/SNVPOS annotations a record may arrive with

ACGT == {"A", "C", "G", "T"}
AC == {"A", "C"}
ACG == {"A", "C", "G"}
ACaN == {"A", "C", "a", "N"}      \* symbols are compared as written: a soft-masked base and N are symbols of their own
AllSeqs == [1..L -> Letters]
TwoRefs3 == {<<"G", "A", "T">>, <<"C", "C", "A">>}


RECURSIVE AscSeq(_)
AscSeq(S) == IF S = {} THEN <<>>
             ELSE LET m == CHOOSE x \in S : \A y \in S : x <= y IN <<m>> \o AscSeq(S \ {m})
NoHint == [kind |-> "unset", cols |-> <<>>]
(* what assemble writes when every column is an input SNV *)
FullHint == {[kind |-> "list", cols |-> [p \in 1..L |-> p]]}
(* anything a catalogue may carry: no SNVPOS, SNVPOS=. , any non-empty set of columns *)
AnyHint == {[kind |-> "absent", cols |-> <<>>], [kind |-> "dot", cols |-> <<>>]}
           \cup {[kind |-> "list", cols |-> AscSeq(S)] : S \in (SUBSET (1..L)) \ {{}}}

VARIABLES stage, rec, hint, cols, alleles, matrix, decoded
vars == <<stage, rec, hint, cols, alleles, matrix, decoded>>

Init ==
  /\ stage = "build"
  /\ \E s \in Refs : rec = [ref |-> s, alts |-> <<>>]
  /\ hint = NoHint
  /\ cols = <<>> /\ alleles = <<>> /\ matrix = <<>> /\ decoded = <<>>

AddAlt ==
  /\ stage = "build"
  /\ Len(rec.alts) < MaxAlt
  /\ \E s \in AllSeqs : s \notin Range(Rows(rec)) /\ rec' = [rec EXCEPT !.alts = Append(@, s)]
  /\ UNCHANGED <<stage, hint, cols, alleles, matrix, decoded>>

(* the record arrives with some SNVPOS annotation *)
Annotate ==
  /\ stage = "build"
  /\ \E hnt \in Hints : hint' = hnt
  /\ stage' = "find"
  /\ UNCHANGED <<rec, cols, alleles, matrix, decoded>>

(* sequence path: the columns where some ALT differs from REF, whatever the annotation says *)
FoundCols(r, hnt) ==
  SelectSeq([p \in 1..Len0(r) |-> p], LAMBDA p : \E h \in 1..Len(r.alts) : r.alts[h][p] # r.ref[p])

FindSnvs ==
  /\ stage = "find"
  /\ cols' = FoundCols(rec, hint)
  /\ stage' = "number"
  /\ UNCHANGED <<rec, hint, alleles, matrix, decoded>>

NumberAlleles ==
  /\ stage = "number"
  /\ alleles' = [j \in 1..Len(cols) |-> FirstAppearance(Column(rec, cols[j]))]
  /\ stage' = "encode"
  /\ UNCHANGED <<rec, hint, cols, matrix, decoded>>

EncodeRows ==
  /\ stage = "encode"
  /\ matrix' = LET rows == Rows(rec)
               IN  [h \in 1..Len(rows) |-> [j \in 1..Len(cols) |-> IndexOf(alleles[j], rows[h][cols[j]])]]
  /\ stage' = "decode"
  /\ UNCHANGED <<rec, hint, cols, alleles, decoded>>

DecodeRows ==
  /\ stage = "decode"
  /\ decoded' = Decode(rec, cols, alleles, matrix)
  /\ stage' = "done"
  /\ UNCHANGED <<rec, hint, cols, alleles, matrix>>

Next == AddAlt \/ Annotate \/ FindSnvs \/ NumberAlleles \/ EncodeRows \/ DecodeRows
Spec == Init /\ [][Next]_vars

(* ---- invariants --------------------------------------------------------- *)
Done == stage = "done"
TypeOK == /\ stage \in {"build", "find", "number", "encode", "decode", "done"}
          /\ (stage # "build") => hint \in Hints

RoundTrip == Done => decoded = Rows(rec)
RefRowZero == Done => \A j \in 1..Len(cols) : matrix[1][j] = 0 /\ alleles[j][1] = rec.ref[cols[j]]
IndicesDense ==
  Done => \A j \in 1..Len(cols) :
            {matrix[h][j] : h \in 1..Len(matrix)} = 0..(Len(alleles[j]) - 1)
SnvColsArePolymorphic ==
  Done => /\ \A j \in 1..Len(cols) : Len(alleles[j]) >= 2
          /\ \A p \in 1..L : (\E j \in 1..Len(cols) : cols[j] = p) <=> Polymorphic(rec, p)
          /\ \A j \in 1..(Len(cols) - 1) : cols[j] < cols[j + 1]
(* numbering is by first appearance: a new number is one more than the largest so far *)
FirstAppearanceNumbering ==
  Done => \A j \in 1..Len(cols) : \A h \in 2..Len(matrix) :
            \/ \E g \in 1..(h - 1) : matrix[g][j] = matrix[h][j]
            \/ /\ \A g \in 1..(h - 1) : matrix[g][j] < matrix[h][j]
               /\ \E f \in 1..(h - 1) : matrix[f][j] = matrix[h][j] - 1
StepwiseMatchesDeclarative ==
  Done => cols = SnvCols(rec) /\ alleles = Alleles(rec) /\ matrix = Encode(rec)
(* distinct haplotypes stay distinct after encoding *)
EncodingInjective ==
  Done => \A g, h \in 1..Len(matrix) : g # h => matrix[g] # matrix[h]

(* the trusted path (use_snvpos = True): the codec on the columns the annotation names.   *)
(* When the annotation covers the polymorphic columns the round trip holds, the matrix      *)
(* restricted to the polymorphic columns is the sequence path's matrix and every other      *)
(* named column has the single allele REF (number 0).                                      *)
CoveringHintRoundTrips ==
  (Done /\ Covers(hint, rec)) =>
    LET hc == hint.cols
        al == AllelesOn(rec, hc)
        m  == EncodeOn(rec, hc)
    IN  /\ Decode(rec, hc, al, m) = Rows(rec)
        /\ \A j \in 1..Len(hc) :
             IF \E k \in 1..Len(cols) : cols[k] = hc[j]
             THEN LET k == CHOOSE k \in 1..Len(cols) : cols[k] = hc[j]
                  IN  al[j] = alleles[k] /\ \A h \in 1..Len(m) : m[h][j] = matrix[h][k]
             ELSE al[j] = <<rec.ref[hc[j]]>> /\ \A h \in 1..Len(m) : m[h][j] = 0
(* an annotation that misses a polymorphic column cannot stand in for the sequences:       *)
(* the codec restricted to its columns does not reproduce the record                       *)
NonCoveringHintLosesSequence ==
  (Done /\ hint.kind # "absent" /\ ~Covers(hint, rec)) =>
    Decode(rec, hint.cols, AllelesOn(rec, hint.cols), EncodeOn(rec, hint.cols)) # Rows(rec)

(* ---- wrong definitions for the mutant configs --------------------------- *)
Rank(b) == CASE b = "A" -> 1 [] b = "C" -> 2 [] b = "G" -> 3 [] OTHER -> 4
RECURSIVE SortedLetters(_)
SortedLetters(S) == IF S = {} THEN <<>>
                    ELSE LET x == CHOOSE y \in S : \A z \in S : Rank(y) <= Rank(z)
                         IN  <<x>> \o SortedLetters(S \ {x})
MutSortedAlleles(col) == SortedLetters(Range(col))              \* np.unique order, REF not forced to 0
MutRefFirstSorted(col) == <<col[1]>> \o SortedLetters(Range(col) \ {col[1]})
MutDecodeRow(r, cs, al, row) ==                                 \* template offset off by one
  [p \in 1..Len0(r) |-> IF \E j \in 1..Len(cs) : cs[j] = p + 1
                        THEN LET j == CHOOSE j \in 1..Len(cs) : cs[j] = p + 1 IN al[j][row[j] + 1]
                        ELSE r.ref[p]]

(* polymorphic columns searched only among the columns the annotation names *)
MutFoundColsHinted(r, hnt) ==
  IF hnt.kind = "list" THEN SelectSeq(hnt.cols, LAMBDA p : \E h \in 1..Len(r.alts) : r.alts[h][p] # r.ref[p])
  ELSE SelectSeq([p \in 1..Len0(r) |-> p], LAMBDA p : \E h \in 1..Len(r.alts) : r.alts[h][p] # r.ref[p])

Dump ==
  IF Done THEN PrintT(<<"@@J", ToJson([ref |-> rec.ref, alts |-> rec.alts, hint |-> hint, cols |-> cols,
                                       alleles |-> alleles, matrix |-> matrix])>>)
  ELSE TRUE
=============================================================================
