SPECIFICATION Spec
CONSTANT Letters <- ACGT
CONSTANT L = 3
CONSTANT MaxAlt = 2
CONSTANT Hints <- FullHint
CONSTANT Refs <- TwoRefs3
INVARIANT TypeOK
INVARIANT RoundTrip
INVARIANT RefRowZero
INVARIANT IndicesDense
INVARIANT SnvColsArePolymorphic
INVARIANT FirstAppearanceNumbering
INVARIANT StepwiseMatchesDeclarative
INVARIANT EncodingInjective
CONSTRAINT Dump
CHECK_DEADLOCK FALSE
