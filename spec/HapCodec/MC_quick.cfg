SPECIFICATION Spec
CONSTANT Letters <- ACGT
CONSTANT L = 2
CONSTANT MaxAlt = 2
CONSTANT Hints <- FullHint
CONSTANT Refs <- AllSeqs
INVARIANT TypeOK
INVARIANT RoundTrip
INVARIANT RefRowZero
INVARIANT IndicesDense
INVARIANT SnvColsArePolymorphic
INVARIANT FirstAppearanceNumbering
INVARIANT StepwiseMatchesDeclarative
INVARIANT EncodingInjective
INVARIANT CoveringHintRoundTrips
CONSTRAINT Dump
CHECK_DEADLOCK FALSE
