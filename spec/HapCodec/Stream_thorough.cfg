SPECIFICATION Spec
CONSTANT Targets <- ThoroughTargets
CONSTANT MaxRec = 4
INVARIANT TypeOK
INVARIANT EveryRecordOnce
INVARIANT NestedRecordsKept
CONSTRAINT Dump
CHECK_DEADLOCK FALSE
