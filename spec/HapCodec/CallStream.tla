------------------------------ MODULE CallStream ------------------------------
(* C12, pipeline clause as a stream transducer.  `assemble` writes one record  *)
(* per target of the BED file, in file order; `call` / `call-exact` consume the *)
(* records of that VCF one at a time and print exactly one record for each     *)
(* ("feeding any assemble output to call or call-exact yields records with the  *)
(* same CHROM/POS/REF/ALT").  Targets may share a start position (nested        *)
(* targets: a short and a long window anchored at the same base), which gives   *)
(* adjacent records with the same CHROM and POS and different REF lengths; they *)
(* are different records and none of them may be dropped or repeated.           *)
(* A target is <<start, stop>> (0-based half open, as in BED) on one contig.    *)
(* TLC enumerates every target list (ascending start, ties in either order);    *)
(* each final state is replayed: BED -> real assemble -> real call / call-exact *)
(* and the recorded run is validated by TraceHapCodec!RunVerdict.               *)
EXTENDS Integers, Sequences, FiniteSets, TLC, Json

CONSTANTS Targets, MaxRec

QuickTargets == {<<5, 12>>, <<5, 20>>, <<5, 25>>, <<30, 50>>}
ThoroughTargets == {<<5, 12>>, <<5, 20>>, <<5, 25>>, <<8, 25>>, <<30, 40>>, <<30, 50>>}

VARIABLES stage, inp, k, out
vars == <<stage, inp, k, out>>

Range(s) == {s[i] : i \in DOMAIN s}

Init == stage = "build" /\ inp = <<>> /\ k = 0 /\ out = <<>>

AddTarget ==
  /\ stage = "build" /\ Len(inp) < MaxRec
  /\ \E t \in Targets :
       /\ t \notin Range(inp)
       /\ IF Len(inp) = 0 THEN TRUE ELSE inp[Len(inp)][1] <= t[1]
       /\ inp' = Append(inp, t)
  /\ UNCHANGED <<stage, k, out>>

Close == stage = "build" /\ Len(inp) >= 1 /\ stage' = "call" /\ UNCHANGED <<inp, k, out>>

(* what the program prints for the i-th input record *)
Emitted(s, i) == <<s[i]>>

Consume ==
  /\ stage = "call" /\ k < Len(inp)
  /\ out' = out \o Emitted(inp, k + 1)
  /\ k' = k + 1
  /\ stage' = IF k + 1 = Len(inp) THEN "done" ELSE "call"
  /\ UNCHANGED inp

Next == AddTarget \/ Close \/ Consume
Spec == Init /\ [][Next]_vars

TypeOK == stage \in {"build", "call", "done"} /\ k \in 0..MaxRec
(* after k records were read exactly those k were written, in order *)
EveryRecordOnce == out = SubSeq(inp, 1, k)
HasNest(s) == \E i \in 1..(Len(s) - 1) : s[i][1] = s[i + 1][1]
NestedRecordsKept ==
  stage = "done" => \A t \in Range(inp) : Cardinality({i \in DOMAIN out : out[i] = t}) = 1

(* wrong definition for the mutant config: a record starting where the previous one started is a "duplicate" *)
MutEmitted(s, i) == IF i > 1 /\ s[i - 1][1] = s[i][1] THEN <<>> ELSE <<s[i]>>

Dump == IF stage = "done" THEN PrintT(<<"@@J", ToJson([targets |-> inp, nested |-> HasNest(inp)])>>) ELSE TRUE
=============================================================================
