SPECIFICATION Spec
CONSTANT Targets <- QuickTargets
CONSTANT MaxRec = 3
INVARIANT TypeOK
INVARIANT EveryRecordOnce
INVARIANT NestedRecordsKept
CONSTRAINT Dump
CHECK_DEADLOCK FALSE
