SPECIFICATION Spec
CONSTANT Letters <- AC
CONSTANT L = 3
CONSTANT MaxAlt = 3
CONSTANT Hints <- FullHint
CONSTANT Refs <- AllSeqs
INVARIANT TypeOK
INVARIANT RoundTrip
INVARIANT RefRowZero
INVARIANT IndicesDense
INVARIANT SnvColsArePolymorphic
INVARIANT FirstAppearanceNumbering
INVARIANT StepwiseMatchesDeclarative
INVARIANT EncodingInjective
CONSTRAINT Dump
CHECK_DEADLOCK FALSE
