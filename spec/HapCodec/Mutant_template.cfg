SPECIFICATION Spec
CONSTANT Letters <- ACGT
CONSTANT L = 2
CONSTANT MaxAlt = 2
CONSTANT Hints <- FullHint
CONSTANT Refs <- AllSeqs
CONSTANT DecodeRow <- MutDecodeRow
INVARIANT RoundTrip
CHECK_DEADLOCK FALSE
