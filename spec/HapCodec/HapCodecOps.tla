----------------------------- MODULE HapCodecOps -----------------------------
(* C12: the haplotype <-> per-SNV integer allele codec, from its documented   *)
(* definition.  A record is REF plus ALT sequences of one common length, all  *)
(* sequences of one-character strings.                                        *)
(*   SnvCols   columns where some listed haplotype differs from REF           *)
(*   AllelesAt first-appearance order of the bases of a column (REF first)    *)
(*   Encode    haplotype row -> allele numbers at the SNV columns             *)
(*   Decode    allele numbers -> the haplotype sequence (REF as template)     *)
EXTENDS Integers, Sequences, FiniteSets

Range(s) == {s[i] : i \in DOMAIN s}
Rows(r) == <<r.ref>> \o r.alts
Len0(r) == Len(r.ref)

Polymorphic(r, p) == \E h \in 1..Len(r.alts) : r.alts[h][p] # r.ref[p]

(* ascending sequence of the polymorphic columns (1-based) *)
RECURSIVE ColsFrom(_, _)
ColsFrom(r, p) == IF p > Len0(r) THEN <<>>
                  ELSE IF Polymorphic(r, p) THEN <<p>> \o ColsFrom(r, p + 1) ELSE ColsFrom(r, p + 1)
SnvCols(r) == ColsFrom(r, 1)

Column(r, p) == LET rows == Rows(r) IN [h \in 1..Len(rows) |-> rows[h][p]]

RECURSIVE FirstAppearance(_)
FirstAppearance(col) ==
  IF col = <<>> THEN <<>>
  ELSE LET init == FirstAppearance(SubSeq(col, 1, Len(col) - 1))
           last == col[Len(col)]
       IN  IF last \in Range(init) THEN init ELSE Append(init, last)

AllelesAt(r, p) == FirstAppearance(Column(r, p))
IndexOf(seq, x) == (CHOOSE j \in 1..Len(seq) : seq[j] = x) - 1

(* the codec on an arbitrary ascending list of columns cs (the SNV columns found *)
(* in the sequences, or the columns an INFO/SNVPOS annotation names)            *)
AllelesOn(r, cs) == [j \in 1..Len(cs) |-> AllelesAt(r, cs[j])]
EncodeOn(r, cs) ==
  LET al == AllelesOn(r, cs)
      rows == Rows(r)
  IN  [h \in 1..Len(rows) |-> [j \in 1..Len(cs) |-> IndexOf(al[j], rows[h][cs[j]])]]

Alleles(r) == AllelesOn(r, SnvCols(r))
(* rows x SNV columns matrix of allele numbers *)
Encode(r) == EncodeOn(r, SnvCols(r))

(* An INFO/SNVPOS annotation as a record arrives with it:                        *)
(*   [kind |-> "absent"]  no SNVPOS key,  "dot"  SNVPOS=. ,  "list"  cols = the  *)
(*   1-based columns it names.  It COVERS the record when every polymorphic      *)
(*   column is named (every assemble output; not a merged / edited catalogue).   *)
Covers(hnt, r) == hnt.kind # "absent" /\ Range(SnvCols(r)) \subseteq Range(hnt.cols)

(* REF with the SNV columns replaced by the named alleles *)
DecodeRow(r, cs, al, row) ==
  [p \in 1..Len0(r) |-> IF \E j \in 1..Len(cs) : cs[j] = p
                        THEN LET j == CHOOSE j \in 1..Len(cs) : cs[j] = p IN al[j][row[j] + 1]
                        ELSE r.ref[p]]
Decode(r, cs, al, m) == [h \in 1..Len(m) |-> DecodeRow(r, cs, al, m[h])]
=============================================================================
