SPECIFICATION Spec
CONSTANT Letters <- ACGT
CONSTANT L = 2
CONSTANT MaxAlt = 2
CONSTANT Hints <- FullHint
CONSTANT Refs <- AllSeqs
CONSTANT FirstAppearance <- MutRefFirstSorted
INVARIANT FirstAppearanceNumbering
CHECK_DEADLOCK FALSE
