SPECIFICATION Spec
CONSTANT Grid <- GridMutant
CONSTANT Canon <- MutCanon
PROPERTY ShuffleKeepsSummary
CHECK_DEADLOCK FALSE
