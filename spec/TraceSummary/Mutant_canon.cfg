SPECIFICATION Spec
CONSTANT Grid <- GridMutant
CONSTANT ShuffleAll = TRUE
CONSTANT Canon <- MutCanon
PROPERTY ShuffleKeepsSummary
CHECK_DEADLOCK FALSE
