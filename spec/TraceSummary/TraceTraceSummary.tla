------------------------- MODULE TraceTraceSummary -------------------------
(* C14, code -> spec: one line per (program run, locus, sample).  A line holds *)
(* the trace returned by the real fit() (before burn-in, alleles / haplotypes  *)
(* as numbers), the burn-in, the relabelling the program applied, the          *)
(* incongruence threshold, and the fields printed in the VCF record (values    *)
(* with 3 decimals as integers in 1/1000; -1 = missing / ".").  The summary is *)
(* recomputed from the trace with the functionals of TraceFunctionals and      *)
(* every printed field must be one the model admits.                           *)
(* Allele traces (call / call-pedigree / the sampler classes started from an    *)
(* unsorted initial vector) must be stored ascending at every step: that is    *)
(* where order invariance is established for them.                             *)
(*   hapnum[h+1] = record allele number of trace haplotype h (-1: not listed)  *)
(*   gtnum[h+1]  = number used in GT (-1: "." , e.g. masked reference)         *)
EXTENDS Integers, Sequences, FiniteSets, TLC, Json, IOUtils, TraceFunctionals

Trace == JsonDeserialize(IOEnv.TRACE_FILE)

VARIABLES l, bad
vars == <<l, bad>>

Abs(x) == IF x < 0 THEN -x ELSE x
(* printed value m/1000 equals k/n up to rounding to 3 decimals               *)
Close(m, k, n) == m >= 0 /\ 2 * Abs(m * n - 1000 * k) <= n

SeqAsBag(s) == [a \in {s[j] : j \in DOMAIN s} |-> Cardinality({j \in DOMAIN s : s[j] = a})]
(* GT text order: called alleles ascending, then the unknown ones             *)
GtOrdered(gt) == \A j \in 1..(Len(gt) - 1) :
                    \/ gt[j + 1] = -1
                    \/ (gt[j] >= 0 /\ gt[j] <= gt[j + 1])

(* total over the trace haplotypes h that carry record allele number a        *)
Over(e, f, a) == SumSeq([h \in 1..e.k |-> IF e.hapnum[h] = a THEN f[h] ELSE 0])

Verdict(e) ==
  LET chs == TLCEval([c \in 1..e.c |-> ChainRetained(e.tr, e.c, e.s, c, e.burn, e.lab)])
      K == IF e.kind = "hap" THEN e.k ELSE e.nrec
      sm == SummaryOf(chs, e.p, K, e.kind, <<e.theta>>)
      n == sm.n
      o == e.out
      gtOf(g) == [j \in 1..Len(g) |-> e.gtnum[g[j] + 1]]
      callOk == \E cl \in sm.calls : /\ SeqAsBag(gtOf(cl[1])) = SeqAsBag(o.gt)
                                     /\ Close(o.gpm, cl[2], n)
                                     /\ Close(o.spm, cl[3], n)
      cnt(a) == IF e.kind = "hap" THEN Over(e, sm.acount, a) ELSE sm.acount[a + 1]
      occ(a) == IF e.kind = "hap" THEN Over(e, sm.occ, a) ELSE sm.occ[a + 1]
      gpAt(r) == LET hit == {p \in sm.arr : p[1] = r} IN IF hit = {} THEN 0 ELSE (CHOOSE p \in hit : TRUE)[2]
  IN  IF e.kind # "hap" /\ ~(\A c \in 1..e.c, s \in 1..e.s : IsSorted(e.tr[c][s])) THEN "StoredAscending"
      ELSE IF n # e.c * (e.s - e.burn) THEN "BurnExact"
      ELSE IF Len(o.gt) # e.p \/ ~GtOrdered(o.gt) THEN "GtShape"
      ELSE IF ~callOk THEN "GtGpmSpmIsACall"
      ELSE IF o.afp # <<>> /\ ~(Len(o.afp) = e.nrec /\ \A a \in 1..e.nrec : Close(o.afp[a], cnt(a - 1), n * e.p))
           THEN "AfpIsFreq"
      ELSE IF o.acp # <<>> /\ ~(Len(o.acp) = e.nrec /\ \A a \in 1..e.nrec : Close(o.acp[a], cnt(a - 1), n))
           THEN "AcpIsCount"
      ELSE IF o.aop # <<>> /\ ~(Len(o.aop) = e.nrec /\ \A a \in 1..e.nrec : Close(o.aop[a], occ(a - 1), n))
           THEN "AopIsOcc"
      ELSE IF e.kind # "hap" /\ o.gp # <<>> /\
              ~(Len(o.gp) = sm.arrLen /\ \A r \in 1..sm.arrLen : Close(o.gp[r], gpAt(r - 1), n))
           THEN "GpIsArray"
      ELSE IF o.mci \notin sm.inc[1]
           \* the open finding D8 (bound = size of the first compared chain's support) is named apart;
           \* a flag that reading does not produce either is a different failure
           THEN (IF e.kind = "hap" /\ o.mci = 2 /\ o.mci \in sm.incD8[1]
                 THEN "MciFlag2UnionWithinPloidy" ELSE "MciIsIncongruence")
      ELSE "ok"

Init == l = 1 /\ bad = 0
Next == /\ l <= Len(Trace)
        /\ LET v == Verdict(Trace[l])
           IN  /\ IF v = "ok" THEN TRUE ELSE PrintT(<<"@@J", ToJson([reject |-> l, clause |-> v])>>)
               /\ bad' = IF v = "ok" THEN bad ELSE bad + 1
        /\ l' = l + 1
Spec == Init /\ [][Next]_vars
Consumed == (l = Len(Trace) + 1) => PrintT(<<"@@J", ToJson([consumed |-> l - 1, rejected |-> bad])>>)
=============================================================================
