---------------------------- MODULE TraceSummary ----------------------------
(* C14: posterior summaries are exact functionals of the retained trace.     *)
(*                                                                           *)
(* Mechanism modelled (one behaviour = one sampler run and its summary):     *)
(*   Record   the sampler appends one step to the current chain; a step is   *)
(*            one stored genotype per individual.  For haplotype traces      *)
(*            ("hap") the stored genotype is an ORDERED tuple - every        *)
(*            within-genotype ordering is a distinct stored step; allele     *)
(*            traces ("allele", "ped") are stored ascending, as the call /   *)
(*            pedigree samplers write them.                                  *)
(*   Burn     the program drops the first b steps of EVERY chain, optionally *)
(*            relabels alleles through an increasing map (call programs with *)
(*            masked alleles) and summarises: the summary is computed here   *)
(*            once, from the mathematical definition (empirical distribution *)
(*            over bags), into the state variable sm.                        *)
(*   Shuffle  rewrites the storage order of one retained or burnt step; the  *)
(*            action property ShuffleKeepsSummary states order invariance.   *)
(*                                                                           *)
(* Alleles / haplotypes are identified by numbers 0..K-1 (for "hap" the      *)
(* harness maps number -> haplotype row).  All quantities are integer        *)
(* counts; probability = count / n with n = C * (S - b).                     *)
EXTENDS Integers, Sequences, FiniteSets, TLC, Json, Genotypes, TraceFunctionals

CONSTANTS Grid,     \* set of instances [kind, ps, k, c, s]
          ShuffleAll \* TRUE: Shuffle may rewrite any cell; FALSE: only the first and the last cell

I(kind, ps, k, c, s) == [kind |-> kind, ps |-> ps, k |-> k, c |-> c, s |-> s, menu |-> {}]
(* an instance whose steps are drawn from a menu of stored genotypes (one individual): three and   *)
(* four chains cannot be enumerated over the full step space                                        *)
IM(kind, p, k, c, s, menu) == [kind |-> kind, ps |-> <<p>>, k |-> k, c |-> c, s |-> s, menu |-> menu]

GridQuick == { I("hap", <<2>>, 2, 2, 2), I("hap", <<2>>, 3, 2, 2), I("hap", <<3>>, 2, 2, 2),
               I("hap", <<2>>, 2, 1, 3), I("hap", <<1>>, 3, 2, 2),
               I("allele", <<2>>, 3, 2, 2), I("allele", <<3>>, 2, 2, 2), I("allele", <<2>>, 2, 2, 3),
               I("allele", <<4>>, 2, 2, 2), I("allele", <<3>>, 3, 1, 2),
               I("ped", <<2, 1>>, 2, 2, 2), I("ped", <<1, 3>>, 2, 1, 3) }

(* thorough: three parts, model-checked and replayed one after the other        *)
GridThorough == GridQuick \cup
             { I("hap", <<2>>, 4, 1, 3), I("hap", <<2>>, 3, 1, 4), I("hap", <<3>>, 3, 1, 3),
               I("hap", <<2>>, 2, 2, 3), I("hap", <<4>>, 2, 1, 3), I("hap", <<2>>, 2, 3, 2) }
GridThoroughB == { I("allele", <<3>>, 3, 2, 2), I("allele", <<3>>, 3, 1, 3), I("allele", <<4>>, 3, 1, 3), I("allele", <<2>>, 2, 3, 2),
                   I("allele", <<2>>, 3, 1, 4), I("allele", <<6>>, 2, 2, 2), I("allele", <<2>>, 4, 1, 3),
                   I("allele", <<2>>, 2, 2, 4),
                   I("ped", <<2, 2>>, 2, 2, 2), I("ped", <<4, 2>>, 2, 1, 3), I("ped", <<2, 1, 1>>, 2, 1, 3) }
GridThoroughC == { I("allele", <<2>>, 4, 2, 2), I("allele", <<3>>, 2, 3, 2), I("allele", <<2>>, 3, 3, 1) }
GridThoroughD == { I("hap", <<2>>, 4, 2, 2) }
(* three and four chains; with two retained steps a chain either holds one support (mass 1: compared at   *)
(* every threshold) or two (mass 1/2: compared at 1/4 and 1/2 only), so that at the thresholds 5/8, 3/4, 1  *)
(* some chains qualify and some do not.  The menus hold nested supports ({A,B} and {A}; {A,B,C} and {A,B}) *)
(* and supports with a haplotype foreign to them (C resp. D), in sorted and unsorted storage order.         *)
MenuDip == {<<0, 0>>, <<1, 0>>, <<0, 2>>, <<2, 2>>}
MenuTet == {<<0, 0, 1, 2>>, <<1, 0, 1, 0>>, <<0, 0, 3, 3>>, <<3, 1, 3, 3>>}
MenuTet3 == {<<0, 0, 1, 2>>, <<1, 0, 1, 0>>, <<3, 1, 3, 3>>}
MenuTetSorted == {<<0, 0, 1, 2>>, <<0, 0, 1, 1>>, <<0, 0, 3, 3>>, <<1, 3, 3, 3>>}
MenuDip3 == {<<0, 1>>, <<0, 0>>, <<2, 2>>}
MenuAll3 == {<<0, 0>>, <<0, 1>>, <<1, 2>>}
GridChains == { IM("hap", 2, 3, 3, 2, MenuDip), IM("hap", 4, 4, 3, 2, MenuTet), IM("hap", 2, 3, 4, 2, MenuDip3),
                IM("allele", 2, 3, 3, 2, MenuAll3) }
GridChainsThorough == GridChains \cup
              { IM("hap", 4, 4, 4, 2, MenuTet3), IM("hap", 2, 3, 4, 2, MenuDip), IM("allele", 2, 3, 4, 2, MenuAll3),
                IM("hap", 2, 3, 3, 3, MenuDip3), IM("allele", 4, 4, 3, 2, MenuTetSorted) }
GridMutant == { I("hap", <<2>>, 2, 2, 2), I("hap", <<3>>, 2, 2, 1) }

(* incongruence thresholds, <<num, den>>                                     *)
Thetas == << <<1, 4>>, <<1, 2>>, <<5, 8>>, <<3, 4>>, <<1, 1>> >>

VARIABLES inst,     \* the instance
          tr,       \* tr[c] = sequence of steps; step = tuple (one stored genotype per individual)
          phase,    \* "record" | "done"
          b,        \* burn-in
          lab,      \* relabelling: increasing sequence, new label of allele a is lab[a+1]
          sm,       \* summaries, one per individual (computed at Burn / Shuffle)
          space     \* the per-step choices (constant per instance, computed once)
vars == <<inst, tr, phase, b, lab, sm, space>>

N == Len(inst.ps)

(* ---- the summary of individual i ---------------------------------------------------- *)
Project(t, i) == [c \in 1..inst.c |-> [s \in 1..inst.s |-> t[c][s][i]]]
Summary(t, i, burn, lb) ==
  LET chs == TLCEval([c \in 1..inst.c |-> ChainRetained(Project(t, i), inst.c, inst.s, c, burn, lb)])
  IN  SummaryOf(chs, inst.ps[i], lb[Len(lb)] + 1, inst.kind, Thetas)

Summaries(t, burn, lb) == TLCEval([i \in 1..N |-> Summary(t, i, burn, lb)])

(* ---- the state machine ------------------------------------------------------------------- *)
RECURSIVE Tuples(_, _)
Tuples(k, p) == IF p = 0 THEN {<<>>} ELSE {Append(t, a) : t \in Tuples(k, p - 1), a \in 0..(k - 1)}
Range(s) == {s[j] : j \in 1..Len(s)}
Choices(kind, k, p) == IF kind = "hap" THEN Tuples(k, p) ELSE Range(VcfOrder(k, p))
ChoicesOf(in, i) == IF in.menu # {} THEN in.menu ELSE Choices(in.kind, in.k, in.ps[i])

Identity(k) == [a \in 1..k |-> a - 1]
(* increasing injections 0..k-1 -> 0..k: skip exactly one label m \in 0..k    *)
SkipOne(k, m) == [a \in 1..k |-> IF a - 1 < m THEN a - 1 ELSE a]
Labelings(kind, k) == IF kind = "allele" THEN {SkipOne(k, m) : m \in 0..k} ELSE {Identity(k)}
LabelingsOf(in) == IF in.menu # {} /\ in.kind = "allele" THEN {Identity(in.k), SkipOne(in.k, 1)} ELSE Labelings(in.kind, in.k)

Init == /\ inst \in Grid
        /\ tr = [c \in 1..inst.c |-> <<>>]
        /\ phase = "record"
        /\ b = 0
        /\ lab = Identity(inst.k)
        /\ sm = <<>>
        /\ space = [i \in 1..Len(inst.ps) |-> ChoicesOf(inst, i)]

StepSpace == {st \in [1..N -> UNION {space[i] : i \in 1..N}] : \A i \in 1..N : st[i] \in space[i]}

Record == /\ phase = "record"
          /\ \E c \in 1..inst.c :
               /\ Len(tr[c]) < inst.s
               /\ \A d \in 1..(c - 1) : Len(tr[d]) = inst.s
               /\ \E st \in StepSpace : tr' = [tr EXCEPT ![c] = Append(@, st)]
          /\ UNCHANGED <<inst, phase, b, lab, sm, space>>

Burn == /\ phase = "record"
        /\ \A c \in 1..inst.c : Len(tr[c]) = inst.s
        \* menu instances keep at least two steps per chain (a single retained step always has mass 1)
        /\ \E bb \in 0..(IF inst.menu # {} THEN inst.s - 2 ELSE inst.s - 1), lb \in LabelingsOf(inst) :
             /\ b' = bb
             /\ lab' = lb
             /\ sm' = Summaries(tr, bb, lb)
        /\ phase' = "done"
        /\ UNCHANGED <<inst, tr, space>>

(* rewrite the storage order of one stored genotype (adjacent transposition)  *)
Shuffle == /\ phase = "done"
           /\ inst.kind = "hap"
           /\ inst.menu = {}          \* menus list the storage orders themselves
           /\ \E c \in 1..inst.c, s \in 1..inst.s, q \in 1..(inst.ps[1] - 1) :
                /\ ShuffleAll \/ <<c, s>> \in {<<1, 1>>, <<inst.c, inst.s>>}
                /\ LET g == tr[c][s][1]
                       h == [g EXCEPT ![q] = g[q + 1], ![q + 1] = g[q]]
                   IN  /\ h # g
                       /\ tr' = [tr EXCEPT ![c][s] = <<h>>]
           /\ sm' = Summaries(tr', b, lab)
           /\ UNCHANGED <<inst, phase, b, lab, space>>

Next == Record \/ Burn \/ Shuffle
Spec == Init /\ [][Next]_vars

(* ---- invariants (evaluated on the summary of every done state) ------------------------------ *)
Done == phase = "done"
RECURSIVE SumSecond(_)
SumSecond(S) == IF S = {} THEN 0 ELSE LET x == CHOOSE y \in S : TRUE IN x[2] + SumSecond(S \ {x})
TypeOK == /\ phase \in {"record", "done"}
          /\ \A c \in 1..inst.c : Len(tr[c]) <= inst.s
          /\ Done => (b \in 0..(inst.s - 1) /\ Len(sm) = N)

(* exactly b steps are dropped from each chain, nothing else                   *)
BurnExact == Done => /\ \A c \in 1..inst.c :
                           {s \in 1..inst.s : <<c, s>> \in RetainedCells(inst.c, inst.s, b)} = (b + 1)..inst.s
                     /\ \A i \in 1..N : sm[i].n = inst.c * (inst.s - b)

SumPostIsOne == Done => \A i \in 1..N : SumSecond(sm[i].post) = sm[i].n
SumFreqIsOne == Done => \A i \in 1..N : SumSeq(sm[i].acount) = sm[i].ploidy * sm[i].n
OccBounds == Done => \A i \in 1..N : \A a \in 1..sm[i].nAllele :
                       /\ sm[i].occ[a] <= sm[i].acount[a]
                       /\ sm[i].acount[a] <= sm[i].ploidy * sm[i].occ[a]
                       /\ sm[i].occ[a] <= sm[i].n
GpmLeSpm == Done => \A i \in 1..N : \A cl \in sm[i].calls : 1 <= cl[2] /\ cl[2] <= cl[3] /\ cl[3] <= sm[i].n
ModeAtLeastCall == Done => \A i \in 1..N :
                       /\ sm[i].modes # {} /\ sm[i].calls # {}
                       /\ \A cl \in sm[i].calls : cl[2] <= MaxOf({p[2] : p \in sm[i].post})
                       /\ \A m \in sm[i].modes : <<m, MaxOf({p[2] : p \in sm[i].post})>> \in sm[i].post
ArrayPlacement == Done => \A i \in 1..N :
                       /\ Cardinality({p[1] : p \in sm[i].arr}) = Cardinality(sm[i].post)     \* injective
                       /\ \A p \in sm[i].arr : p[1] \in 0..(sm[i].arrLen - 1)
                       /\ SumSecond(sm[i].arr) = sm[i].n
IncRange == Done => \A i \in 1..N : \A q \in 1..Len(Thetas) :
                       /\ sm[i].inc[q] # {}
                       /\ sm[i].inc[q] \subseteq {0, 1, 2}
                       /\ (inst.c = 1 => sm[i].inc[q] = {0})
                       /\ (2 \in sm[i].inc[q] => sm[i].nAllele > sm[i].ploidy)
(* the summary depends on the bag stored at each step only                    *)
OrderInvariantState == Done => sm = Summaries([c \in 1..inst.c |-> [s \in 1..inst.s |->
                                   [i \in 1..N |-> Canon(tr[c][s][i])]]], b, lab)
ShuffleKeepsSummary == [][(phase = "done" /\ phase' = "done") => sm' = sm]_vars

(* the support probability groups genotypes by their SET of distinct alleles   *)
AllelesOf(g) == {g[j] : j \in DOMAIN g}
SupportGrouping == Done => \A i \in 1..N : \A cl \in sm[i].calls :
                       cl[3] = SumSecond({p \in sm[i].post : AllelesOf(p[1]) = AllelesOf(cl[1])})
(* haplotype traces: chains whose retained steps all share one support are congruent *)
SameSupportNoIncongruence ==
  (Done /\ inst.kind = "hap") =>
     ((\A c \in 1..inst.c, s \in (b + 1)..inst.s : AllelesOf(tr[c][s][1]) = AllelesOf(tr[1][inst.s][1]))
        => \A q \in 1..Len(Thetas) : sm[1].inc[q] = {0})

(* chains whose mode support stays below the threshold are not compared: the flag is the flag of the   *)
(* qualifying chains alone (whatever the other chains hold)                                             *)
ChainsOf(i) == TLCEval([c \in 1..inst.c |-> ChainRetained(Project(tr, i), inst.c, inst.s, c, b, lab)])
BelowThresholdChainsIgnored ==
  Done => \A i \in 1..N : LET chs == ChainsOf(i) IN \A q \in 1..Len(Thetas) :
            sm[i].inc[q] = IncFlags(OnlyChains(chs, Qualifying(chs, Thetas[q])), inst.ps[i], inst.kind, Thetas[q])
(* the reading of the open finding D8 differs from the functional only by turning 1 into 2 or 2 into 1 *)
D8ReadingSameAgreement ==
  Done => \A i \in 1..N : \A q \in 1..Len(Thetas) : (0 \in sm[i].inc[q]) <=> (0 \in sm[i].incD8[q])

(* ---- mutant definitions (Mutant_*.cfg substitute them; TLC must report a violation) ---- *)
MutCanon(g) == g                                  \* no canonicalisation: stored order is the genotype
MutSupportKey(g) == g                               \* support keyed on the sorted genotype, not its distinct set
MutOccNum(xs, a) == AlleleNum(xs, a)              \* occurrence counted per copy
MutIncFlags(chs, P, kind, th) == IncFlagsK(chs, P, TRUE, th)   \* compares modal genotypes, not supports
MutIncFlagsNoTheta(chs, P, kind, th) == IncFlagsK(chs, P, kind # "hap", <<0, 1>>)   \* every chain is compared

(* ---- what the harness replays ----------------------------------------------------------------- *)
Dump == IF phase = "done"
        THEN PrintT(<<"@@J", ToJson([kind |-> inst.kind, ps |-> inst.ps, k |-> inst.k, c |-> inst.c, s |-> inst.s,
                                     b |-> b, lab |-> lab, tr |-> tr, sm |-> sm, thetas |-> Thetas])>>)
        ELSE TRUE
=============================================================================
