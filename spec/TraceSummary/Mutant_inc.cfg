SPECIFICATION Spec
CONSTANT Grid <- GridMutant
CONSTANT ShuffleAll = TRUE
CONSTANT IncFlags <- MutIncFlags
INVARIANT SameSupportNoIncongruence
CHECK_DEADLOCK FALSE
