SPECIFICATION Spec
CONSTANT Grid <- GridMutant
CONSTANT IncFlags <- MutIncFlags
INVARIANT SameSupportNoIncongruence
CHECK_DEADLOCK FALSE
