------------------------- MODULE TraceWideSummary -------------------------
(* C14, code -> spec, loci with many haplotypes.  One line per allele trace   *)
(* held in the integer dtype the programs use (int16: call-pedigree, int32:   *)
(* call, int8: zero-variant path) over a locus with 40-600 haplotypes, so     *)
(* that the VCF indices of the retained genotypes do not fit that dtype.      *)
(* A line holds the stored trace (before burn-in), the burn-in, the           *)
(* thresholds and the summaries returned by the real classes as exact         *)
(* integer counts (probability * n; -1 = not an integer).  Every summary is   *)
(* recomputed from the trace with the functionals of TraceFunctionals - the   *)
(* same SummaryOf the model TraceSummary checks on its small instances - and  *)
(* must be equal (sets: posterior, G-ordered array) or admitted (ties: mode,  *)
(* call, incongruence flag).                                                  *)
(*   rank = 1: the G-ordered array was asked for (its length and every        *)
(*             genotype rank fit 32-bit integers); rank = 0: posterior, mode, *)
(*             call, frequencies and incongruence only.                       *)
EXTENDS Integers, Sequences, FiniteSets, TLC, Json, IOUtils, TraceFunctionals

Trace == JsonDeserialize(IOEnv.TRACE_FILE)

VARIABLES l, bad
vars == <<l, bad>>

Pairs(x) == {<<x[j][1], x[j][2]>> : j \in 1..Len(x)}

Verdict(e) ==
  LET lab == [a \in 1..e.k |-> a - 1]
      chs == TLCEval([c \in 1..e.c |-> ChainRetained(e.tr, e.c, e.s, c, e.burn, lab)])
      sm == SummaryOfG(chs, e.p, e.k, "allele", e.thetas, e.rank = 1)
      o == e.out
  IN  IF ~(\A c \in 1..e.c, s \in 1..e.s : IsSorted(e.tr[c][s]) /\ Len(e.tr[c][s]) = e.p) THEN "StoredAscending"
      ELSE IF o.n # sm.n \/ sm.n # e.c * (e.s - e.burn) THEN "WideBurnExact"
      \* every distinct retained genotype exactly once, with its count among the retained steps
      ELSE IF Len(o.post) # Cardinality(sm.post) \/ Pairs(o.post) # sm.post THEN "WidePostIsEmpirical"
      ELSE IF ~(o.mode[1] \in sm.modes /\ <<o.mode[1], o.mode[2]>> \in sm.post) THEN "WideModeIsMode"
      ELSE IF <<o.call[1], o.call[2], o.call[3]>> \notin sm.calls THEN "WideCallIsACall"
      ELSE IF ~(Len(o.acount) = e.k /\ Len(o.fcount) = e.k /\ \A a \in 1..e.k : o.acount[a] = sm.acount[a] /\ o.fcount[a] = sm.acount[a])
           THEN "WideFreqIsCount"
      ELSE IF ~(Len(o.occ) = e.k /\ \A a \in 1..e.k : o.occ[a] = sm.occ[a]) THEN "WideOccIsOccurrence"
      ELSE IF e.rank = 1 /\ ~(o.arrLen = sm.arrLen /\ Len(o.arr) = Cardinality(sm.arr) /\ Pairs(o.arr) = sm.arr)
           THEN "WideGpIsArray"
      ELSE IF \E q \in 1..Len(e.thetas) : o.inc[q] \notin sm.inc[q] THEN "WideMciIsIncongruence"
      ELSE "ok"

Init == l = 1 /\ bad = 0
Next == /\ l <= Len(Trace)
        /\ LET v == Verdict(Trace[l])
           IN  /\ IF v = "ok" THEN TRUE ELSE PrintT(<<"@@J", ToJson([reject |-> l, clause |-> v])>>)
               /\ bad' = IF v = "ok" THEN bad ELSE bad + 1
        /\ l' = l + 1
Spec == Init /\ [][Next]_vars
Consumed == (l = Len(Trace) + 1) => PrintT(<<"@@J", ToJson([consumed |-> l - 1, rejected |-> bad])>>)
=============================================================================
