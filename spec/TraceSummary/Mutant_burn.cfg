SPECIFICATION Spec
CONSTANT Grid <- GridMutant
CONSTANT ShuffleAll = TRUE
CONSTANT RetainedCells <- MutRetainedCells
INVARIANT BurnExact
CHECK_DEADLOCK FALSE
