SPECIFICATION Spec
CONSTANT Grid <- GridMutant
CONSTANT RetainedCells <- MutRetainedCells
INVARIANT BurnExact
CHECK_DEADLOCK FALSE
