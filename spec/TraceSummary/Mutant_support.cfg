SPECIFICATION Spec
CONSTANT Grid <- GridMutant
CONSTANT ShuffleAll = TRUE
CONSTANT SupportKey <- MutSupportKey
INVARIANT SupportGrouping
CHECK_DEADLOCK FALSE
