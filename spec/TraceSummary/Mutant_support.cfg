SPECIFICATION Spec
CONSTANT Grid <- GridMutant
CONSTANT SupportKey <- MutSupportKey
INVARIANT SupportGrouping
CHECK_DEADLOCK FALSE
