SPECIFICATION Spec
CONSTANT Grid <- GridMutant
CONSTANT ShuffleAll = TRUE
CONSTANT IncFlags <- MutIncFlagsNoTheta
INVARIANT BelowThresholdChainsIgnored
CHECK_DEADLOCK FALSE
