SPECIFICATION Spec
CONSTANT Grid <- GridQuick
CONSTANT ShuffleAll = FALSE
INVARIANT TypeOK
INVARIANT BurnExact
INVARIANT SumPostIsOne
INVARIANT SumFreqIsOne
INVARIANT OccBounds
INVARIANT GpmLeSpm
INVARIANT ModeAtLeastCall
INVARIANT ArrayPlacement
INVARIANT IncRange
INVARIANT SupportGrouping
INVARIANT SameSupportNoIncongruence
PROPERTY ShuffleKeepsSummary
INVARIANT Dump
CHECK_DEADLOCK FALSE
