SPECIFICATION Spec
CONSTANT Grid <- GridMutant
CONSTANT ShuffleAll = TRUE
CONSTANT OccNum <- MutOccNum
INVARIANT OccBounds
CHECK_DEADLOCK FALSE
