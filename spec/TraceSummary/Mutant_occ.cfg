SPECIFICATION Spec
CONSTANT Grid <- GridMutant
CONSTANT OccNum <- MutOccNum
INVARIANT OccBounds
CHECK_DEADLOCK FALSE
