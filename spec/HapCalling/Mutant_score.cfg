SPECIFICATION Spec
CONSTANT Grid <- GridMutant
CONSTANT OrderScore <- ScoreMut
INVARIANT AltOrder
CHECK_DEADLOCK FALSE
