----------------------------- MODULE HapCalling -----------------------------
(* C13: haplotype reporting threshold and unknown-allele semantics of         *)
(* `mchap assemble`.                                                          *)
(*                                                                           *)
(* Haplotypes are numbers 0..K-1, 0 is the reference (all-zero) haplotype.    *)
(* A sample's posterior is a bag of genotypes (ascending tuples of haplotype  *)
(* numbers) with integer counts summing to M (probability = count / M, M a    *)
(* power of two so the implementation's float arithmetic is exact).           *)
(*                                                                           *)
(* The mechanism, one action per step of the code:                            *)
(*   AddMass  builds the samples' posteriors one unit 1/M at a time (spans    *)
(*            the whole bounded input space from one seed state)              *)
(*   Filter   fixes the threshold; a haplotype is CALLED iff its probability  *)
(*            of occurring (at any copy number) is >= threshold in at least   *)
(*            one sample; its score is its posterior dosage summed over the   *)
(*            samples in which it met the threshold                           *)
(*   Order    chooses ANY order of the called non-reference haplotypes that   *)
(*            is non-increasing in score (ties are free), numbers them 1..n   *)
(*            (reference is always 0, REFMASKED iff it was not called) and    *)
(*            writes every sample's GT / AFP / AOP / GP                       *)
(* The definitions are written from the property statement and the VCF        *)
(* semantics of the fields, not from the implementation.                      *)
EXTENDS Integers, Sequences, FiniteSets, TLC, Json, Genotypes, TraceFunctionals, HapCallingDefs

CONSTANT Grid        \* set of instances [ps, k, m, maxsup]

J(ps, k, m, ms) == [ps |-> ps, k |-> k, m |-> m, maxsup |-> ms]
GridQuick == { J(<<2>>, 4, 4, 3), J(<<2, 2>>, 3, 2, 2), J(<<2, 2>>, 2, 4, 3), J(<<4>>, 3, 4, 2),
               J(<<2, 4>>, 2, 2, 2), J(<<2, 2, 2>>, 2, 2, 2), J(<<1>>, 4, 4, 3),
               J(<<2, 4>>, 3, 2, 2) }   \* mixed ploidy with two ALTs: dosage and frequency rank them differently
GridThorough == GridQuick \cup
              { J(<<2, 2>>, 3, 4, 3), J(<<2>>, 4, 8, 3), J(<<4>>, 3, 8, 3), J(<<4, 2>>, 3, 2, 2),
                J(<<2, 2, 2>>, 3, 2, 1), J(<<6>>, 2, 8, 3), J(<<2, 2>>, 4, 2, 2) }
GridMutant == { J(<<2, 2>>, 3, 2, 2), J(<<2>>, 3, 4, 3) }

Thetas == << <<0, 1>>, <<1, 8>>, <<1, 4>>, <<1, 2>>, <<3, 4>>, <<1, 1>> >>
ThetasThorough == << <<0, 1>>, <<1, 8>>, <<1, 4>>, <<3, 8>>, <<1, 2>>, <<5, 8>>, <<3, 4>>, <<7, 8>>, <<1, 1>> >>

VARIABLES inst,    \* the instance
          post,    \* post[s] = sequence of <<genotype, count>>, genotypes in increasing VCF rank
          phase,   \* "fill" | "filtered" | "reported"
          theta,   \* <<num, den>>
          alt,     \* the ALT haplotypes in record order
          rec,     \* the reported record (computed by Order)
          space    \* space[s] = all genotypes of sample s in VCF order (constant per instance)
vars == <<inst, post, phase, theta, alt, rec, space>>

NS == Len(inst.ps)
M == inst.m

(* ---- the state machine ----------------------------------------------------------------- *)
Init == /\ inst \in Grid
        /\ post = [s \in 1..Len(inst.ps) |-> <<>>]
        /\ phase = "fill"
        /\ theta = <<0, 1>>
        /\ alt = <<>>
        /\ rec = <<>>
        /\ space = [s \in 1..Len(inst.ps) |-> VcfOrder(inst.k, inst.ps[s])]

(* one more unit of probability on a genotype of the first incomplete sample;   *)
(* genotypes are added in increasing rank, so every bag has exactly one history *)
AddMass == /\ phase = "fill"
           /\ \E s \in 1..NS :
                /\ Total(post[s]) < M
                /\ \A r \in 1..(s - 1) : Total(post[r]) = M
                /\ \E gi \in 1..Len(space[s]) :
                     LET g == space[s][gi]
                         p == post[s]
                         n == Len(p)
                     IN  \/ /\ n > 0
                            /\ IF n > 0 THEN p[n][1] = g ELSE FALSE
                            /\ post' = [post EXCEPT ![s] = [p EXCEPT ![n] = <<g, p[n][2] + 1>>]]
                         \/ /\ n < inst.maxsup
                            /\ IF n = 0 THEN TRUE ELSE Rank(p[n][1]) < gi - 1
                            /\ post' = [post EXCEPT ![s] = Append(p, <<g, 1>>)]
           /\ UNCHANGED <<inst, phase, theta, alt, rec, space>>

Filter == /\ phase = "fill"
          /\ \A s \in 1..NS : Total(post[s]) = M
          /\ \E q \in 1..Len(Thetas) : theta' = Thetas[q]
          /\ phase' = "filtered"
          /\ UNCHANGED <<inst, post, alt, rec, space>>

Order == /\ phase = "filtered"
         /\ \E o \in ValidOrders(post, inst.k, theta, M) :
              /\ alt' = o
              /\ rec' = TLCEval(Report(post, inst.ps, inst.k, theta, M, o))
         /\ phase' = "reported"
         /\ UNCHANGED <<inst, post, theta, space>>

Next == AddMass \/ Filter \/ Order
Spec == Init /\ [][Next]_vars

(* ---- invariants ---------------------------------------------------------------------------- *)
Reported == phase = "reported"
AltSet == {alt[i] : i \in 1..Len(alt)}
Listed == AltSet \cup {0}
Labelled == AltSet \cup (IF rec.masked THEN {} ELSE {0})
CountIn2(sq, x) == Cardinality({j \in 1..Len(sq) : sq[j] = x})

TypeOK == /\ phase \in {"fill", "filtered", "reported"}
          /\ \A s \in 1..NS : Total(post[s]) <= M /\ Len(post[s]) <= inst.maxsup
          /\ \A s \in 1..NS : \A j \in 1..(Len(post[s]) - 1) : Rank(post[s][j][1]) < Rank(post[s][j + 1][1])

(* a non-reference haplotype is ALT iff P(occurs) >= threshold in at least one sample *)
AltIffThreshold ==
  Reported => /\ Injective(alt)
              /\ \A h \in 1..(inst.k - 1) :
                   (h \in AltSet) <=> (\E s \in 1..NS : Occ(post[s], h) > 0 /\ Occ(post[s], h) * theta[2] >= theta[1] * M)
              /\ 0 \notin AltSet
(* the reference is allele 0 and is REFMASKED exactly when it did not meet the criterion *)
RefMaskedIff ==
  Reported => (rec.masked <=> ~(\E s \in 1..NS : Occ(post[s], 0) > 0 /\ Occ(post[s], 0) * theta[2] >= theta[1] * M))
RefAlwaysZero ==
  Reported => \A s \in 1..NS : \A cl \in rec.samples[s].calls :
                 CountIn2(cl[2], 0) = (IF rec.masked THEN 0 ELSE Mult(cl[1], 0))
MaskedRefUnused ==
  Reported => (rec.masked => \A s \in 1..NS : \A cl \in rec.samples[s].calls : CountIn2(cl[2], 0) = 0)
(* ALT is ordered by decreasing dosage summed over the samples in which it met the threshold *)
AltOrder ==
  Reported => \A i \in 1..(Len(alt) - 1) :
                 SumSeq([s \in 1..NS |-> IF Occ(post[s], alt[i]) * theta[2] >= theta[1] * M THEN Dose(post[s], alt[i]) ELSE 0])
                 >= SumSeq([s \in 1..NS |-> IF Occ(post[s], alt[i + 1]) * theta[2] >= theta[1] * M THEN Dose(post[s], alt[i + 1]) ELSE 0])
(* GT: "." exactly for the copies of excluded haplotypes; every other copy carries its allele number *)
DotIffExcluded ==
  Reported => \A s \in 1..NS : \A cl \in rec.samples[s].calls :
                 /\ Len(cl[2]) = inst.ps[s]
                 /\ CountIn2(cl[2], -1) = Cardinality({j \in 1..Len(cl[1]) : cl[1][j] \notin Labelled})
                 /\ \A i \in 1..Len(alt) : CountIn2(cl[2], i) = Mult(cl[1], alt[i])
                 /\ \A j \in 1..(Len(cl[2]) - 1) : cl[2][j + 1] = -1 \/ (cl[2][j] >= 0 /\ cl[2][j] <= cl[2][j + 1])
(* AFP and GP sum to at most one; equality iff nothing of the sample's support was excluded *)
SumsAtMostOne ==
  Reported => \A s \in 1..NS :
                 LET r == rec.samples[s]
                     sa == SumSeq(r.afp)
                     sg == SumSeq([j \in 1..Len(SetToSeq(r.gp)) |-> SetToSeq(r.gp)[j][2]])
                 IN  /\ sa <= M * inst.ps[s]
                     /\ (sa = M * inst.ps[s]) <=> (HapsOf(post[s]) \subseteq Listed)
                     /\ sg <= M
                     /\ (sg = M) <=> (HapsOf(post[s]) \subseteq Labelled)
                     /\ \A i \in 1..Len(r.aop) : r.aop[i] <= M /\ r.aop[i] <= r.afp[i] /\ r.afp[i] <= inst.ps[s] * r.aop[i]
(* GP is G-ordered over the record's alleles (REF and every ALT, masked or not) *)
GPLength ==
  Reported => \A s \in 1..NS :
                 LET r == rec.samples[s]
                 IN  /\ r.gpLen = Choose(Len(alt) + 1 + inst.ps[s] - 1, inst.ps[s])
                     /\ \A e \in r.gp : e[1] >= 0 /\ e[1] < r.gpLen
                     /\ Cardinality({e[1] : e \in r.gp}) = Cardinality(r.gp)

Dump == IF phase = "reported"
        THEN PrintT(<<"@@J", ToJson([ps |-> inst.ps, k |-> inst.k, m |-> inst.m, post |-> post, theta |-> theta,
                                     alt |-> alt, rec |-> rec])>>)
        ELSE TRUE
=============================================================================
