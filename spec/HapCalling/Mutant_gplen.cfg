SPECIFICATION Spec
CONSTANT Grid <- GridMutant
CONSTANT GpLen <- GpLenMut
INVARIANT GPLength
CHECK_DEADLOCK FALSE
