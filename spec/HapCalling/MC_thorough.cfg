SPECIFICATION Spec
CONSTANT Grid <- GridThorough
CONSTANT Thetas <- ThetasThorough
INVARIANT TypeOK
INVARIANT AltIffThreshold
INVARIANT RefMaskedIff
INVARIANT RefAlwaysZero
INVARIANT MaskedRefUnused
INVARIANT AltOrder
INVARIANT DotIffExcluded
INVARIANT SumsAtMostOne
INVARIANT GPLength
INVARIANT Dump
CHECK_DEADLOCK FALSE
