--------------------------- MODULE TraceHapCalling ---------------------------
(* C13, code -> spec: one line per locus of a real `mchap assemble` run (real   *)
(* MCMC).  A line holds, per sample, the empirical posterior of the retained    *)
(* trace returned by fit() (genotypes as haplotype numbers, 0 = reference,      *)
(* counts out of m), the threshold, and what the program printed: ALT (as       *)
(* haplotype numbers), REFMASKED, and per sample GT / AFP / AOP / GP (3-decimal *)
(* values as integers in 1/1000, -1 = ".").  Everything is recomputed with the  *)
(* definitions of HapCallingDefs and every printed field gets a verdict.        *)
(* Wide loci (70-140 samples with private haplotypes over 8-9 SNVs: more than   *)
(* 127 and more than 255 reported ALT haplotypes) are far beyond what TLC can   *)
(* enumerate in HapCalling; they are validated here as recorded events with     *)
(* the same definitions: allele numbers are plain integers 0..Len(ALT), a GT    *)
(* shows "." exactly for the excluded haplotypes of the called genotype         *)
(* (GtDotIffExcluded) and every other number indexes the ALT list               *)
(* (GtAlleleNumberIsAltIndex), whatever the number of alleles.                  *)
EXTENDS Integers, Sequences, FiniteSets, TLC, Json, IOUtils, HapCallingDefs

Trace == JsonDeserialize(IOEnv.TRACE_FILE)

VARIABLES l, bad, cur      \* cur = the model's report for line l, computed once per line (TLC does not cache LET values)
vars == <<l, bad, cur>>

Abs(x) == IF x < 0 THEN -x ELSE x
Close(v, k, n) == v >= 0 /\ 2 * Abs(v * n - 1000 * k) <= n

AltValid(e, called) == LET o == e.out.alt IN Injective(o) /\ {o[i] : i \in 1..Len(o)} = (called \ {0})

(* everything the verdict needs, evaluated eagerly; sample reports only if the printed ALT list is the called set *)
Prep(e) ==
  LET called == Called(e.post, e.k, e.theta, e.m)
      masked == 0 \notin called
  IN  TLCEval([ e |-> e,
                called |-> called,
                masked |-> masked,
                scores |-> IF AltValid(e, called)
                           THEN [i \in 1..Len(e.out.alt) |-> Score(e.post, e.out.alt[i], e.theta, e.m)] ELSE <<>>,
                samples |-> IF AltValid(e, called)
                            THEN [s \in 1..Len(e.ps) |->
                                    LET r == SampleReport(e.post[s], e.ps[s], e.out.alt, masked)
                                    IN  [r |-> r, ranks |-> {x[1] : x \in r.gp}]]
                            ELSE <<>> ])

Dots(gt) == Cardinality({j \in 1..Len(gt) : gt[j] < 0})
(* the "."s of a GT come after its allele numbers *)
DotsLast(gt) == \A j \in 1..(Len(gt) - 1) : gt[j] >= 0 \/ gt[j + 1] < 0

SampleVerdict(s, c) ==
  LET e == c.e
      P == c.e.ps[s]
      out == c.e.out.samples[s]
      nrec == Len(c.e.out.alt) + 1
      masked == c.masked
      r == c.samples[s].r
      ranks == c.samples[s].ranks
      (* every listed genotype carries its probability, every other entry is 0 (linear in the array length) *)
      gpOk == /\ \A x \in c.samples[s].r.gp : Close(c.e.out.samples[s].gp[x[1] + 1], x[2], c.e.m)
              /\ \A i \in 1..c.samples[s].r.gpLen : (i - 1) \in c.samples[s].ranks \/ c.e.out.samples[s].gp[i] = 0
      (* all entries outside ranks are 0 (gpOk), so the sum of the array is the sum over ranks *)
      rankSeq == SetToSeq(ranks)
      gpSum == SumSeq([j \in 1..Len(rankSeq) |-> out.gp[rankSeq[j] + 1]])
  IN  IF ~(\E cl \in r.calls : cl[2] = out.gt)
      THEN (* the "."s are where and as many as some admissible call has them: a listed haplotype carries a number *)
           (* that is not its position in ALT; everything else: "." does not stand exactly for the excluded ones  *)
           (IF DotsLast(out.gt) /\ \E cl \in r.calls : Dots(cl[2]) = Dots(out.gt)
            THEN "GtAlleleNumberIsAltIndex" ELSE "GtDotIffExcluded")
      ELSE IF Len(out.afp) # nrec \/ Len(out.aop) # nrec THEN "AfpAopLength"
      ELSE IF ~(\A i \in 1..nrec : \/ Close(out.afp[i], r.afp[i], e.m * P)
                                  \/ (masked /\ i = 1 /\ out.afp[i] = 0)) THEN "AfpIsFrequency"
      ELSE IF ~(\A i \in 1..nrec : \/ Close(out.aop[i], r.aop[i], e.m)
                                  \/ (masked /\ i = 1 /\ out.aop[i] = 0)) THEN "AopIsOccurrence"
      ELSE IF SumSeq(out.afp) > 1000 + nrec THEN "AfpSumAtMostOne"
      ELSE IF e.out.gperror # "" THEN (IF masked THEN "GpRefMaskedException" ELSE "GpException")
      ELSE IF out.gp = <<>> THEN "ok"                        \* GP not requested for this line
      ELSE IF out.gp = <<-1>> \/ Len(out.gp) # r.gpLen           \* printed "." or wrong number of entries
           THEN (IF masked THEN "GpRefMaskedLength" ELSE "GpLength")
      ELSE IF ~gpOk THEN "GpIsPosterior"
      ELSE IF gpSum > 1000 + Cardinality(ranks) THEN "GpSumAtMostOne"
      ELSE "ok"

RECURSIVE FirstBad(_, _)
FirstBad(s, c) ==
  IF s > Len(c.e.ps) THEN "ok"
  ELSE LET v == SampleVerdict(s, c) IN IF v = "ok" THEN FirstBad(s + 1, c) ELSE v

Verdict(c) ==
  LET e == c.e IN
  IF \E s \in 1..Len(e.post) : Total(e.post[s]) # e.m THEN "PosteriorTotal"
  ELSE IF ~AltValid(e, c.called) THEN "AltIffThreshold"
  ELSE IF ~(\A i \in 1..(Len(c.scores) - 1) : c.scores[i] >= c.scores[i + 1]) THEN "AltOrder"
  ELSE IF e.out.masked # c.masked THEN "RefMaskedIff"
  ELSE FirstBad(1, c)

PrepAt(i) == IF i <= Len(Trace) THEN Prep(Trace[i]) ELSE <<>>

Init == l = 1 /\ bad = 0 /\ cur = PrepAt(1)
Next == /\ l <= Len(Trace)
        /\ LET v == Verdict(cur)
           IN  /\ IF v = "ok" THEN TRUE ELSE PrintT(<<"@@J", ToJson([reject |-> l, clause |-> v])>>)
               /\ bad' = IF v = "ok" THEN bad ELSE bad + 1
        /\ l' = l + 1
        /\ cur' = PrepAt(l + 1)
Spec == Init /\ [][Next]_vars
Consumed == (l = Len(Trace) + 1) => PrintT(<<"@@J", ToJson([consumed |-> l - 1, rejected |-> bad])>>)
=============================================================================
