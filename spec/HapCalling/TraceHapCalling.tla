--------------------------- MODULE TraceHapCalling ---------------------------
(* C13, code -> spec: one line per locus of a real `mchap assemble` run (real   *)
(* MCMC).  A line holds, per sample, the empirical posterior of the retained    *)
(* trace returned by fit() (genotypes as haplotype numbers, 0 = reference,      *)
(* counts out of m), the threshold, and what the program printed: ALT (as       *)
(* haplotype numbers), REFMASKED, and per sample GT / AFP / AOP / GP (3-decimal *)
(* values as integers in 1/1000, -1 = ".").  Everything is recomputed with the  *)
(* definitions of HapCallingDefs and every printed field gets a verdict.        *)
EXTENDS Integers, Sequences, FiniteSets, TLC, Json, IOUtils, HapCallingDefs

Trace == JsonDeserialize(IOEnv.TRACE_FILE)

VARIABLES l, bad
vars == <<l, bad>>

Abs(x) == IF x < 0 THEN -x ELSE x
Close(v, k, n) == v >= 0 /\ 2 * Abs(v * n - 1000 * k) <= n

SampleVerdict(e, s, o, masked) ==
  LET p == e.post[s]
      P == e.ps[s]
      out == e.out.samples[s]
      nrec == Len(o) + 1
      labelled == {o[i] : i \in 1..Len(o)} \cup (IF masked THEN {} ELSE {0})
      r == SampleReport(p, P, o, masked)
      gpAt(i) == LET hit == {x \in r.gp : x[1] = i} IN IF hit = {} THEN 0 ELSE (CHOOSE x \in hit : TRUE)[2]
  IN  IF ~(\E cl \in r.calls : cl[2] = out.gt) THEN "GtDotIffExcluded"
      ELSE IF Len(out.afp) # nrec \/ Len(out.aop) # nrec THEN "AfpAopLength"
      ELSE IF ~(\A i \in 1..nrec : \/ Close(out.afp[i], r.afp[i], e.m * P)
                                  \/ (masked /\ i = 1 /\ out.afp[i] = 0)) THEN "AfpIsFrequency"
      ELSE IF ~(\A i \in 1..nrec : \/ Close(out.aop[i], r.aop[i], e.m)
                                  \/ (masked /\ i = 1 /\ out.aop[i] = 0)) THEN "AopIsOccurrence"
      ELSE IF SumSeq(out.afp) > 1000 + nrec THEN "AfpSumAtMostOne"
      ELSE IF e.out.gperror # "" THEN (IF masked THEN "GpRefMaskedException" ELSE "GpException")
      ELSE IF out.gp = <<>> THEN "ok"                        \* GP not requested for this line
      ELSE IF out.gp = <<-1>> \/ Len(out.gp) # r.gpLen           \* printed "." or wrong number of entries
           THEN (IF masked THEN "GpRefMaskedLength" ELSE "GpLength")
      ELSE IF ~(\A i \in 1..r.gpLen : Close(out.gp[i], gpAt(i - 1), e.m)) THEN "GpIsPosterior"
      ELSE IF SumSeq(out.gp) > 1000 + r.gpLen THEN "GpSumAtMostOne"
      ELSE "ok"

RECURSIVE FirstBad(_, _, _, _)
FirstBad(e, s, o, masked) ==
  IF s > Len(e.ps) THEN "ok"
  ELSE LET v == SampleVerdict(e, s, o, masked) IN IF v = "ok" THEN FirstBad(e, s + 1, o, masked) ELSE v

Verdict(e) ==
  LET th == e.theta
      called == Called(e.post, e.k, th, e.m)
      o == e.out.alt
      oset == {o[i] : i \in 1..Len(o)}
      masked == 0 \notin called
  IN  IF \E s \in 1..Len(e.post) : Total(e.post[s]) # e.m THEN "PosteriorTotal"
      ELSE IF ~Injective(o) \/ oset # (called \ {0}) THEN "AltIffThreshold"
      ELSE IF ~(\A i \in 1..(Len(o) - 1) : Score(e.post, o[i], th, e.m) >= Score(e.post, o[i + 1], th, e.m)) THEN "AltOrder"
      ELSE IF e.out.masked # masked THEN "RefMaskedIff"
      ELSE FirstBad(e, 1, o, masked)

Init == l = 1 /\ bad = 0
Next == /\ l <= Len(Trace)
        /\ LET v == Verdict(Trace[l])
           IN  /\ IF v = "ok" THEN TRUE ELSE PrintT(<<"@@J", ToJson([reject |-> l, clause |-> v])>>)
               /\ bad' = IF v = "ok" THEN bad ELSE bad + 1
        /\ l' = l + 1
Spec == Init /\ [][Next]_vars
Consumed == (l = Len(Trace) + 1) => PrintT(<<"@@J", ToJson([consumed |-> l - 1, rejected |-> bad])>>)
=============================================================================
