SPECIFICATION Spec
CONSTANT Grid <- GridMutant
CONSTANT Meets <- MeetsMut
INVARIANT AltIffThreshold
CHECK_DEADLOCK FALSE
