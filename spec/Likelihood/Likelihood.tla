----------------------------- MODULE Likelihood -----------------------------
(* C04: the read likelihood has the documented mixture semantics and         *)
(* symmetries, and the likelihood evaluated for a proposed structural        *)
(* rearrangement equals the likelihood of the rearranged genotype.           *)
(*                                                                           *)
(* Two state machines over the same variables (definitions of the exact      *)
(* numerators are in ReadWeights.tla):                                       *)
(*                                                                           *)
(*  SpecMixture    - instances (genotype, read set) as states; cheap         *)
(*                   monotone actions (raise one genotype cell, one read     *)
(*                   cell, one count, add a second read) span the whole      *)
(*                   bounded instance space from one seed per shape.         *)
(*  SpecStructural - instances (genotype, index vector, interval) spanned    *)
(*                   the same way; from every instance the in-place          *)
(*                   rearrangement runs as the algorithm does it: column by  *)
(*                   column of the interval, each column copied to a cache   *)
(*                   and written back through the index vector.  At the end  *)
(*                   the redirect evaluation (no genotype built) must agree  *)
(*                   with the likelihood of the genotype that was built, for *)
(*                   every read of the cell alphabet.                        *)
EXTENDS Integers, Sequences, FiniteSets, TLC, Json, ReadWeights

CONSTANT Shapes     \* set of [P, N, A, M, pairs, minC, maxC]
                    \* P ploidy, N SNVs, A[j] alleles of SNV j, M: genotype cells range over 0..M-1
                    \* (M > A[j] puts zero-probability non-alleles into haplotypes),
                    \* pairs: read sets of two reads as well, counts in minC..maxC

Shape(P, N, A, M, pairs, minC, maxC) ==
  [P |-> P, N |-> N, A |-> A, M |-> M, pairs |-> pairs, minC |-> minC, maxC |-> maxC]

MixQuick == { Shape(2, 2, <<2, 2>>, 2, TRUE, 0, 2),
              Shape(2, 2, <<2, 3>>, 3, FALSE, 1, 2),
              Shape(3, 2, <<3, 2>>, 3, FALSE, 1, 1),
              Shape(2, 3, <<2, 2, 2>>, 2, FALSE, 1, 1),
              Shape(4, 2, <<2, 2>>, 2, FALSE, 1, 1),
              Shape(1, 3, <<2, 3, 2>>, 3, FALSE, 1, 2) }
MixThorough == MixQuick \cup { Shape(2, 2, <<2, 3>>, 3, TRUE, 0, 2),
                               Shape(3, 3, <<2, 2, 2>>, 2, FALSE, 1, 1),
                               Shape(2, 3, <<2, 3, 2>>, 3, FALSE, 1, 2),
                               Shape(4, 3, <<2, 2, 2>>, 2, FALSE, 1, 1),
                               Shape(2, 4, <<2, 2, 2, 2>>, 2, FALSE, 1, 1) }
StructQuick == { Shape(2, 2, <<2, 3>>, 3, FALSE, 1, 1),
                 Shape(3, 2, <<2, 2>>, 2, FALSE, 1, 1),
                 Shape(2, 3, <<2, 2, 2>>, 2, FALSE, 1, 1) }
StructThorough == StructQuick \cup { Shape(3, 3, <<2, 2, 2>>, 2, FALSE, 1, 1),
                                     Shape(2, 3, <<2, 3, 2>>, 3, FALSE, 1, 1),
                                     Shape(4, 1, <<3>>, 3, FALSE, 1, 1) }
Tiny == { Shape(2, 2, <<2, 2>>, 2, TRUE, 0, 2), Shape(2, 2, <<2, 3>>, 3, FALSE, 1, 1) }

VARIABLES sh,        \* shape (constant along a behaviour)
          G,         \* genotype: P haplotypes of N alleles
          rds,       \* read set: sequence of <<cells, count>>
          idx,       \* rearrangement index vector: P entries in 1..P
          lo, hi,    \* half-open interval of 0-based SNV positions
          phase,     \* "inst" | "apply" | "done"
          col,       \* next (0-based) column the rearrangement will process
          work,      \* the genotype being rearranged in place
          allReads   \* every read over the cell alphabet of the shape (constant)
vars == <<sh, G, rds, idx, lo, hi, phase, col, work, allReads>>

GapRead(s) == [j \in 1..s.N |-> Gap]

InitCommon ==
  /\ G = [h \in 1..sh.P |-> [j \in 1..sh.N |-> 0]]
  /\ rds = << <<GapRead(sh), sh.minC>> >>
  /\ phase = "inst"
  /\ col = 0
  /\ work = G
  /\ allReads = ReadList(sh.A)

(* ---- instance-spanning actions (phase "inst") ---------------------------- *)
IncG == \E h \in 1..sh.P, j \in 1..sh.N :
          /\ G[h][j] < sh.M - 1
          /\ G' = [G EXCEPT ![h][j] = @ + 1]
          /\ work' = G'
IncCell == \E k \in 1..Len(rds), j \in 1..sh.N :
             /\ rds[k][1][j] < sh.A[j] - 1
             /\ rds' = [rds EXCEPT ![k][1][j] = @ + 1]
IncCount == \E k \in 1..Len(rds) :
              /\ rds[k][2] < sh.maxC
              /\ rds' = [rds EXCEPT ![k][2] = @ + 1]
AddRead == /\ sh.pairs /\ Len(rds) = 1
           /\ rds' = Append(rds, <<GapRead(sh), sh.minC>>)
IncIdx == \E h \in 1..sh.P : idx[h] < sh.P /\ idx' = [idx EXCEPT ![h] = @ + 1]
IncHi == hi < sh.N /\ hi' = hi + 1 /\ lo' = lo
IncLo == lo < hi /\ lo' = lo + 1 /\ hi' = hi

(* ---- SpecMixture ---------------------------------------------------------- *)
InitMixture ==
  /\ sh \in Shapes
  /\ InitCommon
  /\ idx = [h \in 1..sh.P |-> h] /\ lo = 0 /\ hi = sh.N

MixKeepG   == UNCHANGED <<sh, G, idx, lo, hi, phase, col, work, allReads>>
MIncG      == IncG /\ UNCHANGED <<sh, rds, idx, lo, hi, phase, col, allReads>>
MIncCell   == IncCell /\ MixKeepG
MIncCount  == IncCount /\ MixKeepG
MAddRead   == AddRead /\ MixKeepG
NextMixture == MIncG \/ MIncCell \/ MIncCount \/ MAddRead
SpecMixture == InitMixture /\ [][NextMixture]_vars

(* ---- SpecStructural ------------------------------------------------------- *)
InitStructural ==
  /\ sh \in Shapes
  /\ InitCommon
  /\ idx = [h \in 1..sh.P |-> 1] /\ lo = 0 /\ hi = 0

(* one column of the in-place rearrangement: the column is copied to a cache  *)
(* and every haplotype then takes the cached allele of its source haplotype   *)
StoreColumn(w, ix, c) ==
  LET cache == [h \in 1..Len(w) |-> w[h][c]]
  IN  [h \in 1..Len(w) |-> [w[h] EXCEPT ![c] = cache[ix[h]]]]

Begin  == phase = "inst" /\ phase' = "apply" /\ col' = lo /\ work' = G
Column == /\ phase = "apply" /\ col < hi
          /\ work' = StoreColumn(work, idx, col + 1)
          /\ col' = col + 1
          /\ phase' = phase
Finish == phase = "apply" /\ col = hi /\ phase' = "done" /\ UNCHANGED <<col, work>>

SIncG   == phase = "inst" /\ IncG /\ UNCHANGED <<sh, rds, idx, lo, hi, phase, col, allReads>>
SIncIdx == phase = "inst" /\ IncIdx /\ UNCHANGED <<sh, G, rds, lo, hi, phase, col, work, allReads>>
SIncHi  == phase = "inst" /\ IncHi /\ UNCHANGED <<sh, G, rds, idx, phase, col, work, allReads>>
SIncLo  == phase = "inst" /\ IncLo /\ UNCHANGED <<sh, G, rds, idx, phase, col, work, allReads>>
SBegin  == Begin /\ UNCHANGED <<sh, G, rds, idx, lo, hi, allReads>>
SColumn == Column /\ UNCHANGED <<sh, G, rds, idx, lo, hi, allReads>>
SFinish == Finish /\ UNCHANGED <<sh, G, rds, idx, lo, hi, allReads>>
NextStructural == SIncG \/ SIncIdx \/ SIncHi \/ SIncLo \/ SBegin \/ SColumn \/ SFinish
SpecStructural == InitStructural /\ [][NextStructural]_vars

(* ---- invariants: mixture semantics ---------------------------------------- *)
A == sh.A
Den == ReadDen(sh.P, sh.N)
ValidHap(hap) == \A j \in 1..sh.N : hap[j] < A[j]

TypeOK ==
  /\ Len(G) = sh.P /\ \A h \in 1..sh.P : Len(G[h]) = sh.N /\ \A j \in 1..sh.N : G[h][j] \in 0..(sh.M - 1)
  /\ Len(rds) \in 1..2
  /\ \A k \in 1..Len(rds) : /\ rds[k][2] \in sh.minC..sh.maxC
                            /\ \A j \in 1..sh.N : rds[k][1][j] \in -1..(A[j] - 1)
  /\ idx \in [1..sh.P -> 1..sh.P]
  /\ 0 <= lo /\ lo <= hi /\ hi <= sh.N
  /\ phase \in {"inst", "apply", "done"}

Permuted(GG, pi) == [h \in 1..Len(GG) |-> GG[pi[h]]]
HapPerms == {pi \in [1..sh.P -> 1..sh.P] : \A a, b \in 1..sh.P : a # b => pi[a] # pi[b]}
Reverse(s) == [i \in 1..Len(s) |-> s[Len(s) + 1 - i]]

(* invariant to the order of the haplotypes                                  *)
HapOrderInvariant ==
  LET f == FactorSeq(rds, G, A)
  IN  \A pi \in HapPerms : FactorSeq(rds, Permuted(G, pi), A) = f

(* invariant to the order of the reads (equal bags of factors)               *)
ReadOrderInvariant == FactorBag(Reverse(rds), G, A) = FactorBag(rds, G, A)

(* a read with count k is k identical reads                                  *)
CountIsDuplication == FactorBag(Expand(rds), G, A) = FactorBag(rds, G, A)

(* a missing call contributes a factor of one: the gap column drops out       *)
DropCol(s, j) == [i \in 1..(Len(s) - 1) |-> IF i < j THEN s[i] ELSE s[i + 1]]
GapIsOne ==
  \A k \in 1..Len(rds) : \A j \in 1..sh.N :
    (rds[k][1][j] = Gap /\ \A h \in 1..sh.P : G[h][j] < A[j]) =>
      ReadNum(rds[k][1], G, A)
        = CellDen * ReadNum(DropCol(rds[k][1], j), [h \in 1..sh.P |-> DropCol(G[h], j)], DropCol(A, j))

AllGapIsCertain ==
  \A k \in 1..Len(rds) :
    ((\A j \in 1..sh.N : rds[k][1][j] = Gap) /\ (\A h \in 1..sh.P : ValidHap(G[h])))
      => ReadNum(rds[k][1], G, A) = Den

Bounds == \A k \in 1..Len(rds) : ReadNum(rds[k][1], G, A) \in 0..Den

(* a locus extended by SNVs at which the read has no call (and every haplotype carries a    *)
(* listed allele) has the same likelihood: however long the locus, at either end             *)
PaddingInvariant ==
  \A k \in 1..Len(rds) :
    LET c == rds[k][1] IN
    /\ ReadNum(c \o <<Gap>>, [h \in 1..sh.P |-> G[h] \o <<0>>], A \o <<2>>) = CellDen * ReadNum(c, G, A)
    /\ ReadNum(<<Gap, Gap>> \o c, [h \in 1..sh.P |-> <<1, 0>> \o G[h]], <<2, 2>> \o A) = CellDen * CellDen * ReadNum(c, G, A)

(* the mixture depends on the proportions of the haplotypes only: a pool of r copies of the  *)
(* genotype (ploidy r P) has the same likelihood as the genotype itself                      *)
Pooled(GG, r) == [h \in 1..(r * Len(GG)) |-> GG[((h - 1) % Len(GG)) + 1]]
PoolingInvariant ==
  \A r \in {2, 3, 5} : \A k \in 1..Len(rds) :
    /\ ReadNum(rds[k][1], Pooled(G, r), A) = r * ReadNum(rds[k][1], G, A)
    /\ ReadDen(r * sh.P, sh.N) = r * Den

(* a haplotype carrying a zero-probability non-allele contributes nothing     *)
RECURSIVE SumValid(_, _)
SumValid(cells, h) == IF h = 0 THEN 0
                      ELSE (IF ValidHap(G[h]) THEN HapNum(cells, G[h], A) ELSE 0) + SumValid(cells, h - 1)
NonAlleleIsZero == \A k \in 1..Len(rds) : ReadNum(rds[k][1], G, A) = SumValid(rds[k][1], sh.P)

(* the mean over identical haplotypes is the haplotype's own probability      *)
HomozygousIsHaplotype ==
  (\A h \in 1..sh.P : G[h] = G[1]) =>
    \A k \in 1..Len(rds) : ReadNum(rds[k][1], G, A) = sh.P * HapNum(rds[k][1], G[1], A)

(* relabelling two alleles of a SNV consistently in reads and genotype        *)
Swap01(x) == IF x = 0 THEN 1 ELSE IF x = 1 THEN 0 ELSE x
AlleleRelabelInvariant ==
  \A j \in 1..sh.N :
    LET G2 == [h \in 1..sh.P |-> [G[h] EXCEPT ![j] = Swap01(@)]]
    IN  \A k \in 1..Len(rds) :
          ReadNum([rds[k][1] EXCEPT ![j] = Swap01(@)], G2, A) = ReadNum(rds[k][1], G, A)

(* ---- invariants: rearrangement -------------------------------------------- *)
(* loop invariant of the in-place algorithm                                   *)
ApplyProgress ==
  phase # "inst" =>
    \A h \in 1..sh.P : \A j \in 1..sh.N :
      work[h][j] = IF lo <= j - 1 /\ j - 1 < col THEN G[idx[h]][j] ELSE G[h][j]

ApplyIsRearranged == phase = "done" => work = Rearranged(G, idx, lo, hi)

(* likelihood of the proposal (redirect evaluation) = likelihood of the       *)
(* genotype the rearrangement builds, for EVERY read of the alphabet          *)
StructuralEqualsApplied ==
  phase = "done" =>
    \A i \in 1..Len(allReads) :
      StructuralNum(allReads[i], G, A, idx, lo, hi) = ReadNum(allReads[i], work, A)

IsPermutation(ix) == \A a, b \in 1..Len(ix) : a # b => ix[a] # ix[b]
NoopCases ==
  phase = "done" =>
    /\ (lo = hi \/ idx = [h \in 1..sh.P |-> h]) => work = G
    /\ (IsPermutation(idx) /\ lo = 0 /\ hi = sh.N) =>
         \A i \in 1..Len(allReads) : ReadNum(allReads[i], work, A) = ReadNum(allReads[i], G, A)

(* ---- export ---------------------------------------------------------------- *)
DumpMix ==
  PrintT(<<"@@J", ToJson([P |-> sh.P, N |-> sh.N, A |-> sh.A, G |-> G, rds |-> rds,
                          f |-> FactorSeq(rds, G, A), den |-> Den,
                          \* per-read, per-haplotype product numerators: the harness raises them to the T-th power to get the
                          \* exact mixture numerator of the same instance with its SNV columns repeated T times (long loci)
                          hn |-> [i \in 1..Len(rds) |-> [h \in 1..sh.P |-> HapNum(rds[i][1], G[h], A)]]])>>)
DumpStruct ==
  IF phase = "done"
  THEN PrintT(<<"@@J", ToJson([P |-> sh.P, N |-> sh.N, A |-> sh.A, G |-> G, idx |-> idx, lo |-> lo, hi |-> hi,
                               work |-> work, den |-> Den,
                               nums |-> [i \in 1..Len(allReads) |-> StructuralNum(allReads[i], G, A, idx, lo, hi)],
                               base |-> [i \in 1..Len(allReads) |-> ReadNum(allReads[i], G, A)]])>>)
  ELSE TRUE

(* ---- wrong definitions, substituted by the Mutant_*.cfg ------------------- *)
MutInInterval(j, l, h) == l <= j - 1 /\ j - 1 <= h                       \* closed interval
RECURSIVE MutStoreFrom(_, _, _, _)
MutStoreFrom(w, ix, c, h) ==                                              \* no cache: sequential overwrite
  IF h > Len(w) THEN w ELSE MutStoreFrom([w EXCEPT ![h][c] = w[ix[h]][c]], ix, c, h + 1)
MutStoreColumn(w, ix, c) == MutStoreFrom(w, ix, c, 1)
MutCellNum(c, x, a) == IF x >= a THEN 0 ELSE IF c = Gap THEN 0 ELSE IF c = x THEN CorrectNum ELSE ErrorNum   \* gap as zero
MutExpand(r) == [k \in 1..Len(r) |-> <<r[k][1], 1>>]                     \* count ignored
MutReadDen(P, N) == IPow(CellDen, N)                                      \* the mean over haplotypes dropped
=============================================================================
