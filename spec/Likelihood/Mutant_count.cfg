SPECIFICATION SpecMixture
CONSTANT Shapes <- Tiny
CONSTANT Expand <- MutExpand
INVARIANT CountIsDuplication
CHECK_DEADLOCK FALSE
