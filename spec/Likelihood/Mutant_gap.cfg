SPECIFICATION SpecMixture
CONSTANT Shapes <- Tiny
CONSTANT CellNum <- MutCellNum
INVARIANT GapIsOne
CHECK_DEADLOCK FALSE
