-------------------------- MODULE TraceLikelihood --------------------------
(* code -> spec for C04: calls of the implementation's likelihood functions  *)
(* on random read tensors (recorded as integer cell codes: gap = -1 or the   *)
(* called allele, every call with P(correct) = 7/8) are validated against    *)
(* the exact numerators of ReadWeights.tla.                                  *)
(*                                                                           *)
(* The trace follows the mechanism as a fold over the read set:              *)
(*   begin  - fixes the genotype (P haplotypes x N SNVs, A[j] alleles each)  *)
(*   read   - one read evaluated alone: num = round(exp(llk) * P * 24^N)     *)
(*            must be the model's ReadNum EXACTLY (frac6 = distance of the   *)
(*            unrounded value from an integer, in 1e-6 units, must be <= 1); *)
(*            the factor (num, count) is added to the bag                    *)
(*   struct - proposal likelihood of one read for (idx, lo, hi): must be the *)
(*            numerator of the read under the REARRANGED genotype            *)
(*   apply  - output of the in-place rearrangement: must be Rearranged(...)  *)
(*   end    - prints the accumulated bag of factors; the harness compares    *)
(*            the implementation's set-level value with                      *)
(*            sum over the bag of exponent * ln(num / den)                   *)
EXTENDS Integers, Sequences, FiniteSets, TLC, Json, IOUtils, ReadWeights

Trace == JsonDeserialize(IOEnv.TRACE_FILE)

VARIABLES l, cur, bag, nreads, bad
vars == <<l, cur, bag, nreads, bad>>

WellFormed(e) ==
  /\ e.P \in 1..8 /\ e.N \in 1..5 /\ Len(e.A) = e.N /\ Len(e.G) = e.P
  /\ \A j \in 1..e.N : e.A[j] \in 1..8
  /\ \A h \in 1..e.P : Len(e.G[h]) = e.N /\ \A j \in 1..e.N : e.G[h][j] \in 0..8

CellsOK(c) == Len(c) = cur.N /\ \A j \in 1..cur.N : c[j] \in -1..(cur.A[j] - 1)
RearrOK(e) == /\ Len(e.idx) = cur.P /\ \A h \in 1..cur.P : e.idx[h] \in 1..cur.P
              /\ 0 <= e.lo /\ e.lo <= e.hi /\ e.hi <= cur.N

AddToBag(b, x, c) ==
  IF c = 0 THEN b
  ELSE IF \E i \in 1..Len(b) : b[i][1] = x
       THEN LET i == CHOOSE k \in 1..Len(b) : b[k][1] = x IN [b EXCEPT ![i][2] = @ + c]
       ELSE Append(b, <<x, c>>)

Verdict(e) ==
  CASE e.op = "begin" -> IF WellFormed(e) THEN "ok" ELSE "WellFormedInstance"
    [] e.op = "read" ->
         IF cur = <<>> THEN "NoInstance"
         ELSE IF ~CellsOK(e.cells) \/ e.count \notin 0..1000 THEN "ReadWellFormed"
         ELSE IF e.frac6 > 1 THEN "NumeratorIsIntegral"
         ELSE IF e.num = ReadNum(e.cells, cur.G, cur.A) THEN "ok" ELSE "MixtureNumeratorExact"
    [] e.op = "struct" ->
         IF cur = <<>> THEN "NoInstance"
         ELSE IF ~CellsOK(e.cells) \/ ~RearrOK(e) THEN "RearrangementWellFormed"
         ELSE IF e.frac6 > 1 THEN "NumeratorIsIntegral"
         ELSE IF e.num = ReadNum(e.cells, Rearranged(cur.G, e.idx, e.lo, e.hi), cur.A) THEN "ok"
         ELSE "StructuralEqualsApplied"
    [] e.op = "apply" ->
         IF cur = <<>> THEN "NoInstance"
         ELSE IF ~RearrOK(e) THEN "RearrangementWellFormed"
         ELSE IF e.out = Rearranged(cur.G, e.idx, e.lo, e.hi) THEN "ok" ELSE "ApplyIsRearranged"
    [] e.op = "end" -> IF cur = <<>> THEN "NoInstance" ELSE "ok"
    [] OTHER -> "UnknownEvent"

Init == l = 1 /\ cur = <<>> /\ bag = <<>> /\ nreads = 0 /\ bad = 0

Next ==
  /\ l <= Len(Trace)
  /\ LET e == Trace[l]
         v == Verdict(e)
     IN  /\ IF v = "ok" THEN TRUE ELSE PrintT(<<"@@J", ToJson([reject |-> l, clause |-> v])>>)
         /\ IF e.op = "end" /\ cur # <<>>
            THEN PrintT(<<"@@J", ToJson([setline |-> l, bag |-> bag, den |-> ReadDen(cur.P, cur.N), nreads |-> nreads])>>)
            ELSE TRUE
         /\ bad' = IF v = "ok" THEN bad ELSE bad + 1
         /\ cur' = IF e.op = "begin" THEN e ELSE IF e.op = "end" THEN <<>> ELSE cur
         /\ bag' = IF e.op = "begin" \/ e.op = "end" THEN <<>>
                   ELSE IF e.op = "read" /\ v = "ok" THEN AddToBag(bag, e.num, e.count) ELSE bag
         /\ nreads' = IF e.op = "begin" \/ e.op = "end" THEN 0 ELSE IF e.op = "read" THEN nreads + 1 ELSE nreads
  /\ l' = l + 1

Spec == Init /\ [][Next]_vars
Consumed == (l = Len(Trace) + 1) => PrintT(<<"@@J", ToJson([consumed |-> l - 1, rejected |-> bad])>>)
=============================================================================
