SPECIFICATION SpecMixture
CONSTANT Shapes <- Tiny
CONSTANT ReadDen <- MutReadDen
INVARIANT AllGapIsCertain
CHECK_DEADLOCK FALSE
