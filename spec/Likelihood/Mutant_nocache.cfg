SPECIFICATION SpecStructural
CONSTANT Shapes <- Tiny
CONSTANT StoreColumn <- MutStoreColumn
INVARIANT ApplyIsRearranged
CHECK_DEADLOCK FALSE
