SPECIFICATION SpecStructural
CONSTANT Shapes <- Tiny
INVARIANT TypeOK
INVARIANT ApplyProgress
INVARIANT ApplyIsRearranged
INVARIANT StructuralEqualsApplied
INVARIANT NoopCases
INVARIANT DumpStruct
CHECK_DEADLOCK FALSE
