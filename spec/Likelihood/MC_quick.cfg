SPECIFICATION SpecMixture
CONSTANT Shapes <- MixQuick
INVARIANT TypeOK
INVARIANT HapOrderInvariant
INVARIANT ReadOrderInvariant
INVARIANT CountIsDuplication
INVARIANT GapIsOne
INVARIANT AllGapIsCertain
INVARIANT Bounds
INVARIANT PaddingInvariant
INVARIANT PoolingInvariant
INVARIANT NonAlleleIsZero
INVARIANT HomozygousIsHaplotype
INVARIANT AlleleRelabelInvariant
INVARIANT DumpMix
CHECK_DEADLOCK FALSE
