SPECIFICATION SpecStructural
CONSTANT Shapes <- Tiny
CONSTANT InInterval <- MutInInterval
INVARIANT StructuralEqualsApplied
CHECK_DEADLOCK FALSE
