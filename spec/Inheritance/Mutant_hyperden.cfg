SPECIFICATION Spec
CONSTANT Shapes <- ShapesMutant
CONSTANT LamVals <- LamQuick
CONSTANT ErrVals <- ErrQuick
CONSTANT Freqs <- FreqsAll
CONSTANT HyperDen <- MutHyperDen
INVARIANT GameteSumsToOne
CHECK_DEADLOCK FALSE
