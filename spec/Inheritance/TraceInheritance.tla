------------------------- MODULE TraceInheritance -------------------------
(* code -> spec for C17: calls of trio_log_pmf / gamete_log_pmf / trio_valid *)
(* / duo_valid recorded from the implementation on seeded random trios       *)
(* (ploidy up to 6, up to 4 alleles, lambda / error / frequencies = k/16)    *)
(* are validated against the first-principles model of PedInheritance.tla.   *)
(* The model value is computed exactly as a BigNat numerator over a common   *)
(* denominator (the k/16 parameters overflow 32-bit rationals); the recorded *)
(* float arrives as v9 = round(value * 10^9) and must satisfy                *)
(* |v9 * D - N * 10^9| <= 2 * D (absolute 1e-9 plus rounding), and the       *)
(* recorded "-inf" flag must hold exactly when N = 0.                        *)
(* One trace line per call; every line gets a verdict.                       *)
EXTENDS Integers, Sequences, FiniteSets, TLC, Json, IOUtils, BigNat, PedInheritance

Trace == JsonDeserialize(IOEnv.TRACE_FILE)
Q == 16            \* denominator of every recorded parameter

VARIABLES l, bad
vars == <<l, bad>>

RECURSIVE BnTimesPow(_, _, _)
BnTimesPow(x, b, n) == IF n = 0 THEN x ELSE BnTimesPow(BnMulSmall(x, b), b, n - 1)
BnOne == <<1>>

(* integer numerators -------------------------------------------------------- *)
(* i.i.d. gamete g: Perms(g) * prod fN^c  over Q^tau                          *)
RECURSIVE IIDNumFrom(_, _, _, _)
IIDNumFrom(x, c, fN, a) ==
  IF a < 0 THEN x ELSE IIDNumFrom(BnTimesPow(x, fN[a + 1], c[a]), c, fN, a - 1)
IIDNum(g, fN, K) ==
  IF \E i \in DOMAIN g : fN[g[i] + 1] = 0 THEN <<>>
  ELSE IIDNumFrom(BnFromNat(Perms(g)), CntOf(g, K), fN, K - 1)

(* known parent: ((Q-lamN) * Hyper * Pp + lamN * DR * HyperDen) over Q*HyperDen*Pp *)
GamNumSmall(g, Gpar, lamN, K) ==
  (Q - lamN) * HyperNum(g, Gpar, K) * Len(Gpar) + lamN * DRNum(g, Gpar) * HyperDen(Gpar, Len(g))
GamDenSmall(Gpar, tau) == Q * HyperDen(Gpar, tau) * Len(Gpar)

SideKnown(Gpar, tau) == Gpar # <<>> /\ tau > 0
(* mixture numerator over SideDen                                            *)
SideNum(g, Gpar, lamN, eN, fN, K) ==
  IF ~SideKnown(Gpar, Len(g)) THEN IIDNum(g, fN, K)
  ELSE BnAdd(BnTimesPow(BnFromNat((Q - eN) * GamNumSmall(g, Gpar, lamN, K)), Q, Len(g)),
             BnMulSmall(IIDNum(g, fN, K), eN * GamDenSmall(Gpar, Len(g))))
SideDen(Gpar, tau) ==
  IF ~SideKnown(Gpar, tau) THEN BnTimesPow(BnOne, Q, tau)
  ELSE BnTimesPow(BnFromNat(Q * GamDenSmall(Gpar, tau)), Q, tau)

RECURSIVE BnSumFn(_, _)
BnSumFn(fn, S) == IF S = {} THEN <<>>
                  ELSE LET x == CHOOSE y \in S : TRUE IN BnAdd(fn[x], BnSumFn(fn, S \ {x}))

TrioNum(e) ==
  LET K == e.K
      subs == SubBags(e.child, e.tp, K)
      term == [gp \in subs |->
                 BnMul(SideNum(gp, e.Gp, e.lp, e.ep, e.f, K),
                       SideNum(BagDiff(e.child, gp, K), e.Gq, e.lq, e.eq, e.f, K))]
  IN  BnSumFn(term, subs)
TrioDen(e) == BnMul(SideDen(e.Gp, e.tp), SideDen(e.Gq, e.tq))

(* |v9 * D - N * 10^9| <= 2 * D                                               *)
Close(v9, N, D) ==
  LET a == BnMul(BnFromNat(v9), D)
      b == BnMulSmall(BnMulSmall(BnMulSmall(N, 10000), 10000), 10)
      s == BnMulSmall(D, 2)
  IN  BnLeq(a, BnAdd(b, s)) /\ BnLeq(b, BnAdd(a, s))

lamR(n) == RFrac(n, Q)
ParamsOf(e) == [K |-> e.K, Gp |-> e.Gp, Gq |-> e.Gq, tp |-> e.tp, tq |-> e.tq,
                lp |-> lamR(e.lp), lq |-> lamR(e.lq), ep |-> lamR(e.ep), eq |-> lamR(e.eq),
                f |-> [a \in 1..e.K |-> RFrac(e.f[a], Q)]]

Verdict(e) ==
  CASE e.op = "trio" ->
         LET N == TrioNum(e) IN
         IF (N = <<>>) # e.neginf THEN "ZeroIffNegInf"
         ELSE IF ~Close(e.v9, N, TrioDen(e)) THEN "TrioValue"
         ELSE "ok"
    [] e.op = "gamete" ->
         LET N == BnFromNat(GamNumSmall(e.g, e.Gp, e.lp, e.K))
             D == BnFromNat(GamDenSmall(e.Gp, Len(e.g))) IN
         IF (N = <<>>) # e.neginf THEN "ZeroIffNegInf"
         ELSE IF ~Close(e.v9, N, D) THEN "GameteValue"
         ELSE "ok"
    [] e.op = "trio_valid" ->
         IF e.valid = Valid(e.child, ParamsOf(e)) THEN "ok" ELSE "TrioValid"
    [] e.op = "duo_valid" ->
         IF e.valid = DuoValid(e.child, e.Gp, e.tp, lamR(e.lp), e.K) THEN "ok" ELSE "DuoValid"
    [] OTHER -> "UnknownEvent"

Init == l = 1 /\ bad = 0
Next == /\ l <= Len(Trace)
        /\ LET v == Verdict(Trace[l])
           IN  /\ IF v = "ok" THEN TRUE ELSE PrintT(<<"@@J", ToJson([reject |-> l, clause |-> v])>>)
               /\ bad' = IF v = "ok" THEN bad ELSE bad + 1
        /\ l' = l + 1
Spec == Init /\ [][Next]_vars
Consumed == (l = Len(Trace) + 1) => PrintT(<<"@@J", ToJson([consumed |-> l - 1, rejected |-> bad])>>)
=============================================================================
