SPECIFICATION Spec
CONSTANT Shapes <- ShapesQuick
CONSTANT LamVals <- LamQuick
CONSTANT ErrVals <- ErrQuick
CONSTANT Freqs <- FreqsAll
INVARIANT TypeOK
INVARIANT TrioSumsToOne
INVARIANT GameteSumsToOne
INVARIANT IIDSumsToOne
INVARIANT PositiveIffSupported
INVARIANT PositiveIffValid
INVARIANT UnknownParentIsMultinomial
INVARIANT SwapSymmetric
INVARIANT HyperIsProductOfBinomials
INVARIANT IIDIsSumOverDraws
CONSTRAINT Dump
CHECK_DEADLOCK FALSE
