SPECIFICATION Spec
CONSTANT Shapes <- ShapesMutant
CONSTANT LamVals <- LamQuick
CONSTANT ErrVals <- ErrQuick
CONSTANT Freqs <- FreqsAll
CONSTANT Drawable <- MutDrawable
INVARIANT PositiveIffValid
CHECK_DEADLOCK FALSE
