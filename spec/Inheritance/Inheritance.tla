---------------------------- MODULE Inheritance ----------------------------
(* C17: the pedigree inheritance model is a proper probability distribution. *)
(*                                                                           *)
(* The model itself (gametes as random subsets of the parent's chromosome    *)
(* copies, double reduction, error / unknown / clonal slots as i.i.d. draws, *)
(* trio = sum over splits and the four correct/error combinations, validity  *)
(* by existence of a drawable split) is in common/PedInheritance.tla,        *)
(* written from first principles and not from mchap/pedigree/prior.py.       *)
(*                                                                           *)
(* State machine: one behaviour per instance = the walk over all unordered   *)
(* progeny genotypes (or gametes) in VCF order accumulating the probability  *)
(* mass, as the observation point of the property enumerates them.  The      *)
(* instance space itself is spanned by cheap NextInst steps from one seed    *)
(* per family shape.                                                         *)
EXTENDS Integers, Sequences, FiniteSets, TLC, Json, PedInheritance

CONSTANTS Shapes,    \* sequence of [kind, K, Pp, Pq, tp, tq]; Pp = 0: unknown parent
          LamVals,   \* sequence of rationals: double-reduction rates tried for tau = 2
          ErrVals,   \* sequence of rationals: parent-error rates tried for known parents
          Freqs      \* function K -> sequence of frequency vectors (sequences of K rationals)

(* ------------------------------------------------------------------------ *)
(* instance space                                                            *)
Zeros(n) == IF n = 0 THEN <<>> ELSE [i \in 1..n |-> 0]
IsLastGenotype(g, K) == \A i \in DOMAIN g : g[i] = K - 1

LamList(sh, side) ==   \* lambda needs a known parent and a diploid gamete
  IF (side = 1 /\ sh.Pp > 0 /\ sh.tp = 2) \/ (side = 2 /\ sh.Pq > 0 /\ sh.tq = 2)
  THEN LamVals ELSE << RZero >>
ErrList(sh, side) ==
  IF sh.kind = "gamete" THEN << RZero >> ELSE
  \* a known parent always has an error rate, also when it contributes a clonal
  \* (tau = 0) gamete: the model ignores it there and so must the implementation
  IF (side = 1 /\ sh.Pp > 0) \/ (side = 2 /\ sh.Pq > 0)
  THEN ErrVals ELSE << ROne >>
(* "full" menu: cross product of the lists; "lite" menu: a fixed list of      *)
(* parameter tuples exercising every branch (used for the largest shapes in   *)
(* the quick tier)                                                           *)
LiteMenu ==   \* <<lp, lq, ep, eq, frequency index>>
  << << <<0, 1>>, <<0, 1>>, <<0, 1>>, <<0, 1>>, 1 >>,
     << <<1, 4>>, <<1, 4>>, <<0, 1>>, <<0, 1>>, 1 >>,
     << <<1, 4>>, <<0, 1>>, <<1, 2>>, <<1, 2>>, 2 >>,
     << <<0, 1>>, <<1, 4>>, <<1, 2>>, <<0, 1>>, 3 >>,
     << <<1, 4>>, <<1, 4>>, <<1, 1>>, <<1, 2>>, 2 >>,
     << <<0, 1>>, <<0, 1>>, <<0, 1>>, <<1, 1>>, 3 >>,
     << <<0, 1>>, <<0, 1>>, <<1, 1>>, <<1, 1>>, 2 >>,
     << <<1, 4>>, <<1, 2>>, <<1, 4>>, <<1, 2>>, 2 >> >>
(* "cyc" menu: cross product of the lambda and error lists, the frequency    *)
(* vector cycling with the combination instead of being crossed as well      *)
MenuSize(sh) == IF sh.menu = "lite" THEN Len(LiteMenu)
                ELSE Len(LamList(sh, 1)) * Len(LamList(sh, 2)) * Len(ErrList(sh, 1))
                     * Len(ErrList(sh, 2)) * (IF sh.menu = "cyc" THEN 1 ELSE Len(Freqs[sh.K]))

Params(inst) ==
  LET sh == Shapes[inst.sh]
      l1 == LamList(sh, 1)   l2 == LamList(sh, 2)
      e1 == ErrList(sh, 1)   e2 == ErrList(sh, 2)
      fs == Freqs[sh.K]
      m0 == inst.m
      m1 == m0 \div Len(l1)
      m2 == m1 \div Len(l2)
      m3 == m2 \div Len(e1)
      m4 == m3 \div Len(e2)
      lt == LiteMenu[m0 + 1]
  IN  IF sh.menu = "lite"
      THEN [K |-> sh.K, Gp |-> inst.Gp, Gq |-> inst.Gq, tp |-> sh.tp, tq |-> sh.tq,
            lp |-> IF Len(l1) > 1 THEN lt[1] ELSE RZero, lq |-> IF Len(l2) > 1 THEN lt[2] ELSE RZero,
            ep |-> IF Len(e1) > 1 THEN lt[3] ELSE ROne,  eq |-> IF Len(e2) > 1 THEN lt[4] ELSE ROne,
            f |-> fs[((lt[5] - 1) % Len(fs)) + 1]]
      ELSE [K |-> sh.K, Gp |-> inst.Gp, Gq |-> inst.Gq, tp |-> sh.tp, tq |-> sh.tq,
            lp |-> l1[(m0 % Len(l1)) + 1], lq |-> l2[(m1 % Len(l2)) + 1],
            ep |-> e1[(m2 % Len(e1)) + 1], eq |-> e2[(m3 % Len(e2)) + 1],
            f |-> IF sh.menu = "cyc"
                  THEN fs[(((m0 % Len(l1)) + (m1 % Len(l2)) + (m2 % Len(e1)) + (m3 % Len(e2))) % Len(fs)) + 1]
                  ELSE fs[(m4 % Len(fs)) + 1]]

VARIABLES inst,    \* [sh, Gp, Gq, m]
          child,   \* current progeny genotype (kind "trio") or gamete (kind "gamete")
          idx,     \* its VCF index; -1 = walk not started
          row,     \* probabilities of the genotypes visited so far
          acc,     \* running sum of row
          acc2     \* kind "gamete": running sum of the i.i.d. (unknown-origin) pmf
vars == <<inst, child, idx, row, acc, acc2>>

Kind == Shapes[inst.sh].kind
WalkPloidy == LET sh == Shapes[inst.sh] IN sh.tp + sh.tq
Total == LET sh == Shapes[inst.sh] IN Choose(sh.K + WalkPloidy - 1, WalkPloidy)

(* value recorded for the walked genotype g                                  *)
Entry(g, P) ==
  IF Kind = "trio" THEN Trio(g, P)
  ELSE GametePmf(g, P.Gp, P.lp, P.K)

Init == /\ \E s \in 1..Len(Shapes) :
              inst = [sh |-> s, Gp |-> Zeros(Shapes[s].Pp), Gq |-> Zeros(Shapes[s].Pq), m |-> 0]
        /\ child = <<>> /\ idx = -1 /\ row = <<>> /\ acc = RZero /\ acc2 = RZero

(* span the instance space (cheap: nothing is evaluated)                      *)
NextInst ==
  /\ idx = -1
  /\ LET sh == Shapes[inst.sh] IN
       \/ /\ inst.Gp # <<>> /\ ~IsLastGenotype(inst.Gp, sh.K)
          /\ inst' = [inst EXCEPT !.Gp = SuccGenotype(inst.Gp)]
       \/ /\ inst.Gq # <<>> /\ ~IsLastGenotype(inst.Gq, sh.K)
          /\ inst' = [inst EXCEPT !.Gq = SuccGenotype(inst.Gq)]
       \/ /\ inst.m + 1 < MenuSize(sh)
          /\ inst' = [inst EXCEPT !.m = inst.m + 1]
  /\ UNCHANGED <<child, idx, row, acc, acc2>>

(* the walk: first genotype, then the successor in VCF order                  *)
Visit(g, i) ==
  LET P == Params(inst)
      v == TLCEval(Entry(g, P))
  IN  /\ child' = g
      /\ idx' = i
      /\ row' = Append(row, v)
      /\ acc' = RAdd(acc, v)
      /\ acc2' = IF Kind = "gamete" THEN RAdd(acc2, IID(g, P.f, P.K)) ELSE acc2
      /\ UNCHANGED inst
Begin == idx = -1 /\ Visit(Zeros(WalkPloidy), 0)
Step  == idx >= 0 /\ idx + 1 < Total /\ Visit(SuccGenotype(child), idx + 1)

Next == NextInst \/ Begin \/ Step
Spec == Init /\ [][Next]_vars

(* ------------------------------------------------------------------------ *)
(* invariants                                                                *)
Last == idx >= 0 /\ idx + 1 = Total
Cur == row[idx + 1]
P0 == Params(inst)

TypeOK == /\ idx \in -1..(Total - 1)
          /\ Len(row) = idx + 1
          /\ idx >= 0 => (IsSorted(child) /\ Len(child) = WalkPloidy)
          /\ \A i \in 1..Len(row) : row[i][2] > 0 /\ row[i][1] >= 0 /\ RLeqOne(row[i])
          /\ RLeqOne(acc)

TrioSumsToOne   == (Kind = "trio" /\ Last) => acc = ROne
GameteSumsToOne == (Kind = "gamete" /\ Last) => acc = ROne
IIDSumsToOne    == (Kind = "gamete" /\ Last) => acc2 = ROne

(* positive exactly on the support of the mixture                            *)
PositiveIffSupported ==
  (Kind = "trio" /\ idx >= 0) => (RPos(Cur) <=> Supported(child, P0))

(* zero parent-error: positive exactly when Mendelian-valid.  For an unknown  *)
(* parent the statement needs every allele to have positive frequency; a      *)
(* double-reduction rate of exactly 1 is outside [0,1).                      *)
ErrorFree(P) == /\ (P.Gp # <<>> /\ P.tp > 0) => RIsZero(P.ep)
                /\ (P.Gq # <<>> /\ P.tq > 0) => RIsZero(P.eq)
                /\ ((P.Gp = <<>> /\ P.tp > 0) \/ (P.Gq = <<>> /\ P.tq > 0))
                      => \A a \in DOMAIN P.f : RPos(P.f[a])
                /\ ~RIsOne(P.lp) /\ ~RIsOne(P.lq)
PositiveIffValid ==
  (Kind = "trio" /\ idx >= 0 /\ ErrorFree(P0)) => (RPos(Cur) <=> Valid(child, P0))

(* both gametes of unknown origin: the progeny is multinomial in f            *)
UnknownParentIsMultinomial ==
  (Kind = "trio" /\ idx >= 0
     /\ SideRandom(P0.Gp, P0.tp, P0.ep) /\ SideRandom(P0.Gq, P0.tq, P0.eq))
  => Cur = IID(child, P0.f, P0.K)

(* the roles of p and q are interchangeable                                  *)
SwapSymmetric == (Kind = "trio" /\ idx >= 0) => Cur = Trio(child, SwapP(P0))

(* gamete walk: the subset-counting definition equals the product of         *)
(* binomials, and the multinomial equals the sum over ordered draws          *)
RECURSIVE ProdChoose(_, _, _)
ProdChoose(cp, cg, a) == IF a < 0 THEN 1 ELSE Choose(cp[a], cg[a]) * ProdChoose(cp, cg, a - 1)
HyperIsProductOfBinomials ==
  (Kind = "gamete" /\ idx >= 0) =>
     LET K == P0.K IN
       /\ HyperNum(child, P0.Gp, K) = ProdChoose(CntOf(P0.Gp, K), CntOf(child, K), K - 1)
       /\ HyperDen(P0.Gp, Len(child)) = Choose(Len(P0.Gp), Len(child))
IIDIsSumOverDraws ==
  (Kind = "gamete" /\ idx >= 0) => IID(child, P0.f, P0.K) = IIDSeqs(child, P0.f, P0.K)

(* ------------------------------------------------------------------------ *)
(* mutant definitions (Mutant_*.cfg substitute them; TLC must report the     *)
(* named invariant violated)                                                 *)
MutErrWeight(e) == RZero                 \* error branch of the mixture lost
MutDrawable(g, Gpar, lam, K) ==          \* validity not widened for double reduction
  \/ Gpar = <<>> \/ Len(g) = 0
  \/ HyperNum(g, Gpar, K) > 0
MutHyperDen(Gpar, tau) == Choose(Len(Gpar) + tau - 1, tau)    \* with replacement

(* ------------------------------------------------------------------------ *)
(* one record per finished walk: the instance and the model's whole row      *)
Dump ==
  IF ~Last THEN TRUE
  ELSE LET P == P0
           sh == Shapes[inst.sh]
           ord == VcfOrder(sh.K, WalkPloidy)
       IN  PrintT(<<"@@J", ToJson(
             [kind |-> sh.kind, K |-> sh.K, Gp |-> P.Gp, Gq |-> P.Gq, tp |-> sh.tp, tq |-> sh.tq,
              lp |-> P.lp, lq |-> P.lq, ep |-> P.ep, eq |-> P.eq, f |-> P.f,
              row |-> row,
              valid |-> IF sh.kind = "trio" THEN [i \in 1..Len(ord) |-> Valid(ord[i], P)] ELSE <<>>,
              duop |-> IF sh.kind = "trio" /\ P.Gp # <<>>
                       THEN [i \in 1..Len(ord) |-> DuoValid(ord[i], P.Gp, sh.tp, P.lp, sh.K)] ELSE <<>>,
              duoq |-> IF sh.kind = "trio" /\ P.Gq # <<>>
                       THEN [i \in 1..Len(ord) |-> DuoValid(ord[i], P.Gq, sh.tq, P.lq, sh.K)] ELSE <<>>,
              iid |-> IF sh.kind = "gamete" THEN [i \in 1..Len(ord) |-> IID(ord[i], P.f, sh.K)] ELSE <<>>
             ])>>)

(* ------------------------------------------------------------------------ *)
(* configurations                                                            *)
T(K, Pp, Pq, tp, tq) == [kind |-> "trio", K |-> K, Pp |-> Pp, Pq |-> Pq, tp |-> tp, tq |-> tq, menu |-> "full"]
TC(K, Pp, Pq, tp, tq) == [kind |-> "trio", K |-> K, Pp |-> Pp, Pq |-> Pq, tp |-> tp, tq |-> tq, menu |-> "cyc"]
TL(K, Pp, Pq, tp, tq) == [kind |-> "trio", K |-> K, Pp |-> Pp, Pq |-> Pq, tp |-> tp, tq |-> tq, menu |-> "lite"]
Gm(K, Pp, tp) == [kind |-> "gamete", K |-> K, Pp |-> Pp, Pq |-> 0, tp |-> tp, tq |-> 0, menu |-> "full"]

ShapesCommon ==
  << T(3, 2, 2, 1, 1),     \* diploid trio
     T(3, 4, 2, 2, 1),     \* mixed ploidy 4x x 2x -> 3x, unbalanced tau
     T(3, 2, 2, 2, 2),     \* unreduced gametes 2x x 2x -> 4x
     T(3, 0, 4, 2, 2),     \* duo: unknown p
     T(3, 4, 0, 2, 2),     \* duo: unknown q
     T(3, 0, 2, 1, 1),
     T(3, 0, 0, 1, 1),     \* founders
     T(3, 0, 0, 2, 2),
     T(3, 2, 2, 2, 0),     \* clone of p
     T(3, 2, 2, 0, 2),
     Gm(3, 2, 1), Gm(3, 4, 2), Gm(3, 4, 1), Gm(3, 4, 3), Gm(3, 2, 2), Gm(3, 4, 4) >>
ShapesQuick ==
  ShapesCommon \o
  << TL(3, 4, 4, 2, 2),    \* tetraploid trio (lambda on both sides)
     TL(3, 2, 4, 1, 2),
     TL(3, 4, 4, 0, 4) >>  \* clone of q
ShapesThorough ==
  ShapesCommon \o
  << TC(3, 4, 4, 2, 2),
     TC(3, 2, 4, 1, 2),
     TC(3, 4, 4, 0, 4),
     T(2, 6, 6, 3, 3),     \* hexaploid trio
     T(2, 6, 4, 3, 2),
     T(2, 4, 6, 2, 3),
     TC(3, 4, 4, 1, 3),    \* strongly unbalanced tetraploid
     T(2, 6, 2, 3, 1),
     T(2, 0, 6, 3, 3),
     T(4, 2, 2, 1, 1),     \* four alleles
     TL(4, 4, 2, 2, 1),
     Gm(2, 6, 3), Gm(2, 6, 2), Gm(3, 6, 3), Gm(4, 4, 2), Gm(2, 6, 6) >>
ShapesMutant == << TL(3, 4, 4, 2, 2), TL(3, 0, 4, 2, 2), Gm(3, 4, 2) >>

LamQuick == << <<0, 1>>, <<1, 4>> >>
LamThorough == << <<0, 1>>, <<1, 4>>, <<1, 1>> >>
ErrQuick == << <<0, 1>>, <<1, 2>>, <<1, 1>> >>
ErrThorough == << <<0, 1>>, <<1, 4>>, <<1, 2>>, <<1, 1>> >>
FreqsAll ==
  [K \in 2..4 |->
     IF K = 2 THEN << << <<1, 2>>, <<1, 2>> >>, << <<3, 4>>, <<1, 4>> >>, << <<1, 1>>, <<0, 1>> >> >>
     ELSE IF K = 3 THEN << << <<1, 3>>, <<1, 3>>, <<1, 3>> >>,
                           << <<1, 2>>, <<1, 4>>, <<1, 4>> >>,
                           << <<1, 2>>, <<1, 2>>, <<0, 1>> >> >>
     ELSE << << <<1, 4>>, <<1, 4>>, <<1, 4>>, <<1, 4>> >>,
             << <<1, 2>>, <<1, 4>>, <<1, 4>>, <<0, 1>> >> >>]
=============================================================================
