SPECIFICATION Spec
CONSTANT Shapes <- ShapesMutant
CONSTANT LamVals <- LamQuick
CONSTANT ErrVals <- ErrQuick
CONSTANT Freqs <- FreqsAll
CONSTANT ErrWeight <- MutErrWeight
INVARIANT TrioSumsToOne
CHECK_DEADLOCK FALSE
