SPECIFICATION Spec
CONSTANT Shapes <- ShapesThorough
CONSTANT LamVals <- LamThorough
CONSTANT ErrVals <- ErrThorough
CONSTANT Freqs <- FreqsAll
INVARIANT TypeOK
INVARIANT TrioSumsToOne
INVARIANT GameteSumsToOne
INVARIANT IIDSumsToOne
INVARIANT PositiveIffSupported
INVARIANT PositiveIffValid
INVARIANT UnknownParentIsMultinomial
INVARIANT SwapSymmetric
INVARIANT HyperIsProductOfBinomials
INVARIANT IIDIsSumOverDraws
CONSTRAINT Dump
CHECK_DEADLOCK FALSE
