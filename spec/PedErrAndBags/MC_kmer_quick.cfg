SPECIFICATION Spec
CONSTANT NB = 3
CONSTANT NA = 2
CONSTANT MaxReads = 2
CONSTANT MaxHaps = 2
CONSTANT KMax = 4
CONSTANT Canonical = TRUE
INVARIANT KmersWellFormed
INVARIANT CountsSum
INVARIANT FrequencyPerWindow
INVARIANT CoverageBounds
INVARIANT RepresentationLinksCoverage
INVARIANT MinCovOneIffFullyRepresented
INVARIANT ReadsFromGenotypeAreCovered
INVARIANT AssignmentGuarantees
INVARIANT KOneIsAlleleMatching
CONSTRAINT Dump
CHECK_DEADLOCK FALSE
