SPECIFICATION Spec
CONSTANT U = 2
CONSTANT Lx = 3
CONSTANT Ly = 3
CONSTANT Lz = 1
CONSTANT Sub <- MutSub
INVARIANT TypeOK
CHECK_DEADLOCK FALSE
