------------------------------ MODULE TraceKmer ------------------------------
(* code -> spec for X03 (3): results of the k-mer / read statistics functions  *)
(* recorded (a) on the read-call matrices and called genotypes that the real   *)
(* programs build from the repository's BAM files and (b) on seeded random     *)
(* matrices, recomputed with the definitions of KmerStats.tla.                 *)
(* Floats arrive as round(value * 10^6); nan as -1.  One verdict per event.    *)
EXTENDS Integers, Sequences, FiniteSets, TLC, Json, IOUtils

Trace == JsonDeserialize(IOEnv.TRACE_FILE)

K(nb, na, rd, hp) == INSTANCE KmerStats WITH NB <- nb, NA <- na, MaxReads <- 0, MaxHaps <- 0, KMax <- 3,
                                             Canonical <- TRUE, reads <- rd, haps <- hp

VARIABLES l, nbad
vars == <<l, nbad>>

(* |m / 10^6 - num / den| <= 10^-6                                             *)
Close(m, q) == LET d == m * q[2] - 1000000 * q[1] IN d <= q[2] /\ -d <= q[2]

RowsOK(e) == /\ \A i \in 1..Len(e.reads) : Len(e.reads[i]) = e.nb /\ \A j \in 1..e.nb : e.reads[i][j] \in -1..(e.na - 1)
             /\ \A i \in 1..Len(e.haps) : Len(e.haps[i]) = e.nb /\ \A j \in 1..e.nb : e.haps[i][j] \in 0..(e.na - 1)

KmerVerdict(e) ==
  LET k == e.k
      S == K(e.nb, e.na, e.reads, e.haps)!KmerSet(e.reads, k)
      nW == IF k > e.nb THEN 0 ELSE e.nb - k + 1
  IN  IF ~RowsOK(e) THEN "RowShape"
      ELSE IF \/ Len(e.iter) # Cardinality(K(e.nb, e.na, e.reads, e.haps)!KmerSites(e.reads, k))
              \/ \E v \in S : Cardinality({x \in 1..Len(e.iter) : e.iter[x] = v}) # K(e.nb, e.na, e.reads, e.haps)!KmerCount(e.reads, k, v)
           THEN "IterKmersBag"
      ELSE IF \/ Len(e.counts) # Cardinality(S)
              \/ \E x \in 1..Len(e.counts) : e.counts[x][1] \notin S \/ e.counts[x][2] # K(e.nb, e.na, e.reads, e.haps)!KmerCount(e.reads, k, e.counts[x][1])
              \/ \E x, y \in 1..Len(e.counts) : x # y /\ e.counts[x][1] = e.counts[y][1]
           THEN "KmerCounts"
      ELSE IF \E x \in 1..Len(e.positions) :
                 LET v == e.positions[x][1] IN
                 \/ e.positions[x][2] # K(e.nb, e.na, e.reads, e.haps)!StartOf(v) - 1 \/ e.positions[x][3] # K(e.nb, e.na, e.reads, e.haps)!StopOf(v) - 1
                 \/ e.positions[x][4] # [j \in 1..k |-> K(e.nb, e.na, e.reads, e.haps)!StartOf(v) - 1 + j - 1]
           THEN "KmerPositions"
      ELSE IF e.freq_error # "" THEN "KmerFrequencyRaised"
      ELSE IF \/ Len(e.freq) # Len(e.counts)
              \/ \E x \in 1..Len(e.freq) : ~Close(e.freq[x][2], K(e.nb, e.na, e.reads, e.haps)!FreqOf(e.reads, k, e.freq[x][1]))
           THEN "KmerFrequency"
      ELSE IF e.rep # <<>> /\ (\/ Len(e.rep) # e.nb
                               \/ \E j \in 1..e.nb : K(e.nb, e.na, e.reads, e.haps)!RepAt(k, j)[2] > 0 /\ ~Close(e.rep[j], K(e.nb, e.na, e.reads, e.haps)!RepAt(k, j)))
           THEN "Representation"
      ELSE IF \/ Len(e.cov) # nW
              \/ \E w \in 1..nW : e.cov[w] # K(e.nb, e.na, e.reads, e.haps)!CovAt(k, w)
           THEN "Coverage"
      ELSE IF (e.mincov = -1) # (K(e.nb, e.na, e.reads, e.haps)!MinCov(k)[2] = 0) THEN "MinCoverageNan"
      ELSE IF e.mincov # -1 /\ ~Close(e.mincov, K(e.nb, e.na, e.reads, e.haps)!MinCov(k)) THEN "MinCoverage"
      ELSE "ok"

MecVerdict(e) ==
  LET n == Len(e.reads)
  IN  IF ~RowsOK(e) \/ e.haps = <<>> THEN "RowShape"
      ELSE IF Len(e.mec) # n \/ \E i \in 1..n : e.mec[i] # K(e.nb, e.na, e.reads, e.haps)!Mec(e.reads[i]) THEN "Mec"
      ELSE IF \/ Len(e.assign) # n
              \/ \E i \in 1..n : \/ Len(e.assign[i]) # Len(e.haps)
                                 \/ \E h \in 1..Len(e.haps) : ~Close(e.assign[i][h], K(e.nb, e.na, e.reads, e.haps)!Assign(e.reads[i])[h])
           THEN "Assignment"
      ELSE IF Len(e.depth) # e.nb \/ \E j \in 1..e.nb : e.depth[j] # K(e.nb, e.na, e.reads, e.haps)!DepthAt(e.reads, j) THEN "Depth"
      ELSE "ok"

Verdict(e) ==
  CASE e.op = "kmer" -> KmerVerdict(e)
    [] e.op = "mec" -> MecVerdict(e)
    [] OTHER -> "UnknownEvent"

(* (constant level: the parameters of the instantiated module must not depend on a variable) *)
Verdicts == [i \in 1..Len(Trace) |-> Verdict(Trace[i])]

Init == l = 1 /\ nbad = 0
Next == /\ l <= Len(Trace)
        /\ LET v == Verdicts[l]
           IN  /\ IF v = "ok" THEN TRUE ELSE PrintT(<<"@@J", ToJson([reject |-> l, clause |-> v])>>)
               /\ nbad' = IF v = "ok" THEN nbad ELSE nbad + 1
        /\ l' = l + 1
Spec == Init /\ [][Next]_vars
Consumed == (l = Len(Trace) + 1) => PrintT(<<"@@J", ToJson([consumed |-> l - 1, rejected |-> nbad])>>)
=============================================================================
