SPECIFICATION Spec
CONSTANT NB = 3
CONSTANT NA = 2
CONSTANT MaxReads = 1
CONSTANT MaxHaps = 1
CONSTANT KMax = 3
CONSTANT Canonical = TRUE
CONSTANT InGenotype <- MutInGenotype
INVARIANT RepresentationLinksCoverage
CHECK_DEADLOCK FALSE
