SPECIFICATION Spec
CONSTANT Peds <- PedsMutant
CONSTANT Layouts <- LayoutsMutant
CONSTANT Drawable <- MutDrawable
INVARIANT ValidIsGenerable
CHECK_DEADLOCK FALSE
