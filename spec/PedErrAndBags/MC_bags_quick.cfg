SPECIFICATION Spec
CONSTANT U = 3
CONSTANT Lx = 4
CONSTANT Ly = 4
CONSTANT Lz = 1
INVARIANT TypeOK
INVARIANT Commutative
INVARIANT Associative
INVARIANT Distributive
INVARIANT IdempotentAbsorbing
INVARIANT InclusionExclusion
INVARIANT SubtractLaws
INVARIANT Bounds
INVARIANT OrderRelations
INVARIANT RowOrderIrrelevant
INVARIANT UniqueGuarantees
INVARIANT CountGuarantees
INVARIANT CategorizeGuarantees
CONSTRAINT Dump
CHECK_DEADLOCK FALSE
