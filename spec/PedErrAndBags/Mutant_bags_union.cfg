SPECIFICATION Spec
CONSTANT U = 2
CONSTANT Lx = 3
CONSTANT Ly = 3
CONSTANT Lz = 1
CONSTANT Uni <- MutUni
INVARIANT IdempotentAbsorbing
CHECK_DEADLOCK FALSE
