SPECIFICATION Spec
CONSTANT Peds <- PedsMutant
CONSTANT Layouts <- LayoutsMutant
CONSTANT DuoSide <- MutDuoSide
INVARIANT DuoIsTrioWithFreeGamete
CHECK_DEADLOCK FALSE
