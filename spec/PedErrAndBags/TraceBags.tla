------------------------------ MODULE TraceBags ------------------------------
(* code -> spec for X03 (2): calls of the functions of mchap/mset.py recorded  *)
(* (a) on seeded random arrays and (b) while the real programs run on the      *)
(* repository's test data (the functions are wrapped in-process).  Rows are    *)
(* named 1..U in order of first appearance over inputs and result; a result    *)
(* row that is no input row therefore shows up as a count mismatch.            *)
(* One verdict per recorded call.                                              *)
EXTENDS Integers, Sequences, FiniteSets, TLC, Json, IOUtils, BagDefs

Trace == JsonDeserialize(IOEnv.TRACE_FILE)

VARIABLES l, nbad
vars == <<l, nbad>>

Bools(s) == [i \in DOMAIN s |-> s[i] = 1]

Verdict(e) ==
  LET U == e.U
      A == BagOf(e.x, U)
      B == BagOf(e.y, U)
      R == BagOf(e.res, U)
  IN
  CASE e.op = "add"       -> IF R = BAdd(A, B) THEN "ok" ELSE "Add"
    [] e.op = "subtract"  -> IF R = BSub(A, B) THEN "ok" ELSE "Subtract"
    [] e.op = "intercept" -> IF R = BInt(A, B) THEN "ok" ELSE "Intercept"
    [] e.op = "union"     -> IF R = BUni(A, B) THEN "ok" ELSE "Union"
    [] e.op = "equal"     -> IF e.resb = (A = B) THEN "ok" ELSE "Equal"
    [] e.op = "contains"  -> IF e.resb = BContains(A, B) THEN "ok" ELSE "Contains"
    [] e.op = "within"    -> IF e.resb = BWithin(A, B) THEN "ok" ELSE "Within"
    [] e.op = "unique_idx" -> IF Bools(e.resi) = UniqueIdx(e.x) THEN "ok" ELSE "UniqueIdxFirstOccurrence"
    [] e.op = "unique"    -> IF NoDup(e.res) /\ {e.res[j] : j \in DOMAIN e.res} = {e.x[i] : i \in DOMAIN e.x}
                             THEN "ok" ELSE "UniqueSet"
    [] e.op = "unique_counts" ->
         IF ~DescribesCounts(e.res, e.resi, e.x, U) THEN "UniqueCounts"
         ELSE IF e.order = "ascending" /\ ~IsSortedAsc(e.resi) THEN "UniqueCountsAscending"
         ELSE IF e.order = "descending" /\ ~IsSortedDesc(e.resi) THEN "UniqueCountsDescending"
         ELSE "ok"
    [] e.op = "categorize" ->
         IF e.resi = Categorize(e.x, e.y) THEN "ok"
         ELSE IF e.resi = CategorizeLast(e.x, e.y) THEN "CategorizeFirstOccurrence(last-occurrence-returned)"
         ELSE "Categorize"
    [] e.op = "count"     -> IF e.resi = Count(e.x, e.y) THEN "ok" ELSE "Count"
    [] e.op = "repeat"    -> IF Len(e.cnt) = Len(e.x) /\ R = BagOf(Repeat(e.x, e.cnt), U) THEN "ok" ELSE "Repeat"
    [] e.op = "raised"    -> "Raised"            \* the function raised an exception on a valid input
    [] OTHER -> "UnknownEvent"

Init == l = 1 /\ nbad = 0
Next == /\ l <= Len(Trace)
        /\ LET v == Verdict(Trace[l])
           IN  /\ IF v = "ok" THEN TRUE ELSE PrintT(<<"@@J", ToJson([reject |-> l, clause |-> v])>>)
               /\ nbad' = IF v = "ok" THEN nbad ELSE nbad + 1
        /\ l' = l + 1
Spec == Init /\ [][Next]_vars
Consumed == (l = Len(Trace) + 1) => PrintT(<<"@@J", ToJson([consumed |-> l - 1, rejected |-> nbad])>>)
=============================================================================
