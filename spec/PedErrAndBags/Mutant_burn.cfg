SPECIFICATION Spec
CONSTANT Peds <- PedsMutant
CONSTANT Layouts <- LayoutsMutant
CONSTANT Retained <- MutRetained
INVARIANT CountIsDefinition
CHECK_DEADLOCK FALSE
