---------------------------- MODULE TracePedErr ----------------------------
(* code -> spec for X03 (1).  Two kinds of recorded events:                   *)
(*                                                                           *)
(*  "run"   one (program run, locus) of the real `mchap call-pedigree`: the   *)
(*          pedigree as written in the input files (--sample-parents,         *)
(*          --ploidy, --gamete-ploidy, --gamete-ibd), the trace returned by   *)
(*          the sampler (all chains, before burn-in, rows as stored: alleles  *)
(*          unsorted, padded with -1), the burn-in, and the PEDERR text of    *)
(*          every sample in 1/1000.  The statistic is recomputed from the     *)
(*          trace with the first-principles validity of PedInheritance.tla.   *)
(*  "calls" one call of PedigreeAllelesMultiTrace.incongruence() executed     *)
(*          interpreted with recorders on the validity tests: the retained    *)
(*          steps, every internal trio_valid / duo_valid call (arguments and  *)
(*          result) and the returned vector in 1/10^6.                        *)
(* Every event gets a verdict naming the failing clause.                      *)
EXTENDS Integers, Sequences, FiniteSets, TLC, Json, IOUtils, PedInheritance

Trace == JsonDeserialize(IOEnv.TRACE_FILE)

VARIABLES l, nbad
vars == <<l, nbad>>

LamOf(c) == IF c = 0 THEN <<0, 1>> ELSE <<1, 2>>     \* only "zero" / "strictly between 0 and 1" matters

Row(e, step, i) == SubSeq(step[i], 1, e.pl[i])
RowOK(e, step, i) ==
  /\ Len(step[i]) >= e.pl[i]
  /\ \A j \in 1..Len(step[i]) :
       IF j <= e.pl[i] THEN step[i][j] \in 0..(e.K - 1) ELSE step[i][j] = -1

(* validity of individual i in one stored step                                *)
ValidIn(e, step, i) ==
  LET p == e.par[i][1]
      q == e.par[i][2]
      G == Row(e, step, i)
  IN  IF p = 0 /\ q = 0 THEN TRUE
      ELSE IF p # 0 /\ q # 0
           THEN Valid(G, [K |-> e.K, Gp |-> Row(e, step, p), Gq |-> Row(e, step, q),
                          tp |-> e.tau[i][1], tq |-> e.tau[i][2],
                          lp |-> LamOf(e.lamc[i][1]), lq |-> LamOf(e.lamc[i][2])])
           ELSE LET k == IF p # 0 THEN 1 ELSE 2
                IN  DuoValid(G, Row(e, step, e.par[i][k]), e.tau[i][k], LamOf(e.lamc[i][k]), e.K)

(* ---- "run" ---------------------------------------------------------------- *)
RetainedIdx(e) == {x \in 1..Len(e.tr) : ((x - 1) % e.s) + 1 > e.b}
RunVerdict(e) ==
  LET N == Len(e.pl)
      R == RetainedIdx(e)
      nr == Cardinality(R)
  IN  IF Len(e.tr) # e.s * e.c THEN "TraceShape"
      ELSE IF Len(e.printed) # N THEN "SampleCount"
      ELSE IF \E x \in 1..Len(e.tr) : \E i \in 1..N : ~RowOK(e, e.tr[x], i) THEN "RowShape"
      ELSE IF nr = 0 THEN "NothingRetained"
      ELSE LET bad == [i \in 1..N |-> Cardinality({x \in R : ~ValidIn(e, e.tr[x], i)})]
               (* 3-decimal text m/1000 of bad/nr: |m * nr - 1000 * bad| <= nr / 2 *)
               close(i) == LET d == e.printed[i] * nr - 1000 * bad[i]
                           IN  2 * d <= nr /\ -2 * d <= nr
           IN  IF \E i \in 1..N : e.printed[i] < 0 THEN "PedErrMissing"
               ELSE IF \E i \in 1..N : e.par[i] = <<0, 0>> /\ e.printed[i] # 0 THEN "FounderZero"
               ELSE IF \E i \in 1..N : ~close(i) THEN "PedErrValue"
               ELSE "ok"

(* ---- "calls" -------------------------------------------------------------- *)
NonFounders(e) == {i \in 1..Len(e.pl) : e.par[i] # <<0, 0>>}
RECURSIVE SortedSeqOf(_)
SortedSeqOf(S) == IF S = {} THEN <<>>
                  ELSE LET m == CHOOSE x \in S : \A y \in S : x <= y IN <<m>> \o SortedSeqOf(S \ {m})
SameBag(a, b, K) == Len(a) = Len(b) /\ CntOf(a, K) = CntOf(b, K)
(* expected arguments of the call made for (step x, individual i)              *)
CallOK(e, cl, x, i) ==
  LET step == e.tr[x]
      p == e.par[i][1]
      q == e.par[i][2]
  IN  /\ cl.g = Row(e, step, i)
      /\ IF p # 0 /\ q # 0
         THEN /\ cl.kind = "trio"
              /\ cl.gp = Row(e, step, p) /\ cl.gq = Row(e, step, q)
              /\ cl.tp = e.tau[i][1] /\ cl.tq = e.tau[i][2]
              /\ cl.lp = e.lamc[i][1] /\ cl.lq = e.lamc[i][2]
         ELSE LET k == IF p # 0 THEN 1 ELSE 2
              IN  /\ cl.kind = "duo"
                  /\ cl.gp = Row(e, step, e.par[i][k])
                  /\ cl.tp = e.tau[i][k]
                  /\ cl.lp = e.lamc[i][k]
CallsVerdict(e) ==
  LET N == Len(e.pl)
      nf == SortedSeqOf(NonFounders(e))
      m == Len(nf)
      n == Len(e.tr)
  IN  IF n = 0 THEN "NothingRetained"
      ELSE IF \E x \in 1..n : \E i \in 1..N : ~RowOK(e, e.tr[x], i) THEN "RowShape"
      ELSE IF Len(e.calls) # n * m THEN "CallCount"
      ELSE IF \E j \in 1..Len(e.calls) :
                 ~CallOK(e, e.calls[j], ((j - 1) \div m) + 1, nf[((j - 1) % m) + 1]) THEN "CallArgs"
      ELSE IF \E j \in 1..Len(e.calls) :
                 e.calls[j].res # ValidIn(e, e.tr[((j - 1) \div m) + 1], nf[((j - 1) % m) + 1]) THEN "CallResult"
      ELSE IF Len(e.out) # N THEN "OutShape"
      ELSE LET bad == [i \in 1..N |-> Cardinality({x \in 1..n : ~ValidIn(e, e.tr[x], i)})]
               close(i) == LET d == e.out[i] * n - 1000000 * bad[i] IN d <= n /\ -d <= n
           IN  IF \E i \in 1..N : ~close(i) THEN "OutValue" ELSE "ok"

Verdict(e) ==
  CASE e.op = "run" -> RunVerdict(e)
    [] e.op = "calls" -> CallsVerdict(e)
    [] OTHER -> "UnknownEvent"

Init == l = 1 /\ nbad = 0
Next == /\ l <= Len(Trace)
        /\ LET v == Verdict(Trace[l])
           IN  /\ IF v = "ok" THEN TRUE ELSE PrintT(<<"@@J", ToJson([reject |-> l, clause |-> v])>>)
               /\ nbad' = IF v = "ok" THEN nbad ELSE nbad + 1
        /\ l' = l + 1
Spec == Init /\ [][Next]_vars
Consumed == (l = Len(Trace) + 1) => PrintT(<<"@@J", ToJson([consumed |-> l - 1, rejected |-> nbad])>>)
=============================================================================
