SPECIFICATION Spec
CONSTANT Peds <- PedsThorough
CONSTANT Layouts <- LayoutsThorough
INVARIANT TypeOK
INVARIANT CountIsDefinition
INVARIANT FoundersNeverErr
INVARIANT ValidIsGenerable
INVARIANT DuoIsTrioWithFreeGamete
INVARIANT TrioImpliesDuos
INVARIANT AlleleNamesIrrelevant
INVARIANT ParentOrderIrrelevant
CONSTRAINT Dump
CHECK_DEADLOCK FALSE
