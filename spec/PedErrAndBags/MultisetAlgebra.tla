--------------------------- MODULE MultisetAlgebra ---------------------------
(* X03 (2): the multiset functions of mchap/mset.py.                          *)
(*                                                                           *)
(* State machine: three arrays xs, ys, zs grow by one row per action (rows    *)
(* are element names 1..U; the binding renders them as integer scalars, rows  *)
(* or sub-arrays).  Every row order of every multiset up to the length bounds *)
(* is therefore a state of its own, and the multiset results must not depend  *)
(* on it.  Invariants: the algebraic laws of add / subtract / intercept /     *)
(* union / equal / contains / within on the bags of the arrays, and the       *)
(* documented guarantees of the array-level functions.                        *)
EXTENDS Integers, Sequences, FiniteSets, TLC, Json, BagDefs

CONSTANTS U, Lx, Ly, Lz

VARIABLES xs, ys, zs
vars == <<xs, ys, zs>>

Init == xs = <<>> /\ ys = <<>> /\ zs = <<>>
AppendX == /\ ys = <<>> /\ zs = <<>> /\ Len(xs) < Lx /\ \E e \in 1..U : xs' = Append(xs, e) /\ UNCHANGED <<ys, zs>>
AppendY == /\ zs = <<>> /\ Len(ys) < Ly /\ \E e \in 1..U : ys' = Append(ys, e) /\ UNCHANGED <<xs, zs>>
AppendZ == /\ Len(zs) < Lz /\ \E e \in 1..U : zs' = Append(zs, e) /\ UNCHANGED <<xs, ys>>
(* xs is completed first, then ys, then zs: every state has exactly one history *)
Next == AppendX \/ AppendY \/ AppendZ
Spec == Init /\ [][Next]_vars

A == BagOf(xs, U)
B == BagOf(ys, U)
C == BagOf(zs, U)

(* the operations under test (mutant configurations override one of them)     *)
Add(a, b) == BAdd(a, b)
Sub(a, b) == BSub(a, b)
Isect(a, b) == BInt(a, b)
Uni(a, b) == BUni(a, b)

TypeOK == /\ \A e \in 1..U : A[e] \in 0..Lx /\ B[e] \in 0..Ly /\ C[e] \in 0..Lz
          /\ \A e \in 1..U : Sub(A, B)[e] >= 0 /\ Sub(B, A)[e] >= 0

Commutative == /\ Add(A, B) = Add(B, A)
               /\ Uni(A, B) = Uni(B, A)
               /\ Isect(A, B) = Isect(B, A)
Associative == /\ Add(Add(A, B), C) = Add(A, Add(B, C))
               /\ Uni(Uni(A, B), C) = Uni(A, Uni(B, C))
               /\ Isect(Isect(A, B), C) = Isect(A, Isect(B, C))
Distributive == /\ Isect(A, Uni(B, C)) = Uni(Isect(A, B), Isect(A, C))
                /\ Uni(A, Isect(B, C)) = Isect(Uni(A, B), Uni(A, C))
                /\ Add(A, Uni(B, C)) = Uni(Add(A, B), Add(A, C))
                /\ Add(A, Isect(B, C)) = Isect(Add(A, B), Add(A, C))
IdempotentAbsorbing == /\ Uni(A, A) = A /\ Isect(A, A) = A
                       /\ Uni(A, Isect(A, B)) = A /\ Isect(A, Uni(A, B)) = A
                       /\ Add(A, BEmpty(U)) = A /\ Uni(A, BEmpty(U)) = A
                       /\ Isect(A, BEmpty(U)) = BEmpty(U) /\ Sub(A, BEmpty(U)) = A /\ Sub(A, A) = BEmpty(U)
InclusionExclusion == Add(Uni(A, B), Isect(A, B)) = Add(A, B)
SubtractLaws == /\ Sub(Add(A, B), B) = A                 \* add / subtract inverse
                /\ Add(Sub(A, B), Isect(A, B)) = A
                /\ Sub(A, B) = Sub(A, Isect(A, B))
                /\ Add(Sub(A, B), B) = Uni(A, B)
                /\ Sub(Sub(A, B), C) = Sub(A, Add(B, C))
Bounds == /\ BWithin(Isect(A, B), A) /\ BWithin(A, Uni(A, B)) /\ BWithin(Uni(A, B), Add(A, B))
          /\ BSize(Add(A, B)) = BSize(A) + BSize(B)
          /\ BSize(Isect(A, B)) <= Min2(BSize(A), BSize(B))
          /\ BSize(Uni(A, B)) >= Max2(BSize(A), BSize(B))
          /\ BSize(A) = Len(xs)
OrderRelations == /\ BContains(A, B) <=> BWithin(B, A)
                  /\ BContains(A, B) <=> (Sub(B, A) = BEmpty(U))
                  /\ BContains(A, B) <=> (Isect(A, B) = B)
                  /\ BContains(A, B) <=> (Uni(A, B) = A)
                  /\ (A = B) <=> (BContains(A, B) /\ BWithin(A, B))
RowOrderIrrelevant ==    \* the bag of an array does not change when its last row is moved to the front
  xs # <<>> => BagOf(<<xs[Len(xs)]>> \o SubSeq(xs, 1, Len(xs) - 1), U) = A

(* array-level functions                                                      *)
UniqueGuarantees ==
  LET u == Unique(xs) IN
  /\ NoDup(u)
  /\ {u[j] : j \in DOMAIN u} = {xs[i] : i \in DOMAIN xs}
  /\ Cardinality({i \in DOMAIN xs : UniqueIdx(xs)[i]}) = Len(u)
  /\ \A i \in DOMAIN xs : UniqueIdx(xs)[i] <=> (\A j \in 1..(i - 1) : xs[j] # xs[i])
  /\ \A a, b \in DOMAIN u : a < b =>      \* order of first occurrence
        (CHOOSE i \in DOMAIN xs : xs[i] = u[a] /\ UniqueIdx(xs)[i]) < (CHOOSE i \in DOMAIN xs : xs[i] = u[b] /\ UniqueIdx(xs)[i])
CountGuarantees ==
  /\ \A j \in DOMAIN ys : Count(xs, ys)[j] = A[ys[j]]
  /\ SumTo(Count(xs, Unique(xs)), Len(Unique(xs))) = Len(xs)
  /\ DescribesCounts(Unique(xs), Count(xs, Unique(xs)), xs, U)
  /\ BagOf(Repeat(Unique(xs), Count(xs, Unique(xs))), U) = A
  /\ (A = B) <=> (Count(xs, Unique(xs \o ys)) = Count(ys, Unique(xs \o ys)))
CategorizeGuarantees ==
  LET lab == Categorize(xs, ys) IN
  /\ \A i \in DOMAIN xs :
       IF lab[i] = -1 THEN \A j \in DOMAIN ys : ys[j] # xs[i]
       ELSE ys[lab[i] + 1] = xs[i] /\ \A j \in 1..lab[i] : ys[j] # xs[i]
  /\ LET l2 == Categorize(xs, Unique(xs)) IN \A i \in DOMAIN xs : Unique(xs)[l2[i] + 1] = xs[i]
  /\ NoDup(ys) => Categorize(xs, ys) = CategorizeLast(xs, ys)

(* ---- mutant definitions ---------------------------------------------------- *)
MutUni(a, b) == BAdd(a, b)                                     \* union confused with the disjoint union
MutSub(a, b) == [e \in DOMAIN a |-> a[e] - b[e]]               \* subtraction not truncated at zero
MutInt(a, b) == [e \in DOMAIN a |-> IF b[e] > 0 THEN a[e] ELSE 0]   \* set-style membership filter

(* ---- one record per state ---------------------------------------------------- *)
Fn2Seq(f) == [e \in 1..U |-> f[e]]
Dump ==
  PrintT(<<"@@J", ToJson(
    IF zs = <<>>
    THEN [x |-> xs, y |-> ys, z |-> zs,
          add |-> Fn2Seq(Add(A, B)), sub |-> Fn2Seq(Sub(A, B)), int |-> Fn2Seq(Isect(A, B)), uni |-> Fn2Seq(Uni(A, B)),
          eq |-> (A = B), contains |-> BContains(A, B), within |-> BWithin(A, B),
          uidx |-> UniqueIdx(xs), uniq |-> Unique(xs), ucnt |-> Count(xs, Unique(xs)),
          cat |-> Categorize(xs, ys), catlast |-> CategorizeLast(xs, ys), cnt |-> Count(xs, ys)]
    ELSE [x |-> xs, y |-> ys, z |-> zs,
          add3 |-> Fn2Seq(Add(Add(A, B), C)), int3 |-> Fn2Seq(Isect(Isect(A, B), C)), uni3 |-> Fn2Seq(Uni(Uni(A, B), C)),
          sub3 |-> Fn2Seq(Sub(Sub(A, B), C))])>>)
=============================================================================
