------------------------------ MODULE KmerStats ------------------------------
(* X03 (3): k-mer statistics of integer encoded read calls                    *)
(* (mchap/encoding/integer/kmer.py and stats.py), from the docstrings:         *)
(*  - a k-mer of a read is a window of k consecutive positions none of which   *)
(*    is a gap (-1); it is written as a vector of the read's length, "padded   *)
(*    with gap values to maintain the same allele positions as the source";    *)
(*  - kmer_counts: the distinct k-mer vectors with their number of occurrences;*)
(*  - kmer_positions: the positions of the bases of each k-mer (or only the    *)
(*    first / last one);  kmer_frequency: the frequency of each k-mer among    *)
(*    the k-mers of its positional interval;                                   *)
(*  - kmer_representation: "position-wise proportion of read k-mers which are  *)
(*    present in haplotypes";  min_kmer_coverage (FORMAT KMERCOV: "minimum     *)
(*    proportion of read k-mers found in genotype at any position"), nan when  *)
(*    the interval is shorter than k or no complete k-mer exists;              *)
(*  - minimum_error_correction: per read the least number of called positions  *)
(*    at which it differs from a haplotype; read_assignment: 1/n for each of   *)
(*    the n haplotypes attaining it, 0 otherwise;  depth: calls per position.  *)
(*                                                                           *)
(* State machine: the read matrix and the genotype grow by one row per action  *)
(* (haplotypes first).  Every state carries the statistics for every k.        *)
EXTENDS Integers, Sequences, FiniteSets, TLC, Json

CONSTANTS NB,        \* positions
          NA,        \* alleles 0..NA-1 (gap = -1)
          MaxReads, MaxHaps,
          KMax,      \* k ranges over 1..KMax (KMax = NB + 1 includes the "interval shorter than k" case)
          Canonical  \* TRUE: rows are appended in non-decreasing code order (row order is shuffled by the binding)

Alpha == 0..(NA - 1)
ReadRows == [1..NB -> Alpha \cup {-1}]
HapRows == [1..NB -> Alpha]
RECURSIVE CodeFrom(_, _)
CodeFrom(r, j) == IF j = 0 THEN 0 ELSE (r[j] + 1) + (NA + 1) * CodeFrom(r, j - 1)
Code(r) == CodeFrom(r, NB)

VARIABLES reads, haps
vars == <<reads, haps>>

Init == reads = <<>> /\ haps = <<>>
AddHap == /\ reads = <<>> /\ Len(haps) < MaxHaps
          /\ \E h \in HapRows : /\ (Canonical /\ haps # <<>>) => Code(h) >= Code(haps[Len(haps)])
                                /\ haps' = Append(haps, h)
          /\ UNCHANGED reads
AddRead == /\ haps # <<>> /\ Len(reads) < MaxReads
           /\ \E r \in ReadRows : /\ (Canonical /\ reads # <<>>) => Code(r) >= Code(reads[Len(reads)])
                                  /\ reads' = Append(reads, r)
           /\ UNCHANGED haps
Next == AddHap \/ AddRead
Spec == Init /\ [][Next]_vars

(* ---- k-mers ------------------------------------------------------------------ *)
NWindows(k) == IF k > NB THEN 0 ELSE NB - k + 1                    \* (overridden by a mutant configuration)
GapFree(r, w, k) == \A j \in w..(w + k - 1) : r[j] # -1             \* (overridden by a mutant configuration)
KmerVec(r, w, k) == [j \in 1..NB |-> IF j >= w /\ j < w + k THEN r[j] ELSE -1]
(* all (row, window) pairs that carry a k-mer                                    *)
KmerSites(rows, k) == {<<i, w>> \in (1..Len(rows)) \X (1..NWindows(k)) : GapFree(rows[i], w, k)}
KmerSet(rows, k) == {KmerVec(rows[s[1]], s[2], k) : s \in KmerSites(rows, k)}
KmerCount(rows, k, v) == Cardinality({s \in KmerSites(rows, k) : KmerVec(rows[s[1]], s[2], k) = v})
Coding(v) == {j \in 1..NB : v[j] # -1}
StartOf(v) == CHOOSE j \in Coding(v) : \A x \in Coding(v) : j <= x
StopOf(v) == CHOOSE j \in Coding(v) : \A x \in Coding(v) : j >= x

RECURSIVE SumSet(_, _)
SumSet(f, S) == IF S = {} THEN 0 ELSE LET x == CHOOSE y \in S : TRUE IN f[x] + SumSet(f, S \ {x})

(* frequency of a k-mer among the k-mers of its positional interval              *)
FreqOf(rows, k, v) ==
  LET same == {u \in KmerSet(rows, k) : StartOf(u) = StartOf(v)}
      cnt == [u \in same |-> KmerCount(rows, k, u)]
  IN  <<KmerCount(rows, k, v), SumSet(cnt, same)>>

(* is the read k-mer present in the genotype (same alleles at the same positions) *)
InGenotype(v, k) == v \in KmerSet(haps, k)                          \* (overridden by a mutant configuration)

(* representation: per position, over the read k-mers that cover the position     *)
RepAt(k, j) ==
  LET cover == {s \in KmerSites(reads, k) : j >= s[2] /\ j < s[2] + k}
      miss == {s \in cover : ~InGenotype(KmerVec(reads[s[1]], s[2], k), k)}
  IN  <<Cardinality(cover) - Cardinality(miss), Cardinality(cover)>>      \* <<present, total>>

(* coverage: per window, the reads with a complete k-mer there and those whose    *)
(* k-mer equals the window of some haplotype                                     *)
WindowEq(r, h, w, k) == \A j \in w..(w + k - 1) : r[j] = h[j]
CovAt(k, w) ==
  LET tot == {i \in 1..Len(reads) : \A j \in w..(w + k - 1) : reads[i][j] # -1}
      cov == {i \in tot : \E h \in 1..Len(haps) : WindowEq(reads[i], haps[h], w, k)}
  IN  <<Cardinality(cov), Cardinality(tot)>>
WindowsOf(k) == IF k > NB THEN {} ELSE 1..(NB - k + 1)
(* minimum over the windows that have k-mers; <<0, 0>> stands for nan            *)
RLess(a, b) == a[1] * b[2] < b[1] * a[2]
MinCov(k) ==
  LET ws == {w \in WindowsOf(k) : CovAt(k, w)[2] > 0}
  IN  IF ws = {} THEN <<0, 0>>
      ELSE LET m == CHOOSE w \in ws : \A x \in ws : ~RLess(CovAt(k, x), CovAt(k, w)) IN CovAt(k, m)

(* minimum error correction and read assignment                                  *)
Dist(r, h) == Cardinality({j \in 1..NB : r[j] # -1 /\ r[j] # h[j]})
Mec(r) == LET ds == {Dist(r, haps[h]) : h \in 1..Len(haps)} IN CHOOSE d \in ds : \A x \in ds : d <= x
Assign(r) == LET best == {h \in 1..Len(haps) : Dist(r, haps[h]) = Mec(r)}
             IN  [h \in 1..Len(haps) |-> IF h \in best THEN <<1, Cardinality(best)>> ELSE <<0, 1>>]
DepthAt(rows, j) == Cardinality({i \in 1..Len(rows) : rows[i][j] # -1})

(* ---- invariants ------------------------------------------------------------------ *)
Ks == 1..KMax
Ready == haps # <<>>

KmersWellFormed ==
  \A k \in Ks : \A v \in KmerSet(reads, k) :
     /\ Cardinality(Coding(v)) = k
     /\ Coding(v) = StartOf(v)..StopOf(v)                        \* contiguous
     /\ \E i \in 1..Len(reads) : \A j \in Coding(v) : reads[i][j] = v[j]
CountsSum ==
  \A k \in Ks :
     LET S == KmerSet(reads, k)
         cnt == [v \in S |-> KmerCount(reads, k, v)]
     IN  SumSet(cnt, S) =
           Cardinality({<<i, w>> \in (1..Len(reads)) \X (1..NB) :
                          w + k - 1 <= NB /\ \A j \in w..(w + k - 1) : reads[i][j] # -1})
FrequencyPerWindow ==
  \A k \in Ks : \A w \in WindowsOf(k) :
     LET at == {v \in KmerSet(reads, k) : StartOf(v) = w} IN
     at # {} => \A v \in at : /\ FreqOf(reads, k, v)[2] = CovAt(k, w)[2]
                             /\ FreqOf(reads, k, v)[1] >= 1 /\ FreqOf(reads, k, v)[1] <= FreqOf(reads, k, v)[2]
CoverageBounds ==
  Ready => \A k \in Ks : \A w \in WindowsOf(k) :
     LET c == CovAt(k, w) IN 0 <= c[1] /\ c[1] <= c[2] /\ c[2] <= Len(reads)
(* representation (k-mer sets) and coverage (window comparison) are two views of the same counts *)
RepresentationLinksCoverage ==
  Ready => \A k \in Ks : \A j \in 1..NB :
     LET ws == {w \in WindowsOf(k) : j >= w /\ j < w + k}
         tot == [w \in ws |-> CovAt(k, w)[2]]
         cov == [w \in ws |-> CovAt(k, w)[1]]
     IN  RepAt(k, j) = <<SumSet(cov, ws), SumSet(tot, ws)>>
MinCovOneIffFullyRepresented ==
  Ready => \A k \in Ks :
     LET m == MinCov(k) IN
     (m[2] > 0 /\ m[1] = m[2]) <=> (/\ \E w \in WindowsOf(k) : CovAt(k, w)[2] > 0
                                    /\ \A j \in 1..NB : RepAt(k, j)[1] = RepAt(k, j)[2])
ReadsFromGenotypeAreCovered ==
  (Ready /\ \A i \in 1..Len(reads) : \E h \in 1..Len(haps) : \A j \in 1..NB : reads[i][j] \in {-1, haps[h][j]})
     => \A k \in Ks : LET m == MinCov(k) IN m[1] = m[2]
AssignmentGuarantees ==
  Ready => \A i \in 1..Len(reads) :
     LET a == Assign(reads[i])
         n == Cardinality({h \in 1..Len(haps) : a[h][1] > 0})
     IN  /\ n >= 1
         /\ \A h \in 1..Len(haps) : (a[h][1] > 0) <=> (Dist(reads[i], haps[h]) = Mec(reads[i]))
         /\ \A h \in 1..Len(haps) : a[h][1] > 0 => a[h] = <<1, n>>          \* rows sum to one
         /\ Mec(reads[i]) <= Cardinality({j \in 1..NB : reads[i][j] # -1})
         /\ (Mec(reads[i]) = 0) <=> (\E h \in 1..Len(haps) : \A j \in 1..NB : reads[i][j] \in {-1, haps[h][j]})
KOneIsAlleleMatching ==
  Ready => \A w \in 1..NB :
     CovAt(1, w) = <<Cardinality({i \in 1..Len(reads) : reads[i][w] # -1 /\ \E h \in 1..Len(haps) : haps[h][w] = reads[i][w]}),
                     DepthAt(reads, w)>>

(* ---- mutant definitions ---------------------------------------------------------- *)
MutNWindows(k) == IF k >= NB THEN 0 ELSE NB - k                     \* last window lost
MutGapFree(r, w, k) == r[w] # -1                                    \* only the first base is tested
MutInGenotype(v, k) ==                                              \* k-mer found anywhere in a haplotype
  \E u \in KmerSet(haps, k) :
     [x \in 1..k |-> v[StartOf(v) + x - 1]] = [x \in 1..k |-> u[StartOf(u) + x - 1]]

(* ---- one record per state with at least one haplotype ------------------------------ *)
Stats(k) ==
  LET S == KmerSet(reads, k)
  IN  [k |-> k,
       kmers |-> {<<v, KmerCount(reads, k, v), FreqOf(reads, k, v), StartOf(v) - 1, StopOf(v) - 1>> : v \in S},
       n |-> Cardinality(KmerSites(reads, k)),
       rep |-> [j \in 1..NB |-> RepAt(k, j)],
       cov |-> [w \in 1..NWindows(k) |-> CovAt(k, w)],
       mincov |-> MinCov(k)]
Dump ==
  IF ~Ready THEN TRUE
  ELSE PrintT(<<"@@J", ToJson(
         [reads |-> reads, haps |-> haps,
          stats |-> [k \in Ks |-> Stats(k)],
          mec |-> [i \in 1..Len(reads) |-> Mec(reads[i])],
          assign |-> [i \in 1..Len(reads) |-> Assign(reads[i])],
          depth |-> [j \in 1..NB |-> DepthAt(reads, j)]])>>)
=============================================================================
