------------------------------- MODULE PedErr -------------------------------
(* X03 (1): the pedigree error statistic PEDERR of `mchap call-pedigree`.    *)
(*                                                                           *)
(* Documented definition (FORMAT header): "Posterior probability of pedigree *)
(* error between an individual and its specified parents".  The posterior is *)
(* the retained MCMC trace, so PEDERR of an individual is the fraction of    *)
(* retained trace steps in which the genotypes of the individual and of its  *)
(* specified parents are NOT Mendelian-compatible under the declared gamete  *)
(* ploidies (tau) and excess-IBD rates (lambda).  Compatibility is the       *)
(* first-principles definition of common/PedInheritance.tla (existence of a  *)
(* split of the progeny bag into gametes drawable from the parents); it is   *)
(* not transcribed from mchap/pedigree/validation.py.                        *)
(*                                                                           *)
(* State machine = the steps of the real program: the sampler appends one    *)
(* joint genotype state (all individuals) per step, chain after chain (a new *)
(* chain starts every S steps), the first `burn` steps of every chain are    *)
(* discarded; running per-individual error counts are kept over the retained *)
(* steps.  Invariants tie the running counts to the from-scratch definition  *)
(* and state the structural guarantees (founders never err, a duo is a trio  *)
(* whose other gamete is free, validity is generative, allele names and the  *)
(* order of the two parents do not matter).                                  *)
EXTENDS Integers, Sequences, FiniteSets, TLC, Json, PedInheritance

CONSTANTS Peds,      \* sequence of pedigrees [K, pl, par, tau, lam]
          Layouts    \* sequence of [s, c, b, full]: steps per chain, chains, burn-in, all joint genotypes?

(* a pedigree: K alleles; pl[i] ploidy; par[i] = <<p, q>> (0 = unknown);      *)
(* tau[i] = <<tau_p, tau_q>>; lam[i] = <<lambda_p, lambda_q>> (rationals)     *)
NInd(ped) == Len(ped.pl)

(* ------------------------------------------------------------------------ *)
(* validity of individual i in the joint genotype state g                     *)
TrioParams(ped, i, g) ==
  LET p == ped.par[i][1]
      q == ped.par[i][2]
  IN  [K |-> ped.K,
       Gp |-> IF p = 0 THEN <<>> ELSE g[p], Gq |-> IF q = 0 THEN <<>> ELSE g[q],
       tp |-> ped.tau[i][1], tq |-> ped.tau[i][2],
       lp |-> ped.lam[i][1], lq |-> ped.lam[i][2]]

(* which gamete (1 = p side, 2 = q side) belongs to the single known parent    *)
KnownSide(ped, i) == IF ped.par[i][1] # 0 THEN 1 ELSE 2
DuoSide(ped, i) == KnownSide(ped, i)        \* (overridden by a mutant configuration)

ValidInd(ped, i, g) ==
  LET p == ped.par[i][1]
      q == ped.par[i][2]
  IN  IF p = 0 /\ q = 0 THEN TRUE                                  \* founder
      ELSE IF p # 0 /\ q # 0 THEN Valid(g[i], TrioParams(ped, i, g))
      ELSE LET k == KnownSide(ped, i)
               s == DuoSide(ped, i)
           IN  DuoValid(g[i], g[ped.par[i][k]], ped.tau[i][s], ped.lam[i][s], ped.K)

ErrFlags(ped, g) == [i \in 1..NInd(ped) |-> ~ValidInd(ped, i, g)]

(* ------------------------------------------------------------------------ *)
(* joint genotype states                                                      *)
GenoSet(K, P) == LET o == VcfOrder(K, P) IN {o[x] : x \in 1..Len(o)}
RECURSIVE JointFrom(_, _)
JointFrom(ped, i) ==
  IF i = 0 THEN {<<>>}
  ELSE LET gs == GenoSet(ped.K, ped.pl[i])
       IN  {Append(j, g) : j \in JointFrom(ped, i - 1), g \in gs}
AllJoint(ped) == JointFrom(ped, NInd(ped))

(* menu for the longer traces: up to two representatives of every pattern of  *)
(* per-individual error flags that the pedigree can show                      *)
MenuOf(ped) ==
  LET J == AllJoint(ped)
      pf == TLCEval([g \in J |-> ErrFlags(ped, g)])
      pats == {pf[g] : g \in J}
      cls(pat) == {g \in J : pf[g] = pat}
      two(S) == LET a == CHOOSE x \in S : TRUE
                IN  IF S = {a} THEN {a} ELSE {a, CHOOSE y \in S \ {a} : TRUE}
  IN  UNION {two(cls(pat)) : pat \in pats}

VARIABLES pi,      \* index of the pedigree (fixed along a behaviour)
          lay,     \* index of the layout (0 = not chosen yet, then fixed)
          menu,    \* joint genotype states offered to Append; {} = not prepared yet
          steps,   \* the trace so far: sequence of joint genotype states, chain after chain
          flags,   \* per step, per individual: is the individual in error in that step
          bad,     \* running count per individual of retained steps in error
          kept     \* running count of retained steps
vars == <<pi, lay, menu, steps, flags, bad, kept>>

Ped == Peds[pi]
Lay == Layouts[IF lay = 0 THEN 1 ELSE lay]
N == NInd(Ped)

(* is the idx-th appended step retained?  (running form used by the counter)  *)
Retained(idx, L) == ((idx - 1) % L.s) + 1 > L.b
(* the documented form: position of the step within its chain exceeds burn    *)
RetainedDef(idx, L) == LET c == (idx - 1) \div L.s
                           pos == idx - c * L.s
                       IN  pos > L.b

Init == /\ pi \in 1..Len(Peds)
        /\ lay = 0
        /\ menu = {}
        /\ steps = <<>> /\ flags = <<>>
        /\ bad = [i \in 1..NInd(Peds[pi]) |-> 0]
        /\ kept = 0

(* the representatives are computed once per pedigree ...                     *)
Prepare == /\ menu = {} /\ lay = 0
           /\ menu' = MenuOf(Ped)
           /\ UNCHANGED <<pi, lay, steps, flags, bad, kept>>

(* ... then the layout is chosen; the exhaustive one-step layout offers every  *)
(* joint genotype state, split by the genotype of the last individual so that  *)
(* the table is spread over TLC's workers                                      *)
ChooseLayout ==
  /\ menu # {} /\ lay = 0
  /\ \E l \in 1..Len(Layouts) :
       /\ lay' = l
       /\ IF Layouts[l].full
          THEN \E gN \in GenoSet(Ped.K, Ped.pl[N]) :
                  menu' = {Append(j, gN) : j \in JointFrom(Ped, N - 1)}
          ELSE menu' = menu
  /\ UNCHANGED <<pi, steps, flags, bad, kept>>

AppendStep(g) ==
  LET idx == Len(steps) + 1
      f == ErrFlags(Ped, g)
      r == Retained(idx, Lay)
  IN  /\ steps' = Append(steps, g)
      /\ flags' = Append(flags, f)
      /\ bad' = [i \in 1..N |-> bad[i] + (IF r /\ f[i] THEN 1 ELSE 0)]
      /\ kept' = kept + (IF r THEN 1 ELSE 0)
      /\ UNCHANGED <<pi, lay, menu>>

Step == /\ lay # 0
        /\ Len(steps) < Lay.s * Lay.c
        /\ \E g \in menu : AppendStep(g)

Next == Prepare \/ ChooseLayout \/ Step
Spec == Init /\ [][Next]_vars

(* ------------------------------------------------------------------------ *)
(* invariants                                                                *)
n == Len(steps)
LastStep == steps[n]

TypeOK == /\ Len(flags) = n
          /\ kept \in 0..n
          /\ \A i \in 1..N : bad[i] \in 0..kept
          /\ \A s \in 1..n : /\ Len(steps[s]) = N
                             /\ \A i \in 1..N : Len(steps[s][i]) = Ped.pl[i] /\ IsSorted(steps[s][i])

(* the running counters are the documented statistic: numerator = number of   *)
(* retained steps in which the trio / duo is not Mendelian-compatible         *)
CountIsDefinition ==
  /\ kept = Cardinality({s \in 1..n : RetainedDef(s, Lay)})
  /\ \A i \in 1..N :
       bad[i] = Cardinality({s \in 1..n : RetainedDef(s, Lay) /\ ~ValidInd(Ped, i, steps[s])})

FoundersNeverErr ==
  \A i \in 1..N : (Ped.par[i][1] = 0 /\ Ped.par[i][2] = 0) => bad[i] = 0

(* generative reading of validity: the progeny is valid exactly when it is    *)
(* the union of two gametes the parents can produce                           *)
GametesOf(Gpar, tau, lam, K) ==
  IF Gpar = <<>> \/ tau = 0 THEN GenoSet(K, tau)
  ELSE (IF lam[1] < lam[2] THEN SubBags(Gpar, tau, K) ELSE {})
       \cup (IF lam[1] > 0 /\ tau = 2 THEN {<<Gpar[c], Gpar[c]>> : c \in 1..Len(Gpar)} ELSE {})
BagUnion(a, b, K) == LET ca == CntOf(a, K)
                         cb == CntOf(b, K)
                     IN  SeqFromCnt([x \in 0..(K - 1) |-> ca[x] + cb[x]], 0, K)
Offspring(P) == {BagUnion(gp, gq, P.K) : gp \in GametesOf(P.Gp, P.tp, P.lp, P.K),
                                          gq \in GametesOf(P.Gq, P.tq, P.lq, P.K)}
ValidIsGenerable ==
  n > 0 => \A i \in 1..N :
     (Ped.par[i][1] # 0 \/ Ped.par[i][2] # 0) =>
        (ValidInd(Ped, i, LastStep) <=> LastStep[i] \in Offspring(TrioParams(Ped, i, LastStep)))

(* a duo is the trio whose other gamete is unconstrained                      *)
DuoIsTrioWithFreeGamete ==
  n > 0 => \A i \in 1..N :
     ((Ped.par[i][1] = 0) # (Ped.par[i][2] = 0)) =>
        (ValidInd(Ped, i, LastStep) <=> Valid(LastStep[i], TrioParams(Ped, i, LastStep)))

(* forgetting a parent can only remove errors                                 *)
TrioImpliesDuos ==
  n > 0 => \A i \in 1..N :
     (Ped.par[i][1] # 0 /\ Ped.par[i][2] # 0 /\ ValidInd(Ped, i, LastStep)) =>
        /\ DuoValid(LastStep[i], LastStep[Ped.par[i][1]], Ped.tau[i][1], Ped.lam[i][1], Ped.K)
        /\ DuoValid(LastStep[i], LastStep[Ped.par[i][2]], Ped.tau[i][2], Ped.lam[i][2], Ped.K)

(* allele names carry no meaning                                              *)
Mirror(G, K) == LET m == [j \in 1..Len(G) |-> K - 1 - G[Len(G) + 1 - j]] IN m
MirrorJoint(g, K) == [i \in 1..Len(g) |-> Mirror(g[i], K)]
AlleleNamesIrrelevant ==
  n > 0 => ErrFlags(Ped, MirrorJoint(LastStep, Ped.K)) = flags[n]

(* the order in which the two parents are listed carries no meaning           *)
SwapPed(ped) == [K |-> ped.K, pl |-> ped.pl,
                 par |-> [i \in 1..NInd(ped) |-> <<ped.par[i][2], ped.par[i][1]>>],
                 tau |-> [i \in 1..NInd(ped) |-> <<ped.tau[i][2], ped.tau[i][1]>>],
                 lam |-> [i \in 1..NInd(ped) |-> <<ped.lam[i][2], ped.lam[i][1]>>]]
ParentOrderIrrelevant ==
  n > 0 => ErrFlags(SwapPed(Ped), LastStep) = flags[n]

(* ------------------------------------------------------------------------ *)
(* mutant definitions (Mutant_*.cfg substitute them; TLC must report the      *)
(* named invariant violated)                                                 *)
MutRetained(idx, L) == TRUE                          \* burn-in steps are counted
MutDuoSide(ped, i) == 1                              \* the duo always uses the first gamete's tau / lambda
MutDrawable(g, Gpar, lam, K) ==                      \* validity not widened for double reduction
  \/ Gpar = <<>> \/ Len(g) = 0
  \/ HyperNum(g, Gpar, K) > 0

(* ------------------------------------------------------------------------ *)
(* one record per state with at least one step                                *)
Dump ==
  IF n = 0 THEN TRUE
  ELSE PrintT(<<"@@J", ToJson([pi |-> pi, s |-> Lay.s, c |-> Lay.c, b |-> Lay.b, full |-> Lay.full,
                               steps |-> steps, flags |-> flags, bad |-> bad, kept |-> kept])>>)
PedsOut == PrintT(<<"@@J", ToJson([peds |-> Peds])>>)
ASSUME PedsOut

(* ------------------------------------------------------------------------ *)
(* configurations                                                            *)
Z == <<0, 1>>
L10 == <<1, 10>>
L4 == <<1, 4>>
NoLam(nn) == [i \in 1..nn |-> <<Z, Z>>]
Half(pl) == [i \in 1..Len(pl) |-> <<pl[i] \div 2, pl[i] \div 2>>]
P3(K, pl, par, tau, lam) == [K |-> K, pl |-> pl, par |-> par, tau |-> tau, lam |-> lam]

(* the repository's pedigree simple.pedigree.132.txt: S1 founder, S2 = S1 x S3, S3 = S1 x ?  *)
Par132 == << <<0, 0>>, <<1, 3>>, <<1, 0>> >>
Ped132(K)      == P3(K, <<4, 4, 4>>, Par132, Half(<<4, 4, 4>>), NoLam(3))
Ped132Tau(K)   == P3(K, <<4, 4, 4>>, Par132, << <<2, 2>>, <<3, 1>>, <<2, 2>> >>, NoLam(3))   \* simple.tau.132.txt
Ped132Lam(K)   == P3(K, <<4, 4, 4>>, Par132, Half(<<4, 4, 4>>), [i \in 1..3 |-> <<L10, L10>>])
(* mixed ploidy (rows padded in the real trace): 4x x 2x -> 3x, unbalanced gametes            *)
PedMixed(K)    == P3(K, <<4, 2, 3>>, << <<0, 0>>, <<0, 0>>, <<1, 2>> >>, << <<2, 2>>, <<1, 1>>, <<2, 1>> >>, NoLam(3))
PedMixedLam(K) == P3(K, <<4, 2, 3>>, << <<0, 0>>, <<0, 0>>, <<1, 2>> >>, << <<2, 2>>, <<1, 1>>, <<2, 1>> >>,
                     << <<Z, Z>>, <<Z, Z>>, <<L4, Z>> >>)
(* child listed before its parents, the wider parent second                                  *)
PedChildFirst(K) == P3(K, <<2, 2, 4>>, << <<2, 3>>, <<0, 0>>, <<0, 0>> >>, << <<1, 1>>, <<1, 1>>, <<2, 2>> >>, NoLam(3))
(* duo with only the second parent known and unbalanced gametes                              *)
PedDuoQ(K)     == P3(K, <<4, 4>>, << <<0, 0>>, <<0, 1>> >>, << <<2, 2>>, <<1, 3>> >>, NoLam(2))
PedDuoP(K)     == P3(K, <<4, 4>>, << <<2, 0>>, <<0, 0>> >>, << <<3, 1>>, <<2, 2>> >>, NoLam(2))
(* three generations, diploid                                                                *)
PedThreeGen(K) == P3(K, <<2, 2, 2, 2>>, << <<0, 0>>, <<0, 0>>, <<1, 2>>, <<3, 0>> >>, Half(<<2, 2, 2, 2>>), NoLam(4))
(* selfing with excess IBD on both gametes                                                   *)
PedSelf(K)     == P3(K, <<4, 4>>, << <<0, 0>>, <<1, 1>> >>, Half(<<4, 4>>), << <<Z, Z>>, <<L4, L10>> >>)
(* clone: the whole genotype comes from the first parent                                     *)
PedClone(K)    == P3(K, <<4, 2, 4>>, << <<0, 0>>, <<0, 0>>, <<1, 2>> >>, << <<2, 2>>, <<1, 1>>, <<4, 0>> >>, NoLam(3))
(* hexaploid trio                                                                            *)
PedHex(K)      == P3(K, <<6, 6, 6>>, << <<0, 0>>, <<0, 0>>, <<1, 2>> >>, Half(<<6, 6, 6>>), NoLam(3))
(* duo whose known gamete has lambda > 0                                                     *)
PedDuoLam(K)   == P3(K, <<4, 4>>, << <<0, 0>>, <<0, 1>> >>, Half(<<4, 4>>), << <<Z, Z>>, <<Z, L4>> >>)

PedsQuick ==
  << Ped132(2), Ped132Tau(3), Ped132Lam(2), PedMixed(3), PedMixedLam(2), PedChildFirst(3), PedDuoQ(3), PedDuoP(2),
     PedThreeGen(2), PedSelf(3), PedClone(2), PedDuoLam(3) >>
PedsThorough ==
  << Ped132(3), Ped132Tau(3), Ped132Lam(3), PedMixed(3), PedMixedLam(3), PedChildFirst(3), PedDuoQ(3), PedDuoP(3),
     PedThreeGen(3), PedSelf(3), PedClone(3), PedDuoLam(3), PedHex(2), Ped132Tau(4) >>
PedsMutant == << Ped132Tau(2), PedDuoQ(2), PedSelf(2) >>

Lt(s, c, b, full) == [s |-> s, c |-> c, b |-> b, full |-> full]
LayoutsQuick    == << Lt(1, 1, 0, TRUE), Lt(2, 2, 1, FALSE), Lt(3, 1, 0, FALSE) >>
LayoutsThorough == << Lt(1, 1, 0, TRUE), Lt(2, 2, 1, FALSE), Lt(3, 1, 1, FALSE), Lt(2, 2, 0, FALSE), Lt(4, 1, 2, FALSE), Lt(1, 3, 0, FALSE) >>
LayoutsMutant   == << Lt(1, 1, 0, TRUE), Lt(2, 2, 1, FALSE) >>
=============================================================================
