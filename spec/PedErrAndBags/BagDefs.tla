------------------------------ MODULE BagDefs ------------------------------
(* Pure definitions for X03 (2): multisets ("multi-sets in which the outer   *)
(* dimension is an un-ordered collection of elements", mchap/mset.py) as      *)
(* functions element -> count, and the documented array-level functions       *)
(* (unique_idx, unique, categorize, count, unique_counts, repeat) on arrays   *)
(* written as sequences of element names 1..U.  Written from the docstrings   *)
(* and the textbook multiset operations, not from the code.                   *)
EXTENDS Integers, Sequences, FiniteSets

Min2(a, b) == IF a <= b THEN a ELSE b
Max2(a, b) == IF a >= b THEN a ELSE b

(* ---- bags ------------------------------------------------------------------ *)
BagOf(s, U) == [e \in 1..U |-> Cardinality({i \in DOMAIN s : s[i] = e})]
BEmpty(U) == [e \in 1..U |-> 0]
BAdd(a, b) == [e \in DOMAIN a |-> a[e] + b[e]]                    \* disjoint union
BSub(a, b) == [e \in DOMAIN a |-> Max2(0, a[e] - b[e])]           \* complement of b in a
BInt(a, b) == [e \in DOMAIN a |-> Min2(a[e], b[e])]               \* intersection ("intercept")
BUni(a, b) == [e \in DOMAIN a |-> Max2(a[e], b[e])]               \* union
BContains(a, b) == \A e \in DOMAIN a : a[e] >= b[e]               \* a is a super-set of b
BWithin(a, b) == \A e \in DOMAIN a : a[e] <= b[e]                 \* a is a sub-set of b
RECURSIVE SumTo(_, _)
SumTo(f, k) == IF k = 0 THEN 0 ELSE f[k] + SumTo(f, k - 1)
BSize(a) == SumTo(a, Cardinality(DOMAIN a))

(* ---- arrays as sequences ---------------------------------------------------- *)
(* unique_idx: "the index of the first occurrence of each unique element"       *)
UniqueIdx(s) == [i \in DOMAIN s |-> \A j \in 1..(i - 1) : s[j] # s[i]]
RECURSIVE SelectBy(_, _, _)
SelectBy(s, m, i) == IF i > Len(s) THEN <<>>
                     ELSE (IF m[i] THEN <<s[i]>> ELSE <<>>) \o SelectBy(s, m, i + 1)
(* unique = the elements at those indices                                       *)
Unique(s) == SelectBy(s, UniqueIdx(s), 1)
(* categorize: "the index of the first occurrence of each element of the input  *)
(* array in the categories array", -1 when not found (0-based labels)           *)
FirstIndex(cats, e) == CHOOSE j \in DOMAIN cats : cats[j] = e /\ \A k \in 1..(j - 1) : cats[k] # e
Categorize(s, cats) ==
  [i \in DOMAIN s |-> IF \E j \in DOMAIN cats : cats[j] = s[i] THEN FirstIndex(cats, s[i]) - 1 ELSE -1]
(* the reading the code implements when a category is listed twice              *)
LastIndex(cats, e) == CHOOSE j \in DOMAIN cats : cats[j] = e /\ \A k \in (j + 1)..Len(cats) : cats[k] # e
CategorizeLast(s, cats) ==
  [i \in DOMAIN s |-> IF \E j \in DOMAIN cats : cats[j] = s[i] THEN LastIndex(cats, s[i]) - 1 ELSE -1]
(* count: occurrences of each element of the categories array, in its order     *)
Count(s, cats) == [j \in DOMAIN cats |-> Cardinality({i \in DOMAIN s : s[i] = cats[j]})]
(* repeat: each element repeated the given number of times, in order            *)
RECURSIVE Repeat(_, _)
Repeat(s, counts) ==
  IF s = <<>> THEN <<>>
  ELSE (IF counts[1] = 0 THEN <<>> ELSE [i \in 1..counts[1] |-> s[1]]) \o Repeat(Tail(s), Tail(counts))
IsSortedAsc(c) == \A i \in 1..(Len(c) - 1) : c[i] <= c[i + 1]
IsSortedDesc(c) == \A i \in 1..(Len(c) - 1) : c[i] >= c[i + 1]
NoDup(s) == \A i, j \in DOMAIN s : i # j => s[i] # s[j]
(* a (unique elements, counts) pair describes the array s                        *)
DescribesCounts(u, c, s, U) ==
  /\ Len(u) = Len(c) /\ NoDup(u)
  /\ \A j \in DOMAIN u : c[j] > 0 /\ c[j] = BagOf(s, U)[u[j]]
  /\ {u[j] : j \in DOMAIN u} = {s[i] : i \in DOMAIN s}
=============================================================================
