SPECIFICATION Spec
CONSTANT Peds <- PedsQuick
CONSTANT Layouts <- LayoutsQuick
INVARIANT TypeOK
INVARIANT CountIsDefinition
INVARIANT FoundersNeverErr
INVARIANT ValidIsGenerable
INVARIANT DuoIsTrioWithFreeGamete
INVARIANT TrioImpliesDuos
INVARIANT AlleleNamesIrrelevant
INVARIANT ParentOrderIrrelevant
CONSTRAINT Dump
CHECK_DEADLOCK FALSE
