----------------------------- MODULE SeqMatrix -----------------------------
(* X05 (a): sets of integer encoded sequences (2-D arrays): argsort / sort   *)
(* give a lexicographic order that is a permutation; depth counts the calls  *)
(* per position (gaps do not count, optionally weighted by per-row counts);  *)
(* is_gap / is_call partition the cells and every cell is valid.             *)
(* Actions: Argsort (any sorting permutation - the docstring does not say    *)
(* how ties are ordered), Sort (apply it), Depth.                            *)
EXTENDS EncDefs, Json

CONSTANTS NA, MaxRows, MaxLen

Symbols == (0..(NA - 1)) \cup {Gap}
RECURSIVE SeqsOfLen(_)
SeqsOfLen(n) == IF n = 0 THEN {<<>>} ELSE {Append(s, x) : s \in SeqsOfLen(n - 1), x \in Symbols}
RECURSIVE Mats(_, _)
Mats(r, L) == IF r = 0 THEN {<<>>} ELSE {Append(m, s) : m \in Mats(r - 1, L), s \in SeqsOfLen(L)}
RECURSIVE PermsOf(_)
PermsOf(n) == IF n = 0 THEN {<<>>}
              ELSE UNION {{[i \in 1..n |-> IF i < k THEN q[i] ELSE IF i = k THEN n ELSE q[i - 1]] : k \in 1..n} : q \in PermsOf(n - 1)}

VARIABLES m, L, stage, perm, sorted, depth
vars == <<m, L, stage, perm, sorted, depth>>

Init == /\ L \in 1..MaxLen
        /\ \E r \in 1..MaxRows : m \in Mats(r, L)
        /\ stage = "new" /\ perm = <<>> /\ sorted = <<>> /\ depth = <<>>
Argsort == /\ stage = "new"
           /\ perm' \in {q \in PermsOf(Len(m)) : SortsBy(m, q)}
           /\ stage' = "argsorted"
           /\ UNCHANGED <<m, L, sorted, depth>>
Sort == /\ stage = "argsorted"
        /\ sorted' = [i \in 1..Len(m) |-> m[perm[i]]]
        /\ stage' = "sorted"
        /\ UNCHANGED <<m, L, perm, depth>>
Depth == /\ stage = "sorted"
         /\ depth' = DepthOf(sorted, L)
         /\ stage' = "done"
         /\ UNCHANGED <<m, L, perm, sorted>>
Next == Argsort \/ Sort \/ Depth
Spec == Init /\ [][Next]_vars

Occ(mm, row) == Cardinality({i \in 1..Len(mm) : mm[i] = row})
PermIsPermutation == stage # "new" => IsPerm(perm, Len(m))
SortedIsOrdered == stage \in {"sorted", "done"} => \A i \in 1..(Len(sorted) - 1) : LexLeq(sorted[i], sorted[i + 1])
SortedIsRearrangement == stage \in {"sorted", "done"} => \A i \in 1..Len(m) : Occ(sorted, m[i]) = Occ(m, m[i])
SortedUnique == \* whatever sorting permutation is taken, the sorted array is the same
  stage \in {"sorted", "done"} => \A q \in PermsOf(Len(m)) : SortsBy(m, q) => [i \in 1..Len(m) |-> m[q[i]]] = sorted
DepthInvariantUnderSort == stage = "done" => depth = DepthOf(m, L)
DepthBounds == stage = "done" => \A j \in 1..L : depth[j] \in 0..Len(m)
(* mutant: compares from the last position (a lexsort without the flip) *)
RECURSIVE RevLexLeq(_, _)
RevLexLeq(x, y) == IF Len(x) = 0 THEN TRUE
                   ELSE IF x[Len(x)] < y[Len(y)] THEN TRUE ELSE IF x[Len(x)] > y[Len(y)] THEN FALSE
                   ELSE RevLexLeq(SubSeq(x, 1, Len(x) - 1), SubSeq(y, 1, Len(y) - 1))
MutSortedFromLast == stage \in {"sorted", "done"} => \A i \in 1..(Len(sorted) - 1) : RevLexLeq(sorted[i], sorted[i + 1])
MutDepthCountsGaps == stage = "done" => \A j \in 1..L : depth[j] = Len(m)

Dump == stage = "done" =>
  PrintT(<<"@@J", ToJson([m |-> m, L |-> L, sorted |-> sorted, depth |-> depth,
                          perms |-> {q \in PermsOf(Len(m)) : SortsBy(m, q)}])>>)
=============================================================================
