------------------------------ MODULE EncDefs ------------------------------
(* X05: shared operators of the EncodingAndLoci models, written from the     *)
(* docstrings of mchap.encoding.{integer,character}, docs/assemble.rst (BED  *)
(* targets) and the VCF text rules (missing value '.', lists joined by ',',  *)
(* floats rounded to `precision` decimals and printed in shortest form).     *)
(* Text is a sequence of character codes (0..255).                           *)
EXTENDS Integers, Sequences, FiniteSets, TLC

Gap == -1                      \* integer encoding of a gap (docstrings: "Gaps are encoded as the value -1")
GapChar == 45                  \* '-'
Dot == 46                      \* '.'
Comma == 44
Tab == 9
NaN == -7                      \* marker for a NaN entry of a probabilistic row (per-mille entries are >= 0)
Free == -8                     \* marker: entry the documentation leaves open

RECURSIVE Pow10(_)
Pow10(k) == IF k = 0 THEN 1 ELSE 10 * Pow10(k - 1)

RECURSIVE Digits(_)
Digits(n) == IF n < 10 THEN <<48 + n>> ELSE Digits(n \div 10) \o <<48 + (n % 10)>>
IntText(n) == IF n < 0 THEN <<45>> \o Digits(-n) ELSE Digits(n)

RECURSIVE Join(_, _)
Join(ts, sep) == IF Len(ts) = 0 THEN <<>>
                 ELSE IF Len(ts) = 1 THEN ts[1]
                 ELSE ts[1] \o <<sep>> \o Join(Tail(ts), sep)

RECURSIVE Concat(_)
Concat(ss) == IF Len(ss) = 0 THEN <<>> ELSE ss[1] \o Concat(Tail(ss))

Count(t, c) == Cardinality({i \in 1..Len(t) : t[i] = c})

(* ---- (a) sequences -------------------------------------------------------- *)
StrOf(s) == [i \in 1..Len(s) |-> IF s[i] = Gap THEN GapChar ELSE 48 + s[i]]
IntOfStr(t) == [i \in 1..Len(t) |-> IF t[i] = GapChar THEN Gap ELSE t[i] - 48]
IsGapV(s) == [i \in 1..Len(s) |-> s[i] = Gap]
IsCallV(s) == [i \in 1..Len(s) |-> s[i] >= 0]

(* probabilistic row vectors in per-mille: called allele P, every other allele of the position (1000-P)/EF,   *)
(* columns at or beyond the position's allele count 0; a gap position is NaN (open beyond the allele count)    *)
ProbRow(a, nAll, width, P, EF) ==
  [c \in 1..width |-> IF a = Gap THEN (IF c - 1 < nAll THEN NaN ELSE Free)
                      ELSE IF c - 1 >= nAll THEN 0
                      ELSE IF c - 1 = a THEN P ELSE (1000 - P) \div EF]
ProbOf(s, nAll, width, P, EF) == [i \in 1..Len(s) |-> ProbRow(s[i], nAll[i], width, P, EF)]

RowSum(row) == LET RECURSIVE S(_)
                   S(k) == IF k = 0 THEN 0 ELSE row[k] + S(k - 1)
               IN S(Len(row))
(* most probable allele of a row; a NaN row is a gap *)
ArgMax(row) == IF \E c \in 1..Len(row) : row[c] = NaN THEN Gap
               ELSE (CHOOSE c \in 1..Len(row) : \A d \in 1..Len(row) : row[d] < row[c] \/ (row[d] = row[c] /\ c <= d)) - 1
AllelicOf(m) == [i \in 1..Len(m) |-> ArgMax(m[i])]

(* characters with a per-position allele table (tuple of character codes per position) *)
CharsOf(s, table) == [i \in 1..Len(s) |-> IF s[i] = Gap THEN GapChar ELSE table[i][s[i] + 1]]
IntOfChars(cs, table) ==
  [i \in 1..Len(cs) |-> IF \E k \in 1..Len(table[i]) : table[i][k] = cs[i]
                        THEN (CHOOSE k \in 1..Len(table[i]) : table[i][k] = cs[i]) - 1
                        ELSE Gap]

(* lexicographic order of integer sequences of equal length *)
RECURSIVE LexLeq(_, _)
LexLeq(x, y) == IF Len(x) = 0 THEN TRUE
                ELSE IF x[1] < y[1] THEN TRUE
                ELSE IF x[1] > y[1] THEN FALSE
                ELSE LexLeq(Tail(x), Tail(y))
IsPerm(p, n) == Len(p) = n /\ {p[i] : i \in 1..n} = 1..n
SortsBy(m, p) == /\ IsPerm(p, Len(m))
                 /\ \A i \in 1..(Len(m) - 1) : LexLeq(m[p[i]], m[p[i + 1]])
DepthOf(m, L) == [j \in 1..L |-> Cardinality({i \in 1..Len(m) : m[i][j] >= 0})]

(* ---- (c) VCF value text ---------------------------------------------------- *)
(* a float is m units of 10^-4; rounded to p <= 4 decimals (ties are excluded from the model: they depend on  *)
(* the binary representation)                                                                                 *)
AbsI(x) == IF x < 0 THEN -x ELSE x
IsTie(m, p) == p < 4 /\ 2 * (AbsI(m) % Pow10(4 - p)) = Pow10(4 - p)
RoundQ(m, p) == \* |m| rounded to units of 10^-p
  LET a == AbsI(m) IN
  IF p >= 4 THEN a * Pow10(p - 4)
  ELSE LET sc == Pow10(4 - p) IN IF 2 * (a % sc) > sc THEN a \div sc + 1 ELSE a \div sc

RECURSIVE TrimZeros(_)
TrimZeros(t) == IF Len(t) > 0 /\ t[Len(t)] = 48 THEN TrimZeros(SubSeq(t, 1, Len(t) - 1)) ELSE t
RECURSIVE PadLeft(_, _)
PadLeft(t, w) == IF Len(t) >= w THEN t ELSE PadLeft(<<48>> \o t, w)

FloatText(m, p) ==
  LET q == RoundQ(m, p)
      ip == q \div Pow10(p)
      fp == q % Pow10(p)
      sign == IF m < 0 /\ q > 0 THEN <<45>> ELSE <<>>
  IN IF fp = 0 THEN sign \o Digits(ip)
     ELSE sign \o Digits(ip) \o <<Dot>> \o TrimZeros(PadLeft(Digits(fp), p))

(* independent reading of a decimal text: <<sign, integer of all digits, number of decimals>> *)
ParseDec(t) ==
  LET neg == Len(t) > 0 /\ t[1] = 45
      body == IF neg THEN Tail(t) ELSE t
      dots == {i \in 1..Len(body) : body[i] = Dot}
      d == IF dots = {} THEN 0 ELSE Len(body) - (CHOOSE i \in dots : TRUE)
      digs == SelectSeq(body, LAMBDA c : c # Dot)
      RECURSIVE V(_)
      V(k) == IF k = 0 THEN 0 ELSE 10 * V(k - 1) + (digs[k] - 48)
  IN <<IF neg THEN -1 ELSE 1, V(Len(digs)), d>>
IsDecimal(t) == /\ Len(t) > 0
                /\ \A i \in 1..Len(t) : t[i] \in 48..57 \/ t[i] = Dot \/ (i = 1 /\ t[i] = 45)
                /\ Count(t, Dot) <= 1

(* scalars: [k, n, s]  k in none / nan / int / flt / f32 / str / flag *)
ScalarText(v, p) ==
  CASE v.k = "none" -> <<Dot>>
    [] v.k = "nan"  -> <<Dot>>
    [] v.k = "int"  -> IntText(v.n)
    [] v.k = "flt"  -> FloatText(v.n, p)
    [] v.k = "f32"  -> FloatText(v.n, p)
    [] v.k = "str"  -> IF Len(v.s) = 0 THEN <<Dot>> ELSE v.s
    [] OTHER -> <<63>>

(* a value is [c, xs]: container kind c (scalar / list / tuple / farr / iarr / nest) and its scalars; *)
(* nest = list of lists (xs is a sequence of sequences of scalars)                                     *)
ValueText(v, p) ==
  CASE v.c = "scalar" -> ScalarText(v.xs[1], p)
    [] v.c = "nest"   -> IF Len(v.xs) = 0 THEN <<Dot>>
                         ELSE Join([i \in 1..Len(v.xs) |->
                                     IF Len(v.xs[i]) = 0 THEN <<Dot>>
                                     ELSE Join([j \in 1..Len(v.xs[i]) |-> ScalarText(v.xs[i][j], p)], Comma)], Comma)
    [] OTHER -> IF Len(v.xs) = 0 THEN <<Dot>>
                ELSE Join([i \in 1..Len(v.xs) |-> ScalarText(v.xs[i], p)], Comma)
=============================================================================
