SPECIFICATION Spec
INVARIANT Consumed
CHECK_DEADLOCK FALSE
