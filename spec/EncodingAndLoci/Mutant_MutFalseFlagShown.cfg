SPECIFICATION Spec
CONSTANT Mode = "record"
CONSTANT Floats <- FloatsQ
CONSTANT Precs <- PrecsQ
CONSTANT MaxList = 1
CONSTANT InfoMax = 1
INVARIANT MutFalseFlagShown
CHECK_DEADLOCK FALSE
