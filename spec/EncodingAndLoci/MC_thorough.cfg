SPECIFICATION Spec
CONSTANT NA = 4
CONSTANT MaxLen = 3
CONSTANT MaxSteps = 4
CONSTANT Ps <- PsThorough
CONSTANT EFs <- EFsThorough
INVARIANT AbstractionPreserved
INVARIANT LengthPreserved
INVARIANT GapCallPartition
INVARIANT StringAlphabet
INVARIANT RowsAreDistributions
CONSTRAINT Dump
CHECK_DEADLOCK FALSE
