SPECIFICATION Spec
CONSTANT Mode = "value"
CONSTANT Floats <- FloatsQ
CONSTANT Precs <- PrecsQ
CONSTANT MaxList = 2
CONSTANT InfoMax = 0
INVARIANT NonEmptyNoBlank
INVARIANT MemberCount
INVARIANT FloatMembersFaithful
INVARIANT MissingIsDot
INVARIANT LineColumns
INVARIANT KeyOrderIsColumnOrder
INVARIANT InfoEntriesInOrder
CHECK_DEADLOCK FALSE
CONSTRAINT Dump
