-------------------------- MODULE EncodingAndLoci --------------------------
(* X05 (a): the sequence encodings of mchap.encoding as a state machine.     *)
(* A ghost variable `abs` holds the abstract sequence (alleles 0..NA-1 and   *)
(* the gap); the actions are the transcoding steps of the code               *)
(*   Decode  integer -> string      (as_strings / vector_as_string)          *)
(*   Encode  string -> integer      (from_strings / vector_from_string)      *)
(*   ToProbabilistic integer -> row vectors (as_probabilistic)               *)
(*   ToAllelic  row vectors -> integer (most probable allele; NaN row = gap) *)
(*   ToChars / FromChars  integer <-> characters with a per-position allele  *)
(*            table (integer.as_characters / character.as_allelic)           *)
(* Invariant: whatever the representation, it still denotes `abs`.           *)
EXTENDS EncDefs, Json

CONSTANTS NA, MaxLen, MaxSteps, Ps, EFs

PsQuick == {1000, 700}
EFsQuick == {3, 2}
PsThorough == {1000, 700, 970, 400}
EFsThorough == {3, 2}   \* the round trip needs P > (1-P)/EF; (1000-P) must divide by EF

Symbols == (0..(NA - 1)) \cup {Gap}
RECURSIVE SeqsOfLen(_)
SeqsOfLen(n) == IF n = 0 THEN {<<>>} ELSE {Append(s, x) : s \in SeqsOfLen(n - 1), x \in Symbols}
AllSeqs == UNION {SeqsOfLen(n) : n \in 0..MaxLen}

(* allele characters per position: odd positions A,C,T  even positions G,A,C *)
Table(L) == [i \in 1..L |-> SubSeq(IF i % 2 = 1 THEN <<65, 67, 84, 71>> ELSE <<71, 65, 67, 84>>, 1, NA)]

VARIABLES abs, rep, val, par, hist
vars == <<abs, rep, val, par, hist>>

Init == /\ abs \in AllSeqs
        /\ rep = "int"
        /\ val = abs
        /\ par = [P |-> 1000, EF |-> 3, nAll |-> <<>>]
        /\ hist = <<>>

MaxOf(f) == IF Len(f) = 0 THEN 0 ELSE CHOOSE x \in {f[i] : i \in 1..Len(f)} : \A i \in 1..Len(f) : f[i] <= x
NAllChoices(s) == { [i \in 1..Len(s) |-> NA],
                    [i \in 1..Len(s) |-> IF s[i] = Gap THEN 1 ELSE s[i] + 1] }

Decode == /\ rep = "int"
          /\ rep' = "str" /\ val' = StrOf(val)
          /\ hist' = Append(hist, [op |-> "Decode"])
          /\ UNCHANGED <<abs, par>>
Encode == /\ rep = "str"
          /\ rep' = "int" /\ val' = IntOfStr(val)
          /\ hist' = Append(hist, [op |-> "Encode"])
          /\ UNCHANGED <<abs, par>>
ToProbabilistic ==
          /\ rep = "int" /\ Len(val) > 0
          /\ \E P \in Ps, EF \in EFs, nAll \in NAllChoices(val) :
               /\ par' = [P |-> P, EF |-> EF, nAll |-> nAll]
               /\ val' = ProbOf(val, nAll, MaxOf(nAll), P, EF)
               /\ hist' = Append(hist, [op |-> "ToProbabilistic", P |-> P, EF |-> EF, nAll |-> nAll])
          /\ rep' = "prob"
          /\ UNCHANGED abs
ToAllelic == /\ rep = "prob"
             /\ rep' = "int" /\ val' = AllelicOf(val)
             /\ hist' = Append(hist, [op |-> "ToAllelic"])
             /\ UNCHANGED <<abs, par>>
ToChars == /\ rep = "int"
           /\ rep' = "chr" /\ val' = CharsOf(val, Table(Len(val)))
           /\ hist' = Append(hist, [op |-> "ToChars"])
           /\ UNCHANGED <<abs, par>>
FromChars == /\ rep = "chr"
             /\ rep' = "int" /\ val' = IntOfChars(val, Table(Len(val)))
             /\ hist' = Append(hist, [op |-> "FromChars"])
             /\ UNCHANGED <<abs, par>>

Next == /\ Len(hist) < MaxSteps
        /\ (Decode \/ Encode \/ ToProbabilistic \/ ToAllelic \/ ToChars \/ FromChars)
Spec == Init /\ [][Next]_vars

(* ---- invariants ------------------------------------------------------------ *)
Denotes == CASE rep = "int"  -> val
             [] rep = "str"  -> IntOfStr(val)
             [] rep = "prob" -> AllelicOf(val)
             [] rep = "chr"  -> IntOfChars(val, Table(Len(val)))
AbstractionPreserved == Denotes = abs
LengthPreserved == Len(val) = Len(abs)
GapCallPartition == rep = "int" =>
    \A i \in 1..Len(val) : /\ IsGapV(val)[i] # IsCallV(val)[i]
                           /\ IsGapV(val)[i] = (abs[i] = Gap)
StringAlphabet == rep = "str" => \A i \in 1..Len(val) : val[i] = GapChar \/ val[i] \in 48..(47 + NA)
RowsAreDistributions == rep = "prob" =>
    \A i \in 1..Len(val) :
      IF abs[i] = Gap
      THEN \A c \in 1..Len(val[i]) : c - 1 < par.nAll[i] => val[i][c] = NaN
      ELSE /\ \A c \in 1..Len(val[i]) : val[i][c] \in 0..1000
           /\ val[i][abs[i] + 1] = par.P
           /\ (par.nAll[i] - 1 <= par.EF => RowSum(val[i]) <= 1000)   \* EF = number of possible non-called alleles
           /\ (par.nAll[i] - 1 = par.EF => RowSum(val[i]) = 1000)
           /\ \A c \in 1..Len(val[i]) : c - 1 >= par.nAll[i] => val[i][c] = 0

(* mutant definitions (Mutant_*.cfg): must be reported violated *)
MutIntOfStr(t) == [i \in 1..Len(t) |-> IF t[i] = GapChar THEN 0 ELSE t[i] - 48]     \* gap read as allele 0
MutStrDenotes == rep = "str" => MutIntOfStr(val) = abs
MutArgMaxFirst == rep = "prob" => [i \in 1..Len(val) |-> IF val[i][1] = NaN THEN Gap ELSE 0] = abs   \* always allele 0
MutRowsSumToOne == rep = "prob" => \A i \in 1..Len(val) : abs[i] # Gap => RowSum(val[i]) = 1000     \* forgets the allele constraint

Dump == PrintT(<<"@@J", ToJson([abs |-> abs, rep |-> rep, val |-> val, hist |-> hist])>>)
=============================================================================
