SPECIFICATION Spec
CONSTANT NA = 3
CONSTANT MaxLen = 2
CONSTANT MaxSteps = 2
CONSTANT Ps <- PsQuick
CONSTANT EFs <- EFsQuick
INVARIANT MutStrDenotes
CHECK_DEADLOCK FALSE
