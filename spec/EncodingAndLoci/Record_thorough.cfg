SPECIFICATION Spec
CONSTANT Mode = "record"
CONSTANT Floats <- FloatsQ
CONSTANT Precs <- PrecsQ
CONSTANT MaxList = 1
CONSTANT InfoMax = 2
INVARIANT NonEmptyNoBlank
INVARIANT MemberCount
INVARIANT FloatMembersFaithful
INVARIANT MissingIsDot
INVARIANT LineColumns
INVARIANT KeyOrderIsColumnOrder
INVARIANT InfoEntriesInOrder
CHECK_DEADLOCK FALSE
CONSTRAINT Dump
