SPECIFICATION Spec
CONSTANT MaxRecs = 3
CONSTANT Positions <- PositionsQ
CONSTANT AlleleTuples <- TuplesQ
INVARIANT MutNeverFails
CHECK_DEADLOCK FALSE
