SPECIFICATION Spec
CONSTANT MaxLines = 2
CONSTANT Contigs <- ContigsQ
CONSTANT Intervals <- IntervalsQ
CONSTANT Names <- NamesQ
CONSTANT Extras <- ExtrasQ
INVARIANT EachOnce
INVARIANT FileOrder
INVARIANT ExtraIgnored
CONSTRAINT Dump
CHECK_DEADLOCK FALSE
