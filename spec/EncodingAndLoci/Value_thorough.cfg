SPECIFICATION Spec
CONSTANT Mode = "value"
CONSTANT Floats <- FloatsT
CONSTANT Precs <- PrecsT
CONSTANT MaxList = 2
CONSTANT InfoMax = 0
INVARIANT NonEmptyNoBlank
INVARIANT MemberCount
INVARIANT FloatMembersFaithful
INVARIANT MissingIsDot
INVARIANT LineColumns
INVARIANT KeyOrderIsColumnOrder
INVARIANT InfoEntriesInOrder
CHECK_DEADLOCK FALSE
CONSTRAINT Dump
