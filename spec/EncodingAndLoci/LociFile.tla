------------------------------ MODULE LociFile ------------------------------
(* X05 (b): a targets (BED) file as a sequence of lines and the stream of    *)
(* loci the programs iterate (docs/assemble.rst, --targets help):            *)
(*   - the first three columns contig, start, stop are mandatory             *)
(*   - an optional fourth column is the locus identifier (reported as ID)    *)
(*   - any further columns are ignored                                       *)
(*   - every target is one locus, in file order, each once                   *)
(* '#' lines (BED comment / header lines) yield nothing.                     *)
(* Actions = the reader's steps: Skip a comment line, Yield a locus.         *)
(* A region string contig:start-stop (--region, --region-id) is one locus.   *)
EXTENDS EncDefs, Json

CONSTANTS MaxLines, Contigs, Intervals, Names, Extras

ContigsQ == {1, 2}
IntervalsQ == {<<0, 5>>, <<10, 25>>}
NamesQ == {0, 1, 2}
ExtrasQ == {0, 1, 2}

Rec(c, iv, nm, ex) == [kind |-> "rec", contig |-> c, start |-> iv[1], stop |-> iv[2], name |-> nm, extra |-> ex]
Comment == [kind |-> "comment", contig |-> 0, start |-> 0, stop |-> 0, name |-> 0, extra |-> 0]
Lines == {Rec(c, iv, nm, ex) : c \in Contigs, iv \in Intervals, nm \in Names, ex \in Extras} \cup {Comment}
RECURSIVE FilesOfLen(_)
FilesOfLen(n) == IF n = 0 THEN {<<>>} ELSE {Append(f, l) : f \in FilesOfLen(n - 1), l \in Lines}

(* name 0 = the column is absent -> the locus has no name *)
LocusOf(l) == [contig |-> l.contig, start |-> l.start, stop |-> l.stop, name |-> l.name]

VARIABLES file, i, out
vars == <<file, i, out>>

Init == /\ \E n \in 0..MaxLines : file \in FilesOfLen(n)
        /\ i = 1 /\ out = <<>>
Skip == /\ i <= Len(file) /\ file[i].kind = "comment"
        /\ i' = i + 1 /\ UNCHANGED <<file, out>>
Yield == /\ i <= Len(file) /\ file[i].kind = "rec"
         /\ out' = Append(out, LocusOf(file[i]))
         /\ i' = i + 1 /\ UNCHANGED file
Next == Skip \/ Yield
Spec == Init /\ [][Next]_vars

RecIdx(k) == {j \in 1..k : file[j].kind = "rec"}
EachOnce == Len(out) = Cardinality(RecIdx(i - 1))
FileOrder == \* the n-th locus is the n-th target line
  \A n \in 1..Len(out) :
    \E j \in RecIdx(i - 1) : /\ Cardinality(RecIdx(j)) = n
                             /\ out[n].contig = file[j].contig /\ out[n].start = file[j].start
                             /\ out[n].stop = file[j].stop /\ out[n].name = file[j].name
ExtraIgnored == \A n \in 1..Len(out) : DOMAIN out[n] = {"contig", "start", "stop", "name"}
(* mutants *)
MutCommentYields == Len(out) = i - 1                 \* every line a locus
MutNameRequired == \A n \in 1..Len(out) : out[n].name # 0

Dump == i = Len(file) + 1 => PrintT(<<"@@J", ToJson([file |-> file, out |-> out])>>)
=============================================================================
