SPECIFICATION Spec
CONSTANT NA = 3
CONSTANT MaxLen = 2
CONSTANT MaxSteps = 2
CONSTANT Ps <- PsQuick
CONSTANT EFs <- EFsQuick
INVARIANT MutRowsSumToOne
CHECK_DEADLOCK FALSE
