------------------------------ MODULE SnpMerge ------------------------------
(* X05 (b): the SNP records of the variants file that fall into one locus    *)
(* become its variant list: one variant per position, in the order the       *)
(* positions are first seen; records repeating a position (multi-allelic     *)
(* sites split over lines) are merged: the reference allele first, then the  *)
(* alternate alleles in first-seen order without repeats.  Records at one    *)
(* position that disagree on the reference allele cannot be merged (error).  *)
(* Actions: Take one record (Append a new variant / Merge / Fail).           *)
EXTENDS EncDefs, Json

CONSTANTS MaxRecs, Positions, AlleleTuples

PositionsQ == {3, 7}
\* A=65 C=67 G=71 T=84
TuplesQ == {<<65, 67>>, <<65, 84>>, <<65, 84, 67>>, <<71, 65>>}

Recs == {[pos |-> p, alleles |-> a] : p \in Positions, a \in AlleleTuples}
RECURSIVE StreamsOfLen(_)
StreamsOfLen(n) == IF n = 0 THEN {<<>>} ELSE {Append(f, r) : f \in StreamsOfLen(n - 1), r \in Recs}

VARIABLES recs, j, variants, err
vars == <<recs, j, variants, err>>

Init == /\ \E n \in 0..MaxRecs : recs \in StreamsOfLen(n)
        /\ j = 1 /\ variants = <<>> /\ err = FALSE

Has(a, x) == \E k \in 1..Len(a) : a[k] = x
RECURSIVE MergeAlleles(_, _)
MergeAlleles(a, b) == IF Len(b) = 0 THEN a
                      ELSE MergeAlleles(IF Has(a, b[1]) THEN a ELSE Append(a, b[1]), Tail(b))
Known(p) == \E k \in 1..Len(variants) : variants[k].pos = p

AppendNew == /\ ~err /\ j <= Len(recs) /\ ~Known(recs[j].pos)
             /\ variants' = Append(variants, recs[j])
             /\ j' = j + 1 /\ UNCHANGED <<recs, err>>
Merge == /\ ~err /\ j <= Len(recs) /\ Known(recs[j].pos)
         /\ LET k == CHOOSE k \in 1..Len(variants) : variants[k].pos = recs[j].pos IN
            IF variants[k].alleles[1] = recs[j].alleles[1]
            THEN /\ variants' = [variants EXCEPT ![k].alleles = MergeAlleles(@, recs[j].alleles)]
                 /\ err' = FALSE
            ELSE /\ err' = TRUE /\ UNCHANGED variants
         /\ j' = j + 1 /\ UNCHANGED recs
Next == AppendNew \/ Merge
Spec == Init /\ [][Next]_vars

Seen == {recs[k] : k \in 1..(j - 1)}
OnePerPosition == \A a, b \in 1..Len(variants) : variants[a].pos = variants[b].pos => a = b
FirstSeenOrder == ~err => \A a, b \in 1..Len(variants) : a < b =>
    (CHOOSE k \in 1..(j - 1) : recs[k].pos = variants[a].pos /\ \A h \in 1..(k - 1) : recs[h].pos # variants[a].pos)
  < (CHOOSE k \in 1..(j - 1) : recs[k].pos = variants[b].pos /\ \A h \in 1..(k - 1) : recs[h].pos # variants[b].pos)
AllelesAreUnion == ~err => \A a \in 1..Len(variants) :
    {variants[a].alleles[k] : k \in 1..Len(variants[a].alleles)}
      = UNION {{r.alleles[k] : k \in 1..Len(r.alleles)} : r \in {r \in Seen : r.pos = variants[a].pos}}
NoRepeatedAllele == \A a \in 1..Len(variants) : \A x, y \in 1..Len(variants[a].alleles) :
    variants[a].alleles[x] = variants[a].alleles[y] => x = y
ReferenceFirst == ~err => \A a \in 1..Len(variants) : \A r \in Seen : r.pos = variants[a].pos => r.alleles[1] = variants[a].alleles[1]
ErrOnlyOnRefClash == err => \E a, b \in Seen : a.pos = b.pos /\ a.alleles[1] # b.alleles[1]
(* mutants *)
MutLastWins == ~err => \A a \in 1..Len(variants) : \A k \in 1..(j - 1) :
    (recs[k].pos = variants[a].pos /\ \A h \in (k + 1)..(j - 1) : recs[h].pos # recs[k].pos) => variants[a].alleles = recs[k].alleles
MutNeverFails == ~err

Dump == (err \/ j = Len(recs) + 1) => PrintT(<<"@@J", ToJson([recs |-> recs, variants |-> variants, err |-> err, taken |-> j - 1])>>)
=============================================================================
