SPECIFICATION Spec
CONSTANT MaxRecs = 3
CONSTANT Positions <- PositionsQ
CONSTANT AlleleTuples <- TuplesQ
INVARIANT OnePerPosition
INVARIANT FirstSeenOrder
INVARIANT AllelesAreUnion
INVARIANT NoRepeatedAllele
INVARIANT ReferenceFirst
INVARIANT ErrOnlyOnRefClash
CONSTRAINT Dump
CHECK_DEADLOCK FALSE
