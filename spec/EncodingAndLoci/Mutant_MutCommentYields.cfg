SPECIFICATION Spec
CONSTANT MaxLines = 2
CONSTANT Contigs <- ContigsQ
CONSTANT Intervals <- IntervalsQ
CONSTANT Names <- NamesQ
CONSTANT Extras <- ExtrasQ
INVARIANT MutCommentYields
CHECK_DEADLOCK FALSE
