SPECIFICATION Spec
CONSTANT NA = 2
CONSTANT MaxRows = 2
CONSTANT MaxLen = 2
INVARIANT MutSortedFromLast
CHECK_DEADLOCK FALSE
