SPECIFICATION Spec
CONSTANT Mode = "value"
CONSTANT Floats <- FloatsQ
CONSTANT Precs <- PrecsQ
CONSTANT MaxList = 1
CONSTANT InfoMax = 0
INVARIANT MutKeepsTrailingZero
CHECK_DEADLOCK FALSE
