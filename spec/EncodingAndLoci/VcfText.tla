------------------------------ MODULE VcfText ------------------------------
(* X05 (c): VCF text of values and records.                                  *)
(* Value machine  : Render one abstract value with a precision (vcfstr).     *)
(* Record machine : FormatInfo -> FormatSamples -> FormatRecord              *)
(*   (format_info_field, format_sample_field, format_record).                *)
(* Rules (VCF 4.3 and the functions' docstrings): a missing value (None,     *)
(* NaN, empty string, empty list) is '.'; list members are joined by ',';    *)
(* floats are rounded to `precision` decimals and written without trailing   *)
(* zeros ("1" not "1.0"); INFO entries key=value joined by ';', a flag is    *)
(* its key alone when true and absent when false, an empty INFO column is    *)
(* '.'; FORMAT keys joined by ':' and every sample column lists its values   *)
(* in that key order joined by ':'; GT alleles joined by '/', a missing      *)
(* allele is '.'; the nine fixed columns and the samples are tab separated.  *)
EXTENDS EncDefs, Json

CONSTANTS Mode, Floats, Precs, MaxList, InfoMax

FloatsQ == {0, 4, 6, 1234, 5000, 10000, 12346, 99996, 200000, -12346}
FloatsT == FloatsQ \cup {1, 100, 1000, 1250, 9996, 123456, 100004, -5000, 30000}
PrecsQ == {0, 1, 3, 4}
PrecsT == {0, 1, 2, 3, 4, 5}

Sc(k, n) == [k |-> k, n |-> n, s |-> <<>>]
Str(s) == [k |-> "str", n |-> 0, s |-> s]
FloatScalars == {Sc("flt", m) : m \in Floats}
Scalars == {Sc("none", 0), Sc("nan", 0), Sc("int", 0), Sc("int", 12), Sc("int", -3), Str(<<>>), Str(<<80, 65, 83, 83>>)}
           \cup FloatScalars \cup {Sc("f32", m) : m \in Floats}
FArr == {Sc("flt", m) : m \in Floats} \cup {Sc("nan", 0)}
RECURSIVE SeqsUpTo(_, _)
SeqsUpTo(S, n) == IF n = 0 THEN {<<>>} ELSE SeqsUpTo(S, n - 1) \cup {Append(s, x) : s \in {t \in SeqsUpTo(S, n - 1) : Len(t) = n - 1}, x \in S}
ListScalars == {Sc("none", 0), Sc("int", 12), Str(<<65>>)} \cup FloatScalars
Values ==
     {[c |-> "scalar", xs |-> <<x>>] : x \in Scalars}
  \cup {[c |-> cc, xs |-> xs] : cc \in {"list", "tuple"}, xs \in SeqsUpTo(ListScalars, MaxList)}
  \cup {[c |-> "farr", xs |-> xs] : xs \in SeqsUpTo(FArr, MaxList)}
  \cup {[c |-> "iarr", xs |-> xs] : xs \in SeqsUpTo({Sc("int", 0), Sc("int", 12), Sc("int", -3)}, MaxList)}
  \cup {[c |-> "nest", xs |-> xs] : xs \in SeqsUpTo(SeqsUpTo({Sc("int", 12), Sc("flt", 12346)}, 2), 2)}

NoTies(v, p) == CASE v.c = "nest" -> \A a \in 1..Len(v.xs) : \A b \in 1..Len(v.xs[a]) : v.xs[a][b].k \in {"flt", "f32"} => ~IsTie(v.xs[a][b].n, p)
                  [] OTHER -> \A a \in 1..Len(v.xs) : v.xs[a].k \in {"flt", "f32"} => ~IsTie(v.xs[a].n, p)

(* ---- record content ---- *)
K(s) == s   \* key text
InfoEntries == { [key |-> <<65, 78>>, flag |-> FALSE, on |-> FALSE, v |-> [c |-> "scalar", xs |-> <<Sc("int", 4)>>]],
                 [key |-> <<65, 70>>, flag |-> FALSE, on |-> FALSE, v |-> [c |-> "farr", xs |-> <<Sc("flt", 5000), Sc("flt", 2500), Sc("nan", 0)>>]],
                 [key |-> <<88>>, flag |-> FALSE, on |-> FALSE, v |-> [c |-> "scalar", xs |-> <<Sc("none", 0)>>]],
                 [key |-> <<70, 76>>, flag |-> TRUE, on |-> TRUE, v |-> [c |-> "scalar", xs |-> <<Sc("none", 0)>>]],
                 [key |-> <<79, 70>>, flag |-> TRUE, on |-> FALSE, v |-> [c |-> "scalar", xs |-> <<Sc("none", 0)>>]],
                 [key |-> <<83>>, flag |-> FALSE, on |-> FALSE, v |-> [c |-> "list", xs |-> <<Sc("int", 12), Sc("none", 0)>>]],
                 [key |-> <<81>>, flag |-> FALSE, on |-> FALSE, v |-> [c |-> "scalar", xs |-> <<Sc("flt", 99996)>>]] }
DistinctKeys(es) == \A a, b \in 1..Len(es) : es[a].key = es[b].key => a = b
Infos == {es \in SeqsUpTo(InfoEntries, InfoMax) : DistinctKeys(es)}
Genotypes == {<<0, 1>>, <<-1, -1>>, <<0, 2, -1>>}
SampleVals == { [gt |-> g, dp |-> d, pr |-> q] : g \in Genotypes,
                d \in {[c |-> "scalar", xs |-> <<Sc("int", 12)>>], [c |-> "scalar", xs |-> <<Sc("none", 0)>>]},
                q \in {[c |-> "list", xs |-> <<Sc("flt", 5000), Sc("flt", 12346)>>], [c |-> "farr", xs |-> <<Sc("nan", 0), Sc("flt", 10000)>>]} }
KeyOrders == {<<"GT">>, <<"GT", "DP">>, <<"GT", "PR", "DP">>, <<"DP", "GT", "PR">>}
Columns == { [chrom |-> <<99, 49>>, pos |-> 7, id |-> i, ref |-> <<65>>, alt |-> a, filter |-> f] :
             i \in {<<>>, <<108, 111, 99>>}, a \in {<<>>, <<<<67>>>>, <<<<67>>, <<84>>>>}, f \in {<<>>, <<80, 65, 83, 83>>} }

VARIABLES stage, v, prec, text, rec, info, fmt, line
vars == <<stage, v, prec, text, rec, info, fmt, line>>

NoRec == [info |-> <<>>, keys |-> <<>>, samples |-> <<>>, cols |-> [chrom |-> <<>>, pos |-> 0, id |-> <<>>, ref |-> <<>>, alt |-> <<>>, filter |-> <<>>]]
InitValue == /\ Mode = "value"
             /\ v \in Values /\ prec \in Precs /\ NoTies(v, prec)
             /\ stage = "value" /\ text = <<>> /\ rec = NoRec /\ info = <<>> /\ fmt = <<>> /\ line = <<>>
InitRecord == /\ Mode = "record"
              /\ \E es \in Infos, ks \in KeyOrders, s1 \in SampleVals, cs \in Columns, ns \in 1..2 :
                   rec = [info |-> es, keys |-> ks, cols |-> cs,
                          samples |-> IF ns = 1 THEN <<s1>> ELSE <<s1, [s1 EXCEPT !.gt = <<-1, -1>>, !.dp = [c |-> "scalar", xs |-> <<Sc("none", 0)>>]]>>]
              /\ prec = 3 /\ stage = "rec" /\ v = [c |-> "scalar", xs |-> <<Sc("none", 0)>>]
              /\ text = <<>> /\ info = <<>> /\ fmt = <<>> /\ line = <<>>
Init == InitValue \/ InitRecord

Render == /\ stage = "value"
          /\ text' = ValueText(v, prec)
          /\ stage' = "rendered"
          /\ UNCHANGED <<v, prec, rec, info, fmt, line>>

InfoText(es, p) ==
  LET shown == SelectSeq(es, LAMBDA e : ~e.flag \/ e.on)
  IN Join([a \in 1..Len(shown) |-> IF shown[a].flag THEN shown[a].key ELSE shown[a].key \o <<61>> \o ValueText(shown[a].v, p)], 59)
GtText(g) == Join([a \in 1..Len(g) |-> IF g[a] < 0 THEN <<Dot>> ELSE IntText(g[a])], 47)
KeyText(k) == CASE k = "GT" -> <<71, 84>> [] k = "DP" -> <<68, 80>> [] k = "PR" -> <<80, 82>>
FieldText(s, k, p) == CASE k = "GT" -> GtText(s.gt) [] k = "DP" -> ValueText(s.dp, p) [] k = "PR" -> ValueText(s.pr, p)
SampleText(s, ks, p) == Join([a \in 1..Len(ks) |-> FieldText(s, ks[a], p)], 58)
FormatText(r, p) == Join(<<Join([a \in 1..Len(r.keys) |-> KeyText(r.keys[a])], 58)>> \o [a \in 1..Len(r.samples) |-> SampleText(r.samples[a], r.keys, p)], Tab)
OrDot(t) == IF Len(t) = 0 THEN <<Dot>> ELSE t

FormatInfo == /\ stage = "rec" /\ info' = InfoText(rec.info, prec) /\ stage' = "info"
              /\ UNCHANGED <<v, prec, text, rec, fmt, line>>
FormatSamples == /\ stage = "info" /\ fmt' = FormatText(rec, prec) /\ stage' = "fmt"
                 /\ UNCHANGED <<v, prec, text, rec, info, line>>
FormatRecord == /\ stage = "fmt"
                /\ line' = Join(<<rec.cols.chrom, IntText(rec.cols.pos), OrDot(rec.cols.id), rec.cols.ref,
                                  OrDot(Join(rec.cols.alt, Comma)), <<Dot>>, OrDot(rec.cols.filter), OrDot(info), fmt>>, Tab)
                /\ stage' = "line"
                /\ UNCHANGED <<v, prec, text, rec, info, fmt>>
Next == Render \/ FormatInfo \/ FormatSamples \/ FormatRecord
Spec == Init /\ [][Next]_vars

(* ---- invariants ---- *)
RECURSIVE SplitOn(_, _)
SplitOn(t, c) == IF \A a \in 1..Len(t) : t[a] # c THEN <<t>>
                 ELSE LET k == CHOOSE k \in 1..Len(t) : t[k] = c /\ \A h \in 1..(k - 1) : t[h] # c
                      IN <<SubSeq(t, 1, k - 1)>> \o SplitOn(SubSeq(t, k + 1, Len(t)), c)
FlatScalars == IF v.c = "nest" THEN Concat(v.xs) ELSE v.xs
NonEmptyNoBlank == stage = "rendered" => Len(text) > 0 /\ \A a \in 1..Len(text) : text[a] \notin {32, Tab, 10}
MemberCount == stage = "rendered" /\ v.c # "nest" =>
    Len(SplitOn(text, Comma)) = (IF Len(v.xs) = 0 THEN 1 ELSE Len(v.xs))
(* every float member reads back (independent decimal reader) to within half a unit of the last kept decimal, *)
(* has at most `prec` decimals and no trailing zero                                                           *)
FloatMembersFaithful == stage = "rendered" /\ v.c \in {"scalar", "list", "tuple", "farr"} =>
    \A a \in 1..Len(v.xs) : v.xs[a].k \in {"flt", "f32"} =>
      LET t == SplitOn(text, Comma)[a]
          pd == ParseDec(t)
      IN /\ IsDecimal(t)
         /\ pd[3] <= prec
         /\ (pd[3] > 0 => t[Len(t)] # 48)
         /\ 2 * AbsI(pd[1] * pd[2] * Pow10(4 - pd[3]) - v.xs[a].n) * Pow10(IF prec > 4 THEN prec - 4 ELSE 0)
              <= (IF prec >= 4 THEN 0 ELSE Pow10(4 - prec))
MissingIsDot == stage = "rendered" /\ v.c # "nest" =>
    \A a \in 1..Len(v.xs) : v.xs[a].k \in {"none", "nan"} => SplitOn(text, Comma)[a] = <<Dot>>
LineColumns == stage = "line" => /\ Len(SplitOn(line, Tab)) = 9 + Len(rec.samples)
                                 /\ \A a \in 1..Len(SplitOn(line, Tab)) : Len(SplitOn(line, Tab)[a]) > 0
KeyOrderIsColumnOrder == stage \in {"fmt", "line"} =>
    LET cols == SplitOn(fmt, Tab) IN
    /\ Len(SplitOn(cols[1], 58)) = Len(rec.keys)
    /\ \A a \in 2..Len(cols) : Len(SplitOn(cols[a], 58)) = Len(rec.keys)
    /\ \A a \in 2..Len(cols) : \A k \in 1..Len(rec.keys) :
         rec.keys[k] = "GT" => SplitOn(cols[a], 58)[k] = GtText(rec.samples[a - 1].gt)
InfoEntriesInOrder == stage \in {"info", "fmt", "line"} =>
    LET shown == SelectSeq(rec.info, LAMBDA e : ~e.flag \/ e.on) IN
    IF Len(shown) = 0 THEN info = <<>>
    ELSE LET parts == SplitOn(info, 59) IN
         /\ Len(parts) = Len(shown)
         /\ \A a \in 1..Len(shown) : SubSeq(parts[a], 1, Len(shown[a].key)) = shown[a].key
         /\ \A a \in 1..Len(shown) : shown[a].flag <=> Count(parts[a], 61) = 0
(* mutants *)
MutKeepsTrailingZero == stage = "rendered" /\ v.c = "scalar" /\ v.xs[1].k = "flt" => Count(text, Dot) = 1
MutTruncates == stage = "rendered" /\ v.c = "scalar" /\ v.xs[1].k = "flt" /\ prec <= 4 /\ v.xs[1].n >= 0 =>
    LET pd == ParseDec(text) IN pd[2] * Pow10(4 - pd[3]) <= v.xs[1].n
MutFalseFlagShown == stage = "info" /\ Len(rec.info) > 0 => Len(info) > 0

Dump == CASE stage = "rendered" -> PrintT(<<"@@J", ToJson([kind |-> "value", v |-> v, prec |-> prec, text |-> text])>>)
          [] stage = "line" -> PrintT(<<"@@J", ToJson([kind |-> "record", rec |-> rec, info |-> info, fmt |-> fmt, line |-> line])>>)
          [] OTHER -> TRUE
=============================================================================
