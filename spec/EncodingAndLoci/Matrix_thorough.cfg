SPECIFICATION Spec
CONSTANT NA = 3
CONSTANT MaxRows = 3
CONSTANT MaxLen = 2
INVARIANT PermIsPermutation
INVARIANT SortedIsOrdered
INVARIANT SortedIsRearrangement
INVARIANT SortedUnique
INVARIANT DepthInvariantUnderSort
INVARIANT DepthBounds
CONSTRAINT Dump
CHECK_DEADLOCK FALSE
