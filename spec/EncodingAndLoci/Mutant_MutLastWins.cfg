SPECIFICATION Spec
CONSTANT MaxRecs = 3
CONSTANT Positions <- PositionsQ
CONSTANT AlleleTuples <- TuplesQ
INVARIANT MutLastWins
CHECK_DEADLOCK FALSE
