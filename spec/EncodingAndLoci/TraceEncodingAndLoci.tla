----------------------- MODULE TraceEncodingAndLoci -----------------------
(* X05 code -> spec: calls recorded from the real code (direct calls and runs *)
(* of `mchap assemble` / `mchap call` on the repository test data) validated  *)
(* against the operators of EncDefs.  One line per call, a named verdict each.*)
(* Floats cross as round(v * 10^6) (|v| < 2000), text as character codes.     *)
EXTENDS EncDefs, Json, IOUtils

Trace == JsonDeserialize(IOEnv.TRACE_FILE)
VARIABLES l, bad
vars == <<l, bad>>

RECURSIVE SplitOn(_, _)
SplitOn(t, c) == IF \A a \in 1..Len(t) : t[a] # c THEN <<t>>
                 ELSE LET k == CHOOSE k \in 1..Len(t) : t[k] = c /\ \A h \in 1..(k - 1) : t[h] # c
                      IN <<SubSeq(t, 1, k - 1)>> \o SplitOn(SubSeq(t, k + 1, Len(t)), c)
Near(a, b, tol) == AbsI(a - b) <= tol
OrDot(t) == IF Len(t) = 0 THEN <<Dot>> ELSE t

(* a probabilistic row in micro units against the documented rule *)
RowOk(a, nAll, P, EF, row) ==
  \A c \in 1..Len(row) :
    IF a = Gap THEN (c - 1 < nAll => row[c] = NaN)
    ELSE IF c - 1 >= nAll THEN row[c] = 0
    ELSE IF c - 1 = a THEN Near(row[c], P, 2) ELSE Near(row[c] * EF, 1000000 - P, 2 + 2 * EF)

(* one member of a rendered value: kind none / nan / int / flt(n = micro units) / str / big *)
MemberOk(x, t, p) ==
  CASE x.k \in {"none", "nan"} -> t = <<Dot>>
    [] x.k = "int" -> t = IntText(x.n)
    [] x.k = "str" -> t = OrDot(x.s)
    [] x.k = "flt" -> /\ IsDecimal(t)
                      /\ LET pd == ParseDec(t) IN
                         /\ pd[3] <= p /\ pd[3] <= 6
                         /\ (pd[3] > 0 => t[Len(t)] # 48)
                         /\ 2 * AbsI(pd[1] * pd[2] * Pow10(6 - pd[3]) - x.n) <= Pow10(6 - p) + 4
    [] x.k = "big" -> IsDecimal(t) \/ \E a \in 1..Len(t) : t[a] = 101
    [] OTHER -> FALSE

GtText(g) == Join([a \in 1..Len(g) |-> IF g[a] < 0 THEN <<Dot>> ELSE IntText(g[a])], 47)

Verdict(e) ==
  CASE e.op = "from_strings" -> IF e.out = IntOfStr(e.text) THEN "ok" ELSE "StringToInteger"
    [] e.op = "as_strings" -> IF e.text = StrOf(e.ints) THEN "ok" ELSE "IntegerToString"
    [] e.op = "as_characters" -> IF e.chars = CharsOf(e.ints, e.table) THEN "ok" ELSE "IntegerToCharacters"
    [] e.op = "as_allelic" -> IF e.out = IntOfChars(e.chars, e.table) THEN "ok" ELSE "CharactersToInteger"
    [] e.op = "as_probabilistic" ->
         IF Len(e.rows) # Len(e.ints) THEN "ProbabilisticShape"
         ELSE IF \A a \in 1..Len(e.ints) : RowOk(e.ints[a], e.nAll[a], e.P[a], e.EF, e.rows[a]) THEN "ok" ELSE "ProbabilisticRows"
    [] e.op = "argsort" -> IF SortsBy(e.m, [a \in 1..Len(e.perm) |-> e.perm[a] + 1]) THEN "ok" ELSE "ArgsortSorts"
    [] e.op = "depth" -> IF e.out = DepthOf(e.m, Len(e.out)) THEN "ok" ELSE "DepthCountsCalls"
    [] e.op = "vcfstr" ->
         IF Len(e.xs) = 0 THEN (IF e.text = <<Dot>> THEN "ok" ELSE "EmptyIsDot")
         ELSE LET parts == SplitOn(e.text, Comma) IN
              IF Len(parts) # Len(e.xs) THEN "MembersJoinedByComma"
              ELSE IF \A a \in 1..Len(parts) : MemberOk(e.xs[a], parts[a], e.prec) THEN "ok" ELSE "MemberText"
    [] e.op = "info" ->
         LET shown == SelectSeq(e.entries, LAMBDA x : x.kind # "off") IN
         IF Len(shown) = 0 THEN (IF e.text = <<>> THEN "ok" ELSE "EmptyInfo")
         ELSE LET parts == SplitOn(e.text, 59) IN
              IF Len(parts) # Len(shown) THEN "InfoEntryCount"
              ELSE IF \A a \in 1..Len(parts) :
                        IF shown[a].kind = "on" THEN parts[a] = shown[a].key
                        ELSE SubSeq(parts[a], 1, Len(shown[a].key) + 1) = shown[a].key \o <<61>> /\ Len(parts[a]) > Len(shown[a].key) + 1
                   THEN "ok" ELSE "InfoEntryText"
    [] e.op = "sample" ->
         LET cols == SplitOn(e.text, Tab) IN
         IF Len(cols) # 1 + Len(e.gts) THEN "SampleColumns"
         ELSE IF cols[1] # Join(e.keys, 58) THEN "FormatKeys"
         ELSE IF \E a \in 2..Len(cols) : Len(SplitOn(cols[a], 58)) # Len(e.keys) THEN "KeyOrderIsColumnOrder"
         ELSE IF \E a \in 2..Len(cols) : SplitOn(cols[a], 58)[e.gtat] # GtText(e.gts[a - 1]) THEN "GenotypeText"
         ELSE "ok"
    [] e.op = "record" -> IF e.text = Join([a \in 1..Len(e.fields) |-> OrDot(e.fields[a])], Tab) THEN "ok" ELSE "RecordColumns"
    [] e.op = "locus" -> IF e.got = e.want THEN "ok" ELSE "LocusIsTargetLine"
    [] e.op = "loci_end" -> IF e.count = e.targets THEN "ok" ELSE "EachTargetOnce"
    [] e.op = "merge" ->
         LET Has(a, x) == \E k \in 1..Len(a) : a[k] = x IN
         IF /\ SubSeq(e.out, 1, Len(e.x)) = e.x
            /\ \A k \in 1..Len(e.y) : Has(e.out, e.y[k])
            /\ \A k \in 1..Len(e.out) : Has(e.x, e.out[k]) \/ Has(e.y, e.out[k])
            /\ \A a, b \in 1..Len(e.out) : e.out[a] = e.out[b] => a = b
         THEN "ok" ELSE "MergedAlleles"
    [] OTHER -> "UnknownEvent"

Init == l = 1 /\ bad = 0
Next == /\ l <= Len(Trace)
        /\ LET v == Verdict(Trace[l])
           IN  /\ IF v = "ok" THEN TRUE ELSE PrintT(<<"@@J", ToJson([reject |-> l, clause |-> v])>>)
               /\ bad' = IF v = "ok" THEN bad ELSE bad + 1
        /\ l' = l + 1
Spec == Init /\ [][Next]_vars
Consumed == (l = Len(Trace) + 1) => PrintT(<<"@@J", ToJson([consumed |-> l - 1, rejected |-> bad])>>)
=============================================================================
