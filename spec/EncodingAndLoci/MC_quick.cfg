SPECIFICATION Spec
CONSTANT NA = 3
CONSTANT MaxLen = 3
CONSTANT MaxSteps = 3
CONSTANT Ps <- PsQuick
CONSTANT EFs <- EFsQuick
INVARIANT AbstractionPreserved
INVARIANT LengthPreserved
INVARIANT GapCallPartition
INVARIANT StringAlphabet
INVARIANT RowsAreDistributions
CONSTRAINT Dump
CHECK_DEADLOCK FALSE
