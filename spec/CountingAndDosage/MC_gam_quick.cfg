SPECIFICATION Spec
CONSTANT Insts <- InstsQuick
CONSTANT Mix <- MixQuick
INVARIANT GameteDistProper
INVARIANT CrossDistProper
INVARIANT CrossSymmetric
INVARIANT GameteIsSubBag
INVARIANT GameteMeanIsHalfDose
INVARIANT EggReachable
INVARIANT KidReachable
INVARIANT SupportReached
CONSTRAINT Dump
CHECK_DEADLOCK FALSE
