SPECIFICATION Spec
CONSTANT Grid <- GridQuick
INVARIANT MutPermsOrderedDoses
CHECK_DEADLOCK FALSE
