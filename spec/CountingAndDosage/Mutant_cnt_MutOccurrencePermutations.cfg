SPECIFICATION Spec
CONSTANT Grid <- GridQuick
INVARIANT MutOccurrencePermutations
CHECK_DEADLOCK FALSE
