SPECIFICATION Spec
CONSTANT Insts <- InstsThorough
CONSTANT Mix <- MixThorough
INVARIANT GameteDistProper
INVARIANT CrossDistProper
INVARIANT CrossSymmetric
INVARIANT GameteIsSubBag
INVARIANT GameteMeanIsHalfDose
INVARIANT EggReachable
INVARIANT KidReachable
INVARIANT SupportReached
CONSTRAINT Dump
CHECK_DEADLOCK FALSE
