SPECIFICATION Spec
CONSTANT Grid <- GridQuick
INVARIANT MutDosageLastRow
CHECK_DEADLOCK FALSE
