SPECIFICATION Spec
CONSTANT Insts <- InstsQuick
CONSTANT Mix <- MixQuick
INVARIANT MutGameteWithReplacement
CHECK_DEADLOCK FALSE
