------------------------------ MODULE CADDefs ------------------------------
(* X04 shared definitions: genotypes as ORDERED tuples of haplotype ids,     *)
(* multisets as count vectors, the documented dosage vector, the number of   *)
(* equivalent orderings BY ENUMERATION, and meiosis/fertilisation from first *)
(* principles (equally likely index subsets).  Nothing here transcribes the  *)
(* implementation: counts are cardinalities of enumerated sets.              *)
EXTENDS Integers, Sequences, FiniteSets, TLC, Rational

RECURSIVE FactD(_)
FactD(n) == IF n = 0 THEN 1 ELSE n * FactD(n - 1)
RECURSIVE ChooseD(_, _)
ChooseD(n, k) == IF k = 0 THEN 1 ELSE IF k > n THEN 0 ELSE (ChooseD(n - 1, k - 1) * n) \div k
RECURSIVE PowD(_, _)
PowD(b, e) == IF e = 0 THEN 1 ELSE b * PowD(b, e - 1)

Cnt(t, a) == Cardinality({i \in 1..Len(t) : t[i] = a})
SortedT(t) == \A i \in 1..(Len(t) - 1) : t[i] <= t[i + 1]
Tuples(u, p) == [1..p -> 1..u]                     \* ordered genotypes ("permutations")
Multisets(u, p) == {t \in Tuples(u, p) : SortedT(t)}    \* one representative per multiset
BagOf(t, u) == [a \in 1..u |-> Cnt(t, a)]

(* documented dosage vector (get_haplotype_dosage docstring): the FIRST row   *)
(* of each distinct haplotype carries its number of copies, every later      *)
(* duplicate row carries 0; the vector sums to the ploidy                    *)
DosageOf(g) == [h \in 1..Len(g) |->
   IF \E k \in 1..(h - 1) : g[k] = g[h] THEN 0 ELSE Cardinality({k \in 1..Len(g) : g[k] = g[h]})]

RECURSIVE SumSeqD(_, _)
SumSeqD(s, i) == IF i = 0 THEN 0 ELSE s[i] + SumSeqD(s, i - 1)
SumD(s) == SumSeqD(s, Len(s))
RECURSIVE ProdFactSeq(_, _)
ProdFactSeq(s, i) == IF i = 0 THEN 1 ELSE FactD(s[i]) * ProdFactSeq(s, i - 1)

(* number of equivalent orderings of a genotype: DEFINED by enumeration       *)
Orderings(g) == LET p == Len(g) IN
   {[i \in 1..p |-> g[f[i]]] : f \in Permutations(1..p)}      \* TLC module: all bijections of 1..p
PermCountEnum(g) == Cardinality(Orderings(g))
(* the closed form the code uses: ploidy! / prod dosage!                     *)
PermCountClosed(d) == FactD(SumD(d)) \div ProdFactSeq(d, Len(d))

(* ---- meiosis without double reduction: a gamete is the haplotypes at an   *)
(* equally likely index subset of size ploidy/2                              *)
HalfSubsets(p) == {S \in SUBSET (1..p) : Cardinality(S) = p \div 2}
BagAt(g, S, u) == [a \in 1..u |-> Cardinality({i \in S : g[i] = a})]
GameteBags(u, h) == {b \in [1..u -> 0..h] : SumD(b) = h}     \* functions over 1..u are sequences
(* probability of gamete bag b from a single genotype g                      *)
GamProb1(g, b, u) == RMake(Cardinality({S \in HalfSubsets(Len(g)) : BagAt(g, S, u) = b}),
                            Cardinality(HalfSubsets(Len(g))))
(* mixture: comps = sequence of <<genotype, weight>>                         *)
RECURSIVE GamProbMix(_, _, _, _)
GamProbMix(comps, b, u, i) ==
   IF i = 0 THEN RZero ELSE RAdd(RMul(comps[i][2], GamProb1(comps[i][1], b, u)), GamProbMix(comps, b, u, i - 1))
GameteDist(comps, u) == LET h == Len(comps[1][1]) \div 2 IN
   [b \in GameteBags(u, h) |-> GamProbMix(comps, b, u, Len(comps))]

RECURSIVE RSumSet(_, _)
RSumSet(f, S) == IF S = {} THEN RZero ELSE LET x == CHOOSE y \in S : TRUE IN RAdd(f[x], RSumSet(f, S \ {x}))
RSumFn(f) == RSumSet(f, DOMAIN f)

BagAdd(a, b) == [k \in DOMAIN a |-> a[k] + b[k]]
(* fertilisation: independent gametes; offspring bag = union with counts      *)
CrossDist(dm, dp, u, p) ==
   [k \in GameteBags(u, p) |->
      LET pairs == {pr \in (DOMAIN dm) \X (DOMAIN dp) : BagAdd(pr[1], pr[2]) = k}
          term == [pr \in pairs |-> RMul(dm[pr[1]], dp[pr[2]])]
      IN  RSumFn(term)]
DistAsSeq(d) == LET S == {b \in DOMAIN d : d[b] # RZero}
                    RECURSIVE Lst(_)
                    Lst(T) == IF T = {} THEN <<>> ELSE LET x == CHOOSE y \in T : TRUE
                                                      IN <<[bag |-> x, pr |-> d[x]]>> \o Lst(T \ {x})
                IN Lst(S)
=============================================================================
