-------------------------- MODULE CountingAndDosage --------------------------
(* X04 (a): counting and the dosage state machine.                           *)
(* One behaviour family per instance <<alleles-per-position, ploidy>>: the   *)
(* state is an ORDERED genotype (tuple of haplotype ids); the actions are the *)
(* edits the samplers make (change one haplotype, overwrite one haplotype by *)
(* a copy of another = dosage swap, reorder, set a whole target dosage).     *)
(* The instance counts are cardinalities of enumerated sets, computed once.  *)
EXTENDS CADDefs, Json

CONSTANT Grid
GridQuick == {<< <<2>>, 2 >>, << <<3>>, 2 >>, << <<2, 2>>, 2 >>, << <<2>>, 4 >>, << <<3>>, 3 >>, << <<3>>, 4 >>,
              << <<2, 2>>, 3 >>, << <<2>>, 5 >>, << <<1>>, 3 >>, << <<2, 1, 2>>, 4 >>}
GridThorough == GridQuick \cup {<< <<2>>, 6 >>, << <<3>>, 5 >>, << <<2, 3>>, 4 >>, << <<2, 2, 2>>, 3 >>,
              << <<5>>, 4 >>, << <<2, 4>>, 3 >>, << <<7>>, 3 >>}

VARIABLES ua, u, p, g, cnt, stepok
vars == <<ua, u, p, g, cnt, stepok>>

MaxA(s) == CHOOSE m \in {s[i] : i \in 1..Len(s)} : \A i \in 1..Len(s) : s[i] <= m
HapSet(s) == {h \in [1..Len(s) -> 0..(MaxA(s) - 1)] : \A j \in 1..Len(s) : h[j] < s[j]}
RECURSIVE ProdSeq(_, _)
ProdSeq(s, i) == IF i = 0 THEN 1 ELSE s[i] * ProdSeq(s, i - 1)

Counts(s, pp) == LET uu == Cardinality(HapSet(s))
                     ms == Multisets(uu, pp)
                 IN [haps   |-> uu,
                     tuples |-> Cardinality(Tuples(uu, pp)),
                     msets  |-> Cardinality(ms),
                     \* occurrences of ONE fixed haplotype (id 1) over all unique genotypes, counted slot by slot
                     occ    |-> Cardinality({x \in ms \X (1..pp) : x[1][x[2]] = 1})]

Init == /\ \E inst \in Grid : ua = inst[1] /\ p = inst[2]
        /\ cnt = TLCEval(Counts(ua, p))
        /\ u = cnt.haps
        /\ g = [i \in 1..p |-> 1]
        /\ stepok = "ok"

(* the step guarantees, evaluated on every transition (the verdict is kept in the state) *)
SwapLaw(a, b) == /\ BagOf(b, u) = BagOf(a, u)
                 /\ \A n \in 0..p : Cnt(DosageOf(b), n) = Cnt(DosageOf(a), n)
                 /\ PermCountClosed(DosageOf(b)) = PermCountClosed(DosageOf(a))
CopyLaw(a, b, i, j) == /\ Cnt(b, a[i]) = Cnt(a, a[i]) + 1
                       /\ Cnt(b, a[j]) = Cnt(a, a[j]) - 1
SetLaw(a, b, d) == \A k \in 1..p : d[k] > 0 => Cnt(b, a[k]) = d[k]
Emit(o, t) == PrintT(<<"@@J", ToJson([kind |-> "step", u |-> u, p |-> p, prev |-> g, op |-> o, tgt |-> t, g |-> g'])>>)

Mutate == \E i \in 1..p, a \in 1..u : a # g[i] /\ g' = [g EXCEPT ![i] = a] /\ stepok' = "ok" /\ Emit("mutate", <<i, a>>)
Copy   == \E i, j \in 1..p : /\ g[i] # g[j] /\ g' = [g EXCEPT ![j] = g[i]]
                             /\ stepok' = (IF CopyLaw(g, g', i, j) THEN "ok" ELSE "copy") /\ Emit("copy", <<i, j>>)
Swap   == \E i, j \in 1..p : /\ i < j /\ g[i] # g[j] /\ g' = [g EXCEPT ![i] = g[j], ![j] = g[i]]
                             /\ stepok' = (IF SwapLaw(g, g') THEN "ok" ELSE "swap") /\ Emit("swap", <<i, j>>)
(* target dosages in the documented domain: sum = ploidy, positive entries on pairwise different haplotypes *)
Targets == {d \in [1..p -> 0..p] : /\ SumD(d) = p
                                   /\ \A a, b \in 1..p : (a # b /\ d[a] > 0 /\ d[b] > 0) => g[a] # g[b]}
SetDose == \E d \in Targets :
             /\ d # DosageOf(g)
             /\ g' = CHOOSE t \in Tuples(u, p) : /\ \A k \in 1..p : d[k] > 0 => t[k] = g[k]
                                                 /\ \A k \in 1..p : d[k] > 0 => Cnt(t, g[k]) = d[k]
             /\ stepok' = (IF SetLaw(g, g', d) THEN "ok" ELSE "set") /\ Emit("set", d)
Next == /\ (Mutate \/ Copy \/ Swap \/ SetDose)
        /\ UNCHANGED <<ua, u, p, cnt>>
Spec == Init /\ [][Next]_vars

(* ---- invariants: the documented guarantees ------------------------------- *)
Dose == DosageOf(g)
Initial == g = [i \in 1..p |-> 1]
TypeOK == g \in Tuples(u, p)
DosageSumsToPloidy == SumD(Dose) = p
DosageFirstRowCarries == \A h \in 1..p : (Dose[h] = 0) <=> (\E k \in 1..(h - 1) : g[k] = g[h])
PermsClosedFormIsEnumeration == PermCountClosed(Dose) = PermCountEnum(g)
PermsCountsSameMultiset ==   \* the orderings are exactly the ordered tuples with the same multiset
   Initial => \A t \in Multisets(u, p) :
        Cardinality({x \in Tuples(u, p) : BagOf(x, u) = BagOf(t, u)}) = PermCountClosed(DosageOf(t))
StepGuarantees == stepok = "ok"
(* closed forms of mchap.combinatorics against the enumerated cardinalities   *)
HaplotypesClosed == cnt.haps = ProdSeq(ua, Len(ua))
TuplesClosed == cnt.tuples = PowD(u, p)
MultisetsClosed == cnt.msets = ChooseD(u + p - 1, p)
OccurrenceClosed == cnt.occ = FactD(u + p - 1) \div (FactD(p - 1) * FactD(u))
SumOfOrderingsIsTuples ==    \* every ordered tuple is an ordering of exactly one multiset
   Initial => LET ms == Multisets(u, p)
                      RECURSIVE S(_)
                      S(T) == IF T = {} THEN 0 ELSE LET x == CHOOSE y \in T : TRUE
                                                   IN PermCountClosed(DosageOf(x)) + S(T \ {x})
                  IN S(ms) = cnt.tuples

(* ---- mutant definitions (each must be reported violated) ----------------- *)
MutPermsOrderedDoses == FactD(p) \div FactD(Cnt(g, g[1])) = PermCountEnum(g)          \* divides by one dose only
MutMultisetsNoRepetition == cnt.msets = ChooseD(u, p)                                 \* without repetition
MutOccurrencePermutations == cnt.occ = p * PowD(u, p - 1)                             \* occurrences over ORDERED genotypes
MutDosageLastRow ==   \* the LAST copy carries the count
   \A h \in 1..p : (Dose[h] = 0) <=> (\E k \in (h + 1)..p : g[k] = g[h])

Dump == PrintT(<<"@@J", ToJson([kind |-> "state", ua |-> ua, u |-> u, p |-> p, g |-> g,
                                d |-> Dose, perms |-> PermCountEnum(g), cnt |-> cnt])>>)
=============================================================================
