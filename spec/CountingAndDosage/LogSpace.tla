------------------------------ MODULE LogSpace ------------------------------
(* X04 (b): the log-space helpers of mchap.jitutils, modelled on the         *)
(* UN-transformed weights with exact rationals.  The state is the vector of  *)
(* weights consumed so far and the accumulator of the documented fold        *)
(* ("log-transformed sum of the un-transformed values"); a weight 0 is the   *)
(* value whose logarithm is -inf.                                            *)
EXTENDS CADDefs, Json

CONSTANTS MaxLen, WeightSet
WQuick == {<<0, 1>>, <<1, 4>>, <<1, 3>>, <<1, 2>>, <<1, 1>>, <<2, 1>>, <<3, 1>>}
WThorough == WQuick \cup {<<1, 1000>>, <<7, 1>>}

VARIABLES w, acc
vars == <<w, acc>>

Init == \E x \in WeightSet : w = <<x>> /\ acc = x
Push == /\ Len(w) < MaxLen
        /\ \E x \in WeightSet : w' = Append(w, x) /\ acc' = RAdd(acc, x)     \* one add_log_prob step of the fold
Next == Push
Spec == Init /\ [][Next]_vars

Norm == [i \in 1..Len(w) |-> RDiv(w[i], acc)]            \* defined when acc # 0
ArgMax == {i \in 1..Len(w) : \A j \in 1..Len(w) : RLeq(w[j], w[i])}
(* inverse CDF: the choice made for a uniform draw t (given as a rational)    *)
RECURSIVE Cdf(_, _)
Cdf(n, i) == IF i = 0 THEN RZero ELSE RAdd(n[i], Cdf(n, i - 1))
Choice(n, t) == Cardinality({i \in 1..Len(n) : RLeq(Cdf(n, i), t)})     \* 0-based index, side = "right"
Ticks == {<<2 * k + 1, 64>> : k \in 0..31}
TickSeq == [k \in 1..32 |-> <<2 * k - 1, 64>>]

AccIsSum == acc = RSum(w)
AccOrderFree == Len(w) >= 2 => acc = RAdd(w[Len(w)], RSum(SubSeq(w, 1, Len(w) - 1)))
SumZeroIffAllZero == (acc = RZero) <=> (\A i \in 1..Len(w) : w[i] = RZero)
NormSumsToOne == acc # RZero => RSum(Norm) = ROne
NormInUnit == acc # RZero => \A i \in 1..Len(w) : RLeq(RZero, Norm[i]) /\ RLeq(Norm[i], ROne)
NormProportional == acc # RZero => \A i, j \in 1..Len(w) : RMul(Norm[i], w[j]) = RMul(Norm[j], w[i])
ArgMaxExists == ArgMax # {}
ChoiceHasWeight == acc # RZero => \A t \in Ticks : Choice(Norm, t) < Len(w) /\ w[Choice(Norm, t) + 1] # RZero

(* mutants *)
MaxOf == w[CHOOSE i \in ArgMax : TRUE]
MutNormByMax == acc # RZero => RSum([i \in 1..Len(w) |-> RDiv(w[i], MaxOf)]) = ROne
MutChoiceUnnormalised == acc # RZero => \A t \in Ticks : Choice(w, t) < Len(w)      \* forgets to normalise before the inverse CDF
MutSumSkipsFirst == acc = RSum(Tail(w))

Dump == PrintT(<<"@@J", ToJson([w |-> w, sum |-> acc,
                                norm |-> IF acc = RZero THEN <<>> ELSE Norm,
                                argmax |-> [i \in 1..Len(w) |-> IF i \in ArgMax THEN 1 ELSE 0],
                                choice |-> IF acc = RZero THEN <<>> ELSE [k \in 1..32 |-> Choice(Norm, TickSeq[k])]])>>)
=============================================================================
