SPECIFICATION Spec
CONSTANT WeightSet <- WQuick
CONSTANT MaxLen = 3
INVARIANT MutNormByMax
CHECK_DEADLOCK FALSE
