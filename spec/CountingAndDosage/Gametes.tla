------------------------------- MODULE Gametes -------------------------------
(* X04 (c): gamete_probabilities / cross_probabilities from first principles. *)
(* A behaviour: parents -> the mother's meiosis picks a component of her      *)
(* genotype distribution and an index subset of size ploidy/2 -> the father's *)
(* meiosis picks an index subset -> fertilisation unites the two gametes.     *)
(* Every index subset is equally likely, so the distributions are counts of   *)
(* subsets; they are computed once at the parents state and every offspring   *)
(* the behaviour can reach must lie in their support.                         *)
EXTENDS CADDefs, Json

CONSTANTS Insts, Mix          \* Insts: set of <<u, ploidy>>; Mix: set of mixture weights q of the mother's first genotype

InstsQuick == {<<2, 2>>, <<3, 2>>, <<2, 4>>}
InstsThorough == {<<2, 2>>, <<3, 2>>, <<2, 4>>, <<3, 4>>, <<2, 6>>}
MixQuick == {<<1, 1>>, <<1, 2>>, <<1, 4>>}
MixThorough == {<<1, 1>>, <<1, 2>>, <<1, 4>>, <<2, 3>>}

VARIABLES u, p, stage, mom, dad, gm, gp, kid, dist
vars == <<u, p, stage, mom, dad, gm, gp, kid, dist>>

Zero(uu) == [a \in 1..uu |-> 0]
Init == /\ \E inst \in Insts : u = inst[1] /\ p = inst[2]
        /\ stage = "seed" /\ mom = <<>> /\ dad = <<>> /\ gm = <<>> /\ gp = <<>> /\ kid = <<>> /\ dist = <<>>

(* spanning the parents by a cheap step (initial states are single-threaded)  *)
Parents == /\ stage = "seed"
           /\ \E g1, g2, g3 \in Multisets(u, p), q \in Mix :
                /\ (q = ROne => g2 = g1)
                /\ mom' = IF q = ROne THEN << <<g1, ROne>> >> ELSE << <<g1, q>>, <<g2, RMin1(q)>> >>
                /\ dad' = << <<g3, ROne>> >>
           /\ stage' = "parents"
           /\ dist' = TLCEval(LET dm == GameteDist(mom', u)
                                  dp == GameteDist(dad', u)
                              IN [m |-> dm, f |-> dp, x |-> CrossDist(dm, dp, u, p), xr |-> CrossDist(dp, dm, u, p)])
           /\ UNCHANGED <<u, p, gm, gp, kid>>
MeiosisM == /\ stage = "parents"
            /\ \E c \in 1..Len(mom), S \in HalfSubsets(p) : gm' = BagAt(mom[c][1], S, u)
            /\ stage' = "egg" /\ UNCHANGED <<u, p, mom, dad, gp, kid, dist>>
MeiosisP == /\ stage = "egg"
            /\ \E S \in HalfSubsets(p) : gp' = BagAt(dad[1][1], S, u)
            /\ stage' = "pollen" /\ UNCHANGED <<u, p, mom, dad, gm, kid, dist>>
Fertilise == /\ stage = "pollen"
             /\ kid' = BagAdd(gm, gp)
             /\ stage' = "kid" /\ UNCHANGED <<u, p, mom, dad, gm, gp, dist>>
Next == Parents \/ MeiosisM \/ MeiosisP \/ Fertilise
Spec == Init /\ [][Next]_vars

HasDist == stage \in {"parents", "egg", "pollen", "kid"}
MomBag(c) == BagOf(mom[c][1], u)
GameteDistProper == stage = "parents" => RSumFn(dist.m) = ROne /\ RSumFn(dist.f) = ROne
CrossDistProper == stage = "parents" => RSumFn(dist.x) = ROne
CrossSymmetric == stage = "parents" => dist.x = dist.xr
GameteIsSubBag ==    \* no double reduction: a gamete with positive probability is a sub-multiset of a possible genotype
   stage = "parents" => \A b \in DOMAIN dist.m : dist.m[b] # RZero =>
        \E c \in 1..Len(mom) : \A a \in 1..u : b[a] <= MomBag(c)[a]
GameteMeanIsHalfDose ==   \* expected copies of haplotype a in a gamete = half the expected dose in the parent
   stage = "parents" => \A a \in 1..u :
        LET lhs == RSumFn([b \in DOMAIN dist.m |-> RMul(RInt(b[a]), dist.m[b])])
            rhs == RSum([c \in 1..Len(mom) |-> RMul(mom[c][2], RMake(MomBag(c)[a], 2))])
        IN lhs = rhs
EggReachable == stage = "egg" => dist.m[gm] # RZero
KidReachable == stage = "kid" => dist.x[kid] # RZero /\ SumD(kid) = p
SupportReached ==    \* conversely every offspring with positive probability is produced by some pair of meioses
   stage = "parents" => \A k \in DOMAIN dist.x : dist.x[k] # RZero =>
        \E c \in 1..Len(mom), S, T \in HalfSubsets(p) : BagAdd(BagAt(mom[c][1], S, u), BagAt(dad[1][1], T, u)) = k

(* mutants *)
WithReplacement(g, b) == RMake(Cardinality({f \in [1..(p \div 2) -> 1..p] : BagAt(g, {f[i] : i \in 1..(p \div 2)}, u) = b
                                            /\ Cardinality({f[i] : i \in 1..(p \div 2)}) = p \div 2})
                               + Cardinality({f \in [1..(p \div 2) -> 1..p] : Cardinality({f[i] : i \in 1..(p \div 2)}) < p \div 2
                                            /\ b = [a \in 1..u |-> Cardinality({i \in 1..(p \div 2) : g[f[i]] = a})]}),
                               PowD(p, p \div 2))
MutGameteWithReplacement ==
   (stage = "parents" /\ Len(mom) = 1) => \A b \in DOMAIN dist.m :
        WithReplacement(mom[1][1], b) # RZero => \A a \in 1..u : b[a] <= MomBag(1)[a]
MutCrossDropsFatherWeight ==
   stage = "parents" => RSumFn([k \in DOMAIN dist.x |->
        LET pairs == {pr \in (DOMAIN dist.m) \X (DOMAIN dist.f) : BagAdd(pr[1], pr[2]) = k /\ dist.f[pr[2]] # RZero}
        IN RSumFn([pr \in pairs |-> dist.m[pr[1]]])]) = ROne

Dump == IF stage = "parents"
        THEN PrintT(<<"@@J", ToJson([u |-> u, p |-> p, mom |-> mom, dad |-> dad, gm |-> DistAsSeq(dist.m),
                                     gf |-> DistAsSeq(dist.f), x |-> DistAsSeq(dist.x)])>>)
        ELSE TRUE
=============================================================================
