SPECIFICATION Spec
CONSTANT WeightSet <- WQuick
CONSTANT MaxLen = 3
INVARIANT MutChoiceUnnormalised
CHECK_DEADLOCK FALSE
