----------------------- MODULE TraceCountingAndDosage -----------------------
(* code -> spec for X04: calls recorded from the implementation (designed     *)
(* inputs with exact rational weights, and every call made during real runs   *)
(* of `mchap assemble` / `mchap call` / `mchap call-exact` on the repository  *)
(* test data) are validated line by line.  Integers beyond 2^31 travel as     *)
(* base-10^4 limbs and are checked division-free; probabilities as            *)
(* round(p * 10^4) ("bp"); log values relative to the maximum in milli/micro. *)
EXTENDS CADDefs, BigNat, Json, IOUtils

Trace == JsonDeserialize(IOEnv.TRACE_FILE)
VARIABLES l, bad
vars == <<l, bad>>

Big(n) == BnFromNat(n)
RECURSIVE Falling(_, _)          \* n (n-1) ... (n-k+1)
Falling(n, k) == IF k = 0 THEN <<1>> ELSE BnMul(Falling(n, k - 1), Big(n - k + 1))
RECURSIVE TimesFact(_, _)        \* a * k!
TimesFact(a, k) == IF k = 0 THEN a ELSE BnMulSmall(TimesFact(a, k - 1), k)
RECURSIVE BigPow(_, _)
BigPow(b, e) == IF e = 0 THEN <<1>> ELSE BnMul(BigPow(b, e - 1), Big(b))
RECURSIVE BigProd(_, _)
BigProd(s, i) == IF i = 0 THEN <<1>> ELSE BnMul(BigProd(s, i - 1), Big(s[i]))

(* a genotype with a given dosage vector: row h repeated d[h] times           *)
RECURSIVE GenoOf(_, _)
GenoOf(d, h) == IF h = 0 THEN <<>> ELSE GenoOf(d, h - 1) \o [i \in 1..d[h] |-> h]
AbsI(x) == IF x < 0 THEN -x ELSE x
MaxSeq(s) == CHOOSE m \in {s[i] : i \in 1..Len(s)} : \A i \in 1..Len(s) : s[i] <= m
LnMicro == <<0, 693147, 1098612, 1386294, 1609438, 1791759, 1945910, 2079442>>

NormRow(r) == LET s == RSum(r) IN [i \in 1..Len(r) |-> RDiv(r[i], s)]
RECURSIVE CdfT(_, _)
CdfT(n, i) == IF i = 0 THEN RZero ELSE RAdd(n[i], CdfT(n, i - 1))
ChoiceT(n, t) == Cardinality({i \in 1..Len(n) : RLeq(CdfT(n, i), t)})
BpClose(bp, q) == AbsI(bp * q[2] - 10000 * q[1]) <= q[2]          \* |bp - 10^4 q| <= 1
Comps(c) == [i \in 1..Len(c) |-> <<c[i][1], <<c[i][2][1], c[i][2][2]>> >>]
DistOk(out, d) == /\ \A i, j \in 1..Len(out) : i # j => out[i].bag # out[j].bag
                  /\ \A i \in 1..Len(out) : out[i].bag \in DOMAIN d /\ BpClose(out[i].bp, d[out[i].bag])
                  /\ Len(out) = Cardinality({b \in DOMAIN d : d[b] # RZero})
SumBp(out) == SumD([i \in 1..Len(out) |-> out[i].bp])

Verdict(e) ==
  CASE e.op = "dosage" -> IF e.d = DosageOf(e.g) THEN "ok" ELSE "DosageAsDocumented"
    [] e.op = "perms"  -> IF SumD(e.d) > 12 THEN "ok"
                          ELSE IF e.n # PermCountClosed(e.d) THEN "PermsIsMultinomial"
                          ELSE IF SumD(e.d) <= 6 /\ e.n # PermCountEnum(GenoOf(e.d, Len(e.d))) THEN "PermsIsEnumeration"
                          ELSE "ok"
    [] e.op = "ugen"   -> IF TimesFact(e.limbs, e.p) = Falling(e.u + e.p - 1, e.p) THEN "ok" ELSE "UniqueGenotypesIsMultisetCount"
    [] e.op = "utup"   -> IF e.limbs = BigPow(e.u, e.p) THEN "ok" ELSE "GenotypePermutationsIsPower"
    [] e.op = "uhap"   -> IF e.limbs = BigProd(e.ua, Len(e.ua)) THEN "ok" ELSE "UniqueHaplotypesIsProduct"
    [] e.op = "occ"    -> IF TimesFact(BnMul(e.limbs, Big(e.u)), e.p) = BnMul(Big(e.p), Falling(e.u + e.p - 1, e.p))
                          THEN "ok" ELSE "OccurrenceIsSlotCount"
    [] e.op = "sum"    -> LET s == RSum([i \in 1..Len(e.w) |-> <<e.w[i][1], e.w[i][2]>>])
                          IN IF AbsI(e.e4 * s[2] - 10000 * s[1]) <= s[2] THEN "ok" ELSE "SumIsSumOfWeights"
    [] e.op = "sumrel" -> IF e.z < 0 THEN "SumAtLeastMax"
                          ELSE IF Len(e.l) <= 8 /\ e.z > LnMicro[Len(e.l)] + 1 THEN "SumAtMostNTimesMax"
                          ELSE LET k == Cnt(e.l, 0) IN IF k <= 8 /\ e.z < LnMicro[k] - 1 THEN "SumAtLeastTiedMaxima" ELSE "ok"
    [] e.op = "add"    -> IF e.b < 0 \/ e.b > 693148 THEN "AddBetweenMaxAndTwiceMax"
                          ELSE IF e.a = 0 /\ AbsI(e.b - 693147) > 1 THEN "AddOfEqualsIsDouble"
                          ELSE IF e.a <= -40000 /\ e.b # 0 THEN "AddOfNegligibleIsMax" ELSE "ok"
    [] e.op = "norm"   -> IF \E i \in 1..Len(e.bp) : e.bp[i] < 0 \/ e.bp[i] > 10000 THEN "NormInUnit"
                          ELSE IF AbsI(SumD(e.bp) - 10000) > Len(e.bp) THEN "NormSumsToOne"
                          ELSE IF \E i, j \in 1..Len(e.bp) : e.l[i] <= e.l[j] /\ e.bp[i] > e.bp[j] THEN "NormMonotone"
                          ELSE "ok"
    [] e.op = "normx"  -> LET n == NormRow([i \in 1..Len(e.w) |-> <<e.w[i][1], e.w[i][2]>>])
                          IN IF \A i \in 1..Len(n) : BpClose(e.bp[i], n[i]) THEN "ok" ELSE "NormIsWeightOverSum"
    [] e.op = "log10"  -> IF AbsI(e.y * 10000 - e.x * 4343) <= 20000 + AbsI(e.x) THEN "ok" ELSE "Log10IsLnOverLn10"
    [] e.op = "greedy" -> IF e.bp[e.i + 1] = MaxSeq(e.bp) THEN "ok" ELSE "GreedyIsArgMax"
    [] e.op = "snv"    -> LET rows == [r \in 1..Len(e.w) |-> NormRow([i \in 1..Len(e.w[r]) |-> <<e.w[r][i][1], e.w[r][i][2]>>])]
                          IN IF \A r \in 1..Len(rows) : e.a[r] = ChoiceT(rows[r], <<e.t[r], 64>>) THEN "ok" ELSE "SnvAllelesAreInverseCdf"
    [] e.op = "snvp"   -> IF \A r \in 1..Len(e.bp) : e.a[r] >= 0 /\ e.a[r] < Len(e.bp[r]) /\ e.bp[r][e.a[r] + 1] > 0
                          THEN "ok" ELSE "SnvAlleleHasWeight"
    [] e.op = "gam"    -> LET d == GameteDist(Comps(e.comps), e.u)
                          IN IF ~DistOk(e.out, d) THEN "GameteDistribution"
                             ELSE IF AbsI(SumBp(e.out) - 10000) > Len(e.out) THEN "GameteDistributionProper" ELSE "ok"
    [] e.op = "cross"  -> LET d == CrossDist(GameteDist(Comps(e.mom), e.u), GameteDist(Comps(e.dad), e.u), e.u, e.p)
                          IN IF ~DistOk(e.out, d) THEN "CrossDistribution"
                             ELSE IF AbsI(SumBp(e.out) - 10000) > Len(e.out) THEN "CrossDistributionProper" ELSE "ok"
    [] OTHER -> "UnknownEvent"

Init == l = 1 /\ bad = 0
Next == /\ l <= Len(Trace)
        /\ LET v == Verdict(Trace[l])
           IN  /\ IF v = "ok" THEN TRUE ELSE PrintT(<<"@@J", ToJson([reject |-> l, clause |-> v])>>)
               /\ bad' = IF v = "ok" THEN bad ELSE bad + 1
        /\ l' = l + 1
Spec == Init /\ [][Next]_vars
Consumed == (l = Len(Trace) + 1) => PrintT(<<"@@J", ToJson([consumed |-> l - 1, rejected |-> bad])>>)
=============================================================================
