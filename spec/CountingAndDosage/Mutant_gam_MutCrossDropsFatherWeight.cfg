SPECIFICATION Spec
CONSTANT Insts <- InstsQuick
CONSTANT Mix <- MixQuick
INVARIANT MutCrossDropsFatherWeight
CHECK_DEADLOCK FALSE
