SPECIFICATION Spec
CONSTANT WeightSet <- WQuick
CONSTANT MaxLen = 3
INVARIANT MutSumSkipsFirst
CHECK_DEADLOCK FALSE
