SPECIFICATION Spec
CONSTANT WeightSet <- WQuick
CONSTANT MaxLen = 4
INVARIANT AccIsSum
INVARIANT AccOrderFree
INVARIANT SumZeroIffAllZero
INVARIANT NormSumsToOne
INVARIANT NormInUnit
INVARIANT NormProportional
INVARIANT ArgMaxExists
INVARIANT ChoiceHasWeight
CONSTRAINT Dump
CHECK_DEADLOCK FALSE
