SPECIFICATION Spec
CONSTANT Grid <- GridQuick
INVARIANT MutMultisetsNoRepetition
CHECK_DEADLOCK FALSE
