SPECIFICATION Spec
CONSTANT Grid <- GridQuick
INVARIANT TypeOK
INVARIANT DosageSumsToPloidy
INVARIANT DosageFirstRowCarries
INVARIANT PermsClosedFormIsEnumeration
INVARIANT PermsCountsSameMultiset
INVARIANT StepGuarantees
INVARIANT HaplotypesClosed
INVARIANT TuplesClosed
INVARIANT MultisetsClosed
INVARIANT OccurrenceClosed
INVARIANT SumOfOrderingsIsTuples
CONSTRAINT Dump
CHECK_DEADLOCK FALSE
