SPECIFICATION Spec
CONSTANT Tier = "mutant"
CONSTANT Mutation = "ac_includes_ref"
INVARIANT TypeOK
INVARIANT WellFormedAtEnd
CHECK_DEADLOCK FALSE
