SPECIFICATION Spec
CONSTANT Tier = "quick"
CONSTANT Mutation = "none"
INVARIANT TypeOK
INVARIANT WellFormedAtEnd
INVARIANT GLengthFromRecord
INVARIANT OnlyAllowedAlleles
CONSTRAINT Dump
CHECK_DEADLOCK FALSE
