SPECIFICATION Spec
CONSTANT Tier = "mutant"
CONSTANT Mutation = "trim_zero_inside"
INVARIANT TypeOK
INVARIANT WellFormedAtEnd
CHECK_DEADLOCK FALSE
