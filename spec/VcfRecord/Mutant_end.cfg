SPECIFICATION Spec
CONSTANT Tier = "mutant"
CONSTANT Mutation = "end_off_by_one"
INVARIANT TypeOK
INVARIANT WellFormedAtEnd
CHECK_DEADLOCK FALSE
