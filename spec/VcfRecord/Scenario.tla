------------------------------ MODULE Scenario ------------------------------
(* C07: the configuration space (program x --report set x dataset shape x    *)
(* ploidies x genotype pattern) and, for every configuration, the record the *)
(* documented pipeline must produce.  The record is produced by a small      *)
(* state machine whose actions are the steps of the real pipeline            *)
(*   Header -> Encode -> Call(s) for every sample -> Summarise -> Format     *)
(* written from the documented meaning of the fields (header descriptions,   *)
(* VCF 4.3 text), with a point-mass posterior on the called genotype so that *)
(* every numeric field has an exact value.  TLC checks that the record of    *)
(* every configuration satisfies VcfRecord!WellFormed (internal consistency  *)
(* of the schema model, e.g. the G-length with a masked reference, the AFP   *)
(* rounding budget with mixed ploidy) and dumps the configuration with the   *)
(* predicted keys / cardinalities / missingness for the replay into the real *)
(* programs.  Mutation # "none" substitutes one wrong definition (binding    *)
(* demonstration: TLC must then report WellFormedAtEnd violated).            *)
EXTENDS Integers, Sequences, FiniteSets, TLC, Json, VcfRecord

CONSTANTS Tier, Mutation

Programs == {"assemble", "call", "call-exact", "call-pedigree"}
Plain == {"AFPRIOR", "ACP", "AFP", "AOP", "AOPSUM", "SNVDP", "GP", "GL"}
Prefixed == {"INFO/ACP", "FORMAT/ACP", "INFO/AFP", "FORMAT/AFP", "INFO/AOP", "FORMAT/AOP",
             "INFO/SNVDP", "FORMAT/SNVDP"}
ReportSets ==
  IF Tier = "mutant" THEN {{}, {"GP"}, Plain}
  ELSE IF Tier = "quick"
  THEN {r \in SUBSET Plain : Cardinality(r) <= 1} \cup {Plain, {"GP", "AFP"}, {"GL", "ACP", "SNVDP"},
        {"INFO/AFP"}, {"INFO/ACP", "FORMAT/AFP"}, {"FORMAT/ACP"}, {"INFO/SNVDP", "GP"}}
  ELSE (SUBSET Plain) \cup {r \in SUBSET Prefixed : Cardinality(r) \in 1..2}
ShapesOf(prog) ==
  IF prog = "assemble" THEN {"normal", "nosnv", "noreads", "refabsent", "refabsent1", "nocall"}
  ELSE {"normal", "nosnv", "noreads", "refabsent", "refabsent1", "noa", "af0", "zeroalt", "zerolast", "onlyref"}
PloidyVectors == IF Tier = "mutant" THEN {<<2, 4, 6>>} ELSE IF Tier = "quick" THEN {<<4, 4, 4>>, <<2, 4, 6>>} ELSE {<<4, 4, 4>>, <<2, 4, 6>>, <<1, 3, 2>>, <<2, 2, 2>>}
Patterns == 1..3

(* ---- documented field table (VCF 4.3 reserved keys + MCHap documentation) -- *)
F(id, num, cnt, type) == [id |-> id, num |-> num, cnt |-> cnt, type |-> type]
InfoDefault == << F("AN", "N", 1, "Integer"), F("UAN", "N", 1, "Integer"), F("AC", "A", 0, "Integer"),
                  F("REFMASKED", "N", 0, "Flag"), F("NS", "N", 1, "Integer"), F("MCI", "N", 1, "Integer"),
                  F("DP", "N", 1, "Integer"), F("RCOUNT", "N", 1, "Integer"), F("END", "N", 1, "Integer"),
                  F("NVAR", "N", 1, "Integer"), F("SNVPOS", ".", 0, "Integer") >>
InfoOptional == << F("AFPRIOR", "R", 0, "Float"), F("ACP", "R", 0, "Float"), F("AFP", "R", 0, "Float"),
                   F("AOP", "R", 0, "Float"), F("AOPSUM", "R", 0, "Float"), F("SNVDP", ".", 0, "Integer") >>
FormatDefault == << F("GT", "N", 1, "String"), F("GQ", "N", 1, "Integer"), F("SQ", "N", 1, "Integer"),
                    F("DP", "N", 1, "Integer"), F("RCOUNT", "N", 1, "Integer"), F("RCALLS", "N", 1, "Integer"),
                    F("MEC", "N", 1, "Integer"), F("MECP", "N", 1, "Float"), F("GPM", "N", 1, "Float"),
                    F("SPM", "N", 1, "Float"), F("MCI", "N", 1, "Integer") >>
FormatOptional == << F("ACP", "R", 0, "Float"), F("AFP", "R", 0, "Float"), F("AOP", "R", 0, "Float"),
                     F("GP", "G", 0, "Float"), F("GL", "G", 0, "Float"), F("SNVDP", ".", 0, "Integer") >>
FormatPedigree == << F("PEDERR", "N", 1, "Float") >>

(* "--report X" selects INFO/X and FORMAT/X, "INFO/X" / "FORMAT/X" only one    *)
Wanted(report, side, id) == id \in report \/ (side \o "/" \o id) \in report
HeaderOf(prog, report) ==
  [info |-> InfoDefault \o SelectSeq(InfoOptional, LAMBDA f : Wanted(report, "INFO", f.id)),
   format |-> FormatDefault \o SelectSeq(FormatOptional, LAMBDA f : Wanted(report, "FORMAT", f.id))
              \o (IF prog = "call-pedigree" THEN FormatPedigree ELSE <<>>),
   filters |-> <<"PASS", "NOA", "AF0">>,
   contigs |-> <<"ctg">>,
   samples |-> <<"s1", "s2", "s3">>]

(* ---- the abstract dataset ---------------------------------------------------- *)
Contig == <<"A", "C", "G", "T", "C", "A", "G", "C", "T", "A", "T", "G", "C", "A">>
Pos == 3
End == 11                       \* locus = Contig[3..11], 9 bases
Snvs == << [rel |-> 2, alleles |-> <<"T", "A">>], [rel |-> 5, alleles |-> <<"G", "C", "T">>],
           [rel |-> 8, alleles |-> <<"A", "G">>] >>
RefSeq == SubSeq(Contig, Pos, End)
Edit(seq, rel, ch) == [i \in 1..Len(seq) |-> IF i = rel THEN ch ELSE seq[i]]
AltPool == << Edit(RefSeq, 2, "A"), Edit(Edit(RefSeq, 2, "A"), 5, "T"), Edit(RefSeq, 5, "C") >>

NAltOf(shape) ==
  CASE shape \in {"nosnv", "noa", "nocall"} -> 0
    [] shape = "refabsent1" -> 1
    [] shape \in {"normal", "noreads", "refabsent", "af0"} -> 2
    [] shape \in {"zeroalt", "zerolast", "onlyref"} -> 3
AltsOf(shape) == SubSeq(AltPool, 1, NAltOf(shape))
HasSnvs(shape) == shape \notin {"nosnv", "noa"}
HasReads(shape) == shape # "noreads"
RefMasked(shape) == shape \in {"refabsent", "refabsent1", "noa", "nocall"}
(* "nocall" (assemble only): no haplotype reaches the reporting threshold in any sample: no *)
(* ALT, reference masked, every allele of every genotype unknown, statistics still reported *)
Invalid(shape) == shape \in {"noa", "af0"}
(* allele numbers a called genotype may use                                     *)
Allowed(shape) ==
  CASE shape \in {"normal", "noreads"} -> <<0, 1, 2>>
    [] shape = "nosnv" -> <<0>>
    [] shape = "refabsent" -> <<1, 2>>
    [] shape = "refabsent1" -> <<1>>
    [] shape = "zeroalt" -> <<0, 1, 3>>          \* ALT 2 has prior frequency zero
    [] shape = "zerolast" -> <<0, 1, 2>>         \* the LAST allele of the record has prior frequency zero
    [] shape = "onlyref" -> <<0>>                \* every ALT has prior frequency zero
    [] OTHER -> <<>>
(* SNVPOS: assemble reports the input variants of the locus; the call programs the     *)
(* positions where a listed ALT differs from REF                                          *)
SnvPosOfP(prog, shape) ==
  IF prog = "assemble" THEN (IF HasSnvs(shape) THEN <<2, 5, 8>> ELSE <<>>)
  ELSE LET alts == AltsOf(shape) IN
       SelectSeq(<<1, 2, 3, 4, 5, 6, 7, 8, 9>>, LAMBDA i : \E a \in 1..Len(alts) : alts[a][i] # RefSeq[i])

(* ---- exact micro-unit arithmetic ------------------------------------------------ *)
M == 1000000
RoundDiv(a, b) == (2 * a + b) \div (2 * b)            \* a, b >= 0 : nearest, half up
RoundMilli(m) == IF m >= 0 THEN ((m + 500) \div 1000) * 1000 ELSE 0 - (((0 - m) + 500) \div 1000) * 1000
DecI(m) == [k |-> "dec", m |-> m, tol |-> 501]       \* internal float
IntI(n) == [k |-> "int", m |-> n, tol |-> 0]
NanI == [k |-> "nan", m |-> 0, tol |-> 0]
(* a float printed with three decimals, a trailing ".0" trimmed                  *)
TextOfDec(m) ==
  LET r == RoundMilli(m)
      a == Abs(r)
      sg == IF r < 0 THEN 0 - 1 ELSE 1
      frac == (a % M) \div 1000
  IN  IF a % M = 0 THEN [k |-> "int", m |-> sg * (a \div M), d |-> 0]
      ELSE IF Mutation = "trim_zero_inside" /\ frac < 100       \* "1.05" printed as "1.5"
           THEN [k |-> "dec", m |-> sg * ((a \div M) * M + frac * 10000), d |-> 2]
           ELSE [k |-> "dec", m |-> r, d |-> 3]
TextOf(iv) ==
  CASE iv.k = "nan" -> [k |-> "dot", m |-> 0, d |-> 0]
    [] iv.k = "int" -> [k |-> "int", m |-> iv.m, d |-> 0]
    [] iv.k = "dec" -> TextOfDec(iv.m)
TextList(ivs) == IF ivs = <<>> THEN << [k |-> "dot", m |-> 0, d |-> 0] >> ELSE [i \in 1..Len(ivs) |-> TextOf(ivs[i])]

VARIABLES cfg, phase, hdr, sdata, idata, sidx, rec, ctx
vars == <<cfg, phase, hdr, sdata, idata, sidx, rec, ctx>>

Ploidy(s) == cfg.ploidy[s]
NA == NAltOf(cfg.shape)
NS3 == 3

Init ==
  /\ \E prog \in Programs : \E report \in ReportSets : \E shape \in ShapesOf(prog) :
       \E pv \in PloidyVectors : \E pat \in Patterns :
         cfg = [prog |-> prog, report |-> report, shape |-> shape, ploidy |-> pv, pat |-> pat]
  /\ phase = "header"
  /\ hdr = <<>> /\ sdata = <<>> /\ idata = <<>> /\ sidx = 0 /\ rec = <<>> /\ ctx = <<>>

(* -- Header: the fields declared for this program and --report set ---------------- *)
Header ==
  /\ phase = "header"
  /\ hdr' = HeaderOf(cfg.prog, cfg.report)
  /\ phase' = "encode"
  /\ UNCHANGED <<cfg, sdata, idata, sidx, rec, ctx>>

(* -- Encode: read statistics per sample ---------------------------------------------- *)
DepthOf(s) == IF HasReads(cfg.shape) THEN 10 + 3 * s ELSE 0
Encode ==
  /\ phase = "encode"
  /\ sdata' = [s \in 1..NS3 |->
       [dp |-> IF HasSnvs(cfg.shape) THEN DecI(DepthOf(s) * M) ELSE NanI,
        rcount |-> IntI(DepthOf(s) + (IF HasReads(cfg.shape) THEN 2 ELSE 0)),
        rcalls |-> IntI(IF HasSnvs(cfg.shape) THEN DepthOf(s) * Len(SnvPosOfP(cfg.prog, cfg.shape)) ELSE 0),
        snvdp |-> IF HasSnvs(cfg.shape) THEN [i \in 1..Len(SnvPosOfP(cfg.prog, cfg.shape)) |-> IntI(DepthOf(s))] ELSE <<>>,
        gt |-> <<>>]]
  /\ sidx' = 1
  /\ phase' = "call"
  /\ UNCHANGED <<cfg, hdr, idata, rec, ctx>>

(* -- Call(s): the genotype of one sample, chosen by pattern from the VCF order ------- *)
GenotypeOf(s) ==
  LET al == Allowed(cfg.shape)
      P == Ploidy(s) IN
  IF Invalid(cfg.shape) \/ al = <<>> THEN [i \in 1..P |-> 0 - 1]
  ELSE LET order == VcfOrder(Len(al), P)
           n == Len(order)
           k == CASE cfg.pat = 1 -> 1
                  [] cfg.pat = 2 -> ((n + s) \div 2) + (IF (n + s) \div 2 = 0 THEN 1 ELSE 0)
                  [] OTHER -> n
           g == [i \in 1..P |-> al[order[IF k > n THEN n ELSE k][i] + 1]]
       IN  \* assemble: a haplotype of the mode genotype that was not called is printed "."
           IF cfg.prog = "assemble" /\ cfg.pat = 3 /\ P >= 2 /\ s = 2
           THEN [i \in 1..P |-> IF i = P THEN 0 - 1 ELSE g[i]]
           ELSE g
Call ==
  /\ phase = "call"
  /\ sidx <= NS3
  /\ sdata' = [sdata EXCEPT ![sidx].gt = GenotypeOf(sidx)]
  /\ sidx' = sidx + 1
  /\ phase' = IF sidx = NS3 THEN "summarise" ELSE "call"
  /\ UNCHANGED <<cfg, hdr, idata, rec, ctx>>

(* -- per-sample posterior summaries under a point mass on the genotype ---------------- *)
CountIn(g, a) == Cardinality({i \in 1..Len(g) : g[i] = a})
Called(g) == SelectSeq(g, LAMBDA a : a >= 0)
AcpOf(s) == IF Invalid(cfg.shape) THEN <<NanI>> ELSE [a \in 1..(NA + 1) |-> DecI(CountIn(sdata[s].gt, a - 1) * M)]
AfpOf(s) == IF Invalid(cfg.shape) THEN <<NanI>>
            ELSE [a \in 1..(NA + 1) |-> DecI(RoundDiv(CountIn(sdata[s].gt, a - 1) * M, Ploidy(s)))]
AopOf(s) == IF Invalid(cfg.shape) THEN <<NanI>>
            ELSE [a \in 1..(NA + 1) |-> DecI(IF CountIn(sdata[s].gt, a - 1) > 0 THEN M ELSE 0)]
(* number of G entries: defined by the RECORD's allele count (VCF 4.3)            *)
GLen(s) ==
  IF Mutation = "gsize_labelled" /\ cfg.prog = "assemble" /\ RefMasked(cfg.shape)
  THEN Choose(NA + Ploidy(s) - 1, Ploidy(s))            \* sized from the labelled (non-masked) alleles
  ELSE Choose(NA + Ploidy(s), Ploidy(s))
GpOf(s) ==
  IF Invalid(cfg.shape) THEN <<NanI>>
  ELSE LET g == sdata[s].gt
           full == \A i \in 1..Len(g) : g[i] >= 0
           at == IF full THEN Rank(g) + 1 ELSE 0
       IN  [i \in 1..GLen(s) |-> DecI(IF i = at THEN M ELSE 0)]
GlOf(s) ==
  IF Invalid(cfg.shape) THEN <<NanI>>
  ELSE [i \in 1..Choose(NA + Ploidy(s), Ploidy(s)) |-> DecI(0 - ((i * 1234567 + s * 1111) % (400 * M)))]

(* -- Summarise: INFO from the sample columns ------------------------------------------- *)
AllCalled == [s \in 1..NS3 |-> Called(sdata[s].gt)]
CountAll(a) == SumSeq([s \in 1..NS3 |-> CountIn(sdata[s].gt, a)])
SumAcp(a) == SumSeq([s \in 1..NS3 |-> AcpOf(s)[a].m])
PSum == SumSeq([s \in 1..NS3 |-> Ploidy(s)])
PriorOf ==
  IF cfg.shape = "af0" THEN [a \in 1..(NA + 1) |-> NanI]
  ELSE IF cfg.shape = "noa" THEN <<NanI>>
  ELSE LET al == Allowed(cfg.shape)
       IN  [a \in 1..(NA + 1) |-> DecI(IF \E i \in 1..Len(al) : al[i] = a - 1 THEN RoundDiv(M, Len(al)) ELSE 0)]
NullR == [a \in 1..(NA + 1) |-> NanI]
Summarise ==
  /\ phase = "summarise"
  /\ idata' =
       [an |-> IntI(SumSeq([s \in 1..NS3 |-> Len(AllCalled[s])])),
        uan |-> IntI(Cardinality(UNION {Range(AllCalled[s]) : s \in 1..NS3})),
        ac |-> [a \in 1..NA |-> IntI(CountAll(IF Mutation = "ac_includes_ref" THEN a - 1 ELSE a))],
        ns |-> IntI(IF Mutation = "ns_counts_missing" THEN NS3
                     ELSE Cardinality({s \in 1..NS3 : AllCalled[s] # <<>>})),
        mci |-> IntI(0),
        dp |-> IF HasSnvs(cfg.shape) THEN DecI(SumSeq([s \in 1..NS3 |-> sdata[s].dp.m])) ELSE NanI,
        rcount |-> IntI(SumSeq([s \in 1..NS3 |-> sdata[s].rcount.m])),
        end |-> IntI(IF Mutation = "end_off_by_one" THEN End + 1 ELSE End),
        nvar |-> IntI(Len(SnvPosOfP(cfg.prog, cfg.shape))),
        snvpos |-> [i \in 1..Len(SnvPosOfP(cfg.prog, cfg.shape)) |-> IntI(SnvPosOfP(cfg.prog, cfg.shape)[i])],
        afprior |-> IF cfg.prog = "assemble" THEN <<>> ELSE PriorOf,
        acp |-> IF Invalid(cfg.shape) THEN NullR ELSE [a \in 1..(NA + 1) |-> DecI(SumAcp(a))],
        afp |-> IF Invalid(cfg.shape) THEN NullR ELSE [a \in 1..(NA + 1) |-> DecI(RoundDiv(SumAcp(a), PSum))],
        aop |-> IF Invalid(cfg.shape) THEN NullR
                ELSE [a \in 1..(NA + 1) |-> DecI(IF \E s \in 1..NS3 : AopOf(s)[a].m > 0 THEN M ELSE 0)],
        aopsum |-> IF Invalid(cfg.shape) THEN NullR
                   ELSE [a \in 1..(NA + 1) |-> DecI(SumSeq([s \in 1..NS3 |-> AopOf(s)[a].m]))],
        snvdp |-> IF HasSnvs(cfg.shape)
                  THEN [i \in 1..Len(SnvPosOfP(cfg.prog, cfg.shape)) |-> IntI(SumSeq([s \in 1..NS3 |-> sdata[s].snvdp[i].m]))]
                  ELSE <<>>]
  /\ phase' = "format"
  /\ UNCHANGED <<cfg, hdr, sdata, sidx, rec, ctx>>

(* -- Format: internal values -> text tokens, in the declared order ---------------------- *)
InfoInternal(id) ==
  CASE id = "AN" -> <<idata.an>> [] id = "UAN" -> <<idata.uan>> [] id = "AC" -> idata.ac
    [] id = "NS" -> <<idata.ns>> [] id = "MCI" -> <<idata.mci>> [] id = "DP" -> <<idata.dp>>
    [] id = "RCOUNT" -> <<idata.rcount>> [] id = "END" -> <<idata.end>> [] id = "NVAR" -> <<idata.nvar>>
    [] id = "SNVPOS" -> idata.snvpos [] id = "AFPRIOR" -> idata.afprior [] id = "ACP" -> idata.acp
    [] id = "AFP" -> idata.afp [] id = "AOP" -> idata.aop [] id = "AOPSUM" -> idata.aopsum
    [] id = "SNVDP" -> idata.snvdp
FmtInternal(s, id) ==
  LET inv == Invalid(cfg.shape) IN
  CASE id = "GQ" -> << IF inv THEN NanI ELSE IntI(60) >>
    [] id = "SQ" -> << IF inv THEN NanI ELSE IntI(60) >>
    [] id = "DP" -> << sdata[s].dp >>
    [] id = "RCOUNT" -> << sdata[s].rcount >>
    [] id = "RCALLS" -> << sdata[s].rcalls >>
    [] id = "MEC" -> << IF inv THEN NanI ELSE IntI(s - 1) >>
    [] id = "MECP" -> << IF inv \/ sdata[s].rcalls.m = 0 THEN NanI ELSE DecI(RoundDiv((s - 1) * M, sdata[s].rcalls.m)) >>
    [] id = "GPM" -> << IF inv THEN NanI ELSE DecI(M - 61875 * s) >>
    [] id = "SPM" -> << IF inv THEN NanI ELSE DecI(M - 625 * s) >>
    [] id = "MCI" -> << IF inv \/ cfg.prog = "call-exact" THEN NanI ELSE IntI(0) >>
    [] id = "ACP" -> AcpOf(s) [] id = "AFP" -> AfpOf(s) [] id = "AOP" -> AopOf(s)
    [] id = "GP" -> GpOf(s) [] id = "GL" -> GlOf(s)
    [] id = "SNVDP" -> sdata[s].snvdp
    [] id = "PEDERR" -> << IF inv THEN NanI ELSE DecI(31250 * s) >>
GtText(g) == << [k |-> "str", m |-> 0, d |-> 0] >>
Format ==
  /\ phase = "format"
  /\ rec' =
       [chrom |-> "ctg", pos |-> Pos, id |-> "locus", ref |-> RefSeq, alts |-> AltsOf(cfg.shape),
        qual |-> [k |-> "dot", m |-> 0, d |-> 0],
        filter |-> IF cfg.shape \in {"noa", "nocall"} THEN <<"NOA">> ELSE IF cfg.shape = "af0" THEN <<"AF0">> ELSE <<"PASS">>,
        info |-> LET keep == SelectSeq(hdr.info, LAMBDA f : f.type # "Flag" \/ RefMasked(cfg.shape))
                 IN  [i \in 1..Len(keep) |->
                        IF keep[i].type = "Flag" THEN [k |-> keep[i].id, flag |-> TRUE, v |-> <<>>]
                        ELSE [k |-> keep[i].id, flag |-> FALSE, v |-> TextList(InfoInternal(keep[i].id))]],
        fmt |-> [i \in 1..Len(hdr.format) |-> hdr.format[i].id],
        samples |-> [s \in 1..NS3 |-> [i \in 1..Len(hdr.format) |->
                       IF hdr.format[i].id = "GT" THEN GtText(sdata[s].gt)
                       ELSE TextList(FmtInternal(s, hdr.format[i].id))]],
        gts |-> [s \in 1..NS3 |-> sdata[s].gt]]
  /\ ctx' =
       [contig |-> Contig, snvs |-> Snvs, ploidy |-> cfg.ploidy,
        iinfo |-> [i \in 1..Len(hdr.info) |->
                     IF hdr.info[i].type = "Flag"
                     THEN [k |-> hdr.info[i].id, isflag |-> TRUE, flag |-> RefMasked(cfg.shape), v |-> <<>>]
                     ELSE [k |-> hdr.info[i].id, isflag |-> FALSE, flag |-> FALSE, v |-> InfoInternal(hdr.info[i].id)]],
        ifmt |-> [s \in 1..NS3 |->
                     LET rep == SelectSeq(hdr.format, LAMBDA f : f.id # "GT")
                         base == [i \in 1..Len(rep) |-> [k |-> rep[i].id, reported |-> TRUE, v |-> FmtInternal(s, rep[i].id)]]
                     IN  \* ACP is computed whenever any posterior-frequency field is requested
                         IF (\E f \in Range(hdr.info) : f.id \in {"ACP", "AFP"}) /\ ~(\E f \in Range(rep) : f.id = "ACP")
                         THEN Append(base, [k |-> "ACP", reported |-> FALSE, v |-> AcpOf(s)])
                         ELSE base],
        igt |-> [s \in 1..NS3 |-> sdata[s].gt]]
  /\ phase' = "done"
  /\ UNCHANGED <<cfg, hdr, sdata, idata, sidx>>

Next == Header \/ Encode \/ Call \/ Summarise \/ Format
Spec == Init /\ [][Next]_vars

(* ---- what TLC checks ----------------------------------------------------------------- *)
WellFormedAtEnd == phase = "done" => Failing(hdr, rec, ctx) = <<>>
(* the G-length of the produced record follows the record's allele count       *)
GLengthFromRecord ==
  phase = "done" =>
    \A s \in 1..NS3 : HasSampleVal(rec, s, "GP") =>
      (IsMissing(SampleVal(rec, s, "GP")) \/ Len(SampleVal(rec, s, "GP")) = Choose(Len(rec.alts) + Ploidy(s), Ploidy(s)))
(* every called allele is an allowed one (masked / zero-frequency alleles never appear) *)
OnlyAllowedAlleles ==
  phase = "done" => \A s \in 1..NS3 : \A i \in 1..Len(rec.gts[s]) :
      rec.gts[s][i] >= 0 => rec.gts[s][i] \in Range(Allowed(cfg.shape))
TypeOK == phase \in {"header", "encode", "call", "summarise", "format", "done"}

Dump ==
  phase = "done" =>
    PrintT(<<"@@J", ToJson(
      [prog |-> cfg.prog, report |-> cfg.report, shape |-> cfg.shape, ploidy |-> cfg.ploidy, pat |-> cfg.pat,
       nalt |-> Len(rec.alts), filter |-> rec.filter, refmasked |-> HasInfo(rec, "REFMASKED"),
       infoKeys |-> [i \in 1..Len(hdr.info) |-> hdr.info[i].id],
       fmtKeys |-> rec.fmt,
       infoCounts |-> [i \in 1..Len(rec.info) |-> [k |-> rec.info[i].k, n |-> Len(rec.info[i].v),
                                                   missing |-> (rec.info[i].v # <<>> /\ AllDots(rec.info[i].v))]],
       gts |-> rec.gts])>>)
=============================================================================
