----------------------------- MODULE VcfRecord -----------------------------
(* C07: what it means for one emitted line to be a valid, internally         *)
(* consistent VCF record under the emitted header.                           *)
(*                                                                           *)
(* Written from the VCF 4.3 text (Number=1/A/R/G/., GT syntax, key           *)
(* declaration) and from the descriptions of the header fields that MCHap    *)
(* itself emits (AC "allele count in genotypes, for each ALT allele", AN     *)
(* "total number of alleles in called genotypes", NS "number of samples with *)
(* data", ...), not from the formatting code.                                *)
(*                                                                           *)
(* A record is the output of an independent lexical splitter:                *)
(*   hdr = [info, format : Seq([id, num, cnt, type]), filters, contigs,      *)
(*          samples : Seq(STRING)]        num \in {"A","R","G",".","N"}      *)
(*   rec = [chrom, pos, id, ref : Seq(char), alts : Seq(Seq(char)),          *)
(*          filter : Seq(STRING), info : Seq([k, flag, v : Seq(Val)]),       *)
(*          fmt : Seq(STRING), samples : Seq(Seq(Seq(Val))),                 *)
(*          gts : Seq(Seq(Int))]          (-1 = ".", -2 = not an allele token)*)
(*   Val = [k : kind, m : Int, d : Nat]                                      *)
(*          kind "int": m is the integer;  "dec": m = value in micro-units,  *)
(*          d = number of decimals;  "dot";  "inf" (m = sign);  "nan";       *)
(*          "str";  "big" (|value| >= 2000, outside the micro-unit window)   *)
(*   ctx = [contig : Seq(char)  (the reference contig named by rec.chrom),   *)
(*          snvs : Seq([rel, alleles])  input variants relative to rec.pos,  *)
(*          ploidy : Seq(Int),                                               *)
(*          iinfo : Seq([k, isflag, flag, v : Seq(IVal)]) captured internals,*)
(*          ifmt  : Seq(per sample Seq([k, reported, v : Seq(IVal)])),       *)
(*          igt   : Seq(Seq(Int)) or <<>> ]                                  *)
(*   IVal = [k : "int"|"dec"|"nan"|"inf"|"big", m : Int, tol : Int]          *)
EXTENDS Integers, Sequences, FiniteSets, TLC, Genotypes

Abs(x) == IF x < 0 THEN 0 - x ELSE x
Range(s) == {s[i] : i \in 1..Len(s)}
RECURSIVE SumSeq(_)
SumSeq(s) == IF s = <<>> THEN 0 ELSE Head(s) + SumSeq(Tail(s))

NAlt(rec) == Len(rec.alts)
NSamp(rec) == Len(rec.samples)

(* ---- lookups ------------------------------------------------------------ *)
HasDecl(decls, key) == \E i \in 1..Len(decls) : decls[i].id = key
Decl(decls, key) == decls[CHOOSE i \in 1..Len(decls) : decls[i].id = key]
HasInfo(rec, key) == \E i \in 1..Len(rec.info) : rec.info[i].k = key
Info(rec, key) == rec.info[CHOOSE i \in 1..Len(rec.info) : rec.info[i].k = key]
FmtIdx(rec, key) == CHOOSE i \in 1..Len(rec.fmt) : rec.fmt[i] = key
HasFmt(rec, key) == \E i \in 1..Len(rec.fmt) : rec.fmt[i] = key
(* value list of FORMAT key for sample s (trailing fields may be dropped)    *)
HasSampleVal(rec, s, key) == HasFmt(rec, key) /\ FmtIdx(rec, key) <= Len(rec.samples[s])
SampleVal(rec, s, key) == rec.samples[s][FmtIdx(rec, key)]

IsMissing(vals) == Len(vals) = 1 /\ vals[1].k = "dot"
AllDots(vals) == \A i \in 1..Len(vals) : vals[i].k = "dot"
IsNum(v) == v.k \in {"int", "dec"}
(* numeric text value in micro-units; only meaningful inside the window      *)
InWindow(v) == (v.k = "dec") \/ (v.k = "int" /\ Abs(v.m) < 2000)
Micro(v) == IF v.k = "int" THEN v.m * 1000000 ELSE v.m

(* ---- 1. columns --------------------------------------------------------- *)
Columns(hdr, rec) ==
  /\ NSamp(rec) = Len(hdr.samples)
  /\ rec.pos >= 1
  /\ rec.chrom \in Range(hdr.contigs)
  /\ Len(rec.ref) >= 1
  /\ \A s \in 1..NSamp(rec) : Len(rec.samples[s]) >= 1 /\ Len(rec.samples[s]) <= Len(rec.fmt)

(* ---- 2. every key is declared ------------------------------------------- *)
KeysDeclared(hdr, rec) ==
  /\ \A i \in 1..Len(rec.info) : HasDecl(hdr.info, rec.info[i].k)
  /\ \A i \in 1..Len(rec.fmt) : HasDecl(hdr.format, rec.fmt[i])
  /\ \A i \in 1..Len(rec.filter) : rec.filter[i] \in Range(hdr.filters) \cup {"."}
  /\ \A i, j \in 1..Len(rec.info) : rec.info[i].k = rec.info[j].k => i = j
  /\ \A i, j \in 1..Len(rec.fmt) : rec.fmt[i] = rec.fmt[j] => i = j

(* ---- 3. cardinality (VCF 4.3 1.4.2: Number = integer, A, R, G, .) -------- *)
GCount(nAlt, P) == Choose(nAlt + P, P)        \* C((nAlt+1) + P - 1, P)
Expected(d, nAlt, P) ==
  CASE d.num = "A" -> nAlt
    [] d.num = "R" -> nAlt + 1
    [] d.num = "G" -> GCount(nAlt, P)
    [] d.num = "N" -> d.cnt
    [] OTHER -> 0 - 1                         \* "." : any positive count
CardOK(d, vals, nAlt, P) ==
  \/ IsMissing(vals)
  \/ LET e == Expected(d, nAlt, P)
     IN  IF e < 0 THEN Len(vals) >= 1 ELSE Len(vals) = e /\ e >= 1

InfoCard(hdr, rec) ==
  \A i \in 1..Len(rec.info) :
    LET e == rec.info[i] IN
    HasDecl(hdr.info, e.k) =>
      LET d == Decl(hdr.info, e.k) IN
      IF d.type = "Flag" THEN e.flag /\ e.v = <<>>
      ELSE ~e.flag /\ d.num # "G" /\ CardOK(d, e.v, NAlt(rec), 0)
FormatCard(hdr, rec, ctx) ==
  \A s \in 1..NSamp(rec) : \A j \in 1..Len(rec.samples[s]) :
    (j <= Len(rec.fmt) /\ HasDecl(hdr.format, rec.fmt[j]) /\ s <= Len(ctx.ploidy)) =>
      CardOK(Decl(hdr.format, rec.fmt[j]), rec.samples[s][j], NAlt(rec), ctx.ploidy[s])

(* the keys whose cardinality is wrong (diagnostics for the verdict line)      *)
BadInfoKeys(hdr, rec) ==
  {rec.info[i].k : i \in {i \in 1..Len(rec.info) :
      HasDecl(hdr.info, rec.info[i].k) /\
        LET e == rec.info[i]
            d == Decl(hdr.info, e.k)
        IN  ~(IF d.type = "Flag" THEN e.flag /\ e.v = <<>>
              ELSE ~e.flag /\ d.num # "G" /\ CardOK(d, e.v, NAlt(rec), 0))}}
BadFormatKeys(hdr, rec, ctx) ==
  UNION {{rec.fmt[j] : j \in {j \in 1..Len(rec.samples[s]) :
      j <= Len(rec.fmt) /\ HasDecl(hdr.format, rec.fmt[j]) /\ s <= Len(ctx.ploidy) /\
        ~CardOK(Decl(hdr.format, rec.fmt[j]), rec.samples[s][j], NAlt(rec), ctx.ploidy[s])}} : s \in 1..NSamp(rec)}

(* ---- 4. lexical type of every value -------------------------------------- *)
TypeOK1(type, v) ==
  CASE type = "Integer" -> v.k \in {"int", "dot"}
    [] type = "Float" -> v.k \in {"int", "dec", "dot", "inf", "nan", "big"}
    [] OTHER -> TRUE
TypeLexical(hdr, rec) ==
  /\ \A i \in 1..Len(rec.info) :
       HasDecl(hdr.info, rec.info[i].k) =>
         \A x \in 1..Len(rec.info[i].v) : TypeOK1(Decl(hdr.info, rec.info[i].k).type, rec.info[i].v[x])
  /\ \A s \in 1..NSamp(rec) : \A j \in 1..Len(rec.samples[s]) :
       (j <= Len(rec.fmt) /\ HasDecl(hdr.format, rec.fmt[j]) /\ rec.fmt[j] # "GT") =>
         \A x \in 1..Len(rec.samples[s][j]) : TypeOK1(Decl(hdr.format, rec.fmt[j]).type, rec.samples[s][j][x])

(* "rounded to three decimals": no printed number carries more than 3         *)
Decimals(rec) ==
  /\ \A i \in 1..Len(rec.info) : \A x \in 1..Len(rec.info[i].v) :
       rec.info[i].v[x].k = "dec" => rec.info[i].v[x].d <= 3
  /\ \A s \in 1..NSamp(rec) : \A j \in 1..Len(rec.samples[s]) : \A x \in 1..Len(rec.samples[s][j]) :
       rec.samples[s][j][x].k = "dec" => rec.samples[s][j][x].d <= 3

(* ---- 5. GT --------------------------------------------------------------- *)
GTOne(gt, nAlt, P) ==
  /\ Len(gt) = P
  /\ \A i \in 1..Len(gt) : gt[i] >= 0 - 1 /\ gt[i] <= nAlt
  /\ \A i, j \in 1..Len(gt) : i < j => /\ (gt[i] = 0 - 1 => gt[j] = 0 - 1)
                                        /\ (gt[j] >= 0 => gt[i] <= gt[j])
GTShape(rec, ctx) ==
  /\ HasFmt(rec, "GT") => rec.fmt[1] = "GT"
  /\ Len(rec.gts) = NSamp(rec)
  /\ Len(ctx.ploidy) = NSamp(rec)
  /\ \A s \in 1..NSamp(rec) : GTOne(rec.gts[s], NAlt(rec), ctx.ploidy[s])

(* ---- 6. REF is the reference of [POS, END] ------------------------------- *)
EndOf(rec) == Info(rec, "END").v[1].m
HasEnd(rec) == HasInfo(rec, "END") /\ Len(Info(rec, "END").v) = 1 /\ Info(rec, "END").v[1].k = "int"
RefIsReference(rec, ctx) ==
  /\ HasEnd(rec)
  /\ EndOf(rec) >= rec.pos
  /\ EndOf(rec) <= Len(ctx.contig)
  /\ Len(rec.ref) = EndOf(rec) - rec.pos + 1
  /\ rec.ref = SubSeq(ctx.contig, rec.pos, EndOf(rec))

(* ---- 7. ALT alleles are REF edited at SNVPOS with input alleles ---------- *)
SnvPosList(rec) ==
  IF ~HasInfo(rec, "SNVPOS") \/ IsMissing(Info(rec, "SNVPOS").v) THEN <<>>
  ELSE [i \in 1..Len(Info(rec, "SNVPOS").v) |-> Info(rec, "SNVPOS").v[i].m]
SnvPosOK(rec, ctx) ==
  LET sp == SnvPosList(rec) IN
  /\ HasInfo(rec, "SNVPOS") => \A i \in 1..Len(Info(rec, "SNVPOS").v) : Info(rec, "SNVPOS").v[i].k \in {"int", "dot"}
  /\ \A i \in 1..Len(sp) : sp[i] >= 1 /\ sp[i] <= Len(rec.ref)
  /\ \A i \in 1..(Len(sp) - 1) : sp[i] < sp[i + 1]
  /\ \A i \in 1..Len(sp) : \E x \in 1..Len(ctx.snvs) : ctx.snvs[x].rel = sp[i]
  /\ (HasInfo(rec, "NVAR") /\ Len(Info(rec, "NVAR").v) = 1) => Info(rec, "NVAR").v[1] = [k |-> "int", m |-> Len(sp), d |-> 0]
AltsFromSnvs(rec, ctx) ==
  LET sp == Range(SnvPosList(rec)) IN
  /\ \A a \in 1..NAlt(rec) :
       /\ Len(rec.alts[a]) = Len(rec.ref)
       /\ rec.alts[a] # rec.ref
       /\ \A i \in 1..Len(rec.ref) :
            (i <= Len(rec.alts[a]) /\ rec.alts[a][i] # rec.ref[i]) =>
              /\ i \in sp
              /\ \E x \in 1..Len(ctx.snvs) : ctx.snvs[x].rel = i /\ rec.alts[a][i] \in Range(ctx.snvs[x].alleles)
  /\ \A a, b \in 1..NAlt(rec) : rec.alts[a] = rec.alts[b] => a = b

(* ---- 8. recounts from the sample columns --------------------------------- *)
CalledOf(rec) == [s \in 1..Len(rec.gts) |-> SelectSeq(rec.gts[s], LAMBDA a : a >= 0)]
CountAllele(rec, a) ==
  SumSeq([s \in 1..Len(rec.gts) |-> Cardinality({i \in 1..Len(rec.gts[s]) : rec.gts[s][i] = a})])
IntVal(n) == [k |-> "int", m |-> n, d |-> 0]
Single(rec, key, n) == Info(rec, key).v = <<IntVal(n)>>

RecountAC(rec) ==
  HasInfo(rec, "AC") =>
    IF NAlt(rec) = 0 THEN IsMissing(Info(rec, "AC").v)
    ELSE Info(rec, "AC").v = [a \in 1..NAlt(rec) |-> IntVal(CountAllele(rec, a))]
RecountAN(rec) ==
  HasInfo(rec, "AN") => Single(rec, "AN", SumSeq([s \in 1..Len(rec.gts) |-> Len(CalledOf(rec)[s])]))
RecountUAN(rec) ==
  HasInfo(rec, "UAN") =>
    Single(rec, "UAN", Cardinality(UNION {Range(CalledOf(rec)[s]) : s \in 1..Len(rec.gts)}))
RecountNS(rec) ==
  HasInfo(rec, "NS") =>
    Single(rec, "NS", Cardinality({s \in 1..Len(rec.gts) : CalledOf(rec)[s] # <<>>}))

(* INFO/key = sum over samples of the scalar FORMAT/key (missing iff all missing) *)
ScalarSum(rec, key) ==
  (HasInfo(rec, key) /\ HasFmt(rec, key) /\ \A s \in 1..NSamp(rec) : HasSampleVal(rec, s, key) /\ Len(SampleVal(rec, s, key)) = 1) =>
    LET vals == [s \in 1..NSamp(rec) |-> SampleVal(rec, s, key)[1]]
        nums == SelectSeq(vals, LAMBDA v : v.k = "int")
    IN  /\ \A s \in 1..NSamp(rec) : vals[s].k \in {"int", "dot"}
        /\ IF nums = <<>> THEN IsMissing(Info(rec, key).v) \/ Info(rec, key).v = <<IntVal(0)>>
           ELSE Info(rec, key).v = <<IntVal(SumSeq([i \in 1..Len(nums) |-> nums[i].m]))>>
RecountDP(rec) == ScalarSum(rec, "DP")
RecountRCOUNT(rec) == ScalarSum(rec, "RCOUNT")

(* internal (captured) FORMAT values                                          *)
HasIFmt(ctx, s, key) == s <= Len(ctx.ifmt) /\ \E i \in 1..Len(ctx.ifmt[s]) : ctx.ifmt[s][i].k = key
IFmt(ctx, s, key) == ctx.ifmt[s][CHOOSE i \in 1..Len(ctx.ifmt[s]) : ctx.ifmt[s][i].k = key].v
PloidySum(ctx) == SumSeq(ctx.ploidy)

(* per-allele sums with a rounding budget; R = NAlt + 1                       *)
(* src(s) : sequence of values with fields k, m (micro-units) ; the sample is *)
(* "void" when its values are all missing (invalid-scenario placeholder)      *)
IsVoidI(vs) == \A i \in 1..Len(vs) : vs[i].k = "nan"
SumOverSamples(rec, ctx, key, a) ==
  SumSeq([s \in 1..NSamp(rec) |-> IF IsVoidI(IFmt(ctx, s, key)) THEN 0 ELSE IFmt(ctx, s, key)[a].m])
InternalUsable(rec, ctx, key) ==
  /\ \A s \in 1..NSamp(rec) : HasIFmt(ctx, s, key)
  /\ \A s \in 1..NSamp(rec) : LET vs == IFmt(ctx, s, key) IN
       IsVoidI(vs) \/ (Len(vs) = NAlt(rec) + 1 /\ \A i \in 1..Len(vs) : vs[i].k = "dec")
AllVoid(rec, ctx, key) == \A s \in 1..NSamp(rec) : IsVoidI(IFmt(ctx, s, key))

(* INFO/ACP[a] = sum_s FORMAT/ACP[s][a]  (against the captured internal values, *)
(* budget: half a unit of the last printed place + one micro-unit per sample) *)
RecountACP(rec, ctx) ==
  (HasInfo(rec, "ACP") /\ InternalUsable(rec, ctx, "ACP")) =>
    LET v == Info(rec, "ACP").v IN
    IF AllVoid(rec, ctx, "ACP") THEN AllDots(v)
    ELSE /\ Len(v) = NAlt(rec) + 1
         /\ \A a \in 1..Len(v) :
              /\ IsNum(v[a]) /\ InWindow(v[a])
              /\ Abs(Micro(v[a]) - SumOverSamples(rec, ctx, "ACP", a)) <= 500 + NSamp(rec) + 1
(* INFO/AFP[a] = sum_s ACP[s][a] / sum_s ploidy[s]                             *)
RecountAFP(rec, ctx) ==
  (HasInfo(rec, "AFP") /\ InternalUsable(rec, ctx, "ACP") /\ PloidySum(ctx) > 0) =>
    LET v == Info(rec, "AFP").v
        sp == PloidySum(ctx) IN
    IF AllVoid(rec, ctx, "ACP") THEN AllDots(v)
    ELSE /\ Len(v) = NAlt(rec) + 1
         /\ \A a \in 1..Len(v) :
              /\ IsNum(v[a]) /\ InWindow(v[a])
              /\ Abs(Micro(v[a]) * sp - SumOverSamples(rec, ctx, "ACP", a)) <= 501 * sp + NSamp(rec)
(* the same two sums against the printed FORMAT columns when they are there   *)
TextUsable(rec, key) ==
  /\ HasFmt(rec, key)
  /\ \A s \in 1..NSamp(rec) : HasSampleVal(rec, s, key) /\
       LET vs == SampleVal(rec, s, key) IN
       AllDots(vs) \/ (Len(vs) = NAlt(rec) + 1 /\ \A i \in 1..Len(vs) : IsNum(vs[i]) /\ InWindow(vs[i]))
TextSum(rec, key, a) ==
  SumSeq([s \in 1..NSamp(rec) |-> IF AllDots(SampleVal(rec, s, key)) THEN 0 ELSE Micro(SampleVal(rec, s, key)[a])])
TextAllVoid(rec, key) == \A s \in 1..NSamp(rec) : AllDots(SampleVal(rec, s, key))
RecountACPText(rec) ==
  (HasInfo(rec, "ACP") /\ TextUsable(rec, "ACP")) =>
    LET v == Info(rec, "ACP").v IN
    IF TextAllVoid(rec, "ACP") THEN AllDots(v)
    ELSE /\ Len(v) = NAlt(rec) + 1
         /\ \A a \in 1..Len(v) :
              /\ IsNum(v[a]) /\ InWindow(v[a])
              /\ Abs(Micro(v[a]) - TextSum(rec, "ACP", a)) <= 500 + 500 * NSamp(rec) + 1
RecountAFPText(rec, ctx) ==
  (HasInfo(rec, "AFP") /\ TextUsable(rec, "ACP") /\ PloidySum(ctx) > 0) =>
    LET v == Info(rec, "AFP").v
        sp == PloidySum(ctx) IN
    IF TextAllVoid(rec, "ACP") THEN AllDots(v)
    ELSE /\ Len(v) = NAlt(rec) + 1
         /\ \A a \in 1..Len(v) :
              /\ IsNum(v[a]) /\ InWindow(v[a])
              /\ Abs(Micro(v[a]) * sp - TextSum(rec, "ACP", a)) <= 501 * sp + 500 * NSamp(rec)
(* INFO/AFP against the samples' own printed AFP: the population frequency is the ploidy-      *)
(* weighted mean of the sample frequencies, sum_s ploidy[s] AFP[s][a] / sum_s ploidy[s],        *)
(* whatever part of the genotypes is reported as unknown (AN plays no role in it)               *)
AfpFromSampleAfpText(rec, ctx) ==
  (HasInfo(rec, "AFP") /\ TextUsable(rec, "AFP") /\ PloidySum(ctx) > 0 /\ Len(ctx.ploidy) = NSamp(rec)
     /\ \A s \in 1..NSamp(rec) : ~AllDots(SampleVal(rec, s, "AFP"))) =>
    LET v == Info(rec, "AFP").v
        sp == PloidySum(ctx) IN
    /\ Len(v) = NAlt(rec) + 1
    /\ \A a \in 1..Len(v) :
         /\ IsNum(v[a]) /\ InWindow(v[a])
         /\ Abs(Micro(v[a]) * sp - SumSeq([s \in 1..NSamp(rec) |-> ctx.ploidy[s] * Micro(SampleVal(rec, s, "AFP")[a])]))
              <= 501 * sp + 500 * sp

(* ---- 9. printed values are the internal values rounded to 3 decimals ----- *)
MatchVal(t, iv) ==
  CASE iv.k = "nan" -> t.k = "dot"
    [] iv.k = "int" -> t.k = "int" /\ t.m = iv.m
    [] iv.k = "dec" -> IsNum(t) /\ InWindow(t) /\ Abs(Micro(t) - iv.m) <= iv.tol
    [] iv.k = "inf" -> t.k = "inf" /\ t.m = iv.m
    [] iv.k = "big" -> t.k \in {"int", "dec", "big"}
    [] OTHER -> FALSE
MatchList(ts, ivs) ==
  IF ivs = <<>> THEN IsMissing(ts)
  ELSE Len(ts) = Len(ivs) /\ \A i \in 1..Len(ts) : MatchVal(ts[i], ivs[i])
RoundedInfo(rec, ctx) ==
  \A i \in 1..Len(ctx.iinfo) :
    LET e == ctx.iinfo[i] IN
    IF e.isflag THEN e.flag = HasInfo(rec, e.k)
    ELSE HasInfo(rec, e.k) => MatchList(Info(rec, e.k).v, e.v)
RoundedFormat(rec, ctx) ==
  \A s \in 1..NSamp(rec) : s <= Len(ctx.ifmt) =>
    \A i \in 1..Len(ctx.ifmt[s]) :
      LET e == ctx.ifmt[s][i] IN
      (e.reported /\ HasSampleVal(rec, s, e.k)) => MatchList(SampleVal(rec, s, e.k), e.v)
RoundedGT(rec, ctx) == ctx.igt # <<>> => rec.gts = ctx.igt

(* ---- the predicate -------------------------------------------------------- *)
ClauseNames == << "Columns", "KeysDeclared", "InfoCard", "FormatCard", "TypeLexical", "Decimals",
                  "GTShape", "RefIsReference", "SnvPosOK", "AltsFromSnvs",
                  "RecountAC", "RecountAN", "RecountUAN", "RecountNS", "RecountDP", "RecountRCOUNT",
                  "RecountACP", "RecountAFP", "RecountACPText", "RecountAFPText", "AfpFromSampleAfpText",
                  "RoundedInfo", "RoundedFormat", "RoundedGT" >>

Holds(c, hdr, rec, ctx) ==
  CASE c = "Columns" -> Columns(hdr, rec)
    [] c = "KeysDeclared" -> KeysDeclared(hdr, rec)
    [] c = "InfoCard" -> InfoCard(hdr, rec)
    [] c = "FormatCard" -> FormatCard(hdr, rec, ctx)
    [] c = "TypeLexical" -> TypeLexical(hdr, rec)
    [] c = "Decimals" -> Decimals(rec)
    [] c = "GTShape" -> GTShape(rec, ctx)
    [] c = "RefIsReference" -> RefIsReference(rec, ctx)
    [] c = "SnvPosOK" -> SnvPosOK(rec, ctx)
    [] c = "AltsFromSnvs" -> AltsFromSnvs(rec, ctx)
    [] c = "RecountAC" -> RecountAC(rec)
    [] c = "RecountAN" -> RecountAN(rec)
    [] c = "RecountUAN" -> RecountUAN(rec)
    [] c = "RecountNS" -> RecountNS(rec)
    [] c = "RecountDP" -> RecountDP(rec)
    [] c = "RecountRCOUNT" -> RecountRCOUNT(rec)
    [] c = "RecountACP" -> RecountACP(rec, ctx)
    [] c = "RecountAFP" -> RecountAFP(rec, ctx)
    [] c = "RecountACPText" -> RecountACPText(rec)
    [] c = "RecountAFPText" -> RecountAFPText(rec, ctx)
    [] c = "AfpFromSampleAfpText" -> AfpFromSampleAfpText(rec, ctx)
    [] c = "RoundedInfo" -> RoundedInfo(rec, ctx)
    [] c = "RoundedFormat" -> RoundedFormat(rec, ctx)
    [] c = "RoundedGT" -> RoundedGT(rec, ctx)

(* clauses that index into sample columns are only evaluated on records whose *)
(* column structure is sound                                                  *)
Structural == {"Columns", "KeysDeclared"}
Failing(hdr, rec, ctx) ==
  LET st == SelectSeq(ClauseNames, LAMBDA c : c \in Structural /\ ~Holds(c, hdr, rec, ctx))
  IN  IF st # <<>> THEN st
      ELSE SelectSeq(ClauseNames, LAMBDA c : c \notin Structural /\ ~Holds(c, hdr, rec, ctx))
WellFormed(hdr, rec, ctx) == Failing(hdr, rec, ctx) = <<>>
=============================================================================
