SPECIFICATION Spec
CONSTANT Tier = "mutant"
CONSTANT Mutation = "ns_counts_missing"
INVARIANT TypeOK
INVARIANT WellFormedAtEnd
CHECK_DEADLOCK FALSE
