SPECIFICATION Spec
CONSTANT Tier = "mutant"
CONSTANT Mutation = "gsize_labelled"
INVARIANT TypeOK
INVARIANT WellFormedAtEnd
CHECK_DEADLOCK FALSE
