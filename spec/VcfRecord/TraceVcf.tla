------------------------------ MODULE TraceVcf ------------------------------
(* code -> spec: every line emitted by the four programs (and the lines of    *)
(* the repository's golden outputs) is split by an independent lexical        *)
(* parser into the JSON record of VcfRecord.tla, together with its header,    *)
(* the reference contig, the input variants, the ploidies and the internal    *)
(* values captured from LocusAssemblyData; WellFormed is evaluated per line   *)
(* and every line gets a verdict naming the failing clauses.                  *)
EXTENDS Integers, Sequences, TLC, Json, IOUtils, VcfRecord

Trace == JsonDeserialize(IOEnv.TRACE_FILE)
Lines == Trace.lines

VARIABLES l, bad
vars == <<l, bad>>

ContigOf(e) == Trace.contigs[e.c].seq
CtxOf(e) == [contig |-> ContigOf(e), snvs |-> e.snvs, ploidy |-> e.ploidy,
             iinfo |-> e.iinfo, ifmt |-> e.ifmt, igt |-> e.igt]

Init == l = 1 /\ bad = 0
Next == /\ l <= Len(Lines)
        /\ LET e == Lines[l]
               f == Failing(Trace.headers[e.h], e.rec, CtxOf(e))
           IN  /\ IF f = <<>> THEN TRUE ELSE PrintT(<<"@@J", ToJson([reject |-> l, clause |-> f,
                        fields |-> IF "Columns" \in Range(f) \/ "KeysDeclared" \in Range(f) THEN {}
                                   ELSE (IF "InfoCard" \in Range(f) THEN BadInfoKeys(Trace.headers[e.h], e.rec) ELSE {})
                                        \cup (IF "FormatCard" \in Range(f) THEN BadFormatKeys(Trace.headers[e.h], e.rec, CtxOf(e)) ELSE {})])>>)
               /\ bad' = IF f = <<>> THEN bad ELSE bad + 1
        /\ l' = l + 1
Spec == Init /\ [][Next]_vars
Consumed == (l = Len(Lines) + 1) => PrintT(<<"@@J", ToJson([consumed |-> l - 1, rejected |-> bad])>>)
=============================================================================
