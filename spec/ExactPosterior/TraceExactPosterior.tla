------------------------ MODULE TraceExactPosterior ------------------------
(* code -> spec for C03.  A trace file is a JSON list of events recorded     *)
(* from the implementation; each event is consumed by one step, which takes  *)
(* the corresponding ExactPosterior action and checks the logged fields      *)
(* against the model state.  Every line gets a verdict (a named clause).     *)
(*                                                                           *)
(* streaming path (py-mode recording of posterior_mode):                     *)
(*   start  visit1* mode  supp* spm  visit2* result                          *)
(* outputs of either path / of the command line:                             *)
(*   table  fields*                                                          *)
(* Probabilities are integers round(v * scale); the model accepts            *)
(* |q/scale - num/den| <= 1/scale (one unit of slack, DESIGN 2.4).           *)
EXTENDS ExactPosterior, IOUtils

Trace == JsonDeserialize(IOEnv.TRACE_FILE)

VARIABLES l, bad, dtotal
tvars == <<vars, l, bad, dtotal>>

MkInst(e) == [P |-> e.P, m |-> "trace", Fn |-> e.Fn, Fd |-> e.Fd, pat |-> "trace",
              K |-> Len(e.H), N |-> Len(e.H[1]), H |-> e.H, A |-> e.A, w |-> e.w, reads |-> e.reads,
              tile |-> IF "tile" \in DOMAIN e THEN e.tile ELSE 1]      \* CallModel!Tile: a long locus

Mul1e6(x) == BnMulSmall(BnMulSmall(x, 1000), 1000)
Scaled(x, scale) == IF scale = 1000000 THEN Mul1e6(x) ELSE BnMulSmall(x, scale)
(* |q/scale - num/den| <= 1/scale   <=>   |q*den - scale*num| <= den          *)
Near(q, scale, num, den) ==
  LET lhs == BnMul(BnFromNat(q), den)
      rhs == Scaled(num, scale)
  IN  BnLeq(lhs, BnAdd(rhs, den)) /\ BnLeq(rhs, BnAdd(lhs, den))

TInit == Init /\ l = 1 /\ bad = 0 /\ dtotal = <<>>

Reject(c) == /\ PrintT(<<"@@J", ToJson([reject |-> l, clause |-> c])>>)
             /\ bad' = bad + 1
             /\ phase' = "broken"
             /\ UNCHANGED <<inst, order, idx, g, total, modeIdx, modeJ, jtab, sopts, suppJ, svisited, fnum, onum, dtotal>>
Accept == bad' = bad

(* ---- streaming path ---------------------------------------------------------- *)
TStart(e) ==
  LET i == MkInst(e) IN
  /\ phase' = "pass1" /\ inst' = i
  /\ order' = VcfOrder(i.K, i.P)
  /\ idx' = 0 /\ g' = [h \in 1..i.P |-> 0]
  /\ total' = <<>> /\ modeIdx' = 0 /\ modeJ' = <<>> /\ jtab' = <<>>
  /\ sopts' = {} /\ suppJ' = <<>> /\ svisited' = {} /\ fnum' = <<>> /\ onum' = <<>>
  /\ dtotal' = BnSumSet(i, AllSorted(i.P, i.K), <<>>)       \* declarative normaliser
  /\ Accept

Visit1Clause(e) ==
  IF phase # "pass1" THEN "Pass1TooManyVisits"
  ELSE IF e.idx # idx THEN "VisitIndex"
  ELSE IF e.g # g THEN "Pass1IsVcfOrder"
  ELSE IF ~Near(e.pq, 1000000, JBig(inst, g), dtotal) THEN "VisitPosteriorIsJointOverTotal"
  ELSE "ok"
TVisit1(e) == LET c == Visit1Clause(e) IN
  IF c = "ok" THEN Pass1Step /\ Accept /\ UNCHANGED dtotal ELSE Reject(c)

ModeClause(e) ==
  IF phase # "support" \/ svisited # {} THEN "Pass1VisitsEveryGenotype"
  ELSE IF total # dtotal THEN "TotalIsSum"
  ELSE IF e.idx < 0 \/ e.idx >= Len(jtab) THEN "ModeIndexRange"
  ELSE IF jtab[e.idx + 1] # modeJ THEN "ModeIsMaximiser"
  ELSE IF ~Near(e.gpm, 1000000, modeJ, total) THEN "GPMIsModeProbability"
  ELSE "ok"
TMode(e) == LET c == ModeClause(e) IN
  IF c = "ok"
  THEN /\ modeIdx' = e.idx /\ g' = order[e.idx + 1]     \* ties: follow the implementation's maximiser
       /\ sopts' = SupportOptions(order[e.idx + 1])
       /\ UNCHANGED <<phase, inst, order, idx, total, modeJ, jtab, suppJ, svisited, fnum, onum, dtotal>>
       /\ Accept
  ELSE Reject(c)

SuppClause(e) ==
  IF phase # "support" THEN "SupportPhase"
  ELSE IF ~(\E o \in sopts : SupportGenotype(o) = e.g) THEN "SupportVisitsAlleleSetClassOnce"
  ELSE "ok"
TSupp(e) == LET c == SuppClause(e) IN
  IF c = "ok"
  THEN /\ SupportStepWith(CHOOSE o \in sopts : SupportGenotype(o) = e.g)
       /\ Accept /\ UNCHANGED dtotal
  ELSE Reject(c)

SpmClause(e) ==
  IF phase # "support" THEN "SupportPhase"
  ELSE IF sopts # {} THEN "SupportVisitsWholeClass"
  ELSE IF svisited # SupportGenotypes(g) THEN "SupportIsAlleleSetClass"
  ELSE IF ~Near(e.spm, 1000000, suppJ, total) THEN "SPMIsSupportSum"
  ELSE "ok"
TSpm(e) == LET c == SpmClause(e) IN
  IF c = "ok" THEN SupportDone /\ Accept /\ UNCHANGED dtotal ELSE Reject(c)

Visit2Clause(e) ==
  IF phase # "pass2" THEN "Pass2TooManyVisits"
  ELSE IF e.idx # idx THEN "VisitIndex"
  ELSE IF e.g # g THEN "Pass2IsVcfOrder"
  ELSE "ok"
TVisit2(e) == LET c == Visit2Clause(e) IN
  IF c = "ok" THEN Pass2Step /\ Accept /\ UNCHANGED dtotal ELSE Reject(c)

ResultClause(e) ==
  IF phase # "done" THEN "Pass2VisitsEveryGenotype"
  ELSE IF Len(e.afp) # inst.K \/ Len(e.aop) # inst.K THEN "PerAlleleLength"
  ELSE IF \E a \in 1..inst.K : ~Near(e.afp[a], 1000000, fnum[a], BnMulSmall(total, inst.P)) THEN "AFPIsPosteriorMeanFrequency"
  ELSE IF \E a \in 1..inst.K : ~Near(e.aop[a], 1000000, onum[a], total) THEN "AOPIsOccurrenceProbability"
  ELSE "ok"
TResult(e) == LET c == ResultClause(e) IN
  IF c = "ok" THEN UNCHANGED <<vars, dtotal>> /\ Accept ELSE Reject(c)

(* ---- reported outputs (either path, API or command line) ---------------------- *)
TTable(e) ==
  LET i == MkInst(e)
      ord == VcfOrder(i.K, i.P)
      tab == [k \in 1..Len(ord) |-> JBig(i, ord[k])]
  IN
  /\ phase' = "table" /\ inst' = i /\ order' = ord /\ jtab' = TLCEval(tab)
  /\ idx' = 0 /\ g' = <<>> /\ total' = <<>> /\ modeIdx' = 0 /\ modeJ' = <<>>
  /\ sopts' = {} /\ suppJ' = <<>> /\ svisited' = {} /\ fnum' = <<>> /\ onum' = <<>>
  /\ dtotal' = BnSumSet(i, AllSorted(i.P, i.K), <<>>)
  /\ Accept

SetOfSeq(s) == {s[k] : k \in 1..Len(s)}
ValidGT(gt) == /\ Len(gt) = inst.P /\ IsSorted(gt) /\ \A h \in 1..Len(gt) : gt[h] \in 0..(inst.K - 1)
(* GT is a maximiser; the array path compares single precision values, so a  *)
(* genotype within 1e-5 (relative) of the maximum is accepted there          *)
IsMaximiser(gt, path) ==
  LET j == jtab[Rank(gt) + 1]
      mx == jtab[ArrMode]
  IN  IF path = "array" THEN BnLeq(BnMulSmall(mx, 99999), BnMulSmall(j, 100000)) ELSE j = mx
FieldsClause(e) ==
  LET path == e.path          \* the path observed in the implementation (tolerance class only)
      sc == e.scale
      den == dtotal
  IN
  IF phase # "table" THEN "FieldsWithoutTable"
  ELSE IF ~(sc = 1000 \/ (sc = 10000 /\ path = "array") \/ (sc = 1000000 /\ path = "stream")) THEN "ScalePolicy"
  ELSE IF ~ValidGT(e.gt) THEN "GTWellFormed"
  ELSE IF ~IsMaximiser(e.gt, path) THEN "GTIsMaximiser"
  ELSE IF ~Near(e.gpm, sc, jtab[Rank(e.gt) + 1], den) THEN "GPMIsModeProbability"
  ELSE IF ~Near(e.spm, sc, BnSumIdx(jtab, {Rank(x) + 1 : x \in SupportGenotypes(e.gt)}, <<>>), den) THEN "SPMIsSupportSum"
  ELSE IF e.afp # <<>> /\ Len(e.afp) # inst.K THEN "PerAlleleLength"
  ELSE IF e.afp # <<>> /\ (\E a \in 1..inst.K : ~Near(e.afp[a], sc, ArrAcc(a - 1, Len(jtab), TRUE), BnMulSmall(den, inst.P)))
       THEN "AFPIsPosteriorMeanFrequency"
  ELSE IF e.acp # <<>> /\ Len(e.acp) # inst.K THEN "PerAlleleLength"
  ELSE IF e.acp # <<>> /\ (\E a \in 1..inst.K : ~Near(e.acp[a], sc, ArrAcc(a - 1, Len(jtab), TRUE), den))
       THEN "ACPIsPosteriorCount"
  ELSE IF e.aop # <<>> /\ Len(e.aop) # inst.K THEN "PerAlleleLength"
  ELSE IF e.aop # <<>> /\ (\E a \in 1..inst.K : ~Near(e.aop[a], sc, ArrAcc(a - 1, Len(jtab), FALSE), den))
       THEN "AOPIsOccurrenceProbability"
  ELSE IF e.gp # <<>> /\ Len(e.gp) # Len(jtab) THEN "GPLengthIsGenotypeCount"
  ELSE IF e.gp # <<>> /\ (\E k \in 1..Len(jtab) : ~Near(e.gp[k], sc, jtab[k], den)) THEN "GPIsVcfOrderedPosterior"
  ELSE "ok"
TFields(e) == LET c == FieldsClause(e) IN
  IF c = "ok" THEN UNCHANGED <<vars, dtotal>> /\ Accept ELSE Reject(c)

TBroken(e) == \* events after a rejected line of the same case: reported, not interpreted
  /\ PrintT(<<"@@J", ToJson([skipped |-> l])>>)
  /\ UNCHANGED <<vars, dtotal, bad>>

TNext ==
  /\ l <= Len(Trace)
  /\ l' = l + 1
  /\ LET e == Trace[l] IN
     IF e.op = "start" THEN TStart(e)
     ELSE IF e.op = "table" THEN TTable(e)
     ELSE IF phase = "broken" THEN TBroken(e)
     ELSE IF e.op = "visit1" THEN TVisit1(e)
     ELSE IF e.op = "mode" THEN TMode(e)
     ELSE IF e.op = "supp" THEN TSupp(e)
     ELSE IF e.op = "spm" THEN TSpm(e)
     ELSE IF e.op = "visit2" THEN TVisit2(e)
     ELSE IF e.op = "result" THEN TResult(e)
     ELSE IF e.op = "fields" THEN TFields(e)
     ELSE Reject("UnknownEvent")
TSpec == TInit /\ [][TNext]_tvars
Consumed == (l = Len(Trace) + 1) => PrintT(<<"@@J", ToJson([consumed |-> l - 1, rejected |-> bad])>>)
=============================================================================
