------------------------- MODULE TraceWidePosterior -------------------------
(* code -> spec for C03 on loci whose genotype space is far beyond what the   *)
(* enumerating model (ExactPosterior.tla) can visit: tens of thousands of     *)
(* genotypes (36 alleles in a tetraploid, 17 in a hexaploid, 362 in a         *)
(* diploid, ...).  The reads of these instances carry no information (every   *)
(* cell is a gap), so the likelihood is the same constant for every genotype  *)
(* and the posterior of ExactPosterior.tla, W(G) L(G) / sum_G' W(G') L(G'),   *)
(* reduces to the prior W(G) / Z of PriorWeights.tla, which is computed here  *)
(* in BigNat for each recorded genotype.                                      *)
(*                                                                            *)
(* events                                                                     *)
(*   begin  P, K, fn/fd (inbreeding), n (prior frequency numerators), m = sum  *)
(*   gp     path, i, g, q, e     entry i of the reported posterior array is    *)
(*                               round(p 10^(9+e)) = q for genotype g          *)
(*   sum    path, q9, cnt        the whole array adds up to q9 / 10^9          *)
(*   mode   path, g, q, e        reported mode genotype and its probability    *)
(* clauses                                                                     *)
(*   IndexIsVcfRank              i is the VCF rank of g                        *)
(*   PosteriorIsNormalisedJoint  p = W(g) / Z                                  *)
(*   ArraySumsToOne              |q9 - 10^9| <= 1000 and cnt = C(K+P-1, P)     *)
(*   ModeProbabilityIsItsPosterior, ModeIsAMaximiser (no recorded genotype of  *)
(*                               the instance has a larger weight)             *)
EXTENDS Integers, Sequences, FiniteSets, TLC, Json, IOUtils, BigNat, Genotypes, PriorWeights

Trace == JsonDeserialize(IOEnv.TRACE_FILE)

VARIABLES l,      \* next line
          cur,    \* current instance ("begin" line) or <<>>
          best,   \* largest weight among the genotypes recorded for the instance
          bad
vars == <<l, cur, best, bad>>

RECURSIVE Pow10(_)
Pow10(k) == IF k = 0 THEN <<1>> ELSE BnMulSmall(Pow10(k - 1), 10)

(* The genotype arrays of call-exact are single precision (relative error 6 10^-8 per entry,  *)
(* more after the normalising sum over tens of thousands of entries): a recorded value with    *)
(* nine significant digits is accepted within 10^4 units, i.e. a relative error of 10^-5.      *)
(* |q Z - W 10^(9+e)| <= 10^4 Z  and  (q = 0 <=> W = 0)                                         *)
Matches(W, Z, q, e) ==
  IF W = <<>> \/ q = 0 THEN W = <<>> /\ q = 0
  ELSE LET a == BnMul(BnFromNat(q), Z)
           b == BnMul(W, Pow10(9 + e))
           d == IF BnLeq(a, b) THEN BnSub(b, a) ELSE BnSub(a, b)
       IN  BnLeq(d, BnMulSmall(Z, 10000))

Pr == [fn |-> cur.fn, fd |-> cur.fd, m |-> cur.m, n |-> cur.n]

WellFormedInstance(e) ==
  /\ e.P \in 1..8 /\ e.K \in 1..600
  /\ IsPriorParam([fn |-> e.fn, fd |-> e.fd, m |-> e.m, n |-> e.n], e.K)

GenotypeOK(g) == /\ Len(g) = cur.P
                 /\ \A t \in 1..Len(g) : g[t] \in 0..(cur.K - 1)
                 /\ IsSorted(g)

Verdict(e) ==
  CASE e.op = "begin" -> IF WellFormedInstance(e) THEN "ok" ELSE "WellFormedInstance"
    [] e.op = "gp" ->
         IF cur = <<>> THEN "NoInstance"
         ELSE IF ~GenotypeOK(e.g) THEN "GenotypeOK"
         ELSE IF Rank(e.g) # e.i THEN "IndexIsVcfRank"
         ELSE IF Matches(Weight(Pr, e.g), Normaliser(Pr, cur.P), e.q, e.e) THEN "ok"
         ELSE "PosteriorIsNormalisedJoint"
    [] e.op = "sum" ->
         IF cur = <<>> THEN "NoInstance"
         ELSE IF e.cnt # Choose(cur.K + cur.P - 1, cur.P) THEN "ArrayCoversEveryGenotype"
         ELSE IF e.q9 - 1000000000 > 1000 \/ 1000000000 - e.q9 > 1000 THEN "ArraySumsToOne"
         ELSE "ok"
    [] e.op = "mode" ->
         IF cur = <<>> THEN "NoInstance"
         ELSE IF ~GenotypeOK(e.g) THEN "GenotypeOK"
         ELSE IF ~Matches(Weight(Pr, e.g), Normaliser(Pr, cur.P), e.q, e.e) THEN "ModeProbabilityIsItsPosterior"
         ELSE IF ~BnLeq(best, Weight(Pr, e.g)) THEN "ModeIsAMaximiser"
         ELSE "ok"
    [] OTHER -> "UnknownEvent"

Init == l = 1 /\ cur = <<>> /\ best = <<>> /\ bad = 0

Next ==
  /\ l <= Len(Trace)
  /\ LET e == Trace[l]
         v == Verdict(e)
     IN  /\ IF v = "ok" THEN TRUE ELSE PrintT(<<"@@J", ToJson([reject |-> l, clause |-> v])>>)
         /\ bad' = IF v = "ok" THEN bad ELSE bad + 1
         /\ cur' = IF e.op = "begin" THEN e ELSE cur
         /\ best' = IF e.op = "begin" THEN <<>>
                    ELSE IF e.op = "gp" /\ cur # <<>> /\ GenotypeOK(e.g)
                         THEN LET w == Weight(Pr, e.g) IN IF BnLeq(best, w) THEN w ELSE best
                         ELSE best
  /\ l' = l + 1

Spec == Init /\ [][Next]_vars
Consumed == (l = Len(Trace) + 1) => PrintT(<<"@@J", ToJson([consumed |-> l - 1, rejected |-> bad])>>)
=============================================================================
