SPECIFICATION Spec
CONSTANT Ploidies = {2, 3}
CONSTANT Menus = {"K3N2"}
CONSTANT FNums = {1}
CONSTANT Patterns = {"skew"}
CONSTANT MaxReads <- MaxReadsQuick
CONSTANT Counts = {1}
CONSTANT Mut = "occur"
INVARIANT FrequenciesProper
CHECK_DEADLOCK FALSE
