--------------------------- MODULE ExactPosterior ---------------------------
(* C03: `mchap call-exact` reports the true normalised posterior and its two *)
(* code paths (streaming / full arrays) agree.                               *)
(*                                                                           *)
(* The model is written from the mathematical definition:                    *)
(*   posterior(G) = J(G) / SUM_G' J(G'),   J(G) = PriorW(G) * PROD_r ReadNum(r,G)^c_r *)
(* over all unordered genotypes G (sorted allele tuples), with               *)
(*   PriorW    Dirichlet-multinomial (F > 0) / multinomial (F = 0) integer   *)
(*             weights for rational F = Fn/4 and frequencies w_i / SUM w,    *)
(*   ReadNum   the per-read mixture numerator SUM_h PROD_j Cell(r,j,hap_h[j])*)
(*             for reads whose cells are gaps or calls with P(correct)=7/8   *)
(*             (cell values 21/24, 1/24, gap = 24/24).                       *)
(* All arithmetic is exact (BigNat limbs).  The definitions (instance       *)
(* families, prior weights, read numerators, JBig) are in common/CallModel.  *)
(*                                                                           *)
(* State machine = the steps of the code: an instance is built (Pick,        *)
(* AddRead, Start), then the *streaming* path runs: pass 1 (running total    *)
(* and mode along the genotype enumerator), the support pass (dosage         *)
(* configurations of the mode's allele set), pass 2 (allele frequency /      *)
(* occurrence accumulators).  The *array* path is a function of the complete *)
(* table `jtab` (declarative).  Invariants relate both to the declarative    *)
(* definition over the set of all sorted tuples.                             *)
EXTENDS Integers, Sequences, FiniteSets, TLC, Json, CallModel

CONSTANTS Ploidies,     \* set of ploidies
          Menus,        \* set of haplotype-menu names
          FNums,        \* set of Fn, inbreeding F = Fn/4
          Patterns,     \* set of frequency-pattern names
          MaxReads,     \* function menu -> max number of distinct reads
          Counts,       \* set of read counts
          Mut           \* "none" or the name of a seeded model mutation

(* ---- state ---------------------------------------------------------------- *)
VARIABLES phase,    \* "root" "build" "pass1" "support" "pass2" "done"
          inst,     \* the instance record
          order,    \* VcfOrder(K, P), from the VCF text (constant per instance)
          idx, g,   \* enumerator
          total, modeIdx, modeJ,      \* streaming pass 1
          jtab,     \* table of J in visiting order (what the array path stores)
          sopts, suppJ, svisited,     \* support pass
          fnum, onum                  \* streaming pass 2 accumulators (per allele)
vars == <<phase, inst, order, idx, g, total, modeIdx, modeJ, jtab, sopts, suppJ, svisited, fnum, onum>>

NoInst == [P |-> 0, m |-> "", Fn |-> 0, Fd |-> 4, pat |-> "", K |-> 0, N |-> 0, H |-> <<>>, A |-> <<>>, w |-> <<>>, reads |-> <<>>]

Init == /\ phase = "root" /\ inst = NoInst /\ order = <<>> /\ idx = 0 /\ g = <<>>
        /\ total = <<>> /\ modeIdx = 0 /\ modeJ = <<>> /\ jtab = <<>>
        /\ sopts = {} /\ suppJ = <<>> /\ svisited = {} /\ fnum = <<>> /\ onum = <<>>

Pick(m) ==
  /\ phase = "root"
  /\ phase' = "build"
  /\ inst' = [NoInst EXCEPT !.m = m, !.K = NHap(m), !.N = NSnv(m), !.H = Hap(m), !.A = NAll(m)]
  /\ UNCHANGED <<order, idx, g, total, modeIdx, modeJ, jtab, sopts, suppJ, svisited, fnum, onum>>

AddRead(c, n) ==
  /\ phase = "build"
  /\ Len(inst.reads) < MaxReads[inst.m]
  /\ inst.reads # <<>> => Code(inst.reads[Len(inst.reads)].cells) < Code(c)     \* canonical order, distinct
  /\ inst' = [inst EXCEPT !.reads = Append(@, [cells |-> c, cnt |-> n])]
  /\ UNCHANGED <<phase, order, idx, g, total, modeIdx, modeJ, jtab, sopts, suppJ, svisited, fnum, onum>>

Start(P, Fn, pat) ==
  /\ phase = "build"
  /\ PatternOK(pat, inst.K)
  /\ phase' = "pass1"
  /\ inst' = [inst EXCEPT !.P = P, !.Fn = Fn, !.pat = pat, !.w = Weights(pat, inst.K)]
  /\ order' = VcfOrder(inst.K, P)
  /\ idx' = 0 /\ g' = [h \in 1..P |-> 0]
  /\ total' = <<>> /\ modeIdx' = 0 /\ modeJ' = <<>> /\ jtab' = <<>>
  /\ UNCHANGED <<sopts, suppJ, svisited, fnum, onum>>

NG == NGen(inst.P, inst.K)
Pass1Len == IF Mut = "skiplast" THEN NG - 1 ELSE NG

(* the code: support = unique alleles of the mode; options = multisets of    *)
(* size (P - |support|) over the support                                     *)
SupportOf(G) == IF Mut = "support" THEN 0..MaxOf(AlleleSet(G)) ELSE AlleleSet(G)
SupportOptions(G) ==
  LET S == SupportOf(G)  r == Len(G) - Cardinality(S)
  IN  IF r < 0 THEN {} ELSE {o \in [1..r -> S] : IsSorted(o)}
RECURSIVE SetToSeq(_)
SetToSeq(S) == IF S = {} THEN <<>> ELSE LET x == MaxOf(S) IN Append(SetToSeq(S \ {x}), x)
SortedOf(s) == SortSeq(s, LAMBDA x, y : x < y)

Pass1Step ==
  /\ phase = "pass1"
  /\ LET j == TLCEval(JBig(inst, g))
         newMode == BnLt(modeJ, j)           \* `ljoint > mode_ljoint` (J = 0 is -inf)
         mI == IF newMode THEN idx ELSE modeIdx
     IN  /\ total' = BnAdd(total, j)
         /\ modeJ' = IF newMode THEN j ELSE modeJ
         /\ modeIdx' = mI
         /\ jtab' = Append(jtab, j)
         /\ IF idx + 1 < Pass1Len
            THEN /\ idx' = idx + 1 /\ g' = SuccGenotype(g)
                 /\ UNCHANGED <<phase, sopts, suppJ, svisited>>
            ELSE /\ phase' = "support" /\ idx' = 0
                 /\ g' = order[mI + 1]        \* index_as_genotype_alleles(mode_idx)
                 /\ sopts' = SupportOptions(order[mI + 1])
                 /\ suppJ' = <<>> /\ svisited' = {}
  /\ UNCHANGED <<inst, order, fnum, onum>>

SupportGenotype(o) == SortedOf(SetToSeq(SupportOf(g)) \o o)
SupportStepWith(o) ==
  /\ phase = "support"
  /\ o \in sopts
  /\ LET G == SupportGenotype(o)
     IN  /\ suppJ' = BnAdd(suppJ, JBig(inst, G))
         /\ svisited' = svisited \cup {G}
         /\ sopts' = sopts \ {o}
  /\ UNCHANGED <<phase, inst, order, idx, g, total, modeIdx, modeJ, jtab, fnum, onum>>
SupportStep ==
  /\ phase = "support"
  /\ sopts # {}
  /\ SupportStepWith(CHOOSE x \in sopts : \A y \in sopts : Rank(x) <= Rank(y))

SupportDone ==
  /\ phase = "support"
  /\ sopts = {}
  /\ phase' = "pass2"
  /\ idx' = 0 /\ g' = [h \in 1..inst.P |-> 0]
  /\ fnum' = [a \in 1..inst.K |-> <<>>] /\ onum' = [a \in 1..inst.K |-> <<>>]
  /\ UNCHANGED <<inst, order, total, modeIdx, modeJ, jtab, sopts, suppJ, svisited>>

Pass2Step ==
  /\ phase = "pass2"
  /\ LET j == TLCEval(JBig(inst, g))
     IN  /\ fnum' = [a \in 1..inst.K |-> BnAdd(fnum[a], BnMulSmall(j, CountOf(g, a - 1)))]
         /\ onum' = [a \in 1..inst.K |->
                       IF (a - 1) \in AlleleSet(g)
                       THEN BnAdd(onum[a], IF Mut = "occur" THEN BnMulSmall(j, CountOf(g, a - 1)) ELSE j)
                       ELSE onum[a]]
  /\ IF idx + 1 < NG
     THEN idx' = idx + 1 /\ g' = SuccGenotype(g) /\ UNCHANGED phase
     ELSE phase' = "done" /\ UNCHANGED <<idx, g>>
  /\ UNCHANGED <<inst, order, total, modeIdx, modeJ, jtab, sopts, suppJ, svisited>>

Next == \/ \E m \in Menus : Pick(m)
        \/ (phase = "build" /\ \E c \in ReadAlphabet(inst.m), n \in Counts : AddRead(c, n))
        \/ (phase = "build" /\ \E P \in Ploidies, Fn \in FNums, pat \in Patterns : Start(P, Fn, pat))
        \/ Pass1Step \/ SupportStep \/ SupportDone \/ Pass2Step
Spec == Init /\ [][Next]_vars

(* ---- the array path: functions of the complete table ---------------------- *)
RECURSIVE BnMaxIdx(_, _, _)
BnMaxIdx(tab, n, best) ==      \* smallest index attaining the maximum among 1..n (np.argmax)
  IF n = 0 THEN best
  ELSE BnMaxIdx(tab, n - 1, IF best = 0 \/ BnLeq(tab[best], tab[n]) THEN n ELSE best)
ArrMode == BnMaxIdx(jtab, Len(jtab), 0)            \* 1-based
SupportGenotypes(G) == {x \in AllSorted(inst.P, inst.K) : AlleleSet(x) = AlleleSet(G)}
RECURSIVE BnSumIdx(_, _, _)
BnSumIdx(tab, S, acc) ==
  IF S = {} THEN acc ELSE LET x == CHOOSE y \in S : TRUE IN BnSumIdx(tab, S \ {x}, BnAdd(acc, tab[x]))
ArrSupp == BnSumIdx(jtab, {Rank(x) + 1 : x \in SupportGenotypes(order[ArrMode])}, <<>>)
RECURSIVE ArrAcc(_, _, _)
ArrAcc(a, n, perCopy) ==       \* SUM_i weight_a(order[i]) * jtab[i]
  IF n = 0 THEN <<>>
  ELSE LET c == CountOf(order[n], a)
       IN  BnAdd(ArrAcc(a, n - 1, perCopy), BnMulSmall(jtab[n], IF perCopy THEN c ELSE IF c > 0 THEN 1 ELSE 0))
ArrF == [a \in 1..inst.K |-> ArrAcc(a - 1, Len(jtab), TRUE)]
ArrO == [a \in 1..inst.K |-> ArrAcc(a - 1, Len(jtab), FALSE)]
RECURSIVE BnSumSeq(_, _)
BnSumSeq(s, n) == IF n = 0 THEN <<>> ELSE BnAdd(s[n], BnSumSeq(s, n - 1))

StreamOut == [gtJ |-> jtab[modeIdx + 1], gpm |-> modeJ, spm |-> suppJ, den |-> total, afp |-> fnum, aop |-> onum]
ArrOut == [gtJ |-> jtab[ArrMode], gpm |-> jtab[ArrMode], spm |-> ArrSupp,
           den |-> BnSumSeq(jtab, Len(jtab)), afp |-> ArrF, aop |-> ArrO]
ReportFields == {"GP", "GL", "AFP", "ACP", "AOP", "SNVDP", "AFPRIOR"}
Path(R) == IF "GP" \in R \/ "GL" \in R THEN "array" ELSE "stream"

(* ---- invariants ------------------------------------------------------------ *)
Done == phase = "done"
TypeOK == /\ phase \in {"root", "build", "pass1", "support", "pass2", "done"}
          /\ phase \in {"pass1", "pass2"} => IsSorted(g) /\ \A h \in 1..inst.P : g[h] \in 0..(inst.K - 1)
EnumeratorIsVcfOrder == phase \in {"pass1", "pass2"} => Rank(g) = idx /\ order[idx + 1] = g
(* the prior weight does not depend on the order in which the alleles are     *)
(* drawn from the urn (exchangeability), so W(G) = Perms(G) * Urn(any order)  *)
PriorExchangeable ==
  phase = "pass1" =>
    LET f == UrnFactors(inst, g)
        prod(s) == MulAll(<<1>>, s)
    IN  \A v \in [1..inst.P -> AlleleSet(g)] :
          (\A a \in AlleleSet(g) : CountOf(v, a) = CountOf(g, a)) => prod(UrnFactors(inst, v)) = prod(f)
RECURSIVE BnSumW(_, _, _)
BnSumW(i, T, acc) == IF T = {} THEN acc
                     ELSE LET x == CHOOSE y \in T : TRUE
                          IN  BnSumW(i, T \ {x}, BnAdd(acc, MulAll(<<1>>, WFactors(i, x))))
PriorSumsToOne ==      \* SUM_G W(G) = Z (proper prior over unordered genotypes)
  Done => BnSumW(inst, AllSorted(inst.P, inst.K), <<>>) = MulAll(<<1>>, PriorNormFactors(inst))
TotalIsSum == Done => total = BnSumSet(inst, AllSorted(inst.P, inst.K), <<>>)
TableIsVcfOrder ==
  Done => /\ Len(jtab) = NG /\ Len(order) = NG
          /\ \A k \in 1..NG : jtab[k] = JBig(inst, order[k])
          /\ {order[k] : k \in 1..NG} = AllSorted(inst.P, inst.K)
ModeIsArgMax ==
  Done => /\ \A k \in 1..NG : BnLeq(jtab[k], modeJ)
          /\ jtab[modeIdx + 1] = modeJ
          /\ jtab[ArrMode] = modeJ                     \* both paths report a maximiser (ties: any)
SupportIsAlleleSetClass ==
  Done => /\ svisited = SupportGenotypes(order[modeIdx + 1])
          /\ suppJ = BnSumSet(inst, SupportGenotypes(order[modeIdx + 1]), <<>>)
          /\ BnLeq(modeJ, suppJ) /\ BnLeq(suppJ, total)          \* GPM <= SPM <= 1
FrequenciesProper ==
  Done => /\ BnSumSeq(fnum, inst.K) = BnMulSmall(total, inst.P)   \* SUM AFP = 1, SUM ACP = P
          /\ \A a \in 1..inst.K :
               /\ BnLeq(onum[a], total)                           \* AOP <= 1
               /\ BnLeq(onum[a], fnum[a])                         \* AOP <= ACP
               /\ BnLeq(fnum[a], BnMulSmall(onum[a], inst.P))     \* AOP >= AFP
               /\ inst.w[a] = 0 => fnum[a] = <<>>                 \* zero prior frequency => never called
          /\ total # <<>> => BnLeq(total, BnSumSeq(onum, inst.K))
PathsAgree == Done => StreamOut = ArrOut
(* the call and its statistics are a function of the instance only: for every *)
(* subset R of optional report fields the outputs of the path that R selects  *)
(* equal those of the empty report set                                        *)
ReportIndependent ==
  Done => LET arr == TLCEval(ArrOut)
              str == TLCEval(StreamOut)
          IN  \A R \in SUBSET ReportFields : (IF Path(R) = "array" THEN arr ELSE str) = str
PosteriorNonDegenerate == Done => total # <<>>

(* ---- output for the conformance harness ------------------------------------ *)
ArgMaxSet == {k \in 1..NG : jtab[k] = modeJ}
Dump ==
  Done => PrintT(<<"@@J", ToJson([
      P |-> inst.P, m |-> inst.m, Fn |-> inst.Fn, Fd |-> inst.Fd, pat |-> inst.pat, K |-> inst.K, N |-> inst.N,
      H |-> inst.H, A |-> inst.A, w |-> inst.w, reads |-> inst.reads,
      order |-> order, jtab |-> jtab,
      ltab |-> [k \in 1..NG |-> LBig(inst, order[k])],
      lbase |-> inst.P * (24 ^ inst.N),
      total |-> total, modeIdx |-> modeIdx, argmax |-> SetToSeq({k - 1 : k \in ArgMaxSet}),
      modeJ |-> modeJ, suppJ |-> suppJ,
      support |-> SetToSeq({Rank(x) : x \in svisited}),
      fnum |-> fnum, onum |-> onum,
      priorNorm |-> PriorNormFactors(inst)])>>)

(* ---- tier constants --------------------------------------------------------- *)
MenusQuick == {"K1N0", "K2N1", "K3N2", "K4N3"}
MenusThorough == AllMenus
MaxReadsQuick == [m \in AllMenus |-> CASE m = "K1N0" -> 1 [] m = "K2N1" -> 2 [] m = "K3N1" -> 2
                                        [] m = "K3N2" -> 2 [] m = "K4N2" -> 1 [] m = "K2N3" -> 2 [] m = "K4N3" -> 1]
MaxReadsThorough == [m \in AllMenus |-> CASE m = "K1N0" -> 1 [] m = "K2N1" -> 3 [] m = "K3N1" -> 3
                                        [] m = "K3N2" -> 2 [] m = "K4N2" -> 2 [] m = "K2N3" -> 3 [] m = "K4N3" -> 2]
PatternsQuick == {"flat", "skew", "refzero"}
PatternsAll == {"flat", "skew", "dom", "lastzero", "refzero"}
=============================================================================
