SPECIFICATION Spec
CONSTANT Ploidies = {1, 2, 3, 4}
CONSTANT Menus <- MenusThorough
CONSTANT FNums = {0, 1, 2, 3}
CONSTANT Patterns <- PatternsAll
CONSTANT MaxReads <- MaxReadsThorough
CONSTANT Counts = {1, 3}
CONSTANT Mut = "none"
INVARIANT TypeOK
INVARIANT EnumeratorIsVcfOrder
INVARIANT PriorExchangeable
INVARIANT PriorSumsToOne
INVARIANT TotalIsSum
INVARIANT TableIsVcfOrder
INVARIANT ModeIsArgMax
INVARIANT SupportIsAlleleSetClass
INVARIANT FrequenciesProper
INVARIANT PathsAgree
INVARIANT ReportIndependent
INVARIANT PosteriorNonDegenerate
INVARIANT Dump
CHECK_DEADLOCK FALSE
