SPECIFICATION TSpec
CONSTANT Ploidies = {2}
CONSTANT Menus = {"K2N1"}
CONSTANT FNums = {0}
CONSTANT Patterns = {"flat"}
CONSTANT MaxReads <- MaxReadsQuick
CONSTANT Counts = {1}
CONSTANT Mut = "none"
INVARIANT Consumed
CHECK_DEADLOCK FALSE
