SPECIFICATION Spec
CONSTANT Ploidies = {2, 3, 4}
CONSTANT Menus <- MenusQuick
CONSTANT FNums = {0, 1, 3}
CONSTANT Patterns <- PatternsQuick
CONSTANT MaxReads <- MaxReadsQuick
CONSTANT Counts = {1, 2}
CONSTANT Mut = "none"
INVARIANT TypeOK
INVARIANT EnumeratorIsVcfOrder
INVARIANT PriorExchangeable
INVARIANT PriorSumsToOne
INVARIANT TotalIsSum
INVARIANT TableIsVcfOrder
INVARIANT ModeIsArgMax
INVARIANT SupportIsAlleleSetClass
INVARIANT FrequenciesProper
INVARIANT PathsAgree
INVARIANT ReportIndependent
INVARIANT PosteriorNonDegenerate
INVARIANT Dump
CHECK_DEADLOCK FALSE
