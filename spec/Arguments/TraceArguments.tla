--------------------------- MODULE TraceArguments ---------------------------
(* code -> spec.  Every event is one observation of a real run                 *)
(*   [world, inp, outcome, view, obs]                                          *)
(* inp     the abstract description of the argument vector and side files      *)
(*         (its world of alignment files is carried in inp.world),             *)
(* outcome "accepted" (program ran to the end, exit 0) or "rejected"           *)
(*         (non-zero exit / exception before or while running),                *)
(* obs     the configuration observed at one point (view): program attributes  *)
(*         after cli, the values handed to the engines, or the output text.    *)
(* The event's input is loaded into the state machine of Arguments.tla, the     *)
(* machine is stepped through its own actions to `done` / `rejected`, and the   *)
(* observed outcome / configuration is judged against the final state.  Every   *)
(* line gets a verdict naming the failing clauses.                              *)
EXTENDS Arguments

Trace == JsonDeserialize(IOEnv.TRACE_FILE)

VARIABLES l, bad
tvars == <<inp, stage, why, may, samples, cfg, l, bad>>

TInit == /\ l = 1 /\ bad = 0
         /\ inp = [none |-> TRUE] /\ stage = "idle" /\ why = "" /\ may = FALSE /\ samples = <<>> /\ cfg = [none |-> TRUE]

Load == /\ stage = "idle" /\ l <= Len(Trace)
        /\ inp' = Trace[l].inp
        /\ stage' = "options" /\ why' = "" /\ may' = FALSE /\ samples' = <<>> /\ cfg' = [none |-> TRUE]
        /\ UNCHANGED <<l, bad>>

Step == /\ (DoOptions \/ DoDiscover \/ DoPool \/ DoExtend \/ DoValues \/ DoReport \/ DoMcmc \/ DoPedigree)
        /\ UNCHANGED <<l, bad>>

(* comparison of one observed field with the model's configuration; containers arrive as   *)
(* JSON arrays, so sets are compared through Range and pools as bags of (sample, file)      *)
Cols == Range(cfg.columns)
SameMap(o, m) == DOMAIN o = DOMAIN m /\ \A c \in DOMAIN m : o[c] = m[c]
OverCols(o, m) == Cols \subseteq DOMAIN o /\ \A c \in Cols : o[c] = m[c]
FieldOk(f, o) ==
  CASE f = "columns"    -> Len(o) = Len(cfg.columns) /\ Range(o) = Cols
    [] f = "members"    -> Cols \subseteq DOMAIN o /\ \A c \in Cols : Len(o[c]) = Len(cfg.members[c]) /\ Range(o[c]) = Range(cfg.members[c])
    [] f = "reads"      -> Len(o) = SumSeq([i \in DOMAIN cfg.columns |-> Len(cfg.members[cfg.columns[i]])])
                           /\ Range(o) = UNION {Range(cfg.members[c]) : c \in Cols}
    [] f = "ploidy"     -> OverCols(o, cfg.ploidy)
    [] f = "inbreeding" -> OverCols(o, cfg.inbreeding)
    [] f = "total"      -> o = cfg.total
    [] f = "info"       -> Range(o) = cfg.info
    [] f = "format"     -> Range(o) = cfg.format
    [] f = "mcmc"       -> \A k \in DOMAIN o : k \in DOMAIN cfg.mcmc /\ o[k] = cfg.mcmc[k]
    [] f = "temps"      -> "temps" \in DOMAIN cfg /\ OverCols(o, cfg.temps)
    [] f = "parents"    -> "parents" \in DOMAIN cfg /\ OverCols(o, cfg.parents)
    [] f = "tau"        -> "tau" \in DOMAIN cfg /\ OverCols(o, cfg.tau)
    [] f = "ibd"        -> "ibd" \in DOMAIN cfg /\ OverCols(o, cfg.ibd)
    [] f = "err"        -> "err" \in DOMAIN cfg /\ OverCols(o, cfg.err)
    [] f = "rg"         -> o = FieldOf(inp)
    [] OTHER            -> FALSE
OrderOk(o) == "columns" \notin DOMAIN o \/ o.columns = cfg.columns

Failing(e) ==
  IF stage = "rejected"
  THEN IF e.outcome = "rejected" THEN {} ELSE {"must-reject:" \o why}
  ELSE IF e.outcome = "rejected"
       THEN IF may THEN {} ELSE {"must-accept"}
       ELSE IF inp.prog = "atomize" THEN {}
       ELSE {f \in DOMAIN e.obs : ~FieldOk(f, e.obs[f])}

Judge == /\ Final
         /\ LET e == Trace[l]
                f == Failing(e)
            IN  /\ IF f = {} THEN TRUE
                   ELSE PrintT(<<"@@J", ToJson([reject |-> l, clause |-> f, model |-> IF Done THEN "accept" ELSE why])>>)
                /\ IF Done /\ e.outcome = "accepted" /\ f = {} /\ ~OrderOk(e.obs)
                   THEN PrintT(<<"@@J", ToJson([note |-> l, what |-> "column-order"])>>) ELSE TRUE
                /\ IF Done /\ may /\ e.outcome = "rejected"
                   THEN PrintT(<<"@@J", ToJson([note |-> l, what |-> "tolerated-rejection"])>>) ELSE TRUE
                /\ bad' = IF f = {} THEN bad ELSE bad + 1
         /\ l' = l + 1
         /\ stage' = "idle"
         /\ UNCHANGED <<inp, why, may, samples, cfg>>

TNext == Load \/ Step \/ Judge
TSpec == TInit /\ [][TNext]_tvars
Consumed == (stage = "idle" /\ l = Len(Trace) + 1) => PrintT(<<"@@J", ToJson([consumed |-> l - 1, rejected |-> bad])>>)
=============================================================================
