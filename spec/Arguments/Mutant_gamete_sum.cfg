SPECIFICATION Spec
CONSTANT Tier = "mutant"
CONSTANT Mutation = "gamete_sum_unchecked"
INVARIANT PedigreeSane
CHECK_DEADLOCK FALSE
