SPECIFICATION Spec
CONSTANT Tier = "mutant"
CONSTANT Mutation = "ladder_as_given"
INVARIANT McmcSane
CHECK_DEADLOCK FALSE
