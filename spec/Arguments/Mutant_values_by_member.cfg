SPECIFICATION Spec
CONSTANT Tier = "mutant"
CONSTANT Mutation = "values_by_member_sample"
INVARIANT ByPoolName
CHECK_DEADLOCK FALSE
