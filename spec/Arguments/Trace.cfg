SPECIFICATION TSpec
CONSTANT Tier = "trace"
CONSTANT Mutation = "none"
INVARIANT Consumed
INVARIANT Refines
INVARIANT UniqueColumns
INVARIANT EverySampleUsed
CHECK_DEADLOCK FALSE
