SPECIFICATION Spec
CONSTANT Tier = "mutant"
CONSTANT Mutation = "pool_missing_sample_ignored"
INVARIANT EverySampleUsed
CHECK_DEADLOCK FALSE
