SPECIFICATION Spec
CONSTANT Tier = "mutant"
CONSTANT Mutation = "total_over_file"
INVARIANT ExtrasIrrelevant
CHECK_DEADLOCK FALSE
