SPECIFICATION Spec
CONSTANT Tier = "mutant"
CONSTANT Mutation = "info_prefix_selects_both"
INVARIANT ReportSides
CHECK_DEADLOCK FALSE
