------------------------------ MODULE Arguments ------------------------------
(* X02: command-line configuration state.                                     *)
(*                                                                            *)
(* How `mchap assemble | call | call-exact | call-pedigree | find-snvs` turn  *)
(* their arguments and side files into the per-sample configuration they run  *)
(* with (atomize: only which arguments it takes; it has no sample options).  Source of every rule: the help texts /repo/cli-*-help.txt, the      *)
(* "Sample parameters" / "Sample pooling" / "Output parameters" sections of   *)
(* docs/assemble.rst and docs/call.rst, and the docstrings of                 *)
(* mchap.application.arguments / mchap.io.bam.extract_sample_ids.             *)
(*                                                                            *)
(* The resolution is a state machine whose actions are the documented steps   *)
(*   Options -> Discover -> Pool -> Extend -> Values -> Report -> Mcmc        *)
(*           -> Pedigree -> done | rejected                                   *)
(* Every step is a pure operator of the abstract input, so the same operators *)
(* give the function Resolve(W, inp) used by the invariants and by            *)
(* TraceArguments.tla.  An input is an abstract description of an argument    *)
(* vector and of the contents of its side files over a world W of alignment   *)
(* files (file id -> read groups).                                            *)
(*                                                                            *)
(* Verdict of an input: "reject" (the program must end with a non-zero exit   *)
(* before writing a record, naming `why`) or "accept" with the configuration  *)
(* `cfg`; `may` marks inputs on which the documentation is silent about       *)
(* rejection (unknown --report tokens, samples absent from the pedigree file, *)
(* unknown names in a temperature file, several samples per file in           *)
(* find-snvs): a rejection is tolerated there, an acceptance must still give  *)
(* exactly `cfg`.                                                             *)
EXTENDS Integers, Sequences, FiniteSets, TLC, Json, IOUtils

CONSTANTS Tier, Mutation

Range(s) == {s[i] : i \in DOMAIN s}
RECURSIVE Dedup(_)
Dedup(s) == IF s = <<>> THEN <<>>
            ELSE LET r == Dedup(SubSeq(s, 1, Len(s) - 1))
                     x == s[Len(s)]
                 IN  IF x \in Range(r) THEN r ELSE Append(r, x)
RECURSIVE SortSet(_)
SortSet(S) == IF S = {} THEN <<>>
              ELSE LET m == CHOOSE x \in S : \A y \in S : x <= y
                   IN  <<m>> \o SortSet(S \ {m})
NameSeq == <<"S1", "S2", "S3", "S4", "S5", "P1", "P2", "X9", "Q1", "Z9">>
SortNames(S) == SelectSeq(NameSeq, LAMBDA n : n \in S)
RECURSIVE SumSeq(_)
SumSeq(s) == IF s = <<>> THEN 0 ELSE Head(s) + SumSeq(Tail(s))
Distinct(s) == \A i, j \in DOMAIN s : i < j => s[i] # s[j]
Col(s, k) == [i \in DOMAIN s |-> s[i][k]]
EntryOf(E, n) == E[CHOOSE i \in DOMAIN E : E[i][1] = n]

(* ---- the world: alignment files and their read groups ---------------------- *)
Rg(i, s) == [id |-> i, sm |-> s]
World == [b1 |-> <<Rg("a1", "S1"), Rg("a2", "S1")>>,      \* two read groups, one sample
          b2 |-> <<Rg("r2", "S2")>>,
          b3 |-> <<Rg("c1", "S3"), Rg("c2", "S4")>>,      \* two samples in one file
          b4 |-> <<Rg("d1", "S1")>>,                      \* SM collides with b1, ID does not
          b5 |-> <<Rg("r2", "S5")>>]                      \* ID collides with b2, SM does not

(* ---- which option groups each program documents (usage lines of the helps) -- *)
Calling == {"assemble", "call", "call-exact", "call-pedigree"}
Programs == Calling \cup {"find-snvs", "atomize"}   \* atomize: one positional VCF, no option group, no sample configuration
Accepts(prog, group) ==
  CASE group = "pool"       -> prog \in Calling
    [] group = "ploidy"     -> prog \in Calling
    [] group = "inbreeding" -> prog \in {"assemble", "call", "call-exact"}
    [] group = "report"     -> prog \in Calling
    [] group = "mcmc"       -> prog \in {"assemble", "call", "call-pedigree"}
    [] group = "temps"      -> prog = "assemble"
    [] group = "pedigree"   -> prog = "call-pedigree"
    [] group = "targets"    -> prog \in {"assemble", "find-snvs"}
    [] group = "region"     -> prog = "assemble"
Groups == {"pool", "ploidy", "inbreeding", "report", "mcmc", "temps", "pedigree", "targets", "region"}
Given(inp, group) ==
  CASE group = "pool"       -> inp.pool.kind # "none"
    [] group = "ploidy"     -> inp.ploidy.kind # "default"
    [] group = "inbreeding" -> inp.inbreeding.kind # "default"
    [] group = "report"     -> inp.report.given
    [] group = "mcmc"       -> inp.mcmc.given
    [] group = "temps"      -> inp.temps.kind # "default"
    [] group = "pedigree"   -> inp.ped.given \/ inp.ped.tau.kind # "default" \/ inp.ped.ibd.kind # "default"
                               \/ inp.ped.err.kind # "default"
    [] group = "targets"    -> inp.locus \in {"targets", "both"}
    [] group = "region"     -> inp.locus \in {"region", "both"}

Rej(w) == [ok |-> FALSE, why |-> w]
WorldOf(i) == IF "world" \in DOMAIN i THEN i.world ELSE World

(* ---- step 1: the option groups -------------------------------------------- *)
(* no argument at all prints the help and exits 1; an option the program does   *)
(* not list is an error; --targets and --region cannot be combined; assemble    *)
(* needs one of them, find-snvs needs --targets                                 *)
Options(inp) ==
  IF inp.empty THEN Rej("no-arguments")
  ELSE IF \E g \in Groups : Given(inp, g) /\ ~Accepts(inp.prog, g) THEN Rej("option-not-accepted")
  ELSE IF inp.locus = "both" THEN Rej("targets-and-region")
  ELSE IF inp.prog \in {"assemble", "find-snvs"} /\ inp.locus = "none" THEN Rej("no-locus")
  ELSE [ok |-> TRUE]

(* ---- step 2: sample discovery --------------------------------------------- *)
(* --bam (1) a list of files or (2) a file of paths: all samples within each    *)
(* file are used, the sample identifier is the chosen read-group field (SM or   *)
(* ID); several read groups of one file may name the same sample, the same      *)
(* identifier in two files is an error.  (3) a file of sample/path pairs: only  *)
(* the named sample is taken from its file and it must be present there; "a     *)
(* sample identifier and its corresponding bam filepath": one file per sample,  *)
(* so a name on two lines is the same error as in (1)/(2) (it would otherwise    *)
(* give two sample columns of one name; reads are combined with --sample-pool). *)
KeyOf(r, f) == IF f = "ID" THEN r.id ELSE r.sm
FieldOf(inp) == IF inp.rg = "default" THEN "SM" ELSE inp.rg
BamKeys(W, b, f) == Dedup([i \in DOMAIN W[b] |-> KeyOf(W[b][i], f)])
RECURSIVE Flatten(_, _, _)
Flatten(W, bs, f) ==
  IF bs = <<>> THEN <<>>
  ELSE LET b == Head(bs)
           ks == BamKeys(W, b, f)
       IN  [i \in DOMAIN ks |-> <<ks[i], b>>] \o Flatten(W, Tail(bs), f)
Discover(W, inp) ==
  LET f == FieldOf(inp)
      n == Len(inp.bams)
  IN  IF f \notin {"SM", "ID"} THEN Rej("read-group-field")
      ELSE IF \E i \in 1..n : inp.bams[i] \notin DOMAIN W THEN Rej("alignment-file-missing")
      ELSE IF inp.bamForm = "pairfile"
      THEN IF \E i \in 1..n : inp.pairNames[i] \notin Range(BamKeys(W, inp.bams[i], f))
           THEN Rej("sample-not-in-its-file")
           ELSE IF ~Distinct(inp.pairNames) /\ Mutation # "pairfile_duplicates_kept"
           THEN Rej("duplicate-sample")
           ELSE [ok |-> TRUE, samples |-> [i \in 1..n |-> <<inp.pairNames[i], inp.bams[i]>>]]
      ELSE LET all == Flatten(W, inp.bams, f)
           IN  IF ~Distinct(Col(all, 1)) THEN Rej("duplicate-sample")
               ELSE [ok |-> TRUE, samples |-> all]
(* find-snvs documents nothing about several samples per file; the tool raises  *)
ManyKeys(W, inp) == \E i \in DOMAIN inp.bams : Len(BamKeys(W, inp.bams[i], FieldOf(inp))) > 1

(* ---- step 3: pooling ------------------------------------------------------- *)
(* no option: every sample is its own column.  A name: one pool of all samples. *)
(* A file: sample <tab> pool per line; a sample may be in several pools, all    *)
(* samples must be specified, names that are no sample are an error; a pool     *)
(* combines the reads of its constituent samples.                               *)
BamOf(samples, s) == EntryOf(samples, s)[2]
Pool(inp, samples) ==
  LET names == Col(samples, 1)
      ns == Range(names)
  IN  CASE inp.pool.kind = "none" ->
             [ok |-> TRUE, columns |-> names, members |-> [c \in ns |-> << <<c, BamOf(samples, c)>> >>]]
        [] inp.pool.kind = "name" ->
             [ok |-> TRUE, columns |-> <<inp.pool.name>>, members |-> [c \in {inp.pool.name} |-> samples]]
        [] inp.pool.kind = "file" ->
             LET L == inp.pool.lines
                 listed == Range(Col(L, 1))
             IN  IF ns \ listed # {} /\ Mutation # "pool_missing_sample_ignored"
                 THEN Rej("sample-not-assigned-to-a-pool")
                 ELSE IF listed \ ns # {} THEN Rej("unknown-sample-in-pool-file")
                 ELSE LET pools == Dedup(Col(L, 2))
                      IN  [ok |-> TRUE, columns |-> pools,
                           members |-> [p \in Range(pools) |->
                              LET mine == SelectSeq(L, LAMBDA l : l[2] = p)
                              IN  [i \in DOMAIN mine |-> <<mine[i][1], BamOf(samples, mine[i][1])>>]]]

(* ---- step 4: call-pedigree appends the samples that only the pedigree names -- *)
Extend(inp, columns) ==
  IF inp.prog = "call-pedigree" /\ inp.ped.given
  THEN Dedup(columns \o Col(inp.ped.parents, 1))
  ELSE columns

(* ---- step 5: per-sample values (--ploidy, --inbreeding) -------------------- *)
(* a number for all samples, or a file "name <tab> value" that must list every  *)
(* analysed sample (the POOL names under pooling); further entries are allowed  *)
(* and have no influence.  Ploidy is a positive integer, 0 <= inbreeding < 1    *)
(* (hundredths here).  call-pedigree has no --inbreeding: 0 for everybody.      *)
(* the name under which a column is looked up in a value file: its own (pool) name      *)
LookupName(inp, members, c) ==
  IF Mutation = "values_by_member_sample" /\ inp.pool.kind # "none" /\ members[c] # <<>> THEN members[c][1][1] ELSE c
ValueMap(v, names, dflt, key(_)) ==
  CASE v.kind = "default" -> [ok |-> TRUE, map |-> [n \in names |-> dflt]]
    [] v.kind = "num" -> [ok |-> TRUE, map |-> [n \in names |-> v.num]]
    [] v.kind = "file" ->
         IF \E n \in names : key(n) \notin Range(Col(v.entries, 1)) THEN Rej("sample-missing-from-value-file")
         ELSE [ok |-> TRUE, map |-> [n \in names |-> EntryOf(v.entries, key(n))[2]]]
Values(inp, columns, members) ==
  LET names == Range(columns)
      key(n) == LookupName(inp, members, n)
      p == ValueMap(inp.ploidy, names, 2, key)
      f == IF inp.prog = "call-pedigree" THEN [ok |-> TRUE, map |-> [n \in names |-> 0]]
           ELSE ValueMap(inp.inbreeding, names, 0, key)
  IN  IF ~p.ok THEN p
      ELSE IF ~f.ok THEN f
      ELSE IF \E n \in names : p.map[n] < 1 THEN Rej("ploidy-not-positive")
      ELSE IF \E n \in names : f.map[n] < 0 \/ f.map[n] >= 100 THEN Rej("inbreeding-range")
      ELSE [ok |-> TRUE, ploidy |-> p.map, inbreeding |-> f.map,
            total |-> IF Mutation = "total_over_file" /\ inp.ploidy.kind = "file"
                      THEN SumSeq(Col(inp.ploidy.entries, 2))
                      ELSE SumSeq([i \in DOMAIN columns |-> p.map[columns[i]]])]

(* ---- step 6: --report ------------------------------------------------------- *)
(* "X" reports INFO/X and FORMAT/X (those that exist), "INFO/X" / "FORMAT/X"     *)
(* only that one; call-pedigree always adds FORMAT/PEDERR                       *)
InfoOptional == {"AFPRIOR", "ACP", "AFP", "AOP", "AOPSUM", "SNVDP"}
FormatOptional == {"ACP", "AFP", "AOP", "GP", "GL", "SNVDP"}
KnownTokens == InfoOptional \cup FormatOptional \cup {"INFO/" \o f : f \in InfoOptional}
               \cup {"FORMAT/" \o f : f \in FormatOptional}
Report(inp) ==
  LET T == IF inp.report.given THEN Range(inp.report.tokens) ELSE {}
  IN  [info |-> {f \in InfoOptional : f \in T \/ ("INFO/" \o f) \in T},
       format |-> {f \in FormatOptional : f \in T \/ ("FORMAT/" \o f) \in T
                       \/ (Mutation = "info_prefix_selects_both" /\ ("INFO/" \o f) \in T)}
                  \cup (IF inp.prog = "call-pedigree" THEN {"PEDERR"} ELSE {}),
       may |-> T \ KnownTokens # {}]

(* ---- step 7: MCMC options ---------------------------------------------------- *)
(* defaults 2000 steps, 1000 burn-in, seed 42, 2 chains; the burn-in is removed   *)
(* from the steps, so something must remain.  Inverse temperatures (assemble):    *)
(* values in (0, 1]; the ladder handed to the sampler is ascending and ends with  *)
(* the cold chain 1.0, which is added when missing; a file gives a ladder per     *)
(* sample (pool), samples not listed are not tempered.                            *)
McmcOf(inp) == IF inp.mcmc.given THEN [steps |-> inp.mcmc.steps, burn |-> inp.mcmc.burn, seed |-> inp.mcmc.seed,
                                       chains |-> inp.mcmc.chains]
               ELSE [steps |-> 2000, burn |-> 1000, seed |-> 42, chains |-> 2]
Ladder(vals) == IF Mutation = "ladder_as_given" THEN vals \o (IF 100 \in Range(vals) THEN <<>> ELSE <<100>>)
                ELSE SortSet(Range(vals) \cup {100})
Mcmc(inp, columns) ==
  LET m == McmcOf(inp)
      names == Range(columns)
  IN  IF inp.prog = "call-exact" THEN [ok |-> TRUE, mcmc |-> [none |-> TRUE], may |-> FALSE]
      ELSE IF m.steps < 1 \/ m.burn < 0 \/ m.chains < 1 THEN Rej("mcmc-counts")
      ELSE IF m.burn >= m.steps THEN Rej("burn-in-not-less-than-steps")
      ELSE IF inp.prog # "assemble" THEN [ok |-> TRUE, mcmc |-> m, may |-> FALSE]
      ELSE CASE inp.temps.kind = "default" ->
                  [ok |-> TRUE, mcmc |-> m, temps |-> [n \in names |-> <<100>>], may |-> FALSE]
             [] inp.temps.kind = "list" ->
                  IF \E i \in DOMAIN inp.temps.values : inp.temps.values[i] < 1 \/ inp.temps.values[i] > 100
                  THEN Rej("temperature-range")
                  ELSE [ok |-> TRUE, mcmc |-> m, temps |-> [n \in names |-> Ladder(inp.temps.values)], may |-> FALSE]
             [] inp.temps.kind = "file" ->
                  LET E == inp.temps.entries
                      used == {i \in DOMAIN E : E[i][1] \in names}
                  IN  IF \E i \in used : \E k \in DOMAIN E[i][2] : E[i][2][k] < 1 \/ E[i][2][k] > 100
                      THEN Rej("temperature-range")
                      ELSE [ok |-> TRUE, mcmc |-> m,
                            temps |-> [n \in names |-> IF n \in Range(Col(E, 1)) THEN Ladder(EntryOf(E, n)[2])
                                                       ELSE <<100>>],
                            may |-> Range(Col(E, 1)) \ names # {}]

(* ---- step 8: the pedigree (call-pedigree) ------------------------------------ *)
(* --sample-parents: sample, parent, parent per line, '.' = unknown parent; a     *)
(* parent must be a sample; a sample the file does not list has no known parent   *)
(* (the documentation does not say that it must be listed: `may`).  --gamete-ploidy: default half of the sample's        *)
(* ploidy (impossible for odd ploidy), a number for all, or a file; for every     *)
(* sample the two gametes must sum to its ploidy.  --gamete-ibd in [0, 1], non-   *)
(* zero only for gametes of ploidy 2.  --gamete-error in [0, 1].                  *)
PairMap(v, names, dflt) ==
  CASE v.kind = "default" -> [ok |-> TRUE, map |-> [n \in names |-> <<dflt, dflt>>]]
    [] v.kind = "num" -> [ok |-> TRUE, map |-> [n \in names |-> <<v.num, v.num>>]]
    [] v.kind = "file" ->
         IF names \ Range(Col(v.entries, 1)) # {} THEN Rej("sample-missing-from-gamete-file")
         ELSE [ok |-> TRUE, map |-> [n \in names |-> <<EntryOf(v.entries, n)[2], EntryOf(v.entries, n)[3]>>]]
Pedigree(inp, columns, ploidy) ==
  LET names == Range(columns)
      P == inp.ped.parents
      listed == Range(Col(P, 1))
      parents == [n \in names |-> IF n \in listed THEN <<EntryOf(P, n)[2], EntryOf(P, n)[3]>> ELSE <<".", ".">>]
      tau == IF inp.ped.tau.kind = "default"
             THEN IF \E n \in names : ploidy[n] % 2 = 1 THEN Rej("odd-ploidy-needs-gamete-ploidy")
                  ELSE [ok |-> TRUE, map |-> [n \in names |-> <<ploidy[n] \div 2, ploidy[n] \div 2>>]]
             ELSE PairMap(inp.ped.tau, names, 0)
      ibd == PairMap(inp.ped.ibd, names, 0)
      err == PairMap(inp.ped.err, names, 1)
  IN  IF \E n \in names : \E k \in 1..2 : parents[n][k] \notin names \cup {"."} THEN Rej("parent-is-no-sample")
      ELSE IF ~tau.ok THEN tau
      ELSE IF ~ibd.ok THEN ibd
      ELSE IF ~err.ok THEN err
      ELSE IF \E n \in names : tau.map[n][1] + tau.map[n][2] # ploidy[n] /\ Mutation # "gamete_sum_unchecked"
      THEN Rej("gamete-ploidy-sum")
      ELSE IF \E n \in names : \E k \in 1..2 : ibd.map[n][k] < 0 \/ ibd.map[n][k] > 100 THEN Rej("gamete-ibd-range")
      ELSE IF \E n \in names : \E k \in 1..2 : ibd.map[n][k] # 0 /\ tau.map[n][k] # 2 THEN Rej("gamete-ibd-needs-diploid-gamete")
      ELSE IF \E n \in names : \E k \in 1..2 : err.map[n][k] < 0 \/ err.map[n][k] > 100 THEN Rej("gamete-error-range")
      ELSE [ok |-> TRUE, parents |-> parents, tau |-> tau.map, ibd |-> ibd.map, err |-> err.map,
            may |-> names \ listed # {}]   \* also: no --sample-parents at all (everybody a founder, or an error)

(* ---- the whole resolution as a function ----------------------------------------- *)
Verdict(cfg, may) == [verdict |-> "accept", why |-> "", may |-> may, cfg |-> cfg]
Reject(w) == [verdict |-> "reject", why |-> w, may |-> FALSE, cfg |-> [none |-> TRUE]]
Resolve(W, inp) ==
  LET o == Options(inp) IN IF ~o.ok THEN Reject(o.why) ELSE
  IF inp.prog = "atomize" THEN Verdict([none |-> TRUE], TRUE) ELSE
  LET d == Discover(W, inp) IN IF ~d.ok THEN Reject(d.why) ELSE
  IF inp.prog = "find-snvs"
  THEN Verdict([columns |-> Col(d.samples, 1),
                members |-> [c \in Range(Col(d.samples, 1)) |-> << <<c, BamOf(d.samples, c)>> >>]], ManyKeys(W, inp))
  ELSE
  LET p == Pool(inp, d.samples) IN IF ~p.ok THEN Reject(p.why) ELSE
  LET columns == Extend(inp, p.columns)
      members == [c \in Range(columns) |-> IF c \in DOMAIN p.members THEN p.members[c] ELSE <<>>]
      v == Values(inp, columns, members) IN IF ~v.ok THEN Reject(v.why) ELSE
  LET r == Report(inp)
      m == Mcmc(inp, columns) IN IF ~m.ok THEN Reject(m.why) ELSE
  LET base == [columns |-> columns, members |-> members, ploidy |-> v.ploidy, inbreeding |-> v.inbreeding,
               total |-> v.total, info |-> r.info, format |-> r.format, mcmc |-> m.mcmc]
      withT == IF inp.prog = "assemble" THEN base @@ [temps |-> m.temps] ELSE base
  IN  IF inp.prog # "call-pedigree" THEN Verdict(withT, r.may \/ m.may)
      ELSE LET g == Pedigree(inp, columns, v.ploidy)
           IN  IF ~g.ok THEN Reject(g.why)
               ELSE Verdict(withT @@ [parents |-> g.parents, tau |-> g.tau, ibd |-> g.ibd, err |-> g.err],
                            r.may \/ m.may \/ g.may)

(* entries of value files that name no analysed sample, removed                     *)
StripV(v, names) == IF v.kind = "file" THEN [v EXCEPT !.entries = SelectSeq(v.entries, LAMBDA e : e[1] \in names)] ELSE v
Strip(inp, names) ==
  [inp EXCEPT !.ploidy = StripV(inp.ploidy, names), !.inbreeding = StripV(inp.inbreeding, names),
              !.ped.tau = StripV(inp.ped.tau, names), !.ped.ibd = StripV(inp.ped.ibd, names),
              !.ped.err = StripV(inp.ped.err, names)]

(* ================= the state machine ============================================ *)
VARIABLES inp, stage, why, may, samples, cfg
vars == <<inp, stage, why, may, samples, cfg>>

NoV == [kind |-> "default", num |-> 0, entries |-> <<>>]
NoPed == [given |-> FALSE, parents |-> <<>>, tau |-> NoV, ibd |-> NoV, err |-> NoV]
Fast == [given |-> TRUE, steps |-> 60, burn |-> 30, seed |-> 11, chains |-> 2]
NoMcmc == [given |-> FALSE, steps |-> 0, burn |-> 0, seed |-> 0, chains |-> 0]
NoTemps == [kind |-> "default", values |-> <<>>, entries |-> <<>>]
Base == [scen |-> "", prog |-> "call-exact", empty |-> FALSE, bamForm |-> "list", bams |-> <<"b2", "b5">>,
         pairNames |-> <<>>, rg |-> "default", pool |-> [kind |-> "none", name |-> "", lines |-> <<>>],
         ploidy |-> NoV, inbreeding |-> NoV, report |-> [given |-> FALSE, tokens |-> <<>>],
         mcmc |-> NoMcmc, temps |-> NoTemps, locus |-> "none", ped |-> NoPed]
LocusFor(prog) == IF prog \in {"assemble", "find-snvs"} THEN "targets" ELSE "none"
McmcFor(prog) == IF prog \in {"call-exact", "find-snvs"} THEN NoMcmc ELSE Fast

(* ---- the explored configuration space (see MC_*.cfg: Tier) ------------------------ *)
Quick == Tier # "thorough"
SeqsOver(S, n) == UNION {{s \in [1..k -> S] : Distinct(s)} : k \in 1..n}
V(kind, num, entries) == [kind |-> kind, num |-> num, entries |-> entries]
(* every subset of a name set as a value file, values from a fixed table              *)
FileOver(names, val(_)) == {V("file", 0, [i \in DOMAIN s |-> <<s[i], val(s[i])>>]) :
                              s \in {SortNames(x) : x \in SUBSET names}}

(* scenario "disc": discovery ------------------------------------------------------- *)
BamSeqs == SeqsOver(DOMAIN World, IF Quick THEN 2 ELSE 3) \cup {<<"nx">>, <<"b2", "nx">>}
NameChoices(b) == IF b \in DOMAIN World
                  THEN {World[b][1].sm, World[b][1].id, World[b][Len(World[b])].sm, "X9"} ELSE {"S1"}
RECURSIVE NameSeqs(_)
NameSeqs(bs) == IF bs = <<>> THEN {<<>>}
                ELSE {<<n>> \o t : n \in NameChoices(Head(bs)), t \in NameSeqs(Tail(bs))}
BamSpecs == {<<"list", bs, <<>> >> : bs \in BamSeqs} \cup {<<"pathfile", bs, <<>> >> : bs \in BamSeqs}
            \cup UNION {{<<"pairfile", bs, ns>> : ns \in NameSeqs(bs)} : bs \in {b \in BamSeqs : Len(b) <= 2}}
DiscSeeds == {[Base EXCEPT !.scen = "disc", !.bamForm = sp[1], !.bams = sp[2], !.pairNames = sp[3]] : sp \in BamSpecs}
DiscPick(i) == {[i EXCEPT !.prog = pr, !.rg = rg, !.pool = pl, !.locus = LocusFor(pr), !.mcmc = McmcFor(pr)] :
                  pr \in {"call-exact", "assemble", "find-snvs"},
                  rg \in {"default", "SM", "ID", "LB"},
                  pl \in {[kind |-> "none", name |-> "", lines |-> <<>>], [kind |-> "name", name |-> "P1", lines |-> <<>>]}}

(* scenario "maps": pools and value files over the samples {S2, S5} ------------------- *)
(* pool files: S2 and S5 each in a subset of the pools {P1, P2, S2} (a pool may carry the  *)
(* name of a sample), the unknown name X9 in none / some; lines sample-major, or reversed *)
PoolNames == <<"P1", "P2", "S2">>
LinesOf(s, ps) == LET q == SelectSeq(PoolNames, LAMBDA p : p \in ps) IN [i \in DOMAIN q |-> <<s, q[i]>>]
Rev(s) == [i \in DOMAIN s |-> s[Len(s) + 1 - i]]
PoolLineSeqs == {LinesOf("S2", a) \o LinesOf("S5", b) \o LinesOf("X9", c) :
                   a \in SUBSET Range(PoolNames), b \in SUBSET Range(PoolNames),
                   c \in (IF Quick THEN {{}, {"P1"}} ELSE {{}, {"P1"}, {"P2", "S2"}, Range(PoolNames)})}
PoolFilesFwd == {[kind |-> "file", name |-> "", lines |-> l] : l \in PoolLineSeqs}
PoolFilesRev == {[kind |-> "file", name |-> "", lines |-> Rev(l)] : l \in {x \in PoolLineSeqs : Quick => Len(x) = 3}}
NoPoolOrName == {[kind |-> "none", name |-> "", lines |-> <<>>], [kind |-> "name", name |-> "P1", lines |-> <<>>]}
MapPools == NoPoolOrName \cup PoolFilesFwd \cup PoolFilesRev
MapNames == {"S2", "S5", "P1", "P2", "X9"}
PloidyOf(n) == CASE n = "S2" -> 2 [] n = "S5" -> 4 [] n = "P1" -> 4 [] n = "P2" -> 6 [] OTHER -> 8
InbOf(n) == CASE n = "S2" -> 0 [] n = "S5" -> 25 [] n = "P1" -> 50 [] n = "P2" -> 10 [] OTHER -> 75
MapPloidies == {NoV, V("num", 4, <<>>)} \cup FileOver(MapNames, PloidyOf)
(* "must be a positive integer": kept to a narrow slice, the compiled code under test   *)
(* takes the interpreter down on ploidy 0 (every such run costs a worker process)       *)
ZeroPloidies == {V("num", 0, <<>>), V("file", 0, <<<<"S2", 2>>, <<"S5", 0>>, <<"P1", 0>>, <<"X9", 0>> >>)}
MapInbreedings == {NoV, V("num", 25, <<>>), V("num", 100, <<>>),
                   V("file", 0, [i \in 1..5 |-> <<SortNames(MapNames)[i], InbOf(SortNames(MapNames)[i])>>]),
                   V("file", 0, <<<<"S2", 0>>, <<"S5", 25>>, <<"X9", 150>> >>),
                   V("file", 0, <<<<"P1", 50>>, <<"P2", 10>>, <<"X9", 75>> >>),
                   V("file", 0, <<<<"S2", 100>>, <<"S5", 25>>, <<"P1", 50>>, <<"P2", 10>> >>)}
(* the population-level INFO fields are reported: they are where a value file's superfluous  *)
(* entries could leak into the output (normalisation over the file instead of the columns)   *)
MapReport == [given |-> TRUE, tokens |-> <<"AFP", "ACP", "AOP", "AOPSUM">>]
MapSeeds == {[Base EXCEPT !.scen = "maps", !.pool = p, !.report = MapReport] : p \in MapPools}
            \cup (IF Quick THEN {} ELSE {[Base EXCEPT !.scen = "maps2", !.pool = p, !.report = MapReport] : p \in NoPoolOrName \cup PoolFilesFwd})
MapPick(i) == {[i EXCEPT !.prog = pr, !.ploidy = q, !.inbreeding = f, !.mcmc = McmcFor(pr)] :
                 pr \in {IF i.scen = "maps" THEN "call-exact" ELSE "call"}, q \in MapPloidies, f \in MapInbreedings}
              \cup (IF i.pool.kind = "file" \/ i.scen # "maps" THEN {} ELSE {[i EXCEPT !.ploidy = z] : z \in ZeroPloidies})

(* scenario "report": --report tokens per program ----------------------------------- *)
Tokens == KnownTokens \cup {"FOO", "INFO/GP", "FORMAT/AOPSUM"}
TokenSeqs == {<<>>} \cup {<<t>> : t \in Tokens} \cup {s \in {<<t, u>> : t \in Tokens, u \in Tokens} : s[1] # s[2]}
             \cup (IF Quick THEN {} ELSE {s \in {<<"AFP", t, u>> : t \in Tokens \ {"AFP"}, u \in Tokens \ {"AFP"}} : s[2] # s[3]})
Founders(ns) == [given |-> TRUE, parents |-> [i \in DOMAIN ns |-> <<ns[i], ".", ".">>], tau |-> NoV, ibd |-> NoV, err |-> NoV]
ReportSeeds == {[Base EXCEPT !.scen = "report", !.prog = pr, !.bams = <<"b2">>, !.locus = LocusFor(pr), !.mcmc = McmcFor(pr),
                              !.ped = IF pr = "call-pedigree" THEN Founders(<<"S2">>) ELSE NoPed] : pr \in Calling}
ReportPick(i) == {[i EXCEPT !.report = [given |-> TRUE, tokens |-> ts]] : ts \in TokenSeqs}
                 \cup {i}

(* scenario "mcmc": steps / burn-in / seed / chains, temperatures, option groups ------ *)
McmcChoices == {NoMcmc, Fast} \cup {[given |-> TRUE, steps |-> 60, burn |-> b, seed |-> s, chains |-> c] :
                                      b \in {0, 59, 60, 90}, s \in {7}, c \in {1, 3}}
TempVals == {10, 50, 100, 0, 150}
TempLists == {[kind |-> "list", values |-> s, entries |-> <<>>] : s \in SeqsOver(TempVals, IF Quick THEN 2 ELSE 3)}
LadderOf(k) == CASE k = 1 -> <<50>> [] k = 2 -> <<100, 20>> [] k = 3 -> <<30, 150>> [] OTHER -> <<>>
TempFiles == {[kind |-> "file", values |-> <<>>,
               entries |-> LET ns == SortNames({n \in {"S2", "S5", "P1", "X9"} : f[n] # 0})
                           IN  [i \in DOMAIN ns |-> <<ns[i], LadderOf(f[ns[i]])>>]] :
                f \in [{"S2", "S5", "P1", "X9"} -> 0..3]}
McmcSeeds == {[Base EXCEPT !.scen = "mcmc", !.prog = pr, !.locus = LocusFor(pr),
                            !.ped = IF pr = "call-pedigree" THEN Founders(<<"S2", "S5">>) ELSE NoPed] : pr \in Calling}
OtherSeeds == {[Base EXCEPT !.scen = "mcmc", !.prog = pr, !.locus = LocusFor(pr), !.bams = <<"b2">>] : pr \in {"find-snvs", "atomize"}}
OtherPick(i) == {i, [i EXCEPT !.empty = TRUE], [i EXCEPT !.mcmc = Fast], [i EXCEPT !.ploidy = V("num", 4, <<>>)],
                 [i EXCEPT !.report = [given |-> TRUE, tokens |-> <<"AFP">>]], [i EXCEPT !.locus = "region"],
                 [i EXCEPT !.pool = [kind |-> "name", name |-> "P1", lines |-> <<>>]]}
McmcPick(i) ==
  IF i.prog \notin Calling THEN OtherPick(i) ELSE
  {[i EXCEPT !.mcmc = m] : m \in McmcChoices}
  \cup {[i EXCEPT !.mcmc = Fast, !.temps = t] : t \in TempLists}
  \cup {[i EXCEPT !.mcmc = Fast, !.temps = t, !.pool = pl] : t \in TempFiles,
          pl \in {[kind |-> "none", name |-> "", lines |-> <<>>], [kind |-> "name", name |-> "P1", lines |-> <<>>]}}
  \cup {[i EXCEPT !.mcmc = McmcFor(i.prog), !.locus = l] : l \in {"none", "targets", "region", "both"}}
  \cup {[i EXCEPT !.mcmc = McmcFor(i.prog), !.inbreeding = V("num", 25, <<>>)],
        [i EXCEPT !.mcmc = McmcFor(i.prog), !.ped = Founders(<<"S2", "S5">>)],
        [i EXCEPT !.mcmc = McmcFor(i.prog), !.ped = [NoPed EXCEPT !.err = V("num", 1, <<>>)]],
        [i EXCEPT !.empty = TRUE]}

(* scenario "ped": the pedigree arguments over the samples {S2, S5} (+ X9) ------------- *)
S5Lines == {<<>>, << <<"S5", ".", ".">> >>, << <<"S5", "S2", ".">> >>, << <<"S5", ".", "S2">> >>, << <<"S5", "S2", "Z9">> >>}
X9Lines == {<<>>, << <<"X9", "S2", "S5">> >>, << <<"X9", "S5", "S2">> >>, << <<"X9", ".", ".">> >>}
ParentFiles == {a \o b \o c : a \in {<<>>, << <<"S2", ".", ".">> >>}, b \in S5Lines, c \in X9Lines}
PedPloidies == {NoV, V("num", 4, <<>>), V("num", 3, <<>>),
                V("file", 0, << <<"S2", 2>>, <<"S5", 4>>, <<"X9", 2>>, <<"Q1", 5>> >>),
                V("file", 0, << <<"S2", 4>>, <<"S5", 3>>, <<"X9", 4>> >>),
                V("file", 0, << <<"S2", 2>>, <<"S5", 4>> >>)}
PedTaus == {NoV, V("num", 1, <<>>), V("num", 2, <<>>),
            V("file", 0, << <<"S2", 1, 1>>, <<"S5", 2, 2>>, <<"X9", 1, 1>>, <<"Q1", 7, 7>> >>),
            V("file", 0, << <<"S2", 2, 2>>, <<"S5", 1, 2>>, <<"X9", 2, 2>> >>),
            V("file", 0, << <<"S2", 1, 1>>, <<"S5", 1, 3>>, <<"X9", 2, 0>> >>),
            V("file", 0, << <<"S2", 1, 1>>, <<"X9", 1, 1>> >>)}
PedIbds == {NoV, V("num", 50, <<>>), V("num", 150, <<>>),
            V("file", 0, << <<"S2", 0, 0>>, <<"S5", 50, 0>>, <<"X9", 0, 0>>, <<"Q1", 100, 100>> >>)}
            \cup (IF Quick THEN {} ELSE {V("num", 0, <<>>), V("file", 0, << <<"S2", 0, 0>>, <<"S5", 0, 100>> >>)})
PedErrs == {NoV, V("num", 150, <<>>), V("file", 0, << <<"S2", 0, 100>>, <<"S5", 5, 10>>, <<"X9", 1, 1>>, <<"Q1", 500, 500>> >>)}
           \cup (IF Quick THEN {} ELSE {V("num", 0, <<>>), V("num", 100, <<>>), V("file", 0, << <<"S2", 0, 100>>, <<"S5", 5, 101>>, <<"X9", 1, 1>> >>)})
PedSeeds == {[Base EXCEPT !.scen = "ped", !.prog = "call-pedigree", !.mcmc = Fast,
                           !.ped = [given |-> TRUE, parents |-> p, tau |-> NoV, ibd |-> NoV, err |-> NoV]] : p \in ParentFiles}
PedPick(i) == {[i EXCEPT !.ploidy = q, !.ped.tau = t, !.ped.ibd = l, !.ped.err = e] :
                 q \in PedPloidies, t \in PedTaus, l \in PedIbds, e \in PedErrs}

Scen == IF "X02_SCEN" \in DOMAIN IOEnv THEN IOEnv.X02_SCEN ELSE "all"
Seeds == {i \in DiscSeeds \cup MapSeeds \cup ReportSeeds \cup McmcSeeds \cup OtherSeeds \cup PedSeeds : Scen \in {"all", i.scen}}
PickOf(i) == CASE i.scen = "disc" -> DiscPick(i) [] i.scen \in {"maps", "maps2"} -> MapPick(i) [] i.scen = "report" -> ReportPick(i)
               [] i.scen = "mcmc" -> McmcPick(i) [] i.scen = "ped" -> PedPick(i)

Init == /\ inp \in Seeds
        /\ stage = "seed" /\ why = "" /\ may = FALSE /\ samples = <<>> /\ cfg = [none |-> TRUE]

Pick == /\ stage = "seed"
        /\ inp' \in PickOf(inp)
        /\ stage' = "options"
        /\ UNCHANGED <<why, may, samples, cfg>>

Fail(w) == stage' = "rejected" /\ why' = w /\ UNCHANGED <<inp, may, samples, cfg>>

DoOptions == /\ stage = "options"
             /\ LET o == Options(inp)
                IN  IF ~o.ok THEN Fail(o.why)
                    ELSE IF inp.prog = "atomize"
                    THEN stage' = "done" /\ may' = TRUE /\ UNCHANGED <<inp, why, samples, cfg>>
                    ELSE stage' = "discover" /\ UNCHANGED <<inp, why, may, samples, cfg>>

DoDiscover == /\ stage = "discover"
              /\ LET d == Discover(WorldOf(inp), inp)
                 IN  IF ~d.ok THEN Fail(d.why)
                     ELSE IF inp.prog = "find-snvs"
                     THEN /\ stage' = "done"
                          /\ samples' = d.samples
                          /\ cfg' = [columns |-> Col(d.samples, 1),
                                     members |-> [c \in Range(Col(d.samples, 1)) |-> << <<c, BamOf(d.samples, c)>> >>]]
                          /\ may' = ManyKeys(WorldOf(inp), inp)
                          /\ UNCHANGED <<inp, why>>
                     ELSE stage' = "pool" /\ samples' = d.samples /\ UNCHANGED <<inp, why, may, cfg>>

DoPool == /\ stage = "pool"
          /\ LET p == Pool(inp, samples)
             IN  IF ~p.ok THEN Fail(p.why)
                 ELSE /\ stage' = "extend"
                      /\ cfg' = [columns |-> p.columns, members |-> p.members]
                      /\ UNCHANGED <<inp, why, may, samples>>

DoExtend == /\ stage = "extend"
            /\ LET columns == Extend(inp, cfg.columns)
               IN  cfg' = [columns |-> columns,
                           members |-> [c \in Range(columns) |-> IF c \in DOMAIN cfg.members THEN cfg.members[c] ELSE <<>>]]
            /\ stage' = "values"
            /\ UNCHANGED <<inp, why, may, samples>>

DoValues == /\ stage = "values"
            /\ LET v == Values(inp, cfg.columns, cfg.members)
               IN  IF ~v.ok THEN Fail(v.why)
                   ELSE /\ cfg' = cfg @@ [ploidy |-> v.ploidy, inbreeding |-> v.inbreeding, total |-> v.total]
                        /\ stage' = "report"
                        /\ UNCHANGED <<inp, why, may, samples>>

DoReport == /\ stage = "report"
            /\ LET r == Report(inp)
               IN  /\ cfg' = cfg @@ [info |-> r.info, format |-> r.format]
                   /\ may' = r.may
            /\ stage' = "mcmc"
            /\ UNCHANGED <<inp, why, samples>>

DoMcmc == /\ stage = "mcmc"
          /\ LET m == Mcmc(inp, cfg.columns)
             IN  IF ~m.ok THEN Fail(m.why)
                 ELSE /\ cfg' = IF inp.prog = "assemble" THEN cfg @@ [mcmc |-> m.mcmc, temps |-> m.temps]
                                ELSE cfg @@ [mcmc |-> m.mcmc]
                      /\ may' = (may \/ m.may)
                      /\ stage' = IF inp.prog = "call-pedigree" THEN "pedigree" ELSE "done"
                      /\ UNCHANGED <<inp, why, samples>>

DoPedigree == /\ stage = "pedigree"
              /\ LET g == Pedigree(inp, cfg.columns, cfg.ploidy)
                 IN  IF ~g.ok THEN Fail(g.why)
                     ELSE /\ cfg' = cfg @@ [parents |-> g.parents, tau |-> g.tau, ibd |-> g.ibd, err |-> g.err]
                          /\ may' = (may \/ g.may)
                          /\ stage' = "done"
                          /\ UNCHANGED <<inp, why, samples>>

Next == Pick \/ DoOptions \/ DoDiscover \/ DoPool \/ DoExtend \/ DoValues \/ DoReport \/ DoMcmc \/ DoPedigree
Spec == Init /\ [][Next]_vars

(* ================= invariants: the documented guarantees ========================= *)
Final == stage \in {"done", "rejected"}
Done == stage = "done"
Full == Done /\ inp.prog \notin {"find-snvs", "atomize"}
R == Resolve(WorldOf(inp), inp)

(* the step-by-step machine computes the function Resolve                              *)
Refines == /\ (Done => R.verdict = "accept" /\ R.cfg = cfg /\ R.may = may)
           /\ (stage = "rejected" => R.verdict = "reject" /\ R.why = why)

(* a column per sample / pool, no name twice (VCF sample columns)                       *)
HasColumns == Done /\ inp.prog # "atomize"
UniqueColumns == HasColumns => Distinct(cfg.columns)

(* all samples within each file are used; a pool file must assign every sample;         *)
(* nothing that was not discovered is read                                              *)
EverySampleUsed ==
  HasColumns => LET used == UNION {Range(cfg.members[c]) : c \in Range(cfg.columns)}
          IN  used = Range(samples)

(* exactly one ploidy / inbreeding per analysed column, in range                        *)
ValuesTotal ==
  Full => /\ DOMAIN cfg.ploidy = Range(cfg.columns) /\ DOMAIN cfg.inbreeding = Range(cfg.columns)
          /\ \A c \in Range(cfg.columns) : cfg.ploidy[c] >= 1 /\ cfg.inbreeding[c] \in 0..99

(* under pooling the per-sample parameters are those listed under the POOL name        *)
ByPoolName ==
  (Full /\ inp.ploidy.kind = "file") =>
     \A c \in Range(cfg.columns) : c \in Range(Col(inp.ploidy.entries, 1)) /\ cfg.ploidy[c] = EntryOf(inp.ploidy.entries, c)[2]

(* entries of a value file that name no analysed sample have no influence               *)
ExtrasIrrelevant ==
  Full => LET s == Resolve(WorldOf(inp), Strip(inp, Range(cfg.columns)))
          IN  s.verdict = "accept" /\ s.cfg = cfg

(* --report: a prefixed token selects only its own side; defaults are never removed      *)
ReportSides ==
  Full => LET T == IF inp.report.given THEN Range(inp.report.tokens) ELSE {}
          IN  /\ \A f \in cfg.info : f \in T \/ ("INFO/" \o f) \in T
              /\ \A f \in cfg.format \ {"PEDERR"} : f \in T \/ ("FORMAT/" \o f) \in T
              /\ ("PEDERR" \in cfg.format) = (inp.prog = "call-pedigree")

(* something remains after the burn-in; the ladder is ascending and ends in the cold chain *)
McmcSane ==
  (Full /\ inp.prog # "call-exact") =>
     /\ 0 <= cfg.mcmc.burn /\ cfg.mcmc.burn < cfg.mcmc.steps
     /\ (inp.prog = "assemble" =>
           \A c \in Range(cfg.columns) :
              LET t == cfg.temps[c]
              IN  /\ Len(t) >= 1 /\ t[Len(t)] = 100 /\ t[1] >= 1
                  /\ \A k \in 1..(Len(t) - 1) : t[k] < t[k + 1])

(* pedigree: parents are samples or unknown, gametes sum to the ploidy, IBD only for       *)
(* diploid gametes, probabilities in range                                                  *)
PedigreeSane ==
  (Full /\ inp.prog = "call-pedigree") =>
     \A c \in Range(cfg.columns) :
        /\ \A k \in 1..2 : cfg.parents[c][k] \in Range(cfg.columns) \cup {"."}
        /\ cfg.tau[c][1] + cfg.tau[c][2] = cfg.ploidy[c]
        /\ \A k \in 1..2 : cfg.ibd[c][k] \in 0..100 /\ (cfg.ibd[c][k] # 0 => cfg.tau[c][k] = 2)
        /\ \A k \in 1..2 : cfg.err[c][k] \in 0..100
        /\ cfg.inbreeding[c] = 0

(* ---- every final state is printed for the replay into the real parsers ------------------ *)
Dump == IF Final /\ Tier # "mutant"
        THEN LET st == IF Full THEN Strip(inp, Range(cfg.columns)) ELSE inp
                 v == IF Done THEN "accept" ELSE "reject"
             IN  IF st = inp
                 THEN PrintT(<<"@@J", ToJson([inp |-> inp, verdict |-> v, why |-> why, may |-> may, cfg |-> cfg])>>)
                 ELSE PrintT(<<"@@J", ToJson([inp |-> inp, verdict |-> v, why |-> why, may |-> may, cfg |-> cfg, strip |-> st])>>)
        ELSE TRUE
DumpWorld == PrintT(<<"@@J", ToJson([world |-> World])>>)
=============================================================================
