SPECIFICATION Spec
CONSTANT Tier = "quick"
CONSTANT Mutation = "none"
INVARIANT Refines
INVARIANT UniqueColumns
INVARIANT EverySampleUsed
INVARIANT ValuesTotal
INVARIANT ByPoolName
INVARIANT ExtrasIrrelevant
INVARIANT ReportSides
INVARIANT McmcSane
INVARIANT PedigreeSane
CONSTRAINT Dump
CHECK_DEADLOCK FALSE
