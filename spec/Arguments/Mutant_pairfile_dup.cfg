SPECIFICATION Spec
CONSTANT Tier = "mutant"
CONSTANT Mutation = "pairfile_duplicates_kept"
INVARIANT UniqueColumns
CHECK_DEADLOCK FALSE
