-------------------------- MODULE PedigreeSampler --------------------------
(* C18: every move of the call-pedigree sampler is stationary at the joint   *)
(* pedigree posterior.                                                       *)
(*                                                                           *)
(* State: the ordered allele vectors of all individuals of a small pedigree. *)
(* Declarative target (unordered):  J(s) = prod_i L_i(G_i) * Trio(G_i | parents(i)) *)
(* with Trio from the first-principles inheritance model (PedInheritance),   *)
(* founders = both parents unknown = multinomial in f.  Each unordered       *)
(* genotype has Perms(G) orderings, so the target on ordered states is       *)
(*      pi(s) = prod_i L_i(G_i) * Trio_i / Perms(G_i).                       *)
(* L_i is the documented read likelihood for reads that call alleles with    *)
(* P(correct) = 7/8 (mean over the genotype's haplotypes of the product over *)
(* informative positions), kept as integer numerators.                       *)
(*                                                                           *)
(* The moves are modelled with the structure the sampler uses:               *)
(*  Gibbs(i,k):  weight_b = L_i(G^b) * AlleleLevel(x^b,k) * prod_{children} Trio  *)
(*     where AlleleLevel decomposes by the origin of position k (gamete p    *)
(*     with probability tau_p/P, gamete q with tau_q/P);                     *)
(*  MH(i,k):     uniform proposal, min(1, L-ratio * blanket-ratio * copy-count ratio) *)
(*  Swap(p,q):   exchange one allele between the two parents of a family,    *)
(*     min(1, L-ratios * pair-blanket ratio * (1+c_p(a_q))(1+c_q(a_p)) / (c_p(a_p) c_q(a_q))) *)
(* and the invariants prove, in exact arithmetic and in every reachable      *)
(* joint state, that these equal the full conditional / satisfy detailed     *)
(* balance with respect to pi.  All comparisons are between RATIOS of        *)
(* neighbouring states (the current state always has pi > 0), which stay     *)
(* small gcd-reduced rationals; the absolute factors of pi(s) are printed    *)
(* for the harness, never multiplied inside TLC (32-bit integers).           *)
EXTENDS Integers, Sequences, FiniteSets, TLC, Json, PedInheritance

CONSTANT Peds      \* sequence of pedigree records, see the configurations below

VARIABLES pd,      \* index into Peds
          s,       \* s[i] = ordered allele vector of individual i
          tab      \* trio / allele-level probabilities of this pedigree, tabulated once in Init
                   \* (TLC does not memoise operators)
vars == <<pd, s, tab>>

RDiv(x, y) == RMul(x, <<y[2], y[1]>>)        \* y > 0
RGeqOne(x) == x[1] >= x[2]
RMin1(x) == IF RGeqOne(x) THEN ROne ELSE x

(* ------------------------------------------------------------------------ *)
(* pedigree accessors                                                        *)
Bag(x, K) == SubBag(x, DOMAIN x, K)
BagT(x) == tab.bag[x]                       \* tabulated Bag (see tab below)
ParBag(ped, st, j) == IF j = 0 THEN <<>> ELSE BagT(st[j])
(* trio parameters of individual i for parental bags gp, gq (<<>> = unknown)  *)
TPb(ped, i, gp, gq) ==
  [K |-> ped.K, Gp |-> gp, Gq |-> gq,
   tp |-> ped.tau[i][1], tq |-> ped.tau[i][2], lp |-> ped.lam[i][1], lq |-> ped.lam[i][2],
   ep |-> ped.err[i][1], eq |-> ped.err[i][2], f |-> ped.f]
TP(ped, st, i) == TPb(ped, i, ParBag(ped, st, ped.par[i][1]), ParBag(ped, st, ped.par[i][2]))
PermsOf(ped, st, i) == tab.perms[BagT(st[i])]
CntIn(x, a) == Cardinality({j \in DOMAIN x : x[j] = a})

(* TLC does not memoise operators; the trio probabilities of every individual *)
(* for every (own bag, parental bags) are therefore tabulated once, in Init,  *)
(* into the state variable tab (which never changes).                        *)
VecsOf(K, P) == IF P = 0 THEN {<<>>} ELSE {[j \in 1..P |-> x[j]] : x \in [1..P -> 0..(K - 1)]}
BagsOf(K, P) == {Bag(x, K) : x \in VecsOf(K, P)}
ParBagSet(ped, j) == IF j = 0 THEN {<<>>} ELSE BagsOf(ped.K, ped.ploidy[j])
TrioKeys(ped, i) ==
  BagsOf(ped.K, ped.ploidy[i]) \X ParBagSet(ped, ped.par[i][1]) \X ParBagSet(ped, ped.par[i][2])
TrioTabFor(ped) ==
  TLCEval([i \in 1..ped.n |->
     TLCEval([key \in TrioKeys(ped, i) |-> TLCEval(Trio(key[1], TPb(ped, i, key[2], key[3])))])])
TrioOf(ped, st, i) ==
  tab.trio[i][<<BagT(st[i]), ParBag(ped, st, ped.par[i][1]), ParBag(ped, st, ped.par[i][2])>>]

(* children of i (each child once, also when it was produced by selfing)     *)
Children(ped, i) == {c \in 1..ped.n : ped.par[c][1] = i \/ ped.par[c][2] = i}
(* parental pairs <<p, q>>, p <= q                                            *)
Pairs(ped) ==
  {<<IF ped.par[c][1] <= ped.par[c][2] THEN ped.par[c][1] ELSE ped.par[c][2],
     IF ped.par[c][1] <= ped.par[c][2] THEN ped.par[c][2] ELSE ped.par[c][1]>> :
       c \in {c \in 1..ped.n : ped.par[c][1] > 0 /\ ped.par[c][2] > 0}}
PairBlanket(ped, p, q) == {p, q} \cup Children(ped, p) \cup Children(ped, q)

(* ------------------------------------------------------------------------ *)
(* read likelihood numerators                                                *)
RECURSIVE ReadWFrom(_, _, _)
ReadWFrom(c, hap, j) ==
  IF j = 0 THEN 1
  ELSE (IF c[j] = -1 THEN 1 ELSE IF c[j] = hap[j] THEN 7 ELSE 1) * ReadWFrom(c, hap, j - 1)
ReadW(ped, r, a) == ReadWFrom(r.c, ped.haps[a + 1], Len(r.c))
RECURSIVE MixWFrom(_, _, _, _)
MixWFrom(ped, r, x, j) == IF j = 0 THEN 0 ELSE ReadW(ped, r, x[j]) + MixWFrom(ped, r, x, j - 1)
MixW(ped, r, x) == MixWFrom(ped, r, x, Len(x))
(* a read row is a pair (calls, observation count); a row with count 0 is an   *)
(* unused slot (padding, or a read that was masked) wherever it sits           *)
RowCount(r) == r.n
LWFactors(ped, rs, x) == IF Len(rs) = 0 THEN <<>> ELSE [m \in 1..Len(rs) |-> <<MixW(ped, rs[m], x), RowCount(rs[m])>>]
(* L(x) for the read set rs, as an integer numerator                         *)
RECURSIVE IntPow(_, _)
IntPow(b, c) == IF c = 0 THEN 1 ELSE b * IntPow(b, c - 1)
RECURSIVE LWFrom(_, _)
LWFrom(fs, m) == IF m = 0 THEN 1 ELSE IntPow(fs[m][1], fs[m][2]) * LWFrom(fs, m - 1)
LW(ped, rs, x) == LET fs == LWFactors(ped, rs, x) IN LWFrom(fs, Len(fs))
LWOf(ped, i, x) == tab.lw[i][BagT(x)]       \* tabulated L_i for the individual's own reads
AllVecs(ped) == UNION {VecsOf(ped.K, ped.ploidy[i]) : i \in 1..ped.n}
BagTabFor(ped) == TLCEval([x \in AllVecs(ped) |-> Bag(x, ped.K)])
PermsTabFor(ped) == TLCEval([g \in {Bag(x, ped.K) : x \in AllVecs(ped)} |-> Perms(g)])
LWTabFor(ped) ==
  TLCEval([i \in 1..ped.n |-> TLCEval([g \in BagsOf(ped.K, ped.ploidy[i]) |-> LW(ped, ped.reads[i], g)])])

(* ------------------------------------------------------------------------ *)
(* the declarative joint, as ratios between two states                       *)
Positive(ped, st) == \A i \in 1..ped.n : RPos(TrioOf(ped, st, i))
(* factor of individual j in pi(t) / pi(st)   (pi(st) > 0)                    *)
FacRatio(ped, st, t, j) ==
  RMul(RMul(RFrac(LWOf(ped, j, t[j]), LWOf(ped, j, st[j])),
            RDiv(TrioOf(ped, t, j), TrioOf(ped, st, j))),
       RFrac(PermsOf(ped, st, j), PermsOf(ped, t, j)))
RECURSIVE PiRatioFrom(_, _, _, _)
PiRatioFrom(ped, st, t, j) ==
  IF j = 0 THEN ROne ELSE RMul(FacRatio(ped, st, t, j), PiRatioFrom(ped, st, t, j - 1))
(* pi(t) / pi(st): the product runs over ALL individuals                      *)
PiRatio(ped, st, t) == PiRatioFrom(ped, st, t, ped.n)

(* ------------------------------------------------------------------------ *)
(* ordered progeny vectors from first principles                             *)
RECURSIVE SortedSeqOf(_)
SortedSeqOf(A) == IF A = {} THEN <<>>
                  ELSE LET m == CHOOSE a \in A : \A b \in A : a <= b
                       IN  <<m>> \o SortedSeqOf(A \ {m})
Restrict(x, A) == LET ix == SortedSeqOf(A) IN [j \in 1..Len(ix) |-> x[ix[j]]]
InjTuples(n, t) == {c \in [1..t -> 1..n] : \A i \in 1..t : \A j \in 1..t : i < j => c[i] # c[j]}
(* ordered draw y of distinct copies of the parent (no double reduction)      *)
SeqNoDR(y, Gpar) ==
  LET tup == InjTuples(Len(Gpar), Len(y))
  IN  RFrac(Cardinality({c \in tup : \A j \in 1..Len(y) : Gpar[c[j]] = y[j]}), Cardinality(tup))
SeqDR(y, Gpar) ==
  RFrac(Cardinality({c \in 1..Len(Gpar) : y = <<Gpar[c], Gpar[c]>>}), Len(Gpar))
SeqIID(y, f) == RProdSeq([j \in 1..Len(y) |-> f[y[j] + 1]], Len(y))
SeqMix(y, Gpar, lam, e, f) ==
  IF Gpar = <<>> \/ Len(y) = 0 THEN SeqIID(y, f)
  ELSE RAdd(RMul(RCompl(e),
                 IF RPos(lam) THEN RAdd(RMul(RCompl(lam), SeqNoDR(y, Gpar)), RMul(lam, SeqDR(y, Gpar)))
                 ELSE SeqNoDR(y, Gpar)),
            RMul(e, SeqIID(y, f)))
(* positions A come from gamete p (in order), the others from gamete q        *)
OriginTerm(x, A, P) ==
  RMul(SeqMix(Restrict(x, A), P.Gp, P.lp, P.ep, P.f),
       SeqMix(Restrict(x, (1..Len(x)) \ A), P.Gq, P.lq, P.eq, P.f))
MeanOver(x, As, P) ==
  IF As = {} THEN RZero
  ELSE RMul(RFrac(1, Cardinality(As)), RSumFn([A \in As |-> OriginTerm(x, A, P)], As))
OrderedProb(x, P) == MeanOver(x, SubsetsOfSize(Len(x), P.tp), P)

(* probability that a given position of the progeny vector came from a gamete *)
(* of ploidy t out of n positions                                            *)
OriginW(t, n) == RFrac(t, n)
(* the allele-level pmf as the sampler structures it: by origin of position k *)
AlleleLevel(x, k, P) ==
  LET As == SubsetsOfSize(Len(x), P.tp)
  IN  RAdd(RMul(OriginW(P.tp, Len(x)), MeanOver(x, {A \in As : k \in A}, P)),
           RMul(OriginW(P.tq, Len(x)), MeanOver(x, {A \in As : k \notin A}, P)))

(* tabulated once, like the trios                                            *)
AlleleKeys(ped, i) ==
  VecsOf(ped.K, ped.ploidy[i]) \X (1..ped.ploidy[i]) \X ParBagSet(ped, ped.par[i][1]) \X ParBagSet(ped, ped.par[i][2])
AlleleTabFor(ped) ==
  TLCEval([i \in 1..ped.n |->
     TLCEval([key \in AlleleKeys(ped, i) |->
                TLCEval(AlleleLevel(key[1], key[2], TPb(ped, i, key[3], key[4])))])])
AlleleLevelOf(ped, st, i, k) ==
  tab.allele[i][<<st[i], k, ParBag(ped, st, ped.par[i][1]), ParBag(ped, st, ped.par[i][2])>>]

(* ------------------------------------------------------------------------ *)
(* the moves, with the sampler's structure                                   *)
SetCell(st, i, k, b) == [st EXCEPT ![i] = [@ EXCEPT ![k] = b]]

RECURSIVE TrioRatioOver(_, _, _, _)
TrioRatioOver(ped, st, t, S) ==       \* prod_{c in S} Trio_c(t) / Trio_c(st)
  IF S = {} THEN ROne
  ELSE LET c == CHOOSE c \in S : TRUE
       IN  RMul(RDiv(TrioOf(ped, t, c), TrioOf(ped, st, c)), TrioRatioOver(ped, st, t, S \ {c}))

(* Gibbs weight of allele b at (i,k) relative to the weight of the current allele *)
GibbsRatio(ped, st, i, k, b) ==
  LET sb == SetCell(st, i, k, b)
  IN  RMul(RMul(RFrac(LWOf(ped, i, sb[i]), LWOf(ped, i, st[i])),
                RDiv(AlleleLevelOf(ped, sb, i, k), AlleleLevelOf(ped, st, i, k))),
           TrioRatioOver(ped, st, sb, Children(ped, i)))

(* Markov blanket of one individual: its own trio and its children's trios    *)
BlanketRatio(ped, st, t, i) ==
  RMul(RFrac(LWOf(ped, i, t[i]), LWOf(ped, i, st[i])),
       TrioRatioOver(ped, st, t, {i} \cup Children(ped, i)))

(* MH ratio for proposing allele b at (i,k)                                   *)
MHCnt(x, a) == CntIn(x, a)
MHRatio(ped, st, i, k, b) ==
  LET sb == SetCell(st, i, k, b)
  IN  RMul(BlanketRatio(ped, st, sb, i), RFrac(MHCnt(sb[i], b), MHCnt(st[i], st[i][k])))

(* exchange position ip of p with position iq of q                            *)
SwapTarget(st, p, q, ip, iq) ==
  IF p = q THEN [st EXCEPT ![p] = [@ EXCEPT ![ip] = st[p][iq], ![iq] = st[p][ip]]]
  ELSE [st EXCEPT ![p] = [@ EXCEPT ![ip] = st[q][iq]], ![q] = [@ EXCEPT ![iq] = st[p][ip]]]
ReadsOf(ped, p, q, i) == ped.reads[i]     \* reads used for sample i in the swap of (p,q)
PairRatio(ped, st, t, p, q) ==
  RMul(RMul(RFrac(LW(ped, ReadsOf(ped, p, q, p), t[p]), LW(ped, ReadsOf(ped, p, q, p), st[p])),
            RFrac(LW(ped, ReadsOf(ped, p, q, q), t[q]), LW(ped, ReadsOf(ped, p, q, q), st[q]))),
       TrioRatioOver(ped, st, t, PairBlanket(ped, p, q)))
SwapCountRatio(st, p, q, ap, aq) ==    \* reversal / proposal multiplicities
  <<(1 + CntIn(st[p], aq)) * (1 + CntIn(st[q], ap)), CntIn(st[p], ap) * CntIn(st[q], aq)>>
SwapRatio(ped, st, p, q, ip, iq) ==
  LET t == SwapTarget(st, p, q, ip, iq)
      cr == SwapCountRatio(st, p, q, st[p][ip], st[q][iq])
  IN  RMul(PairRatio(ped, st, t, p, q), RFrac(cr[1], cr[2]))

(* ------------------------------------------------------------------------ *)
(* state machine: the moves that have positive probability                   *)
Ped == Peds[pd]
Init == /\ pd \in 1..Len(Peds)
        /\ s = [i \in 1..Peds[pd].n |-> [k \in 1..Peds[pd].ploidy[i] |-> 0]]
        /\ tab = [trio |-> TrioTabFor(Peds[pd]), allele |-> AlleleTabFor(Peds[pd]), bag |-> BagTabFor(Peds[pd]),
                  perms |-> PermsTabFor(Peds[pd]), lw |-> LWTabFor(Peds[pd])]

AlleleMove(i, k, b) ==      \* Gibbs and MH reach the same states
  /\ b # s[i][k]
  /\ Positive(Ped, SetCell(s, i, k, b))
  /\ s' = SetCell(s, i, k, b)
  /\ UNCHANGED <<pd, tab>>
SwapMove(p, q, ip, iq) ==
  /\ s[p][ip] # s[q][iq]
  /\ Positive(Ped, SwapTarget(s, p, q, ip, iq))
  /\ s' = SwapTarget(s, p, q, ip, iq)
  /\ UNCHANGED <<pd, tab>>
Next ==
  \/ \E i \in 1..Ped.n : \E k \in 1..Ped.ploidy[i] : \E b \in 0..(Ped.K - 1) : AlleleMove(i, k, b)
  \/ \E pq \in Pairs(Ped) : \E ip \in 1..Ped.ploidy[pq[1]] : \E iq \in 1..Ped.ploidy[pq[2]] :
        SwapMove(pq[1], pq[2], ip, iq)
Spec == Init /\ [][Next]_vars

(* ------------------------------------------------------------------------ *)
(* invariants                                                                *)
TypeOK == /\ pd \in 1..Len(Peds)
          /\ \A i \in 1..Ped.n : Len(s[i]) = Ped.ploidy[i] /\ \A k \in DOMAIN s[i] : s[i][k] \in 0..(Ped.K - 1)
          /\ \A i \in 1..Ped.n : Ped.tau[i][1] + Ped.tau[i][2] = Ped.ploidy[i]
InSupport == Positive(Ped, s)
AtStart == \A i \in 1..Ped.n : \A k \in DOMAIN s[i] : s[i][k] = 0

(* checked once per pedigree, over the whole tables (every own vector and      *)
(* every parental bag, reachable or not): the ordered-vector model (origin    *)
(* subsets, ordered draws) agrees with the bag model (splits, subsets of       *)
(* copies) ...                                                               *)
OrderedIsTrioOverPerms ==
  AtStart =>
    \A i \in 1..Ped.n : \A key \in AlleleKeys(Ped, i) :
       key[2] = 1 =>
         RMul(OrderedProb(key[1], TPb(Ped, i, key[3], key[4])), RInt(Perms(Bag(key[1], Ped.K))))
           = tab.trio[i][<<Bag(key[1], Ped.K), key[3], key[4]>>]
(* ... and the origin decomposition with weights tau/P is the ordered-vector  *)
(* probability itself                                                        *)
AlleleLevelIsOrderedProb ==
  AtStart =>
    \A i \in 1..Ped.n : \A key \in AlleleKeys(Ped, i) :
       tab.allele[i][key] = OrderedProb(key[1], TPb(Ped, i, key[3], key[4]))

(* the Gibbs weights are proportional to the declarative full conditional     *)
GibbsIsFullConditional ==
  LET ped == Ped IN
  \A i \in 1..ped.n : \A k \in 1..ped.ploidy[i] :
     /\ RPos(AlleleLevelOf(ped, s, i, k))
     /\ \A b \in 0..(ped.K - 1) :
           GibbsRatio(ped, s, i, k, b) = PiRatio(ped, s, SetCell(s, i, k, b))

(* restricting the joint to the Markov blanket loses nothing                  *)
BlanketSufficient ==
  LET ped == Ped IN
  /\ \A i \in 1..ped.n : \A k \in 1..ped.ploidy[i] : \A b \in 0..(ped.K - 1) :
        LET sb == SetCell(s, i, k, b)
        IN  PiRatio(ped, s, sb)
              = RMul(BlanketRatio(ped, s, sb, i), RFrac(PermsOf(ped, s, i), PermsOf(ped, sb, i)))
  /\ \A pq \in Pairs(ped) : \A ip \in 1..ped.ploidy[pq[1]] : \A iq \in 1..ped.ploidy[pq[2]] :
        LET p == pq[1]  q == pq[2]
            t == SwapTarget(s, p, q, ip, iq)
        IN  p # q =>
              PiRatio(ped, s, t)
                = RMul(PairRatio(ped, s, t, p, q),
                       RFrac(PermsOf(ped, s, p) * PermsOf(ped, s, q), PermsOf(ped, t, p) * PermsOf(ped, t, q)))

(* MH: the acceptance ratio is the target ratio, hence detailed balance       *)
MHRatioIsTargetRatio ==
  LET ped == Ped IN
  \A i \in 1..ped.n : \A k \in 1..ped.ploidy[i] : \A b \in 0..(ped.K - 1) :
     b # s[i][k] => MHRatio(ped, s, i, k, b) = PiRatio(ped, s, SetCell(s, i, k, b))
MHDetailedBalance ==      \* pi(s) min(1,R) = pi(s_b) min(1,R')
  LET ped == Ped IN
  \A i \in 1..ped.n : \A k \in 1..ped.ploidy[i] : \A b \in 0..(ped.K - 1) :
     (b # s[i][k] /\ Positive(ped, SetCell(s, i, k, b))) =>
        LET sb == SetCell(s, i, k, b)
        IN  RMin1(MHRatio(ped, s, i, k, b))
              = RMul(PiRatio(ped, s, sb), RMin1(MHRatio(ped, sb, i, k, s[i][k])))

(* swap: detailed balance; for distinct parents the ratio is the target ratio *)
SwapDetailedBalance ==
  LET ped == Ped IN
  \A pq \in Pairs(ped) : \A ip \in 1..ped.ploidy[pq[1]] : \A iq \in 1..ped.ploidy[pq[2]] :
     LET p == pq[1]  q == pq[2]
         t == SwapTarget(s, p, q, ip, iq) IN
     (s[p][ip] # s[q][iq] /\ Positive(ped, t)) =>
        /\ RMin1(SwapRatio(ped, s, p, q, ip, iq))
              = RMul(PiRatio(ped, s, t), RMin1(SwapRatio(ped, t, p, q, ip, iq)))
        /\ p # q => SwapRatio(ped, s, p, q, ip, iq) = PiRatio(ped, s, t)
SwapRatioIsPermRatio ==
  LET ped == Ped IN
  \A pq \in Pairs(ped) : \A ip \in 1..ped.ploidy[pq[1]] : \A iq \in 1..ped.ploidy[pq[2]] :
     LET p == pq[1]  q == pq[2]
         t == SwapTarget(s, p, q, ip, iq)
         cr == SwapCountRatio(s, p, q, s[p][ip], s[q][iq]) IN
     (p # q /\ s[p][ip] # s[q][iq]) =>
        cr[1] * PermsOf(ped, t, p) * PermsOf(ped, t, q) = cr[2] * PermsOf(ped, s, p) * PermsOf(ped, s, q)

(* ------------------------------------------------------------------------ *)
(* the read set of an individual is a BAG of (read, count) rows: the joint     *)
(* does not depend on the order of the read slots, and slots with count 0      *)
(* (leading, interior or trailing) contribute nothing.  The harness relies on  *)
(* these two laws when it lays the same pedigree out with permuted read slots  *)
(* and extra unused slots and expects the same kernels.                        *)
UsedRows(rs) == SelectSeq(rs, LAMBDA r : r.n > 0)
SlotPerms(n) == {f \in [1..n -> 1..n] : \A a \in 1..n : \A b \in 1..n : a < b => f[a] # f[b]}
ZeroCountNeutral ==
  AtStart =>
    \A i \in 1..Ped.n : \A g \in BagsOf(Ped.K, Ped.ploidy[i]) :
       tab.lw[i][g] = LW(Ped, UsedRows(Ped.reads[i]), g)
ReadOrderIrrelevant ==
  AtStart =>
    \A i \in 1..Ped.n :
       LET rs == Ped.reads[i] IN
       \A f \in SlotPerms(Len(rs)) : \A g \in BagsOf(Ped.K, Ped.ploidy[i]) :
          tab.lw[i][g] = LW(Ped, [m \in 1..Len(rs) |-> rs[f[m]]], g)

(* ------------------------------------------------------------------------ *)
(* the kernel rows as probability vectors (what gibbs_probabilities /          *)
(* metropolis_hastings_probabilities return, and the prob_accept of the pair   *)
(* step), from the declarative target ratios.  They are functions of the       *)
(* joint state only: no history of earlier updates (a likelihood cache is only *)
(* a cache) enters.  TracePedigree validates recorded sampler rows against     *)
(* them; RowsWellFormed, checked in every reachable state of the pedigrees in  *)
(* RowPeds, guarantees that this arithmetic stays inside TLC's integers there. *)
TargetRatios(ped, st, i, k) ==
  TLCEval([b \in 0..(ped.K - 1) |-> PiRatio(ped, st, SetCell(st, i, k, b))])
GibbsRow(ped, st, i, k) ==
  LET R == TargetRatios(ped, st, i, k)
      tot == RSumFn(R, 0..(ped.K - 1))
  IN  TLCEval([b \in 0..(ped.K - 1) |-> RDiv(R[b], tot)])
MHRow(ped, st, i, k) ==
  LET R == TargetRatios(ped, st, i, k)
      a == st[i][k]
      off == TLCEval([b \in 0..(ped.K - 1) |-> IF b = a THEN RZero ELSE RMul(RMin1(R[b]), <<1, ped.K - 1>>)])
  IN  TLCEval([b \in 0..(ped.K - 1) |-> IF b = a THEN RCompl(RSumFn(off, 0..(ped.K - 1))) ELSE off[b]])
SwapAccept(ped, st, p, q, ip, iq) == RMin1(PiRatio(ped, st, SwapTarget(st, p, q, ip, iq)))

(* floor(10^6 x) for a rational 0 <= x <= 1 by long division in base 100       *)
(* (needs 100 * x[2] < 2^31)                                                   *)
MicroOK(x) == x[1] <= x[2] /\ x[2] < 20000000
Micro(x) ==
  LET n == x[1]  d == x[2]
      q1 == (n * 100) \div d   r1 == (n * 100) % d
      q2 == (r1 * 100) \div d  r2 == (r1 * 100) % d
      q3 == (r2 * 100) \div d
  IN  q1 * 10000 + q2 * 100 + q3
(* a float reported as round(10^6 v) agrees with the rational x                *)
NearMicro(m, x) == LET u == Micro(x) IN m - u <= 2 /\ u - m <= 2

RowPedNames == {"mixed4x2x_3x_K2", "mixed2x4x_3x_K2", "mixed3x_first_K2", "mixed2x4x_3x2x_K2",
                "duo2x_gaps", "trio2x_gaps", "trio_plus_duo2x", "selfing4x_lambda", "mixed_duo_2x_3x",
                "founders2x", "duo2x", "selfing2x", "duo4x_lambda", "trio2x_e0"}
RowsWellFormed ==
  LET ped == Ped IN
  ped.name \in RowPedNames =>
    /\ \A i \in 1..ped.n : \A k \in 1..ped.ploidy[i] :
          LET g == GibbsRow(ped, s, i, k)
              m == MHRow(ped, s, i, k)
          IN  /\ RSumFn(g, 0..(ped.K - 1)) = ROne
              /\ RSumFn(m, 0..(ped.K - 1)) = ROne
              /\ \A b \in 0..(ped.K - 1) : MicroOK(g[b]) /\ MicroOK(m[b])
    /\ \A pq \in Pairs(ped) : \A ip \in 1..ped.ploidy[pq[1]] : \A iq \in 1..ped.ploidy[pq[2]] :
          MicroOK(SwapAccept(ped, s, pq[1], pq[2], ip, iq))

(* ------------------------------------------------------------------------ *)
(* mutant definitions                                                        *)
MutOriginW(t, n) == ROne                                  \* origin weights dropped (D7)
MutChildren(ped, i) ==                                    \* selfed children left out of the blanket
  {c \in 1..ped.n : (ped.par[c][1] = i) # (ped.par[c][2] = i)}
MutSwapCountRatio(st, p, q, ap, aq) ==                    \* post-swap count on one side only
  <<(1 + CntIn(st[p], aq)) * CntIn(st[q], ap), CntIn(st[p], ap) * CntIn(st[q], aq)>>
MutReadsOf(ped, p, q, i) ==                               \* D3: q's read rows masked by p's rows
  IF i = p THEN ped.reads[i]
  ELSE [m \in 1..Len(ped.reads[i]) |->
          IF m <= Len(ped.reads[p]) THEN ped.reads[i][m] ELSE [c |-> ped.reads[i][m].c, n |-> 0]]
MutMHCnt(x, a) == 1                                       \* proposal (copy-count) ratio dropped
MutRowCount(r) == IF r.n = 0 THEN 1 ELSE r.n              \* unused read slots enter the likelihood

(* ------------------------------------------------------------------------ *)
(* one record per reachable joint state: the exact factors of pi(s)          *)
Dump ==
  LET ped == Ped IN
  PrintT(<<"@@J", ToJson(
    [ped |-> ped.name, s |-> s,
     fac |-> [i \in 1..ped.n |->
                [lw |-> LWFactors(ped, ped.reads[i], s[i]), trio |-> TrioOf(ped, s, i), perms |-> PermsOf(ped, s, i)]]])>>)
(* the pedigree definitions themselves (printed once; the harness builds the  *)
(* implementation's arrays from them)                                        *)
DumpPeds == PrintT(<<"@@J", ToJson([peds |-> Peds, rowpeds |-> RowPedNames])>>)

(* ------------------------------------------------------------------------ *)
(* configurations: the pedigree menu                                         *)
R(c, n) == [c |-> c, n |-> n]
Haps2 == << <<0, 1>>, <<1, 0>> >>                       \* K = 2: two complementary positions
Haps3 == << <<1, 0, 0>>, <<0, 1, 0>>, <<0, 0, 1>> >>    \* K = 3: one-hot
Z == <<0, 1>>
U == <<1, 1>>
NoLam(n) == [i \in 1..n |-> <<Z, Z>>]
F3flat == << <<1, 3>>, <<1, 3>>, <<1, 3>> >>
F3skew == << <<1, 2>>, <<1, 4>>, <<1, 4>> >>
F2skew == << <<3, 4>>, <<1, 4>> >>
F2flat == << <<1, 2>>, <<1, 2>> >>

PedFounders ==
  [name |-> "founders2x", K |-> 3, n |-> 2, ploidy |-> <<2, 2>>,
   par |-> << <<0, 0>>, <<0, 0>> >>, tau |-> << <<1, 1>>, <<1, 1>> >>,
   lam |-> NoLam(2), err |-> << <<U, U>>, <<U, U>> >>, f |-> F3skew, haps |-> Haps3,
   reads |-> << << R(<<-1, 1, -1>>, 2) >>, <<>> >>]
PedDuo ==
  [name |-> "duo2x", K |-> 3, n |-> 2, ploidy |-> <<2, 2>>,
   par |-> << <<0, 0>>, <<1, 0>> >>, tau |-> << <<1, 1>>, <<1, 1>> >>,
   lam |-> NoLam(2), err |-> << <<U, U>>, << <<1, 4>>, U >> >>, f |-> F3skew, haps |-> Haps3,
   reads |-> << << R(<<1, -1, -1>>, 1), R(<<-1, -1, 1>>, 1) >>, << R(<<-1, 1, 0>>, 2) >> >>]
PedTrio2x ==
  [name |-> "trio2x", K |-> 3, n |-> 3, ploidy |-> <<2, 2, 2>>,
   par |-> << <<0, 0>>, <<0, 0>>, <<1, 2>> >>, tau |-> << <<1, 1>>, <<1, 1>>, <<1, 1>> >>,
   lam |-> NoLam(3), err |-> << <<U, U>>, <<U, U>>, << <<1, 100>>, <<1, 100>> >> >>, f |-> F3flat, haps |-> Haps3,
   reads |-> << << R(<<-1, 1, -1>>, 1) >>,
                << R(<<1, -1, -1>>, 1), R(<<-1, -1, 1>>, 2) >>,
                << R(<<-1, 1, 0>>, 1) >> >>]
PedTrio2xE0 ==
  [name |-> "trio2x_e0", K |-> 3, n |-> 3, ploidy |-> <<2, 2, 2>>,
   par |-> << <<0, 0>>, <<0, 0>>, <<1, 2>> >>, tau |-> << <<1, 1>>, <<1, 1>>, <<1, 1>> >>,
   lam |-> NoLam(3), err |-> << <<U, U>>, <<U, U>>, <<Z, Z>> >>, f |-> F3skew, haps |-> Haps3,
   reads |-> << << R(<<-1, 1, -1>>, 2), R(<<0, -1, -1>>, 1) >>,
                << R(<<1, -1, -1>>, 1) >>,
                <<>> >>]
PedHalfSibs ==
  [name |-> "halfsibs2x", K |-> 2, n |-> 5, ploidy |-> <<2, 2, 2, 2, 2>>,
   par |-> << <<0, 0>>, <<0, 0>>, <<0, 0>>, <<1, 2>>, <<2, 3>> >>,
   tau |-> [i \in 1..5 |-> <<1, 1>>], lam |-> NoLam(5),
   err |-> << <<U, U>>, <<U, U>>, <<U, U>>, << <<1, 2>>, <<1, 100>> >>, << Z, <<1, 4>> >> >>,
   f |-> F2skew, haps |-> Haps2,
   reads |-> << << R(<<1, -1>>, 1) >>, <<>>, << R(<<0, 1>>, 1), R(<<-1, 0>>, 1) >>,
                << R(<<1, 0>>, 2) >>, << R(<<-1, 1>>, 1) >> >>]
(* a parental pair (1, 2) with a joint child 3, where parent 1 ALSO has a child 4 with an unknown second parent: the *)
(* swap move of the pair must carry child 4's inheritance term in its blanket                                        *)
PedTrioPlusDuo ==
  [name |-> "trio_plus_duo2x", K |-> 2, n |-> 4, ploidy |-> <<2, 2, 2, 2>>,
   par |-> << <<0, 0>>, <<0, 0>>, <<1, 2>>, <<1, 0>> >>,
   tau |-> [i \in 1..4 |-> <<1, 1>>], lam |-> NoLam(4),
   err |-> << <<U, U>>, <<U, U>>, << <<1, 4>>, <<1, 4>> >>, << <<1, 4>>, U >> >>,
   f |-> F2flat, haps |-> Haps2,
   reads |-> << << R(<<1, -1>>, 1) >>, << R(<<0, 1>>, 1) >>, <<>>, << R(<<1, 0>>, 1) >> >>]
PedSelfing ==
  [name |-> "selfing2x", K |-> 3, n |-> 2, ploidy |-> <<2, 2>>,
   par |-> << <<0, 0>>, <<1, 1>> >>, tau |-> << <<1, 1>>, <<1, 1>> >>,
   lam |-> NoLam(2), err |-> << <<U, U>>, << <<1, 4>>, <<1, 4>> >> >>, f |-> F3skew, haps |-> Haps3,
   reads |-> << << R(<<-1, -1, 1>>, 1) >>, << R(<<-1, 1, -1>>, 1), R(<<1, -1, -1>>, 1) >> >>]
PedMixed2 ==
  [name |-> "mixed4x2x_3x_K2", K |-> 2, n |-> 3, ploidy |-> <<4, 2, 3>>,
   par |-> << <<0, 0>>, <<0, 0>>, <<1, 2>> >>, tau |-> << <<2, 2>>, <<1, 1>>, <<2, 1>> >>,
   lam |-> NoLam(3), err |-> << <<U, U>>, <<U, U>>, << <<1, 100>>, <<1, 100>> >> >>, f |-> F2flat, haps |-> Haps2,
   reads |-> << << R(<<1, -1>>, 1) >>, << R(<<-1, 1>>, 1), R(<<0, -1>>, 1) >>, << R(<<0, 1>>, 1) >> >>]
PedMixed3 ==
  [name |-> "mixed4x2x_3x_K3", K |-> 3, n |-> 3, ploidy |-> <<4, 2, 3>>,
   par |-> << <<0, 0>>, <<0, 0>>, <<1, 2>> >>, tau |-> << <<2, 2>>, <<1, 1>>, <<2, 1>> >>,
   lam |-> NoLam(3), err |-> << <<U, U>>, <<U, U>>, << <<1, 100>>, <<1, 100>> >> >>, f |-> F3flat, haps |-> Haps3,
   reads |-> << <<>>, <<>>, <<>> >>]
PedTwoGen ==
  [name |-> "twogen2x", K |-> 2, n |-> 5, ploidy |-> <<2, 2, 2, 2, 2>>,
   par |-> << <<0, 0>>, <<0, 0>>, <<1, 2>>, <<0, 0>>, <<3, 4>> >>,
   tau |-> [i \in 1..5 |-> <<1, 1>>], lam |-> NoLam(5),
   err |-> << <<U, U>>, <<U, U>>, << <<1, 100>>, <<1, 2>> >>, <<U, U>>, << <<1, 4>>, Z >> >>,
   f |-> F2skew, haps |-> Haps2,
   reads |-> << <<>>, << R(<<1, -1>>, 1), R(<<-1, 1>>, 1) >>, << R(<<0, -1>>, 1) >>,
                << R(<<1, 0>>, 1) >>, << R(<<-1, 0>>, 1), R(<<0, 1>>, 1), R(<<1, -1>>, 1) >> >>]
PedTetraLam ==
  [name |-> "tetra_lambda", K |-> 2, n |-> 3, ploidy |-> <<4, 4, 4>>,
   par |-> << <<0, 0>>, <<0, 0>>, <<1, 2>> >>, tau |-> << <<2, 2>>, <<2, 2>>, <<2, 2>> >>,
   lam |-> << <<Z, Z>>, <<Z, Z>>, << <<1, 4>>, <<1, 4>> >> >>,
   err |-> << <<U, U>>, <<U, U>>, << <<1, 2>>, Z >> >>, f |-> F2skew, haps |-> Haps2,
   reads |-> << << R(<<1, -1>>, 1) >>, << R(<<-1, 1>>, 1), R(<<1, 0>>, 1) >>, << R(<<0, -1>>, 2) >> >>]
PedSelfing4x ==
  [name |-> "selfing4x_lambda", K |-> 2, n |-> 2, ploidy |-> <<4, 4>>,
   par |-> << <<0, 0>>, <<1, 1>> >>, tau |-> << <<2, 2>>, <<2, 2>> >>,
   lam |-> << <<Z, Z>>, << <<1, 4>>, Z >> >>, err |-> << <<U, U>>, << Z, Z >> >>, f |-> F2flat, haps |-> Haps2,
   reads |-> << << R(<<1, -1>>, 1) >>, << R(<<-1, 0>>, 1), R(<<0, -1>>, 1) >> >>]
PedClone ==
  [name |-> "clone_and_duo", K |-> 3, n |-> 3, ploidy |-> <<2, 2, 2>>,
   par |-> << <<0, 0>>, <<1, 1>>, <<0, 2>> >>, tau |-> << <<1, 1>>, <<0, 2>>, <<1, 1>> >>,
   lam |-> NoLam(3), err |-> << <<U, U>>, << Z, <<1, 4>> >>, << U, <<1, 100>> >> >>, f |-> F3skew, haps |-> Haps3,
   reads |-> << << R(<<-1, 1, -1>>, 1) >>, <<>>, << R(<<1, -1, -1>>, 1), R(<<-1, -1, 1>>, 1) >> >>]

PedMixedDuo ==      \* unbalanced tau with ONE known parent: 2x founder, 3x child of (1, unknown), tau = (1,2)
  [name |-> "mixed_duo_2x_3x", K |-> 2, n |-> 2, ploidy |-> <<2, 3>>,
   par |-> << <<0, 0>>, <<1, 0>> >>, tau |-> << <<1, 1>>, <<1, 2>> >>,
   lam |-> NoLam(2), err |-> << <<U, U>>, << <<1, 4>>, U >> >>, f |-> F2skew, haps |-> Haps2,
   reads |-> << << R(<<1, -1>>, 1) >>, << R(<<-1, 0>>, 1), R(<<0, 1>>, 1) >> >>]
PedTrio2xB ==
  [name |-> "trio2x_b", K |-> 3, n |-> 3, ploidy |-> <<2, 2, 2>>,
   par |-> << <<0, 0>>, <<0, 0>>, <<1, 2>> >>, tau |-> << <<1, 1>>, <<1, 1>>, <<1, 1>> >>,
   lam |-> NoLam(3), err |-> << <<U, U>>, <<U, U>>, << <<1, 3>>, <<2, 3>> >> >>,
   f |-> << <<1, 5>>, <<3, 10>>, <<1, 2>> >>, haps |-> Haps3,
   reads |-> << << R(<<-1, -1, 1>>, 1), R(<<0, 1, -1>>, 1) >>, <<>>, << R(<<1, -1, -1>>, 2) >> >>]
PedDuo4xLam ==      \* unknown p, known tetraploid q with double reduction
  [name |-> "duo4x_lambda", K |-> 2, n |-> 2, ploidy |-> <<4, 4>>,
   par |-> << <<0, 0>>, <<0, 1>> >>, tau |-> << <<2, 2>>, <<2, 2>> >>,
   lam |-> << <<Z, Z>>, << Z, <<1, 4>> >> >>, err |-> << <<U, U>>, << U, <<1, 4>> >> >>, f |-> F2skew, haps |-> Haps2,
   reads |-> << << R(<<1, -1>>, 1) >>, << R(<<-1, 1>>, 1) >> >>]

(* --- mixed ploidy in other sample orders (the order of the individuals is    *)
(* the order of the samples in every array the sampler gets), with read rows   *)
(* whose unused (count 0) slots are leading / interior                         *)
Q4 == <<1, 4>>
PedMixedB ==        \* lower ploidy first: 2x, 4x founders, 3x child with tau = (1, 2)
  [name |-> "mixed2x4x_3x_K2", K |-> 2, n |-> 3, ploidy |-> <<2, 4, 3>>,
   par |-> << <<0, 0>>, <<0, 0>>, <<1, 2>> >>, tau |-> << <<1, 1>>, <<2, 2>>, <<1, 2>> >>,
   lam |-> NoLam(3), err |-> << <<U, U>>, <<U, U>>, <<Q4, Q4>> >>, f |-> F2flat, haps |-> Haps2,
   reads |-> << << R(<<1, -1>>, 0), R(<<-1, 1>>, 1), R(<<0, -1>>, 1) >>,
                << R(<<1, -1>>, 1), R(<<0, 0>>, 0), R(<<-1, 0>>, 2) >>,
                << R(<<0, 1>>, 1) >> >>]
PedMixedC ==        \* the child is listed BEFORE its parents: 3x child of (2, 3), 4x, 2x
  [name |-> "mixed3x_first_K2", K |-> 2, n |-> 3, ploidy |-> <<3, 4, 2>>,
   par |-> << <<2, 3>>, <<0, 0>>, <<0, 0>> >>, tau |-> << <<2, 1>>, <<2, 2>>, <<1, 1>> >>,
   lam |-> NoLam(3), err |-> << <<Q4, Q4>>, <<U, U>>, <<U, U>> >>, f |-> F2flat, haps |-> Haps2,
   reads |-> << << R(<<1, 0>>, 0), R(<<-1, -1>>, 0), R(<<0, 1>>, 2) >>,
                << R(<<-1, 1>>, 1) >>,
                << R(<<0, -1>>, 1), R(<<1, 1>>, 0), R(<<1, -1>>, 0), R(<<-1, 0>>, 1) >> >>]
PedMixedD ==        \* 2x, 4x founders, 3x child of (1, 2), 2x child of (1, unknown)
  [name |-> "mixed2x4x_3x2x_K2", K |-> 2, n |-> 4, ploidy |-> <<2, 4, 3, 2>>,
   par |-> << <<0, 0>>, <<0, 0>>, <<1, 2>>, <<1, 0>> >>,
   tau |-> << <<1, 1>>, <<2, 2>>, <<1, 2>>, <<1, 1>> >>,
   lam |-> NoLam(4), err |-> << <<U, U>>, <<U, U>>, <<Q4, Q4>>, <<Q4, U>> >>, f |-> F2flat, haps |-> Haps2,
   reads |-> << << R(<<1, -1>>, 1) >>, << R(<<0, 1>>, 0), R(<<-1, 1>>, 1), R(<<0, -1>>, 1) >>,
                << R(<<1, 0>>, 1) >>, << R(<<-1, 0>>, 0), R(<<0, 1>>, 1) >> >>]
(* --- uniform ploidy, read rows with leading / interior unused slots          *)
PedDuoGaps ==
  [name |-> "duo2x_gaps", K |-> 3, n |-> 2, ploidy |-> <<2, 2>>,
   par |-> << <<0, 0>>, <<1, 0>> >>, tau |-> << <<1, 1>>, <<1, 1>> >>,
   lam |-> NoLam(2), err |-> << <<U, U>>, <<Q4, U>> >>, f |-> F3flat, haps |-> Haps3,
   reads |-> << << R(<<1, -1, -1>>, 0), R(<<-1, -1, 1>>, 1), R(<<0, 1, -1>>, 0), R(<<-1, 1, -1>>, 2) >>,
                << R(<<-1, 1, 0>>, 0), R(<<1, -1, -1>>, 1) >> >>]
PedTrioGaps ==
  [name |-> "trio2x_gaps", K |-> 2, n |-> 3, ploidy |-> <<2, 2, 2>>,
   par |-> << <<0, 0>>, <<0, 0>>, <<1, 2>> >>, tau |-> << <<1, 1>>, <<1, 1>>, <<1, 1>> >>,
   lam |-> NoLam(3), err |-> << <<U, U>>, <<U, U>>, <<Q4, Q4>> >>, f |-> F2flat, haps |-> Haps2,
   reads |-> << << R(<<0, -1>>, 0), R(<<1, -1>>, 1) >>,
                << R(<<-1, 1>>, 1), R(<<0, 0>>, 0), R(<<1, 0>>, 1) >>,
                << R(<<1, 1>>, 0), R(<<0, -1>>, 0), R(<<0, 1>>, 1) >> >>]


PedsQuick == << PedFounders, PedDuo, PedTrio2x, PedTrio2xE0, PedSelfing, PedMixed2, PedHalfSibs, PedTrioPlusDuo, PedSelfing4x, PedTwoGen,
               PedMixedDuo, PedDuo4xLam, PedMixedB, PedMixedC, PedDuoGaps, PedTrioGaps >>
PedsThorough == PedsQuick \o << PedTetraLam, PedClone, PedMixed3, PedTrio2xB, PedMixedD >>
PedsBalanced == << PedTrio2x, PedSelfing, PedHalfSibs >>
PedsMixedOnly == << PedMixed2 >>
PedsSelfOnly == << PedSelfing >>
PedsTrioOnly == << PedTrio2x >>
PedsGapsOnly == << PedDuoGaps >>

ASSUME DumpPeds
=============================================================================
