--------------------------- MODULE TracePedigree ---------------------------
(* code -> spec for C18: runs of mchap.pedigree.mcmc.mcmc_sampler recorded in *)
(* interpreted mode (recorders on allele_step / pair_allele_swap_step /       *)
(* compound_step, the returned trace rows) are validated against the          *)
(* PedigreeSampler state machine:                                            *)
(*   start   - a run begins in joint state e.s of pedigree e.ped              *)
(*   allele  - position k of individual i now holds allele b                  *)
(*   swap    - the parental-pair step of (p,q) ended with vectors xp, xq      *)
(*   record  - the row stored for this iteration                             *)
(* Every line gets a verdict naming the violated clause:                     *)
(*   each position of each individual is updated exactly once per iteration, *)
(*   before any pair step; each parental pair of the pedigree is stepped      *)
(*   exactly once after the sweep (when enabled); every move is a move of the *)
(*   model (a single cell changes / one allele is exchanged between the two   *)
(*   parents / nothing changes) into a state of positive posterior; the row   *)
(*   recorded is the current state, sorted, padding last.                     *)
(* Lines of pedigrees in RowPedNames also carry what the sampler computed      *)
(* with the likelihood cache it shares between all individuals and moves:      *)
(*   allele.pr  - the probability vector the update drew from (round(10^6 p)), *)
(*                kind "gibbs" / "mh"; allele.pr0 the same call without cache  *)
(*   swap.ip, swap.iq, swap.acc - the exchanged positions and prob_accept      *)
(*                (-1 = no proposal), swap.acc0 without cache                  *)
(* and are validated against the kernel rows of the model in the CURRENT       *)
(* joint state (GibbsRow / MHRow / SwapAccept of PedigreeSampler): the rows    *)
(* depend on the joint state only, whatever was updated before.                *)
EXTENDS PedigreeSampler, IOUtils

Trace == JsonDeserialize(IOEnv.TRACE_FILE)

VARIABLES l, doneA, doneP, swapOn, bad
tvars == <<pd, s, tab, l, doneA, doneP, swapOn, bad>>

TraceTab(ped) == [trio |-> TrioTabFor(ped), allele |-> <<>>, bag |-> BagTabFor(ped),
                  perms |-> PermsTabFor(ped), lw |-> LWTabFor(ped)]
PedIndex(nm) == CHOOSE j \in 1..Len(Peds) : Peds[j].name = nm
AllPositions(ped) == UNION {{<<i, k>> : k \in 1..ped.ploidy[i]} : i \in 1..ped.n}
MaxPloidy(ped) == CHOOSE m \in {ped.ploidy[i] : i \in 1..ped.n} : \A i \in 1..ped.n : ped.ploidy[i] <= m
Padded(g, n) == IF Len(g) = n THEN g ELSE g \o [j \in 1..(n - Len(g)) |-> -1]

WellTyped(ped, st) ==
  /\ Len(st) = ped.n
  /\ \A i \in 1..ped.n : Len(st[i]) = ped.ploidy[i] /\ \A k \in 1..Len(st[i]) : st[i][k] \in 0..(ped.K - 1)

(* verdict and effect of one line ------------------------------------------ *)
HasField(e, f) == f \in DOMAIN e
SameMicro(x, y) == Len(x) = Len(y) /\ \A j \in 1..Len(x) : x[j] - y[j] <= 1 /\ y[j] - x[j] <= 1
RowVerdict(ped, e) ==       \* the vector the update drew from
  IF ~HasField(e, "pr") THEN "ok"
  ELSE IF ped.name \notin RowPedNames THEN "RowPedigreeSupported"
  ELSE IF ~(Len(e.pr) = ped.K /\ e.kind \in {"gibbs", "mh"}) THEN "RowTyped"
  ELSE LET row == IF e.kind = "gibbs" THEN GibbsRow(ped, s, e.i, e.k) ELSE MHRow(ped, s, e.i, e.k)
       IN  IF \E b \in 0..(ped.K - 1) : ~NearMicro(e.pr[b + 1], row[b])
           THEN (IF e.kind = "gibbs" THEN "GibbsRowIsFullConditional" ELSE "MHRowIsKernelRow")
           ELSE IF HasField(e, "pr0") /\ ~SameMicro(e.pr, e.pr0) THEN "CacheTransparent"
           ELSE "ok"
AlleleVerdict(ped, e) ==
  IF ~(e.i \in 1..ped.n /\ e.k \in 1..ped.ploidy[e.i] /\ e.b \in 0..(ped.K - 1)) THEN "AlleleEventTyped"
  ELSE IF <<e.i, e.k>> \in doneA THEN "OncePerIteration"
  ELSE IF doneP # {} THEN "AllelesBeforeSwaps"
  ELSE IF RowVerdict(ped, e) # "ok" THEN RowVerdict(ped, e)
  ELSE IF ~Positive(ped, SetCell(s, e.i, e.k, e.b)) THEN "MoveInSupport"
  ELSE "ok"

SwapOutcomes(ped, p, q) ==      \* the states a pair step may end in
  {s} \cup {SwapTarget(s, p, q, ip, iq) : ip \in 1..ped.ploidy[p], iq \in 1..ped.ploidy[q]}
AfterSwap(e) == IF e.p = e.q THEN [s EXCEPT ![e.p] = e.xp] ELSE [s EXCEPT ![e.p] = e.xp, ![e.q] = e.xq]
AcceptVerdict(ped, e) ==    \* the acceptance probability of the proposed exchange
  IF ~HasField(e, "acc") THEN "ok"
  ELSE IF ped.name \notin RowPedNames THEN "RowPedigreeSupported"
  ELSE IF ~(e.ip \in 1..ped.ploidy[e.p] /\ e.iq \in 1..ped.ploidy[e.q]) THEN "SwapEventTyped"
  ELSE IF s[e.p][e.ip] = s[e.q][e.iq]
       THEN (IF e.acc # -1 \/ AfterSwap(e) # s THEN "SwapNoProposalNoChange" ELSE "ok")
  ELSE IF e.acc < 0 \/ ~NearMicro(e.acc, SwapAccept(ped, s, e.p, e.q, e.ip, e.iq)) THEN "SwapAcceptIsTargetRatio"
  ELSE IF AfterSwap(e) \notin {s, SwapTarget(s, e.p, e.q, e.ip, e.iq)} THEN "SwapIsTheProposedExchange"
  ELSE IF HasField(e, "acc0") /\ (e.acc - e.acc0 > 1 \/ e.acc0 - e.acc > 1) THEN "CacheTransparent"
  ELSE "ok"
SwapVerdict(ped, e) ==
  IF ~(e.p \in 1..ped.n /\ e.q \in 1..ped.n) THEN "SwapEventTyped"
  ELSE IF ~swapOn THEN "SwapDisabled"
  ELSE IF doneA # AllPositions(ped) THEN "SweepCompleteBeforeSwap"
  ELSE IF <<e.p, e.q>> \notin Pairs(ped) THEN "IsParentalPair"
  ELSE IF <<e.p, e.q>> \in doneP THEN "PairOnce"
  ELSE IF AcceptVerdict(ped, e) # "ok" THEN AcceptVerdict(ped, e)
  ELSE IF AfterSwap(e) \notin SwapOutcomes(ped, e.p, e.q) THEN "SwapIsExchange"
  ELSE IF ~Positive(ped, AfterSwap(e)) THEN "MoveInSupport"
  ELSE "ok"

RecordVerdict(ped, e) ==
  IF doneA # AllPositions(ped) THEN "SweepComplete"
  ELSE IF swapOn /\ doneP # Pairs(ped) THEN "AllPairsSwapped"
  ELSE IF ~(Len(e.rows) = ped.n
            /\ \A i \in 1..ped.n : e.rows[i] = Padded(BagT(s[i]), MaxPloidy(ped))) THEN "RecordIsSortedState"
  ELSE "ok"

StartVerdict(e) ==
  IF ~(\E j \in 1..Len(Peds) : Peds[j].name = e.ped) THEN "KnownPedigree"
  ELSE LET ped == Peds[PedIndex(e.ped)] IN
       IF ~WellTyped(ped, e.s) THEN "StartTyped" ELSE "ok"

Verdict(e) ==
  CASE e.op = "start"  -> StartVerdict(e)
    [] e.op = "allele" -> AlleleVerdict(Ped, e)
    [] e.op = "swap"   -> SwapVerdict(Ped, e)
    [] e.op = "record" -> RecordVerdict(Ped, e)
    [] OTHER -> "UnknownEvent"

TInit == /\ pd = 1
         /\ s = [i \in 1..Peds[1].n |-> [k \in 1..Peds[1].ploidy[i] |-> 0]]
         /\ tab = TraceTab(Peds[1])
         /\ l = 1 /\ doneA = {} /\ doneP = {} /\ swapOn = TRUE /\ bad = 0

TNext ==
  /\ l <= Len(Trace)
  /\ LET e == Trace[l]
         v == Verdict(e)
     IN  /\ IF v = "ok" THEN TRUE ELSE PrintT(<<"@@J", ToJson([reject |-> l, clause |-> v])>>)
         /\ bad' = IF v = "ok" THEN bad ELSE bad + 1
         /\ IF e.op = "start" /\ v = "ok"
            THEN /\ pd' = PedIndex(e.ped)
                 /\ s' = e.s
                 /\ tab' = IF pd' = pd THEN tab ELSE TraceTab(Peds[pd'])
                 /\ doneA' = {} /\ doneP' = {} /\ swapOn' = e.swap
            ELSE IF e.op = "allele" /\ v # "AlleleEventTyped"
            THEN /\ s' = SetCell(s, e.i, e.k, e.b)
                 /\ doneA' = doneA \cup {<<e.i, e.k>>}
                 /\ UNCHANGED <<pd, tab, doneP, swapOn>>
            ELSE IF e.op = "swap" /\ v # "SwapEventTyped"
            THEN /\ s' = AfterSwap(e)
                 /\ doneP' = doneP \cup {<<e.p, e.q>>}
                 /\ UNCHANGED <<pd, tab, doneA, swapOn>>
            ELSE IF e.op = "record"
            THEN /\ doneA' = {} /\ doneP' = {}
                 /\ UNCHANGED <<pd, s, tab, swapOn>>
            ELSE UNCHANGED <<pd, s, tab, doneA, doneP, swapOn>>
  /\ l' = l + 1
TSpec == TInit /\ [][TNext]_tvars
Consumed == (l = Len(Trace) + 1) => PrintT(<<"@@J", ToJson([consumed |-> l - 1, rejected |-> bad])>>)
=============================================================================
