SPECIFICATION Spec
CONSTANT Peds <- PedsBalanced
CONSTANT OriginW <- MutOriginW
INVARIANT GibbsIsFullConditional
CHECK_DEADLOCK FALSE
