SPECIFICATION Spec
CONSTANT Peds <- PedsTrioOnly
CONSTANT MHCnt <- MutMHCnt
INVARIANT MHDetailedBalance
CHECK_DEADLOCK FALSE
