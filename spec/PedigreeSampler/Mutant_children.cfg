SPECIFICATION Spec
CONSTANT Peds <- PedsSelfOnly
CONSTANT Children <- MutChildren
INVARIANT BlanketSufficient
CHECK_DEADLOCK FALSE
