SPECIFICATION Spec
CONSTANT Peds <- PedsTrioOnly
CONSTANT ReadsOf <- MutReadsOf
INVARIANT SwapDetailedBalance
CHECK_DEADLOCK FALSE
