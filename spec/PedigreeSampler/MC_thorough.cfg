SPECIFICATION Spec
CONSTANT Peds <- PedsThorough
INVARIANT TypeOK
INVARIANT InSupport
INVARIANT OrderedIsTrioOverPerms
INVARIANT AlleleLevelIsOrderedProb
INVARIANT GibbsIsFullConditional
INVARIANT BlanketSufficient
INVARIANT MHRatioIsTargetRatio
INVARIANT MHDetailedBalance
INVARIANT SwapDetailedBalance
INVARIANT SwapRatioIsPermRatio
INVARIANT ZeroCountNeutral
INVARIANT ReadOrderIrrelevant
INVARIANT RowsWellFormed
INVARIANT Dump
CHECK_DEADLOCK FALSE
