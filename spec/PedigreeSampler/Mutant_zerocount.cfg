SPECIFICATION Spec
CONSTANT Peds <- PedsGapsOnly
CONSTANT RowCount <- MutRowCount
INVARIANT ZeroCountNeutral
CHECK_DEADLOCK FALSE
