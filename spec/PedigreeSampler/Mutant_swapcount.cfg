SPECIFICATION Spec
CONSTANT Peds <- PedsTrioOnly
CONSTANT SwapCountRatio <- MutSwapCountRatio
INVARIANT SwapDetailedBalance
CHECK_DEADLOCK FALSE
