SPECIFICATION Spec
CONSTANT Peds <- PedsMixedOnly
CONSTANT OriginW <- MutOriginW
INVARIANT GibbsIsFullConditional
CHECK_DEADLOCK FALSE
