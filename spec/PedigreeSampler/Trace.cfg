SPECIFICATION TSpec
CONSTANT Peds <- PedsThorough
INVARIANT Consumed
CHECK_DEADLOCK FALSE
