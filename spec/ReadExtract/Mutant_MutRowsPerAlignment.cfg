SPECIFICATION Spec
CONSTANT Inst <- InstQuickDeep
INVARIANT MutRowsPerAlignment
CHECK_DEADLOCK FALSE
