------------------------- MODULE DrivenReadExtract -------------------------
(* The ReadExtract state machine driven by harness-chosen streams over the    *)
(* FULL alphabet (every cell combination, every flag subset, six MAPQ values,  *)
(* three read names, up to five records), read from IOEnv.STREAMS_FILE.        *)
(* One behaviour per stream; the same invariants are checked in every state    *)
(* and every state is dumped for replay into the implementation.               *)
EXTENDS ReadExtract, IOUtils

Streams == JsonDeserialize(IOEnv.STREAMS_FILE)
RangeD(s) == {s[i] : i \in 1..Len(s)}
AlnOfJson(e) == [qname |-> e.qname, rg |-> e.rg, flags |-> RangeD(e.flags), mapq |-> e.mapq,
                 cells |-> e.cells, refok |-> e.refok, overlap |-> e.overlap]

DInit == /\ last \in 1..Len(Streams)
         /\ hist = <<>>
         /\ st = [c \in Configs |-> Empty]
DNext == /\ Len(hist) < Len(Streams[last])
         /\ LET a == AlnOfJson(Streams[last][Len(hist) + 1])
            IN  /\ hist' = Append(hist, a)
                /\ st' = [c \in Configs |-> Step(st[c], a, HdrOf[c.layout], c)]
         /\ UNCHANGED last
DSpec == DInit /\ [][DNext]_vars

OrderConfluentSmall == Len(hist) <= 3 => OrderConfluent
=============================================================================
