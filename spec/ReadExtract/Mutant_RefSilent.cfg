SPECIFICATION Spec
INVARIANT MutSilent
CHECK_DEADLOCK FALSE
