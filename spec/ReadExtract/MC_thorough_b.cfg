SPECIFICATION Spec
CONSTANT Inst <- InstThoroughWideB
INVARIANT TypeOK
INVARIANT RowsArePassingQnames
INVARIANT CellSemantics
INVARIANT ErrIffMismatch
INVARIANT OrderConfluent
INVARIANT FilterMonotone
INVARIANT PoolIsConcatenation
INVARIANT KeepFlagsLocal
CONSTRAINT Dump
CHECK_DEADLOCK FALSE
