SPECIFICATION DSpec
CONSTANT Inst <- InstTiny
INVARIANT TypeOK
INVARIANT RowsArePassingQnames
INVARIANT CellSemantics
INVARIANT ErrIffMismatch
INVARIANT OrderConfluentSmall
INVARIANT FilterMonotone
INVARIANT PoolIsConcatenation
INVARIANT KeepFlagsLocal
CONSTRAINT Dump
CHECK_DEADLOCK FALSE
