---------------------------- MODULE ReadExtract ----------------------------
(* C06: the read matrix fed to inference is exactly the filtered pileup.      *)
(*                                                                           *)
(* A stream of abstract alignments is consumed one record per step.  An      *)
(* abstract alignment is                                                     *)
(*   [qname, rg, flags \subseteq {unmapped,dup,qcfail,supp,secondary,...},   *)
(*    mapq, cells \in [1..N -> {"none"} \cup bases], refok \in [1..N -> BOOLEAN],*)
(*    overlap \in BOOLEAN]                                                   *)
(* cells[j] = "none": site j is not aligned (outside the read, deleted,      *)
(* ref-skipped, clipped); overlap: the aligned reference span intersects the *)
(* locus.  The state holds, for EVERY configuration c (MAPQ threshold, three *)
(* keep flags, read-group field, file layout) at once, the matrix rows keyed *)
(* by <<file, sample key, qname>> and the set of units with a reference      *)
(* mismatch.  The invariants relate this state machine (the filter cascade   *)
(* and the mate merge) to the order-free definition in the property text.    *)
EXTENDS Integers, Sequences, FiniteSets, TLC, Json

CONSTANTS Inst       \* [maxlen, minqs, qn, rg, fm, cv] - bounds of the exhaustive instance (see Inst* below)

None == "none"
Gap  == "-"

(* ------------------------------------------------------------------------ *)
(* configurations                                                            *)
(* ------------------------------------------------------------------------ *)
Cfg(minq, kd, kq, ks, field, layout) ==
  [minq |-> minq, kd |-> kd, kq |-> kq, ks |-> ks, field |-> field, layout |-> layout]
Configs == {Cfg(m, kd, kq, ks, f, l) : m \in Inst.minqs, kd \in BOOLEAN, kq \in BOOLEAN, ks \in BOOLEAN,
                                       f \in {"SM", "ID"}, l \in {"one", "split"}}
B(x) == IF x THEN 1 ELSE 0
CfgId(c) == 32 * B(c.minq = 30) + 16 * B(c.kd) + 8 * B(c.kq) + 4 * B(c.ks) + 2 * B(c.field = "ID") + B(c.layout = "split")

(* c2 keeps at least what c keeps, and differs from c in exactly one option  *)
(* (the covering relation; monotonicity along chains follows by transitivity) *)
KeepsMore(c, c2) == /\ c2.minq <= c.minq
                    /\ (c.kd => c2.kd) /\ (c.kq => c2.kq) /\ (c.ks => c2.ks)
                    /\ c.field = c2.field /\ c.layout = c2.layout
                    /\ B(c.minq # c2.minq) + B(c.kd # c2.kd) + B(c.kq # c2.kq) + B(c.ks # c2.ks) = 1
Up(c) == {c2 \in Configs : KeepsMore(c, c2)}

(* ------------------------------------------------------------------------ *)
(* data set of the exhaustive instances: three read groups, two samples      *)
(* header: rg -> [sm, file]; layout "split" puts read group a2 in a 2nd file  *)
(* ------------------------------------------------------------------------ *)
ModelRGs == {"a1", "a2", "b1"}
ModelHdr(layout) == [rg \in ModelRGs |->
    [sm |-> IF rg = "b1" THEN "B" ELSE "A", file |-> IF layout = "split" /\ rg = "a2" THEN 2 ELSE 1]]
ModelAlleles == << <<"A", "C">>, <<"C", "A", "T">> >>     \* listed alleles per site, REF first
HdrOf == [l \in {"one", "split"} |-> ModelHdr(l)]          \* constant tables, evaluated once

(* ------------------------------------------------------------------------ *)
(* the mechanism                                                             *)
(* ------------------------------------------------------------------------ *)
Key(rg, hdr, c)  == IF c.field = "SM" THEN hdr[rg].sm ELSE rg
Unit(a, hdr, c)  == <<hdr[a.rg].file, Key(a.rg, hdr, c)>>
Units(hdr, c)    == {<<hdr[rg].file, Key(rg, hdr, c)>> : rg \in DOMAIN hdr}

(* the filter cascade in the order the reader applies it; the name of the   *)
(* first stage that drops the record, or "keep"                              *)
Cascade(a, c) ==
  IF ~a.overlap THEN "not-fetched"
  ELSE IF "unmapped" \in a.flags THEN "unmapped"
  ELSE IF a.mapq < c.minq THEN "mapq"
  ELSE IF "dup" \in a.flags /\ ~c.kd THEN "dup"
  ELSE IF "qcfail" \in a.flags /\ ~c.kq THEN "qcfail"
  ELSE IF "supp" \in a.flags /\ ~c.ks THEN "supp"
  ELSE "keep"

IsCall(x) == x # None
Mismatch(a) == \E j \in 1..Len(a.cells) : IsCall(a.cells[j]) /\ ~a.refok[j]

(* mate merge of one cell: first call stored, agreeing call kept, disagreeing -> "N" *)
MergeCell(old, new) ==
  IF new = None THEN old
  ELSE IF old = Gap THEN new
  ELSE IF old = new THEN old
  ELSE "N"

Empty == [rows |-> <<>>, errs |-> {}]
UpOf == [c \in Configs |-> Up(c)]       \* constant, evaluated once
UnitsOf == [c \in Configs |-> Units(ModelHdr(c.layout), c)]

Step(r, a, hdr, c) ==
  IF Cascade(a, c) # "keep" THEN r
  ELSE LET u   == Unit(a, hdr, c)
           t   == <<u[1], u[2], a.qname>>
           old == IF t \in DOMAIN r.rows THEN r.rows[t] ELSE [j \in 1..Len(a.cells) |-> Gap]
           new == [j \in 1..Len(a.cells) |-> MergeCell(old[j], a.cells[j])]
       IN  [rows |-> (t :> new) @@ r.rows,
            errs |-> IF Mismatch(a) THEN r.errs \cup {u} ELSE r.errs]

RECURSIVE Fold(_, _, _, _)
Fold(r, s, hdr, c) == IF s = <<>> THEN r ELSE Fold(Step(r, Head(s), hdr, c), Tail(s), hdr, c)

(* ------------------------------------------------------------------------ *)
(* the order-free definition (from the property text)                        *)
(* ------------------------------------------------------------------------ *)
Passing(a, c) == /\ a.overlap
                 /\ "unmapped" \notin a.flags
                 /\ a.mapq >= c.minq
                 /\ ("dup" \in a.flags => c.kd)
                 /\ ("qcfail" \in a.flags => c.kq)
                 /\ ("supp" \in a.flags => c.ks)

PassingIdx(s, c) == {i \in 1..Len(s) : Passing(s[i], c)}
RowKeyOf(s, hdr, c) == TLCEval([i \in PassingIdx(s, c) |-> <<Unit(s[i], hdr, c)[1], Unit(s[i], hdr, c)[2], s[i].qname>>])
RowKeys(s, hdr, c) == LET k == RowKeyOf(s, hdr, c) IN {k[i] : i \in DOMAIN k}
(* the cell of row t at site j, given k = RowKeyOf(..): no call -> gap; all calls equal -> that base; else "N" *)
CellOf(s, k, t, j) ==
  LET bs == {s[i].cells[j] : i \in {x \in DOMAIN k : k[x] = t /\ IsCall(s[x].cells[j])}}
  IN  IF bs = {} THEN Gap
      ELSE IF Cardinality(bs) = 1 THEN CHOOSE b \in bs : TRUE
      ELSE "N"
MismatchUnits(s, hdr, c) == {Unit(s[i], hdr, c) : i \in {k \in PassingIdx(s, c) : Mismatch(s[k])}}

(* ------------------------------------------------------------------------ *)
(* derived outputs: allele matrix and the reported counts for a pool P       *)
(* (a set of units; a plain sample is a one-unit pool)                       *)
(* ------------------------------------------------------------------------ *)
AlleleIndex(als, ch) ==
  IF \E k \in 1..Len(als) : als[k] = ch THEN (CHOOSE k \in 1..Len(als) : als[k] = ch) - 1 ELSE -1
CallRow(row, alleles) == [j \in 1..Len(row) |-> AlleleIndex(alleles[j], row[j])]

(* DP is the mean SNV depth as an integer: the nearest integer; an exact half may be reported either way *)
(* (the property does not fix a rounding mode: relational)                                             *)
Nearest(num, den) ==
  LET q == num \div den
      r == num % den
  IN  IF 2 * r < den THEN {q} ELSE IF 2 * r > den THEN {q + 1} ELSE {q, q + 1}

RECURSIVE SumSeq(_)
SumSeq(s) == IF s = <<>> THEN 0 ELSE Head(s) + SumSeq(Tail(s))

(* the reported counts of a pool P, each from its definition *)
PoolRows(rows, P)  == {t \in DOMAIN rows : <<t[1], t[2]>> \in P}
RCount(rows, P)    == Cardinality(PoolRows(rows, P))
SnvDp(rows, P, n)  == LET ts == PoolRows(rows, P) IN [j \in 1..n |-> Cardinality({t \in ts : rows[t][j] # Gap})]
Dp(rows, P, n)     == Nearest(SumSeq(SnvDp(rows, P, n)), n)      \* set of admissible values
CallRows(rows, P, alleles) == LET ts == PoolRows(rows, P) IN TLCEval([t \in ts |-> CallRow(rows[t], alleles)])
RCalls(rows, P, alleles) ==
  LET cr == CallRows(rows, P, alleles)
  IN  Cardinality({<<t, j>> \in (DOMAIN cr) \X (1..Len(alleles)) : cr[t][j] >= 0})
Uniq(rows, P, alleles) ==        \* de-duplicated matrix: {<<distinct call row, multiplicity>>}
  LET cr == CallRows(rows, P, alleles)
  IN  {<<v, Cardinality({t \in DOMAIN cr : cr[t] = v})>> : v \in {cr[t] : t \in DOMAIN cr}}
StatTuple(rows, P, alleles) ==
  LET sd == SnvDp(rows, P, Len(alleles))
  IN  <<RCount(rows, P), sd, Nearest(SumSeq(sd), Len(alleles)), RCalls(rows, P, alleles)>>

(* ------------------------------------------------------------------------ *)
(* exhaustive instances: alphabet = product of four small sequences          *)
(* ------------------------------------------------------------------------ *)
CV(cells, refok, overlap) == [cells |-> cells, refok |-> refok, overlap |-> overlap]
OK2 == <<TRUE, TRUE>>

CVWide == << CV(<<"A", "C">>, OK2, TRUE),        \* ref, ref
             CV(<<"C", "A">>, OK2, TRUE),        \* alt, alt
             CV(<<"C", None>>, OK2, TRUE),       \* alt, not aligned
             CV(<<None, "T">>, OK2, TRUE),       \* not aligned, 2nd alt
             CV(<<"G", "C">>, OK2, TRUE),        \* unlisted base, ref
             CV(<<"N", "G">>, OK2, TRUE),        \* N, unlisted
             CV(<<None, None>>, OK2, TRUE),      \* overlaps the locus, covers no site
             CV(<<None, None>>, OK2, FALSE),     \* does not overlap the locus
             CV(<<"A", "C">>, <<FALSE, TRUE>>, TRUE),   \* MD contradicts the SNV file at site 1
             CV(<<None, "A">>, <<TRUE, FALSE>>, TRUE) >>
CVNarrow == << CV(<<"A", "C">>, OK2, TRUE), CV(<<"C", None>>, OK2, TRUE), CV(<<"N", "A">>, OK2, TRUE),
               CV(<<None, None>>, OK2, TRUE), CV(<<"C", "C">>, <<FALSE, TRUE>>, TRUE) >>
CVFull == LET S == {None, "A", "C", "G", "T", "N"}
          IN  {CV(<<x, y>>, <<a, b>>, o) : x \in S, y \in S, a \in BOOLEAN, b \in BOOLEAN, o \in BOOLEAN}

FM(fl, mq) == [flags |-> fl, mapq |-> mq]
FMWide == << FM({}, 60), FM({}, 19), FM({}, 20), FM({"dup"}, 60), FM({"qcfail"}, 30), FM({"supp"}, 29),
             FM({"secondary"}, 60), FM({"unmapped"}, 60) >>
FMNarrow == << FM({}, 60), FM({"dup"}, 20), FM({"supp", "qcfail"}, 60) >>
FMThorough == FMWide \o << FM({"dup", "qcfail"}, 60), FM({"dup", "supp"}, 20), FM({"qcfail", "supp", "secondary"}, 30),
                           FM({}, 29), FM({}, 30), FM({"dup", "qcfail", "supp"}, 19) >>

FMQuick == << FM({}, 60), FM({}, 19), FM({"dup"}, 60), FM({"qcfail"}, 20), FM({"supp"}, 60) >>
CVQuick == << CV(<<"A", "C">>, OK2, TRUE), CV(<<"C", None>>, OK2, TRUE), CV(<<"G", "T">>, OK2, TRUE),
              CV(<<None, None>>, OK2, TRUE), CV(<<None, "A">>, <<TRUE, FALSE>>, TRUE) >>
InstQuickWide    == [maxlen |-> 2, minqs |-> {20}, qn |-> <<"q1", "q2">>, rg |-> <<"a1", "a2", "b1">>, fm |-> FMQuick, cv |-> CVQuick]
InstQuickDeep    == [maxlen |-> 3, minqs |-> {20}, qn |-> <<"q1", "q2">>, rg |-> <<"a1", "a2">>, fm |-> SubSeq(FMNarrow, 1, 2), cv |-> SubSeq(CVNarrow, 1, 4)]
InstThoroughWideA == [maxlen |-> 2, minqs |-> {20, 30}, qn |-> <<"q1", "q2">>, rg |-> <<"a1", "a2", "b1">>, fm |-> FMWide, cv |-> SubSeq(CVWide, 1, 5)]
InstThoroughWideB == [maxlen |-> 2, minqs |-> {20, 30}, qn |-> <<"q1", "q2">>, rg |-> <<"a1", "a2", "b1">>, fm |-> SubSeq(FMThorough, 7, 14), cv |-> SubSeq(CVWide, 6, 10)]
InstThoroughDeep == [maxlen |-> 3, minqs |-> {20, 30}, qn |-> <<"q1", "q2">>, rg |-> <<"a1", "a2", "b1">>, fm |-> FMNarrow,
                     cv |-> << CV(<<"A", "C">>, OK2, TRUE), CV(<<"C", None>>, OK2, TRUE), CV(<<"N", "A">>, <<TRUE, FALSE>>, TRUE) >>]
InstTiny         == [maxlen |-> 2, minqs |-> {20, 30}, qn |-> <<"q1">>, rg |-> <<"a1", "b1">>, fm |-> FMNarrow, cv |-> CVNarrow]

Ix == (1..Len(Inst.qn)) \X (1..Len(Inst.rg)) \X (1..Len(Inst.fm)) \X (1..Len(Inst.cv))
AlnOf(ix) == [qname |-> Inst.qn[ix[1]], rg |-> Inst.rg[ix[2]],
              flags |-> Inst.fm[ix[3]].flags, mapq |-> Inst.fm[ix[3]].mapq,
              cells |-> Inst.cv[ix[4]].cells, refok |-> Inst.cv[ix[4]].refok, overlap |-> Inst.cv[ix[4]].overlap]
IxLeq(x, y) ==   \* lexicographic
  \/ x[1] < y[1]
  \/ x[1] = y[1] /\ x[2] < y[2]
  \/ x[1] = y[1] /\ x[2] = y[2] /\ x[3] < y[3]
  \/ x[1] = y[1] /\ x[2] = y[2] /\ x[3] = y[3] /\ x[4] <= y[4]

(* ------------------------------------------------------------------------ *)
(* the state machine                                                         *)
(* ------------------------------------------------------------------------ *)
VARIABLES hist,    \* the stream consumed so far (sequence of abstract alignments)
          last,    \* alphabet index of the last record (streams are explored as bags: non-decreasing index)
          st       \* [Configs -> [rows, errs]]
vars == <<hist, last, st>>

Init == /\ hist = <<>>
        /\ last = <<1, 1, 1, 1>>
        /\ st = [c \in Configs |-> Empty]

Consume(ix) ==
  /\ Len(hist) < Inst.maxlen
  /\ IxLeq(last, ix)
  /\ (hist = <<>> => ix[1] = 1)          \* read names are interchangeable: the first record is named qn[1]
  /\ LET a == AlnOf(ix)
     IN  /\ hist' = Append(hist, a)
         /\ st' = [c \in Configs |-> Step(st[c], a, HdrOf[c.layout], c)]
  /\ last' = ix

Next == \E ix \in Ix : Consume(ix)
Spec == Init /\ [][Next]_vars

(* ------------------------------------------------------------------------ *)
(* invariants                                                                *)
(* ------------------------------------------------------------------------ *)
TypeOK == \A c \in Configs :
  /\ \A t \in DOMAIN st[c].rows : <<t[1], t[2]>> \in UnitsOf[c]
  /\ st[c].errs \subseteq UnitsOf[c]

(* one row per read NAME among the passing alignments of that unit *)
RowsArePassingQnames == \A c \in Configs :
  DOMAIN st[c].rows = RowKeys(hist, HdrOf[c.layout], c)

(* every cell is the merge of the calls of that name at that site *)
CellSemantics == \A c \in Configs :
  LET k == RowKeyOf(hist, HdrOf[c.layout], c)
  IN  \A t \in DOMAIN st[c].rows : \A j \in 1..Len(ModelAlleles) : st[c].rows[t][j] = CellOf(hist, k, t, j)

(* a reference mismatch on a passing alignment is never silently used *)
ErrIffMismatch == \A c \in Configs : st[c].errs = MismatchUnits(hist, HdrOf[c.layout], c)

(* the result does not depend on the order of the stream *)
Perms(n) == {f \in [1..n -> 1..n] : \A i, j \in 1..n : i # j => f[i] # f[j]}
OrderConfluent ==
  Len(hist) >= 2 =>
    \A f \in Perms(Len(hist)) : \A c \in Configs :
       Fold(Empty, [i \in 1..Len(hist) |-> hist[f[i]]], HdrOf[c.layout], c) = st[c]

(* keeping more only adds rows and calls (a call may become "N", never a gap) *)
FilterMonotone == \A c \in Configs : \A c2 \in UpOf[c] :
  /\ DOMAIN st[c].rows \subseteq DOMAIN st[c2].rows
  /\ \A t \in DOMAIN st[c].rows : \A j \in 1..Len(ModelAlleles) :
        st[c].rows[t][j] # Gap => st[c2].rows[t][j] # Gap
  /\ st[c].errs \subseteq st[c2].errs

(* a pool is the concatenation of its members: its counts are the sums over *)
(* the members, and its row count is the number of distinct (unit, name)     *)
RECURSIVE SumFn(_)
SumFn(f) == IF DOMAIN f = {} THEN 0
            ELSE LET x == CHOOSE y \in DOMAIN f : TRUE
                 IN  f[x] + SumFn([z \in (DOMAIN f) \ {x} |-> f[z]])
PoolIsConcatenation == \A c \in Configs :
  LET U == UnitsOf[c]
      r == st[c].rows
      n == Len(ModelAlleles)
  IN  /\ RCount(r, U) = Cardinality(RowKeys(hist, HdrOf[c.layout], c))
      /\ RCount(r, U) = SumFn([u \in U |-> RCount(r, {u})])
      /\ RCalls(r, U, ModelAlleles) = SumFn([u \in U |-> RCalls(r, {u}, ModelAlleles)])
      /\ \A j \in 1..n : SnvDp(r, U, n)[j] = SumFn([u \in U |-> SnvDp(r, {u}, n)[j]])

(* a keep flag only matters for records that carry the flag *)
KeepFlagsLocal == \A c \in Configs : \A c2 \in UpOf[c] :
  (/\ c.minq = c2.minq
   /\ (c.kd # c2.kd => \A i \in 1..Len(hist) : "dup" \notin hist[i].flags)
   /\ (c.kq # c2.kq => \A i \in 1..Len(hist) : "qcfail" \notin hist[i].flags)
   /\ (c.ks # c2.ks => \A i \in 1..Len(hist) : "supp" \notin hist[i].flags))
  => st[c] = st[c2]

(* ------------------------------------------------------------------------ *)
(* what the harness reads: per state, configurations grouped by identical    *)
(* model output                                                              *)
(* ------------------------------------------------------------------------ *)
UnitSM(u, hdr, c) == IF c.field = "SM" THEN u[2] ELSE hdr[u[2]].sm
Out(s, c, hdr, alleles) ==      \* u: <<file, key, {<<qname, chars, calls>>}, <<rcount, snvdp, dp, rcalls>>>>
  LET U  == Units(hdr, c)
      PA == {u \in U : UnitSM(u, hdr, c) = "A"}
  IN  [u |-> {<<u[1], u[2],
                {<<t[3], s.rows[t], CallRow(s.rows[t], alleles)>> : t \in PoolRows(s.rows, {u})},
                StatTuple(s.rows, {u}, alleles)>> : u \in U},
       e |-> s.errs,
       pA |-> <<StatTuple(s.rows, PA, alleles), Uniq(s.rows, PA, alleles)>>,
       pAll |-> <<StatTuple(s.rows, U, alleles), Uniq(s.rows, U, alleles)>>]

ModelOut(c) == Out(st[c], c, HdrOf[c.layout], ModelAlleles)
(* configurations with the same rows/errs, field and layout have the same output: *)
(* the output is computed once per class                                         *)
Dump ==
  LET k    == TLCEval([c \in Configs |-> <<st[c], c.field, c.layout>>])
      ks   == {k[c] : c \in Configs}
      rep(x) == CHOOSE c \in Configs : k[c] = x
  IN  PrintT(<<"@@J", ToJson([hist |-> hist,
                              outs |-> {[c |-> {CfgId(c) : c \in {y \in Configs : k[y] = x}}, o |-> ModelOut(rep(x))] : x \in ks}])>>)

(* ------------------------------------------------------------------------ *)
(* mutant definitions (Mutant_*.cfg): must violate the named invariant       *)
(* ------------------------------------------------------------------------ *)
(* M1: one row per ALIGNMENT instead of per name (mates not merged) *)
MutRowKeys(s, hdr, c) == {<<Unit(s[i], hdr, c)[1], Unit(s[i], hdr, c)[2], s[i].qname, i>> : i \in PassingIdx(s, c)}
MutRowsPerAlignment == \A c \in Configs :
  Cardinality(DOMAIN st[c].rows) = Cardinality(MutRowKeys(hist, HdrOf[c.layout], c))
(* M2: a disagreeing mate overwrites instead of giving "N" *)
MutCellOf(s, k, t, j) ==
  LET is == {x \in DOMAIN k : k[x] = t /\ IsCall(s[x].cells[j])}
  IN  IF is = {} THEN Gap ELSE s[CHOOSE x \in is : \A y \in is : y <= x].cells[j]
MutLastCallWins == \A c \in Configs :
  LET k == RowKeyOf(hist, HdrOf[c.layout], c)
  IN  \A t \in DOMAIN st[c].rows : \A j \in 1..Len(ModelAlleles) : st[c].rows[t][j] = MutCellOf(hist, k, t, j)
(* M3: MAPQ threshold exclusive *)
MutPassing(a, c) == Passing(a, c) /\ a.mapq > c.minq
MutMapqExclusive == \A c \in Configs :
  DOMAIN st[c].rows = {<<Unit(hist[i], HdrOf[c.layout], c)[1], Unit(hist[i], HdrOf[c.layout], c)[2], hist[i].qname>>
                         : i \in {k \in 1..Len(hist) : MutPassing(hist[k], c)}}
=============================================================================
