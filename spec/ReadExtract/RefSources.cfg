SPECIFICATION Spec
INVARIANT NeverSilentlyUsed
INVARIANT DisagreementFails
CONSTRAINT Dump
CHECK_DEADLOCK FALSE
