SPECIFICATION Spec
CONSTANT Inst <- InstQuickDeep
INVARIANT MutLastCallWins
CHECK_DEADLOCK FALSE
