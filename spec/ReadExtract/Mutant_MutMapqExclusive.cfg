SPECIFICATION Spec
CONSTANT Inst <- InstQuickDeep
INVARIANT MutMapqExclusive
CHECK_DEADLOCK FALSE
