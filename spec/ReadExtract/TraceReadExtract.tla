-------------------------- MODULE TraceReadExtract --------------------------
(* code -> spec for C06.  A trace file is a JSON list of events; several       *)
(* recorded executions are batched (each starts with a "begin" event):         *)
(*   begin  : hdr (read groups: rg, sm, file), alleles per site (REF first),   *)
(*            cfg (minq, kd, kq, ks, field), n                                 *)
(*   aln    : one record of the alignment files, abstracted by the independent *)
(*            SAM-text walker: qname, rg, file, flags, mapq, cells, refbase    *)
(*            (reference base the alignment implies at each site), overlap,    *)
(*            quals                                                            *)
(*   keys / rows / error     : what extract_read_variants returned per file     *)
(*   stats / poolerror       : what encode_sample_reads reported for a pool     *)
(* The alignments drive the ReadExtract state machine (Step); every result     *)
(* event is compared with the model state and gets a verdict naming the        *)
(* clause it violates.                                                         *)
EXTENDS ReadExtract, IOUtils

Trace == JsonDeserialize(IOEnv.TRACE_FILE)

VARIABLES l, ctx, bad
tvars == <<hist, last, st, l, ctx, bad>>

Range(s) == {s[i] : i \in 1..Len(s)}

HdrFn(h) == [r \in {x.rg : x \in Range(h)} |->
               LET x == CHOOSE y \in Range(h) : y.rg = r IN [sm |-> x.sm, file |-> x.file]]

AlnOfEvent(e, c) ==
  [qname |-> e.qname, rg |-> e.rg, flags |-> Range(e.flags), mapq |-> e.mapq, cells |-> e.cells,
   refok |-> [j \in 1..Len(e.cells) |-> e.refbase[j] = c.alleles[j][1]],
   overlap |-> e.overlap, quals |-> e.quals]

WellFormedAln(e, c) == /\ Len(e.cells) = c.n /\ Len(e.refbase) = c.n
                       /\ e.rg \in DOMAIN c.hdr
                       /\ c.hdr[e.rg].file = e.file

(* sum of the base qualities of the calls of row t at site j *)
RECURSIVE SumQ(_, _, _)
SumQ(s, is, j) == IF is = {} THEN 0 ELSE LET i == CHOOSE x \in is : TRUE IN s[i].quals[j] + SumQ(s, is \ {i}, j)

RowsVerdict(e, c) ==
  LET u    == <<e.file, e.key>>
      mine == PoolRows(st.rows, {u})
      got  == {<<r[1], r[2]>> : r \in Range(e.rows)}
      k    == RowKeyOf(hist, c.hdr, c.cfg)
  IN  IF \E x \in st.errs : x[1] = e.file THEN "ErrIffMismatch"
      ELSE IF u \notin Units(c.hdr, c.cfg) THEN "SampleKeys"
      ELSE IF {r[1] : r \in Range(e.rows)} # {t[3] : t \in mine} THEN "RowsArePassingQnames"
      ELSE IF Len(e.rows) # Cardinality(mine) THEN "RowsArePassingQnames"
      ELSE IF got # {<<t[3], st.rows[t]>> : t \in mine} THEN "CellSemantics"
      ELSE IF \E t \in mine : \E j \in 1..c.n : st.rows[t][j] # CellOf(hist, k, t, j) THEN "ModelSelfCheck"
      ELSE IF \E r \in Range(e.quals) : \E j \in 1..c.n :
                LET t  == <<e.file, e.key, r[1]>>
                    is == {x \in DOMAIN k : k[x] = t /\ IsCall(hist[x].cells[j])}
                IN  /\ Cardinality({hist[x].cells[j] : x \in is}) <= 1
                    /\ r[2][j] # SumQ(hist, is, j)
           THEN "QualSum"
      ELSE "ok"

StatsVerdict(e, c) ==
  LET P  == {<<m[1], m[2]>> : m \in Range(e.pool)}
      al == c.alleles
      sd == SnvDp(st.rows, P, c.n)
  IN  IF P \cap st.errs # {} THEN "ErrIffMismatch"
      ELSE IF e.stat[1] # RCount(st.rows, P) THEN "RCOUNT"
      ELSE IF e.stat[2] # sd THEN "SNVDP"
      ELSE IF ~e.dp_is_int \/ e.stat[3] \notin Nearest(SumSeq(sd), c.n) THEN "DP"
      ELSE IF e.stat[4] # RCalls(st.rows, P, al) THEN "RCALLS"
      ELSE IF {<<x[1], x[2]>> : x \in Range(e.bag)} # Uniq(st.rows, P, al) THEN "AlleleMatrix"
      ELSE IF {<<x[1], x[2]>> : x \in Range(e.uniq)} # Uniq(st.rows, P, al) THEN "Dedup"
      ELSE IF e.bad_dist # "" THEN "Encoding"
      ELSE "ok"

Verdict(e) ==
  CASE e.op = "begin"  -> "ok"
    [] e.op = "aln"    -> IF WellFormedAln(e, ctx) THEN "ok" ELSE "MalformedEvent"
    [] e.op = "keys"   -> IF Range(e.keys) = {u[2] : u \in {x \in Units(ctx.hdr, ctx.cfg) : x[1] = e.file}} THEN "ok" ELSE "SampleKeys"
    [] e.op = "rows"   -> RowsVerdict(e, ctx)
    [] e.op = "error"  -> IF \E x \in st.errs : x[1] = e.file THEN "ok" ELSE "ErrIffMismatch"
    [] e.op = "stats"  -> StatsVerdict(e, ctx)
    [] e.op = "poolerror" -> IF {<<m[1], m[2]>> : m \in Range(e.pool)} \cap st.errs # {} THEN "ok" ELSE "ErrIffMismatch"
    [] OTHER -> "UnknownEvent"

TInit == /\ l = 1 /\ bad = 0 /\ hist = <<>> /\ last = 0 /\ st = Empty
         /\ ctx = [hdr |-> <<>>, alleles |-> <<>>, cfg |-> <<>>, n |-> 0]

TNext ==
  /\ l <= Len(Trace)
  /\ LET e == Trace[l]
         v == Verdict(e)
     IN  /\ IF v = "ok" THEN TRUE ELSE PrintT(<<"@@J", ToJson([reject |-> l, clause |-> v])>>)
         /\ bad' = IF v = "ok" THEN bad ELSE bad + 1
         /\ IF e.op = "begin"
            THEN /\ ctx' = [hdr |-> HdrFn(e.hdr), alleles |-> e.alleles, cfg |-> e.cfg, n |-> e.n]
                 /\ hist' = <<>> /\ st' = Empty
            ELSE IF e.op = "aln" /\ v = "ok"
            THEN LET a == AlnOfEvent(e, ctx)
                 IN  /\ hist' = Append(hist, a)
                     /\ st' = Step(st, a, ctx.hdr, ctx.cfg)
                     /\ UNCHANGED ctx
            ELSE UNCHANGED <<hist, st, ctx>>
  /\ l' = l + 1
  /\ UNCHANGED last

TSpec == TInit /\ [][TNext]_tvars
Consumed == (l = Len(Trace) + 1) => PrintT(<<"@@J", ToJson([consumed |-> l - 1, rejected |-> bad])>>)
=============================================================================
