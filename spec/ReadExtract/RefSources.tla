----------------------------- MODULE RefSources -----------------------------
(* C06, last clause: a reference base that disagrees between the SNV file,    *)
(* the FASTA and the alignment is always reported as an error instead of      *)
(* being used.  Three sources for one site: v (REF of the SNV file), f (FASTA  *)
(* base), a (base the alignment's MD implies, "none" when no passing alignment *)
(* covers the site).  Two checking steps in the order the program runs them:   *)
(* ValidateLocus (SNV file against FASTA, when the locus is built) and         *)
(* ReadCheck (SNV file against every passing alignment).                       *)
EXTENDS Integers, Sequences, TLC, Json

B == {"A", "C"}
(* v2: REF of an optional SECOND row of the SNV file at the same position (another ALT allele listed on its own   *)
(* line); the rows are merged into one multi-allelic variant and their REF bases are one more source.            *)
VARIABLES v, v2, f, a, stage, err
vars == <<v, v2, f, a, stage, err>>

Init == /\ v \in B /\ v2 \in B \cup {"none"} /\ f \in B /\ a \in B \cup {"none"}
        /\ stage = "start" /\ err = "no"
MergeRows == /\ stage = "start"
             /\ IF v2 # "none" /\ v2 # v THEN stage' = "failed" /\ err' = "snvfile-rows-disagree"
                ELSE stage' = "merged" /\ err' = err
             /\ UNCHANGED <<v, v2, f, a>>
ValidateLocus == /\ stage = "merged"
                 /\ IF v # f THEN stage' = "failed" /\ err' = "snvfile-vs-fasta"
                    ELSE stage' = "locus" /\ err' = err
                 /\ UNCHANGED <<v, v2, f, a>>
ReadCheck == /\ stage = "locus"
             /\ IF a # "none" /\ a # v THEN stage' = "failed" /\ err' = "snvfile-vs-alignment"
                ELSE stage' = "used" /\ err' = err
             /\ UNCHANGED <<v, v2, f, a>>
Next == MergeRows \/ ValidateLocus \/ ReadCheck
Spec == Init /\ [][Next]_vars

(* the base is used only if all available sources agree *)
NeverSilentlyUsed == stage = "used" => (v = f /\ (v2 = "none" \/ v2 = f) /\ (a = "none" \/ (a = v /\ a = f)))
(* and any disagreement ends in an error *)
Terminal == stage \in {"used", "failed"}
DisagreementFails == (Terminal /\ (v # f \/ (v2 # "none" /\ v2 # f) \/ (a # "none" /\ (a # v \/ a # f)))) => stage = "failed"
MutIgnoreFasta == stage = "used" => (a = "none" \/ a = v)   \* (holds; listed for contrast)
MutSilent == stage # "failed"                               \* mutant: must be violated

Dump == Terminal => PrintT(<<"@@J", ToJson([v |-> v, v2 |-> v2, f |-> f, a |-> a, fails |-> stage = "failed", err |-> err])>>)
=============================================================================
