SPECIFICATION Spec
CONSTANT L = 2
CONSTANT B = 2
CONSTANT InitSize = 2
CONSTANT MaxSize = 8
CONSTANT Vals = {1, 2}
CONSTANT Depth = 6
VIEW view
INVARIANT MutRefinesGet0
CHECK_DEADLOCK FALSE
