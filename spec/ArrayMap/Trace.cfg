SPECIFICATION Spec
INVARIANT Refines
INVARIANT MissSentinelIsNaN
INVARIANT InBounds
INVARIANT Consumed
CHECK_DEADLOCK FALSE
