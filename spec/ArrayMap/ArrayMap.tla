------------------------------ MODULE ArrayMap ------------------------------
(* C09: the assemble likelihood cache (mchap/assemble/arraymap.py) modelled   *)
(* exactly as stored: a trie over fixed-length integer keys held in a node     *)
(* array `tree` (row = node, column = branch, -1 = null; the last node of a    *)
(* key stores the index of its value in column 0) and a value array `values`   *)
(* (NaN = empty), with the first free node / value slots, doubling of either   *)
(* array when it fills, and flush-and-return when doubling would exceed        *)
(* MaxSize (set(..., empty_if_full=True), as the samplers call it).            *)
(* Ghost variable M is the abstract map the cache must refine.                 *)
EXTENDS Integers, Sequences, FiniteSets, TLC, Json

CONSTANTS L,         \* key length (ploidy * n_base in the sampler)
          B,         \* branches per node (max alleles)
          InitSize,  \* initial length of both arrays (>= 2)
          MaxSize,   \* arrays never grow beyond this
          Vals,      \* values that may be stored (small integers standing for floats)
          Depth      \* number of operations explored

NaN == -2147483647   \* stands for float nan in `values` (outside the range of quantised floats)
Null == -1           \* empty tree cell
Keys == [1..L -> 0..(B - 1)]

VARIABLES tree,      \* sequence of nodes, node n is tree[n+1]; each a sequence of B cells
          values,    \* sequence, slot i is values[i+1]
          en,        \* empty_node: index of the first unused node (root is 0)
          ev,        \* empty_values: index of the first unused value slot
          M,         \* ghost: abstract map (function from a subset of Keys to Vals)
          hist       \* operations so far (for replay into the implementation)
vars == <<tree, values, en, ev, M, hist>>
view == <<tree, values, en, ev, M>>

EmptyRow == [b \in 1..B |-> Null]
EmptyTree(n) == [i \in 1..n |-> EmptyRow]
EmptyVals(n) == [i \in 1..n |-> NaN]
EmptyMap == [k \in {} |-> 0]

Init == /\ tree = EmptyTree(InitSize)
        /\ values = EmptyVals(InitSize)
        /\ en = 1
        /\ ev = 0
        /\ M = EmptyMap
        /\ hist = <<>>

(* ---- set: walk / create the node path -------------------------------------*)
RECURSIVE Walk(_, _, _, _, _)
Walk(tr, e, node, i, key) ==
  IF i > L THEN [tree |-> tr, en |-> e, node |-> node, flushed |-> FALSE]
  ELSE LET j   == key[i]
           nxt == tr[node + 1][j + 1]
       IN  IF nxt >= 0 THEN Walk(tr, e, nxt, i + 1, key)
           ELSE LET tr1 == [tr EXCEPT ![node + 1][j + 1] = e]
                    e1  == e + 1
                IN  IF e1 + 1 >= Len(tr1)                      \* tree is full
                    THEN IF Len(tr1) * 2 > MaxSize
                         THEN [tree |-> EmptyTree(Len(tr1)), en |-> 1, node |-> 0, flushed |-> TRUE]
                         ELSE Walk(tr1 \o EmptyTree(Len(tr1)), e1, e, i + 1, key)
                    ELSE Walk(tr1, e1, e, i + 1, key)

SetResult(key, v) ==
  LET w == Walk(tree, en, 0, 1, key)
  IN  IF w.flushed
      THEN [tree |-> w.tree, values |-> EmptyVals(Len(values)), en |-> 1, ev |-> 0, flush |-> "node"]
      ELSE LET vi0 == w.tree[w.node + 1][1]
           IN  IF vi0 >= 0
               THEN [tree |-> w.tree, values |-> [values EXCEPT ![vi0 + 1] = v], en |-> w.en, ev |-> ev, flush |-> "none"]
               ELSE LET tr1 == [w.tree EXCEPT ![w.node + 1][1] = ev]
                        ev1 == ev + 1
                    IN  IF ev1 + 1 >= Len(values)              \* values is full
                        THEN IF Len(values) * 2 > MaxSize
                             THEN [tree |-> EmptyTree(Len(tr1)), values |-> EmptyVals(Len(values)), en |-> 1, ev |-> 0, flush |-> "value"]
                             ELSE [tree |-> tr1, values |-> [(values \o EmptyVals(Len(values))) EXCEPT ![ev + 1] = v],
                                   en |-> w.en, ev |-> ev1, flush |-> "none"]
                        ELSE [tree |-> tr1, values |-> [values EXCEPT ![ev + 1] = v], en |-> w.en, ev |-> ev1, flush |-> "none"]

Set(key, v) ==
  LET r == SetResult(key, v)
  IN  /\ tree' = r.tree
      /\ values' = r.values
      /\ en' = r.en
      /\ ev' = r.ev
      /\ M' = IF r.flush = "none" THEN [k \in (DOMAIN M) \cup {key} |-> IF k = key THEN v ELSE M[k]] ELSE EmptyMap
      /\ hist' = Append(hist, [key |-> key, v |-> v, flush |-> r.flush])

(* ---- get -------------------------------------------------------------------*)
RECURSIVE Find(_, _, _)
Find(node, i, key) ==
  IF i > L THEN node
  ELSE LET nxt == tree[node + 1][key[i] + 1]
       IN  IF nxt < 0 THEN -1 ELSE Find(nxt, i + 1, key)
Get(key) ==
  LET node == Find(0, 1, key)
  IN  IF node < 0 THEN values[ev + 1]
      ELSE LET vi == tree[node + 1][1]
           IN  IF vi < 0 THEN values[ev + 1] ELSE values[vi + 1]

Next == /\ Len(hist) < Depth
        /\ \E key \in Keys, v \in Vals : Set(key, v)
Spec == Init /\ [][Next]_vars

(* ---- properties --------------------------------------------------------------*)
Refines == \A key \in Keys : Get(key) = IF key \in DOMAIN M THEN M[key] ELSE NaN
MissSentinelIsNaN == values[ev + 1] = NaN
InBounds == /\ 1 <= en /\ en < Len(tree)
            /\ 0 <= ev /\ ev < Len(values)
            /\ Len(tree) <= MaxSize \/ Len(tree) = InitSize
            /\ Len(values) <= MaxSize \/ Len(values) = InitSize
PointersValid == \A n \in 1..Len(tree), b \in 1..B : tree[n][b] < (IF en > ev THEN en ELSE ev) + 1
UnusedClean == /\ \A n \in (en + 1)..Len(tree) : tree[n] = EmptyRow
               /\ \A i \in (ev + 1)..Len(values) : values[i] = NaN
CardM == Cardinality(DOMAIN M) = ev

(* mutant get: a miss reads slot 0 instead of the first free slot (Mutant_get0.cfg) *)
BadGet(key) ==
  LET node == Find(0, 1, key)
  IN  IF node < 0 THEN values[1]
      ELSE LET vi == tree[node + 1][1]
           IN  IF vi < 0 THEN values[1] ELSE values[vi + 1]
MutRefinesGet0 == \A key \in Keys : BadGet(key) = IF key \in DOMAIN M THEN M[key] ELSE NaN
(* mutant flush: the ghost map is NOT reset, i.e. a flush that kept the value array (Mutant_flush.cfg) *)
MutNoLoss == \A i \in 1..Len(hist) : \A key \in Keys :
               (hist[i].key = key /\ \A k \in (i + 1)..Len(hist) : hist[k].key # key) => Get(key) = hist[i].v

Proj == [en |-> en, ev |-> ev, lt |-> Len(tree), lv |-> Len(values), tree |-> tree, values |-> values,
         gets |-> [key \in Keys |-> Get(key)]]
Dump == PrintT(<<"@@J", ToJson([hist |-> hist, en |-> en, ev |-> ev, lt |-> Len(tree), lv |-> Len(values),
                                tree |-> tree, values |-> values,
                                gets |-> {<<key, Get(key)>> : key \in Keys}])>>)
=============================================================================
