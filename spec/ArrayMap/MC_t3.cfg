SPECIFICATION Spec
CONSTANT L = 2
CONSTANT B = 2
CONSTANT InitSize = 2
CONSTANT MaxSize = 16
CONSTANT Vals = {1, 2}
CONSTANT Depth = 8
VIEW view
INVARIANT Refines
INVARIANT MissSentinelIsNaN
INVARIANT InBounds
INVARIANT PointersValid
INVARIANT UnusedClean
INVARIANT CardM
CONSTRAINT Dump
CHECK_DEADLOCK FALSE
