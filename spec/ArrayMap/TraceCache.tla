----------------------------- MODULE TraceCache -----------------------------
(* C09, code -> spec: cache histories recorded from real sampler runs          *)
(* (interpreted mode) are replayed against the models:                         *)
(*   * assemble: every arraymap get / set issued by the sampler is applied to  *)
(*     the faithful ArrayMap model; each get must return what the model returns*)
(*     (hit = last value stored since the last flush, miss = NaN), each set    *)
(*     must leave the model and the implementation with the same free slots    *)
(*     and array lengths (growth and flush happen exactly where the model      *)
(*     enables them), every stored value and every carried log-likelihood must *)
(*     equal the freshly recomputed one (`fresh`, computed by the harness from *)
(*     that sample's own reads);                                               *)
(*   * call / call-pedigree: every call of the cached likelihood wrapper is    *)
(*     applied to a dict model keyed by genotype index / (sample, index).      *)
(* Floats are quantised: round(v * 10^6); slack of one unit when comparing     *)
(* with `fresh`.                                                                *)
EXTENDS Integers, Sequences, FiniteSets, TLC, Json, IOUtils

Doc == JsonDeserialize(IOEnv.TRACE_FILE)
Hdr == Doc.header
Trace == Doc.events

VARIABLES tree, values, en, ev, M, hist,    \* the ArrayMap model
          D,                                 \* dict cache model
          Last,                              \* last value stored per arraymap key (never forgotten)
          l, bad, notes
AM == INSTANCE ArrayMap WITH L <- Hdr.L, B <- Hdr.B, InitSize <- Hdr.init, MaxSize <- Hdr.max,
                             Vals <- {}, Depth <- 0
vars == <<tree, values, en, ev, M, hist, D, Last, l, bad, notes>>

Abs(x) == IF x < 0 THEN -x ELSE x
Near(a, b) == Abs(a - b) <= 1
Key(e) == [i \in 1..Len(e.key) |-> e.key[i]]

Init == /\ AM!Init
        /\ D = [k \in {} |-> 0]
        /\ Last = [k \in {} |-> 0]
        /\ l = 1
        /\ bad = 0
        /\ notes = 0

(* Deciding clauses are the ones the property states: a cache may forget (miss) at any time but never lies -   *)
(* a served value is the last value stored for that key and equals the fresh value; stored and carried values  *)
(* equal the fresh value.  Agreement with the FAITHFUL model (same hits and misses, same free slots and array  *)
(* lengths, i.e. growth and flush exactly where arraymap.py does them) is reported as a note, not a rejection: *)
(* another growth / eviction policy would still satisfy C09.                                                    *)
GetVerdict(e) ==
  IF e.miss THEN "ok"
  ELSE IF Key(e) \notin DOMAIN Last THEN "GetReturnsLastStored"
  ELSE IF Last[Key(e)] # e.ret THEN "GetReturnsLastStored"
  ELSE IF ~Near(e.ret, e.fresh) THEN "ServedValueIsFresh"
  ELSE "ok"
GetNote(e) ==
  LET r == AM!Get(Key(e))
  IN  IF e.miss /\ r # AM!NaN THEN "GetMissButModelHit"
      ELSE IF ~e.miss /\ r = AM!NaN THEN "GetHitButModelMiss"
      ELSE "none"

SetVerdict(e, r) == IF ~Near(e.v, e.fresh) THEN "StoredValueIsFresh" ELSE "ok"
SetNote(e, r) ==
  IF r.en # e.en \/ r.ev # e.ev THEN "SetFreeSlots"
  ELSE IF Len(r.tree) # e.lt \/ Len(r.values) # e.lv THEN "SetArrayLengths"
  ELSE "none"

(* dict caches: a hit on a key the model holds must return the stored value; any served / stored value is fresh *)
DictVerdict(e) ==
  LET k == Key(e)
  IN  IF e.hit
      THEN IF k \in DOMAIN D /\ D[k] # e.ret THEN "DictReturnsStored"
           ELSE IF ~Near(e.ret, e.fresh) THEN "ServedValueIsFresh"
           ELSE "ok"
      ELSE IF ~Near(e.ret, e.fresh) THEN "StoredValueIsFresh" ELSE "ok"
DictNote(e) ==
  IF e.hit /\ Key(e) \notin DOMAIN D THEN "DictHitButModelMiss"
  ELSE IF ~e.hit /\ Key(e) \in DOMAIN D THEN "DictMissButModelHit"
  ELSE "none"

Note(e) ==
  CASE e.op = "get" -> GetNote(e)
    [] e.op = "set" -> SetNote(e, AM!SetResult(Key(e), e.v))
    [] e.op = "dget" -> DictNote(e)
    [] OTHER -> "none"

Verdict(e) ==
  CASE e.op = "get"     -> GetVerdict(e)
    [] e.op = "set"     -> SetVerdict(e, AM!SetResult(Key(e), e.v))
    [] e.op = "carried" -> IF Near(e.v, e.fresh) THEN "ok" ELSE "CarriedLlkIsFresh"
    [] e.op = "dget"    -> DictVerdict(e)
    [] OTHER -> "UnknownEvent"

Next ==
  /\ l <= Len(Trace)
  /\ LET e == Trace[l]
         v == Verdict(e)
         nt == Note(e)
     IN  /\ IF v = "ok" THEN TRUE ELSE PrintT(<<"@@J", ToJson([reject |-> l, clause |-> v])>>)
         /\ IF nt = "none" \/ notes >= 20 THEN TRUE ELSE PrintT(<<"@@J", ToJson([note |-> l, what |-> nt])>>)
         /\ bad' = IF v = "ok" THEN bad ELSE bad + 1
         /\ notes' = IF nt = "none" THEN notes ELSE notes + 1
         /\ Last' = IF e.op = "set" THEN [k \in (DOMAIN Last) \cup {Key(e)} |-> IF k = Key(e) THEN e.v ELSE Last[k]] ELSE Last
         /\ IF e.op = "set"
            THEN LET r == AM!SetResult(Key(e), e.v)
                 IN  /\ tree' = r.tree /\ values' = r.values /\ en' = r.en /\ ev' = r.ev
                     /\ M' = IF r.flush = "none"
                             THEN [k \in (DOMAIN M) \cup {Key(e)} |-> IF k = Key(e) THEN e.v ELSE M[k]]
                             ELSE [k \in {} |-> 0]
                     /\ hist' = IF r.flush = "none" THEN hist ELSE Append(hist, l)   \* lines at which a flush happened
                     /\ UNCHANGED D
            ELSE IF e.op = "dget"
            THEN /\ D' = IF e.hit /\ Key(e) \in DOMAIN D THEN D
                         ELSE [k \in (DOMAIN D) \cup {Key(e)} |-> IF k = Key(e) THEN e.ret ELSE D[k]]
                 /\ UNCHANGED <<tree, values, en, ev, M, hist>>
            ELSE UNCHANGED <<tree, values, en, ev, M, hist, D>>
  /\ l' = l + 1
Spec == Init /\ [][Next]_vars

(* the model invariants are evaluated at every step of the recorded history too *)
Refines == \A k \in DOMAIN M : AM!Get(k) = M[k]
MissSentinelIsNaN == AM!MissSentinelIsNaN
InBounds == AM!InBounds
Consumed == (l = Len(Trace) + 1) =>
   PrintT(<<"@@J", ToJson([consumed |-> l - 1, rejected |-> bad, model_divergences |-> notes, flushes |-> Len(hist), dict_entries |-> Cardinality(DOMAIN D)])>>)
=============================================================================
