SPECIFICATION TSpec
CONSTANT Inst <- InstTiny
INVARIANT Consumed
CHECK_DEADLOCK FALSE
