SPECIFICATION Spec
CONSTANT Inst <- InstTiny
INVARIANT MutDupNoEffect
CHECK_DEADLOCK FALSE
