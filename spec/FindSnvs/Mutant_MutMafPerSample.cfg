SPECIFICATION Spec
CONSTANT Inst <- InstQuickThresh
INVARIANT MutMafPerSample
CHECK_DEADLOCK FALSE
