SPECIFICATION Spec
CONSTANT Inst <- InstMinInd
INVARIANT DepthIsCount
INVARIANT FilterChangesDepth
INVARIANT ThresholdMonotone
INVARIANT KeptHasSupport
INVARIANT EmitIffTwo
CONSTRAINT Dump
CONSTRAINT DumpTh
CHECK_DEADLOCK FALSE
