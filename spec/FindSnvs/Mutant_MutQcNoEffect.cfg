SPECIFICATION Spec
CONSTANT Inst <- InstTiny
INVARIANT MutQcNoEffect
CHECK_DEADLOCK FALSE
