SPECIFICATION Spec
CONSTANT Inst <- InstTiny
INVARIANT DepthIsCount
INVARIANT FilterChangesDepth
INVARIANT ThresholdMonotone
INVARIANT KeptHasSupport
INVARIANT EmitIffTwo
INVARIANT MinIndBoundary
INVARIANT ZeroIsVacuous
INVARIANT MeanFreqSumsToOne
CONSTRAINT Dump
CONSTRAINT DumpTh
CHECK_DEADLOCK FALSE
