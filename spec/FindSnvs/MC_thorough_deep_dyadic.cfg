SPECIFICATION Spec
CONSTANT Inst <- InstDeepDyadic4
INVARIANT DepthIsCount
INVARIANT SeedIsPile
INVARIANT FilterChangesDepth
INVARIANT ThresholdMonotone
INVARIANT KeptHasSupport
INVARIANT EmitIffTwo
INVARIANT MinIndBoundary
INVARIANT ZeroIsVacuous
INVARIANT MeanFreqSumsToOne
CONSTRAINT Dump
CONSTRAINT DumpTh
CHECK_DEADLOCK FALSE
