SPECIFICATION Spec
CONSTANT Inst <- InstTiny
INVARIANT MutMapqNoEffect
CHECK_DEADLOCK FALSE
