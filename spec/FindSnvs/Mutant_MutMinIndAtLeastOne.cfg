SPECIFICATION Spec
CONSTANT Inst <- InstBoundary
INVARIANT MutMinIndAtLeastOne
CHECK_DEADLOCK FALSE
