---------------------------- MODULE TraceFindSnvs ----------------------------
(* code -> spec for C19.  A trace file is a JSON list of events; recorded       *)
(* executions are batched, each starting with "begin":                          *)
(*   begin    : n (positions of the target interval), samples, ref (base per    *)
(*              position), fc (minq, kd, kq, ks), th (imaf, imad, mind, maf, mad)*)
(*   aln      : one record of a sample's BAM overlapping the interval, abstracted*)
(*              by the independent SAM-text walker: s, flags, mapq, cells        *)
(*   depth    : p, d[s] = <<A, C, G, T>> the array find-snvs obtained            *)
(*   record / norecord : what find-snvs printed for position p                  *)
(* The alignments drive the FindSnvs pileup step (Pile) under the recorded read  *)
(* filter; every result event gets a verdict naming the clause it violates.      *)
EXTENDS FindSnvs, IOUtils

Trace == JsonDeserialize(IOEnv.TRACE_FILE)

VARIABLES l, ctx, cur, obs, bad
tvars == <<hist, last, depth, l, ctx, cur, obs, bad>>

(* cur: the model's depth table for EVERY read-filter configuration (the recorded one is ctx.fc);  *)
(* obs: the depth table the program reported (depth events).  Records are judged against obs, so   *)
(* that the threshold rule is validated independently of a depth defect.                           *)
AllFC(fc) == {FCfg(m, kd, kq, ks) : m \in {0, 20, 30, fc.minq}, kd \in BOOLEAN, kq \in BOOLEAN, ks \in BOOLEAN}
SameFC(a, b) == a.minq = b.minq /\ a.kd = b.kd /\ a.kq = b.kq /\ a.ks = b.ks
Mine == cur[CHOOSE c \in DOMAIN cur : SameFC(c, ctx.fc)]

Range(s) == {s[i] : i \in 1..Len(s)}
AlnOfEvent(e) == [s |-> e.s, flags |-> Range(e.flags), mapq |-> e.mapq, cells |-> e.cells]
ThOfEvent(t) == [imaf |-> t.imaf, imad |-> t.imad, mind |-> t.mind, maf |-> t.maf, mad |-> t.mad]
ZeroN(ns, n) == [s \in 1..ns |-> [p \in 1..n |-> [b \in Bases |-> 0]]]
AsList(d, s, p) == <<d[s][p]["A"], d[s][p]["C"], d[s][p]["G"], d[s][p]["T"]>>

Abs(x) == IF x < 0 THEN -x ELSE x

RecordVerdict(e) ==
  LET p   == e.p
      th  == ctx.th
      ref == ctx.ref[p]
      K   == Keep(obs, p, th)
      ord == <<ref>> \o e.alt
      mf(b) == MeanFreq(obs, p, b)
  IN  IF ~RefUsable(ref) THEN (IF e.ref = ref THEN "ok" ELSE "RefFirst")   \* N / IUPAC reference: only REF is decided
      ELSE IF Ambiguous(obs, p, th) THEN "ok"
      ELSE IF ~Emitted(obs, p, th) THEN "EmitIffTwo"
      ELSE IF e.ref # ref THEN "RefFirst"
      ELSE IF e.masked # MaskedR(obs, p, th, ref) THEN "RefMasked"
      ELSE IF Range(e.alt) # K \ {ref} \/ Len(e.alt) # Cardinality(K \ {ref}) THEN "AllelesListed"
      ELSE IF \E i \in 1..(Len(e.alt) - 1) : mf(e.alt[i])[1] < mf(e.alt[i + 1])[1] THEN "AltOrdered"
      ELSE IF \E s \in 1..ctx.samples : e.sAD[s] # [i \in 1..Len(ord) |-> obs[s][p][ord[i]]] THEN "SampleAD"
      ELSE IF e.AD # [i \in 1..Len(ord) |-> SumDepth(obs, 1..ctx.samples, p, ord[i])] THEN "InfoAD"
      ELSE IF /\ Covered(obs, p) = 1..ctx.samples
              /\ mf(ref)[2] <= 1000000
              /\ \E i \in 1..Len(ord) :
                   /\ ~(i = 1 /\ e.masked)
                   /\ Abs(2 * (e.ADMF[i] \div 1000) * mf(ord[i])[2] - 2000 * mf(ord[i])[1]) > mf(ord[i])[2] + 2
           THEN "ADMF"
      ELSE "ok"

Verdict(e) ==
  CASE e.op = "begin" -> "ok"
    [] e.op = "aln"   -> IF Len(e.cells) = ctx.n /\ e.s \in 1..ctx.samples THEN "ok" ELSE "MalformedEvent"
    [] e.op = "depth" -> IF \A s \in 1..ctx.samples : e.d[s] = AsList(Mine, s, e.p) THEN "ok"
                         ELSE IF \E c \in DOMAIN cur : \A s \in 1..ctx.samples : e.d[s] = AsList(cur[c], s, e.p)
                              THEN "FilterOptionIgnored"      \* the depths of some OTHER read-filter configuration
                              ELSE "DepthIsFilteredPileup"
    [] e.op = "record" -> RecordVerdict(e)
    [] e.op = "norecord" -> IF ~RefUsable(ctx.ref[e.p]) \/ Ambiguous(obs, e.p, ctx.th) \/ ~Emitted(obs, e.p, ctx.th) THEN "ok" ELSE "EmitIffTwo"
    [] OTHER -> "UnknownEvent"

TInit == /\ l = 1 /\ bad = 0 /\ hist = <<>> /\ last = 0 /\ depth = <<>>
         /\ ctx = [n |-> 0, samples |-> 0, ref |-> <<>>, fc |-> <<>>, th |-> <<>>]
         /\ cur = <<>> /\ obs = <<>>

TNext ==
  /\ l <= Len(Trace)
  /\ LET e == Trace[l]
         v == Verdict(e)
     IN  /\ IF v = "ok" THEN TRUE ELSE PrintT(<<"@@J", ToJson([reject |-> l, clause |-> v])>>)
         /\ bad' = IF v = "ok" THEN bad ELSE bad + 1
         /\ IF e.op = "begin"
            THEN /\ ctx' = [n |-> e.n, samples |-> e.samples, ref |-> e.ref, fc |-> e.fc, th |-> ThOfEvent(e.th)]
                 /\ cur' = [c \in AllFC(e.fc) |-> ZeroN(e.samples, e.n)]
                 /\ obs' = ZeroN(e.samples, e.n)
            ELSE IF e.op = "aln" /\ v = "ok"
            THEN /\ cur' = [c \in DOMAIN cur |-> Pile(cur[c], AlnOfEvent(e), c)]
                 /\ UNCHANGED <<ctx, obs>>
            ELSE IF e.op = "depth"
            THEN /\ obs' = [s \in 1..ctx.samples |-> [obs[s] EXCEPT ![e.p] =
                               [b \in Bases |-> e.d[s][CASE b = "A" -> 1 [] b = "C" -> 2 [] b = "G" -> 3 [] b = "T" -> 4]]]]
                 /\ UNCHANGED <<ctx, cur>>
            ELSE UNCHANGED <<cur, ctx, obs>>
  /\ l' = l + 1
  /\ UNCHANGED <<hist, last, depth>>

TSpec == TInit /\ [][TNext]_tvars
Consumed == (l = Len(Trace) + 1) => PrintT(<<"@@J", ToJson([consumed |-> l - 1, rejected |-> bad])>>)
=============================================================================
