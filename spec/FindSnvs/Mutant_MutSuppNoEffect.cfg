SPECIFICATION Spec
CONSTANT Inst <- InstTiny
INVARIANT MutSuppNoEffect
CHECK_DEADLOCK FALSE
