------------------------------ MODULE FindSnvs ------------------------------
(* C19: find-snvs depths equal the filtered pileup; thresholds as documented. *)
(*                                                                           *)
(* One BAM per sample.  A stream of abstract alignments                      *)
(*   [s (sample), flags, mapq, cells \in [1..NP -> {"none"} \cup bases]]      *)
(* is consumed one record per step into the allele depths                    *)
(*   depth[fc][s][p][b]                                                      *)
(* kept for EVERY read-filter configuration fc (--mapping-quality, the three  *)
(* keep flags) at once.  From a depth table and a threshold configuration th  *)
(* (--ind-maf, --ind-mad, --min-ind, --maf, --mad; exact rationals) the       *)
(* emitted records are a function defined from the documentation (Keep,       *)
(* Emitted, Masked, mean sample frequency for the ALT order).                 *)
(* Deep instances (Inst.seed # <<>>) start the same machine from a table of    *)
(* 30-60 reads per sample (BulkPile / SeedIsPile) instead of the empty one.    *)
EXTENDS Integers, Sequences, FiniteSets, TLC, Json

CONSTANTS Inst     \* [maxlen, minqs, fm, cv, th, samples, seed] (see Inst* below)

None   == "none"
Bases  == {"A", "C", "G", "T"}
NP     == 2
RefBase == <<"A", "C">>             \* reference base of the two target positions
Samples == 1..Inst.samples

(* ------------------------------------------------------------------------ *)
(* read filters                                                              *)
(* ------------------------------------------------------------------------ *)
FCfg(minq, kd, kq, ks) == [minq |-> minq, kd |-> kd, kq |-> kq, ks |-> ks]
FCs == {FCfg(m, kd, kq, ks) : m \in Inst.minqs, kd \in BOOLEAN, kq \in BOOLEAN, ks \in BOOLEAN}
B01(x) == IF x THEN 1 ELSE 0
FcId(c) == 8 * (IF c.minq = 0 THEN 0 ELSE IF c.minq = 20 THEN 1 ELSE 2) + 4 * B01(c.kd) + 2 * B01(c.kq) + B01(c.ks)

(* passing = mapped, MAPQ >= threshold, not excluded as duplicate / QC-fail /  *)
(* supplementary unless the keep flag is given                                *)
Passing(a, c) == /\ "unmapped" \notin a.flags
                 /\ a.mapq >= c.minq
                 /\ ("dup" \in a.flags => c.kd)
                 /\ ("qcfail" \in a.flags => c.kq)
                 /\ ("supp" \in a.flags => c.ks)

Zero == [s \in Samples |-> [p \in 1..NP |-> [b \in Bases |-> 0]]]

(* one pileup step: a passing alignment adds one to the depth of its base at  *)
(* every position it covers with A/C/G/T (N and unaligned positions add nothing) *)
Pile(d, a, c) ==
  IF ~Passing(a, c) THEN d
  ELSE [d EXCEPT ![a.s] = [p \in DOMAIN d[a.s] |->
          IF a.cells[p] \in Bases THEN [d[a.s][p] EXCEPT ![a.cells[p]] = @ + 1] ELSE d[a.s][p]]]

(* order-free definition *)
Count(s, c, smp, p, b) == Cardinality({i \in 1..Len(s) : Passing(s[i], c) /\ s[i].s = smp /\ s[i].cells[p] = b})

(* n identical plain reads (no flags, MAPQ 60: passing under every read-filter  *)
(* configuration) of sample e.s with cell vector e.cells add n at once.  Deep   *)
(* instances (30-60 reads per sample) start from such a seed table instead of   *)
(* the empty one; SeedIsPile states that this is n single pileup steps.         *)
BulkPile(d, e) ==
  [d EXCEPT ![e.s] = [p \in DOMAIN d[e.s] |->
      IF e.cells[p] \in Bases THEN [d[e.s][p] EXCEPT ![e.cells[p]] = @ + e.n] ELSE d[e.s][p]]]
RECURSIVE BulkTable(_, _)
BulkTable(sq, k) == IF k = 0 THEN Zero ELSE TLCEval(BulkPile(BulkTable(sq, k - 1), sq[k]))
SeedTable == BulkTable(Inst.seed, Len(Inst.seed))
SeedAln(e) == [s |-> e.s, flags |-> {}, mapq |-> 60, cells |-> e.cells]
RECURSIVE PileN(_, _, _, _)
PileN(d, a, c, n) == IF n = 0 THEN d ELSE PileN(TLCEval(Pile(d, a, c)), a, c, n - 1)
RECURSIVE SeedByReads(_, _)
SeedByReads(k, c) == IF k = 0 THEN Zero ELSE PileN(SeedByReads(k - 1, c), SeedAln(Inst.seed[k]), c, Inst.seed[k].n)

(* ------------------------------------------------------------------------ *)
(* thresholds (exact rationals <<num, den>>)                                  *)
(* ------------------------------------------------------------------------ *)
Th(imaf, imad, mind, maf, mad) == [imaf |-> imaf, imad |-> imad, mind |-> mind, maf |-> maf, mad |-> mad]
Tot(d, s, p) == d[s][p]["A"] + d[s][p]["C"] + d[s][p]["G"] + d[s][p]["T"]
Covered(d, p) == {s \in DOMAIN d : Tot(d, s, p) > 0}

(* frequency of b in sample s >= q  (sample has reads there) *)
FreqGeq(d, s, p, b, q) == d[s][p][b] * q[2] >= q[1] * Tot(d, s, p)

RECURSIVE ProdTot(_, _, _)
ProdTot(d, S, p) == IF S = {} THEN 1 ELSE LET s == CHOOSE x \in S : TRUE IN Tot(d, s, p) * ProdTot(d, S \ {s}, p)
RECURSIVE SumCross(_, _, _, _, _)
SumCross(d, S, All, p, b) ==      \* sum_s depth[s][b] * prod_{r # s} tot[r]
  IF S = {} THEN 0
  ELSE LET s == CHOOSE x \in S : TRUE
       IN  d[s][p][b] * ProdTot(d, All \ {s}, p) + SumCross(d, S \ {s}, All, p, b)
(* mean over the samples that have reads at p of depth/tot, as <<num, den>>    *)
MeanFreq(d, p, b) ==
  LET C == Covered(d, p)
  IN  <<SumCross(d, C, C, p, b), Cardinality(C) * ProdTot(d, C, p)>>
RGeq(x, q) == x[1] * q[2] >= q[1] * x[2]          \* x >= q, positive denominators
RECURSIVE SumDepth(_, _, _, _)
SumDepth(d, S, p, b) == IF S = {} THEN 0 ELSE LET s == CHOOSE x \in S : TRUE IN d[s][p][b] + SumDepth(d, S \ {s}, p, b)

IndOK(d, p, b, th) ==
  Cardinality({s \in Covered(d, p) : FreqGeq(d, s, p, b, th.imaf) /\ d[s][p][b] >= th.imad}) >= th.mind
PopOK(d, p, b, th) ==
  /\ (th.maf[1] = 0 \/ RGeq(MeanFreq(d, p, b), th.maf))
  /\ (th.mad = 0 \/ SumDepth(d, DOMAIN d, p, b) >= th.mad)
Keep(d, p, th) == IF Covered(d, p) = {} THEN {} ELSE {b \in Bases : IndOK(d, p, b, th) /\ PopOK(d, p, b, th)}
Emitted(d, p, th) == Cardinality(Keep(d, p, th)) >= 2
MaskedR(d, p, th, ref) == ref \notin Keep(d, p, th)
Masked(d, p, th) == MaskedR(d, p, th, RefBase[p])

(* where the documented rule is silent (not alarmed on):                      *)
(*  - a sample without reads at the position, when --maf > 0 or when the       *)
(*    individual thresholds are vacuous (0/0 frequency)                        *)
(*  - the population mean frequency exactly on --maf with non-dyadic sample     *)
(*    frequencies (float rounding of the sum)                                  *)
(*  - a position without any read when every threshold is vacuous (--min-ind 0, *)
(*    --maf 0, --mad 0): every allele "meets" them, frequencies are 0/0         *)
IsPow2(n) == n \in {1, 2, 4, 8, 16, 32, 64}
Ambiguous(d, p, th) ==
  \/ Covered(d, p) = {} /\ th.mind = 0 /\ th.maf[1] = 0 /\ th.mad = 0
  \/ /\ Covered(d, p) # DOMAIN d /\ Covered(d, p) # {}
     /\ (th.maf[1] > 0 \/ (th.imaf[1] = 0 /\ th.imad = 0 /\ th.mind > 0))
  \/ /\ th.maf[1] > 0
     /\ \E s \in Covered(d, p) : ~IsPow2(Tot(d, s, p))
     /\ \E b \in Bases : LET m == MeanFreq(d, p, b) IN m[1] * th.maf[2] = th.maf[1] * m[2]

(* Reference bases outside A/C/G/T (N, IUPAC codes, as the FASTA spells them after upper-casing): the documented rule   *)
(* needs a reference allele among the four counted nucleotides, so it says nothing about such a position (the program   *)
(* drops it).  What the rule does say is that the record of a position is a function of THAT position's depth column   *)
(* and reference base only (the signature of RecR): an unusable position can neither move, renumber nor remove the      *)
(* record of any other position of the target.                                                                          *)
RefUsable(r) == r \in Bases

(* the record of one position: 0 = not emitted, else                          *)
(* <<kept bases, masked, {<<base, mean freq num, den>>}, ambiguous>>           *)
RecR(d, p, th, ref) ==
  IF Ambiguous(d, p, th) THEN <<{}, FALSE, {}, TRUE>>
  ELSE IF ~Emitted(d, p, th) THEN <<{}, FALSE, {}, FALSE>>
  ELSE LET K == Keep(d, p, th)
       IN  <<K, MaskedR(d, p, th, ref), {<<b, MeanFreq(d, p, b)[1], MeanFreq(d, p, b)[2]>> : b \in K \cup {ref}}, FALSE>>
Rec(d, p, th) == RecR(d, p, th, RefBase[p])
Out(d, th) == [p \in 1..NP |-> Rec(d, p, th)]

(* ------------------------------------------------------------------------ *)
(* instances                                                                 *)
(* ------------------------------------------------------------------------ *)
FM(fl, mq) == [flags |-> fl, mapq |-> mq]
Plain == << FM({}, 60) >>
FMQuick == << FM({}, 60), FM({}, 19), FM({}, 20), FM({"dup"}, 60), FM({"qcfail"}, 60), FM({"supp"}, 60) >>
FMThorough == FMQuick \o << FM({"dup", "qcfail"}, 30), FM({"dup", "supp"}, 29), FM({"qcfail", "supp"}, 20),
                            FM({"dup", "qcfail", "supp"}, 60), FM({"unmapped"}, 60), FM({}, 30), FM({}, 29) >>

(* one read covers one position: the stream is a counter machine over the depth table *)
CVSingle == << <<"A", None>>, <<"C", None>>, <<"G", None>>, <<"T", None>>,
               <<None, "A">>, <<None, "C">>, <<None, "G">>, <<None, "T">> >>
CVSingle3 == << <<"A", None>>, <<"C", None>>, <<"G", None>>, <<None, "A">>, <<None, "C">>, <<None, "T">> >>
CVFilter == << <<"A", "C">>, <<"C", "C">>, <<"G", None>>, <<"N", "T">>, <<None, None>> >>
CVFilterT == CVFilter \o << <<"T", "A">>, <<None, "G">> >>

Q0 == <<0, 1>>
Q4 == <<1, 4>>
Q2 == <<1, 2>>
Q3 == <<1, 3>>
ThDefault == Th(<<1, 10>>, 3, 1, Q0, 0)
THQuick == {Th(im, id, mi, mf, md) : im \in {Q0, Q2}, id \in {0, 2}, mi \in {1, 2}, mf \in {Q0, Q4}, md \in {0, 2}} \cup {ThDefault}
THThorough == {Th(im, id, mi, mf, md) : im \in {Q0, Q4, Q2}, id \in {0, 1, 2}, mi \in {1, 2}, mf \in {Q0, Q4, Q2, Q3}, md \in {0, 2, 3}} \cup {ThDefault}
THJoint == {ThDefault, Th(Q0, 0, 1, Q0, 0), Th(Q4, 1, 1, Q0, 2), Th(Q2, 2, 2, Q4, 0)}

RECURSIVE ThSeq(_)
ThSeq(S) == IF S = {} THEN <<>> ELSE LET x == CHOOSE y \in S : TRUE IN <<x>> \o ThSeq(S \ {x})

FMQuick5 == << FM({}, 60), FM({}, 19), FM({"dup"}, 60), FM({"qcfail"}, 60), FM({"supp"}, 20) >>
InstQuickFilter == [maxlen |-> 3, minqs |-> {0, 20}, samples |-> 2, fm |-> FMQuick5, cv |-> << <<"A", "C">>, <<"C", None>>, <<"N", "T">> >>, th |-> THJoint, seed |-> <<>>]
InstQuickThresh == [maxlen |-> 4, minqs |-> {20}, samples |-> 2, fm |-> Plain, cv |-> CVSingle3, th |-> THQuick, seed |-> <<>>]
InstThoroughFilter == [maxlen |-> 2, minqs |-> {0, 20, 30}, samples |-> 2, fm |-> FMThorough, cv |-> CVFilterT, th |-> THJoint, seed |-> <<>>]
InstThoroughFilterDeep == [maxlen |-> 3, minqs |-> {0, 20, 30}, samples |-> 2, fm |-> FMQuick, cv |-> SubSeq(CVFilter, 1, 4), th |-> THJoint, seed |-> <<>>]
InstThoroughThresh == [maxlen |-> 4, minqs |-> {20}, samples |-> 2, fm |-> Plain, cv |-> CVSingle, th |-> THThorough, seed |-> <<>>]
InstThoroughThresh3 == [maxlen |-> 5, minqs |-> {20}, samples |-> 3, fm |-> Plain, cv |-> SubSeq(CVSingle, 1, 3), th |-> THQuick, seed |-> <<>>]
(* six plain reads over three samples at one position: the smallest table in which one sample meets only the individual   *)
(* frequency threshold, another only the individual depth threshold, and a third keeps another allele legitimately       *)
Q34 == <<3, 4>>
THMinInd == {Th(Q34, 2, 1, Q0, 0), Th(Q34, 2, 2, Q0, 0), Th(Q2, 2, 1, Q0, 0), Th(Q34, 1, 1, Q0, 0)}
InstMinInd == [maxlen |-> 6, minqs |-> {20}, samples |-> 3, fm |-> Plain, cv |-> SubSeq(CVSingle, 1, 3), th |-> THMinInd, seed |-> <<>>]
InstTiny == [maxlen |-> 2, minqs |-> {0, 20, 30}, samples |-> 2, fm |-> FMQuick, cv |-> SubSeq(CVFilter, 1, 3), th |-> THJoint, seed |-> <<>>]

(* ---- option boundary values (2 samples, plain reads at position 1, tables of up to 5 reads) ----------------------------- *)
(* --min-ind 0 (population-only filtering) and n_samples + 1 (nothing can be listed); 1 and n_samples are in THQuick.         *)
THBoundary == {Th(im, id, 0, mf, md) : im \in {Q0, Q2}, id \in {0, 2}, mf \in {Q0, Q4}, md \in {0, 2}}
              \cup {Th(Q0, 0, 3, Q0, 0), Th(Q2, 2, 3, Q4, 2), Th(Q0, 0, 1, Q0, 0), Th(Q0, 0, 2, Q0, 2), Th(Q2, 2, 2, Q0, 0), ThDefault}
InstBoundary == [maxlen |-> 5, minqs |-> {20}, samples |-> 2, fm |-> Plain, cv |-> SubSeq(CVSingle, 1, 3), th |-> THBoundary, seed |-> <<>>]

(* ---- deep tables: 30-60 reads per sample, multi-allelic, ALT mean frequencies near-tied but unequal -------------------- *)
(* A seed of identical plain reads covering both positions (position 1: A ref, C, G; position 2: C ref, A, T), then up to     *)
(* maxlen single reads.  The thresholds sit at 0 and exactly on values observed in / next to the seed table.                 *)
Sd(s, c1, c2, n) == [s |-> s, cells |-> <<c1, c2>>, n |-> n]
(* depths 40 and 41; ALT counts 13,12 and 12,13: means 1013/3280 and 1012/3280 *)
SeedNear == << Sd(1, "A", "C", 15), Sd(1, "C", "A", 13), Sd(1, "G", "T", 12),
               Sd(2, "A", "C", 16), Sd(2, "C", "A", 12), Sd(2, "G", "T", 13) >>
THNear == { ThDefault, Th(<<1, 10>>, 3, 0, Q0, 0), Th(<<1, 10>>, 3, 2, Q0, 0), Th(<<1, 10>>, 3, 3, Q0, 0),
            Th(<<3, 10>>, 0, 1, Q0, 0), Th(<<3, 10>>, 0, 2, Q0, 0), Th(Q0, 13, 1, Q0, 0), Th(Q0, 13, 2, Q0, 0),
            Th(Q0, 0, 1, Q0, 0), Th(Q0, 0, 0, Q0, 25), Th(Q0, 0, 0, Q0, 26), Th(Q2, 100, 0, Q0, 25),
            Th(Q0, 0, 0, <<1013, 3280>>, 0), Th(Q0, 0, 0, <<3, 10>>, 0), Th(<<3, 10>>, 12, 1, <<3, 10>>, 25),
            Th(<<1, 10>>, 3, 2, Q0, 26), Th(Q0, 0, 1, Q0, 25), Th(<<13, 40>>, 13, 1, Q0, 0) }
InstDeepNear == [maxlen |-> 3, minqs |-> {20}, samples |-> 2, fm |-> Plain, cv |-> CVSingle3, th |-> THNear, seed |-> SeedNear]
(* depths 31 and 32 (one read away from dyadic totals, where --maf exactly on the observed mean is decidable) *)
SeedDyadic == << Sd(1, "A", "C", 11), Sd(1, "C", "A", 10), Sd(1, "G", "T", 10),
                 Sd(2, "A", "C", 12), Sd(2, "C", "A", 10), Sd(2, "G", "T", 10) >>
THDyadic == { ThDefault, Th(<<1, 10>>, 3, 0, Q0, 0), Th(<<1, 10>>, 3, 2, Q0, 0), Th(<<1, 10>>, 3, 3, Q0, 0),
              Th(<<5, 16>>, 0, 1, Q0, 0), Th(<<5, 16>>, 10, 2, Q0, 0), Th(<<11, 32>>, 11, 1, Q0, 0),
              Th(Q0, 0, 0, <<5, 16>>, 0), Th(Q0, 0, 0, <<21, 64>>, 0), Th(Q0, 0, 0, <<5, 16>>, 20), Th(Q0, 0, 0, Q0, 21),
              Th(Q2, 11, 0, <<5, 16>>, 20), Th(<<1, 10>>, 3, 1, <<5, 16>>, 0), Th(<<1, 10>>, 3, 2, <<21, 64>>, 21),
              Th(Q0, 0, 1, Q0, 0), Th(Q0, 0, 1, <<21, 64>>, 0) }
InstDeepDyadic == [maxlen |-> 3, minqs |-> {20}, samples |-> 2, fm |-> Plain, cv |-> CVSingle3, th |-> THDyadic, seed |-> SeedDyadic]
(* thorough: one more read, and three samples of depths 44, 45, 46 *)
InstDeepNear4 == [InstDeepNear EXCEPT !.maxlen = 4]
InstDeepDyadic4 == [InstDeepDyadic EXCEPT !.maxlen = 4]
SeedThree == << Sd(1, "A", "C", 20), Sd(1, "C", "A", 12), Sd(1, "G", "T", 12),
                Sd(2, "A", "C", 21), Sd(2, "C", "A", 12), Sd(2, "G", "T", 12),
                Sd(3, "A", "C", 22), Sd(3, "C", "A", 12), Sd(3, "G", "T", 12) >>
THThree == { ThDefault, Th(<<1, 10>>, 3, 0, Q0, 0), Th(<<1, 10>>, 3, 3, Q0, 0), Th(<<1, 10>>, 3, 4, Q0, 0),
             Th(<<4, 15>>, 0, 1, Q0, 0), Th(<<4, 15>>, 12, 2, Q0, 0), Th(Q0, 13, 1, Q0, 0), Th(Q0, 0, 0, Q0, 37),
             Th(Q0, 0, 0, <<4, 15>>, 0), Th(Q2, 50, 0, <<1, 4>>, 36), Th(Q0, 0, 1, Q0, 0), Th(<<1, 10>>, 3, 3, Q0, 37) }
InstDeepThree == [maxlen |-> 3, minqs |-> {20}, samples |-> 3, fm |-> Plain, cv |-> CVSingle3, th |-> THThree, seed |-> SeedThree]

THS == ThSeq(Inst.th)               \* constant: a fixed enumeration of the threshold configurations

Ix == Samples \X (1..Len(Inst.fm)) \X (1..Len(Inst.cv))
AlnOf(ix) == [s |-> ix[1], flags |-> Inst.fm[ix[2]].flags, mapq |-> Inst.fm[ix[2]].mapq, cells |-> Inst.cv[ix[3]]]
IxLeq(x, y) == \/ x[1] < y[1]
               \/ x[1] = y[1] /\ x[2] < y[2]
               \/ x[1] = y[1] /\ x[2] = y[2] /\ x[3] <= y[3]

(* ------------------------------------------------------------------------ *)
(* the state machine                                                         *)
(* ------------------------------------------------------------------------ *)
VARIABLES hist, last, depth
vars == <<hist, last, depth>>

Init == /\ hist = <<>>
        /\ last = <<1, 1, 1>>
        /\ depth = LET st == SeedTable IN [c \in FCs |-> st]    \* the empty table unless the instance has a seed

Consume(ix) ==
  /\ Len(hist) < Inst.maxlen
  /\ IxLeq(last, ix)                   \* streams are explored as bags (the pileup is order-free, see DepthIsCount)
  /\ LET a == AlnOf(ix)
     IN  /\ hist' = Append(hist, a)
         /\ depth' = [c \in FCs |-> Pile(depth[c], a, c)]
  /\ last' = ix

Next == \E ix \in Ix : Consume(ix)
Spec == Init /\ [][Next]_vars

(* ------------------------------------------------------------------------ *)
(* invariants                                                                *)
(* ------------------------------------------------------------------------ *)
DepthIsCount == LET st == SeedTable IN \A c \in FCs : \A s \in Samples : \A p \in 1..NP : \A b \in Bases :
  depth[c][s][p][b] = st[s][p][b] + Count(hist, c, s, p, b)
(* the seed table is what the single-read pileup step gives for the seed's reads (checked at the initial state) *)
SeedIsPile == (hist = <<>>) => LET st == SeedTable IN \A c \in FCs : SeedByReads(Len(Inst.seed), c) = st

(* toggling one option changes the depths exactly by the alignments it affects *)
OneUp(c, c2) == /\ c2.minq <= c.minq /\ (c.kd => c2.kd) /\ (c.kq => c2.kq) /\ (c.ks => c2.ks)
                /\ B01(c.minq # c2.minq) + B01(c.kd # c2.kd) + B01(c.kq # c2.kq) + B01(c.ks # c2.ks) = 1
UpOf == [c \in FCs |-> {c2 \in FCs : OneUp(c, c2)}]
FilterChangesDepth == \A c \in FCs : \A c2 \in UpOf[c] : \A s \in Samples : \A p \in 1..NP : \A b \in Bases :
  depth[c2][s][p][b] - depth[c][s][p][b] =
    Cardinality({i \in 1..Len(hist) : Passing(hist[i], c2) /\ ~Passing(hist[i], c) /\ hist[i].s = s /\ hist[i].cells[p] = b})
    \* (seed reads pass every configuration)

ThLeq(t, u) == /\ t.imaf[1] * u.imaf[2] <= u.imaf[1] * t.imaf[2] /\ t.imad <= u.imad /\ t.mind <= u.mind
               /\ t.maf[1] * u.maf[2] <= u.maf[1] * t.maf[2] /\ t.mad <= u.mad
Differ1(t, u) == B01(t.imaf # u.imaf) + B01(t.imad # u.imad) + B01(t.mind # u.mind) + B01(t.maf # u.maf) + B01(t.mad # u.mad) = 1
(* pairs (i, j) of threshold configurations with THS[i] <= THS[j] differing in one option (monotonicity along *)
(* chains follows by transitivity); constant, evaluated once                                                 *)
ThPairsIdx == {ij \in (1..Len(THS)) \X (1..Len(THS)) : ThLeq(THS[ij[1]], THS[ij[2]]) /\ Differ1(THS[ij[1]], THS[ij[2]])}
D0 == depth[CHOOSE c \in FCs : c.minq = 20 /\ ~c.kd /\ ~c.kq /\ ~c.ks]
(* raising a threshold never adds an allele *)
ThresholdMonotone ==
  LET K == TLCEval([i \in 1..Len(THS) |-> [p \in 1..NP |-> Keep(D0, p, THS[i])]])
  IN  \A ij \in ThPairsIdx : \A p \in 1..NP : K[ij[2]][p] \subseteq K[ij[1]][p]
(* an allele without a single read is never listed once any threshold is positive *)
KeptHasSupport == \A t \in Inst.th : \A p \in 1..NP : \A b \in Keep(D0, p, t) :
  ((t.mind > 0 /\ (t.imad > 0 \/ t.imaf[1] > 0)) \/ t.mad > 0 \/ t.maf[1] > 0) => SumDepth(D0, Samples, p, b) > 0
(* boundary values of --min-ind: 0 leaves the population thresholds only, more than the number of samples lists nothing *)
MinIndBoundary == \A t \in Inst.th : \A p \in 1..NP :
  /\ (t.mind = 0 /\ Covered(D0, p) # {}) => Keep(D0, p, t) = {b \in Bases : PopOK(D0, p, b, t)}
  /\ t.mind > Cardinality(Samples) => Keep(D0, p, t) = {}
(* thresholds at 0 are vacuous: with --ind-maf 0 --ind-mad 0 --min-ind <= covered samples, --maf 0, --mad 0 every base is kept *)
ZeroIsVacuous == \A t \in Inst.th : \A p \in 1..NP :
  (t.imaf[1] = 0 /\ t.imad = 0 /\ t.maf[1] = 0 /\ t.mad = 0 /\ Covered(D0, p) # {} /\ t.mind <= Cardinality(Covered(D0, p)))
     => Keep(D0, p, t) = Bases
(* the exact mean sample frequencies (the ALT order key) of the four bases sum to one *)
MeanFreqSumsToOne == \A p \in 1..NP : Covered(D0, p) # {} =>
  LET m == [b \in Bases |-> MeanFreq(D0, p, b)] IN m["A"][1] + m["C"][1] + m["G"][1] + m["T"][1] = m["A"][2]
(* the record of a position is decided by that position's depth column alone: emptying every other column (what an     *)
(* unusable, uncovered or removed neighbouring position amounts to) leaves it unchanged                                  *)
OnlyColumn(d, p) == [s \in DOMAIN d |-> [q \in DOMAIN d[s] |-> IF q = p THEN d[s][q] ELSE [b \in Bases |-> 0]]]
PositionLocal == \A t \in Inst.th : \A p \in 1..NP : Rec(OnlyColumn(D0, p), p, t) = Rec(D0, p, t)
(* emitted positions list at least two alleles; the reference is masked iff it failed *)
EmitIffTwo == \A t \in Inst.th : \A p \in 1..NP :
  LET r == Rec(D0, p, t) IN (~r[4]) => ((r[1] # {}) <=> Cardinality(Keep(D0, p, t)) >= 2) /\ (r[1] # {} => (r[2] <=> RefBase[p] \notin r[1]))

(* ------------------------------------------------------------------------ *)
(* what the harness reads                                                    *)
(* ------------------------------------------------------------------------ *)
DepthList(d) == [s \in Samples |-> [p \in 1..NP |-> <<d[s][p]["A"], d[s][p]["C"], d[s][p]["G"], d[s][p]["T"]>>]]
Dump ==
  LET ds == {depth[c] : c \in FCs}
      n  == Len(THS)
  IN  PrintT(<<"@@J", ToJson([hist |-> hist,
        cls |-> {[fc |-> {FcId(c) : c \in {x \in FCs : depth[x] = d}},
                  depth |-> DepthList(d),
                  outs |-> LET o == TLCEval([i \in 1..n |-> Out(d, THS[i])])
                           IN  {[th |-> {i \in 1..n : o[i] = x}, rec |-> x] : x \in {o[i] : i \in 1..n}}] : d \in ds}])>>)
ThTable == [i \in 1..Len(THS) |-> <<THS[i].imaf, THS[i].imad, THS[i].mind, THS[i].maf, THS[i].mad>>]
DumpTh == (hist = <<>>) => PrintT(<<"@@J", ToJson([thresholds |-> ThTable, seed |-> Inst.seed])>>)

(* ------------------------------------------------------------------------ *)
(* mutant definitions                                                        *)
(* ------------------------------------------------------------------------ *)
(* the model's depths really depend on each option (anti-vacuity): each of     *)
(* these "the option has no effect" claims must be violated                    *)
NoEffect(f(_, _)) == \A c, c2 \in FCs : f(c, c2) => depth[c] = depth[c2]
MutMapqNoEffect == NoEffect(LAMBDA c, c2 : c.kd = c2.kd /\ c.kq = c2.kq /\ c.ks = c2.ks)
MutDupNoEffect  == NoEffect(LAMBDA c, c2 : c.minq = c2.minq /\ c.kq = c2.kq /\ c.ks = c2.ks)
MutQcNoEffect   == NoEffect(LAMBDA c, c2 : c.minq = c2.minq /\ c.kd = c2.kd /\ c.ks = c2.ks)
MutSuppNoEffect == NoEffect(LAMBDA c, c2 : c.minq = c2.minq /\ c.kd = c2.kd /\ c.kq = c2.kq)
(* a wrong threshold rule: population MAF applied per sample *)
MutKeep(d, p, th) == {b \in Bases : IndOK(d, p, b, th) /\ (th.mad = 0 \/ SumDepth(d, Samples, p, b) >= th.mad)
                                    /\ \A s \in Covered(d, p) : FreqGeq(d, s, p, b, th.maf)}
(* a wrong boundary: --min-ind 0 treated as 1 *)
MutIndOK(d, p, b, th) ==
  Cardinality({s \in Covered(d, p) : FreqGeq(d, s, p, b, th.imaf) /\ d[s][p][b] >= th.imad}) >= (IF th.mind < 1 THEN 1 ELSE th.mind)
MutMinIndAtLeastOne == \A t \in Inst.th : \A p \in 1..NP :
  Covered(D0, p) # {} => {b \in Bases : MutIndOK(D0, p, b, t) /\ PopOK(D0, p, b, t)} = Keep(D0, p, t)
(* a wrong order key: the mean frequency at the 3 decimals of ADMF.  The deep instances contain tables in which two *)
(* listed ALT alleles have unequal exact means that round to the same value                                          *)
Round3(x) == (2000 * x[1] + x[2]) \div (2 * x[2])
MutOrderRounded == \A t \in Inst.th : \A p \in 1..NP :
  (~Ambiguous(D0, p, t) /\ Emitted(D0, p, t)) =>
     \A b, c \in Keep(D0, p, t) \ {RefBase[p]} :
        LET x == MeanFreq(D0, p, b) y == MeanFreq(D0, p, c) IN x[1] > y[1] => Round3(x) > Round3(y)
MutMafPerSample == \A t \in Inst.th : \A p \in 1..NP : Ambiguous(D0, p, t) \/ MutKeep(D0, p, t) = Keep(D0, p, t)
=============================================================================
