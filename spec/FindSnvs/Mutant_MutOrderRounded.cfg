SPECIFICATION Spec
CONSTANT Inst <- InstDeepNear
INVARIANT MutOrderRounded
CHECK_DEADLOCK FALSE
