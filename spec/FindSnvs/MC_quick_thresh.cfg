SPECIFICATION Spec
CONSTANT Inst <- InstQuickThresh
INVARIANT DepthIsCount
INVARIANT FilterChangesDepth
INVARIANT ThresholdMonotone
INVARIANT KeptHasSupport
INVARIANT EmitIffTwo
INVARIANT MinIndBoundary
INVARIANT ZeroIsVacuous
INVARIANT MeanFreqSumsToOne
INVARIANT PositionLocal
CONSTRAINT Dump
CONSTRAINT DumpTh
CHECK_DEADLOCK FALSE
