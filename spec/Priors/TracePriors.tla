---------------------------- MODULE TracePriors ----------------------------
(* code -> spec for C05: calls of the implementation's prior functions on    *)
(* random, exactly representable parameters (F = fn/64, frequencies n_i/64)  *)
(* are recorded and validated here against the weights of PriorWeights.tla,  *)
(* recomputed in BigNat.  A recorded value is the pair (q, e) with           *)
(* q = round(p * 10^(9+e)); it is accepted iff |q Z - W 10^(9+e)| <= Z, and  *)
(* q = 0 is accepted iff W = 0.                                              *)
(*                                                                           *)
(* The trace follows the enumerator of Priors.tla: "begin" fixes an instance,*)
(* "geno" lines of a walked instance must visit the genotypes in VCF order   *)
(* (the successor of the previous line), "end" requires that every genotype  *)
(* was visited and that the recorded probabilities (q0 = round(p 10^9), one  *)
(* per line of a walk) add up to one within one unit per genotype.           *)
EXTENDS Integers, Sequences, FiniteSets, TLC, Json, IOUtils, BigNat, Genotypes, PriorWeights

Trace == JsonDeserialize(IOEnv.TRACE_FILE)

VARIABLES l,      \* next line
          cur,    \* current instance ("begin" line) or <<>>
          prev,   \* previous genotype of the walk or <<>>
          cnt,    \* genotypes visited in the walk
          sumq,   \* sum of their quantised probabilities (units of 10^-9)
          bad
vars == <<l, cur, prev, cnt, sumq, bad>>

RECURSIVE Pow10(_)
Pow10(k) == IF k = 0 THEN <<1>> ELSE BnMulSmall(Pow10(k - 1), 10)

(* |q Z - W 10^(9+e)| <= Z  and  (q = 0 <=> W = 0)                           *)
Matches(W, Z, q, e) ==
  IF W = <<>> \/ q = 0 THEN W = <<>> /\ q = 0
  ELSE LET a == BnMul(BnFromNat(q), Z)
           b == BnMul(W, Pow10(9 + e))
           d == IF BnLeq(a, b) THEN BnSub(b, a) ELSE BnSub(a, b)
       IN  BnLeq(d, Z)

Pr == [fn |-> cur.fn, fd |-> cur.fd, m |-> cur.m, n |-> cur.n]

WellFormedInstance(e) ==
  /\ e.P \in 1..12 /\ e.K \in 1..64
  /\ IsPriorParam([fn |-> e.fn, fd |-> e.fd, m |-> e.m, n |-> e.n], e.K)

GenotypeOK(g) == /\ Len(g) = cur.P
                 /\ \A t \in 1..Len(g) : g[t] \in 0..(cur.K - 1)
                 /\ IsSorted(g)

Verdict(e) ==
  CASE e.op = "begin" -> IF WellFormedInstance(e) THEN "ok" ELSE "WellFormedInstance"
    [] e.op = "geno" ->
         IF cur = <<>> THEN "NoInstance"
         ELSE IF ~GenotypeOK(e.g) THEN "GenotypeOK"
         ELSE IF cur.walk = 1 /\ prev = <<>> /\ e.g # [t \in 1..cur.P |-> 0] THEN "WalkStartsAtZero"
         ELSE IF cur.walk = 1 /\ prev # <<>> /\ e.g # SuccGenotype(prev) THEN "WalkIsVcfOrder"
         ELSE IF Matches(Weight(Pr, e.g), Normaliser(Pr, cur.P), e.q, e.e) THEN "ok"
         ELSE "GenotypePriorIsWOverZ"
    [] e.op = "cond" ->
         IF cur = <<>> THEN "NoInstance"
         ELSE IF ~GenotypeOK(e.g) \/ e.t \notin 1..cur.P THEN "GenotypeOK"
         ELSE LET rest == Without(e.g, e.t)
              IN  IF Matches(BnFromNat(CondNum(Pr, rest, e.g[e.t])), BnFromNat(CondDen(Pr, rest)), e.q, e.e)
                  THEN "ok" ELSE "ConditionalIsUrnPredictive"
    [] e.op = "asm" ->
         IF cur = <<>> THEN "NoInstance"
         ELSE IF SeqSum(e.d) # cur.P THEN "DosageSumsToPloidy"
         ELSE IF Matches(AsmWeight(e.d, e.U, cur.fn, cur.fd), AsmNormaliser(e.d, e.U, cur.fn, cur.fd), e.q, e.e)
              THEN "ok" ELSE "AssemblePriorIsFlatDM"
    [] e.op = "end" ->
         IF cur = <<>> \/ cur.walk # 1 THEN "NoWalk"
         ELSE IF cnt # Choose(cur.K + cur.P - 1, cur.P) THEN "WalkVisitsEveryGenotype"
         ELSE IF sumq - 1000000000 > cnt \/ 1000000000 - sumq > cnt THEN "SumToOne"
         ELSE "ok"
    [] OTHER -> "UnknownEvent"

Init == l = 1 /\ cur = <<>> /\ prev = <<>> /\ cnt = 0 /\ sumq = 0 /\ bad = 0

Next ==
  /\ l <= Len(Trace)
  /\ LET e == Trace[l]
         v == Verdict(e)
     IN  /\ IF v = "ok" THEN TRUE ELSE PrintT(<<"@@J", ToJson([reject |-> l, clause |-> v])>>)
         /\ bad' = IF v = "ok" THEN bad ELSE bad + 1
         /\ cur' = IF e.op = "begin" THEN e ELSE cur
         /\ prev' = IF e.op = "begin" \/ e.op = "end" THEN <<>>
                    ELSE IF e.op = "geno" /\ cur # <<>> /\ cur.walk = 1 THEN e.g ELSE prev
         /\ cnt' = IF e.op = "begin" \/ e.op = "end" THEN 0
                   ELSE IF e.op = "geno" THEN cnt + 1 ELSE cnt
         /\ sumq' = IF e.op = "begin" \/ e.op = "end" THEN 0
                    ELSE IF e.op = "geno" /\ cur # <<>> /\ cur.walk = 1 /\ sumq < 1100000000 THEN sumq + e.q0 ELSE sumq
  /\ l' = l + 1

Spec == Init /\ [][Next]_vars
Consumed == (l = Len(Trace) + 1) => PrintT(<<"@@J", ToJson([consumed |-> l - 1, rejected |-> bad])>>)
=============================================================================
