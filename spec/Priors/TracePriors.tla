---------------------------- MODULE TracePriors ----------------------------
(* code -> spec for C05: calls of the implementation's prior functions on    *)
(* random, exactly representable parameters (F = fn/64, frequencies n_i/64)  *)
(* are recorded and validated here against the weights of PriorWeights.tla,  *)
(* recomputed in BigNat.  A recorded value is the pair (q, e) with           *)
(* q = round(p * 10^(9+e)); it is accepted iff |q Z - W 10^(9+e)| <= Z, and  *)
(* q = 0 is accepted iff W = 0.                                              *)
(*                                                                           *)
(* The trace follows the enumerator of Priors.tla: "begin" fixes an instance,*)
(* "geno" lines of a walked instance must visit the genotypes in VCF order   *)
(* (the successor of the previous line), "end" requires that every genotype  *)
(* was visited and that the recorded probabilities (q0 = round(p 10^9), one  *)
(* per line of a walk) add up to one within one unit per genotype.           *)
EXTENDS Integers, Sequences, FiniteSets, TLC, Json, IOUtils, BigNat, Genotypes, PriorWeights

Trace == JsonDeserialize(IOEnv.TRACE_FILE)

VARIABLES l,      \* next line
          cur,    \* current instance ("begin" line) or <<>>
          prev,   \* previous genotype of the walk or <<>>
          cnt,    \* genotypes visited in the walk
          sumq,   \* sum of their quantised probabilities (units of 10^-9)
          bad
vars == <<l, cur, prev, cnt, sumq, bad>>

RECURSIVE Pow10(_)
Pow10(k) == IF k = 0 THEN <<1>> ELSE BnMulSmall(Pow10(k - 1), 10)

(* |q Z - W 10^(9+e)| <= Z  and  (q = 0 <=> W = 0)                           *)
Matches(W, Z, q, e) ==
  IF W = <<>> \/ q = 0 THEN W = <<>> /\ q = 0
  ELSE LET a == BnMul(BnFromNat(q), Z)
           b == BnMul(W, Pow10(9 + e))
           d == IF BnLeq(a, b) THEN BnSub(b, a) ELSE BnSub(a, b)
       IN  BnLeq(d, Z)

Pr == [fn |-> cur.fn, fd |-> cur.fd, m |-> cur.m, n |-> cur.n]

(* the assemble prior for a number of possible haplotypes U = 2^k far beyond 32 bits (loci with 30 - 60 SNVs):  *)
(* the same weights as PriorWeights!AsmWeight / AsmNormaliser with U carried as a BigNat                        *)
RECURSIVE BnPow2(_)
BnPow2(k) == IF k = 0 THEN <<1>> ELSE BnMulSmall(BnPow2(k - 1), 2)
RECURSIVE BnRising(_, _, _)
BnRising(aB, DB, n) == IF n = 0 THEN <<1>> ELSE BnMul(BnRising(aB, DB, n - 1), BnAdd(aB, BnMulSmall(DB, n - 1)))
RECURSIVE BnRisingAll(_, _, _, _)
BnRisingAll(d, aB, DB, t) == IF t = 0 THEN <<1>> ELSE BnMul(BnRisingAll(d, aB, DB, t - 1), BnRising(aB, DB, d[t]))
RECURSIVE BnPowN(_, _)
BnPowN(b, n) == IF n = 0 THEN <<1>> ELSE BnMul(BnPowN(b, n - 1), b)
RECURSIVE PermsBigFrom(_, _, _)
PermsBigFrom(g, S, n) ==
  IF S = {} THEN <<1>>
  ELSE LET a == CHOOSE x \in S : TRUE
           c == CountOf(g, a)
       IN  BnMulSmall(PermsBigFrom(g, S \ {a}, n - c), Choose(n, c))
PermsBig(g) == PermsBigFrom(g, {g[i] : i \in 1..Len(g)}, Len(g))
RECURSIVE DosagePermsBigFrom(_, _, _)
DosagePermsBigFrom(d, t, n) ==      \* multinomial coefficient as a product of binomials (no factorial above 32 bits)
  IF t > Len(d) THEN <<1>> ELSE BnMulSmall(DosagePermsBigFrom(d, t + 1, n - d[t]), Choose(n, d[t]))
DosagePermsBig(d) == DosagePermsBigFrom(d, 1, SeqSum(d))
AsmWeightBig(d, UB, fn, fd) ==
  IF fn = 0 THEN DosagePermsBig(d)
  ELSE BnMul(BnRisingAll(d, BnFromNat(fd - fn), BnMulSmall(UB, fn), Len(d)), DosagePermsBig(d))
AsmNormaliserBig(d, UB, fn, fd) ==
  IF fn = 0 THEN BnPowN(UB, SeqSum(d))
  ELSE BnRising(BnMulSmall(UB, fd - fn), BnMulSmall(UB, fn), SeqSum(d))

WellFormedInstance(e) ==
  /\ e.P \in 1..24 /\ e.K \in 1..64
  /\ IsPriorParam([fn |-> e.fn, fd |-> e.fd, m |-> e.m, n |-> e.n], e.K)

GenotypeOK(g) == /\ Len(g) = cur.P
                 /\ \A t \in 1..Len(g) : g[t] \in 0..(cur.K - 1)
                 /\ IsSorted(g)

Verdict(e) ==
  CASE e.op = "begin" -> IF WellFormedInstance(e) THEN "ok" ELSE "WellFormedInstance"
    [] e.op = "geno" ->
         IF cur = <<>> THEN "NoInstance"
         ELSE IF ~GenotypeOK(e.g) THEN "GenotypeOK"
         ELSE IF cur.walk = 1 /\ prev = <<>> /\ e.g # [t \in 1..cur.P |-> 0] THEN "WalkStartsAtZero"
         ELSE IF cur.walk = 1 /\ prev # <<>> /\ e.g # SuccGenotype(prev) THEN "WalkIsVcfOrder"
         ELSE IF Matches(Weight(Pr, e.g), Normaliser(Pr, cur.P), e.q, e.e) THEN "ok"
         ELSE "GenotypePriorIsWOverZ"
    [] e.op = "cond" ->
         IF cur = <<>> THEN "NoInstance"
         ELSE IF ~GenotypeOK(e.g) \/ e.t \notin 1..cur.P THEN "GenotypeOK"
         ELSE LET rest == Without(e.g, e.t)
              IN  IF Matches(BnFromNat(CondNum(Pr, rest, e.g[e.t])), BnFromNat(CondDen(Pr, rest)), e.q, e.e)
                  THEN "ok" ELSE "ConditionalIsUrnPredictive"
    [] e.op = "asm" ->
         IF cur = <<>> THEN "NoInstance"
         ELSE IF SeqSum(e.d) # cur.P THEN "DosageSumsToPloidy"
         ELSE IF Matches(AsmWeight(e.d, e.U, cur.fn, cur.fd), AsmNormaliser(e.d, e.U, cur.fn, cur.fd), e.q, e.e)
              THEN "ok" ELSE "AssemblePriorIsFlatDM"
    [] e.op = "genobig" ->   \* high (pooled) ploidies: the number of orderings of the genotype as a BigNat product of binomials
         IF cur = <<>> THEN "NoInstance"
         ELSE IF ~GenotypeOK(e.g) THEN "GenotypeOK"
         ELSE IF Matches(BnMul(OrderedWeight(Pr, e.g), PermsBig(e.g)), Normaliser(Pr, cur.P), e.q, e.e) THEN "ok"
         ELSE "GenotypePriorIsWOverZHighPloidy"
    [] e.op = "asmbig" ->
         IF cur = <<>> THEN "NoInstance"
         ELSE IF SeqSum(e.d) # cur.P THEN "DosageSumsToPloidy"
         ELSE IF Matches(AsmWeightBig(e.d, BnPow2(e.Uk), cur.fn, cur.fd), AsmNormaliserBig(e.d, BnPow2(e.Uk), cur.fn, cur.fd), e.q, e.e)
              THEN "ok" ELSE "AssemblePriorIsFlatDMManySnvs"
    [] e.op = "end" ->
         IF cur = <<>> \/ cur.walk # 1 THEN "NoWalk"
         ELSE IF cnt # Choose(cur.K + cur.P - 1, cur.P) THEN "WalkVisitsEveryGenotype"
         ELSE IF sumq - 1000000000 > cnt \/ 1000000000 - sumq > cnt THEN "SumToOne"
         ELSE "ok"
    [] OTHER -> "UnknownEvent"

Init == l = 1 /\ cur = <<>> /\ prev = <<>> /\ cnt = 0 /\ sumq = 0 /\ bad = 0

Next ==
  /\ l <= Len(Trace)
  /\ LET e == Trace[l]
         v == Verdict(e)
     IN  /\ IF v = "ok" THEN TRUE ELSE PrintT(<<"@@J", ToJson([reject |-> l, clause |-> v])>>)
         /\ bad' = IF v = "ok" THEN bad ELSE bad + 1
         /\ cur' = IF e.op = "begin" THEN e ELSE cur
         /\ prev' = IF e.op = "begin" \/ e.op = "end" THEN <<>>
                    ELSE IF e.op = "geno" /\ cur # <<>> /\ cur.walk = 1 THEN e.g ELSE prev
         /\ cnt' = IF e.op = "begin" \/ e.op = "end" THEN 0
                   ELSE IF e.op = "geno" THEN cnt + 1 ELSE cnt
         /\ sumq' = IF e.op = "begin" \/ e.op = "end" THEN 0
                    ELSE IF e.op = "geno" /\ cur # <<>> /\ cur.walk = 1 /\ sumq < 1100000000 THEN sumq + e.q0 ELSE sumq
  /\ l' = l + 1

Spec == Init /\ [][Next]_vars
Consumed == (l = Len(Trace) + 1) => PrintT(<<"@@J", ToJson([consumed |-> l - 1, rejected |-> bad])>>)
=============================================================================
