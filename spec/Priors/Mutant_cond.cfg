SPECIFICATION Spec
CONSTANT Grid <- GridTiny
CONSTANT CondNum <- MutCondNum
INVARIANT ConditionalIsExact
CHECK_DEADLOCK FALSE
