SPECIFICATION Spec
CONSTANT Grid <- GridQuick
INVARIANT TypeOK
INVARIANT SumToOne
INVARIANT ZeroFreq
INVARIANT MeanDosage
INVARIANT Homozygosity
INVARIANT ConditionalIsExact
INVARIANT ConditionalSumsToOne
INVARIANT ChainRule
INVARIANT MarginalIsLowerPloidy
INVARIANT PermsCountsOrderings
INVARIANT MultinomialIsLimit
INVARIANT AssembleIsFlatCall
CONSTRAINT Dump
CHECK_DEADLOCK FALSE
