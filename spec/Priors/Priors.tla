------------------------------- MODULE Priors -------------------------------
(* C05: the genotype priors are proper distributions and mutually            *)
(* consistent.                                                               *)
(*                                                                           *)
(* One behaviour per instance (ploidy P, K alleles, inbreeding fn/fd,        *)
(* frequency vector n/m): the genotype enumerator walks every unordered      *)
(* genotype in VCF order (the same walk `call-exact` makes) and accumulates  *)
(* the exact integer weights  W(G) = Perms(G) * OrderedWeight(G)  in BigNat, *)
(* together with the first two dosage moments.  The weights come from        *)
(* PriorWeights.tla (textbook multinomial / Dirichlet-multinomial pmf).      *)
(* Every state is exported and replayed into the implementation's three      *)
(* prior functions.                                                          *)
EXTENDS Integers, Sequences, FiniteSets, TLC, Json, BigNat, Genotypes, Rational, PriorWeights

CONSTANT Grid      \* set of instances [P, K, fn, fd, m, n, flat]

(* ---- instance families (DESIGN 2.5) ------------------------------------- *)
FSet == {<<0, 1>>, <<1, 4>>, <<1, 2>>, <<3, 4>>}

RECURSIVE GcdSeq(_)
GcdSeq(s) == IF s = <<>> THEN 0 ELSE Gcd(Head(s), GcdSeq(Tail(s)))

(* frequency vectors of K entries with denominator m (zeros allowed), in     *)
(* lowest terms so that each vector occurs once over m = 1..4                *)
FreqVectors(K, m) == {n \in [1..K -> 0..m] : SeqSum(n) = m /\ GcdSeq(n) = 1}

Inst(P, K, F, m, n, flat) == [P |-> P, K |-> K, fn |-> F[1], fd |-> F[2], m |-> m, n |-> n, flat |-> flat]

FreqInstances(Ps, Ks, Ms) ==
  UNION {{Inst(P, K, F, mm, n, FALSE) : P \in Ps, F \in FSet, n \in FreqVectors(K, mm)} : K \in Ks, mm \in Ms}

(* flat priors over U possible haplotypes (what assemble uses; call with      *)
(* frequencies = None)                                                       *)
FlatInstances(Ps, Us) ==
  {Inst(P, U, F, U, [i \in 1..U |-> 1], TRUE) : P \in Ps, U \in Us, F \in FSet}

GridQuick == FreqInstances(1..4, 1..4, 1..4) \cup FreqInstances({5, 6}, 1..3, 1..4)
             \cup FlatInstances(1..4, {2, 3, 4, 6, 8, 9, 12}) \cup FlatInstances({5, 6}, {2, 3, 4, 6})
GridThorough == FreqInstances(1..6, 1..4, 1..4) \cup FreqInstances({7, 8}, 1..3, 1..4)
                \cup FreqInstances(1..4, {5}, {1, 2, 4})
                \cup FlatInstances(1..4, {2, 3, 4, 6, 8, 9, 12, 16}) \cup FlatInstances({5, 6}, {2, 3, 4, 6, 8, 12})
                \cup FlatInstances({8}, {2, 3, 4})
GridTiny == FreqInstances(1..3, 1..3, 1..4) \cup FlatInstances(1..3, {2, 3, 4})

VARIABLES inst,    \* the instance (constant along a behaviour)
          g,       \* current genotype: sorted tuple of alleles 0..K-1
          idx,     \* its position in VCF order
          w,       \* W(g), BigNat
          z,       \* Z, BigNat (constant along a behaviour)
          acc,     \* sum of W over the genotypes visited so far
          accPos,  \* ... over those made of positive-frequency alleles only
          mom1,    \* per allele i: sum of W(G) * d_i(G)
          mom2     \* per allele i: sum of W(G) * d_i(G) * (d_i(G) - 1)
vars == <<inst, g, idx, w, z, acc, accPos, mom1, mom2>>

Param(i) == [fn |-> i.fn, fd |-> i.fd, m |-> i.m, n |-> i.n]
Pr == Param(inst)
Total(i) == Choose(i.K + i.P - 1, i.P)
Last == idx + 1 = Total(inst)
AllPositive(i, gg) == \A t \in 1..Len(gg) : i.n[gg[t] + 1] > 0

Mom1Term(ww, gg, a) == BnMulSmall(ww, CountOf(gg, a))
Mom2Term(ww, gg, a) == BnMulSmall(ww, CountOf(gg, a) * (CountOf(gg, a) - 1))

Init ==
  /\ inst \in Grid
  /\ g = [t \in 1..inst.P |-> 0]
  /\ idx = 0
  /\ w = Weight(Param(inst), g)
  /\ z = Normaliser(Param(inst), inst.P)
  /\ acc = w
  /\ accPos = IF AllPositive(inst, g) THEN w ELSE <<>>
  /\ mom1 = [a \in 1..inst.K |-> Mom1Term(w, g, a - 1)]
  /\ mom2 = [a \in 1..inst.K |-> Mom2Term(w, g, a - 1)]

(* the enumerator step: next genotype in VCF order, weights accumulated      *)
Step ==
  /\ ~Last
  /\ LET g2 == SuccGenotype(g)
         w2 == Weight(Pr, g2)
     IN  /\ g' = g2
         /\ w' = w2
         /\ acc' = BnAdd(acc, w2)
         /\ accPos' = IF AllPositive(inst, g2) THEN BnAdd(accPos, w2) ELSE accPos
         /\ mom1' = TLCEval([a \in 1..inst.K |-> BnAdd(mom1[a], Mom1Term(w2, g2, a - 1))])
         /\ mom2' = TLCEval([a \in 1..inst.K |-> BnAdd(mom2[a], Mom2Term(w2, g2, a - 1))])
  /\ idx' = idx + 1
  /\ UNCHANGED <<inst, z>>

Next == Step
Spec == Init /\ [][Next]_vars

(* ---- invariants --------------------------------------------------------- *)
TypeOK ==
  /\ IsPriorParam(Pr, inst.K)
  /\ Len(g) = inst.P /\ IsSorted(g) /\ \A t \in 1..inst.P : g[t] \in 0..(inst.K - 1)
  /\ idx = Rank(g)
  /\ AlphaSum(Pr) = SeqSum([a \in 1..inst.K |-> AlphaNum(Pr, a - 1)])

(* the prior is proper: the weights of all unordered genotypes add up to Z   *)
SumToOne == /\ BnLeq(acc, z)
            /\ Last => acc = z
            /\ z # <<>>

(* zero-frequency alleles: exactly the genotypes containing one have weight  *)
(* zero, and the others alone still carry the whole mass                     *)
ZeroFreq == /\ (w = <<>>) <=> ~AllPositive(inst, g)
            /\ Last => accPos = z

(* it is THE (Dirichlet-)multinomial with mean frequency f: E[d_i] = P f_i   *)
MeanDosage ==
  Last => \A a \in 1..inst.K :
            BnMulSmall(mom1[a], inst.m) = BnMulSmall(z, inst.P * inst.n[a])

(* ... and with dispersion f (1-F)/F, i.e. F is the probability that two     *)
(* alleles of the genotype are identical by descent:                         *)
(*   E[d_i (d_i - 1)] = P (P-1) f_i (F + (1-F) f_i)                          *)
Homozygosity ==
  Last => \A a \in 1..inst.K :
            BnMulSmall(mom2[a], inst.m * inst.m * inst.fd)
            = BnMulSmall(z, inst.P * (inst.P - 1) * inst.n[a]
                             * (inst.fn * inst.m + (inst.fd - inst.fn) * inst.n[a]))

(* positions that matter: one per distinct allele of g                       *)
FirstPositions == {t \in 1..inst.P : \A s \in 1..(t - 1) : g[s] # g[t]}

(* the single-allele conditional is the exact conditional of the ordered     *)
(* target W/Perms:  C(b | rest) * sum_b' OW(rest + b') = OW(rest + b)        *)
ConditionalIsExact ==
  \A t \in FirstPositions :
    LET rest == Without(g, t)
        ow   == [b \in 0..(inst.K - 1) |-> OrderedWeight(Pr, Insert(rest, b))]
        den  == CondDen(Pr, rest)
        RECURSIVE SumOW(_)
        SumOW(b) == IF b < 0 THEN <<>> ELSE BnAdd(ow[b], SumOW(b - 1))
        tot  == SumOW(inst.K - 1)
    IN  \A b \in 0..(inst.K - 1) :
          BnMulSmall(tot, CondNum(Pr, rest, b)) = BnMulSmall(ow[b], den)

ConditionalSumsToOne ==
  \A t \in FirstPositions :
    LET rest == Without(g, t)
    IN  /\ SeqSum([b \in 1..inst.K |-> CondNum(Pr, rest, b - 1)]) = CondDen(Pr, rest)
        /\ RSum([b \in 1..inst.K |-> RMake(CondNum(Pr, rest, b - 1), CondDen(Pr, rest))]) = ROne

(* chain rule / exchangeability: drawing the alleles one at a time with the  *)
(* conditional, in ascending or descending order, gives the ordered weight   *)
Prefix(s, k) == [t \in 1..k |-> s[t]]
Reverse(s) == [t \in 1..Len(s) |-> s[Len(s) + 1 - t]]
UrnNum(s) == [t \in 1..Len(s) |-> CondNum(Pr, Prefix(s, t - 1), s[t])]
UrnDen(s) == [t \in 1..Len(s) |-> CondDen(Pr, Prefix(s, t - 1))]
ChainRule ==
  LET ow == OrderedWeight(Pr, g)
  IN  /\ BnProd(UrnNum(g)) = ow
      /\ BnProd(UrnNum(Reverse(g))) = ow
      /\ BnProd(UrnDen(g)) = z

(* marginalising one allele gives the prior of ploidy P-1                    *)
MarginalIsLowerPloidy ==
  inst.P > 1 =>
  \A t \in FirstPositions :
    LET rest == Without(g, t)
        RECURSIVE SumOW(_)
        SumOW(b) == IF b < 0 THEN <<>> ELSE BnAdd(OrderedWeight(Pr, Insert(rest, b)), SumOW(b - 1))
    IN  BnMul(SumOW(inst.K - 1), Normaliser(Pr, inst.P - 1)) = BnMul(OrderedWeight(Pr, rest), z)

(* Perms(g) really is the number of orderings of g (small instances)         *)
PermsCountsOrderings ==
  (inst.P <= 4 /\ inst.K <= 3) =>
    Perms(g) = Cardinality({s \in [1..inst.P -> 0..(inst.K - 1)] :
                              \A a \in 0..(inst.K - 1) : CountOf(s, a) = CountOf(g, a)})

(* F = 0 is the urn without reinforcement: both definitions coincide         *)
MultinomialIsLimit ==
  inst.fn = 0 => /\ BnProd(DMFactors(Pr, g)) = BnMulSmall(BnProd(MultinomialFactors(Pr, g)), inst.fd ^ inst.P)
                 /\ \A t \in FirstPositions :
                      RMake(CondNum(Pr, Without(g, t), g[t]), CondDen(Pr, Without(g, t))) = RMake(inst.n[g[t] + 1], inst.m)

(* the assemble prior (flat dispersion over U haplotypes, dosage argument)   *)
(* is the call prior with K = U flat frequencies                             *)
AssembleIsFlatCall ==
  inst.flat => LET d == FirstOccDosage(g)
               IN  /\ AsmWeight(d, inst.K, inst.fn, inst.fd) = w
                   /\ AsmNormaliser(d, inst.K, inst.fn, inst.fd) = z

(* ---- export -------------------------------------------------------------- *)
CondTable == [t \in 1..inst.P |->
                LET rest == Without(g, t)
                IN  <<CondNum(Pr, rest, g[t]), CondDen(Pr, rest),
                      IF AllPositive(inst, rest) THEN 1 ELSE 0>>]

Dump == PrintT(<<"@@J", ToJson([P |-> inst.P, K |-> inst.K, fn |-> inst.fn, fd |-> inst.fd, m |-> inst.m,
                                n |-> inst.n, flat |-> inst.flat, g |-> g, idx |-> idx, last |-> Last,
                                perms |-> Perms(g), of |-> OrderedFactors(Pr, g), zf |-> ZFactors(Pr, inst.P),
                                w |-> w, z |-> z, cond |-> CondTable, dosage |-> FirstOccDosage(g)])>>)

(* ---- wrong definitions, substituted by the Mutant_*.cfg ------------------ *)
MutCondNum(pr, rest, b) == AlphaNum(pr, b) + (CountOf(rest, b) + 1) * AlphaDen(pr)       \* constant_ibs + 1
MutWeight(pr, gg) == OrderedWeight(pr, gg)                                               \* permutation count dropped
MutAlphaSum(pr) == (pr.fd - pr.fn) * SeqSum([i \in 1..Len(pr.n) |-> IF pr.n[i] > 0 THEN pr.n[i] ELSE 1])  \* sum over unmasked entries
MutAsmZFactors(d, U, fn, fd) ==                                                           \* alpha = 1/(U-1) ...
  IF fn = 0 THEN [t \in 1..SeqSum(d) |-> U] ELSE RisingFactors((U - 1) * (fd - fn), U * fn, SeqSum(d))
=============================================================================
