SPECIFICATION Spec
CONSTANT Grid <- GridTiny
CONSTANT AsmZFactors <- MutAsmZFactors
INVARIANT AssembleIsFlatCall
CHECK_DEADLOCK FALSE
