SPECIFICATION Spec
CONSTANT Grid <- GridTiny
CONSTANT AlphaSum <- MutAlphaSum
INVARIANT SumToOne
CHECK_DEADLOCK FALSE
