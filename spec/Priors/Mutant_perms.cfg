SPECIFICATION Spec
CONSTANT Grid <- GridTiny
CONSTANT Weight <- MutWeight
INVARIANT SumToOne
CHECK_DEADLOCK FALSE
