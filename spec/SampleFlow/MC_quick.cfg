SPECIFICATION Spec
CONSTANT MaxLen = 2
CONSTANT Mutation = "none"
INVARIANT TypeOK
INVARIANT ColumnIndependent
INVARIANT AssembleMonotone
INVARIANT PoolIsUnion
INVARIANT StorageIndependent
INVARIANT UnitReadsAreUnion
INVARIANT OrderPermutesColumns
CONSTRAINT Dump
CHECK_DEADLOCK FALSE
