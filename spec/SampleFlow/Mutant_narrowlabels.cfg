SPECIFICATION Spec
CONSTANT MaxLen = 2
CONSTANT Mutation = "narrow_allele_numbers"
INVARIANT TypeOK
INVARIANT ColumnIndependent
INVARIANT AssembleMonotone
INVARIANT PoolIsUnion
INVARIANT StorageIndependent
INVARIANT OrderPermutesColumns
CHECK_DEADLOCK FALSE
