--------------------------- MODULE TraceSampleFlow ---------------------------
(* code -> spec for C10.  Every configuration (sequence of units = pools /   *)
(* plain samples / physically merged samples) was executed for real; a run   *)
(* is logged as                                                              *)
(*   [prog, group, units : Seq([m : Seq(Int), merged : BOOLEAN]),            *)
(*    layout : STRING   (where the base samples' alignments are stored:      *)
(*                       "sep" one file per sample, "one" / ... several      *)
(*                       samples in one multi-sample file),                  *)
(*    names, expected : Seq(STRING)   (emitted / expected column names),     *)
(*    loci : Seq([id, alts : Seq(STRING),                                    *)
(*                cols : Seq([stats : Seq(Val), seqs : Seq(STRING),          *)
(*                            byseq : Seq([seq, v : Seq(Val)])])])]          *)
(* TLC visits every ordered pair (i, j) of runs of the same program and      *)
(* group, decides from the two configurations which relations the model      *)
(* (SampleFlow.tla) predicts, evaluates them on the logged columns and gives *)
(* the pair a verdict naming the failing clauses.                            *)
EXTENDS Integers, Sequences, FiniteSets, TLC, Json, IOUtils, FlowRelations

Trace == JsonDeserialize(IOEnv.TRACE_FILE)
Runs == Trace.runs
N == Len(Runs)

VARIABLES ri, rj, bad, related
vars == <<ri, rj, bad, related>>

Abs(x) == IF x < 0 THEN 0 - x ELSE x
Range(s) == {s[x] : x \in 1..Len(s)}
SameContent(u, v) == u.m = v.m
ContentSubset(a, b) == \A x \in 1..Len(a) : \E y \in 1..Len(b) : SameContent(a[x], b[y])

(* numeric text tokens: [k, m, d] as in VcfRecord.tla                        *)
IsNum(v) == v.k \in {"int", "dec"}
Micro(v) == IF v.k = "int" THEN (IF Abs(v.m) < 2000 THEN v.m * 1000000 ELSE 2000000000) ELSE v.m
(* exact: same token; tolerant (pool vs physically merged reads: the order in *)
(* which equal reads are summed differs): one unit of the last printed place  *)
SameVal(a, b, tolerant) ==
  \/ a = b
  \/ tolerant /\ IsNum(a) /\ IsNum(b) /\ Abs(Micro(a) - Micro(b)) <= 1001 /\ (a.k = "int" /\ b.k = "int" => a.m = b.m)
SameVals(a, b, tolerant) == Len(a) = Len(b) /\ \A x \in 1..Len(a) : SameVal(a[x], b[x], tolerant)

Comparable(A, B) == A.prog = B.prog /\ A.group = B.group /\ ContentSubset(A.units, B.units)

(* pairs of (unit index in A, unit index in B) with the same content          *)
Shared(A, B) == {<<x, y>> \in (1..Len(A.units)) \X (1..Len(B.units)) : SameContent(A.units[x], B.units[y])}
(* the same content from different inputs: a pool against the physically merged sample, *)
(* or the same (pool of) base samples read from differently laid out alignment files    *)
CrossMerged(A, B, p) == A.units[p[1]].merged # B.units[p[2]].merged
CrossStorage(A, B, p) == ~CrossMerged(A, B, p) /\ ~A.units[p[1]].merged /\ A.layout # B.layout
Tolerant(A, B, p) == CrossMerged(A, B, p) \/ CrossStorage(A, B, p)
SameLoci(A, B) == Len(A.loci) = Len(B.loci) /\ \A l \in 1..Len(A.loci) : A.loci[l].id = B.loci[l].id

(* ---- the clauses -------------------------------------------------------------- *)
(* call / call-exact: the whole column is identical                                 *)
ColumnIndependent(A, B) ==
  A.prog \in {"call", "call-exact"} =>
    \A l \in 1..Len(A.loci) : \A p \in Shared(A, B) :
      ~Tolerant(A, B, p) =>
        /\ SameVals(A.loci[l].cols[p[1]].stats, B.loci[l].cols[p[2]].stats, FALSE)
        /\ A.loci[l].cols[p[1]].seqs = B.loci[l].cols[p[2]].seqs
(* assemble: call statistics identical, named alleles can only be gained            *)
AssembleStats(A, B) ==
  A.prog = "assemble" =>
    \A l \in 1..Len(A.loci) : \A p \in Shared(A, B) :
      ~Tolerant(A, B, p) => SameVals(A.loci[l].cols[p[1]].stats, B.loci[l].cols[p[2]].stats, FALSE)
AssembleMonotone(A, B) ==
  A.prog = "assemble" =>
    \A l \in 1..Len(A.loci) : \A p \in Shared(A, B) :
      MonotoneSeqs(A.loci[l].cols[p[1]].seqs, B.loci[l].cols[p[2]].seqs)
(* assemble: posterior allele frequencies of a haplotype listed in both runs agree   *)
PerSequenceValues(A, B) ==
  A.prog = "assemble" =>
    \A l \in 1..Len(A.loci) : \A p \in Shared(A, B) :
      LET a == A.loci[l].cols[p[1]].byseq
          b == B.loci[l].cols[p[2]].byseq
      IN  \A x \in 1..Len(a) : \A y \in 1..Len(b) :
            a[x].seq = b[y].seq => SameVals(a[x].v, b[y].v, Tolerant(A, B, p))
(* a pool equals the sample that physically holds the union of its reads            *)
PoolIsUnion(A, B) ==
  \A l \in 1..Len(A.loci) : \A p \in Shared(A, B) :
    CrossMerged(A, B, p) =>
      /\ SameVals(A.loci[l].cols[p[1]].stats, B.loci[l].cols[p[2]].stats, TRUE)
      /\ (A.prog # "assemble" => A.loci[l].cols[p[1]].seqs = B.loci[l].cols[p[2]].seqs)
(* ... wherever the members' alignments are stored: the same unit read from one file  *)
(* per sample and from a file shared by several samples gives the same column         *)
StorageIndependent(A, B) ==
  \A l \in 1..Len(A.loci) : \A p \in Shared(A, B) :
    CrossStorage(A, B, p) =>
      /\ SameVals(A.loci[l].cols[p[1]].stats, B.loci[l].cols[p[2]].stats, TRUE)
      /\ (A.prog # "assemble" => A.loci[l].cols[p[1]].seqs = B.loci[l].cols[p[2]].seqs)
(* the same units in another order: same columns (covered above), same ALT set       *)
OrderPermutes(A, B) ==
  ContentSubset(B.units, A.units) =>
    /\ Len(A.units) = Len(B.units)
    /\ \A l \in 1..Len(A.loci) :
         /\ Range(A.loci[l].alts) = Range(B.loci[l].alts)
         /\ A.prog # "assemble" => A.loci[l].alts = B.loci[l].alts
         /\ \A p \in Shared(A, B) : SameSeqBag(A.loci[l].cols[p[1]].seqs, B.loci[l].cols[p[2]].seqs)
(* the emitted columns are exactly the units of the configuration, each once ("only  *)
(* permutes the sample columns": the order itself is not prescribed)                 *)
ColumnsArePermutation(A) ==
  /\ Len(A.names) = Len(A.expected)
  /\ Range(A.names) = Range(A.expected)
  /\ \A x, y \in 1..Len(A.names) : A.names[x] = A.names[y] => x = y

ClauseNames == <<"SameLoci", "PoolIsUnion", "StorageIndependent", "ColumnIndependent", "AssembleStats", "AssembleMonotone",
                 "PerSequenceValues", "OrderPermutes">>
Holds(c, A, B) ==
  CASE c = "SameLoci" -> SameLoci(A, B)
    [] c = "ColumnIndependent" -> ColumnIndependent(A, B)
    [] c = "AssembleStats" -> AssembleStats(A, B)
    [] c = "AssembleMonotone" -> AssembleMonotone(A, B)
    [] c = "PerSequenceValues" -> PerSequenceValues(A, B)
    [] c = "PoolIsUnion" -> PoolIsUnion(A, B)
    [] c = "StorageIndependent" -> StorageIndependent(A, B)
    [] c = "OrderPermutes" -> OrderPermutes(A, B)
Failing(A, B) ==
  IF ~SameLoci(A, B) THEN <<"SameLoci">>
  ELSE SelectSeq(ClauseNames, LAMBDA c : ~Holds(c, A, B))

Init == ri = 1 /\ rj = 1 /\ bad = 0 /\ related = 0
Next ==
  /\ ri <= N
  /\ LET A == Runs[ri]
         B == Runs[rj]
         f == IF ri = rj THEN (IF ColumnsArePermutation(A) THEN <<>> ELSE <<"ColumnsArePermutation">>)
              ELSE IF Comparable(A, B) THEN Failing(A, B) ELSE <<>>
     IN  /\ IF f = <<>> THEN TRUE ELSE PrintT(<<"@@J", ToJson([reject |-> <<ri, rj>>, clause |-> f])>>)
         /\ bad' = IF f = <<>> THEN bad ELSE bad + 1
         /\ related' = IF ri # rj /\ Comparable(A, B) THEN related + 1 ELSE related
  /\ IF rj < N THEN rj' = rj + 1 /\ ri' = ri ELSE rj' = 1 /\ ri' = ri + 1
Spec == Init /\ [][Next]_vars
Consumed == (ri = N + 1) => PrintT(<<"@@J", ToJson([consumed |-> N * N, related |-> related, rejected |-> bad])>>)
=============================================================================
