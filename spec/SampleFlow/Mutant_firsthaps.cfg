SPECIFICATION Spec
CONSTANT MaxLen = 2
CONSTANT Mutation = "first_sample_only"
INVARIANT TypeOK
INVARIANT ColumnIndependent
INVARIANT AssembleMonotone
INVARIANT PoolIsUnion
INVARIANT StorageIndependent
INVARIANT OrderPermutesColumns
CHECK_DEADLOCK FALSE
