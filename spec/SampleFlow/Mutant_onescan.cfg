SPECIFICATION Spec
CONSTANT MaxLen = 2
CONSTANT Mutation = "scan_each_file_once"
INVARIANT TypeOK
INVARIANT ColumnIndependent
INVARIANT AssembleMonotone
INVARIANT PoolIsUnion
INVARIANT StorageIndependent
INVARIANT OrderPermutesColumns
CHECK_DEADLOCK FALSE
