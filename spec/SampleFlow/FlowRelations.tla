--------------------------- MODULE FlowRelations ---------------------------
(* C10: the relations between the columns of one unit in two runs, shared by  *)
(* the model (SampleFlow.tla) and the trace validator (TraceSampleFlow.tla).  *)
(* A genotype is a sequence of allele *sequences* (haplotype strings, or ids  *)
(* in the model) with "." for an unknown allele.                               *)
EXTENDS Integers, Sequences, FiniteSets

(* `named` part of a sequence list as a bag: kind -> multiplicity                      *)
CountSeq(seqs, x) == Cardinality({i \in 1..Len(seqs) : seqs[i] = x})
Named(seqs) == {seqs[i] : i \in {j \in 1..Len(seqs) : seqs[j] # "."}}
(* "other samples can only turn unknown alleles into named alleles":                   *)
(*  every named allele of the smaller run is named (same sequence, same multiplicity or *)
(*  more) in the larger one, the lengths agree, and no "." appears that was named        *)
MonotoneSeqs(small, large) ==
  /\ Len(small) = Len(large)
  /\ \A x \in Named(small) : CountSeq(large, x) >= CountSeq(small, x)
  /\ CountSeq(large, ".") <= CountSeq(small, ".")
SameSeqBag(a, b) == MonotoneSeqs(a, b) /\ MonotoneSeqs(b, a)
=============================================================================
