SPECIFICATION Spec
CONSTANT MaxLen = 2
CONSTANT Mutation = "dedup_before_pooling"
INVARIANT TypeOK
INVARIANT ColumnIndependent
INVARIANT AssembleMonotone
INVARIANT PoolIsUnion
INVARIANT StorageIndependent
INVARIANT OrderPermutesColumns
CHECK_DEADLOCK FALSE
