SPECIFICATION Spec
CONSTANT MaxLen = 2
CONSTANT Mutation = "dedup_before_pooling"
INVARIANT TypeOK
INVARIANT ColumnIndependent
INVARIANT AssembleMonotone
INVARIANT PoolIsUnion
INVARIANT OrderPermutesColumns
CHECK_DEADLOCK FALSE
