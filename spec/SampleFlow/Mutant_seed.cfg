SPECIFICATION Spec
CONSTANT MaxLen = 2
CONSTANT Mutation = "seed_once_per_locus"
INVARIANT TypeOK
INVARIANT ColumnIndependent
INVARIANT AssembleMonotone
INVARIANT PoolIsUnion
INVARIANT StorageIndependent
INVARIANT OrderPermutesColumns
CHECK_DEADLOCK FALSE
