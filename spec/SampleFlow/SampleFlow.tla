----------------------------- MODULE SampleFlow -----------------------------
(* C10: samples are called independently; a pool is the union of its reads.  *)
(*                                                                           *)
(* The per-locus data flow of one program run with every piece of shared     *)
(* state explicit: the random generator `rng`, the encoded reads of the unit *)
(* under work, the population haplotype list `haps` (assemble) and the       *)
(* allele labels.  A *unit* is one output column: a pool of base samples     *)
(* (a plain sample is the pool of itself) or a physically merged sample      *)
(* whose alignments are the union of the alignments of its members.          *)
(*                                                                           *)
(*   Encode(u) : reads = bag union over the (member, file) pairs of the unit  *)
(*               of the member's reads in that file (a file may hold several *)
(*               samples: layouts "sep" / "one"), then de-duplicated into    *)
(*               (distinct read, count)                                      *)
(*   Call(u)   : rng is re-seeded; posterior[u] = F(reads, ploidy, rng);     *)
(*               the fit consumes randomness                                 *)
(*   UnionHaps : (assemble) haps = union over units of the haplotypes whose  *)
(*               posterior support passes the threshold, by summed dosage    *)
(*   Label(u)  : the mode genotype written through the labels (allele        *)
(*               NUMBERS in the run-wide list, unbounded), "." for           *)
(*               haplotypes that are not in the list                         *)
(*                                                                           *)
(* F is uninterpreted: a posterior is the term [bag, ploidy, rng at start],  *)
(* so equality of columns is equality of everything the computation could    *)
(* depend on.  TLC enumerates every pair of runs (A, B) whose unit contents  *)
(* satisfy A \subseteq B (subsets, orders, pool maps incl. a sample in two   *)
(* pools, pool vs merged sample, each run in either file layout) and checks  *)
(* the relations the property states on the two-run product.                 *)
EXTENDS Integers, Sequences, FiniteSets, TLC, Json, FlowRelations

CONSTANTS MaxLen,        \* maximal number of units (columns) in a run
          Mutation       \* "none" or the name of a wrong definition (binding demonstration)

Base == {1, 2, 3}
Kinds == <<"a", "b", "c", "d">>            \* distinct encoded reads
BaseBag(i) ==
  CASE i = 1 -> [a |-> 3, b |-> 1, c |-> 0, d |-> 1]
    [] i = 2 -> [a |-> 0, b |-> 3, c |-> 1, d |-> 0]
    [] i = 3 -> [a |-> 1, b |-> 0, c |-> 3, d |-> 1]
KindSet == {Kinds[i] : i \in 1..Len(Kinds)}

RECURSIVE SumF(_, _)
SumF(f, S) == IF S = {} THEN 0 ELSE LET x == CHOOSE y \in S : TRUE IN f[x] + SumF(f, S \ {x})

(* units: every non-empty pool of base samples, and merged samples for |m| >= 2 *)
Pools == {[m |-> S, merged |-> FALSE] : S \in (SUBSET Base) \ {{}}}
Merged == {[m |-> S, merged |-> TRUE] : S \in {{1, 3}, {1, 2, 3}}}
Units == Pools \cup Merged
PloidyOf(u) == 2 * Cardinality(u.m)

(* ---- where the alignments are stored ------------------------------------------- *)
(* An alignment file holds reads tagged (through their read group) with a sample     *)
(* name; one file may hold several samples.  A layout says in which file the reads   *)
(* of each base sample live: "sep" one file per sample, "one" all base samples in    *)
(* one multi-sample file.  A pool is a list of (member, file) pairs; the reads of a  *)
(* pair are the reads OF THAT MEMBER in that file.  A merged sample always has its   *)
(* own file (its alignments are the union of the alignments of its members).         *)
Layouts == {"sep", "one"}
FileOf(i, lay) == IF lay = "one" THEN 0 ELSE i
FileBag(f, lay) == [i \in Base |-> [h \in KindSet |-> IF FileOf(i, lay) = f THEN BaseBag(i)[h] ELSE 0]]
Extract(f, i, lay) == FileBag(f, lay)[i]                  \* the reads of sample i in file f
MaxOf(S) == CHOOSE x \in S : \A y \in S : y <= x

(* the reads a unit is made of: members' reads concatenated, THEN de-duplicated *)
PooledBag(u, lay) ==
  IF u.merged
  THEN [h \in KindSet |-> SumF([i \in u.m |-> BaseBag(i)[h]], u.m)]
  ELSE IF Mutation = "dedup_before_pooling"
  THEN [h \in KindSet |-> Cardinality({i \in u.m : Extract(FileOf(i, lay), i, lay)[h] > 0})]
  ELSE IF Mutation = "scan_each_file_once"
  THEN \* the (member, file) pairs collapsed into file -> member: the last member of a file wins
       LET files == {FileOf(i, lay) : i \in u.m}
           member == [f \in files |-> MaxOf({i \in u.m : FileOf(i, lay) = f})]
       IN  [h \in KindSet |-> SumF([f \in files |-> Extract(f, member[f], lay)[h]], files)]
  ELSE [h \in KindSet |-> SumF([i \in u.m |-> Extract(FileOf(i, lay), i, lay)[h]], u.m)]

(* runs: sequences of distinct units; two units of a run never have equal content *)
SameContent(u, v) == u.m = v.m
RECURSIVE SeqsOver(_, _)
SeqsOver(S, n) ==
  IF n = 0 THEN {<<>>}
  ELSE LET shorter == SeqsOver(S, n - 1)
       IN  shorter \cup {Append(s, u) : s \in {t \in shorter : Len(t) = n - 1},
                                        u \in S}
Distinct(s) == \A i, j \in 1..Len(s) : i # j => ~SameContent(s[i], s[j])
Runs == {s \in SeqsOver(Units, MaxLen) : Len(s) >= 1 /\ Distinct(s)}
ContentSubset(a, b) == \A i \in 1..Len(a) : \E j \in 1..Len(b) : SameContent(a[i], b[j])

NarrowMax == 1     \* (binding demonstration only) the largest number the narrow type holds
Seed == <<"seed">>
Adv(r, bag) == <<"adv", r, bag>>                \* the fit consumed randomness

(* arbitrary but fixed functions of a posterior (F is uninterpreted):            *)
(* the mode genotype and the haplotypes whose support passes the threshold       *)
Present(bag) == SelectSeq(Kinds, LAMBDA h : bag[h] > 0)
ModeOf(post) == LET pr == Present(post.bag) IN [i \in 1..post.ploidy |-> pr[((i - 1) % Len(pr)) + 1]]
SupportedOf(post) == {h \in KindSet : post.bag[h] >= 3}
DosageOf(post, h) == Cardinality({i \in 1..post.ploidy : ModeOf(post)[i] = h})

VARIABLES prog, cfgA, cfgB, layA, layB, which, pc, ix, rng, reads, posts, haps, cols, outA, outB
vars == <<prog, cfgA, cfgB, layA, layB, which, pc, ix, rng, reads, posts, haps, cols, outA, outB>>

Cfg == IF which = "A" THEN cfgA ELSE cfgB
Lay == IF which = "A" THEN layA ELSE layB

Init ==
  /\ prog \in {"call", "assemble"}
  /\ \E a \in Runs : \E b \in Runs : ContentSubset(a, b) /\ cfgA = a /\ cfgB = b
  /\ layA \in Layouts /\ layB \in Layouts
  /\ which = "A" /\ pc = "encode" /\ ix = 1
  /\ rng = Seed /\ reads = <<>> /\ posts = <<>> /\ haps = <<>> /\ cols = <<>>
  /\ outA = <<>> /\ outB = <<>>

Encode ==
  /\ which \in {"A", "B"} /\ pc = "encode"
  /\ reads' = PooledBag(Cfg[ix], Lay)
  /\ pc' = "call"
  /\ UNCHANGED <<prog, cfgA, cfgB, layA, layB, which, ix, rng, posts, haps, cols, outA, outB>>

Call ==
  /\ which \in {"A", "B"} /\ pc = "call"
  /\ LET r0 == IF Mutation = "seed_once_per_locus" THEN rng ELSE Seed     \* re-seeded per sample fit
         post == [bag |-> reads, ploidy |-> PloidyOf(Cfg[ix]), rng0 |-> r0]
     IN  /\ posts' = Append(posts, post)
         /\ rng' = Adv(r0, reads)
  /\ IF ix < Len(Cfg) THEN ix' = ix + 1 /\ pc' = "encode" ELSE ix' = 1 /\ pc' = "union"
  /\ UNCHANGED <<prog, cfgA, cfgB, layA, layB, which, reads, haps, cols, outA, outB>>

(* population haplotype list: reference first, then by summed dosage (ties: first seen) *)
RECURSIVE OrderBy(_, _)
KindIndex(h) == CHOOSE i \in 1..Len(Kinds) : Kinds[i] = h
OrderBy(S, w) ==       \* w : function S -> Nat
  IF S = {} THEN <<>>
  ELSE LET best == CHOOSE x \in S : \A y \in S : w[x] > w[y] \/ (w[x] = w[y] /\ KindIndex(x) <= KindIndex(y))
       IN  <<best>> \o OrderBy(S \ {best}, w)
UnionHaps ==
  /\ which \in {"A", "B"} /\ pc = "union"
  /\ haps' = IF prog = "call" THEN Kinds          \* the haplotype list is an input of the call programs
             ELSE LET from == IF Mutation = "first_sample_only" THEN {1} ELSE 1..Len(posts)
                      called == UNION {SupportedOf(posts[i]) : i \in from}
                  IN  OrderBy(called, [h \in called |-> SumF([i \in 1..Len(posts) |-> DosageOf(posts[i], h)], 1..Len(posts))])
  /\ pc' = "label"
  /\ UNCHANGED <<prog, cfgA, cfgB, layA, layB, which, ix, rng, reads, posts, cols, outA, outB>>

(* labels: a haplotype of the list is written as its allele NUMBER (its position in the *)
(* list, which is built from ALL units of the run) and read back as the sequence with    *)
(* that number; "." (number -1) for haplotypes that are not in the list.  The number is  *)
(* an unbounded integer: a list of any length must be addressable.                       *)
InList(h, list) == \E i \in 1..Len(list) : list[i] = h
NumberOf(h, list) == IF InList(h, list) THEN CHOOSE i \in 1..Len(list) : list[i] = h ELSE 0 - 1
Stored(n) ==       \* the wrong definition: a number kept in a type that holds NarrowMax at most
  IF Mutation = "narrow_allele_numbers" /\ n > NarrowMax THEN n - 2 * (NarrowMax + 1) ELSE n
SeqOfNumber(n, list) == IF n < 1 THEN "." ELSE list[n]
Label ==
  /\ which \in {"A", "B"} /\ pc = "label"
  /\ LET post == posts[ix]
         mode == ModeOf(post)
         col == [unit |-> Cfg[ix], stats |-> post,
                 seqs |-> [i \in 1..Len(mode) |-> SeqOfNumber(Stored(NumberOf(mode[i], haps)), haps)]]
         newcols == Append(cols, col)
     IN  IF ix < Len(Cfg)
         THEN /\ cols' = newcols /\ ix' = ix + 1
              /\ UNCHANGED <<which, pc, outA, outB, rng, reads, posts, haps>>
         ELSE IF which = "A"
              THEN /\ outA' = [cols |-> newcols, alts |-> haps] /\ outB' = outB
                   /\ which' = "B" /\ pc' = "encode" /\ ix' = 1
                   /\ rng' = Seed /\ reads' = <<>> /\ posts' = <<>> /\ haps' = <<>> /\ cols' = <<>>
              ELSE /\ outB' = [cols |-> newcols, alts |-> haps] /\ outA' = outA
                   /\ which' = "done" /\ pc' = "end" /\ ix' = 1 /\ cols' = <<>>
                   /\ UNCHANGED <<rng, reads, posts, haps>>
  /\ UNCHANGED <<prog, cfgA, cfgB, layA, layB>>

Next == Encode \/ Call \/ UnionHaps \/ Label
Spec == Init /\ [][Next]_vars

(* ---- relations between two runs (shared with TraceSampleFlow.tla) ------------------ *)
Done == which = "done"
ColsOf(out) == out.cols
(* call / call-exact: the column of a unit does not depend on the other units, their order, *)
(* or on whether its reads come from a pool or from a physically merged sample            *)
ColumnIndependent ==
  (Done /\ prog = "call") =>
    \A i \in 1..Len(outA.cols) : \A j \in 1..Len(outB.cols) :
      SameContent(outA.cols[i].unit, outB.cols[j].unit) =>
        /\ outA.cols[i].stats = outB.cols[j].stats
        /\ outA.cols[i].seqs = outB.cols[j].seqs
(* assemble: statistics equal; named alleles only gained in the larger run                *)
AssembleMonotone ==
  (Done /\ prog = "assemble") =>
    \A i \in 1..Len(outA.cols) : \A j \in 1..Len(outB.cols) :
      SameContent(outA.cols[i].unit, outB.cols[j].unit) =>
        /\ outA.cols[i].stats = outB.cols[j].stats
        /\ MonotoneSeqs(outA.cols[i].seqs, outB.cols[j].seqs)
(* a pool column equals the column of the merged sample (any program)                      *)
PoolIsUnion ==
  Done =>
    \A i \in 1..Len(outA.cols) : \A j \in 1..Len(outB.cols) :
      (SameContent(outA.cols[i].unit, outB.cols[j].unit) /\ outA.cols[i].unit.merged # outB.cols[j].unit.merged) =>
        outA.cols[i].stats = outB.cols[j].stats
(* same units in another order: same columns, same ALT set                                 *)
OrderPermutesColumns ==
  (Done /\ ContentSubset(cfgB, cfgA)) =>
    /\ Len(outA.cols) = Len(outB.cols)
    /\ {outA.alts[i] : i \in 1..Len(outA.alts)} = {outB.alts[i] : i \in 1..Len(outB.alts)}
    /\ \A i \in 1..Len(outA.cols) : \A j \in 1..Len(outB.cols) :
         SameContent(outA.cols[i].unit, outB.cols[j].unit) => SameSeqBag(outA.cols[i].seqs, outB.cols[j].seqs)
(* where the alignments are stored does not matter: the same unit read from one file per  *)
(* sample or from one multi-sample file gives the same column (any program)                *)
StorageIndependent ==
  (Done /\ layA # layB) =>
    \A i \in 1..Len(outA.cols) : \A j \in 1..Len(outB.cols) :
      (SameContent(outA.cols[i].unit, outB.cols[j].unit) /\ outA.cols[i].unit.merged = outB.cols[j].unit.merged) =>
        outA.cols[i].stats = outB.cols[j].stats
(* the law behind both: the reads of a unit are the bag union of its members' reads,      *)
(* whatever the layout                                                                     *)
UnitReadsAreUnion ==
  (which = "A" /\ pc = "encode" /\ ix = 1) =>
  \A u \in Units : \A lay \in Layouts :
    PooledBag(u, lay) = [h \in KindSet |-> SumF([i \in u.m |-> BaseBag(i)[h]], u.m)]
TypeOK == which \in {"A", "B", "done"} /\ pc \in {"encode", "call", "union", "label", "end"}

UnitJson(u) == [m |-> SelectSeq(<<1, 2, 3>>, LAMBDA i : i \in u.m), merged |-> u.merged]
Dump ==
  (Done /\ prog = "call") =>
    PrintT(<<"@@J", ToJson([a |-> [i \in 1..Len(cfgA) |-> UnitJson(cfgA[i])], la |-> layA,
                            b |-> [i \in 1..Len(cfgB) |-> UnitJson(cfgB[i])], lb |-> layB])>>)
=============================================================================
