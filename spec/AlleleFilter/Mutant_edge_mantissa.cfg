SPECIFICATION Spec
CONSTANT Clusters = {"zero"}
CONSTANT MaxAlleles = 2
CONSTANT Ops <- AllOps
CONSTANT FullThird = FALSE
CONSTANT CrossTag = FALSE
CONSTANT XCmp <- MutCmpMant
INVARIANT TypeOK
CHECK_DEADLOCK FALSE
