SPECIFICATION Spec
CONSTANT MaxAlleles = 3
CONSTANT Values <- Vals012
CONSTANT Thresholds <- OneThr
CONSTANT Ops <- CrossOps
CONSTANT Types <- FloatOnly
CONSTANT CrossTag = TRUE
INVARIANT TypeOK
INVARIANT RefNeverRemoved
INVARIANT AltRemovedIffFails
INVARIANT MaskedIffRefFailsOrFlagged
INVARIANT FreqIsNamedValues
INVARIANT FreqSumsToOne
INVARIANT NoMaskedUsable
INVARIANT InvalidNeverAborts
INVARIANT StepwiseMatchesDeclarative
CONSTRAINT Dump
CHECK_DEADLOCK FALSE
