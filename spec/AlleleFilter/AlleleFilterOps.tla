--------------------------- MODULE AlleleFilterOps ---------------------------
(* C16: what --filter-input-haplotypes and --prior-frequencies mean, written  *)
(* declaratively from the option help texts and the VCF field descriptions.   *)
(*                                                                           *)
(* instance c (one input haplotype record + the two options):                *)
(*   n          number of alleles of the record (1 = REF only)               *)
(*   refmasked  the record carries INFO/REFMASKED                            *)
(*   fld        "none" | "RF" | "AF": INFO field named by the filter         *)
(*              (RF has Number=R: one value per allele, REF first;           *)
(*               AF has Number=A: one value per ALT)                         *)
(*   op, thr    the filter's operator and value                              *)
(*   tag        "none" | "RF": field named by --prior-frequencies            *)
(*   hasRF, rf  field present in the record / its values (length n)          *)
(*   hasAF, af  likewise (length n - 1)                                      *)
(* All values and the threshold are integers in one common unit (the unit    *)
(* cancels in every comparison and in the normalised frequencies), so the    *)
(* same definitions serve Integer fields, dyadic Float fields and            *)
(* thousandths read from real files.                                         *)
(* Alleles are numbered 1..n here (1 = REF); positions in the *output*       *)
(* record are numbered 1..Len(KeptIdx(c)).                                   *)
EXTENDS Integers, Sequences, FiniteSets

RECURSIVE SumSeq(_)
SumSeq(s) == IF s = <<>> THEN 0 ELSE Head(s) + SumSeq(Tail(s))

Holds(op, v, t) ==
  CASE op \in {"=", "=="} -> v = t
    [] op = "!="          -> v # t
    [] op = ">"           -> v > t
    [] op = ">="          -> v >= t
    [] op = "<"           -> v < t
    [] op = "<="          -> v <= t

(* does allele i satisfy the filter predicate?  A field that is absent from  *)
(* the record tests nothing; an A-length field never tests REF               *)
Passes(c, i) ==
  CASE c.fld = "none" -> TRUE
    [] c.fld = "RF"   -> IF c.hasRF THEN Holds(c.op, c.rf[i], c.thr) ELSE TRUE
    [] c.fld = "AF"   -> IF i = 1 \/ ~c.hasAF THEN TRUE ELSE Holds(c.op, c.af[i - 1], c.thr)

(* a failing reference is kept but masked *)
Masked(c) == c.refmasked \/ ~Passes(c, 1)

(* input allele numbers that remain in the output record, in input order     *)
RECURSIVE KeptFrom(_, _)
KeptFrom(c, i) == IF i > c.n THEN <<>>
                  ELSE IF i = 1 \/ Passes(c, i) THEN <<i>> \o KeptFrom(c, i + 1) ELSE KeptFrom(c, i + 1)
KeptIdx(c) == KeptFrom(c, 1)

(* un-normalised prior weight of input allele i *)
Weight(c, i) == IF i = 1 /\ Masked(c) THEN 0 ELSE IF c.tag = "RF" THEN c.rf[i] ELSE 1

KeptW(c) == LET k == KeptIdx(c) IN [j \in 1..Len(k) |-> Weight(c, k[j])]
Den(c) == SumSeq(KeptW(c))          \* 0: the frequencies are undefined

(* output positions that may occur in a genotype *)
Usable(c) == LET w == KeptW(c) IN {j \in 1..Len(w) : w[j] > 0}

Outcome(c) ==
  IF Usable(c) # {} THEN "CALL"
  ELSE IF Len(KeptIdx(c)) = 1 /\ Masked(c) THEN "NOA"     \* every remaining allele is masked
  ELSE "AF0"                                             \* every remaining allele has prior zero

Expect(c) == [kept |-> KeptIdx(c), masked |-> Masked(c), w |-> KeptW(c), den |-> Den(c),
              usable |-> Usable(c), outcome |-> Outcome(c)]
=============================================================================
