-------------------------- MODULE AlleleFilterExact --------------------------
(* C16 at the edges of the number line a VCF / a filter string can express.   *)
(*                                                                           *)
(* AlleleFilterOps states the semantics over integers in one common unit,    *)
(* which is enough for {0,1,2}-valued instances but not for records whose    *)
(* INFO values differ from the threshold in the 7th-9th decimal, are tiny    *)
(* but not zero (1e-7, 1e-12, 2^-149) or exceed 2^24.  Here every number is  *)
(* what the text says, exactly:                                              *)
(*                                                                           *)
(*     [m |-> the decimal digits read as a natural (BigNat limbs),           *)
(*      s |-> how many of those digits stand after the decimal point]        *)
(*                                                                           *)
(* i.e. the rational m / 10^s ("0.0000002" = [m |-> 2, s |-> 7]; a trailing  *)
(* zero or an exponent only changes the spelling: "2e-7", "0.00000020").     *)
(* Comparison is comparison of rationals (both sides brought to the larger   *)
(* scale, no rounding anywhere); the prior is the named values over their    *)
(* exact sum.  An instance x has the fields of an AlleleFilterOps instance   *)
(* with numbers in place of the integers (thr, rf[i], af[i]).                *)
(* The two models are tied together by UnitsAgree (AlleleFilterEdge checks   *)
(* it with TLC): whenever all numbers of an instance fit into TLC integers   *)
(* at a common scale, the exact model and the unit model give the same       *)
(* expectation.                                                              *)
EXTENDS AlleleFilterOps, BigNat, TLC

Max2(a, b) == IF a > b THEN a ELSE b

(* a * 10^k (the base of BigNat is 10^4: whole limbs shift, the rest multiplies) *)
ShiftDec(a, k) ==
  IF a = <<>> THEN <<>>
  ELSE [i \in 1..(k \div 4) |-> 0] \o
       BnMulSmall(a, CASE k % 4 = 0 -> 1 [] k % 4 = 1 -> 10 [] k % 4 = 2 -> 100 [] k % 4 = 3 -> 1000)

(* the value of x in units of 10^-S (S >= x.s): exact, a natural             *)
At(x, S) == ShiftDec(x.m, S - x.s)

(* -1, 0, 1: order of the two rationals                                      *)
XCmp(x, y) == LET S == Max2(x.s, y.s) IN BnCmp(At(x, S), At(y, S))

XHolds(op, v, t) ==
  LET k == XCmp(v, t)
  IN  CASE op \in {"=", "=="} -> k = 0
        [] op = "!="          -> k # 0
        [] op = ">"           -> k > 0
        [] op = ">="          -> k >= 0
        [] op = "<"           -> k < 0
        [] op = "<="          -> k <= 0

(* the same clauses as AlleleFilterOps.Passes / Masked / KeptIdx             *)
XPasses(x, i) ==
  CASE x.fld = "none" -> TRUE
    [] x.fld = "RF"   -> IF x.hasRF THEN XHolds(x.op, x.rf[i], x.thr) ELSE TRUE
    [] x.fld = "AF"   -> IF i = 1 \/ ~x.hasAF THEN TRUE ELSE XHolds(x.op, x.af[i - 1], x.thr)

XMasked(x) == x.refmasked \/ ~XPasses(x, 1)

RECURSIVE XKeptFrom(_, _)
XKeptFrom(x, i) == IF i > x.n THEN <<>>
                   ELSE IF i = 1 \/ XPasses(x, i) THEN <<i>> \o XKeptFrom(x, i + 1) ELSE XKeptFrom(x, i + 1)
XKeptIdx(x) == XKeptFrom(x, 1)

(* common scale of the instance's numbers                                    *)
RECURSIVE MaxScale(_)
MaxScale(seq) == IF seq = <<>> THEN 0 ELSE Max2(Head(seq).s, MaxScale(Tail(seq)))
XScale(x) == Max2(x.thr.s, Max2(IF x.hasRF THEN MaxScale(x.rf) ELSE 0, IF x.hasAF THEN MaxScale(x.af) ELSE 0))

(* un-normalised prior weight of input allele i, in units of 10^-XScale(x)   *)
XWeight(x, i) ==
  IF i = 1 /\ XMasked(x) THEN <<>>
  ELSE IF x.tag = "RF" THEN At(x.rf[i], XScale(x)) ELSE ShiftDec(<<1>>, XScale(x))

XKeptW(x) == LET k == XKeptIdx(x) IN [j \in 1..Len(k) |-> XWeight(x, k[j])]

RECURSIVE BnSum(_)
BnSum(seq) == IF seq = <<>> THEN <<>> ELSE BnAdd(Head(seq), BnSum(Tail(seq)))
XDen(x) == BnSum(XKeptW(x))        \* <<>> (zero): the frequencies are undefined

XUsable(x) == LET w == XKeptW(x) IN {j \in 1..Len(w) : w[j] # <<>>}

XOutcome(x) ==
  IF XUsable(x) # {} THEN "CALL"
  ELSE IF Len(XKeptIdx(x)) = 1 /\ XMasked(x) THEN "NOA"
  ELSE "AF0"

(* the expectation in one pass (TLC re-evaluates operator definitions at every use: bind once) *)
XExpect(x) ==
  LET k  == XKeptIdx(x)
      mk == XMasked(x)
      S  == XScale(x)
      w  == TLCEval([j \in 1..Len(k) |-> IF k[j] = 1 /\ mk THEN <<>>
                                         ELSE IF x.tag = "RF" THEN At(x.rf[k[j]], S) ELSE ShiftDec(<<1>>, S)])
      us == {j \in 1..Len(k) : w[j] # <<>>}
  IN  [kept |-> k, masked |-> mk, w |-> w, den |-> BnSum(w), usable |-> us,
       outcome |-> IF us # {} THEN "CALL" ELSE IF Len(k) = 1 /\ mk THEN "NOA" ELSE "AF0"]

(* ---- the law tying the exact model to the unit model --------------------- *)
RECURSIVE BnToNat(_)
BnToNat(a) == IF a = <<>> THEN 0 ELSE Head(a) + Base * BnToNat(Tail(a))

Small(x, q) == Len(At(q, XScale(x))) <= 2          \* < 10^8: sums of three stay below 2^31
Fits(x) == /\ Small(x, x.thr)
           /\ x.hasRF => \A i \in DOMAIN x.rf : Small(x, x.rf[i])
           /\ x.hasAF => \A i \in DOMAIN x.af : Small(x, x.af[i])

Units(x, q) == BnToNat(At(q, XScale(x)))
UnitInstance(x) ==
  [n |-> x.n, refmasked |-> x.refmasked, fld |-> x.fld, op |-> x.op, tag |-> x.tag,
   hasRF |-> x.hasRF, hasAF |-> x.hasAF,
   thr |-> Units(x, x.thr),
   rf |-> [i \in DOMAIN x.rf |-> Units(x, x.rf[i])],
   af |-> [i \in DOMAIN x.af |-> Units(x, x.af[i])]]

UnitsAgreeOn(x, e) ==          \* e = XExpect(x)
  Fits(x) =>
    LET c == UnitInstance(x)
        f == IF x.tag = "RF" THEN 1                                  \* the flat weight 1 in units
             ELSE IF XScale(x) <= 4 THEN BnToNat(ShiftDec(<<1>>, XScale(x))) ELSE 0
        u == Expect(c)
    IN  /\ u.kept = e.kept
        /\ u.masked = e.masked
        /\ u.usable = e.usable
        /\ u.outcome = e.outcome
        /\ (f > 0 => /\ e.w = [j \in 1..Len(u.kept) |-> BnFromNat(u.w[j] * f)]
                      /\ e.den = BnFromNat(u.den * f))

(* the one-pass form is the clause-by-clause definition *)
XExpectIsDeclarative(x, e) ==
  /\ e.kept = XKeptIdx(x) /\ e.masked = XMasked(x) /\ e.w = XKeptW(x) /\ e.den = XDen(x)
  /\ e.usable = XUsable(x) /\ e.outcome = XOutcome(x)

(* ---- laws of the order on numbers ---------------------------------------- *)
(* exactly one of <, ==, > holds; the other operators are their complements  *)
OrderLaws(v, t) ==
  /\ (IF XHolds("<", v, t) THEN 1 ELSE 0) + (IF XHolds("==", v, t) THEN 1 ELSE 0) + (IF XHolds(">", v, t) THEN 1 ELSE 0) = 1
  /\ XHolds(">=", v, t) <=> ~XHolds("<", v, t)
  /\ XHolds("<=", v, t) <=> ~XHolds(">", v, t)
  /\ XHolds("!=", v, t) <=> ~XHolds("==", v, t)
  /\ XHolds("=", v, t) <=> XHolds("==", v, t)
  /\ XCmp(v, t) = -XCmp(t, v)

(* a trailing zero ("0.5" / "0.50") spells the same number                   *)
Pad(q) == [m |-> ShiftDec(q.m, 1), s |-> q.s + 1]
SpellingLaw(v, t) == XCmp(Pad(v), t) = XCmp(v, t) /\ XCmp(v, Pad(t)) = XCmp(v, t) /\ XCmp(Pad(v), v) = 0
=============================================================================
