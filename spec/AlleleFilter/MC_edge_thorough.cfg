SPECIFICATION Spec
CONSTANT Clusters <- AllClusters
CONSTANT MaxAlleles = 3
CONSTANT Ops <- AllOps
CONSTANT FullThird = TRUE
CONSTANT CrossTag = TRUE
INVARIANT TypeOK
INVARIANT UnitsAgree
INVARIANT OnePassIsDeclarative
INVARIANT RefNeverRemoved
INVARIANT AltRemovedIffFails
INVARIANT MaskedIffRefFailsOrFlagged
INVARIANT FreqSumsToOne
INVARIANT NoMaskedUsable
INVARIANT InvalidNeverAborts
CONSTRAINT Dump
CHECK_DEADLOCK FALSE
