-------------------------- MODULE TraceAlleleFilter --------------------------
(* code -> spec for C16.  One event per record that `call`, `call-exact` or   *)
(* `call-pedigree` was asked to process with --filter-input-haplotypes /      *)
(* --prior-frequencies:                                                       *)
(*   c        the instance (record values, options) in AlleleFilterOps form   *)
(*   crashed  the run aborted;  missing: the run printed no line for it       *)
(*   out      what the program printed: kept (input allele numbers of REF and *)
(*            the ALTs in output order), extra_alt, refmasked, filters,       *)
(*            afprior (thousandths, -1 "."), gts (-1 "."), afp, gp,           *)
(*            ploidies (per sample; <<>> if not recorded), sampled (number of *)
(*            haplotype alleles each sampler object of the record was built   *)
(*            with; <<>> for call-exact / not observed)                       *)
(*   exact    FALSE: c is an AlleleFilterOps instance (integers in a common    *)
(*            unit); TRUE: c is an AlleleFilterExact instance (every number   *)
(*            [m |-> BigNat digits, s |-> decimals], as the text spells it)   *)
(* TLC evaluates the declarative definitions on c and names the first clause  *)
(* the printed record contradicts.  Weights and their sum are BigNat in both  *)
(* cases (AFPRIOR is compared in exact arithmetic).                           *)
EXTENDS AlleleFilterExact, Genotypes, Json, IOUtils

Trace == JsonDeserialize(IOEnv.TRACE_FILE)

VARIABLES l, bad
vars == <<l, bad>>

Abs(x) == IF x < 0 THEN -x ELSE x
(* |out/1000 - num/den| <= 1/2000 with BigNat num, den                      *)
NearMilli(out, num, den) ==
  /\ out >= 0
  /\ LET a == BnMulSmall(den, out)
         b == BnMulSmall(num, 1000)
         diff == IF BnCmp(a, b) >= 0 THEN BnSub(a, b) ELSE BnSub(b, a)
     IN  BnLeq(BnMulSmall(diff, 2), den)
(* what the model expects of the record, from either form of instance       *)
ExpectOf(e) ==
  IF e.exact THEN XExpect(e.c)
  ELSE LET u == Expect(e.c)
       IN  [kept |-> u.kept, masked |-> u.masked, w |-> [j \in DOMAIN u.w |-> BnFromNat(u.w[j])],
            den |-> BnFromNat(u.den), usable |-> u.usable, outcome |-> u.outcome]
Rng(s) == {s[i] : i \in DOMAIN s}

Verdict(e) ==
  LET o  == e.out
      x  == ExpectOf(e)
      k  == x.kept
      w  == x.w
      d  == x.den
      us == x.usable
      invalid == us = {}
      flagged == Rng(o.filters) \cap {"NOA", "AF0"} # {}
  IN
  IF e.crashed THEN "RunAborted"
  ELSE IF e.missing THEN "RecordEmitted"
  ELSE IF o.extra_alt \/ o.kept # k THEN "AltRemovedIffFails"
  ELSE IF o.refmasked # x.masked THEN "RefKeptButMasked"
  ELSE IF (IF d = <<>> THEN \E j \in DOMAIN o.afprior : o.afprior[j] > 0
           ELSE Len(o.afprior) # Len(k) \/ \E j \in 1..Len(k) : ~NearMilli(o.afprior[j], w[j], d)) THEN "AFPRIOR"
  ELSE IF invalid /\ ~flagged THEN "InvalidScenarioFiltered"
  ELSE IF invalid /\ (\E s \in DOMAIN o.gts : \E j \in DOMAIN o.gts[s] : o.gts[s][j] >= 0) THEN "InvalidScenarioMissingCalls"
  ELSE IF ~invalid /\ flagged THEN "FilterWithoutCause"
  ELSE IF \E s \in DOMAIN o.gts : \E j \in DOMAIN o.gts[s] : o.gts[s][j] >= 0 /\ (o.gts[s][j] + 1) \notin us THEN "NoMaskedInGT"
  ELSE IF invalid THEN "ok"
  \* (ploidies / sampled are recorded for the runs that observe them; empty otherwise)
  \* a call has as many alleles as the sample's ploidy (samples of different ploidy in one run)
  ELSE IF \E s \in DOMAIN o.ploidies : s \in DOMAIN o.gts /\ Len(o.gts[s]) # o.ploidies[s] THEN "GtHasPloidyAlleles"
  \* exactly the usable alleles (not masked, positive prior - however small) are handed to the sampler
  ELSE IF \E i \in DOMAIN o.sampled : o.sampled[i] # Cardinality(us) THEN "SamplerGetsExactlyTheUsableAlleles"
  ELSE IF \E s \in DOMAIN o.afp : Len(o.afp[s]) # Len(k) THEN "PosteriorVectorLength"   \* one AFP entry per allele
  ELSE IF \E s \in DOMAIN o.afp : \E j \in 1..Len(k) : j \notin us /\ o.afp[s][j] # 0 THEN "ZeroPosteriorAFP"
  ELSE IF \E s \in DOMAIN o.gp :
            LET ord == VcfOrder(Len(k), Len(o.gts[s]))
            IN  Len(o.gp[s]) = Len(ord) /\
                \E g \in 1..Len(ord) : (\E j \in DOMAIN ord[g] : (ord[g][j] + 1) \notin us) /\ o.gp[s][g] # 0
       THEN "ZeroPosteriorGP"
  ELSE "ok"

Init == l = 1 /\ bad = 0
Next == /\ l <= Len(Trace)
        /\ LET v == Verdict(Trace[l])
           IN  /\ IF v = "ok" THEN TRUE ELSE PrintT(<<"@@J", ToJson([reject |-> l, clause |-> v])>>)
               /\ bad' = IF v = "ok" THEN bad ELSE bad + 1
        /\ l' = l + 1
Spec == Init /\ [][Next]_vars
Consumed == (l = Len(Trace) + 1) => PrintT(<<"@@J", ToJson([consumed |-> l - 1, rejected |-> bad])>>)
=============================================================================
