SPECIFICATION Spec
CONSTANT MaxAlleles = 3
CONSTANT Values <- Vals012
CONSTANT Thresholds <- Vals012
CONSTANT Ops <- AllOps
CONSTANT Types <- FloatOnly
CONSTANT CrossTag = FALSE
CONSTANT Weight <- MutWeight
INVARIANT StepwiseMatchesDeclarative
CHECK_DEADLOCK FALSE
