---- MODULE AlleleFilterEdge_TTrace_1791170959 ----
EXTENDS AlleleFilterEdge, Sequences, TLCExt, Toolbox, Naturals, TLC

_expression ==
    LET AlleleFilterEdge_TEExpression == INSTANCE AlleleFilterEdge_TEExpression
    IN AlleleFilterEdge_TEExpression!expression
----

_trace ==
    LET AlleleFilterEdge_TETrace == INSTANCE AlleleFilterEdge_TETrace
    IN AlleleFilterEdge_TETrace!trace
----

_inv ==
    ~(
        TLCGet("level") = Len(_TETrace)
        /\
        stage = ("done")
        /\
        ty = ("Float")
        /\
        x = ([n |-> 1, fld |-> "RF", tag |-> "none", op |-> "=", thr |-> [s |-> 7, m |-> <<2>>], refmasked |-> FALSE, hasRF |-> TRUE, rf |-> <<[s |-> 12, m |-> <<1>>]>>, hasAF |-> FALSE, af |-> <<>>, setRF |-> TRUE, setAF |-> FALSE])
        /\
        cl = ("zero")
        /\
        exp = ([kept |-> <<1>>, masked |-> TRUE, w |-> <<<<>>>>, den |-> <<>>, usable |-> {}, outcome |-> "NOA"])
    )
----

_init ==
    /\ stage = _TETrace[1].stage
    /\ cl = _TETrace[1].cl
    /\ x = _TETrace[1].x
    /\ exp = _TETrace[1].exp
    /\ ty = _TETrace[1].ty
----

_next ==
    /\ \E i,j \in DOMAIN _TETrace:
        /\ \/ /\ j = i + 1
              /\ i = TLCGet("level")
        /\ stage  = _TETrace[i].stage
        /\ stage' = _TETrace[j].stage
        /\ cl  = _TETrace[i].cl
        /\ cl' = _TETrace[j].cl
        /\ x  = _TETrace[i].x
        /\ x' = _TETrace[j].x
        /\ exp  = _TETrace[i].exp
        /\ exp' = _TETrace[j].exp
        /\ ty  = _TETrace[i].ty
        /\ ty' = _TETrace[j].ty

\* Uncomment the ASSUME below to write the states of the error trace
\* to the given file in Json format. Note that you can pass any tuple
\* to `JsonSerialize`. For example, a sub-sequence of _TETrace.
    \* ASSUME
    \*     LET J == INSTANCE Json
    \*         IN J!JsonSerialize("AlleleFilterEdge_TTrace_1791170959.json", _TETrace)

=============================================================================

 Note that you can extract this module `AlleleFilterEdge_TEExpression`
  to a dedicated file to reuse `expression` (the module in the 
  dedicated `AlleleFilterEdge_TEExpression.tla` file takes precedence 
  over the module `AlleleFilterEdge_TEExpression` below).

---- MODULE AlleleFilterEdge_TEExpression ----
EXTENDS AlleleFilterEdge, Sequences, TLCExt, Toolbox, Naturals, TLC

expression == 
    [
        \* To hide variables of the `AlleleFilterEdge` spec from the error trace,
        \* remove the variables below.  The trace will be written in the order
        \* of the fields of this record.
        stage |-> stage
        ,cl |-> cl
        ,x |-> x
        ,exp |-> exp
        ,ty |-> ty
        
        \* Put additional constant-, state-, and action-level expressions here:
        \* ,_stateNumber |-> _TEPosition
        \* ,_stageUnchanged |-> stage = stage'
        
        \* Format the `stage` variable as Json value.
        \* ,_stageJson |->
        \*     LET J == INSTANCE Json
        \*     IN J!ToJson(stage)
        
        \* Lastly, you may build expressions over arbitrary sets of states by
        \* leveraging the _TETrace operator.  For example, this is how to
        \* count the number of times a spec variable changed up to the current
        \* state in the trace.
        \* ,_stageModCount |->
        \*     LET F[s \in DOMAIN _TETrace] ==
        \*         IF s = 1 THEN 0
        \*         ELSE IF _TETrace[s].stage # _TETrace[s-1].stage
        \*             THEN 1 + F[s-1] ELSE F[s-1]
        \*     IN F[_TEPosition - 1]
    ]

=============================================================================



Parsing and semantic processing can take forever if the trace below is long.
 In this case, it is advised to uncomment the module below to deserialize the
 trace from a generated binary file.

\*
\*---- MODULE AlleleFilterEdge_TETrace ----
\*EXTENDS AlleleFilterEdge, IOUtils, TLC
\*
\*trace == IODeserialize("AlleleFilterEdge_TTrace_1791170959.bin", TRUE)
\*
\*=============================================================================
\*

---- MODULE AlleleFilterEdge_TETrace ----
EXTENDS AlleleFilterEdge, TLC

trace == 
    <<
    ([stage |-> "fields",ty |-> "Float",x |-> [n |-> 1, fld |-> "RF", tag |-> "none", op |-> "=", thr |-> [s |-> 7, m |-> <<2>>], refmasked |-> FALSE, hasRF |-> FALSE, rf |-> <<>>, hasAF |-> FALSE, af |-> <<>>, setRF |-> FALSE, setAF |-> FALSE],cl |-> "zero",exp |-> [kept |-> <<>>, masked |-> FALSE, w |-> <<>>, den |-> <<>>, usable |-> {}, outcome |-> "?"]]),
    ([stage |-> "fields",ty |-> "Float",x |-> [n |-> 1, fld |-> "RF", tag |-> "none", op |-> "=", thr |-> [s |-> 7, m |-> <<2>>], refmasked |-> FALSE, hasRF |-> TRUE, rf |-> <<[s |-> 12, m |-> <<1>>]>>, hasAF |-> FALSE, af |-> <<>>, setRF |-> TRUE, setAF |-> FALSE],cl |-> "zero",exp |-> [kept |-> <<>>, masked |-> FALSE, w |-> <<>>, den |-> <<>>, usable |-> {}, outcome |-> "?"]]),
    ([stage |-> "done",ty |-> "Float",x |-> [n |-> 1, fld |-> "RF", tag |-> "none", op |-> "=", thr |-> [s |-> 7, m |-> <<2>>], refmasked |-> FALSE, hasRF |-> TRUE, rf |-> <<[s |-> 12, m |-> <<1>>]>>, hasAF |-> FALSE, af |-> <<>>, setRF |-> TRUE, setAF |-> FALSE],cl |-> "zero",exp |-> [kept |-> <<1>>, masked |-> TRUE, w |-> <<<<>>>>, den |-> <<>>, usable |-> {}, outcome |-> "NOA"]])
    >>
----


=============================================================================

---- CONFIG AlleleFilterEdge_TTrace_1791170959 ----
CONSTANTS
    Clusters <- AllClusters
    MaxAlleles = 3
    Ops <- AllOps
    FullThird = FALSE
    CrossTag = FALSE

INVARIANT
    _inv

CHECK_DEADLOCK
    \* CHECK_DEADLOCK off because of PROPERTY or INVARIANT above.
    FALSE

INIT
    _init

NEXT
    _next

CONSTANT
    _TETrace <- _trace

ALIAS
    _expression
=============================================================================
\* Generated on Mon Oct 05 03:29:33 UTC 2026