SPECIFICATION Spec
CONSTANT MaxAlleles = 3
CONSTANT Values <- Vals012
CONSTANT Thresholds <- Vals012
CONSTANT Ops <- AllOps
CONSTANT Types <- BothTypes
CONSTANT CrossTag = FALSE
INVARIANT TypeOK
INVARIANT RefNeverRemoved
INVARIANT AltRemovedIffFails
INVARIANT MaskedIffRefFailsOrFlagged
INVARIANT FreqIsNamedValues
INVARIANT FreqSumsToOne
INVARIANT NoMaskedUsable
INVARIANT InvalidNeverAborts
INVARIANT StepwiseMatchesDeclarative
CONSTRAINT Dump
CHECK_DEADLOCK FALSE
