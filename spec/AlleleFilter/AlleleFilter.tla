----------------------------- MODULE AlleleFilter -----------------------------
(* C16 as a record transducer: one behaviour = one input haplotype record     *)
(* passing through the option handling of call / call-exact / call-pedigree.  *)
(* Build steps choose the record's INFO values (spanning the instance space), *)
(* then the mechanism runs in the order of the documented pipeline:           *)
(*   ApplyFilter -> MaskReference -> TakePrior -> Restrict -> Normalise ->    *)
(*   Classify                                                                 *)
(* The step-wise result is compared in every final state with the declarative *)
(* definition of AlleleFilterOps (Expect) and the stated clauses are checked  *)
(* as invariants; the final state is printed for the replay into              *)
(* LocusPrior.from_variant_record and the three programs.                     *)
EXTENDS AlleleFilterOps, TLC, Json

CONSTANTS
  MaxAlleles,   \* records have 1..MaxAlleles alleles
  Values,       \* INFO values (common integer unit)
  Thresholds,   \* filter values
  Ops,          \* operator spellings
  Types,        \* set of <<rfType, afType>> pairs rendered into the header (model is type-blind)
  CrossTag      \* TRUE: also the (AF filter, RF tag) product with both fields varying

AllOps == {"=", "==", ">", ">=", "<", "<=", "!="}
QuickOps == {"==", ">", ">=", "<", "!="}
Vals012 == {0, 1, 2}
OneThr == {1}
CrossOps == {">=", "!="}
FloatOnly == {<<"Float", "Float">>}
BothTypes == {<<"Float", "Float">>, <<"Integer", "Integer">>}
AllTypes == {"Float", "Integer"} \X {"Float", "Integer"}

VARIABLES stage, c, keep, masked, w, kept, den, outcome
vars == <<stage, c, keep, masked, w, kept, den, outcome>>

NeedRF == c.fld = "RF" \/ c.tag = "RF"
NeedAF == c.fld = "AF"

Init ==
  /\ stage = "fields"
  /\ keep = <<>> /\ masked = FALSE /\ w = <<>> /\ kept = <<>> /\ den = 0 /\ outcome = "?"
  /\ \E n \in 1..MaxAlleles : \E fld \in {"none", "RF", "AF"} : \E tag \in {"none", "RF"} :
     \E rm \in BOOLEAN : \E ty \in Types :
     \E op \in (IF fld = "none" THEN {"=="} ELSE Ops) : \E thr \in (IF fld = "none" THEN {0} ELSE Thresholds) :
       /\ (fld = "AF" /\ tag = "RF") => CrossTag
       /\ c = [n |-> n, fld |-> fld, op |-> op, thr |-> thr, tag |-> tag, refmasked |-> rm,
               rfType |-> ty[1], afType |-> ty[2],
               hasRF |-> FALSE, rf |-> <<>>, hasAF |-> FALSE, af |-> <<>>, setRF |-> FALSE, setAF |-> FALSE]

(* ---- the record's INFO values ------------------------------------------- *)
SetRF ==
  /\ stage = "fields" /\ NeedRF /\ ~c.setRF
  /\ \/ \E v \in [1..c.n -> Values] : c' = [c EXCEPT !.hasRF = TRUE, !.rf = v, !.setRF = TRUE]
     \/ /\ c.tag = "none"          \* a record without the filter field is kept whole
        /\ c' = [c EXCEPT !.setRF = TRUE]
  /\ UNCHANGED <<stage, keep, masked, w, kept, den, outcome>>

SetAF ==
  /\ stage = "fields" /\ NeedAF /\ ~c.setAF
  /\ \/ \E v \in [1..(c.n - 1) -> Values] :       \* c.n = 1: the empty vector, which VCF (and mchap assemble) spell 'AF=.'
          c' = [c EXCEPT !.hasAF = TRUE, !.af = v, !.setAF = TRUE]
     \/ c' = [c EXCEPT !.setAF = TRUE]
  /\ UNCHANGED <<stage, keep, masked, w, kept, den, outcome>>

Ready == (NeedRF => c.setRF) /\ (NeedAF => c.setAF)

(* ---- the mechanism ------------------------------------------------------ *)
Cmp(op, v, t) == Holds(op, v, t)
Test(i) ==       \* the predicate applied to allele i of the record
  IF c.fld = "RF" /\ c.hasRF THEN Cmp(c.op, c.rf[i], c.thr)
  ELSE IF c.fld = "AF" /\ c.hasAF /\ i > 1 THEN Cmp(c.op, c.af[i - 1], c.thr)
  ELSE TRUE

ApplyFilter ==
  /\ stage = "fields" /\ Ready
  /\ keep' = [i \in 1..c.n |-> Test(i)]
  /\ stage' = "mask"
  /\ UNCHANGED <<c, masked, w, kept, den, outcome>>

MaskReference ==       \* a failing reference is masked instead of removed
  /\ stage = "mask"
  /\ masked' = (c.refmasked \/ ~keep[1])
  /\ keep' = [keep EXCEPT ![1] = TRUE]
  /\ stage' = "prior"
  /\ UNCHANGED <<c, w, kept, den, outcome>>

TakePrior ==
  /\ stage = "prior"
  /\ w' = [i \in 1..c.n |-> IF i = 1 /\ masked THEN 0 ELSE IF c.tag = "RF" THEN c.rf[i] ELSE 1]
  /\ stage' = "restrict"
  /\ UNCHANGED <<c, keep, masked, kept, den, outcome>>

Restrict ==
  /\ stage = "restrict"
  /\ kept' = SelectSeq([i \in 1..c.n |-> i], LAMBDA i : keep[i])
  /\ stage' = "normalise"
  /\ UNCHANGED <<c, keep, masked, w, den, outcome>>

Normalise ==
  /\ stage = "normalise"
  /\ den' = SumSeq([j \in 1..Len(kept) |-> w[kept[j]]])
  /\ stage' = "classify"
  /\ UNCHANGED <<c, keep, masked, w, kept, outcome>>

Classify ==
  /\ stage = "classify"
  /\ outcome' = IF den > 0 THEN "CALL"
                ELSE IF \A j \in 1..Len(kept) : kept[j] = 1 /\ masked THEN "NOA" ELSE "AF0"
  /\ stage' = "done"
  /\ UNCHANGED <<c, keep, masked, w, kept, den>>

Next == SetRF \/ SetAF \/ ApplyFilter \/ MaskReference \/ TakePrior \/ Restrict \/ Normalise \/ Classify
Spec == Init /\ [][Next]_vars

(* ---- invariants (the stated clauses) ------------------------------------ *)
Done == stage = "done"
FinalW == [j \in 1..Len(kept) |-> w[kept[j]]]

TypeOK == stage \in {"fields", "mask", "prior", "restrict", "normalise", "classify", "done"}

RefNeverRemoved == Done => kept # <<>> /\ kept[1] = 1

(* exactly the alternate alleles failing the predicate disappear, order kept *)
AltRemovedIffFails ==
  Done => /\ \A i \in 2..c.n : (\E j \in 1..Len(kept) : kept[j] = i) <=> Passes(c, i)
          /\ \A j \in 1..(Len(kept) - 1) : kept[j] < kept[j + 1]

MaskedIffRefFailsOrFlagged == Done => (masked <=> (c.refmasked \/ ~Passes(c, 1)))

(* the prior is the named values (flat without a tag), zero for a masked     *)
(* reference, over the retained alleles; its normalised form sums to one     *)
FreqIsNamedValues ==
  Done => \A j \in 1..Len(kept) :
            FinalW[j] = IF kept[j] = 1 /\ masked THEN 0 ELSE IF c.tag = "RF" THEN c.rf[kept[j]] ELSE 1
FreqSumsToOne == Done => (den = SumSeq(FinalW) /\ den >= 0)

NoMaskedUsable ==
  Done => \A j \in Usable(c) : ~(KeptIdx(c)[j] = 1 /\ masked) /\ FinalW[j] > 0

InvalidNeverAborts ==
  Done => /\ outcome \in {"CALL", "NOA", "AF0"}
          /\ (outcome = "CALL") <=> (Usable(c) # {})

StepwiseMatchesDeclarative ==
  Done => /\ kept = KeptIdx(c)
          /\ masked = Masked(c)
          /\ FinalW = KeptW(c)
          /\ den = Den(c)
          /\ outcome = Outcome(c)

(* ---- wrong definitions for the mutant configs --------------------------- *)
(* A-length field indexed as if it had a REF entry *)
MutPasses(cc, i) ==
  CASE cc.fld = "none" -> TRUE
    [] cc.fld = "RF"   -> IF cc.hasRF THEN Holds(cc.op, cc.rf[i], cc.thr) ELSE TRUE
    [] cc.fld = "AF"   -> IF ~cc.hasAF \/ i > cc.n - 1 THEN TRUE ELSE Holds(cc.op, cc.af[i], cc.thr)
(* ">=" read as ">" *)
MutHolds(op, v, t) ==
  CASE op \in {"=", "=="} -> v = t [] op = "!=" -> v # t [] op = ">" -> v > t
    [] op = ">=" -> v > t [] op = "<" -> v < t [] op = "<=" -> v <= t
(* masked reference keeps its prior weight *)
MutWeight(cc, i) == IF cc.tag = "RF" THEN cc.rf[i] ELSE 1

Dump ==
  IF Done
  THEN PrintT(<<"@@J", ToJson([c |-> c, kept |-> kept, masked |-> masked, w |-> FinalW, den |-> den,
                               usable |-> [j \in 1..Len(kept) |-> FinalW[j] > 0], outcome |-> outcome])>>)
  ELSE TRUE
=============================================================================
