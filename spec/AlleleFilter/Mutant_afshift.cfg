SPECIFICATION Spec
CONSTANT MaxAlleles = 3
CONSTANT Values <- Vals012
CONSTANT Thresholds <- Vals012
CONSTANT Ops <- AllOps
CONSTANT Types <- FloatOnly
CONSTANT CrossTag = FALSE
CONSTANT Passes <- MutPasses
INVARIANT AltRemovedIffFails
CHECK_DEADLOCK FALSE
