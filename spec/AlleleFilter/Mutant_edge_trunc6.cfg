SPECIFICATION Spec
CONSTANT Clusters = {"zero"}
CONSTANT MaxAlleles = 2
CONSTANT Ops <- AllOps
CONSTANT FullThird = FALSE
CONSTANT CrossTag = FALSE
CONSTANT XCmp <- MutCmp6
INVARIANT UnitsAgree
CHECK_DEADLOCK FALSE
