--------------------------- MODULE AlleleFilterEdge ---------------------------
(* C16, instances at the edges of the number line (AlleleFilterExact).        *)
(* One behaviour = one input record: Init chooses the neighbourhood          *)
(* (cluster) the numbers come from, the record shape and the options; the    *)
(* build steps choose the INFO values; Decide evaluates the exact model.     *)
(* Every final state is printed and replayed into                            *)
(* LocusPrior.from_variant_record (numbers rendered as decimal text), a      *)
(* covering subset goes through call / call-exact / call-pedigree            *)
(* (TraceAlleleFilter, exact events).                                        *)
(*                                                                           *)
(* Clusters (values a record may carry / thresholds a filter may name):      *)
(*   zero       0, 2^-149 (smallest positive single), 1e-12, 1e-7, 2e-7,     *)
(*              2^-24            | 0, 1e-7, 2e-7, 2^-24, 5e-7, 1e-6          *)
(*   half       0.5 and its neighbours in the 7th..9th decimal               *)
(*   sixteenth  0.0625 and its neighbours in the 9th/10th decimal, 0.3/0.7   *)
(*   int        0, 1, 2, 2^24, 2^24+1, 2^31-1 (Integer fields: AC-like; the  *)
(*              same texts in a Float field) | 0, 1, 0.9999999, 1.0000001,   *)
(*              16777216.5, 2^31-1                                            *)
EXTENDS AlleleFilterExact, TLC, Json

CONSTANTS
  Clusters,     \* subset of {"zero", "half", "sixteenth", "int"}
  MaxAlleles,
  Ops,
  FullThird,    \* TRUE: the whole product.  FALSE (quick tier): in 3-allele records the third value is tied to the
                \* first two, R-filtered records have 1 or 3 alleles (the 2-allele vectors are prefixes of the tied
                \* triples), an R filter comes with the prior tag (same kept / masked, plus the weights) and the
                \* REFMASKED flag is varied on records with fewer than three alleles
  CrossTag      \* TRUE: also (AF filter, RF tag)

AllOps == {"=", "==", ">", ">=", "<", "<=", "!="}
AllClusters == {"zero", "half", "sixteenth", "int"}

RECURSIVE Pow5(_)
Pow5(k) == IF k = 0 THEN <<1>> ELSE BnMulSmall(Pow5(k - 1), 5)

Dec(n, s)  == [m |-> BnFromNat(n), s |-> s]                       \* n / 10^s
Dyad(n, k) == [m |-> BnMul(BnFromNat(n), Pow5(k)), s |-> k]       \* n / 2^k = n 5^k / 10^k

ValsOf(cl) ==
  CASE cl = "zero"      -> << Dec(0, 0), Dyad(1, 149), Dec(1, 12), Dec(1, 7), Dec(2, 7), Dyad(1, 24) >>
    [] cl = "half"      -> << Dyad(16777215, 25), Dec(4999998, 7), Dec(5, 1), Dec(500000001, 9), Dyad(8388609, 24), Dec(5000001, 7) >>
    [] cl = "sixteenth" -> << Dyad(16777215, 28), Dec(625, 4), Dyad(8388609, 27), Dec(62500001, 9), Dec(3, 1), Dec(7, 1) >>
    [] cl = "int"       -> << Dec(0, 0), Dec(1, 0), Dec(2, 0), Dec(16777216, 0), Dec(16777217, 0), Dec(2147483647, 0) >>

ThrsOf(cl) ==
  CASE cl = "zero"      -> << Dec(0, 0), Dec(1, 7), Dec(2, 7), Dyad(1, 24), Dec(5, 7), Dec(1, 6) >>
    [] cl = "half"      -> << Dec(5, 1), Dyad(16777215, 25), Dyad(8388609, 24), Dec(4999998, 7), Dec(5000005, 7), Dec(500000001, 9) >>
    [] cl = "sixteenth" -> << Dec(625, 4), Dyad(8388609, 27), Dyad(16777215, 28), Dec(62500001, 9), Dec(3, 1), Dec(6999999, 7) >>
    [] cl = "int"       -> << Dec(0, 0), Dec(1, 0), Dec(9999999, 7), Dec(10000001, 7), Dec(167772165, 1), Dec(2147483647, 0) >>

(* the same tables written out (TLC re-evaluates operator definitions at every use); generated from the
   definitions above and checked against them once at start-up *)
ValsTab(cl) ==
  CASE cl = "zero" ->
      << [m |-> <<>>, s |-> 0],
         [m |-> <<3125, 5820, 2121, 8836, 6381, 1486, 6060, 6858, 1082, 8979, 2838, 7068, 7175, 5157, 1876, 6194, 2802, 6131, 8991, 5832, 3729, 7092, 8170, 4324, 9846, 4012, 1>>, s |-> 149],
         [m |-> <<1>>, s |-> 12],
         [m |-> <<1>>, s |-> 7],
         [m |-> <<2>>, s |-> 7],
         [m |-> <<625, 7539, 6447, 9604, 5>>, s |-> 24] >>
  [] cl = "half" ->
      << [m |-> <<6875, 2304, 7761, 1976, 9970, 9999, 4>>, s |-> 25],
         [m |-> <<9998, 499>>, s |-> 7],
         [m |-> <<5>>, s |-> 1],
         [m |-> <<1, 0, 5>>, s |-> 9],
         [m |-> <<625, 7539, 6447, 9604, 5, 5000>>, s |-> 24],
         [m |-> <<1, 500>>, s |-> 7] >>
  [] cl = "sixteenth" ->
      << [m |-> <<9375, 8085, 153, 7097, 6274, 9999, 624>>, s |-> 28],
         [m |-> <<625>>, s |-> 4],
         [m |-> <<8125, 2382, 5969, 580, 745, 5000, 62>>, s |-> 27],
         [m |-> <<1, 6250>>, s |-> 9],
         [m |-> <<3>>, s |-> 1],
         [m |-> <<7>>, s |-> 1] >>
  [] cl = "int" ->
      << [m |-> <<>>, s |-> 0],
         [m |-> <<1>>, s |-> 0],
         [m |-> <<2>>, s |-> 0],
         [m |-> <<7216, 1677>>, s |-> 0],
         [m |-> <<7217, 1677>>, s |-> 0],
         [m |-> <<3647, 4748, 21>>, s |-> 0] >>

ThrsTab(cl) ==
  CASE cl = "zero" ->
      << [m |-> <<>>, s |-> 0],
         [m |-> <<1>>, s |-> 7],
         [m |-> <<2>>, s |-> 7],
         [m |-> <<625, 7539, 6447, 9604, 5>>, s |-> 24],
         [m |-> <<5>>, s |-> 7],
         [m |-> <<1>>, s |-> 6] >>
  [] cl = "half" ->
      << [m |-> <<5>>, s |-> 1],
         [m |-> <<6875, 2304, 7761, 1976, 9970, 9999, 4>>, s |-> 25],
         [m |-> <<625, 7539, 6447, 9604, 5, 5000>>, s |-> 24],
         [m |-> <<9998, 499>>, s |-> 7],
         [m |-> <<5, 500>>, s |-> 7],
         [m |-> <<1, 0, 5>>, s |-> 9] >>
  [] cl = "sixteenth" ->
      << [m |-> <<625>>, s |-> 4],
         [m |-> <<8125, 2382, 5969, 580, 745, 5000, 62>>, s |-> 27],
         [m |-> <<9375, 8085, 153, 7097, 6274, 9999, 624>>, s |-> 28],
         [m |-> <<1, 6250>>, s |-> 9],
         [m |-> <<3>>, s |-> 1],
         [m |-> <<9999, 699>>, s |-> 7] >>
  [] cl = "int" ->
      << [m |-> <<>>, s |-> 0],
         [m |-> <<1>>, s |-> 0],
         [m |-> <<9999, 999>>, s |-> 7],
         [m |-> <<1, 1000>>, s |-> 7],
         [m |-> <<2165, 6777, 1>>, s |-> 1],
         [m |-> <<3647, 4748, 21>>, s |-> 0] >>

ASSUME TablesAreTheirDefinitions == \A c \in AllClusters : ValsTab(c) = ValsOf(c) /\ ThrsTab(c) = ThrsOf(c)

(* the laws of the order on numbers hold for every (value, threshold) pair an instance can contain: they are
   facts about the tables, not about reachable states, so TLC evaluates them once *)
ASSUME OrderIsTotal ==
  \A c \in AllClusters : \A i \in DOMAIN ValsTab(c) : \A j \in DOMAIN ThrsTab(c) : OrderLaws(ValsTab(c)[i], ThrsTab(c)[j])
ASSUME SpellingFree ==
  \A c \in AllClusters : \A i \in DOMAIN ValsTab(c) : \A j \in DOMAIN ThrsTab(c) : SpellingLaw(ValsTab(c)[i], ThrsTab(c)[j])

VARIABLES stage, x, cl, ty, exp
vars == <<stage, x, cl, ty, exp>>

NeedRF == x.fld = "RF" \/ x.tag = "RF"
NeedAF == x.fld = "AF"
NoExp == [kept |-> <<>>, masked |-> FALSE, w |-> <<>>, den |-> <<>>, usable |-> {}, outcome |-> "?"]

Init ==
  /\ stage = "fields"
  /\ exp = NoExp
  /\ cl \in Clusters
  /\ ty \in (IF cl = "int" THEN {"Integer", "Float"} ELSE {"Float"})
  /\ \E n \in 1..MaxAlleles : \E fld \in {"RF", "AF"} : \E tag \in {"none", "RF"} : \E rm \in BOOLEAN :
     \E op \in Ops : \E t \in 1..Len(ThrsTab(cl)) :
       /\ (fld = "AF" /\ tag = "RF") => (CrossTag /\ ~rm)      \* (its frequency vectors: rotations of the table)
       /\ (~FullThird /\ fld = "RF") => (n # 2 /\ tag = "RF")
       /\ (~FullThird /\ n = 3) => ~rm
       /\ x = [n |-> n, fld |-> fld, op |-> op, thr |-> ThrsTab(cl)[t], tag |-> tag, refmasked |-> rm,
               hasRF |-> FALSE, rf |-> <<>>, hasAF |-> FALSE, af |-> <<>>, setRF |-> FALSE, setAF |-> FALSE]

(* value vectors of length len: "full" all of them; "tied" (len = 3) the third value tied to the first two;
   "rot" the K rotations of the value table (the frequency vectors of the cross product) *)
Vectors(len, mode) ==
  LET V == ValsTab(cl)
      K == Len(V)
  IN  IF mode = "rot" THEN {[p \in 1..len |-> V[((i + p - 2) % K) + 1]] : i \in 1..K}
      ELSE IF len = 3 /\ mode = "tied"
      THEN {<<V[i], V[j], V[((i + j) % K) + 1]>> : i \in 1..K, j \in 1..K}
      ELSE {[p \in 1..len |-> V[iv[p]]] : iv \in [1..len -> 1..K]}

SetRF ==
  /\ stage = "fields" /\ NeedRF /\ ~x.setRF
  /\ \/ \E v \in Vectors(x.n, IF x.fld = "AF" THEN "rot" ELSE IF FullThird THEN "full" ELSE "tied") : x' = [x EXCEPT !.hasRF = TRUE, !.rf = v, !.setRF = TRUE]
     \/ /\ x.tag = "none"
        /\ x' = [x EXCEPT !.setRF = TRUE]
  /\ UNCHANGED <<stage, cl, ty, exp>>

(* an A-length field of a record without ALT has no entries: VCF (and mchap  *)
(* assemble) write it as '.'                                                 *)
SetAF ==
  /\ stage = "fields" /\ NeedAF /\ ~x.setAF
  /\ \/ \E v \in Vectors(x.n - 1, "full") : x' = [x EXCEPT !.hasAF = TRUE, !.af = v, !.setAF = TRUE]
     \/ x' = [x EXCEPT !.setAF = TRUE]
  /\ UNCHANGED <<stage, cl, ty, exp>>

Ready == (NeedRF => x.setRF) /\ (NeedAF => x.setAF)

Decide ==
  /\ stage = "fields" /\ Ready
  /\ exp' = TLCEval(XExpect(x))
  /\ stage' = "done"
  /\ UNCHANGED <<x, cl, ty>>

Next == SetRF \/ SetAF \/ Decide
Spec == Init /\ [][Next]_vars

Done == stage = "done"

TypeOK == stage \in {"fields", "done"}

Tested == IF x.fld = "RF" THEN (IF x.hasRF THEN x.rf ELSE <<>>) ELSE (IF x.hasAF THEN x.af ELSE <<>>)

UnitsAgree == Done => UnitsAgreeOn(x, exp)
(* checked on the records without REFMASKED (the flag does not enter the comparison) *)
OnePassIsDeclarative == (Done /\ ~x.refmasked) => XExpectIsDeclarative(x, exp)

RefNeverRemoved == Done => exp.kept # <<>> /\ exp.kept[1] = 1
AltRemovedIffFails ==
  Done => /\ \A i \in 2..x.n : (\E j \in 1..Len(exp.kept) : exp.kept[j] = i) <=> XPasses(x, i)
          /\ \A j \in 1..(Len(exp.kept) - 1) : exp.kept[j] < exp.kept[j + 1]
          /\ \A i \in DOMAIN Tested : XPasses(x, IF x.fld = "RF" THEN i ELSE i + 1) <=> XHolds(x.op, Tested[i], x.thr)
MaskedIffRefFailsOrFlagged == Done => (exp.masked <=> (x.refmasked \/ (x.fld = "RF" /\ x.hasRF /\ ~XHolds(x.op, x.rf[1], x.thr))))
FreqSumsToOne == Done => exp.den = BnSum(exp.w)
NoMaskedUsable == Done => \A j \in exp.usable : ~(exp.kept[j] = 1 /\ exp.masked)
InvalidNeverAborts == Done => exp.outcome \in {"CALL", "NOA", "AF0"} /\ ((exp.outcome = "CALL") <=> (exp.den # <<>>))

(* ---- wrong definitions for the mutant configs --------------------------- *)
(* numbers compared after dropping everything beyond the 6th decimal         *)
Trunc6(q) == IF q.s <= 6 THEN q
             ELSE [m |-> BnStrip(SubSeq(ShiftDec(q.m, (4 - ((q.s - 6) % 4)) % 4),
                                         ((q.s - 6 + 3) \div 4) + 1,
                                         Len(ShiftDec(q.m, (4 - ((q.s - 6) % 4)) % 4)))),
                   s |-> 6]
MutCmp6(a, b) == LET p == Trunc6(a)
                     q == Trunc6(b)
                     S == Max2(p.s, q.s)
                 IN  BnCmp(At(p, S), At(q, S))
(* mantissas compared without regard to the position of the decimal point    *)
MutCmpMant(a, b) == BnCmp(a.m, b.m)

Dump ==
  IF Done
  THEN PrintT(<<"@@J", ToJson([x |-> x, cl |-> cl, ty |-> ty, kept |-> exp.kept, masked |-> exp.masked, w |-> exp.w,
                               den |-> exp.den, usable |-> [j \in 1..Len(exp.kept) |-> j \in exp.usable],
                               outcome |-> exp.outcome])>>)
  ELSE TRUE
=============================================================================
