SPECIFICATION Spec
CONSTANT Tier = "quick"
CONSTANT Mut = "none"
INVARIANT TypeOK
INVARIANT StepChoosesFirstMaximiser
INVARIANT ResultWellFormed
INVARIANT StartHasPositivePosterior
INVARIANT PloidyOneIsPosteriorMode
INVARIANT NeverStuck
INVARIANT Dump
CHECK_DEADLOCK FALSE
