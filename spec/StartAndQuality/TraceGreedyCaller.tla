------------------------- MODULE TraceGreedyCaller -------------------------
(* code -> spec for X01 (1): event traces recorded from the interpreted       *)
(* greedy_caller (direct calls on model / random instances, and every         *)
(* invocation made by `mchap call` / `mchap call-pedigree` on the             *)
(* repository's test data) are validated against the exact scores of          *)
(* CallModel.  One verdict per trace line.                                    *)
(*   begin  the instance the call received (haplotypes, read cells + counts,  *)
(*          frequency weights, inbreeding Fn/Fd, ploidy)                      *)
(*   step   slot i: the partial genotype it extends, the candidates scored    *)
(*          (in call order), the dense rank of the recorded float scores,     *)
(*   end    the returned genotype                                             *)
EXTENDS Integers, Sequences, FiniteSets, TLC, Json, IOUtils, CallModel

Trace == JsonDeserialize(IOEnv.TRACE_FILE)

VARIABLES l, inst, open, chosen, bad
vars == <<l, inst, open, chosen, bad>>

SortedOf(s) == SortSeq(s, LAMBDA x, y : x < y)
(* exact score of a (partial) allele vector: CallModel's joint numerator (Perms x urn factors x read         *)
(* numerators, one small factor per read copy: products of small factors stay cheap for hundreds of reads) *)
Score(i, v) == JBig(i, SortedOf(v))

SeqMaxInt(s) == CHOOSE x \in {s[k] : k \in 1..Len(s)} : \A k \in 1..Len(s) : s[k] <= x
FirstOfMax(s) == CHOOSE k \in 1..Len(s) : s[k] = SeqMaxInt(s) /\ \A j \in 1..(k - 1) : s[j] < s[k]

(* verdict of a step line: a record [v, row] (row = exact scores, printed on a score rejection so that the   *)
(* harness can recognise a numerical near-tie)                                                            *)
StepVerdict(e) ==
  IF ~open THEN [v |-> "StepWithoutBegin", row |-> <<>>]
  ELSE IF e.i # Len(chosen) THEN [v |-> "StepsInSlotOrder", row |-> <<>>]
  ELSE IF e.prefix # chosen THEN [v |-> "PrefixIsCommittedChoices", row |-> <<>>]
  ELSE IF e.sameprefix # 1 THEN [v |-> "CandidatesShareThePrefix", row |-> <<>>]
  ELSE IF e.cands # [a \in 1..inst.K |-> a - 1] THEN [v |-> "EveryHaplotypeIsACandidateInOrder", row |-> <<>>]
  ELSE IF Len(e.rank) # inst.K THEN [v |-> "EveryCandidateScored", row |-> <<>>]
  ELSE IF \E k \in 1..inst.K : e.rank[k] = 0 THEN [v |-> "ScoresAreNumbers", row |-> <<>>]
  ELSE LET row == TLCEval([a \in 1..inst.K |-> Score(inst, Append(chosen, a - 1))])
           pick == FirstOfMax(e.rank)
       IN  IF \E b \in 1..inst.K : BnLt(row[pick], row[b]) THEN [v |-> "ChoiceMaximisesExactScore", row |-> row]
           ELSE IF row[pick] = <<>> THEN [v |-> "ChoiceHasPositiveScore", row |-> row]
           ELSE [v |-> "ok", row |-> <<>>]

EndVerdict(e) ==
  IF ~open THEN "EndWithoutBegin"
  ELSE IF Len(chosen) # inst.P THEN "OneStepPerSlot"
  ELSE IF Len(e.result) # inst.P THEN "ResultHasPloidyEntries"
  ELSE IF ~IsSorted(e.result) THEN "ResultSorted"
  ELSE IF e.result # SortedOf(chosen) THEN "ResultIsSortedChoices"
  ELSE "ok"

Init == l = 1 /\ inst = <<>> /\ open = FALSE /\ chosen = <<>> /\ bad = 0
Next ==
  /\ l <= Len(Trace)
  /\ LET e == Trace[l] IN
     CASE e.op = "begin" ->
            /\ inst' = [P |-> e.P, Fn |-> e.Fn, Fd |-> e.Fd, K |-> e.K, N |-> e.N, H |-> e.H, w |-> e.w, reads |-> e.reads]
            /\ chosen' = <<>> /\ open' = TRUE
            /\ bad' = bad
       [] e.op = "step" ->
            LET sv == StepVerdict(e) IN
            /\ IF sv.v = "ok" THEN TRUE ELSE PrintT(<<"@@J", ToJson([reject |-> l, clause |-> sv.v, row |-> sv.row])>>)
            /\ bad' = IF sv.v = "ok" THEN bad ELSE bad + 1
            \* follow the implementation's own choice so that later lines are judged on their own
            /\ chosen' = IF open /\ Len(e.rank) > 0 THEN Append(chosen, e.cands[FirstOfMax(e.rank)]) ELSE chosen
            /\ UNCHANGED <<inst, open>>
       [] e.op = "end" ->
            LET v == EndVerdict(e) IN
            /\ IF v = "ok" THEN TRUE ELSE PrintT(<<"@@J", ToJson([reject |-> l, clause |-> v, row |-> <<>>])>>)
            /\ bad' = IF v = "ok" THEN bad ELSE bad + 1
            /\ inst' = <<>> /\ chosen' = <<>> /\ open' = FALSE
       [] OTHER ->
            /\ PrintT(<<"@@J", ToJson([reject |-> l, clause |-> "UnknownEvent", row |-> <<>>])>>)
            /\ bad' = bad + 1 /\ UNCHANGED <<inst, open, chosen>>
  /\ l' = l + 1
Spec == Init /\ [][Next]_vars
Consumed == (l = Len(Trace) + 1) => PrintT(<<"@@J", ToJson([consumed |-> l - 1, rejected |-> bad])>>)
=============================================================================
