-------------------------------- MODULE Mec --------------------------------
(* X01 (3): the per-sample read-fit fields MEC / MECP printed by assemble,   *)
(* call, call-exact and call-pedigree, and `read_assignment`.                *)
(*                                                                           *)
(* Documented definition (mchap.encoding.integer.stats, FORMAT header):      *)
(*   minimum error correction = the smallest number of base calls that have  *)
(*   to be "corrected" so that every read agrees with one haplotype of the   *)
(*   genotype; a gap (negative call) is never an error.                      *)
(*   MECP = MEC / (number of called bases), missing when nothing is called.  *)
(*   read_assignment: a read is shared equally (1/n) between the n           *)
(*   haplotypes that attain its minimum.                                     *)
(*                                                                           *)
(* The state machine performs the code's steps (one read per step: mismatch  *)
(* count against every haplotype, the minimum, the running sum); the         *)
(* invariants state the documented meaning declaratively: the final sum is   *)
(* the minimum, over ALL assignments of reads to haplotypes, of the number   *)
(* of mismatching called bases.                                              *)
EXTENDS Integers, Sequences, FiniteSets, TLC, Json, MecDefs

CONSTANTS Shapes,   \* set of records [N, A, P, R]: SNVs, alleles per SNV, ploidy, reads
          Mut       \* "none" or a seeded model mutation

VARIABLES shape, reads, geno, r, permin, argmin, total, called, pc
vars == <<shape, reads, geno, r, permin, argmin, total, called, pc>>

(* ---- instance space ------------------------------------------------------- *)
Cells(s) == [1..s.N -> -1..(s.A - 1)]          \* -1 = gap
Haps(s) == [1..s.N -> 0..(s.A - 1)]
RECURSIVE CodeFrom(_, _)
CodeFrom(c, j) == IF j = 0 THEN 0 ELSE (c[j] + 1) + 5 * CodeFrom(c, j - 1)
Code(c) == CodeFrom(c, Len(c))
NonDecreasing(rs) == \A i \in 1..(Len(rs) - 1) : Code(rs[i]) <= Code(rs[i + 1])

(* ---- the declarative definition ------------------------------------------- *)
RECURSIVE CostOf(_, _, _, _)
CostOf(rs, g, f, k) == IF k = 0 THEN 0 ELSE Mismatches(rs[k], g[f[k]]) + CostOf(rs, g, f, k - 1)
(* the minimum number of corrected base calls over every assignment of reads to haplotypes *)
ErrorCorrection(rs, g) ==
  IF Len(rs) = 0 THEN 0
  ELSE SetMin({CostOf(rs, g, f, Len(rs)) : f \in [1..Len(rs) -> 1..Len(g)]})
CalledBases(rs) == Cardinality({<<k, j>> \in (1..Len(rs)) \X (1..shape.N) : rs[k][j] >= 0})

(* ---- the code's steps ------------------------------------------------------- *)
(* mismatch count as the step computes it (mutable)                             *)
StepDiff(read, hap) ==
  IF Mut = "gapmismatch" THEN Cardinality({j \in 1..Len(read) : read[j] # hap[j]})
  ELSE Cardinality({j \in 1..Len(read) : read[j] # hap[j] /\ read[j] >= 0})
StepRow(read, g) == [h \in 1..Len(g) |-> StepDiff(read, g[h])]
RowMin(row) == IF Mut = "firsthap" THEN row[1]
               ELSE IF Mut = "max" THEN (CHOOSE x \in {row[h] : h \in 1..Len(row)} : \A h \in 1..Len(row) : row[h] <= x)
               ELSE SetMin({row[h] : h \in 1..Len(row)})

Init == /\ shape \in Shapes
        /\ reads \in {rs \in [1..shape.R -> Cells(shape)] : NonDecreasing(rs)}
        /\ geno \in [1..shape.P -> Haps(shape)]
        /\ r = 0 /\ permin = <<>> /\ argmin = <<>> /\ total = 0 /\ called = 0 /\ pc = "reads"

ProcessRead ==
  /\ pc = "reads" /\ r < Len(reads)
  /\ LET row == StepRow(reads[r + 1], geno)
         m == RowMin(row)
     IN  /\ permin' = Append(permin, m)
         /\ argmin' = Append(argmin, {h \in 1..Len(geno) : row[h] = m})
         /\ total' = total + m
         /\ called' = called + Cardinality({j \in 1..shape.N : reads[r + 1][j] >= 0})
  /\ r' = r + 1
  /\ UNCHANGED <<shape, reads, geno, pc>>
Finish ==
  /\ pc = "reads" /\ r = Len(reads)
  /\ pc' = "done"
  /\ UNCHANGED <<shape, reads, geno, r, permin, argmin, total, called>>
Next == ProcessRead \/ Finish
Spec == Init /\ [][Next]_vars

Done == pc = "done"

(* ---- invariants: the documented meaning -------------------------------------- *)
TypeOK == /\ r \in 0..Len(reads) /\ Len(permin) = r /\ Len(argmin) = r
          /\ total >= 0 /\ called >= 0
MecIsMinimumErrorCorrection == Done => total = ErrorCorrection(reads, geno)
PerReadIsMinimum ==
  \A k \in 1..r : /\ \A h \in 1..Len(geno) : permin[k] <= Mismatches(reads[k], geno[h])
                  /\ \E h \in 1..Len(geno) : permin[k] = Mismatches(reads[k], geno[h])
AssignmentIsArgmin ==       \* read_assignment: 1/n on exactly the haplotypes that attain the minimum
  \A k \in 1..r : /\ argmin[k] # {}
                  /\ argmin[k] = {h \in 1..Len(geno) : Mismatches(reads[k], geno[h]) = permin[k]}
CalledIsCalledBases == Done => called = CalledBases(reads)
MecWithinCalledBases == Done => total <= called           \* hence MECP in [0, 1]; missing iff called = 0
ZeroIffCompatible ==
  Done => (total = 0 <=> \A k \in 1..Len(reads) : \E h \in 1..Len(geno) : Mismatches(reads[k], geno[h]) = 0)
GapsNeverCount ==
  Done => \A k \in 1..Len(reads) : (\A j \in 1..shape.N : reads[k][j] = -1) => permin[k] = 0
HaplotypeOrderIrrelevant ==
  Done => total = ErrorCorrection(reads, [h \in 1..Len(geno) |-> geno[Len(geno) + 1 - h]])

(* ---- output for the conformance harness -------------------------------------- *)
Dump ==
  Done => PrintT(<<"@@J", ToJson([reads |-> reads, geno |-> geno, permin |-> permin,
                                  argmin |-> [k \in 1..Len(argmin) |-> [h \in 1..Len(geno) |-> IF h \in argmin[k] THEN 1 ELSE 0]],
                                  mec |-> total, called |-> called, A |-> shape.A])>>)

(* ---- tier constants ------------------------------------------------------------- *)
Sh(n, a, p, rr) == [N |-> n, A |-> a, P |-> p, R |-> rr]
ShapesQuick == {Sh(1, 2, 1, 1), Sh(1, 3, 2, 2), Sh(2, 2, 2, 2), Sh(2, 2, 3, 1), Sh(3, 2, 2, 1), Sh(2, 3, 2, 1),
                Sh(1, 2, 4, 3), Sh(2, 2, 1, 0), Sh(2, 3, 2, 2), Sh(3, 2, 2, 2)}
ShapesThorough == ShapesQuick \cup {Sh(2, 2, 3, 3), Sh(3, 2, 3, 1), Sh(1, 4, 3, 3), Sh(2, 2, 4, 2), Sh(4, 2, 2, 1),
                                   Sh(3, 3, 2, 1), Sh(3, 2, 3, 2), Sh(2, 3, 3, 2), Sh(2, 4, 2, 2), Sh(4, 2, 2, 2)}
ShapesMutant == {Sh(2, 2, 2, 2)}
=============================================================================
