SPECIFICATION Spec
CONSTANT Shapes <- ShapesMutant
CONSTANT Mut = "firsthap"
INVARIANT MecIsMinimumErrorCorrection
CHECK_DEADLOCK FALSE
