------------------------------- MODULE Phred -------------------------------
(* X01 (3): GQ / SQ = phred quality of (1 - probability), as printed by the  *)
(* four calling programs through mchap.io.util.qual_of_prob, and its         *)
(* companions prob_of_qual and qual_of_char.                                 *)
(*                                                                           *)
(* Documented behaviour (docstring of qual_of_prob):                         *)
(*   - the probability is treated to `precision` decimals (truncated),       *)
(*   - a probability of 1 cannot be converted: it is capped so that the      *)
(*     maximum quality is 10 * precision (60 for the default 6),             *)
(*   - the quality is the phred value -10 log10(1 - prob) as an integer      *)
(*     (nearest integer).                                                    *)
(*                                                                           *)
(* TLA+ has no logarithm.  With e = 10^Prec - floor(prob * 10^Prec) (the     *)
(* error probability in units of 10^-Prec, 1 <= e <= 10^Prec after the cap)  *)
(* "q is the nearest integer to -10 log10(e / 10^Prec)" is the integer       *)
(* statement                                                                 *)
(*     10^(2q-1) * e^20  <=  10^(20 Prec)  <  10^(2q+1) * e^20               *)
(* (no e in range sits exactly on a half: that would need e^20 to be an odd  *)
(* power of ten).  The quality is non-increasing in e, so it is a step       *)
(* function fixed by its thresholds  Thr(q) = least e whose quality is <= q. *)
(* The state machine finds every threshold by bisection (one comparison per  *)
(* step); the invariants check each found threshold against the declarative  *)
(* statement on both sides, monotonicity, and the documented cap.  The       *)
(* harness then evaluates qual_of_prob on EVERY e of 1..10^Prec (and         *)
(* sub-unit inputs) against the step function.                               *)
EXTENDS Integers, Sequences, TLC, Json, BigNat, PhredDefs

CONSTANTS Precisions,     \* set of precisions explored (the programs use 6)
          Mut             \* "none" or a seeded model mutation

VARIABLES prec, q, lo, hi, thr, pc
vars == <<prec, q, lo, hi, thr, pc>>

(* comparison the bisection step performs (mutable)                             *)
StepTest(e, qq, p) ==
  IF Mut = "floor" THEN BnLt(Pow10(20 * p), BnMul(E20(e), Pow10(2 * qq + 2)))     \* truncation instead of nearest
  ELSE IF Mut = "ceil" THEN BnLeq(Pow10(20 * p), BnMul(E20(e), Pow10(2 * qq)))    \* rounding up instead of nearest
  ELSE NotAbove(e, qq, p)

Init == /\ prec \in Precisions
        /\ q = 0 /\ lo = 1 /\ hi = Scale(prec)
        /\ thr = <<>>
        /\ pc = "bisect"

(* thr[q + 1] = Thr(q); search window lo..hi always contains it                  *)
Bisect ==
  /\ pc = "bisect" /\ lo < hi
  /\ LET mid == (lo + hi) \div 2
     IN  IF StepTest(mid, q, prec) THEN hi' = mid /\ lo' = lo ELSE lo' = mid + 1 /\ hi' = hi
  /\ UNCHANGED <<prec, q, thr, pc>>
Record ==
  /\ pc = "bisect" /\ lo = hi
  /\ thr' = Append(thr, lo)
  /\ IF q = MaxQ(prec) THEN pc' = "done" /\ q' = q /\ lo' = lo /\ hi' = hi
     ELSE pc' = pc /\ q' = q + 1 /\ lo' = 1 /\ hi' = lo        \* Thr(q + 1) <= Thr(q)
  /\ UNCHANGED prec
Next == Bisect \/ Record
Spec == Init /\ [][Next]_vars

Done == pc = "done"
Thr(qq) == thr[qq + 1]
(* quality of e read off the finished table: the least q with Thr(q) <= e         *)
QualOf(e) == CHOOSE qq \in 0..MaxQ(prec) : Thr(qq) <= e /\ (qq = 0 \/ Thr(qq - 1) > e)

(* ---- invariants ----------------------------------------------------------------- *)
TypeOK == /\ 1 <= lo /\ lo <= hi /\ hi <= Scale(prec) /\ q \in 0..MaxQ(prec) /\ Len(thr) <= MaxQ(prec) + 1
JustRecorded == Len(thr) > 0 /\ (Done \/ (lo = 1 /\ hi = thr[Len(thr)] /\ q = Len(thr)))
ThresholdsExact ==       \* every recorded threshold is the least e whose quality is <= q (both sides checked,
                         \* evaluated in the state that follows its Record step)
  JustRecorded => LET k == Len(thr)
                  IN  /\ NotAbove(thr[k], k - 1, prec)
                      /\ thr[k] = 1 \/ ~NotAbove(thr[k] - 1, k - 1, prec)
ThresholdsMonotone == \A k \in 2..Len(thr) : thr[k] <= thr[k - 1]
WindowHoldsThreshold ==  \* bisection invariant: the answer is never outside lo..hi
  pc = "bisect" => /\ StepTest(hi, q, prec)
                   /\ lo = 1 \/ ~StepTest(lo - 1, q, prec)
BandsAreNearestInteger ==   \* both ends of every non-empty band satisfy the two-sided statement
  Done => \A qq \in 0..MaxQ(prec) :
            LET a == Thr(qq)
                b == IF qq = 0 THEN Scale(prec) ELSE Thr(qq - 1) - 1
            IN  a <= b => IsQual(a, qq, prec) /\ IsQual(b, qq, prec)
DocumentedCap ==            \* "a precision of 6 produces a max qual of 60": e = 1 gives 10 * precision, prob 0 gives 0
  Done => /\ Thr(MaxQ(prec)) = 1 /\ IsQual(1, MaxQ(prec), prec)
          /\ IsQual(Scale(prec), 0, prec) /\ Thr(0) <= Scale(prec)
PowersOfTen ==              \* prob = 1 - 10^-k gives quality 10 k exactly
  Done => \A k \in 0..prec : QualOf(Scale(prec - k)) = 10 * k

(* ---- output for the conformance harness ------------------------------------------- *)
Dump == Done => PrintT(<<"@@J", ToJson([prec |-> prec, thr |-> thr])>>)
=============================================================================
