SPECIFICATION Spec
CONSTANT Precisions = {1, 2, 3, 4, 5, 6}
CONSTANT Mut = "none"
INVARIANT TypeOK
INVARIANT ThresholdsExact
INVARIANT ThresholdsMonotone
INVARIANT WindowHoldsThreshold
INVARIANT BandsAreNearestInteger
INVARIANT DocumentedCap
INVARIANT PowersOfTen
INVARIANT Dump
CHECK_DEADLOCK FALSE
