----------------------------- MODULE StartState -----------------------------
(* X01 (2): the start of one `mchap assemble` chain, DenovoMCMC._mcmc up to   *)
(* the call of the sampler.                                                  *)
(*                                                                           *)
(* Documented behaviour (DenovoMCMC docstrings, docs/assemble.rst):          *)
(*   - SNVs judged homozygous are fixed and removed; the sampler works on    *)
(*     the remaining ("heterozygous") columns with their allele counts;      *)
(*   - if no initial genotype is given it is set "by sampling <ploidy>       *)
(*     random haplotypes from the mean allele probabilities among all        *)
(*     reads";                                                               *)
(*   - n_alleles: "number of possible alleles at each position": a genotype  *)
(*     has allele index < n_alleles[j] at every SNV j -- also at SNVs that   *)
(*     no read covers;                                                       *)
(*   - temperatures: "inverse temperatures ... in ascending order with the   *)
(*     final value being 1"; the ladder is sorted before use and must end    *)
(*     in 1.0 and start >= 0; one chain per temperature, all chains start    *)
(*     from the same genotype.                                               *)
(*                                                                           *)
(* Reads are rows of cells (-1 = gap, a >= 0 = call of allele a with          *)
(* P(correct) = 7/8, the other alleles of the SNV 1/24 each, indices beyond   *)
(* the SNV's allele count 0).  Distributions are integer numerators over a    *)
(* common denominator.  Temperatures are integers in quarters (4 = 1.0).     *)
EXTENDS Integers, Sequences, FiniteSets, TLC, Json

CONSTANTS Tier, Mut

VARIABLES inst, het, dist, geno, ladder, pc
vars == <<inst, het, dist, geno, ladder, pc>>

(* ---- instance space ---------------------------------------------------------- *)
SeqMax(s) == CHOOSE x \in {s[i] : i \in 1..Len(s)} : \A i \in 1..Len(s) : s[i] <= x
SeqMin(s) == CHOOSE x \in {s[i] : i \in 1..Len(s)} : \A i \in 1..Len(s) : x <= s[i]
CellRows(A) == {c \in [1..Len(A) -> -1..(SeqMax(A) - 1)] : \A j \in 1..Len(A) : c[j] < A[j]}
RECURSIVE CodeFrom(_, _)
CodeFrom(c, j) == IF j = 0 THEN 0 ELSE (c[j] + 1) + 5 * CodeFrom(c, j - 1)
Code(c) == CodeFrom(c, Len(c))
ReadSets(A, maxRows) ==      \* sets of distinct rows as increasing sequences (the mean is over the rows given)
  LET rows == CellRows(A)
  IN  {<<>>} \cup {<<c>> : c \in rows}
      \cup (IF maxRows >= 2 THEN {<<c1, c2>> : <<c1, c2>> \in {p \in rows \X rows : Code(p[1]) < Code(p[2])}} ELSE {})
Mk(A, P, rs, fx, ts) == [A |-> A, P |-> P, reads |-> rs, fixed |-> fx, temps |-> ts]
ReadGrid(As, Ps, maxRows, fixedSets) ==
  {Mk(x[1], p, x[2], fx, <<4>>) :
     x \in UNION {{<<A, rs>> : rs \in ReadSets(A, maxRows)} : A \in As}, p \in Ps,
     fx \in fixedSets}
LadderSet == {<<4>>, <<2, 4>>, <<4, 2>>, <<1, 2, 4>>, <<4, 1, 2>>, <<2, 4, 1>>, <<0, 4>>, <<4, 4>>, <<3, 3, 4>>,
              <<2>>, <<2, 3>>, <<4, 5>>, <<5>>, <<-1, 4>>, <<4, -2, 2>>, <<0>>, <<2, 1, 4>>}
LadderGrid == {Mk(<<2>>, 2, << <<0>> >>, {}, ts) : ts \in LadderSet}
InstancesOf(t) ==
  IF t = "quick" THEN
      ReadGrid({<<2>>, <<3>>, <<2, 3>>, <<3, 2>>}, {1, 2}, 2, {{}})
      \cup ReadGrid({<<2, 3>>, <<3, 2>>, <<2, 2>>}, {2}, 1, {{1}, {2}, {1, 2}})
      \cup ReadGrid({<<2, 2, 3>>}, {1}, 1, {{}, {3}})
      \cup LadderGrid
  ELSE IF t = "thorough" THEN
      ReadGrid({<<2>>, <<3>>, <<4>>, <<2, 3>>, <<3, 2>>, <<2, 4>>}, {1, 2}, 2, {{}})
      \cup ReadGrid({<<2, 3>>, <<3, 2>>}, {3}, 1, {{}})
      \cup ReadGrid({<<2, 3>>, <<3, 2>>, <<2, 2>>, <<4, 2>>}, {2}, 2, {{1}, {2}, {1, 2}})
      \cup ReadGrid({<<2, 2, 3>>, <<3, 2, 2>>}, {1, 2}, 1, {{}, {3}, {1, 3}})
      \cup LadderGrid
  ELSE  ReadGrid({<<2, 3>>}, {2}, 1, {{}}) \cup {Mk(<<2>>, 2, << <<0>> >>, {}, <<4, 2>>), Mk(<<2>>, 2, << <<0>> >>, {}, <<2, 3>>), Mk(<<2>>, 2, << <<0>> >>, {}, <<2, 1, 4>>)}
Instances == InstancesOf(Tier)

(* ---- definitions --------------------------------------------------------------- *)
N == Len(inst.A)
MaxA == SeqMax(inst.A)
Covering(j) == {k \in 1..Len(inst.reads) : inst.reads[k][j] >= 0}
(* 24 x probability that read k shows allele x at SNV j (x 0-based)                *)
Cell24(k, j, x) == IF x >= inst.A[j] THEN 0 ELSE IF inst.reads[k][j] = x THEN 21 ELSE 1
RECURSIVE SumOver(_, _, _)
SumOver(S, j, x) == IF S = {} THEN 0 ELSE LET k == CHOOSE y \in S : TRUE IN Cell24(k, j, x) + SumOver(S \ {k}, j, x)
ColSum(j, x) == SumOver(Covering(j), j, x)
RECURSIVE SeqSum(_, _)
SeqSum(s, n) == IF n = 0 THEN 0 ELSE s[n] + SeqSum(s, n - 1)
HetCols == {j \in 1..N : j \notin inst.fixed}
SetToAsc(S) == LET n == Cardinality(S)
                   f == CHOOSE g \in [1..n -> S] : \A a, b \in 1..n : a < b => g[a] < g[b]
               IN  [i \in 1..n |-> f[i]]

(* the mean allele distribution of one column: numerators num[x+1] over den        *)
MeanDist(j) ==
  LET n == Cardinality(Covering(j))
      a == inst.A[j]
  IN  IF n = 0
      THEN IF Mut = "gapfill"      \* every slot of the widest SNV gets the same mass
           THEN [num |-> [x \in 1..MaxA |-> 1], den |-> MaxA]
           ELSE [num |-> [x \in 1..MaxA |-> IF x <= a THEN 1 ELSE 0], den |-> a]
      ELSE [num |-> [x \in 1..MaxA |-> ColSum(j, x - 1)], den |-> (20 + a) * n]

Init == /\ inst \in Instances
        /\ het = <<>> /\ dist = <<>> /\ geno = <<>> /\ ladder = <<>>
        /\ pc = "split"

Split ==            \* remove the SNVs fixed as homozygous
  /\ pc = "split"
  /\ het' = SetToAsc(HetCols)
  /\ pc' = IF HetCols = {} THEN "allfixed" ELSE "dist"
  /\ UNCHANGED <<inst, dist, geno, ladder>>
Dist ==             \* mean allele probabilities of the remaining columns
  /\ pc = "dist"
  /\ dist' = TLCEval([c \in 1..Len(het) |-> MeanDist(het[c])])
  /\ pc' = "draw"
  /\ UNCHANGED <<inst, het, geno, ladder>>
DrawHaplotype(v) == \* one random haplotype: every allele has positive probability in its column
  /\ pc = "draw" /\ Len(geno) < inst.P
  /\ \A c \in 1..Len(het) : dist[c].num[v[c] + 1] > 0
  /\ geno' = Append(geno, v)
  /\ pc' = IF Len(geno) + 1 = inst.P THEN "ladder" ELSE "draw"
  /\ UNCHANGED <<inst, het, dist, ladder>>
SortLadder ==
  /\ pc = "ladder"
  /\ ladder' = IF Mut = "nosortladder" THEN inst.temps ELSE SortSeq(inst.temps, LAMBDA a, b : a < b)
  /\ pc' = "check"
  /\ UNCHANGED <<inst, het, dist, geno>>
CheckLadder ==      \* assert temperatures[0] >= 0 and temperatures[-1] == 1.0
  /\ pc = "check"
  /\ pc' = IF Mut = "nolastcheck" THEN (IF ladder[1] >= 0 THEN "running" ELSE "rejected")
           ELSE IF ladder[1] >= 0 /\ ladder[Len(ladder)] = 4 THEN "running" ELSE "rejected"
  /\ UNCHANGED <<inst, het, dist, geno, ladder>>
Next == Split \/ Dist \/ (\E v \in [1..Len(het) -> 0..(MaxA - 1)] : DrawHaplotype(v)) \/ SortLadder \/ CheckLadder
Spec == Init /\ [][Next]_vars

Running == pc = "running"

(* ---- invariants -------------------------------------------------------------------- *)
TypeOK == /\ Len(geno) <= inst.P
          /\ pc \in {"split", "allfixed", "dist", "draw", "ladder", "check", "running", "rejected"}
HetColumnsOnly == pc # "split" => /\ Len(het) = Cardinality(HetCols)
                                  /\ \A c \in 1..Len(het) : het[c] \in HetCols
                                  /\ \A c \in 1..(Len(het) - 1) : het[c] < het[c + 1]
DistIsProper ==        \* a distribution over the alleles of the SNV: sums to one, no mass outside 0..A[j]-1
  \A c \in 1..Len(dist) :
     /\ SeqSum(dist[c].num, MaxA) = dist[c].den
     /\ \A x \in 1..MaxA : (x > inst.A[het[c]] => dist[c].num[x] = 0) /\ (x <= inst.A[het[c]] => dist[c].num[x] > 0)
DistIsReadMean ==      \* covered columns: proportional to the column sums of the read probabilities
  \A c \in 1..Len(dist) :
     LET j == het[c]
         tot == SeqSum([x \in 1..MaxA |-> ColSum(j, x - 1)], MaxA)
     IN  Covering(j) # {} => \A x \in 1..MaxA : dist[c].num[x] * tot = ColSum(j, x - 1) * dist[c].den
StartInGenotypeSpace ==   \* every allele of the start state is an allele of its SNV (covered or not)
  \A h \in 1..Len(geno) : /\ Len(geno[h]) = Len(het)
                          /\ \A c \in 1..Len(het) : geno[h][c] \in 0..(inst.A[het[c]] - 1)
LadderAscendingEndsCold ==
  Running => /\ Len(ladder) = Len(inst.temps)
             /\ \A t \in 1..(Len(ladder) - 1) : ladder[t] <= ladder[t + 1]
             /\ ladder[Len(ladder)] = 4
             /\ ladder[1] >= 0
RejectedIffBadLadder ==
  pc \in {"running", "rejected"} => (pc = "rejected" <=> (SeqMax(inst.temps) # 4 \/ SeqMin(inst.temps) < 0))
RunningStartComplete == Running => Len(geno) = inst.P

(* ---- output for the conformance harness ------------------------------------------- *)
Dump ==
  (pc \in {"running", "rejected", "allfixed"}) =>
     PrintT(<<"@@J", ToJson([inst |-> [A |-> inst.A, P |-> inst.P, reads |-> inst.reads,
                                       fixed |-> [j \in 1..N |-> IF j \in inst.fixed THEN 1 ELSE 0], temps |-> inst.temps],
                             end |-> pc, het |-> het, dist |-> dist, geno |-> geno, ladder |-> ladder])>>)
=============================================================================
