---------------------------- MODULE GreedyCaller ----------------------------
(* X01 (1): the start state of the known-haplotype samplers (`mchap call`,   *)
(* `mchap call-pedigree`): mchap.calling.mcmc.greedy_caller.                 *)
(*                                                                           *)
(* Mechanism: the genotype is built one allele at a time.  Step i scans the  *)
(* K known haplotypes in index order, scores the partial genotype            *)
(* (already chosen alleles + candidate) by likelihood x prior of a genotype  *)
(* of ploidy i, and keeps the FIRST candidate with the strictly largest      *)
(* score.  After `ploidy` steps the alleles are sorted.                      *)
(*                                                                           *)
(* Scores are the exact integer weights of CallModel (the model call-exact   *)
(* enumerates): J(G) = Perms(G) x Polya-urn prior factors x read mixture     *)
(* numerators.  Within one step every candidate genotype has the same size,  *)
(* so the common denominators cancel and integer comparison is exact.        *)
(*                                                                           *)
(* State machine = the code's steps (Consider one candidate, Commit the      *)
(* best, Finish = sort).  Invariants = the guarantees, stated declaratively  *)
(* over the whole candidate set (independent of the scan).                   *)
EXTENDS Integers, Sequences, FiniteSets, TLC, Json, CallModel

CONSTANTS Tier,         \* "quick" | "thorough" | "mutant": which instance grid (set of descriptors [m, P, Fn, pat, bag])
          Mut           \* "none" or a seeded model mutation

RD(c, n) == [cells |-> c, cnt |-> n]
MkInst(d) == [P |-> d.P, m |-> d.m, Fn |-> d.Fn, Fd |-> 4, pat |-> d.pat,
              K |-> NHap(d.m), N |-> NSnv(d.m), H |-> Hap(d.m), A |-> NAll(d.m),
              w |-> Weights(d.pat, NHap(d.m)), reads |-> d.bag]

(* ---- tier constants --------------------------------------------------------------- *)
Bags(m, cnts, maxDistinct) ==
  LET al == ReadAlphabet(m)
      one == {<<RD(c, n)>> : c \in al, n \in cnts}
      two == {<<RD(c1, n1), RD(c2, n2)>> : <<c1, c2>> \in {p \in al \X al : Code(p[1]) < Code(p[2])}, <<n1, n2>> \in cnts \X cnts}
  IN  {<<>>} \cup one \cup (IF maxDistinct >= 2 THEN two ELSE {})
Grid(ms, ps, fs, pats, cnts, md) ==
  {[m |-> m, P |-> p, Fn |-> f, pat |-> pt, bag |-> b] :
     <<m, b>> \in UNION {{<<mm, bb>> : bb \in Bags(mm, cnts, md)} : mm \in ms}, p \in ps, f \in fs, pt \in {q \in pats : \A mm \in ms : PatternOK(q, NHap(mm))}}
InstancesOf(t) ==
  IF t = "quick" THEN
                  Grid({"K2N1"}, {1, 2, 3, 4}, {0, 1, 3}, {"flat", "skew", "lastzero"}, {1, 2}, 2)
                  \cup Grid({"K3N2"}, {1, 2, 3, 4}, {0, 1, 3}, {"flat", "dom", "refzero"}, {1, 3}, 2)
                  \cup Grid({"K4N3"}, {2, 3, 4}, {0, 1, 3}, {"flat", "skew", "refzero"}, {1, 2}, 2)
  ELSE IF t = "thorough" THEN
                     Grid({"K2N1", "K3N1", "K2N3"}, {1, 2, 3, 4}, {0, 1, 2, 3}, {"flat", "skew", "dom", "lastzero", "refzero"}, {1, 2, 3}, 2)
                     \cup Grid({"K3N2"}, {1, 2, 3, 4}, {0, 1, 2, 3}, {"flat", "skew", "dom", "lastzero", "refzero"}, {1, 3}, 2)
                     \cup Grid({"K4N2"}, {1, 2, 3, 4}, {0, 1, 2, 3}, {"flat", "skew", "dom", "lastzero", "refzero"}, {1, 2, 3}, 2)
                     \cup Grid({"K4N3"}, {1, 2, 3, 4}, {0, 1, 2, 3}, {"flat", "skew", "dom", "lastzero", "refzero"}, {1, 2, 3}, 2)
  ELSE  Grid({"K3N2"}, {2, 3}, {0, 1}, {"flat", "skew"}, {1, 3}, 2)
(* evaluated once when TLC starts (zero-arity constant definitions are pre-evaluated), only for the chosen tier *)
Instances == InstancesOf(Tier)

VARIABLES inst, g, cand, best, bestW, row, rows, built, pc
vars == <<inst, g, cand, best, bestW, row, rows, built, pc>>

SortedOf(s) == SortSeq(s, LAMBDA x, y : x < y)
(* the declarative score of a (partial) allele vector                          *)
J(i, v) == JBig(i, SortedOf(v))
(* the score as the scan computes it (mutable)                                 *)
StepW(i, v) == IF Mut = "noprior" THEN LBig(i, SortedOf(v))
               ELSE IF Mut = "noperms" THEN MulAll(<<1>>, UrnFactors(i, v) \o ReadFactors(i, SortedOf(v)))
               ELSE J(i, v)
Better(new, old) == IF Mut = "geq" THEN new # <<>> /\ BnLeq(old, new) ELSE BnLt(old, new)

Init == /\ \E d \in Instances : inst = TLCEval(MkInst(d))
        /\ g = <<>> /\ cand = 0 /\ best = -1 /\ bestW = <<>> /\ row = <<>> /\ rows = <<>> /\ built = <<>>
        /\ pc = "scan"

Consider ==          \* score candidate `cand` for the next slot; keep it if strictly better
  /\ pc = "scan" /\ cand < inst.K
  /\ LET wt == TLCEval(StepW(inst, Append(g, cand)))
     IN  /\ row' = Append(row, wt)
         /\ IF Better(wt, bestW) THEN best' = cand /\ bestW' = wt ELSE best' = best /\ bestW' = bestW
  /\ cand' = cand + 1
  /\ UNCHANGED <<inst, g, rows, built, pc>>
Commit ==            \* greedy choice for this slot
  /\ pc = "scan" /\ cand = inst.K /\ best >= 0
  /\ g' = Append(g, best)
  /\ rows' = Append(rows, row)
  /\ cand' = 0 /\ best' = -1 /\ bestW' = <<>> /\ row' = <<>>
  /\ pc' = IF Len(g) + 1 = inst.P THEN "sort" ELSE "scan"
  /\ UNCHANGED <<inst, built>>
Finish ==
  /\ pc = "sort"
  /\ built' = g
  /\ g' = IF Mut = "nosort" THEN g ELSE SortedOf(g)
  /\ pc' = "done"
  /\ UNCHANGED <<inst, cand, best, bestW, row, rows>>
Next == Consider \/ Commit \/ Finish
Spec == Init /\ [][Next]_vars

Alleles == 0..(inst.K - 1)
Done == pc = "done"
ScanComplete == pc = "scan" /\ cand = inst.K

(* ---- invariants ----------------------------------------------------------------- *)
TypeOK == /\ cand \in 0..inst.K /\ best \in -1..(inst.K - 1) /\ Len(g) <= inst.P
          /\ \A h \in 1..Len(g) : g[h] \in Alleles
          /\ Len(rows) = (IF pc = "scan" THEN Len(g) ELSE inst.P)
StepChoosesFirstMaximiser ==     \* the committed allele maximises likelihood x prior of the partial genotype; ties: first
  ScanComplete =>
    LET jr == TLCEval([a \in 1..inst.K |-> J(inst, Append(g, a - 1))])
        IsMax(a) == \A b \in 1..inst.K : BnLeq(jr[b], jr[a])
    IN  /\ best >= 0
        /\ IsMax(best + 1)
        /\ \A b \in 1..best : ~IsMax(b)
        /\ jr[best + 1] # <<>>
ResultWellFormed ==
  Done => /\ Len(g) = inst.P /\ IsSorted(g) /\ \A h \in 1..Len(g) : g[h] \in Alleles
          /\ g = SortedOf(built)
StartHasPositivePosterior ==     \* the sampler never starts outside the support of the call-exact posterior
  Done => /\ JBig(inst, g) # <<>>
          /\ \A h \in 1..Len(g) : inst.w[g[h] + 1] > 0
PloidyOneIsPosteriorMode ==
  (Done /\ inst.P = 1) => \A a \in Alleles : BnLeq(JBig(inst, <<a>>), JBig(inst, g))
NeverStuck == ScanComplete => best >= 0
(* not an invariant (Info_mode.cfg expects a counterexample): greedy = posterior mode *)
GreedyIsPosteriorMode ==
  Done => \A G \in AllSorted(inst.P, inst.K) : BnLeq(JBig(inst, G), JBig(inst, g))

(* ---- output for the conformance harness ---------------------------------------- *)
Dump ==
  Done => PrintT(<<"@@J", ToJson([key |-> [m |-> inst.m, P |-> inst.P, Fn |-> inst.Fn, pat |-> inst.pat],
                                  inst |-> inst, order |-> built, final |-> g, rows |-> rows])>>)

=============================================================================
