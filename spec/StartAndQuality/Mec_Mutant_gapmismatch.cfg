SPECIFICATION Spec
CONSTANT Shapes <- ShapesMutant
CONSTANT Mut = "gapmismatch"
INVARIANT MecIsMinimumErrorCorrection
CHECK_DEADLOCK FALSE
