SPECIFICATION Spec
CONSTANT Tier = "mutant"
CONSTANT Mut = "nosort"
INVARIANT ResultWellFormed
CHECK_DEADLOCK FALSE
