------------------------------ MODULE MecDefs ------------------------------
(* The documented meaning of a read / haplotype mismatch count (shared by     *)
(* Mec.tla and TraceQuality.tla): called bases that differ; a gap (negative   *)
(* call) is never an error.                                                   *)
EXTENDS Integers, Sequences, FiniteSets

Mismatches(read, hap) == Cardinality({j \in 1..Len(read) : read[j] >= 0 /\ read[j] # hap[j]})
SetMin(S) == CHOOSE x \in S : \A y \in S : x <= y
MinMismatches(read, g) == SetMin({Mismatches(read, g[h]) : h \in 1..Len(g)})
CalledIn(read) == Cardinality({j \in 1..Len(read) : read[j] >= 0})
=============================================================================
