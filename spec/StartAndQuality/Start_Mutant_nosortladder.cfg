SPECIFICATION Spec
CONSTANT Tier = "mutant"
CONSTANT Mut = "nosortladder"
INVARIANT LadderAscendingEndsCold
CHECK_DEADLOCK FALSE
