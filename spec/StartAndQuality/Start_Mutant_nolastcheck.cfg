SPECIFICATION Spec
CONSTANT Tier = "mutant"
CONSTANT Mut = "nolastcheck"
INVARIANT LadderAscendingEndsCold
CHECK_DEADLOCK FALSE
