SPECIFICATION Spec
CONSTANT Tier = "mutant"
CONSTANT Mut = "gapfill"
INVARIANT StartInGenotypeSpace
CHECK_DEADLOCK FALSE
