SPECIFICATION Spec
CONSTANT Shapes <- ShapesQuick
CONSTANT Mut = "none"
INVARIANT TypeOK
INVARIANT MecIsMinimumErrorCorrection
INVARIANT PerReadIsMinimum
INVARIANT AssignmentIsArgmin
INVARIANT CalledIsCalledBases
INVARIANT MecWithinCalledBases
INVARIANT ZeroIffCompatible
INVARIANT GapsNeverCount
INVARIANT HaplotypeOrderIrrelevant
INVARIANT Dump
CHECK_DEADLOCK FALSE
