----------------------------- MODULE PhredDefs -----------------------------
(* Integer statement of "q is the nearest integer to -10 log10(e / 10^p)"     *)
(* (shared by Phred.tla and TraceQuality.tla); see Phred.tla for the          *)
(* derivation.  e = error probability in units of 10^-p, 1 <= e <= 10^p.      *)
EXTENDS Integers, Sequences, BigNat

(* 10^n as limbs (base 10^4): n div 4 zero limbs, then 10^(n mod 4)             *)
Pow10(n) == [i \in 1..(n \div 4) |-> 0] \o <<(CASE n % 4 = 0 -> 1 [] n % 4 = 1 -> 10 [] n % 4 = 2 -> 100 [] OTHER -> 1000)>>
E20(e) == LET b == BnFromNat(e)
              e2 == BnMul(b, b)
              e4 == BnMul(e2, e2)
              e5 == BnMul(e4, b)
              e10 == BnMul(e5, e5)
          IN  BnMul(e10, e10)
Scale(p) == CASE p = 0 -> 1 [] p = 1 -> 10 [] p = 2 -> 100 [] p = 3 -> 1000 [] p = 4 -> 10000 [] p = 5 -> 100000 [] OTHER -> 1000000
MaxQ(p) == 10 * p

(* the declarative statements about one (e, q), precision p                    *)
NotAbove(e, qq, p) == BnLt(Pow10(20 * p), BnMul(E20(e), Pow10(2 * qq + 1)))      \* quality(e) < qq + 1/2
NotBelow(e, qq, p) == BnLeq(BnMul(E20(e), Pow10(2 * qq)), Pow10(20 * p + 1))     \* quality(e) >= qq - 1/2
IsQual(e, qq, p) == NotAbove(e, qq, p) /\ NotBelow(e, qq, p)

=============================================================================
