SPECIFICATION Spec
CONSTANT Precisions = {2, 3, 6}
CONSTANT Mut = "none"
INVARIANT TypeOK
INVARIANT ThresholdsExact
INVARIANT ThresholdsMonotone
INVARIANT WindowHoldsThreshold
INVARIANT BandsAreNearestInteger
INVARIANT DocumentedCap
INVARIANT PowersOfTen
INVARIANT Dump
CHECK_DEADLOCK FALSE
