---------------------------- MODULE TraceQuality ----------------------------
(* code -> spec for X01 (2) and (3): what the real code did, judged line by   *)
(* line against the definitions of Mec.tla / Phred.tla / StartState.tla.      *)
(*                                                                            *)
(*  sample  one sample of one record printed by assemble / call / call-exact  *)
(*          / call-pedigree: the read calls (distinct rows + counts) and the   *)
(*          genotype (haplotype rows) handed to the MEC computation, the       *)
(*          internal GPM / SPM as candidate integers of floor(prob * 10^6),    *)
(*          and the PRINTED MEC, MECP (x 1000), GQ, SQ (-1 = missing)          *)
(*  start   the state handed to the assemble sampler: start genotype, allele   *)
(*          counts of the sampled SNVs, inverse temperatures (x 10^6), and     *)
(*          (interpreted runs) every random_choice row with its draw           *)
(*  poq     prob_of_qual(q) as error units 10^6 (1 - p) rounded                *)
(*  qoc     qual_of_char(c)                                                    *)
EXTENDS Integers, Sequences, FiniteSets, TLC, Json, IOUtils, PhredDefs, MecDefs

Trace == JsonDeserialize(IOEnv.TRACE_FILE)

VARIABLES l, bad
vars == <<l, bad>>

RECURSIVE SumReads(_, _, _)
SumReads(rs, g, k) == IF k = 0 THEN 0 ELSE rs[k].cnt * MinMismatches(rs[k].cells, g) + SumReads(rs, g, k - 1)
RECURSIVE SumCalled(_, _)
SumCalled(rs, k) == IF k = 0 THEN 0 ELSE rs[k].cnt * CalledIn(rs[k].cells) + SumCalled(rs, k - 1)
Abs(x) == IF x < 0 THEN -x ELSE x
Cap(m) == IF m > 999999 THEN 999999 ELSE m          \* a probability of 1 is treated as 1 - 10^-6
PhredOk(q, cands) == q >= 0 /\ q <= 60 /\ \E k \in 1..Len(cands) : IsQual(1000000 - Cap(cands[k]), q, 6)

SampleVerdict(e) ==
  IF e.missing = 1                        \* invalid scenario (no valid allele): every quality field is missing
  THEN (IF e.mec = -1 /\ e.mecp = -1 /\ e.gq = -1 /\ e.sq = -1 THEN "ok" ELSE "UncalledSampleHasNoQualityFields")
  ELSE IF Len(e.geno) # e.P THEN "GenotypeHasPloidyRows"
  ELSE LET m == SumReads(e.reads, e.geno, Len(e.reads))
           c == SumCalled(e.reads, Len(e.reads))
       IN  IF e.mec # m THEN "MecIsSumOfPerReadMinimum"
           ELSE IF e.rcalls # -1 /\ c # e.rcalls THEN "CalledBasesAreRCALLS"
           ELSE IF c = 0 /\ e.mecp # -1 THEN "MecpMissingWithoutCalls"
           ELSE IF c > 0 /\ e.mecp = -1 THEN "MecpPresentWithCalls"
           ELSE IF c > 0 /\ 2 * Abs(e.mecp * c - 1000 * m) > c + 1 THEN "MecpIsMecOverCalledBases"
           ELSE IF m > c THEN "MecWithinCalledBases"
           ELSE IF ~PhredOk(e.gq, e.gpm) THEN "GqIsPhredOfGenotypeProbability"
           ELSE IF ~PhredOk(e.sq, e.spm) THEN "SqIsPhredOfSupportProbability"
           ELSE IF e.sq < e.gq THEN "SupportAtLeastGenotypeQuality"
           ELSE "ok"

StartVerdict(e) ==
  LET n == Len(e.n_alleles)
      T == Len(e.temps)
  IN  IF Len(e.geno) # e.P THEN "StartHasPloidyRows"
      ELSE IF \E h \in 1..e.P : Len(e.geno[h]) # n THEN "StartRowsCoverSampledSnvs"
      ELSE IF \E h \in 1..e.P, c \in 1..n : e.geno[h][c] < 0 \/ e.geno[h][c] >= e.n_alleles[c] THEN "StartInGenotypeSpace"
      ELSE IF T = 0 THEN "LadderNonEmpty"
      ELSE IF \E t \in 1..(T - 1) : e.temps[t] > e.temps[t + 1] THEN "LadderAscending"
      ELSE IF e.temps[T] # 1000000 THEN "LadderEndsCold"
      ELSE IF e.temps[1] < 0 THEN "LadderNonNegative"
      ELSE IF Len(e.draws) = 0 THEN "ok"
      ELSE IF Len(e.draws) # e.P * n THEN "OneDrawPerHaplotypeAndSnv"
      ELSE IF \E h \in 1..e.P, c \in 1..n : e.draws[(h - 1) * n + c].x # e.geno[h][c] THEN "StartIsTheDraws"
      ELSE IF \E k \in 1..(e.P * n) : e.draws[k].p[e.draws[k].x + 1] <= 0 THEN "DrawHasPositiveMass"
      ELSE IF \E h \in 1..e.P, c \in 1..n : \E x \in 1..Len(e.draws[(h - 1) * n + c].p) :
                  x > e.n_alleles[c] /\ e.draws[(h - 1) * n + c].p[x] > 0 THEN "NoMassOutsideTheSnvAlleles"
      ELSE "ok"

(* |e - 10^(6 - q/10)| <= 1  <=>  (e-1)^10 <= 10^(60-q) <= (e+1)^10  (both sides scaled to integers)          *)
P10(b) == LET x == BnFromNat(b)  x2 == BnMul(x, x)  x4 == BnMul(x2, x2)  x5 == BnMul(x4, x) IN BnMul(x5, x5)
PoqVerdict(e) ==
  LET up == IF e.q > 60 THEN e.q - 60 ELSE 0
      dn == IF e.q < 60 THEN 60 - e.q ELSE 0
      lo == IF e.e >= 1 THEN e.e - 1 ELSE 0
  IN  IF e.e < 0 \/ e.e > 1000000 THEN "ProbabilityInUnitInterval"
      ELSE IF BnLeq(BnMul(P10(lo), Pow10(up)), Pow10(dn)) /\ BnLeq(Pow10(dn), BnMul(P10(e.e + 1), Pow10(up))) THEN "ok"
      ELSE "ProbOfQualIsOneMinusTenToMinusQOverTen"

PhredChars == << "!", "\"", "#", "$", "%", "&", "'", "(", ")", "*", "+", ",", "-", ".", "/", "0", "1", "2", "3", "4", "5", "6", "7",
                 "8", "9", ":", ";", "<", "=", ">", "?", "@", "A", "B", "C", "D", "E", "F", "G", "H", "I", "J", "K", "L", "M", "N",
                 "O", "P", "Q", "R", "S", "T", "U", "V", "W", "X", "Y", "Z", "[", "\\", "]", "^", "_", "`", "a", "b", "c", "d", "e",
                 "f", "g", "h", "i", "j", "k", "l", "m", "n", "o", "p", "q", "r", "s", "t", "u", "v", "w", "x", "y", "z", "{", "|",
                 "}", "~" >>
QocVerdict(e) == IF e.q >= 0 /\ e.q < Len(PhredChars) /\ PhredChars[e.q + 1] = e.c THEN "ok" ELSE "QualOfCharIsPhred33"

Verdict(e) ==
  CASE e.op = "sample" -> SampleVerdict(e)
    [] e.op = "start"  -> StartVerdict(e)
    [] e.op = "poq"    -> PoqVerdict(e)
    [] e.op = "qoc"    -> QocVerdict(e)
    [] OTHER -> "UnknownEvent"

Init == l = 1 /\ bad = 0
Next == /\ l <= Len(Trace)
        /\ LET v == Verdict(Trace[l])
           IN  /\ IF v = "ok" THEN TRUE ELSE PrintT(<<"@@J", ToJson([reject |-> l, clause |-> v])>>)
               /\ bad' = IF v = "ok" THEN bad ELSE bad + 1
        /\ l' = l + 1
Spec == Init /\ [][Next]_vars
Consumed == (l = Len(Trace) + 1) => PrintT(<<"@@J", ToJson([consumed |-> l - 1, rejected |-> bad])>>)
=============================================================================
