SPECIFICATION Spec
CONSTANT Tier = "mutant"
CONSTANT Mut = "geq"
INVARIANT StepChoosesFirstMaximiser
CHECK_DEADLOCK FALSE
