SPECIFICATION Spec
CONSTANT Precisions = {6}
CONSTANT Mut = "floor"
INVARIANT ThresholdsExact
CHECK_DEADLOCK FALSE
