SPECIFICATION Spec
CONSTANT Tier = "mutant"
CONSTANT Mut = "noperms"
INVARIANT StepChoosesFirstMaximiser
CHECK_DEADLOCK FALSE
