SPECIFICATION Spec
CONSTANT Tier = "thorough"
CONSTANT Mut = "none"
INVARIANT TypeOK
INVARIANT HetColumnsOnly
INVARIANT DistIsProper
INVARIANT DistIsReadMean
INVARIANT StartInGenotypeSpace
INVARIANT LadderAscendingEndsCold
INVARIANT RejectedIffBadLadder
INVARIANT RunningStartComplete
INVARIANT Dump
CHECK_DEADLOCK FALSE
