SPECIFICATION Spec
CONSTANT Shapes <- ShapesMutant
CONSTANT Mut = "max"
INVARIANT MecIsMinimumErrorCorrection
CHECK_DEADLOCK FALSE
