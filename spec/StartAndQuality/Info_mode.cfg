SPECIFICATION Spec
CONSTANT Tier = "mutant"
CONSTANT Mut = "none"
INVARIANT GreedyIsPosteriorMode
CHECK_DEADLOCK FALSE
