SPECIFICATION Spec
CONSTANT Precisions = {6}
CONSTANT Mut = "ceil"
INVARIANT ThresholdsExact
CHECK_DEADLOCK FALSE
