SPECIFICATION Spec
CONSTANT Tier = "mutant"
CONSTANT Mut = "noprior"
INVARIANT StepChoosesFirstMaximiser
CHECK_DEADLOCK FALSE
