SPECIFICATION Spec
CONSTANT MaxL = 3
CONSTANT MaxC = 2
CONSTANT FailKinds = {"call"}
CONSTANT ForceMulti = {}
CONSTANT SepExit = FALSE
CONSTANT Mutant = "none"
CONSTANT KeepHist = "labels"
CONSTRAINT DumpFinal
CHECK_DEADLOCK TRUE
