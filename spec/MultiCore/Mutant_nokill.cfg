SPECIFICATION Spec
CONSTANT MaxL = 3
CONSTANT MaxC = 2
CONSTANT FailKinds = {"none", "call", "load"}
CONSTANT ForceMulti = {TRUE}
CONSTANT SepExit = TRUE
CONSTANT Mutant = "nokill"
CONSTANT KeepHist = "none"
INVARIANT TypeOK
CHECK_DEADLOCK TRUE
VIEW view
