SPECIFICATION Spec
CONSTANT MaxL = 3
CONSTANT MaxC = 2
CONSTANT FailKinds = {"none", "call", "load"}
CONSTANT ForceMulti = {TRUE}
CONSTANT SepExit = TRUE
CONSTANT Mutant = "earlykill"
CONSTANT KeepHist = "none"
INVARIANT KillLast
VIEW view
