SPECIFICATION Spec
CONSTANT MaxL = 4
CONSTANT MaxC = 3
CONSTANT FailKinds = {"none", "call", "load"}
CONSTANT ForceMulti = {TRUE}
CONSTANT SepExit = TRUE
CONSTANT Mutant = "none"
CONSTANT KeepHist = "none"
INVARIANT TypeOK
INVARIANT NoDuplicate
INVARIANT Intact
INVARIANT HeaderOnce
INVARIANT KillLast
INVARIANT Exit0Complete
INVARIANT FailNonZero
INVARIANT SingleCoreEquivalent
INVARIANT BlockPrefix
INVARIANT BlocksPartition
INVARIANT ExitOnlyAfterRaise
INVARIANT NoFailureNoRaise
CHECK_DEADLOCK TRUE
VIEW view
ACTION_CONSTRAINT DumpEdge
CONSTRAINT DumpInit
