SPECIFICATION Spec
CONSTANT Seeds = {1, 2}
CONSTANT Inputs = {1, 2, 3}
CONSTANT MaxOps = 4
CONSTANT Mutant = "none"
CONSTANT KeepHist = TRUE
INVARIANT OutputFunctionOfSeed
INVARIANT SeededWhenSampling
INVARIANT StateAfterFit
INVARIANT OutputIsCanonical
CONSTRAINT DumpFinal
CHECK_DEADLOCK FALSE
