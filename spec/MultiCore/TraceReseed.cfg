SPECIFICATION TSpec
CONSTANT Seeds = {1, 2, 3, 4, 5, 6, 7, 8, 9}
CONSTANT Inputs = {1, 2, 3, 4, 5, 6, 7, 8, 9}
CONSTANT MaxOps = 1000000000
CONSTANT Mutant = "none"
CONSTANT KeepHist = FALSE
INVARIANT Consumed
CHECK_DEADLOCK FALSE
