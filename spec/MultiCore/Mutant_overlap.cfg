SPECIFICATION Spec
CONSTANT MaxL = 3
CONSTANT MaxC = 2
CONSTANT FailKinds = {"none", "call", "load"}
CONSTANT ForceMulti = {TRUE}
CONSTANT SepExit = TRUE
CONSTANT Mutant = "overlap"
CONSTANT KeepHist = "none"
INVARIANT NoDuplicate
VIEW view
