----------------------------- MODULE TraceReseed -----------------------------
(* C08, code -> spec: one real (compiled) process in which DenovoMCMC.fit,       *)
(* CallingMCMC.fit and PedigreeCallingMCMC.fit are called repeatedly with        *)
(* random_seed set, interleaved with other fits and with raw consumption of the  *)
(* numpy generator (np.random.rand()) and of numba's generator (a jitted draw).  *)
(* Events carry fingerprints (two 28-bit integers of a sha1) of                  *)
(* np.random.get_state() and of numba's generator state before / after each      *)
(* operation, at fit entry, around np.random.seed / seed_numba as called by the  *)
(* fit, when the fit is done, and a fingerprint of what the fit returned.        *)
(* Every event must be the corresponding Reseed action (enabled in the model     *)
(* state reached so far), the observed generator states must be a function of    *)
(* the model's generator terms (so: the state after seeding with s is always     *)
(* the same, nothing is consumed between fit entry and seeding, the state a fit  *)
(* leaves behind depends on (input, seed) only), and the returned value must be  *)
(* a function of (input, seed) whatever happened before.                         *)
EXTENDS Reseed, IOUtils

Doc == JsonDeserialize(IOEnv.TRACE_FILE)
Trace == Doc.events
Hdr == Doc.header

VARIABLES obsNp, obsNb,    \* fingerprints observed last
          fpNp, fpNb,      \* generator term -> fingerprint (first observation binds)
          outOf,           \* <<x, seed>> -> fingerprint of the returned value
          l, bad
tvars == <<obsNp, obsNb, fpNp, fpNb, outOf, l, bad>>

F(x) == <<x[1], x[2]>>
Empty == [k \in {} |-> 0]
Put(m, k, v) == IF k \in DOMAIN m THEN m ELSE [j \in DOMAIN m \cup {k} |-> IF j = k THEN v ELSE m[j]]
Agrees(m, k, v) == k \notin DOMAIN m \/ m[k] = v

TInit == /\ Init
         /\ obsNp = F(Hdr.np) /\ obsNb = F(Hdr.nb)
         /\ fpNp = Put(Empty, Boot, F(Hdr.np)) /\ fpNb = Put(Empty, Boot, F(Hdr.nb))
         /\ outOf = Empty
         /\ l = 1 /\ bad = 0

(* the Reseed action an event claims to be *)
Act(e) == CASE e.op = "np" -> OtherNp
            [] e.op = "nb" -> OtherNb
            [] e.op = "enter" -> FitEnter(e.x, e.seed)
            [] e.op = "seed_np" -> SeedNp
            [] e.op = "seed_nb" -> SeedNb
            [] e.op = "ran" -> FitRun
            [] e.op = "return" -> Return
            [] OTHER -> FALSE
(* follow the recording when it is not a Reseed step (one defect = one rejection, not a cascade) *)
Forced(e) ==
  /\ np' = CASE e.op = "seed_np" -> SeedTerm(e.seed) [] e.op = "np" -> Adv(np) [] e.op = "ran" -> After(cur.x, np) [] OTHER -> np
  /\ nb' = CASE e.op = "seed_nb" -> SeedTerm(e.seed) [] e.op = "nb" -> Adv(nb) [] e.op = "ran" -> After(cur.x, nb) [] OTHER -> nb
  /\ pc' = CASE e.op = "enter" -> "enter" [] e.op = "seed_np" -> "seeded_np" [] e.op = "seed_nb" -> "seeded_nb"
             [] e.op = "ran" -> "ran" [] e.op = "return" -> "idle" [] OTHER -> pc
  /\ cur' = CASE e.op = "enter" -> [x |-> e.x, seed |-> e.seed, extra |-> <<>>, out |-> <<>>]
              [] e.op = "ran" -> [cur EXCEPT !.out = OutTerm(cur.x, np, nb, cur.extra)]
              [] e.op = "return" -> NoFit [] OTHER -> cur
  /\ outputs' = IF e.op = "return" THEN outputs \cup {[x |-> cur.x, seed |-> cur.seed, out |-> cur.out]} ELSE outputs
  /\ UNCHANGED <<cacheState, seededOnce, nops, hist>>

Verdict(e) ==
  LET before == e.op \in {"np", "nb", "enter", "seed_np", "seed_nb"}      \* events that carry the state before
      key == <<cur.x, cur.seed>>
  IN  IF ~ENABLED Act(e) THEN (IF e.op = "ran" THEN "BothGeneratorsSeededBeforeSampling"
                               ELSE IF e.op \in {"seed_np", "seed_nb"} THEN "SeedingOrder" ELSE "NotAReseedStep")
      ELSE IF before /\ (F(e.np0) # obsNp \/ F(e.nb0) # obsNb) THEN "NothingConsumedUnobserved"
      ELSE IF e.op \in {"seed_np", "seed_nb"} /\ e.seed # cur.seed THEN "SeedIsTheFitsSeed"
      ELSE IF e.op = "np" /\ (F(e.np1) = F(e.np0) \/ F(e.nb1) # F(e.nb0)) THEN "OtherDrawConsumesNumpyOnly"
      ELSE IF e.op = "nb" /\ (F(e.nb1) = F(e.nb0) \/ F(e.np1) # F(e.np0)) THEN "OtherDrawConsumesNumbaOnly"
      ELSE IF e.op = "seed_np" /\ F(e.nb1) # F(e.nb0) THEN "SeedNumpyLeavesNumba"
      ELSE IF e.op = "seed_nb" /\ F(e.np1) # F(e.np0) THEN "SeedNumbaLeavesNumpy"
      ELSE IF e.op = "seed_np" /\ ~Agrees(fpNp, SeedTerm(e.seed), F(e.np1)) THEN "SeededStateCanonical"
      ELSE IF e.op = "seed_nb" /\ ~Agrees(fpNb, SeedTerm(e.seed), F(e.nb1)) THEN "SeededStateCanonical"
      ELSE IF e.op = "ran" /\ (~Agrees(fpNp, After(cur.x, np), F(e.np1)) \/ ~Agrees(fpNb, After(cur.x, nb), F(e.nb1)))
           THEN "StateAfterFitFunctionOfSeed"
      ELSE IF e.op = "return" /\ ~Agrees(outOf, key, F(e.out)) THEN "OutputFunctionOfSeed"
      ELSE "ok"

TNext ==
  /\ l <= Len(Trace)
  /\ LET e == Trace[l]
         v == Verdict(e)
     IN  /\ IF v = "ok" THEN TRUE ELSE PrintT(<<"@@J", ToJson([reject |-> l, clause |-> v])>>)
         /\ bad' = IF v = "ok" THEN bad ELSE bad + 1
         /\ IF ENABLED Act(e) THEN Act(e) ELSE Forced(e)
         /\ obsNp' = F(e.np1) /\ obsNb' = F(e.nb1)
         /\ fpNp' = Put(fpNp, np', F(e.np1))
         /\ fpNb' = Put(fpNb, nb', F(e.nb1))
         /\ outOf' = IF e.op = "return" THEN Put(outOf, <<cur.x, cur.seed>>, F(e.out)) ELSE outOf
  /\ l' = l + 1
TSpec == TInit /\ [][TNext]_<<vars, tvars>>

Consumed == (l = Len(Trace) + 1) =>
  PrintT(<<"@@J", ToJson([consumed |-> l - 1, rejected |-> bad, fits |-> Cardinality(outputs), keys |-> Cardinality(DOMAIN outOf),
                          np_terms |-> Cardinality(DOMAIN fpNp), nb_terms |-> Cardinality(DOMAIN fpNb)])>>)
=============================================================================
