---------------------------- MODULE TraceMultiCore ----------------------------
(* C08, code -> spec.                                                            *)
(*                                                                               *)
(* (a) SpecEvents: executions of the real _run_stdout_multi_core / _worker /     *)
(*     _writer / _run_stdout_single_core under the real multiprocessing (fork),  *)
(*     recorded as one event sequence per process (main, writer task, one per    *)
(*     worker task).  Only the order inside a sequence is known, so the log is a *)
(*     partial order: TLC searches the interleavings, every logged event must be *)
(*     the MultiCore action of that process with the logged data (locus, queue   *)
(*     item, job outcome, blocks, pool size); process exits, the teardown and    *)
(*     the interpreter exit are not logged and may happen whenever MultiCore     *)
(*     enables them.  A run is accepted iff some interleaving consumes every     *)
(*     event and ends in a terminal MultiCore state whose `out` is the captured  *)
(*     stdout and whose exit status / exception is the observed one.             *)
(*     Many runs are batched: `tid` selects the run in the initial state.        *)
(*                                                                               *)
(* (b) SpecSummaries: terminal summaries of CLI runs of the real programs        *)
(*     (cores, expected loci, observed stdout abstracted to MultiCore's line     *)
(*     encoding, exit status, per-locus line hashes).  One summary per step,     *)
(*     each gets a verdict: the terminal predicates of MultiCore, no hang, and   *)
(*     equality of every locus line / of the header with the first run that      *)
(*     produced it (cross-run determinism).                                      *)
EXTENDS MultiCore, IOUtils

Doc == JsonDeserialize(IOEnv.TRACE_FILE)
Runs == Doc.runs

VARIABLES tid, posM, posR, posW, phase,    \* (a)
          l, bad, canon, canonH            \* (b)
tvars == <<tid, posM, posR, posW, phase, l, bad, canon, canonH>>
allvars == <<vars, tvars>>

(* ================================ (a) events ==================================*)
Run == Runs[tid]
End == [e |-> "END"]
NextOf(s, p) == IF p < Len(s) THEN s[p + 1] ELSE End
Seq1(x) == [i \in 1..Len(x) |-> x[i]]

InitEvents ==
  /\ \E t \in 1..Len(Runs) :
       /\ tid = t
       /\ InitFor(Runs[t].inst.nl, Runs[t].inst.c, Runs[t].inst.fail, Runs[t].inst.kind, Runs[t].inst.multi)
       /\ posW = [w \in 1..Runs[t].inst.c |-> 0]
  /\ posM = 0 /\ posR = 0 /\ phase = "run"
  /\ l = 0 /\ bad = 0 /\ canon = <<>> /\ canonH = <<>>

UB2 == UNCHANGED <<tid, phase, l, bad, canon, canonH>>

TraceMain ==
  LET e == NextOf(Run.main, posM)
  IN  /\ posM' = posM + 1 /\ UNCHANGED <<posR, posW>> /\ UB2
      /\ CASE e.e = "MainWriteHeader" -> MainWriteHeader /\ Seq1(e.lines) = Header
           [] e.e = "MainFlush"       -> MainFlush
           [] e.e = "MainStartPool"   -> /\ MainStartPool
                                         /\ e.n = inst.c + 1
                                         /\ e.writer = 1
                                         /\ IF inst.kind = "load" THEN e.loadfail = 1
                                            ELSE /\ e.loadfail = 0
                                                 /\ Len(e.blocks) = inst.c
                                                 /\ \A w \in 1..inst.c : Seq1(e.blocks[w]) = todo[w]
           [] e.e = "MainJoin"        -> e.k \in 1..inst.c /\ MainJoin(e.k)
           [] e.e = "MainRaise"       -> e.k \in 1..inst.c /\ MainRaise(e.k)
           [] e.e = "MainPutKill"     -> MainPutKill /\ e.k = Kill
           [] e.e = "MainClosePool"   -> MainClosePool
           [] e.e = "MainJoinPool"    -> MainJoinPool
           [] e.e = "SingleCall"      -> /\ SingleCall
                                         /\ todo[1] # <<>> /\ Head(todo[1]) = e.k
                                         /\ (e.ok = 1) <=> (pcMain' = "s_write")
           [] e.e = "SingleWrite"     -> SingleWrite /\ pend[1] = e.k
           [] e.e = "SingleReturn"    -> SingleReturn
           [] OTHER -> FALSE

TraceWorker(w) ==
  LET e == NextOf(Run.workers[w], posW[w])
  IN  /\ posW' = [posW EXCEPT ![w] = @ + 1] /\ UNCHANGED <<posM, posR>> /\ UB2
      /\ CASE e.e = "WorkerCall"   -> /\ WorkerCall(w)
                                      /\ pcW[w] = "call" /\ Head(todo[w]) = e.k
                                      /\ (e.ok = 1) <=> (pcW'[w] = "put")
           [] e.e = "WorkerPut"    -> WorkerPut(w) /\ pend[w] = e.k
           [] e.e = "WorkerReturn" -> WorkerReturn(w)
           [] OTHER -> FALSE

TraceWriter ==
  LET e == NextOf(Run.writer, posR)
  IN  /\ posR' = posR + 1 /\ UNCHANGED <<posM, posW>> /\ UB2
      /\ CASE e.e = "WriterGet"   -> WriterGet /\ queue # <<>> /\ Head(queue) = e.k
           [] e.e = "WriterWrite" -> WriterWrite /\ wline = e.k /\ e.flushed = 1
           [] e.e = "WriterStop"  -> WriterStop
           [] OTHER -> FALSE

AllConsumed == /\ posM = Len(Run.main) /\ posR = Len(Run.writer)
               /\ \A w \in 1..inst.c : posW[w] = Len(Run.workers[w])
ExcName == CASE exc = "locus" -> "LocusAssemblyError" [] exc = "load" -> "ValueError" [] OTHER -> "none"
Accepted == /\ exit # NoExit /\ AllConsumed
            /\ out = Seq1(Run.out)
            /\ exit = Run.exit
            /\ ExcName = Run.exc
(* not logged: process exits after close(), teardown by the exit handler, interpreter exit.  They are taken *)
(* in one canonical order (writer's process, then the workers' in index order, only once main waits in      *)
(* pool.join(); teardown with no normally exiting child; exits once every event is consumed): with empty    *)
(* inherited buffers - anything else is rejected at MainFlush already - every order gives the same output.  *)
Silent == /\ UNCHANGED tvars
          /\ \/ pcMain = "joinpool" /\ ChildExitWr
             \/ pcMain = "joinpool" /\ pcWr = "exited" /\ \E w \in 1..inst.c : ChildExitW(w) /\ \A v \in 1..(w - 1) : pcW[v] = "exited"
             \/ AllConsumed /\ (Teardown({}) \/ MainExit0 \/ MainExit1)

(* Search reduction (sound for acceptance).  Every action except a queue.put commutes with every action of  *)
(* the other processes and cannot be disabled by them (worker steps touch the worker's own state, job[w]    *)
(* only ever becomes final, the writer alone writes `out`, a get on a non-empty queue commutes with puts at *)
(* the tail), and every logged event has to be consumed eventually; so whenever such an event is enabled    *)
(* only the first one (main, writer, workers in index order, silent) is taken.  The search branches only    *)
(* over the order of concurrent queue.put()s.                                                               *)
IsPutM == NextOf(Run.main, posM).e = "MainPutKill"
IsPutW(w) == NextOf(Run.workers[w], posW[w]).e = "WorkerPut"
L1 == ~IsPutM /\ TraceMain
L2 == TraceWriter
L3(w) == ~IsPutW(w) /\ TraceWorker(w)
Det == \/ L1
       \/ ~ENABLED L1 /\ L2
       \/ ~ENABLED L1 /\ ~ENABLED L2 /\ \E w \in 1..inst.c : L3(w) /\ \A v \in 1..(w - 1) : ~ENABLED L3(v)
       \/ ~ENABLED L1 /\ ~ENABLED L2 /\ (\A w \in 1..inst.c : ~ENABLED L3(w)) /\ Silent
Puts == /\ ~ENABLED L1 /\ ~ENABLED L2 /\ (\A w \in 1..inst.c : ~ENABLED L3(w)) /\ ~ENABLED Silent
        /\ (IsPutM /\ TraceMain) \/ (\E w \in 1..inst.c : IsPutW(w) /\ TraceWorker(w))
Progress == phase = "run" /\ (Det \/ Puts)
Consumed == posM + posR + (LET S[w \in 0..inst.c] == IF w = 0 THEN 0 ELSE S[w - 1] + posW[w] IN S[inst.c])
Stuck == /\ phase = "run" /\ ~Accepted /\ ~ENABLED Progress
         /\ PrintT(<<"@@J", ToJson([stuck |-> tid, consumed |-> Consumed, posM |-> posM, posR |-> posR, posW |-> posW,
                                    nextM |-> NextOf(Run.main, posM), nextR |-> NextOf(Run.writer, posR),
                                    nextW |-> [w \in 1..inst.c |-> NextOf(Run.workers[w], posW[w])],
                                    state |-> Proj, exit |-> exit, out |-> out])>>)
         /\ phase' = "stuck"
         /\ UNCHANGED <<vars, tid, posM, posR, posW, l, bad, canon, canonH>>
NextEvents == Progress \/ Stuck
SpecEvents == InitEvents /\ [][NextEvents]_allvars
AcceptPrint == Accepted => PrintT(<<"@@J", ToJson([accept |-> tid, consumed |-> Consumed])>>)

(* ================================ (b) summaries ===============================*)
(* a summary r: [grp, cores, nl, fail, out, exit, hung, lines, hdr]                                       *)
(*   grp   : identifies (dataset, program, options): runs of one group must agree line by line            *)
(*   nl    : number of loci in this run's input; out uses positions 1..nl in THIS run's input order,      *)
(*           -1,-2 for one complete header block, 98 for a record of a locus that is not in the input,    *)
(*           99 for anything that is not a whole known line                                                *)
(*   fail  : position of the locus made to fail (0 = none)                                                *)
(*   lines : <<locus id (global), h1, h2>> for every record in stdout; hdr : <<h1, h2>>                   *)
(*   ivl, vs, shared (optional): per input position the id of the locus' interval and of its variant set; *)
(*           the intervals that several records of the dataset span                                        *)
InitSummaries ==
  /\ InitFor(0, 1, 0, "none", FALSE)
  /\ tid = 0 /\ posM = 0 /\ posR = 0 /\ posW = <<>> /\ phase = "summaries"
  /\ l = 1 /\ bad = 0 /\ canon = [k \in {} |-> 0] /\ canonH = [k \in {} |-> 0]

LineKey(r, x) == <<r.grp, x[1]>>
SummaryVerdict(r) ==
  LET o == Seq1(r.out)
      multi == r.cores > 1
  IN  IF r.hung = 1 THEN "NoHang"
      ELSE IF ~HeaderOnceOf(o) \/ ~ExitedHeaderOf(o) THEN "HeaderOnce"
      ELSE IF ~IntactOf(o, r.nl) THEN "Intact"
      ELSE IF ~NoDuplicateOf(o) THEN "NoDuplicate"
      ELSE IF r.fail # 0 /\ r.exit = 0 THEN "FailNonZero"
      ELSE IF r.fail = 0 /\ r.exit # 0 THEN "NoFailureExitZero"
      ELSE IF r.exit = 0 /\ ~CompleteOf(o, r.nl) THEN "Exit0Complete"
      ELSE IF r.fail # 0 /\ (\E i \in DOMAIN o : o[i] = r.fail) THEN "FailedLocusNotEmitted"
      ELSE IF r.exit = 0 /\ ~multi /\ ~InOrderOf(o, r.nl) THEN "SingleCoreEquivalent"
      ELSE IF ~BlockPrefixOf(o, r.nl, r.cores, multi) THEN "BlockPrefix"
      ELSE IF \E i \in DOMAIN r.lines : LineKey(r, r.lines[i]) \in DOMAIN canon /\ canon[LineKey(r, r.lines[i])] # <<r.lines[i][2], r.lines[i][3]>>
           THEN "LineIdenticalAcrossRuns"
      ELSE IF r.grp \in DOMAIN canonH /\ canonH[r.grp] # <<r.hdr[1], r.hdr[2]>> THEN "HeaderIdenticalAcrossRuns"
      ELSE "ok"

(* Regime measure (no verdict): the record of a locus must not depend on what the same process computed   *)
(* before it.  A dataset may hold records that span the same interval but list different variants          *)
(* (r.ivl[k] = interval, r.vs[k] = variant set of the k-th locus of THIS run's input, r.shared = intervals *)
(* that several records of the dataset span).  A run is in the regime "same-interval neighbours" when two  *)
(* such records are handled one after the other by one process, i.e. are adjacent inside one block of      *)
(* MultiCore's split (the whole input on the single-core path), and in the regime "same-interval apart"    *)
(* when a record of a shared interval is the only one of its interval in its block.  The deciding clause   *)
(* is LineIdenticalAcrossRuns: the line of a locus is the same in both regimes.                            *)
RunBlocks(r) == IF r.cores > 1 THEN [w \in 1..r.cores |-> GoodBlock(r.nl, r.cores, w)] ELSE <<AllLoci(r.nl)>>
HasIvl(r) == "ivl" \in DOMAIN r /\ Len(r.ivl) = r.nl /\ Len(r.vs) = r.nl
SameIntervalNeighbours(r) ==
  \E w \in DOMAIN RunBlocks(r) : LET b == RunBlocks(r)[w]
                                IN  \E i \in 1..(Len(b) - 1) : r.ivl[b[i]] = r.ivl[b[i + 1]] /\ r.vs[b[i]] # r.vs[b[i + 1]]
SameIntervalApart(r) ==
  \E w \in DOMAIN RunBlocks(r) : LET b == RunBlocks(r)[w]
                                IN  \E i \in DOMAIN b : /\ \E x \in DOMAIN r.shared : r.shared[x] = r.ivl[b[i]]
                                                        /\ \A j \in DOMAIN b : j # i => r.ivl[b[j]] # r.ivl[b[i]]
Regime(r) == [regime |-> l, neighbours |-> SameIntervalNeighbours(r), apart |-> SameIntervalApart(r)]

NextSummaries ==
  /\ phase = "summaries" /\ l <= Len(Runs)
  /\ LET r == Runs[l]
         v == SummaryVerdict(r)
         new == {LineKey(r, r.lines[i]) : i \in DOMAIN r.lines} \ DOMAIN canon
     IN  /\ IF v = "ok" THEN TRUE ELSE PrintT(<<"@@J", ToJson([reject |-> l, clause |-> v])>>)
         /\ IF HasIvl(r) /\ Len(r.shared) > 0 THEN PrintT(<<"@@J", ToJson(Regime(r))>>) ELSE TRUE
         /\ bad' = IF v = "ok" THEN bad ELSE bad + 1
         /\ canon' = [k \in DOMAIN canon \cup new |->
                        IF k \in DOMAIN canon THEN canon[k]
                        ELSE LET i == CHOOSE i \in DOMAIN r.lines : LineKey(r, r.lines[i]) = k IN <<r.lines[i][2], r.lines[i][3]>>]
         /\ canonH' = IF r.grp \in DOMAIN canonH \/ Len(r.hdr) # 2 THEN canonH
                      ELSE [k \in DOMAIN canonH \cup {r.grp} |-> IF k = r.grp THEN <<r.hdr[1], r.hdr[2]>> ELSE canonH[k]]
  /\ l' = l + 1
  /\ UNCHANGED <<vars, tid, posM, posR, posW, phase>>
SpecSummaries == InitSummaries /\ [][NextSummaries]_allvars
ConsumedSummaries == (l = Len(Runs) + 1) =>
   PrintT(<<"@@J", ToJson([consumed |-> l - 1, rejected |-> bad, lines |-> Cardinality(DOMAIN canon), groups |-> Cardinality(DOMAIN canonH)])>>)
=============================================================================
