SPECIFICATION SpecSummaries
CONSTANT MaxL = 0
CONSTANT MaxC = 1
CONSTANT FailKinds = {"none"}
CONSTANT ForceMulti = {}
CONSTANT SepExit = TRUE
CONSTANT Mutant = "none"
CONSTANT KeepHist = "none"
INVARIANT ConsumedSummaries
CHECK_DEADLOCK FALSE
