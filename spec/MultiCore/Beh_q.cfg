SPECIFICATION Spec
CONSTANT MaxL = 2
CONSTANT MaxC = 2
CONSTANT FailKinds = {"call", "load"}
CONSTANT ForceMulti = {TRUE}
CONSTANT SepExit = FALSE
CONSTANT Mutant = "none"
CONSTANT KeepHist = "labels"
CONSTRAINT DumpFinal
CHECK_DEADLOCK TRUE
