------------------------------ MODULE MultiCore ------------------------------
(* C08: the output orchestration of the MCHap programs                          *)
(* (mchap/application/baseclass.py: run_stdout, _run_stdout_single_core,        *)
(* _run_stdout_multi_core, _worker, _writer, _assemble_loci_wrapped) as a       *)
(* system of processes: `main`, the `writer` task, one `worker` task per block  *)
(* of loci, a FIFO queue of whole lines, and OS-level stdout with one user-space*)
(* buffer per process (a forked child starts with a copy of its parent's        *)
(* unflushed buffer and flushes it when it exits normally; a killed child does  *)
(* not).  One action per critical section of the code.                          *)
(*                                                                              *)
(* Encoding: a locus and its record line are the positive integer k (position   *)
(* in the input order); the two header lines are -1, -2; KILL is 0.             *)
(* The instance (number of loci, cores, failing locus, kind of failure, path)   *)
(* is chosen in Init so that one TLC run covers the whole bounded family.       *)
EXTENDS Integers, Sequences, FiniteSets, TLC, Json

CONSTANTS MaxL,        \* loci 0..MaxL
          MaxC,        \* cores 1..MaxC (cores > loci included)
          FailKinds,   \* subset of {"none", "call", "load"}: no failure / call_locus raises in the
                       \* worker / the loci() generator raises in main
          ForceMulti,  \* {} or {TRUE}: also run the multi-core path with one core
          SepExit,     \* TRUE: pool processes exit one by one after close(); FALSE: atomically in join()
          Mutant,      \* "none" | "noflush" | "earlykill" | "swallow" | "overlap" | "nokill"
          KeepHist     \* "none" | "labels" | "full": carry the action history (behaviour enumeration for the
                       \* replay into the implementation); "full" also records the state after every action

Kill == 0
Header == <<-1, -2>>
NoExit == -1

VARIABLES inst,      \* [nl, c, fail, kind, multi]
          pcMain, jn,            \* main's control point, index of the job main is waiting for
          todo, pcW, pend, job,  \* per worker task: loci left, control point, line in hand, AsyncResult state
          pcWr, wline,           \* writer task
          queue,                 \* Manager().Queue(): FIFO
          out,                   \* what has reached the OS-level stdout, in order
          bufMain, bufWr, inh,   \* unflushed stdout buffers: main, writer's process, every other child (inherited copy)
          closed, killPut,       \* pool.close() called; KILL has been enqueued
          exc, exit,             \* exception raised in main ("none" | "locus" | "load"); exit status
          last, hist             \* label of the action that produced this state; history (both outside the VIEW)
vars == <<inst, pcMain, jn, todo, pcW, pend, job, pcWr, wline, queue, out, bufMain, bufWr, inh, closed, killPut, exc, exit, last, hist>>
view == <<inst, pcMain, jn, todo, pcW, pend, job, pcWr, wline, queue, out, bufMain, bufWr, inh, closed, killPut, exc, exit>>

Min(a, b) == IF a < b THEN a ELSE b
Max(a, b) == IF a > b THEN a ELSE b

(* ---- numpy.array_split(loci, c), from its documentation: "for an array of length l that should be  *)
(* split into n sections, it returns l % n sub-arrays of size l//n + 1 and the rest of size l//n"       *)
BlockSize(nl, c, w)  == (nl \div c) + (IF w <= nl % c THEN 1 ELSE 0)
BlockStart(nl, c, w) == (w - 1) * (nl \div c) + Min(w - 1, nl % c) + 1
GoodBlock(nl, c, w)  == [i \in 1..BlockSize(nl, c, w) |-> BlockStart(nl, c, w) + i - 1]
(* mutant: every block but the first also takes the last locus of its predecessor *)
BadBlock(nl, c, w) == LET s == BlockStart(nl, c, w)  n == BlockSize(nl, c, w)
                      IN  IF w > 1 /\ s > 1 /\ n > 0 THEN [i \in 1..(n + 1) |-> s + i - 2] ELSE GoodBlock(nl, c, w)
Block(nl, c, w) == IF Mutant = "overlap" THEN BadBlock(nl, c, w) ELSE GoodBlock(nl, c, w)
AllLoci(nl) == [i \in 1..nl |-> i]

(* projection compared with the implementation after every replayed action (a tuple, to keep the dumps small): *)
(* 1 pcMain, 2 jn, 3 todo, 4 pcW, 5 pend, 6 job, 7 pcWr, 8 wline, 9 queue, 10 out, 11 bufMain, 12 bufWr, 13 inh,  *)
(* 14 closed, 15 exc, 16 exit                                                                                     *)
Proj == <<pcMain, jn, todo, pcW, pend, job, pcWr, wline, queue, out, bufMain, bufWr, inh, closed, exc, exit>>
Log(label, w) == /\ last' = <<label, w>>
                 /\ hist' = CASE KeepHist = "none" -> hist
                               [] KeepHist = "labels" -> Append(hist, <<label, w>>)
                               [] OTHER -> Append(hist, <<label, w, Proj'>>)

InitFor(nl, c, fail, kind, multi) ==
  /\ inst = [nl |-> nl, c |-> c, fail |-> fail, kind |-> kind, multi |-> multi]
  /\ pcMain = "start" /\ jn = 0
  /\ todo = [w \in 1..c |-> IF multi THEN Block(nl, c, w) ELSE AllLoci(nl)]
  /\ pcW = [w \in 1..c |-> "idle"]
  /\ pend = [w \in 1..c |-> 0]
  /\ job = [w \in 1..c |-> "none"]
  /\ pcWr = "idle" /\ wline = 0
  /\ queue = <<>> /\ out = <<>> /\ bufMain = <<>> /\ bufWr = <<>> /\ inh = <<>>
  /\ closed = FALSE /\ killPut = FALSE
  /\ exc = "none" /\ exit = NoExit
  /\ last = <<"Init", 0>>
  /\ hist = <<>>

Init == \E nl \in 0..MaxL, c \in 1..MaxC, kind \in FailKinds :
          \E fail \in (IF kind = "none" THEN {0} ELSE 1..nl), multi \in ({c > 1} \cup (IF c = 1 THEN ForceMulti ELSE {})) :
             InitFor(nl, c, fail, kind, multi)

Fails(k, kinds) == inst.fail = k /\ inst.kind \in kinds
UW == UNCHANGED <<todo, pcW, pend, job>>
UWr == UNCHANGED <<pcWr, wline>>
UB == UNCHANGED <<bufMain, bufWr, inh>>

(* ================================ main ======================================*)
(* header(): every header line is written to sys.stdout (buffered) *)
MainWriteHeader ==
  /\ pcMain = "start"
  /\ bufMain' = bufMain \o Header
  /\ pcMain' = IF inst.multi THEN "hdr" ELSE "s_next"
  /\ UNCHANGED <<inst, jn, queue, out, bufWr, inh, closed, killPut, exc, exit>> /\ UW /\ UWr
  /\ Log("MainWriteHeader", 0)

(* sys.stdout.flush() before anything is forked *)
MainFlush ==
  /\ pcMain = "hdr"
  /\ IF Mutant = "noflush" THEN UNCHANGED <<out, bufMain>>
     ELSE out' = out \o bufMain /\ bufMain' = <<>>
  /\ pcMain' = "flushed"
  /\ UNCHANGED <<inst, jn, queue, bufWr, inh, closed, killPut, exc, exit>> /\ UW /\ UWr
  /\ Log("MainFlush", 0)

(* mp.Manager(), manager.Queue(), mp.Pool(c + 1), apply_async(writer), list(self.loci()), array_split,   *)
(* one apply_async(worker) per block.  Every child process is forked here with a copy of main's buffer. *)
MainStartPool ==
  /\ pcMain = "flushed"
  /\ inh' = bufMain /\ bufWr' = bufMain
  /\ pcWr' = "get"
  /\ IF inst.kind = "load"
     THEN pcMain' = "raised" /\ exc' = "load" /\ UNCHANGED <<jn, pcW, job>>
     ELSE /\ pcMain' = "join" /\ jn' = 1 /\ exc' = exc
          /\ pcW' = [w \in 1..inst.c |-> IF todo[w] = <<>> THEN "ret" ELSE "call"]
          /\ job' = [w \in 1..inst.c |-> "running"]
  /\ UNCHANGED <<inst, todo, pend, wline, queue, out, bufMain, closed, killPut, exit>>
  /\ Log("MainStartPool", 0)

AfterLastJoin == IF killPut THEN "close" ELSE "kill"
EarlyKillPoint == Mutant = "earlykill" /\ pcMain = "join" /\ jn = inst.c /\ ~killPut

(* job.get() strictly in block order; blocks until that job has finished *)
MainJoin(w) ==
  /\ pcMain = "join" /\ jn = w /\ job[w] = "done" /\ ~EarlyKillPoint
  /\ IF w < inst.c THEN jn' = w + 1 /\ pcMain' = pcMain ELSE jn' = jn /\ pcMain' = AfterLastJoin
  /\ UNCHANGED <<inst, queue, out, closed, killPut, exc, exit>> /\ UW /\ UWr /\ UB
  /\ Log("MainJoin", w)

(* job.get() re-raises the worker's LocusAssemblyError in main *)
MainRaise(w) ==
  /\ pcMain = "join" /\ jn = w /\ job[w] = "failed" /\ ~EarlyKillPoint
  /\ pcMain' = "raised" /\ exc' = "locus"
  /\ UNCHANGED <<inst, jn, queue, out, closed, killPut, exit>> /\ UW /\ UWr /\ UB
  /\ Log("MainRaise", w)

(* queue.put(KILL_SIGNAL) *)
MainPutKill ==
  /\ pcMain = "kill" \/ EarlyKillPoint
  /\ queue' = IF Mutant = "nokill" THEN queue ELSE Append(queue, Kill)
  /\ killPut' = TRUE
  /\ pcMain' = IF pcMain = "kill" THEN "close" ELSE pcMain
  /\ UNCHANGED <<inst, jn, out, closed, exc, exit>> /\ UW /\ UWr /\ UB
  /\ Log("MainPutKill", 0)

MainClosePool ==
  /\ pcMain = "close"
  /\ closed' = TRUE
  /\ pcMain' = "joinpool"
  /\ UNCHANGED <<inst, jn, queue, out, killPut, exc, exit>> /\ UW /\ UWr /\ UB
  /\ Log("MainClosePool", 0)

(* after close() an idle pool process exits normally: multiprocessing flushes its std streams *)
ChildExitW(w) ==
  /\ SepExit /\ closed /\ pcW[w] \in {"done", "failed"}
  /\ out' = out \o inh
  /\ pcW' = [pcW EXCEPT ![w] = "exited"]
  /\ UNCHANGED <<inst, pcMain, jn, todo, pend, job, queue, closed, killPut, exc, exit>> /\ UWr /\ UB
  /\ Log("ChildExit", w)
ChildExitWr ==
  /\ SepExit /\ closed /\ pcWr = "done"
  /\ out' = out \o bufWr /\ bufWr' = <<>>
  /\ pcWr' = "exited"
  /\ UNCHANGED <<inst, pcMain, jn, wline, queue, bufMain, inh, closed, killPut, exc, exit>> /\ UW
  /\ Log("ChildExit", 0)

RECURSIVE Rep(_, _)
Rep(s, n) == IF n = 0 THEN <<>> ELSE s \o Rep(s, n - 1)

(* pool.join(): returns when every pool process has exited *)
MainJoinPool ==
  /\ pcMain = "joinpool"
  /\ IF SepExit
     THEN /\ \A w \in 1..inst.c : pcW[w] = "exited"
          /\ pcWr = "exited"
          /\ UNCHANGED <<out, bufWr, pcW, pcWr>>
     ELSE /\ \A w \in 1..inst.c : pcW[w] \in {"done", "failed"}
          /\ pcWr = "done"
          /\ out' = out \o bufWr \o Rep(inh, inst.c) /\ bufWr' = <<>>
          /\ pcW' = [w \in 1..inst.c |-> "exited"] /\ pcWr' = "exited"
  /\ pcMain' = "returned"
  /\ UNCHANGED <<inst, jn, todo, pend, job, wline, queue, bufMain, inh, closed, killPut, exc, exit>>
  /\ Log("MainJoinPool", 0)

(* interpreter exit after a normal return: the manager process shuts down (flushing its inherited copy), *)
(* then main's own buffer is flushed                                                                     *)
AtExitOutput == out \o (IF inst.multi /\ pcWr # "idle" THEN inh ELSE <<>>) \o bufMain
MainExit0 ==
  /\ pcMain = "returned"
  /\ out' = AtExitOutput /\ bufMain' = <<>>
  /\ exit' = 0 /\ pcMain' = "exited"
  /\ UNCHANGED <<inst, jn, queue, bufWr, inh, closed, killPut, exc>> /\ UW /\ UWr
  /\ Log("MainExit0", 0)

(* the exception leaves run_stdout: multiprocessing's exit handler terminates the pool.  Busy or blocked   *)
(* children (and the writer, blocked in queue.get()) are killed by SIGTERM and do not flush; an idle pool    *)
(* process may instead see the shutdown sentinel first and exit normally, flushing its buffer (a race): S is *)
(* the set of worker-task processes that exit normally.  The label carries S as a bit mask.                  *)
RECURSIVE Mask(_)
Mask(S) == IF S = {} THEN 0 ELSE LET x == CHOOSE x \in S : TRUE IN 2 ^ (x - 1) + Mask(S \ {x})
Teardown(S) ==
  /\ pcMain = "raised" /\ inst.multi
  /\ S \subseteq {w \in 1..inst.c : pcW[w] \in {"done", "failed"}}
  /\ out' = out \o Rep(inh, Cardinality(S))
  /\ pcW' = [w \in 1..inst.c |-> IF w \in S THEN "exited"
                                 ELSE IF pcW[w] \in {"exited", "idle"} THEN pcW[w] ELSE "killed"]   \* idle: never submitted
  /\ pcWr' = IF pcWr = "exited" THEN "exited" ELSE "killed"
  /\ pcMain' = "torn"
  /\ UNCHANGED <<inst, jn, todo, pend, job, wline, queue, closed, killPut, exc, exit>> /\ UB
  /\ Log("Teardown", Mask(S))

MainExit1 ==
  /\ pcMain = (IF inst.multi THEN "torn" ELSE "raised")
  /\ out' = AtExitOutput /\ bufMain' = <<>>
  /\ exit' = 1 /\ pcMain' = "exited"
  /\ UNCHANGED <<inst, jn, queue, bufWr, inh, closed, killPut, exc>> /\ UW /\ UWr
  /\ Log("MainExit1", 0)

(* ---- single-core path: _run_stdout_single_core ------------------------------*)
SingleCall ==
  /\ pcMain = "s_next" /\ todo[1] # <<>>
  /\ LET k == Head(todo[1])
     IN  /\ todo' = [todo EXCEPT ![1] = Tail(@)]
         /\ IF Fails(k, {"call", "load"}) /\ ~(Mutant = "swallow" /\ inst.kind = "call")
            THEN pcMain' = "raised" /\ exc' = (IF inst.kind = "call" THEN "locus" ELSE "load") /\ pend' = pend
            ELSE IF Fails(k, {"call"})
            THEN pcMain' = "s_next" /\ exc' = exc /\ pend' = pend
            ELSE pcMain' = "s_write" /\ exc' = exc /\ pend' = [pend EXCEPT ![1] = k]
  /\ UNCHANGED <<inst, jn, pcW, job, queue, out, closed, killPut, exit>> /\ UWr /\ UB
  /\ Log("SingleCall", 1)
SingleWrite ==
  /\ pcMain = "s_write"
  /\ bufMain' = Append(bufMain, pend[1])
  /\ pend' = [pend EXCEPT ![1] = 0]
  /\ pcMain' = "s_next"
  /\ UNCHANGED <<inst, jn, todo, pcW, job, queue, out, bufWr, inh, closed, killPut, exc, exit>> /\ UWr
  /\ Log("SingleWrite", 1)
SingleReturn ==
  /\ pcMain = "s_next" /\ todo[1] = <<>>
  /\ pcMain' = "returned"
  /\ UNCHANGED <<inst, jn, queue, out, closed, killPut, exc, exit>> /\ UW /\ UWr /\ UB
  /\ Log("SingleReturn", 0)

(* ================================ worker w ====================================*)
(* next(_assemble_loci_wrapped): call_locus on the head locus; an exception is wrapped in               *)
(* LocusAssemblyError, leaves _worker and is stored in the job's AsyncResult                              *)
WorkerCall(w) ==
  /\ pcW[w] = "call"
  /\ LET k == Head(todo[w])
         rest == Tail(todo[w])
     IN  /\ todo' = [todo EXCEPT ![w] = rest]
         /\ IF Fails(k, {"call"})
            THEN IF Mutant = "swallow"
                 THEN pcW' = [pcW EXCEPT ![w] = IF rest = <<>> THEN "ret" ELSE "call"] /\ UNCHANGED <<pend, job>>
                 ELSE pcW' = [pcW EXCEPT ![w] = "failed"] /\ job' = [job EXCEPT ![w] = "failed"] /\ pend' = pend
            ELSE pcW' = [pcW EXCEPT ![w] = "put"] /\ pend' = [pend EXCEPT ![w] = k] /\ job' = job
  /\ UNCHANGED <<inst, pcMain, jn, queue, out, closed, killPut, exc, exit>> /\ UWr /\ UB
  /\ Log("WorkerCall", w)

WorkerPut(w) ==
  /\ pcW[w] = "put"
  /\ queue' = Append(queue, pend[w])
  /\ pend' = [pend EXCEPT ![w] = 0]
  /\ pcW' = [pcW EXCEPT ![w] = IF todo[w] = <<>> THEN "ret" ELSE "call"]
  /\ UNCHANGED <<inst, pcMain, jn, todo, job, out, closed, killPut, exc, exit>> /\ UWr /\ UB
  /\ Log("WorkerPut", w)

WorkerReturn(w) ==
  /\ pcW[w] = "ret"
  /\ pcW' = [pcW EXCEPT ![w] = "done"]
  /\ job' = [job EXCEPT ![w] = "done"]
  /\ UNCHANGED <<inst, pcMain, jn, todo, pend, queue, out, closed, killPut, exc, exit>> /\ UWr /\ UB
  /\ Log("WorkerReturn", w)

(* ================================ writer =====================================*)
WriterGet ==
  /\ pcWr = "get" /\ queue # <<>>
  /\ wline' = Head(queue)
  /\ queue' = Tail(queue)
  /\ pcWr' = IF Head(queue) = Kill THEN "ret" ELSE "write"
  /\ UNCHANGED <<inst, pcMain, jn, out, closed, killPut, exc, exit>> /\ UW /\ UB
  /\ Log("WriterGet", 0)

(* sys.stdout.write(line + "\n"); sys.stdout.flush() *)
WriterWrite ==
  /\ pcWr = "write"
  /\ out' = out \o bufWr \o <<wline>>
  /\ bufWr' = <<>>
  /\ wline' = 0
  /\ pcWr' = "get"
  /\ UNCHANGED <<inst, pcMain, jn, queue, bufMain, inh, closed, killPut, exc, exit>> /\ UW
  /\ Log("WriterWrite", 0)

WriterStop ==
  /\ pcWr = "ret"
  /\ pcWr' = "done"
  /\ wline' = 0
  /\ UNCHANGED <<inst, pcMain, jn, queue, out, closed, killPut, exc, exit>> /\ UW /\ UB
  /\ Log("WriterStop", 0)

(* ================================ system =====================================*)
MainNext == \/ MainWriteHeader \/ MainFlush \/ MainStartPool \/ MainPutKill \/ MainClosePool \/ MainJoinPool
            \/ MainExit0 \/ MainExit1 \/ SingleCall \/ SingleWrite \/ SingleReturn
            \/ \E w \in 1..inst.c : MainJoin(w) \/ MainRaise(w)
            \/ \E S \in SUBSET (1..inst.c) : Teardown(S)
WorkerNext(w) == WorkerCall(w) \/ WorkerPut(w) \/ WorkerReturn(w) \/ ChildExitW(w)
WriterNext == WriterGet \/ WriterWrite \/ WriterStop \/ ChildExitWr
Terminated == exit # NoExit /\ UNCHANGED vars
Next == MainNext \/ WriterNext \/ (\E w \in 1..inst.c : WorkerNext(w)) \/ Terminated
Spec == Init /\ [][Next]_vars
(* for -simulate with deadlock checking off: a behaviour simply ends at exit *)
SimSpec == Init /\ [][MainNext \/ WriterNext \/ (\E w \in 1..inst.c : WorkerNext(w))]_vars
FairSpec == /\ Spec
            /\ WF_vars(MainNext)
            /\ WF_vars(WriterNext)
            /\ \A w \in 1..MaxC : WF_vars(w <= inst.c /\ WorkerNext(w))
Terminates == <>(exit # NoExit)

(* ================================ properties =================================*)
(* written over explicit arguments so that TraceMultiCore evaluates the same predicates on the terminal *)
(* summaries of real runs                                                                               *)
IsHeaderLine(x) == x < 0
IsLocusLine(x, nl) == x \in 1..nl
LocusLinesOf(o) == SelectSeq(o, LAMBDA x : x > 0)
NoDuplicateOf(o) == \A i, j \in DOMAIN o : (i < j /\ o[i] > 0) => o[i] # o[j]
HeaderOnceOf(o) == /\ \A h \in {Header[i] : i \in DOMAIN Header} : Cardinality({i \in DOMAIN o : o[i] = h}) <= 1
                   /\ (\E i \in DOMAIN o : ~IsHeaderLine(o[i])) => (Len(o) >= Len(Header) /\ SubSeq(o, 1, Len(Header)) = Header)
IntactOf(o, nl) == \A i \in DOMAIN o : i > Len(Header) => IsLocusLine(o[i], nl)
CompleteOf(o, nl) == {o[i] : i \in DOMAIN o} \cap (1..nl) = 1..nl
InOrderOf(o, nl) == LocusLinesOf(o) = AllLoci(nl)
(* the lines of one block appear in block order and form a prefix of the block (FIFO queue, one writer) *)
IsPrefix(s, t) == Len(s) <= Len(t) /\ SubSeq(t, 1, Len(s)) = s
BlockPrefixOf(o, nl, c, multi) ==
  IF multi THEN \A w \in 1..c : LET b == GoodBlock(nl, c, w)
                                 IN  IsPrefix(SelectSeq(o, LAMBDA x : \E i \in DOMAIN b : b[i] = x), b)
  ELSE IsPrefix(LocusLinesOf(o), AllLoci(nl))
ExitedHeaderOf(o) == Len(o) >= Len(Header) /\ SubSeq(o, 1, Len(Header)) = Header

TypeOK == /\ pcMain \in {"start", "hdr", "flushed", "join", "kill", "close", "joinpool", "returned", "raised", "torn", "exited",
                         "s_next", "s_write"}
          /\ \A w \in 1..inst.c : pcW[w] \in {"idle", "call", "put", "ret", "done", "failed", "exited", "killed"}
          /\ pcWr \in {"idle", "get", "write", "ret", "done", "exited", "killed"}
          /\ exit \in {NoExit, 0, 1}
NoDuplicate == NoDuplicateOf(out)
Intact == IntactOf(out, inst.nl)
HeaderOnce == HeaderOnceOf(out) /\ (exit # NoExit => ExitedHeaderOf(out))
KillLast == /\ \A i \in DOMAIN queue : queue[i] = Kill => i = Len(queue)
            /\ killPut => \A w \in 1..inst.c : pcW[w] \in {"done", "exited"}
Exit0Complete == exit = 0 => (CompleteOf(out, inst.nl) /\ queue = <<>> /\ bufWr = <<>> /\ bufMain = <<>>)
FailNonZero == inst.fail # 0 => exit # 0
SingleCoreEquivalent == exit = 0 => IF inst.multi THEN NoDuplicateOf(out) /\ CompleteOf(out, inst.nl) ELSE InOrderOf(out, inst.nl)
BlockPrefix == BlockPrefixOf(out, inst.nl, inst.c, inst.multi)
BlocksPartition == inst.multi => LET cat[w \in 0..inst.c] == IF w = 0 THEN <<>> ELSE cat[w - 1] \o GoodBlock(inst.nl, inst.c, w)
                                 IN  /\ cat[inst.c] = AllLoci(inst.nl)
                                     /\ \A w \in 1..inst.c, v \in 1..inst.c :
                                          LET d == BlockSize(inst.nl, inst.c, w) - BlockSize(inst.nl, inst.c, v)
                                          IN  d \in {-1, 0, 1} /\ (w < v => d >= 0)
ExitOnlyAfterRaise == (exit = 1 <=> (exit # NoExit /\ exc # "none")) /\ (exc = "locus" => inst.kind = "call") /\ (exc = "load" => inst.kind = "load")
NoFailureNoRaise == inst.fail = 0 => exc = "none"

(* behaviour enumeration: print every terminal state's history (CONSTRAINT) *)
DumpFinal == (exit # NoExit) => PrintT(<<"@@J", ToJson([inst |-> inst, hist |-> hist])>>)
(* state-graph dump: print every generated transition (ACTION_CONSTRAINT, used with VIEW view) *)
DumpEdge == (exit = NoExit) => PrintT(<<"@@J", ToJson([inst |-> inst, f |-> Proj, a |-> last', t |-> Proj'])>>)
DumpInit == (pcMain = "start") => PrintT(<<"@@J", ToJson([inst |-> inst, init |-> Proj])>>)
=============================================================================
