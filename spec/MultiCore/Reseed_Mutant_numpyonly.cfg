SPECIFICATION Spec
CONSTANT Seeds = {1, 2}
CONSTANT Inputs = {1, 2}
CONSTANT MaxOps = 3
CONSTANT Mutant = "numpyonly"
CONSTANT KeepHist = TRUE
INVARIANT OutputFunctionOfSeed
CHECK_DEADLOCK FALSE
