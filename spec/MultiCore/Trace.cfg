SPECIFICATION SpecEvents
CONSTANT MaxL = 0
CONSTANT MaxC = 1
CONSTANT FailKinds = {"none"}
CONSTANT ForceMulti = {}
CONSTANT SepExit = TRUE
CONSTANT Mutant = "none"
CONSTANT KeepHist = "none"
INVARIANT AcceptPrint
INVARIANT NoDuplicate
INVARIANT Intact
INVARIANT HeaderOnce
INVARIANT KillLast
INVARIANT Exit0Complete
INVARIANT FailNonZero
CHECK_DEADLOCK FALSE
