SPECIFICATION Spec
CONSTANT MaxL = 3
CONSTANT MaxC = 2
CONSTANT FailKinds = {"none", "call", "load"}
CONSTANT ForceMulti = {TRUE}
CONSTANT SepExit = FALSE
CONSTANT Mutant = "none"
CONSTANT KeepHist = "none"
CHECK_DEADLOCK TRUE
VIEW view
ACTION_CONSTRAINT DumpEdge
CONSTRAINT DumpInit
