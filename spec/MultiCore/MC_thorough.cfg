SPECIFICATION Spec
CONSTANT MaxL = 6
CONSTANT MaxC = 4
CONSTANT FailKinds = {"none", "call", "load"}
CONSTANT ForceMulti = {TRUE}
CONSTANT SepExit = TRUE
CONSTANT Mutant = "none"
CONSTANT KeepHist = "none"
INVARIANT TypeOK
INVARIANT NoDuplicate
INVARIANT Intact
INVARIANT HeaderOnce
INVARIANT KillLast
INVARIANT Exit0Complete
INVARIANT FailNonZero
INVARIANT SingleCoreEquivalent
INVARIANT BlockPrefix
INVARIANT BlocksPartition
INVARIANT ExitOnlyAfterRaise
INVARIANT NoFailureNoRaise
CHECK_DEADLOCK TRUE
VIEW view
