SPECIFICATION SimSpec
CONSTANT MaxL = 6
CONSTANT MaxC = 5
CONSTANT FailKinds = {"none", "call", "load"}
CONSTANT ForceMulti = {TRUE}
CONSTANT SepExit = TRUE
CONSTANT Mutant = "none"
CONSTANT KeepHist = "full"
CONSTRAINT DumpFinal
