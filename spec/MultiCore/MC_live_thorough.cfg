SPECIFICATION FairSpec
CONSTANT MaxL = 5
CONSTANT MaxC = 4
CONSTANT FailKinds = {"none", "call", "load"}
CONSTANT ForceMulti = {TRUE}
CONSTANT SepExit = TRUE
CONSTANT Mutant = "none"
CONSTANT KeepHist = "none"
PROPERTY Terminates
CHECK_DEADLOCK TRUE
