------------------------------- MODULE Reseed -------------------------------
(* C08, "regardless of what was computed earlier in the same process": the two *)
(* global random generators a fit draws from - numpy's (interpreted code:      *)
(* np.random functions) and numba's (compiled code) - and the per-fit reseeding        *)
(*     np.random.seed(seed); seed_numba(seed)                                   *)
(* at the start of DenovoMCMC.fit / CallingMCMC.fit / PedigreeCallingMCMC.fit.  *)
(*                                                                             *)
(* A generator state is the term describing how it was produced since the last *)
(* seeding, flattened to a sequence of integers:                               *)
(*    <<0>> at process start, <<s>> after seeding with s >= 1,                  *)
(*    Append(g, -1) after someone else drew from g,                             *)
(*    Append(g, -(1+x)) after the sampling phase of a fit on input x ran on g.  *)
(* A fit is opaque and deterministic: what it returns is a function of its     *)
(* input and of the two generator states at the moment its sampling phase      *)
(* starts (plus, in the mutants, of whatever else it looked at).               *)
EXTENDS Integers, Sequences, FiniteSets, TLC, Json

CONSTANTS Seeds,      \* positive integers
          Inputs,     \* positive integers: (kind of fit, data set)
          MaxOps,     \* operations (other draws / fits) per history
          Mutant,     \* "none" | "numpyonly" | "drawfirst" | "seedonce" | "cachedep"
          KeepHist    \* BOOLEAN: carry the operation history (behaviour enumeration)

VARIABLES np, nb,         \* generator states (terms)
          pc,             \* "idle" | "enter" | "seeded_np" | "seeded_nb" | "ran"
          cur,            \* the fit in progress: [x, seed, extra, out]
          cacheState,     \* inputs fitted earlier in this process (compiled code, caches, ... left behind)
          seededOnce,     \* only used by the seed-once mutant
          outputs,        \* history of returned results: set of [x, seed, out]
          nops, hist
vars == <<np, nb, pc, cur, cacheState, seededOnce, outputs, nops, hist>>

Boot == <<0>>
SeedTerm(s) == <<s>>
Adv(g) == Append(g, -1)
After(x, g) == Append(g, -(1 + x))
NoFit == [x |-> 0, seed |-> 0, extra |-> <<>>, out |-> <<>>]
(* what a fit returns: its input, the generator states its sampling phase started from, anything else it read *)
OutTerm(x, gnp, gnb, extra) == <<x>> \o <<99>> \o gnp \o <<99>> \o gnb \o <<99>> \o extra

H(op) == IF KeepHist THEN Append(hist, op) ELSE hist

Init == /\ np = Boot /\ nb = Boot
        /\ pc = "idle" /\ cur = NoFit
        /\ cacheState = {} /\ seededOnce = FALSE
        /\ outputs = {}
        /\ nops = 0 /\ hist = <<>>

(* anything else in the process consuming randomness: other fits' leftovers, np.random.rand(), a jitted draw *)
OtherNp == /\ pc = "idle" /\ nops < MaxOps
           /\ np' = Adv(np)
           /\ nops' = nops + 1 /\ hist' = H(<<1, 0, 0>>)
           /\ UNCHANGED <<nb, pc, cur, cacheState, seededOnce, outputs>>
OtherNb == /\ pc = "idle" /\ nops < MaxOps
           /\ nb' = Adv(nb)
           /\ nops' = nops + 1 /\ hist' = H(<<2, 0, 0>>)
           /\ UNCHANGED <<np, pc, cur, cacheState, seededOnce, outputs>>

FitEnter(x, s) ==
  /\ pc = "idle" /\ nops < MaxOps
  /\ pc' = "enter"
  /\ cur' = [x |-> x, seed |-> s, out |-> <<>>,
             extra |-> CASE Mutant = "drawfirst" -> np                                  \* a value drawn before seeding
                         [] Mutant = "cachedep" -> IF x \in cacheState THEN <<1>> ELSE <<>>
                         [] OTHER -> <<>>]
  /\ np' = IF Mutant = "drawfirst" THEN Adv(np) ELSE np
  /\ cacheState' = cacheState \cup {x}
  /\ nops' = nops + 1 /\ hist' = H(<<3, x, s>>)
  /\ UNCHANGED <<nb, seededOnce, outputs>>

SkipSeeding == Mutant = "seedonce" /\ seededOnce
(* np.random.seed(seed) *)
SeedNp == /\ pc = "enter"
          /\ np' = IF SkipSeeding THEN np ELSE SeedTerm(cur.seed)
          /\ pc' = "seeded_np"
          /\ UNCHANGED <<nb, cur, cacheState, seededOnce, outputs, nops, hist>>
(* seed_numba(seed) *)
SeedNb == /\ pc = "seeded_np"
          /\ nb' = IF SkipSeeding \/ Mutant = "numpyonly" THEN nb ELSE SeedTerm(cur.seed)
          /\ pc' = "seeded_nb"
          /\ seededOnce' = TRUE
          /\ UNCHANGED <<np, cur, cacheState, outputs, nops, hist>>
(* the sampling phase: opaque, deterministic in (input, both generator states) *)
FitRun == /\ pc = "seeded_nb"
          /\ cur' = [cur EXCEPT !.out = OutTerm(cur.x, np, nb, cur.extra)]
          /\ np' = After(cur.x, np) /\ nb' = After(cur.x, nb)
          /\ pc' = "ran"
          /\ UNCHANGED <<cacheState, seededOnce, outputs, nops, hist>>
Return == /\ pc = "ran"
          /\ outputs' = outputs \cup {[x |-> cur.x, seed |-> cur.seed, out |-> cur.out]}
          /\ pc' = "idle" /\ cur' = NoFit
          /\ UNCHANGED <<np, nb, cacheState, seededOnce, nops, hist>>

Next == OtherNp \/ OtherNb \/ (\E x \in Inputs, s \in Seeds : FitEnter(x, s)) \/ SeedNp \/ SeedNb \/ FitRun \/ Return
Spec == Init /\ [][Next]_vars

(* ---- properties ---------------------------------------------------------------*)
OutputFunctionOfSeed == \A o1, o2 \in outputs : (o1.x = o2.x /\ o1.seed = o2.seed) => o1.out = o2.out
SeededWhenSampling == pc = "seeded_nb" => (np = SeedTerm(cur.seed) /\ nb = SeedTerm(cur.seed))
StateAfterFit == pc = "ran" => (np = After(cur.x, SeedTerm(cur.seed)) /\ nb = After(cur.x, SeedTerm(cur.seed)))
OutputIsCanonical == \A o \in outputs : o.out = OutTerm(o.x, SeedTerm(o.seed), SeedTerm(o.seed), <<>>)

(* behaviour enumeration for the replay: every maximal history *)
DumpFinal == (pc = "idle" /\ nops = MaxOps) => PrintT(<<"@@J", ToJson([hist |-> hist])>>)
=============================================================================
