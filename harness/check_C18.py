"""C18: every move of the call-pedigree sampler is stationary at the joint pedigree posterior.

spec  : spec/PedigreeSampler/PedigreeSampler.tla (joint + move structure + invariants, on top of the
        first-principles inheritance model spec/common/PedInheritance.tla), TracePedigree.tla
bind  : TLC prints the exact factors of pi(s) for every reachable joint state of every pedigree of the
        menu; for every state, individual and position the compiled gibbs_probabilities /
        metropolis_hastings_probabilities vectors are compared with the conditionals of that table, and
        for every (parental pair, index pair) the prob_accept of pair_allele_swap_step (interpreted, index
        draws forced; compiled where the draw does not matter) with min(1, pi(t)/pi(s));
        interpreted mcmc_sampler runs are recorded and validated by TracePedigree.tla
regimes added after the fourth seeded round:
  * read layouts - the model's read set is a bag of (read, count) rows (ReadOrderIrrelevant, ZeroCountNeutral):
        pedigrees whose unused (count 0) read slots are leading / interior, and every pedigree laid out a second
        time with its read slots permuted and unused NaN slots inserted before / between the used ones, must give
        the same kernels as the model's table;
  * shared likelihood cache - the kernel rows of the model are functions of the joint state only.  (i) cached_walk:
        the reachable states of the mixed-ploidy pedigrees (several sample orders: higher ploidy first, lower
        ploidy first, child before its parents) are replayed interpreted with ONE cache dictionary shared by all
        individuals, move types and states, visiting the individuals in ascending and descending order; (ii) the
        recorded mcmc_sampler runs carry the vector every update drew from / every prob_accept, computed with the
        sampler's own cache, and TracePedigree.tla validates them against GibbsRow / MHRow / SwapAccept of the
        current joint state (clauses GibbsRowIsFullConditional, MHRowIsKernelRow, SwapAcceptIsTargetRatio,
        CacheTransparent).
"""
import json
import math
import os
import random
import sys
from fractions import Fraction

sys.path.insert(0, os.path.dirname(os.path.abspath(__file__)))
from vlib import env, tlc, pool
from vlib.report import Check
from vlib.compare import close_prob, frac

SPEC = os.path.join(env.SPEC, "PedigreeSampler")
LIBS = None
# (cfg, invariant that must be reported violated / None = must pass)
MUTANTS = [
    ("Mutant_origin.cfg", "GibbsIsFullConditional"),
    ("Mutant_origin_balanced.cfg", None),
    ("Mutant_children.cfg", "BlanketSufficient"),
    ("Mutant_swapcount.cfg", "SwapDetailedBalance"),
    ("Mutant_reads.cfg", "SwapDetailedBalance"),
    ("Mutant_mhcount.cfg", "MHDetailedBalance"),
    ("Mutant_zerocount.cfg", "ZeroCountNeutral"),
]


def tkey(s):
    return tuple(tuple(x) for x in s)


def pi_of(rec):
    v = Fraction(1)
    for f in rec["fac"]:
        for base, cnt in f["lw"]:
            v *= Fraction(base) ** cnt
        v *= frac(f["trio"])
        v /= f["perms"]
    return v


def set_cell(s, i, k, b):
    t = [list(x) for x in s]
    t[i][k] = b
    return tkey(t)


def swap_target(s, p, q, ip, iq):
    t = [list(x) for x in s]
    if p == q:
        t[p][ip], t[p][iq] = t[p][iq], t[p][ip]
    else:
        t[p][ip], t[q][iq] = s[q][iq], s[p][ip]
    return tkey(t)


def ped_features(ped):
    """distinguishing features used in violation keys"""
    feats = {}
    for i in range(ped["n"]):
        tp, tq = ped["tau"][i]
        known = [x > 0 for x in ped["par"][i]]
        feats[i] = {"tau": "unbalanced" if tp != tq else "balanced",
                    "parents": "known" if all(known) else ("one-known" if any(known) else "unknown")}
    return feats


def mask_feature(ped, p, q):
    """does q have a read row whose count is zero in p (the rows pair_allele_swap_step would need a
    mask of its own for)?"""
    rp, rq = ped["reads"][p], ped["reads"][q]
    return "q-row-beyond-p-rows" if len(rq) > len(rp) else "same-mask"


def make_layout(ped, rnd):
    """read slots permuted, with one or two unused slots inserted before / between the used ones"""
    lay = []
    for rs in ped["reads"]:
        sl = list(range(len(rs)))
        rnd.shuffle(sl)
        for _ in range(rnd.randint(1, 2)):
            sl.insert(rnd.randint(0, max(0, len(sl) - 1)), -1)
        lay.append(sl)
    return lay


def reads_feature(ped, layout, i):
    """does individual i (0-based) have an unused read slot in front of a used one in this layout?"""
    rs = ped["reads"][i]
    sl = layout[i] if layout is not None else list(range(len(rs)))
    cnt = [rs[x]["n"] if x >= 0 else 0 for x in sl]
    used = [m for m, c in enumerate(cnt) if c > 0]
    if not used:
        return "no-reads"
    return "unused-slot-before-used" if any(c == 0 for c in cnt[: used[-1]]) else "unused-slots-trailing-only"


def lay_name(layout):
    return "model-order" if layout is None else "permuted-with-inserted-unused-slots"


def run_pool(ck, tasks, mode, site, **kw):
    try:
        return pool.map_tasks("impl.c18", tasks, mode=mode, **kw)
    except pool.WorkerError as e:
        ck.violation("impl-crash", {"site": site, "error": str(e)[-800:]}, key={"site": site, "kind": "worker-died"})
        ck.finish()


def main():
    import time
    t0 = [time.time()]
    phases = {}

    def phase(nm):
        now = time.time()
        phases[nm] = round(now - t0[0], 1)
        t0[0] = now

    ck = Check("C18")
    # a broken kernel fails in thousands of states: full detail for the first 20 violations of each (kind, key),
    # the rest are counted (violation_summary)
    tally = {}
    report = ck.violation

    def violation(kind, detail, key=None):
        k = "%s %s" % (kind, json.dumps(key, sort_keys=True))
        tally[k] = tally.get(k, 0) + 1
        if tally[k] <= 20:
            report(kind, detail, key=key)

    ck.violation = violation
    tier = ck.tier
    rnd = random.Random(ck.seed)
    ck.rule = (
        "TLC explores every joint state (ordered allele vectors of all individuals) reachable by moves of positive "
        "probability in each pedigree of the menu and checks the kernel invariants in each; every state is replayed into "
        "the implementation for every individual x position (Gibbs, MH) and every parental pair x index pair (swap). "
        "Non-trivial = kernel row whose model vector has at least two non-zero entries (allele rows) or a swap "
        "proposal that changes the state with acceptance strictly between 0 and 1."
    )
    try:
        # the mutant specifications are small: they run beside the model-checking run
        from concurrent.futures import ThreadPoolExecutor
        with ThreadPoolExecutor(max_workers=3) as ex:
            futs = [(cfg, inv, ex.submit(tlc.run, SPEC, "PedigreeSampler", cfg, timeout=900, workers=2)) for cfg, inv in MUTANTS]
            r = tlc.run(SPEC, "PedigreeSampler", "MC_%s.cfg" % tier, timeout=3000 if tier == "quick" else 7000)
            ck.add_tlc(r, "PedigreeSampler")
            if r.violated:
                ck.violation("model", {"invariant": r.violated, "text": r.error_text[:1500]}, key={"model": "PedigreeSampler"})
            killed = 0
            for cfg, inv, fut in futs:
                m = fut.result()
                if m.violated != inv:
                    ck.machinery_failure("mutant spec %s: expected %s, got %s" % (cfg, inv, m.violated))
                killed += 1 if inv else 0
        ck.note("mutant_specs_killed", killed)
        ck.note("mutant_spec_not_killed_on_balanced_pedigrees_as_expected", "Mutant_origin_balanced.cfg")
    except tlc.TLCError as e:
        ck.machinery_failure(str(e))

    phase("tlc-model+mutants")
    peds = {}
    rowpeds = set()
    table = {}          # ped name -> {state key -> pi (Fraction)}
    states = {}         # ped name -> [state]
    for p in r.printed:
        if "peds" in p:
            for ped in p["peds"]:
                peds[ped["name"]] = ped
            rowpeds = set(p.get("rowpeds", []))
        else:
            k = tkey(p["s"])
            t = table.setdefault(p["ped"], {})
            if k not in t:
                t[k] = pi_of(p)
                states.setdefault(p["ped"], []).append(p["s"])
    if not peds or not table:
        ck.machinery_failure("TLC printed no pedigree / state records")
    if sum(len(t) for t in table.values()) != r.distinct:
        ck.machinery_failure("state records %d != distinct states %d" % (sum(len(t) for t in table.values()), r.distinct))
    ck.note("pedigrees", {n: len(t) for n, t in table.items()})

    # the sampler's own pair / blanket / children construction vs the model's
    pair_names = list(table)
    pair_res = run_pool(ck, [{"op": "pairs", "ped": peds[name]} for name in pair_names], "jit",
                        "parental_pair_markov_blankets", nproc=1, warm_first=False)
    for name, rr in zip(pair_names, pair_res):
        ped = peds[name]
        if not rr["ok"]:
            ck.violation("impl-error", {"error": rr["error"]}, key={"site": "parental_pair_markov_blankets", "ped": name})
            continue
        o = rr["result"]
        n = ped["n"]
        ch = [sorted(c + 1 for c in range(n) if (i + 1) in ped["par"][c]) for i in range(n)]
        prs = sorted(set(tuple(sorted(pq)) for pq in ped["par"] if pq[0] > 0 and pq[1] > 0))
        ck.evaluations += 1
        if [sorted(x) for x in o["children"]] != ch:
            ck.violation("children", {"ped": name, "impl": o["children"], "model": ch},
                         key={"site": "sample_children_matrix", "ped": name})
        if sorted(tuple(x) for x in o["pairs"]) != prs:
            ck.violation("pairs", {"ped": name, "impl": o["pairs"], "model": prs},
                         key={"site": "parental_pair_markov_blankets", "ped": name})
        for (p, q), bl in zip(o["pairs"], o["blankets"]):
            want = sorted(set([p, q] + ch[p - 1] + ch[q - 1]))
            if sorted(bl) != want:
                ck.violation("pair-blanket", {"ped": name, "pair": [p, q], "impl": bl, "model": want},
                             key={"site": "parental_pair_markov_blankets", "ped": name})

    # one extra read layout per pedigree (the model's read set is a bag: same kernels)
    # (pedigrees without any read keep the model-order layout only)
    layouts = {name: make_layout(peds[name], rnd) for name in sorted(table)}
    has_reads = {name: any(len(rs) > 0 for rs in peds[name]["reads"]) for name in table}
    ck.note("read_layouts", {name: layouts[name] for name in sorted(table)})

    def judge_alleles(name, s, rows, layout, cache, gib=None, mhk=None):
        """kernel rows of one state vs the conditionals of the model's table"""
        ped, tb, feats = peds[name], table[name], ped_features(peds[name])
        K = ped["K"]
        ks = tkey(s)
        for row in rows:
            i, k = row["i"] - 1, row["k"] - 1
            w = [tb.get(set_cell(ks, i, k, b), Fraction(0)) for b in range(K)]
            tot = sum(w)
            a = s[i][k]
            exp_g = [x / tot for x in w]
            exp_mh = [min(Fraction(1), w[b] / w[a]) / (K - 1) if b != a else None for b in range(K)]
            exp_mh[a] = 1 - sum(x for x in exp_mh if x is not None)
            ck.evaluations += 2
            if sum(1 for x in w if x > 0) >= 2:
                ck.nontrivial += 2
            fkey = dict(feats[i], ped=name, layout=lay_name(layout), reads=reads_feature(ped, layout, i),
                        cache="shared" if cache else "none")
            det = {"ped": name, "state": s, "individual": i + 1, "position": k + 1, "read_layout": layout,
                   "likelihood_cache": "one dictionary shared by all individuals, moves and states" if cache else None}
            if not all(close_prob(x, q) for x, q in zip(row["gibbs"], exp_g)):
                ck.violation("gibbs-vector", dict(det, impl=row["gibbs"], model=[str(x) for x in exp_g],
                                                  model_float=[float(x) for x in exp_g]),
                             key=dict(fkey, site="gibbs_probabilities"))
            if not all(close_prob(x, q) for x, q in zip(row["mh"], exp_mh)):
                ck.violation("mh-vector", dict(det, impl=row["mh"], model=[str(x) for x in exp_mh]),
                             key=dict(fkey, site="metropolis_hastings_probabilities"))
            if cache:
                # the same call without a cache: a cache is only a cache
                for kern, site in (("gibbs", "gibbs_probabilities"), ("mh", "metropolis_hastings_probabilities")):
                    ck.evaluations += 1
                    if max(abs(x - y) for x, y in zip(row[kern], row[kern + "0"])) > 1e-12:
                        ck.violation("cache-dependence", dict(det, kernel=kern, with_shared_cache=row[kern],
                                                              without_cache=row[kern + "0"]),
                                     key=dict(fkey, site=site, what="cache-transparent"))
            if gib is not None:
                gib[(name, ks, i, k)] = row["gibbs"]
                mhk[(name, ks, i, k)] = row["mh"]

    def judge_swaps(name, s, rows, layout, cache, swp=None):
        """prob_accept / effect of the pair step for every forced (pair, ip, iq) of one state"""
        ped, tb = peds[name], table[name]
        ks = tkey(s)
        for row in rows:
            p, q, ip, iq = row["p"] - 1, row["q"] - 1, row["ip"] - 1, row["iq"] - 1
            ck.evaluations += 1
            key = {"site": "pair_allele_swap_step", "ped": name, "mask": mask_feature(ped, p, q),
                   "selfing": p == q, "layout": lay_name(layout), "cache": "shared" if cache else "none",
                   "reads": sorted(set([reads_feature(ped, layout, p), reads_feature(ped, layout, q)]))[-1]}
            if s[p][ip] == s[q][iq]:
                if not math.isnan(row["prob"]) or tkey(row["after"]) != ks:
                    ck.violation("swap-noop", {"ped": name, "state": s, "row": row}, key=dict(key, what="noop"))
                continue
            t = swap_target(ks, p, q, ip, iq)
            exp = min(Fraction(1), tb.get(t, Fraction(0)) / tb[ks])
            if 0 < exp < 1:
                ck.nontrivial += 1
            if swp is not None:
                swp[(name, ks, p, q, ip, iq)] = (row["prob"], t)
            if not close_prob(row["prob"], exp):
                ck.violation("swap-accept", {"ped": name, "state": s, "pair": [p + 1, q + 1], "index_p": ip + 1,
                                             "index_q": iq + 1, "impl": row["prob"], "model": str(exp),
                                             "model_float": float(exp), "read_layout": layout}, key=key)
            if cache and not abs(row["prob"] - row["prob0"]) <= 1e-12:
                ck.violation("cache-dependence", {"ped": name, "state": s, "pair": [p + 1, q + 1], "index_p": ip + 1,
                                                  "index_q": iq + 1, "with_shared_cache": row["prob"],
                                                  "without_cache": row["prob0"], "read_layout": layout},
                             key=dict(key, what="cache-transparent"))
            want_after = t if row["accept"] else ks
            if tkey(row["after"]) != want_after:
                ck.violation("swap-effect", {"ped": name, "state": s, "row": row}, key=dict(key, what="effect"))

    phase("parse+pairs")
    # ---- spec -> code: allele kernels (compiled), model-order layout and the permuted / padded layout ------
    tasks, owners = [], []
    for name, sts in states.items():
        for layout in ((None, layouts[name]) if has_reads[name] else (None,)):
            for c in range(0, len(sts), 60):
                tasks.append({"op": "allele_kernels", "ped": peds[name], "states": sts[c:c + 60], "layout": layout})
                owners.append((name, sts[c:c + 60], layout))
    # the same pedigrees listed after 130 unrelated founders without reads (sample indices beyond a signed byte): the joint
    # posterior factorises over unrelated individuals, the rows of the real individuals are the model's rows unchanged
    for name, sts in states.items():
        tasks.append({"op": "allele_kernels", "ped": peds[name], "states": sts[:24 if tier == "quick" else 200], "layout": None, "pad": 130})
        owners.append((name, sts[:24 if tier == "quick" else 200], None))
    res = run_pool(ck, tasks, "jit", "gibbs_probabilities")
    gib = {}    # (ped, state key, i, k) -> impl vector, for the stationarity check
    mhk = {}
    for (name, sts, layout), rr in zip(owners, res):
        if not rr["ok"]:
            ck.violation("impl-error", {"error": rr["error"], "ped": name, "first_state": sts[0], "read_layout": layout},
                         key={"site": "gibbs_probabilities", "ped": name, "kind": "exception", "layout": lay_name(layout)})
            continue
        for s, o in zip(sts, rr["result"]):
            ck.traces += 1
            if not o["restored"]:
                ck.violation("state-not-restored", {"ped": name, "state": s}, key={"site": "gibbs_probabilities", "what": "restore"})
            if layout is None:
                judge_alleles(name, s, o["rows"], layout, False, gib, mhk)
            else:
                judge_alleles(name, s, o["rows"], layout, False)

    phase("allele-kernels-jit")
    # ---- spec -> code: the kernels with ONE likelihood cache shared by all individuals, moves and states ----
    # (interpreted; the mixed-ploidy pedigrees in their different sample orders)
    mixed = [name for name in sorted(table)
             if len(set(peds[name]["ploidy"])) > 1 and any(r["n"] > 0 for rs in peds[name]["reads"] for r in rs)]
    tasks, owners = [], []
    for name in mixed:
        sts = list(states[name])
        rnd.shuffle(sts)
        if tier == "quick":
            sts = sts[:256]
        for num, c in enumerate(range(0, len(sts), 64)):
            layout = layouts[name] if num % 2 else None
            tasks.append({"op": "cached_walk", "ped": peds[name], "states": sts[c:c + 64], "layout": layout, "flip": num // 2})
            owners.append((name, sts[c:c + 64], layout))
    res = run_pool(ck, tasks, "py", "gibbs_probabilities") if tasks else []
    nwalk = 0
    for (name, sts, layout), rr in zip(owners, res):
        if not rr["ok"]:
            ck.violation("impl-error", {"error": rr["error"], "ped": name, "first_state": sts[0], "read_layout": layout},
                         key={"site": "gibbs_probabilities", "ped": name, "kind": "exception", "cache": "shared"})
            continue
        for s, o in zip(sts, rr["result"]):
            nwalk += 1
            ck.traces += 1
            if not o["restored"]:
                ck.violation("state-not-restored", {"ped": name, "state": s},
                             key={"site": "gibbs_probabilities", "what": "restore", "cache": "shared"})
            judge_alleles(name, s, o["rows"], layout, True)
            judge_swaps(name, s, o["swaps"], layout, True)
    ck.note("shared_cache_walk", {"pedigrees": mixed, "states": nwalk})

    phase("cached-walk-py")
    # numeric stationarity of the extracted kernels w.r.t. the model joint:
    #   sum_b pi(s_b) K(s_b -> s_c) = pi(s_c) on every conditional slice
    worst = {"gibbs": 0.0, "mh": 0.0}
    for kern, store, site in (("gibbs", gib, "gibbs_probabilities"), ("mh", mhk, "metropolis_hastings_probabilities")):
        seen = set()
        for (name, ks, i, k) in store:
            K = peds[name]["K"]
            sl = tuple(set_cell(ks, i, k, b) for b in range(K))
            if (name, sl[0], i, k) in seen:
                continue
            seen.add((name, sl[0], i, k))
            tb = table[name]
            w = [tb.get(x, Fraction(0)) for x in sl]
            tot = float(sum(w))
            out = [0.0] * K
            for b in range(K):
                if w[b] == 0:
                    continue
                row = store.get((name, sl[b], i, k))
                if row is None:
                    break
                for c in range(K):
                    out[c] += float(w[b]) / tot * row[c]
            else:
                res_ = max(abs(out[c] - float(w[c]) / tot) for c in range(K))
                worst[kern] = max(worst[kern], res_)
                ck.evaluations += 1
                if res_ > 1e-9:
                    ck.violation("stationarity", {"kernel": kern, "ped": name, "slice_first_state": sl[0], "individual": i + 1,
                                                  "position": k + 1, "residual": res_},
                                 key=dict(ped_features(peds[name])[i], ped=name, site=site, what="stationarity"))
    ck.note("max_stationarity_residual", worst)

    phase("stationarity")
    # ---- spec -> code: swap step (interpreted, index draws forced) -----------
    tasks, owners = [], []
    for name, sts in states.items():
        ped = peds[name]
        if not any(pq[0] > 0 and pq[1] > 0 for pq in ped["par"]):
            continue
        for num, c in enumerate(range(0, len(sts), 40)):
            tasks.append({"op": "swap_py", "ped": ped, "states": sts[c:c + 40]})
            owners.append((name, sts[c:c + 40], None))
            if has_reads[name] and (tier != "quick" or num % 3 == 0):
                tasks.append({"op": "swap_py", "ped": ped, "states": sts[c:c + 40], "layout": layouts[name]})
                owners.append((name, sts[c:c + 40], layouts[name]))
    res = run_pool(ck, tasks, "py", "pair_allele_swap_step") if tasks else []
    swp = {}
    for (name, sts, layout), rr in zip(owners, res):
        if not rr["ok"]:
            ck.violation("impl-error", {"error": rr["error"], "ped": name, "first_state": sts[0], "read_layout": layout},
                         key={"site": "pair_allele_swap_step", "ped": name, "kind": "exception", "layout": lay_name(layout)})
            continue
        for s, rows in zip(sts, rr["result"]):
            judge_swaps(name, s, rows, layout, False, swp if layout is None else None)
    # detailed balance of the extracted swap kernel
    worst_sw = 0.0
    for (name, ks, p, q, ip, iq), (pr, t) in swp.items():
        back = swp.get((name, t, p, q, ip, iq))
        if back is None:
            continue
        tb = table[name]
        a, b = float(tb[ks]), float(tb[t])
        res_ = abs(a * pr - b * back[0]) / (a + b)
        worst_sw = max(worst_sw, res_)
        if res_ > 1e-9:
            ck.violation("stationarity", {"kernel": "swap", "ped": name, "state": ks, "target": t, "residual": res_},
                         key={"site": "pair_allele_swap_step", "ped": name, "mask": mask_feature(peds[name], p, q),
                              "selfing": p == q, "what": "detailed-balance"})
    ck.note("max_swap_detailed_balance_residual", worst_sw)

    phase("swap-py")
    # ---- spec -> code: swap step compiled (both parents homozygous) ----------
    tasks, owners = [], []
    for name, sts in states.items():
        ped = peds[name]
        prs = sorted(set(tuple(sorted(pq)) for pq in ped["par"] if pq[0] > 0 and pq[1] > 0))
        if not prs:
            continue
        homo = [s for s in sts if all(len(set(s[x - 1])) == 1 for pq in prs for x in pq)]
        if homo:
            tasks.append({"op": "swap_jit", "ped": ped, "states": homo})
            owners.append((name, homo))
    # (pair_allele_swap_step is not cacheable: one worker, one compilation)
    res = run_pool(ck, tasks, "jit", "pair_allele_swap_step", nproc=1, warm_first=False) if tasks else []
    for (name, sts), rr in zip(owners, res):
        ped, tb = peds[name], table[name]
        if not rr["ok"]:
            ck.violation("impl-error", {"error": rr["error"], "ped": name}, key={"site": "pair_allele_swap_step", "ped": name,
                                                                                "kind": "exception", "mode": "jit"})
            continue
        for s, rows in zip(sts, rr["result"]):
            ks = tkey(s)
            for row in rows:
                p, q = row["p"] - 1, row["q"] - 1
                ck.evaluations += 1
                key = {"site": "pair_allele_swap_step", "ped": name, "mask": mask_feature(ped, p, q), "selfing": p == q,
                       "mode": "jit"}
                if s[p][0] == s[q][0]:
                    if not math.isnan(row["prob"]):
                        ck.violation("swap-noop", {"ped": name, "state": s, "row": row}, key=dict(key, what="noop"))
                    continue
                exp = min(Fraction(1), tb.get(swap_target(ks, p, q, 0, 0), Fraction(0)) / tb[ks])
                if not close_prob(row["prob"], exp):
                    ck.violation("swap-accept", {"ped": name, "state": s, "pair": [p + 1, q + 1], "impl": row["prob"],
                                                 "model": str(exp), "model_float": float(exp), "mode": "jit"}, key=key)

    phase("swap-jit")
    # ---- code -> spec: interpreted sampler runs ------------------------------
    # pedigrees in RowPedNames: every update also carries the vector it drew from / its prob_accept, computed with
    # the cache mcmc_sampler shares between all individuals; the mixed-ploidy ones get longer runs in both layouts
    steps = 12 if tier == "quick" else 40
    tasks = []
    for name, sts in sorted(states.items()):
        rows = name in rowpeds
        long_ = rows and name in mixed
        for rep in range(4 if (tier != "quick" or long_) else 2):
            tasks.append({"op": "sampler_trace", "ped": peds[name], "start": rnd.choice(sts),
                          "steps": 2 * steps if long_ else steps,
                          "step_type": rep % 2, "swap": rep != 1, "seed": ck.seed + 17 * rep + len(tasks),
                          "rows": rows, "layout": layouts[name] if rep >= 2 or (rows and not long_ and rep == 1) else None})
    res = run_pool(ck, tasks, "py", "mcmc_sampler")
    ev = []
    owner = []          # event line -> task
    runs = 0
    row_events = 0
    for tsk, rr in zip(tasks, res):
        if not rr["ok"]:
            ck.violation("impl-error", {"error": rr["error"], "ped": tsk["ped"]["name"]},
                         key={"site": "mcmc_sampler", "ped": tsk["ped"]["name"], "kind": "exception"})
            continue
        ev.extend(rr["result"])
        owner.extend([tsk] * len(rr["result"]))
        row_events += sum(1 for e in rr["result"] if "pr" in e or "acc" in e)
        runs += 1
    if ev:
        tf = os.path.join(ck.wd, "trace.json")
        with open(tf, "w") as fh:
            json.dump(ev, fh)
        try:
            t = tlc.run(SPEC, "TracePedigree", "Trace.cfg", workers=1, extra_env={"TRACE_FILE": tf}, timeout=2400)
        except tlc.TLCError as e:
            ck.machinery_failure(str(e))
        ck.add_tlc(t, "TracePedigree")
        consumed = [p for p in t.printed if "consumed" in p]
        if not consumed or consumed[0]["consumed"] != len(ev):
            ck.machinery_failure("trace not fully consumed: %s of %d" % (consumed, len(ev)))
        for p in t.printed:
            if "reject" in p:
                e = ev[p["reject"] - 1]
                tsk = owner[p["reject"] - 1]
                ck.violation("trace-reject", {"line": p["reject"], "clause": p["clause"], "event": e,
                                              "ped": tsk["ped"]["name"], "read_layout": tsk["layout"],
                                              "step_type": "mh" if tsk["step_type"] else "gibbs", "seed": tsk["seed"],
                                              "start": tsk["start"], "steps": tsk["steps"]},
                             key={"site": "mcmc_sampler", "event": e["op"], "clause": p["clause"],
                                  "ped": tsk["ped"]["name"], "layout": lay_name(tsk["layout"]),
                                  "cache": "shared (mcmc_sampler's own)"})
        ck.traces += runs
        ck.evaluations += len(ev)
        ck.nontrivial += row_events
        ck.note("recorded_sampler_runs", runs)
        ck.note("recorded_events", len(ev))
        ck.note("recorded_events_with_kernel_rows", row_events)
        ck.sample({"kind": "recorded-sampler-events", "events": ev[:8]})
        # binding demonstration: corrupted traces must be rejected (one TLC run; every segment is a run of its own
        # that begins with its start event)
        n1 = next(i for i, e in enumerate(ev) if e["op"] == "record")
        first = ev[: n1 + 1]
        bad1 = [dict(e) for e in first]
        ia = next(i for i, e in enumerate(bad1) if e["op"] == "allele")
        bad1.insert(ia + 1, dict(bad1[ia]))                      # a position updated twice
        bad2 = [dict(e) for e in first]
        bad2[-1] = dict(bad2[-1], rows=[list(reversed(x)) if len(set(x)) > 1 else [y + 1 for y in x] for x in bad2[-1]["rows"]])
        bad3 = [dict(e) for e in first if e["op"] != "allele" or (e["i"], e["k"]) != (1, 1)]   # a position never updated
        segs = [("dup", bad1, None), ("row", bad2, None), ("skip", bad3, None)]
        # a kernel row / an acceptance probability that is not the model's in the current joint state
        for kind, clause in (("gibbs", "GibbsRowIsFullConditional"), ("mh", "MHRowIsKernelRow")):
            hit = next((i for i, e in enumerate(ev) if e.get("kind") == kind and max(e["pr"]) - min(e["pr"]) > 1000), None)
            if hit is not None:
                i0 = max(j for j in range(hit + 1) if ev[j]["op"] == "start")
                seg = [dict(e) for e in ev[i0:hit + 1]]
                seg[-1]["pr"] = list(reversed(seg[-1]["pr"]))
                segs.append(("kernel-row-" + kind, seg, clause))
        hit = next((i for i, e in enumerate(ev) if e.get("acc", -1) >= 0 and e["acc"] < 900000), None)
        if hit is not None:
            i0 = max(j for j in range(hit + 1) if ev[j]["op"] == "start")
            seg = [dict(e) for e in ev[i0:hit + 1]]
            seg[-1]["acc"] = seg[-1]["acc"] + 50000
            segs.append(("swap-accept", seg, "SwapAcceptIsTargetRatio"))
        hit = next((i for i, e in enumerate(ev) if e.get("kind") == "gibbs"), None)
        if hit is not None:
            i0 = max(j for j in range(hit + 1) if ev[j]["op"] == "start")
            seg = [dict(e) for e in ev[i0:hit + 1]]
            seg[-1]["pr0"] = [x + 7 if j == 0 else x - 7 if j == 1 else x for j, x in enumerate(seg[-1]["pr0"])]
            segs.append(("cache-free-differs", seg, "CacheTransparent"))
        if rowpeds and len(segs) != 7:
            ck.machinery_failure("no recorded kernel rows to corrupt (%d segments)" % len(segs))
        allbad, bounds = [], []
        for nm, b, clause in segs:
            bounds.append((len(allbad) + 1, len(allbad) + len(b), nm, clause))
            allbad.extend(b)
        tfb = os.path.join(ck.wd, "trace-corrupt.json")
        with open(tfb, "w") as fh:
            json.dump(allbad, fh)
        try:
            t = tlc.run(SPEC, "TracePedigree", "Trace.cfg", workers=1, extra_env={"TRACE_FILE": tfb}, timeout=900)
        except tlc.TLCError as e:
            ck.machinery_failure(str(e))
        rej = [(p["reject"], p["clause"]) for p in t.printed if "reject" in p]
        nrej = 0
        for lo, hi, nm, clause in bounds:
            got = [c for l, c in rej if lo <= l <= hi]
            if got and (clause is None or clause in got):
                nrej += 1
            else:
                ck.machinery_failure("corrupted trace %s not rejected as expected (%s): %s" % (nm, clause, got))
        ck.note("corrupted_traces_rejected", nrej)

    phase("sampler-traces")
    name = sorted(table)[0]
    ck.sample({"kind": "joint-state", "ped": name, "state": states[name][len(states[name]) // 2],
               "pi_unnormalised": str(table[name][tkey(states[name][len(states[name]) // 2])])})
    ck.sample({"kind": "pedigree", "record": peds[name]})
    ck.exhaustive = True
    ck.assumptions = [
        "TLC and CommunityModules Json are correct",
        "exhaustive over the reachable joint states of the pedigrees listed in spec/PedigreeSampler/MC_%s.cfg; "
        "reads call alleles with P(correct) = 7/8 (rational likelihood numerators)" % tier,
        "the shared likelihood cache is exercised interpreted (NUMBA_DISABLE_JIT=1: a plain dict, in cached_walk, and the "
        "dict mcmc_sampler creates itself, in the recorded runs); the compiled kernels are replayed without a cache",
        "pair_allele_swap_step is observed interpreted (NUMBA_DISABLE_JIT=1) with np.random.randint forced; "
        "compiled only on states where the draw does not matter (numba compiles the same source)",
    ]
    ck.note("phase_wall_s", phases)
    if tally:
        ck.note("violation_summary", tally)
        for k, n in sorted(tally.items()):
            print("  %6d x %s" % (n, k), flush=True)
    ck.finish()


if __name__ == "__main__":
    main()
