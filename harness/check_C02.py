"""C02: the `mchap call` sampler moves are stationary at the exact posterior computed by call-exact.

spec  : spec/CallSampler/{CallSampler,TraceCallSampler}.tla  (uses spec/common/CallModel.tla, the model
        ExactPosterior (C03) enumerates)
bind  : spec -> code  every (ordered allele vector, position) of every instance TLC visits is evaluated on
                      the compiled and the interpreted gibbs_options / mh_options; the probability rows are
                      compared with the model rows (exact rationals built from the Dirichlet-multinomial
                      weights and the read mixture numerators), the implementation's own rows are checked
                      for stationarity at the model's exact target, and the Gibbs row is cross-checked
                      against genotype_posteriors (call-exact arrays) x copy count
        code -> spec  py-mode recordings of mcmc_sampler (every options call, choice, compound step) on grid
                      and seeded random instances, validated by TraceCallSampler.tla
"""
import json
import math
import os
import random
import sys
import threading
import time
from fractions import Fraction

sys.path.insert(0, os.path.dirname(os.path.abspath(__file__)))
from vlib import env, tlc, pool, callgen
from vlib.report import Check
from vlib.compare import close_prob

SPEC = os.path.join(env.SPEC, "CallSampler")
_T0 = time.time()


def log(msg):
    print("[C02 %6.1fs] %s" % (time.time() - _T0, msg), flush=True)


def unlimb(l):
    v = 0
    for x in reversed(l):
        v = v * 10000 + x
    return v


def rank(g):
    return sum(math.comb(a + i, i + 1) for i, a in enumerate(g))


def kkey(k):
    return (k["m"], k["P"], k["Fn"], k["pat"], k["rs"])


class Inst:
    def __init__(self, key):
        self.key = key
        self.inst = None
        self.states = {}   # tuple(a) -> dump record

    def ctx(self):
        return {"m": self.key[0], "P": self.key[1], "Fn": self.key[2], "pat": self.key[3], "rs": self.key[4]}


def model_rows(ds, K):
    """exact rows of one ordered vector (ds: position -> dumped record): gibbs[k][b], mh[k][b] as Fractions"""
    P = len(ds)
    gib, mh = [], []
    for k in range(P):
        d = ds[k]
        gw = [unlimb(x) for x in d["gibbs"]]
        s = sum(gw)
        gib.append([Fraction(x, s) for x in gw])
        den = unlimb(d["mhden"])
        cur = d["a"][k]
        row = []
        for b in range(K):
            if b == cur:
                row.append(None)
            else:
                num = unlimb(d["mhnum"][b])
                row.append(min(Fraction(1), Fraction(num, den)) / (K - 1))
        row[cur] = 1 - sum(x for x in row if x is not None)
        mh.append(row)
    return gib, mh


def validate_traces(ck, cases, label, expect_reject=False):
    if not cases:
        return 0, []
    njvm = max(1, min(env.NCPU, 8, len(cases) // 10 or 1))
    chunks = [[] for _ in range(njvm)]
    for i, c in enumerate(cases):
        chunks[i % njvm].append(c)
    results = [None] * njvm
    errors = []

    def work(k):
        ev = [e for c in chunks[k] for e in c]
        tf = os.path.join(ck.wd, "trace-%s-%d.json" % (label, k))
        with open(tf, "w") as fh:
            json.dump(ev, fh)
        try:
            t = tlc.run(SPEC, "TraceCallSampler", "Trace.cfg", workers=1, extra_env={"TRACE_FILE": tf},
                        name="TraceCallSampler-%s-%d" % (label, k), timeout=1500)
        except tlc.TLCError as e:
            errors.append(str(e))
            return
        results[k] = (ev, t)

    ths = [threading.Thread(target=work, args=(k,)) for k in range(njvm)]
    for t in ths:
        t.start()
    for t in ths:
        t.join()
    if errors:
        ck.machinery_failure("trace validation: " + errors[0][-1500:])
    n, rejects = 0, []
    for k, (ev, t) in enumerate(results):
        ck.add_tlc(t, "Trace-%s-%d" % (label, k))
        consumed = [p for p in t.printed if "consumed" in p]
        if not consumed or consumed[0]["consumed"] != len(ev):
            ck.machinery_failure("trace %s-%d not fully consumed: %s" % (label, k, consumed))
        n += len(ev)
        for p in t.printed:
            if "reject" in p:
                h = p["reject"] - 1
                while ev[h]["op"] != "begin":
                    h -= 1
                rejects.append({"line": p["reject"], "clause": p["clause"], "event": ev[p["reject"] - 1], "case": ev[h]})
    if not expect_reject:
        for r in rejects:
            ck.violation("trace-reject", r, key={"site": "mcmc_sampler:" + r["event"]["op"], "clause": r["clause"],
                                                "kind": r["case"]["kind"]})
    return n, rejects


def restricted(H, A, w, reads, P, Fn, tag):
    """the instance the sampler of `mchap call` works on: zero-frequency alleles removed (labels compacted)"""
    keep = [i for i, x in enumerate(w) if x > 0]
    return {"P": P, "Fn": Fn, "Fd": 4, "H": [H[i] for i in keep], "A": A, "w": [w[i] for i in keep], "reads": reads,
            "K": len(keep), "N": len(A), "tag": tag}


def run_call_cli(ck, insts, rnd, tier):
    """`mchap call` on generated FASTA/VCF/BAM: py-mode recording of every sampler run (code -> spec), and, in thorough,
    a long compiled run compared with `mchap call-exact` on the same files (informational)."""
    d = os.path.join(ck.wd, "cli")
    os.makedirs(d, exist_ok=True)
    base = {}
    for I in insts.values():
        i = I.inst
        base.setdefault((i["m"], i["pat"], i["rs"]), i)
    n_loci = 8 if tier == "quick" else 30
    chosen = rnd.sample(sorted(base), min(n_loci, len(base)))
    loci = []
    for key in chosen:
        i = base[key]
        loci.append({"name": "%s_%s_%d" % key, "H": i["H"], "A": i["A"], "w": list(i["w"]), "reads": i["reads"], "refmasked": False})
        if i["K"] >= 3:     # zero-frequency variants: the sampler must work on the remaining alleles only
            w0 = list(i["w"]); w0[0] = 0
            loci.append({"name": "%s_%s_%d_refzero" % key, "H": i["H"], "A": i["A"], "w": w0, "reads": i["reads"], "refmasked": True})
            w1 = list(i["w"]); w1[-1] = 0
            loci.append({"name": "%s_%s_%d_lastzero" % key, "H": i["H"], "A": i["A"], "w": w1, "reads": i["reads"], "refmasked": False})
    samples = [(P, Fn) for P in (2, 3, 4) for Fn in (0, 1, 3)]
    sname = {pf: "P%dF%d" % pf for pf in samples}
    clen = callgen.write_fasta(os.path.join(d, "ref.fa"), len(loci))
    bams = []
    for pf in samples:
        path = os.path.join(d, sname[pf] + ".bam")
        callgen.write_bam(path, sname[pf], clen, [loc["reads"] for loc in loci])
        bams.append(path)
    callgen.write_sample_map(os.path.join(d, "ploidy.txt"), [(sname[pf], pf[0]) for pf in samples])
    callgen.write_sample_map(os.path.join(d, "inbreeding.txt"), [(sname[pf], pf[1] / 4) for pf in samples])
    callgen.write_vcf(os.path.join(d, "haps.vcf"), loci, clen, tag="AFW")
    common = ["--haplotypes", os.path.join(d, "haps.vcf"), "--prior-frequencies", "AFW", "--bam"] + bams + [
        "--ploidy", os.path.join(d, "ploidy.txt"), "--inbreeding", os.path.join(d, "inbreeding.txt"), "--base-error-rate", "0.125"]
    expected = []
    for loc in loci:
        for pf in samples:
            expected.append(restricted(loc["H"], loc["A"], loc["w"], loc["reads"], pf[0], pf[1], loc["name"] + ":" + sname[pf]))
    steps = 5 if tier == "quick" else 8
    argv = ["mchap", "call"] + common + ["--mcmc-chains", "1", "--mcmc-steps", str(steps), "--mcmc-burn", "1", "--mcmc-seed", str(ck.seed + 11)]
    rr = pool.map_tasks("impl.c02", [{"op": "call_trace", "argv": argv, "instances": expected}], mode="py")[0]
    traces = []
    if not rr["ok"]:
        ck.violation("cli-error", {"argv": argv, "error": rr["error"], "tb": rr.get("tb")}, key={"site": "mchap call", "field": "exception"})
    else:
        traces = rr["result"]["traces"]
        if len(traces) != len(expected) or rr["result"]["extra_calls"]:
            ck.machinery_failure("mchap call made %d sampler runs (+%d), expected %d" % (len(traces), rr["result"]["extra_calls"], len(expected)))
        recs = callgen.parse_vcf_samples(rr["result"]["stdout"])
        if [r_["id"] for r_ in recs] != [loc["name"] for loc in loci]:
            ck.machinery_failure("mchap call printed unexpected records")
    ck.note("cli_call_loci", len(loci))
    ck.note("cli_call_sampler_runs_recorded", len(traces))
    if tier == "thorough":
        a1 = ["mchap", "call"] + common + ["--mcmc-chains", "2", "--mcmc-steps", "3000", "--mcmc-burn", "500", "--report", "AFP"]
        a2 = ["mchap", "call-exact"] + common + ["--report", "AFP"]
        res = pool.map_tasks("impl.c02", [{"op": "cli_run", "argv": a1}, {"op": "cli_run", "argv": a2}], mode="jit", warm_first=False)
        if all(x["ok"] for x in res):
            r1, r2 = (callgen.parse_vcf_samples(x["result"]) for x in res)
            dev_afp = dev_gpm = 0.0
            same_gt = total = 0
            for x, y in zip(r1, r2):
                for nm in x["samples"]:
                    sx, sy = x["samples"][nm], y["samples"][nm]
                    fa, fb = callgen.numlist(sx["AFP"]), callgen.numlist(sy["AFP"])
                    if fa and fb and None not in fa and None not in fb:
                        dev_afp = max(dev_afp, max(abs(p - q) for p, q in zip(fa, fb)))
                    dev_gpm = max(dev_gpm, abs(float(sx["GPM"]) - float(sy["GPM"])))
                    total += 1
                    same_gt += sx["GT"] == sy["GT"]
            ck.note("informational_cli_call_vs_call_exact", {"cells": total, "same_GT": same_gt, "max_abs_dev_AFP": dev_afp, "max_abs_dev_GPM": dev_gpm})
    return traces


def random_instance(rnd):
    # ploidies up to 6 (the likelihood cache is keyed by the genotype: keys must stay distinct for every ploidy) and,
    # in a quarter of the instances, a haplotype set with a repeated row (alleles that differ only outside the SNVs:
    # the model counts copies by allele index, as the exact posterior does)
    P = rnd.choice([1, 2, 3, 4, 4, 5, 6])
    if rnd.random() < 0.07:
        P = rnd.choice([130, 140, 160])      # pooled samples: more than 127 copies of one allele in the genotype
    dup = rnd.random() < 0.25
    while True:
        K = rnd.randint(2, 5) if P < 100 else rnd.randint(2, 3)
        N = rnd.randint(1, 4) if P < 100 else rnd.randint(1, 2)
        A = [rnd.randint(2, 3) for _ in range(N)]
        H = [[rnd.randrange(A[j]) for j in range(N)] for _ in range(K)]
        if dup and K >= 3:
            H[rnd.randrange(1, K)] = list(H[0])
            break
        if len({tuple(h) for h in H}) == K:
            break
    w = [rnd.randint(1, 4) for _ in range(K)]          # support only: `call` removes zero-frequency alleles
    Fn = rnd.choice([0, 1, 3, 5, 8, 11, 15])
    cells = set()
    for _ in range(rnd.randint(0, 4)):
        cells.add(tuple(rnd.choice([-1] + list(range(A[j]))) for j in range(N)))
    reads = [{"cells": list(c), "cnt": rnd.randint(1, 3)} for c in sorted(cells)]
    if P <= 3 and rnd.random() < 0.1:
        # (API level) a haplotype of prior frequency exactly zero that a deep sample supports by far more than the range
        # of a double (64 SNVs, > 900 nats): no move may ever give it any probability
        K, N, A = rnd.choice([2, 3]), 4, [2, 2, 2, 2]
        H = [[0, 0, 0, 0], [1, 1, 1, 1], [0, 0, 0, 1]][:K]
        w = [rnd.randint(1, 3), 0, rnd.randint(1, 3)][:K]
        reads = [{"cells": [0, 0, -1, 0], "cnt": 1}, {"cells": [1, 1, 1, 1], "cnt": 5}]
        # (F = 0 only: with F > 0 the interpreted prior raises on lgamma(0) where the compiled one returns inf)
        return {"P": P, "m": "random", "Fn": 0, "Fd": 16, "pat": "random", "K": K, "N": N, "H": H, "A": A, "w": w,
                "reads": reads, "tile": 16, "deep": True, "start": [0] * P if K == 2 else sorted(rnd.choice([0, 2]) for _ in range(P))}
    return {"P": P, "m": "random", "Fn": Fn, "Fd": 16, "pat": "random", "K": K, "N": N, "H": H, "A": A, "w": w, "reads": reads}


def replay(ck, path):
    """./check C02 --replay work/C02/violation-N.json : re-run the sampler on exactly that instance (both kernels,
    starting from the recorded vector) in py-mode and let TraceCallSampler decide."""
    with open(path) as fh:
        rec = json.load(fh)
    d = rec["detail"]
    inst = d.get("inst") or {k: d["case"][k] for k in ("P", "Fn", "Fd", "H", "A", "w", "reads")}
    inst = dict(inst)
    inst.setdefault("K", len(inst["H"]))
    inst.setdefault("N", len(inst["H"][0]))
    a0 = sorted(d.get("a") or d.get("case", {}).get("a") or [0] * inst["P"])
    jobs = [{"inst": inst, "a0": a0, "kind": kind, "n_steps": 4, "seed": ck.seed} for kind in ("gibbs", "mh")]
    rr = pool.map_tasks("impl.c02", [{"op": "sampler_trace", "jobs": jobs}], mode="py")[0]
    if not rr["ok"]:
        print("replay: implementation raised: %s" % rr["error"])
        sys.exit(1)
    n, rej = validate_traces(ck, rr["result"], "replay", expect_reject=True)
    print("replay instance: %s start=%s" % (json.dumps(inst), a0))
    for r in rej:
        print("REJECT kind=%s clause=%s event=%s" % (r["case"]["kind"], r["clause"], json.dumps(r["event"])[:600]))
    print("replay verdict: %s (%d events)" % ("VIOLATION" if rej else "accepted by TraceCallSampler", n))
    sys.exit(1 if rej else 0)


def main():
    ck = Check("C02")
    tier = ck.tier
    rnd = random.Random(ck.seed)
    if os.environ.get("VERIF_REPLAY"):
        replay(ck, os.environ["VERIF_REPLAY"])
    ck.rule = (
        "TLC visits every ordered allele vector (and every scan prefix) of each instance of the grid (haplotype menu x "
        "read bag x ploidy x F x frequency pattern) and checks full-conditional / detailed-balance / stationarity in exact "
        "arithmetic; every (vector, position) is then evaluated on the real gibbs_options and mh_options. "
        "Non-trivial = (vector, position) whose genotype has a duplicated allele (copy-count ratio differs from 1)."
    )
    try:
        r = tlc.run(SPEC, "CallSampler", "MC_%s.cfg" % tier, timeout=2400)
        ck.add_tlc(r, "CallSampler")
        if r.violated:
            ck.violation("model", {"invariant": r.violated, "text": r.error_text[:1500]}, key={"model": "CallSampler"})
        killed = 0
        for cfg, inv in (("Mutant_ibs.cfg", "GibbsIsFullConditional"), ("Mutant_ibs_compound.cfg", "CompoundStationaryP2"),
                         ("Mutant_noprop.cfg", "MHDetailedBalance")):
            m = tlc.run(SPEC, "CallSampler", cfg)
            if m.violated != inv:
                ck.machinery_failure("mutant spec %s not killed (%s)" % (cfg, m.violated))
            killed += 1
        ck.note("mutant_specs_killed", killed)
    except tlc.TLCError as e:
        ck.machinery_failure(str(e))
    insts = {}
    for d in r.printed:
        k = kkey(d["key"])
        I = insts.setdefault(k, Inst(k))
        if "inst" in d:
            I.inst = d["inst"]
        else:
            I.states.setdefault(tuple(d["a"]), {})[d["k"]] = d
    for I in insts.values():
        if I.inst is None:
            ck.machinery_failure("instance record missing for %s" % (I.key,))
        K, P = I.inst["K"], I.inst["P"]
        if len(I.states) != K ** P or any(sorted(v) != list(range(P)) for v in I.states.values()):
            ck.machinery_failure("TLC did not visit every (ordered vector, position) of %s: %d of %d" % (I.key, len(I.states), K ** P))
    log("TLC done: %d states, %d instances, %d (vector, position) rows" % (r.distinct, len(insts), len(r.printed) - len(insts)))
    ck.note("instances", len(insts))
    keys = sorted(insts)

    # ---- spec -> code: every (state, position) on gibbs_options / mh_options -------------
    jobs = []
    for k in keys:
        I = insts[k]
        jobs.append({"inst": I.inst, "states": [list(a) for a in sorted(I.states)], "key": list(k)})
    jobs.sort(key=lambda j: -len(j["states"]))
    tasks = [{"op": "rows", "jobs": jobs[i::max(1, min(len(jobs), 4 * env.NCPU))]} for i in range(max(1, min(len(jobs), 4 * env.NCPU)))]
    impl_rows = {}
    for mode, cache in (("jit", False), ("jit", True), ("py", False)):
        for t in tasks:
            t["cache"] = cache
        res = pool.map_tasks("impl.c02", tasks, mode=mode)
        label = mode + ("+cache" if cache else "")
        for t, rr in zip(tasks, res):
            if not rr["ok"]:
                ck.violation("impl-error", {"mode": label, "error": rr["error"], "tb": rr.get("tb")}, key={"site": "options", "mode": mode})
                continue
            for job, o in zip(t["jobs"], rr["result"]):
                I = insts[tuple(job["key"])]
                K, P = I.inst["K"], I.inst["P"]
                for a, rec in zip(job["states"], o["rows"]):
                    d = I.states[tuple(a)]
                    gib, mh = model_rows(d, K)
                    if not rec["restored"]:
                        ck.violation("kernel-row", {"what": "genotype_alleles not restored by the options function", "a": a, "inst": I.inst},
                                     key=dict(I.ctx(), site="options", field="restore"))
                    for k in range(P):
                        ck.evaluations += 2
                        if label == "jit" and len(set(a)) < len(a):
                            ck.nontrivial += 1
                        # Gibbs: the row must BE the exact full conditional (functional clause)
                        irow = rec["gibbs"][k]
                        if len(irow) != K or not all(close_prob(irow[b], gib[k][b]) for b in range(K)):
                            ck.violation("kernel-row", {"mode": label, "a": a, "position": k, "impl": irow,
                                                        "model": [str(x) for x in gib[k]], "model_float": [float(x) for x in gib[k]],
                                                        "inst": I.inst},
                                         key=dict(I.ctx(), site="gibbs_options", field="probabilities"))
                        # MH: the property asks for detailed balance (checked below on the implementation's rows);
                        # the row must be a probability vector; equality with the documented proposal structure is informational
                        irow = rec["mh"][k]
                        if len(irow) != K or not all(x >= 0 and x == x for x in irow) or abs(sum(irow) - 1) > 1e-9:
                            ck.violation("kernel-row", {"mode": label, "a": a, "position": k, "impl": irow, "what": "not a probability vector",
                                                        "inst": I.inst}, key=dict(I.ctx(), site="mh_options", field="proper-row"))
                        elif not all(close_prob(irow[b], mh[k][b]) for b in range(K)):
                            ck.bump("mh_rows_differing_from_documented_proposal_structure")
                    impl_rows[(label, I.key, tuple(a))] = rec
        log("rows %s done" % label)
    # ---- the implementation's own rows are stationary at the model's exact target ---------
    worst = 0.0
    worst_db = 0.0
    for label in ("jit", "jit+cache", "py"):
      for k in keys:
        I = insts[k]
        K, P = I.inst["K"], I.inst["P"]
        pin = {a: unlimb(d[0]["pinum"]) for a, d in I.states.items()}
        tot = sum(pin.values())
        pi = {a: pin[a] / tot for a in pin}     # float of exact ratio
        # MH detailed balance on the implementation's rows:  pi(v) T(v->v') = pi(v') T(v'->v)
        for a in pi:
            ra = impl_rows.get((label, I.key, a))
            if ra is None:
                continue
            for pos in range(P):
                for b in range(K):
                    if b == a[pos]:
                        continue
                    a2 = a[:pos] + (b,) + a[pos + 1:]
                    if a2 < a:
                        continue
                    rb = impl_rows.get((label, I.key, a2))
                    if rb is None:
                        continue
                    lhs = Fraction(pin[a]) * Fraction(ra["mh"][pos][b])
                    rhs = Fraction(pin[a2]) * Fraction(rb["mh"][pos][a[pos]])
                    ck.evaluations += 1
                    scale = max(lhs, rhs)
                    dev = float(abs(lhs - rhs) / scale) if scale > 0 else 0.0
                    worst_db = max(worst_db, dev)
                    if dev > 1e-9 or (lhs == 0) != (rhs == 0):
                        ck.violation("detailed-balance", {"mode": label, "a": list(a), "b": list(a2), "position": pos,
                                                          "T_ab": ra["mh"][pos][b], "T_ba": rb["mh"][pos][a[pos]],
                                                          "pi_a_over_pi_b": float(Fraction(pin[a], pin[a2])), "rel_dev": dev, "inst": I.inst},
                                     key=dict(I.ctx(), site="mh_options", field="detailed-balance"))
        for name in ("gibbs", "mh"):
            for pos in range(P):
                out = dict.fromkeys(pi, 0.0)
                ok = True
                for a in pi:
                    rec = impl_rows.get((label, I.key, a))
                    if rec is None:
                        ok = False
                        break
                    row = rec[name][pos]
                    for b in range(K):
                        a2 = a[:pos] + (b,) + a[pos + 1:]
                        out[a2] += pi[a] * row[b]
                if not ok:
                    continue
                dev = max(abs(out[a] - pi[a]) for a in pi)
                worst = max(worst, dev)
                ck.evaluations += 1
                if dev > 1e-9:
                    ck.violation("stationarity", {"mode": label, "kernel": name, "position": pos, "max_abs_dev": dev, "inst": I.inst},
                                 key=dict(I.ctx(), site=name + "_options", field="stationarity"))
    ck.note("max_stationarity_residual_impl_rows", worst)
    ck.note("max_relative_detailed_balance_residual_impl_rows", worst_db)
    log("stationarity of implementation rows done")

    # ---- cross-check: Gibbs row ~ call-exact posterior x copy count (tolerance 1e-6, float32 arrays) ----
    res = pool.map_tasks("impl.c02", [{"op": "exact", "insts": [insts[k].inst for k in keys[i : i + 20]]} for i in range(0, len(keys), 20)], mode="jit")
    ei = 0
    for rr in res:
        if not rr["ok"]:
            ck.violation("impl-error", {"error": rr["error"], "tb": rr.get("tb")}, key={"site": "genotype_posteriors"})
            ei += 20
            continue
        for gp in rr["result"]:
            I = insts[keys[ei]]
            ei += 1
            K, P = I.inst["K"], I.inst["P"]
            for a in I.states:
                rec = impl_rows.get(("jit", I.key, a))
                if rec is None:
                    continue
                for pos in range(P):
                    wts = []
                    for b in range(K):
                        g = sorted(a[:pos] + (b,) + a[pos + 1:])
                        wts.append(gp[rank(g)] * g.count(b))
                    s = sum(wts)
                    ck.evaluations += 1
                    if not all(abs(rec["gibbs"][pos][b] - wts[b] / s) <= 1e-6 for b in range(K)):
                        ck.violation("cross-check", {"what": "gibbs row vs call-exact posterior x copies", "a": list(a), "position": pos,
                                                     "gibbs": rec["gibbs"][pos], "from_exact": [x / s for x in wts], "inst": I.inst},
                                     key=dict(I.ctx(), site="gibbs_options", field="vs-genotype_posteriors"))
    # the same relation (the only clause that applies: the model has no likelihood for it) on haplotype sets in which an
    # ALT carries a base that is not a listed allele of its SNV (coded as a gap, -1): whatever call-exact makes of such a
    # haplotype, the sampler must target the same distribution
    import itertools as _it
    gap_insts = [
        {"P": 2, "m": "gap-coded", "Fn": 0, "Fd": 16, "pat": "gap", "K": 3, "N": 2, "H": [[0, 0], [1, -1], [0, 1]], "A": [2, 2], "w": [1, 1, 1],
         "reads": [{"cells": [1, 1], "cnt": 2}, {"cells": [0, 0], "cnt": 1}, {"cells": [1, 0], "cnt": 1}]},
        {"P": 3, "m": "gap-coded", "Fn": 3, "Fd": 16, "pat": "gap", "K": 3, "N": 3, "H": [[0, 0, 0], [-1, 1, 1], [0, 1, -1]], "A": [2, 2, 3], "w": [2, 1, 1],
         "reads": [{"cells": [1, 1, 2], "cnt": 1}, {"cells": [0, 1, 1], "cnt": 2}, {"cells": [0, -1, 0], "cnt": 1}]},
    ]
    gjobs = [{"inst": gi, "states": [list(v) for v in _it.combinations_with_replacement(range(gi["K"]), gi["P"])]} for gi in gap_insts]
    rr1 = pool.map_tasks("impl.c02", [{"op": "rows", "jobs": gjobs, "cache": False}], mode="jit")[0]
    rr2 = pool.map_tasks("impl.c02", [{"op": "exact", "insts": gap_insts}], mode="jit")[0]
    if not rr1["ok"] or not rr2["ok"]:
        ck.violation("impl-error", {"error": (rr1 if not rr1["ok"] else rr2)["error"]}, key={"site": "gap-coded-haplotypes"})
    else:
        for gi, job, rws, gp in zip(gap_insts, gjobs, rr1["result"], rr2["result"]):
            K, P = gi["K"], gi["P"]
            for a, rec in zip(job["states"], rws["rows"]):
                for pos in range(P):
                    wts = []
                    for b in range(K):
                        g = sorted(a[:pos] + [b] + a[pos + 1:])
                        wts.append(gp[rank(g)] * g.count(b))
                    s = sum(wts)
                    ck.evaluations += 1
                    if s > 0 and not all(abs(rec["gibbs"][pos][b] - wts[b] / s) <= 1e-6 for b in range(K)):
                        ck.violation("cross-check", {"what": "gibbs row vs call-exact posterior x copies (gap-coded haplotype allele)", "a": list(a), "position": pos,
                                                     "gibbs": rec["gibbs"][pos], "from_exact": [x / s for x in wts], "inst": gi},
                                     key={"site": "gibbs_options", "field": "vs-genotype_posteriors", "pat": "gap-coded"})
    log("cross-check against call-exact arrays done")
    ck.traces += len(r.printed)
    any_I = insts[keys[len(keys) // 2]]
    sa = sorted(any_I.states)[len(any_I.states) // 2]
    gib, mh = model_rows(any_I.states[sa], any_I.inst["K"])
    ck.sample({"kind": "state", "inst": any_I.inst, "a": list(sa), "model_gibbs_rows": [[str(x) for x in row] for row in gib],
               "impl_gibbs_rows": impl_rows.get(("jit", any_I.key, sa), {}).get("gibbs")})

    # ---- code -> spec: recorded sampler runs ----------------------------------------------
    n_grid = 40 if tier == "quick" else 300
    n_rand = 30 if tier == "quick" else 300
    steps = 5 if tier == "quick" else 8
    tj = []
    for k in rnd.sample(keys, min(n_grid, len(keys))):
        I = insts[k]
        a0 = list(rnd.choice(sorted(I.states)))
        a0.sort()
        if rnd.random() < 0.5:
            a0 = None          # let CallingMCMC.fit choose the start with greedy_caller
        tj.append({"inst": I.inst, "a0": a0, "kind": rnd.choice(["gibbs", "mh"]), "n_steps": steps, "seed": rnd.randrange(2**31)})
    for _ in range(n_rand):
        inst = random_instance(rnd)
        a0 = sorted(rnd.randrange(inst["K"]) for _ in range(inst["P"]))
        a0 = inst.pop("start", a0)
        big = inst["P"] > 100
        deep = inst.get("deep", False)
        long_locus = False
        if not big and not deep and inst["P"] <= 3 and inst["K"] <= 3 and 2 <= inst["N"] <= 3 and rnd.random() < 0.3:
            inst["tile"] = 16 if inst["N"] == 2 else 12     # a long locus: reads mismatch haplotypes at dozens of SNVs
            long_locus = True
        if big:
            a0 = [0] * (inst["P"] - 2) + [inst["K"] - 1] * 2
            if inst["Fn"] == 0:
                inst["Fn"] = 3
        tj.append({"inst": inst, "a0": a0, "kind": "gibbs" if big else rnd.choice(["gibbs", "mh"]), "n_steps": 1 if big else 2 if (deep or long_locus) else steps, "seed": rnd.randrange(2**31)})
    # regimes every run covers (not left to the random draw): a long locus on which reads and haplotypes disagree at dozens of
    # SNVs; a pooled sample with more than 127 copies of one allele; a deep sample on a haplotype of prior frequency zero
    for kind in ("gibbs", "mh"):
        for P in (2, 3):
            tj.append({"inst": {"P": P, "m": "regime", "Fn": [0, 3][P % 2], "Fd": 16, "pat": "long", "K": 3, "N": 2, "H": [[0, 0], [1, 1], [0, 1]], "A": [2, 2],
                                "w": [2, 1, 1], "reads": [{"cells": [1, 1], "cnt": 2}, {"cells": [0, 0], "cnt": 1}, {"cells": [0, -1], "cnt": 1}], "tile": 16},
                       "a0": [0] * (P - 1) + [1], "kind": kind, "n_steps": 2, "seed": rnd.randrange(2**31)})
        tj.append({"inst": {"P": 2, "m": "regime", "Fn": 0, "Fd": 16, "pat": "masked-deep", "K": 3, "N": 4,
                            "H": [[0, 0, 0, 0], [1, 1, 1, 1], [0, 0, 0, 1]], "A": [2, 2, 2, 2], "w": [2, 0, 1],
                            "reads": [{"cells": [0, 0, -1, 0], "cnt": 1}, {"cells": [1, 1, 1, 1], "cnt": 5}], "tile": 16, "deep": True},
                   "a0": [0, 2], "kind": kind, "n_steps": 2, "seed": rnd.randrange(2**31)})
        # a deep sample started far from the mode: candidates beat the current allele by more than the range of exp()
        tj.append({"inst": {"P": 2, "m": "regime", "Fn": [0, 3][kind == "mh"], "Fd": 16, "pat": "deep-far-start", "K": 3, "N": 4,
                            "H": [[0, 0, 0, 0], [1, 1, 1, 1], [0, 0, 0, 1]], "A": [2, 2, 2, 2], "w": [2, 1, 1],
                            "reads": [{"cells": [0, 0, -1, 0], "cnt": 1}, {"cells": [1, 1, 1, 1], "cnt": 5}], "tile": 16, "deep": True},
                   "a0": [0, 0], "kind": kind, "n_steps": 2, "seed": rnd.randrange(2**31)})
    tj.append({"inst": {"P": 150, "m": "regime", "Fn": 3, "Fd": 16, "pat": "pooled", "K": 2, "N": 1, "H": [[0], [1]], "A": [2], "w": [3, 1],
                        "reads": [{"cells": [0], "cnt": 3}, {"cells": [1], "cnt": 1}]},
               "a0": [0] * 148 + [1, 1], "kind": "gibbs", "n_steps": 1, "seed": rnd.randrange(2**31)})
    res = pool.map_tasks("impl.c02", [{"op": "sampler_trace", "jobs": tj[i : i + 10]} for i in range(0, len(tj), 10)], mode="py")
    cases = []
    for rr in res:
        if not rr["ok"]:
            ck.violation("impl-error", {"error": rr["error"], "tb": rr.get("tb")}, key={"site": "sampler_trace"})
            continue
        cases.extend(rr["result"])
    log("sampler traces recorded: %d" % len(cases))
    cli_traces = run_call_cli(ck, insts, rnd, tier)
    log("mchap call runs recorded: %d" % len(cli_traces))
    cases.extend(cli_traces)
    n_ev, _ = validate_traces(ck, cases, "sampler")
    ck.traces += len(cases)
    ck.evaluations += n_ev
    ck.note("trace_events_validated", n_ev)
    ck.note("sampler_traces", len(cases))
    if cases:
        ck.sample({"kind": "sampler-trace (first 3 events)", "events": cases[0][:3]})
    log("sampler traces validated")

    # ---- binding demonstration: corrupted traces ------------------------------------------
    bad, expect = [], []
    gcase = next((c for c in cases if c[0]["kind"] == "gibbs" and c[0]["P"] >= 2), None)
    mcase = next((c for c in cases if c[0]["kind"] == "mh" and c[0]["P"] >= 2), None)
    if gcase:
        c = json.loads(json.dumps(gcase))
        u = [e for e in c if e["op"] == "update"]
        u[1]["k"] = u[0]["k"]                                   # a position visited twice in one scan
        bad.append(c); expect.append("ScanVisitsEachPositionOnce")
        c = json.loads(json.dumps(gcase))
        u = [e for e in c if e["op"] == "update"][0]
        j = max(range(len(u["pq"])), key=lambda b: u["pq"][b])
        u["pq"][j] -= 4000
        u["pq"][(j + 1) % len(u["pq"])] += 4000                  # a perturbed Gibbs row
        bad.append(c); expect.append("GibbsRowIsFullConditional")
        c = json.loads(json.dumps(gcase))
        s = [e for e in c if e["op"] == "sorted"][0]
        s["a"] = list(reversed(s["a"])) if len(set(s["a"])) > 1 else [x + 1 for x in s["a"]]
        bad.append(c); expect.append("SortedAfterScan")
    if mcase:
        c = json.loads(json.dumps(mcase))
        best = None
        for u in c:
            if u["op"] != "update":
                continue
            cur = u["a"][u["k"]]
            for j in range(len(u["pq"])):
                if j != cur and (best is None or min(u["pq"][j], u["rq"][j]) > best[0]):
                    best = (min(u["pq"][j], u["rq"][j]), u, j, cur)
        _, u, j, cur = best
        u["pq"][j], u["pq"][cur] = u["pq"][j] // 4, u["pq"][cur] + u["pq"][j] - u["pq"][j] // 4   # acceptance scaled down
        bad.append(c); expect.append("MHDetailedBalance")
    if bad:
        _, rej = validate_traces(ck, bad, "corrupt", expect_reject=True)
        first = {}
        for x in rej:
            first.setdefault(id(x["case"]), x["clause"])
        if len(rej) < len(bad):
            ck.machinery_failure("corrupted traces not all rejected: expected %s got %s" % (expect, [x["clause"] for x in rej]))
        ck.note("corrupted_traces_rejected", len(rej))
        ck.note("corrupted_trace_clauses", sorted(x["clause"] for x in rej))

    # ---- informational: long sampler runs vs the exact posterior (never decides) ------------
    if tier == "thorough":
        sel = rnd.sample(keys, min(24, len(keys)))
        jobs2 = [{"inst": insts[k].inst, "steps": 6000, "burn": 1000, "seed": rnd.randrange(2**31), "kind": rnd.choice(["gibbs", "mh"])} for k in sel]
        res = pool.map_tasks("impl.c02", [{"op": "sampler_run", "jobs": [j]} for j in jobs2], mode="jit")
        devs = []
        for k, rr in zip(sel, res):
            if not rr["ok"]:
                continue
            I = insts[k]
            # exact unordered posterior from the model: sum of pi over orderings
            pin = {}
            for a, d in I.states.items():
                g = tuple(sorted(a))
                pin[g] = pin.get(g, 0) + unlimb(d[0]["pinum"])
            tot = sum(pin.values())
            gp = rr["result"][0]["gp"]
            devs.append(max(abs(gp[rank(g)] - pin[g] / tot) for g in pin))
        ck.note("informational_max_abs_dev_mcmc_vs_exact_GP", max(devs) if devs else None)
        ck.note("informational_runs", len(devs))
    ck.exhaustive = True
    ck.assumptions = [
        "TLC, the CommunityModules Json/IOUtils operators and Python fractions are correct",
        "exhaustive within the instance grid of the cfg (every ordered allele vector x position); larger/irregular instances are sampled (seeded) "
        "through recorded sampler runs validated by the trace spec",
        "states are restricted to alleles of positive prior frequency (`mchap call` removes zero-frequency alleles before sampling); K >= 2 for the MH kernel",
        "random_choice / numpy RNG draw from the probability row they are given (the row itself is what is checked)",
    ]
    ck.finish()


if __name__ == "__main__":
    main()
