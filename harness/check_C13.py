"""C13: haplotype reporting threshold and unknown-allele semantics in `mchap assemble`.

spec  : spec/HapCalling/{HapCalling,TraceHapCalling}.tla (+ spec/common/HapCallingDefs.tla, TraceFunctionals.tla)
bind  : spec -> code: every reported state of HapCalling (samples' posteriors as dyadic counts x threshold x
        every admissible ALT order) -> call_posterior_haplotypes / _genotype_as_alleles /
        _genotype_posterior_as_array on PosteriorGenotypeDistribution objects, and the real
        assemble.program.call_sample_genotypes + summarise + format executed in-process on a real locus with
        DenovoMCMC replaced by a stub whose trace has exactly the state's empirical posterior;
        code -> spec: real assemble runs (real MCMC, thresholds swept over [0,1]) with the per-sample traces
        captured; the emitted ALT / REFMASKED / GT / AFP / AOP / GP are validated by TraceHapCalling.tla.
        Wide loci (impl/c13wide.py): generated populations of 70-140 samples with private haplotypes over 8-9 SNVs,
        i.e. more than 127 and more than 255 reported ALT haplotypes, run through the real assemble tail (prescribed
        posteriors) and through the real MCMC; validated as recorded events by the same trace clauses
        (GtDotIffExcluded, GtAlleleNumberIsAltIndex, AltIffThreshold, AltOrder, RefMaskedIff, Afp/Aop).
"""
import json
import os
import sys
from fractions import Fraction

sys.path.insert(0, os.path.dirname(os.path.abspath(__file__)))
from vlib import env, tlc, pool, repodata
from vlib.report import Check
from vlib.compare import close_prob, close_text3

SPEC = os.path.join(env.SPEC, "HapCalling")


def inst_key(s):
    return json.dumps([s["ps"], s["k"], s["m"], s["post"], s["theta"]])


def group(grouped, kind, key, detail):
    k = (kind, json.dumps(key, sort_keys=True))
    g = grouped.setdefault(k, {"key": key, "n": 0, "examples": []})
    g["n"] += 1
    if len(g["examples"]) < 3:
        g["examples"].append(detail)


def compare_instance(states, obs, bad):
    """states: the model's reported states of one instance (one per admissible ALT order)."""
    st0 = states[0]
    M = st0["m"]
    masked = st0["rec"]["masked"]
    inst = {"ps": st0["ps"], "k": st0["k"], "m": M, "post": st0["post"], "theta": st0["theta"], "locus": obs.get("locus")}
    alt_set = sorted(st0["alt"])
    mk = "refmasked" if masked else "ref-called"

    def report(site, feature, impl, model):
        bad.append(({"site": site, "feature": feature},
                    {"instance": inst, "impl": impl, "model": model, "model_states": states}))

    def pick(site, alt):
        for st in states:
            if st["alt"] == alt:
                return st
        if sorted(alt) != alt_set:
            extra = sorted(set(alt) - set(alt_set))
            missing = sorted(set(alt_set) - set(alt))
            f = "alt-set:" + ("listed-below-threshold" if extra else "") + ("missing-above-threshold" if missing else "")
            if st0["theta"][0] == 0:
                f += ":theta0"
            report(site, f, {"alt": alt}, {"alt_set": alt_set, "scores": st0["rec"]["scores"], "alt0": st0["alt"]})
        else:
            report(site, "alt-order", {"alt": alt}, {"admissible": [s["alt"] for s in states],
                                                      "scores_of_first": st0["rec"]["scores"]})
        return None

    def check_gp(site, values, r, textual):
        """values: floats or 3-decimal texts of the G-ordered array"""
        want = {i: c for i, c in r["gp"]}
        if len(values) != r["gpLen"]:
            report(site, "%s-gp-%s" % (mk, "too-short" if len(values) < r["gpLen"] else "too-long"),
                   {"len": len(values), "gp": values}, {"len": r["gpLen"], "nonzero": r["gp"]})
        for i in range(min(len(values), r["gpLen"])):
            q = Fraction(want.get(i, 0), M)
            ok = close_text3(values[i], q) if textual else close_prob(float(values[i]), q)
            if not ok:
                report(site, "%s-gp-value" % mk, {"index": i, "value": values[i]}, {"value": str(q)})
                break

    # ---- unit level --------------------------------------------------------------------
    u = obs["unit"]
    if not u["order"] or u["order"][0] != 0:
        report("call_posterior_haplotypes", "ref-not-first", u["order"], 0)
    else:
        if u["ref_called"] != (not masked):
            report("call_posterior_haplotypes", "ref-observed-flag", u["ref_called"], not masked)
        st = pick("call_posterior_haplotypes", u["order"][1:])
        if st is not None:
            for s, (us, r) in enumerate(zip(u["samples"], st["rec"]["samples"])):
                gts = [cl[1] for cl in r["calls"] if cl[0] == us["call"]]
                if not gts:
                    report("mode_genotype_support.mode_genotype", "call", us["call"], [cl[0] for cl in r["calls"]])
                elif us["gt"] != gts[0]:
                    report("_genotype_as_alleles", "%s-gt" % mk, us["gt"], gts[0])
                if "gp_error" in us:
                    report("_genotype_posterior_as_array", "%s-%s" % (mk, us["gp_error"]), us["gp_error"],
                           {"len": r["gpLen"], "nonzero": r["gp"]})
                else:
                    check_gp("_genotype_posterior_as_array", us["gp"], r, False)
    # ---- program level -----------------------------------------------------------------
    p = obs["program"]
    site = "assemble.call_sample_genotypes"
    if "error" in p:
        report(site, "%s-%s" % (mk, p["error"]), p["error"], "a record")
    if "error2" in p:
        report(site, "%s-noGP-%s" % (mk, p["error2"]), p["error2"], "a record")
        return
    if not p["ref_ok"]:
        report(site, "ref-column", p["line"], "reference sequence")
    if p["masked"] != masked:
        report(site, "REFMASKED-flag", p["masked"], masked)
    st = pick(site, p["alt"])
    if st is None:
        return
    for s, (ps, r) in enumerate(zip(p["samples"], st["rec"]["samples"])):
        P = r["ploidy"]
        if ps["gt"] not in [cl[1] for cl in r["calls"]]:
            report(site, "%s-GT" % mk, ps["gt"], r["calls"])
        nrec = len(st["alt"]) + 1
        for name, den, src in (("afp", M * P, r["afp"]), ("aop", M, r["aop"]), ("acp", M, r["afp"])):
            vals = ps.get(name)
            if vals is None or len(vals) != nrec:
                report(site, "%s-%s-length" % (mk, name.upper()), vals, nrec)
                continue
            for i in range(nrec):
                q = Fraction(src[i], den)
                ok = close_text3(vals[i], q)
                if not ok and masked and i == 0 and close_text3(vals[i], 0):
                    ok = True        # a masked reference may be reported with its frequency or with 0
                if not ok:
                    report(site, "%s-%s-value" % (mk, name.upper()), {"index": i, "value": vals[i], "all": vals}, str(q))
                    break
        if "gp" in ps:
            vals = [] if ps["gp"] == ["."] else ps["gp"]
            check_gp(site, vals, r, True)
            if len(vals) == r["gpLen"]:
                if sum(float(v) for v in vals) > 1 + 0.0005 * len(vals) + 1e-9:
                    report(site, "GP-sum-above-one", vals, "<= 1")
        if "afp" in ps and len(ps["afp"]) == nrec:
            if sum(float(v) for v in ps["afp"]) > 1 + 0.0005 * nrec + 1e-9:
                report(site, "AFP-sum-above-one", ps["afp"], "<= 1")


def features(states):
    st = states[0]
    f = []
    if st["rec"]["masked"]:
        f.append("refmasked")
    if len(states) > 1:
        f.append("tied-alt-order")
    if len(st["alt"]) >= 2:
        f.append("alts>=2")
    if len(st["alt"]) == 0:
        f.append("no-alt")
    if any(-1 in cl[1] for r in st["rec"]["samples"] for cl in r["calls"]):
        f.append("dot-in-gt")
    if any(len(r["calls"]) > 1 for r in st["rec"]["samples"]):
        f.append("tied-call")
    if st["theta"][0] == 0:
        f.append("theta0")
    if st["rec"]["masked"] and len(st["alt"]) >= 1:
        f.append("refmasked-with-alt")
    return f


def replay_file(ck, path):
    """./check C13 --replay work/C13/violation-N.json : re-run exactly the recorded cases"""
    env.EVIDENCE = ck.wd          # a replay must not overwrite the evidence of the last full run
    with open(path) as fh:
        rec = json.load(fh)
    ex = rec["detail"].get("examples", [])
    cases = [e["model_states"] for e in ex if "model_states" in e]
    events = [e["event"] for e in ex if "event" in e]
    grouped = {}
    if cases:
        data_dir = repodata.copy_test_data(ck.wd, repodata.ASSEMBLE_FILES)
        insts = [{"idx": i, "ps": st[0]["ps"], "k": st[0]["k"], "m": st[0]["m"], "post": st[0]["post"], "theta": st[0]["theta"]}
                 for i, st in enumerate(cases)]
        for i, e in enumerate(x for x in ex if "model_states" in x):
            insts[i]["idx"] = 0 if e["instance"].get("locus") == "CHR2_10_30" else 1     # same real locus as recorded
        rr = pool.map_tasks("impl.c13", [{"op": "instances", "instances": insts, "seed": ck.seed, "data_dir": data_dir}])[0]
        if not rr["ok"]:
            ck.machinery_failure(rr["error"])
        for states, obs in zip(cases, rr["result"]):
            ck.evaluations += 1
            bad = []
            compare_instance(states, obs, bad)
            for key, detail in bad:
                group(grouped, "hapcalling-mismatch", key, detail)
    for (kind, _), g in sorted(grouped.items()):
        ck.violation(kind, {"n_cases": g["n"], "examples": g["examples"]}, key=g["key"])
    if events:
        validate_events(ck, events, "replay-trace.json")
    ck.note("replayed_cases", len(cases) + len(events))
    ck.sample({"kind": "replayed", "file": path})
    ck.finish()


def main():
    ck = Check("C13")
    tier = ck.tier
    ck.rule = (
        "TLC enumerates every collection of per-sample posteriors (genotype bags with counts out of M, support <= maxsup) "
        "of each (ploidies, haplotypes, M) instance, each threshold in {0,1/8,1/4,1/2,3/4,1} (thorough: also 3/8,5/8,7/8) and every admissible ALT order; "
        "each (posteriors, threshold) instance is replayed into the unit functions and into the real assemble code path. "
        "Non-trivial = instance with a masked reference, a '.' in some GT, >= 2 ALT alleles or a tie in ALT order. "
        "Wide loci (more than 127 / more than 255 reported ALT haplotypes: 70-140 generated samples with private haplotypes over "
        "8-9 SNVs) are beyond enumeration and are validated as recorded events of the real assemble tail and of real MCMC runs "
        "by TraceHapCalling (GtDotIffExcluded, GtAlleleNumberIsAltIndex, AltIffThreshold, AltOrder, RefMaskedIff)."
    )
    if os.environ.get("VERIF_REPLAY"):
        return replay_file(ck, os.environ["VERIF_REPLAY"])
    for fn in os.listdir(ck.wd):        # violation files of earlier runs would be misleading
        if fn.startswith("violation-") and fn.endswith(".json"):
            os.remove(os.path.join(ck.wd, fn))
    try:
        r = tlc.run(SPEC, "HapCalling", "MC_%s.cfg" % tier, timeout=2400)
        ck.add_tlc(r, "HapCalling")
        if r.violated:
            ck.violation("model", {"invariant": r.violated, "text": r.error_text[:1500]}, key={"model": "HapCalling"})
        killed = 0
        for cfg, want in (("Mutant_dosage.cfg", "AltIffThreshold"), ("Mutant_gplen.cfg", "GPLength"),
                          ("Mutant_score.cfg", "AltOrder")):
            m = tlc.run(SPEC, "HapCalling", cfg)
            if m.violated != want:
                ck.machinery_failure("mutant spec %s not killed (violated=%s)" % (cfg, m.violated))
            killed += 1
        ck.note("mutant_specs_killed", killed)
    except tlc.TLCError as e:
        ck.machinery_failure(str(e))

    groups = {}
    for s in r.printed:
        groups.setdefault(inst_key(s), []).append(s)
    keys = sorted(groups)
    if not keys:
        ck.machinery_failure("TLC printed no reported states")
    ck.note("reported_states", len(r.printed))
    ck.note("instances", len(keys))

    # ---- spec -> code ---------------------------------------------------------------------
    insts = []
    for i, k in enumerate(keys):
        st = groups[k][0]
        insts.append({"idx": i, "ps": st["ps"], "k": st["k"], "m": st["m"], "post": st["post"], "theta": st["theta"]})
    chunk = 150
    chunks = [insts[i: i + chunk] for i in range(0, len(insts), chunk)]
    data_dir = repodata.copy_test_data(ck.wd, repodata.ASSEMBLE_FILES)
    tasks = [{"op": "instances", "instances": c, "seed": ck.seed * 7919 + j, "data_dir": data_dir} for j, c in enumerate(chunks)]
    res = pool.map_tasks("impl.c13", tasks, mode="jit")
    grouped = {}
    feats = {}
    for c, rr in zip(chunks, res):
        if not rr["ok"]:
            ck.violation("impl-error", {"error": rr["error"], "tb": rr.get("tb", "")[-1200:]}, key={"site": "worker"})
            continue
        for inst, obs in zip(c, rr["result"]):
            states = groups[keys[inst["idx"]]]
            if "harness_error" in obs:
                ck.machinery_failure("harness error in worker: %s\n%s" % (obs["harness_error"], obs["tb"]))
            ck.evaluations += 1
            fs = features(states)
            for f in fs:
                feats[f] = feats.get(f, 0) + 1
            if set(fs) & {"refmasked", "dot-in-gt", "alts>=2", "tied-alt-order"}:
                ck.nontrivial += 1
            bad = []
            compare_instance(states, obs, bad)
            for key, detail in bad:
                group(grouped, "hapcalling-mismatch", key, detail)
    for (kind, _), g in sorted(grouped.items()):
        ck.violation(kind, {"n_cases": g["n"], "examples": g["examples"]}, key=g["key"])
    ck.traces += len(keys)
    ck.note("instance_features", feats)
    ck.sample({"kind": "model-state", "state": groups[keys[len(keys) // 3]][0]})
    ck.sample({"kind": "model-state", "state": groups[keys[(2 * len(keys)) // 3]][0]})

    # ---- code -> spec -----------------------------------------------------------------------
    trace_part(ck)

    ck.exhaustive = True
    ck.assumptions = [
        "TLC and CommunityModules Json are correct",
        "exhaustive within the listed instances (<= 3 samples, ploidy <= 6, <= 4 haplotypes, M <= 8, support <= 3 genotypes) "
        "and the six dyadic thresholds; other thresholds and real posteriors are covered by the recorded assemble runs (seeded)",
        "threshold 0 is read relationally: exactly the haplotypes that occur in some sample's posterior are listed",
        "a masked reference may carry its posterior frequency or 0 in AFP/AOP/ACP",
        "wide loci (> 127 / > 255 ALT) are sampled (seeded generator, counts in notes.wide_*), not enumerated; GP is not requested "
        "for them (its G-ordered array has tens of thousands of entries per sample)",
    ]
    ck.finish()


def validate_events(ck, events, fname):
    """code -> spec: TLC (TraceHapCalling) gives every recorded locus a verdict (several JVMs side by side)"""
    from concurrent.futures import ThreadPoolExecutor

    nparts = max(1, min(6, env.NCPU // 2, (len(events) + 39) // 40))
    parts = [events[i::nparts] for i in range(nparts)]

    def one(i):
        tf = os.path.join(ck.wd, "%s.%d" % (fname, i))
        with open(tf, "w") as fh:
            json.dump(parts[i], fh)
        return tlc.run(SPEC, "TraceHapCalling", "Trace.cfg", workers=1, extra_env={"TRACE_FILE": tf}, timeout=1500,
                       name="TraceHapCalling-%s-%d" % (fname, i))

    try:
        with ThreadPoolExecutor(nparts) as ex:
            results = list(ex.map(one, range(nparts)))
    except tlc.TLCError as e:
        ck.machinery_failure(str(e))
    grouped = {}
    for i, t in enumerate(results):
        ck.add_tlc(t, "TraceHapCalling" if nparts == 1 else "TraceHapCalling:%d" % i)
        consumed = [p for p in t.printed if "consumed" in p]
        if not consumed or consumed[0]["consumed"] != len(parts[i]):
            ck.machinery_failure("trace not fully consumed: %s of %d" % (consumed, len(parts[i])))
        for p in t.printed:
            if "reject" in p:
                e = parts[i][p["reject"] - 1]
                group(grouped, "trace-reject", {"site": "assemble", "clause": p["clause"]},
                      {"clause": p["clause"], "locus": e.get("locus"), "n_samples": len(e["ps"]), "n_alt": len(e["out"]["alt"]),
                       "theta": e["theta"], "argv": e.get("argv", "")[-200:], "event": e})
    for (kind, _), g in sorted(grouped.items()):
        ck.violation(kind, {"n_cases": g["n"], "examples": g["examples"][:2]}, key=g["key"])
    return sum(g["n"] for g in grouped.values())


WIDE_THETAS = ["0.0625", "0.125", "0.2", "0.25", "0.3", "0.5", "0.75", "0.9", "1.0"]


def wide_tasks(ck):
    """loci with more than 127 (8 SNVs, 70-100 samples) and more than 255 (9 SNVs, 128-140 samples) reported ALT haplotypes"""
    import random

    rnd = random.Random(ck.seed * 31 + 13)
    n = 4 if ck.tier == "quick" else 16
    tasks = []
    for i in range(n):
        big = i % 2 == 1
        t = {"op": "wide", "seed": ck.seed * 1000 + 500 + i, "index": i,
             "n_snv": 9 if big else 8, "n_samples": rnd.randint(134, 140) if big else rnd.randint(70, 100), "dense": big,
             "m": rnd.choice([16, 32]), "chains": rnd.choice([1, 2]),
             "refmode": ["present", "absent", "low", "present"][i % 4],
             # a low threshold (everything that occurs is listed: most alleles) and any other one
             "thetas": [rnd.choice(WIDE_THETAS[:4]), rnd.choice(WIDE_THETAS[3:])]}
        if i % 4 == 2:
            # the boundary value 0 with 256 retained steps: haplotypes seen in one or two steps (occurrence below 0.01) are listed
            t["m"] = 256
            t["thetas"] = ["0", "0.0625"]
        if i % 4 in (0, 3):
            t["mcmc"] = [48, 16, rnd.choice(["0.125", "0.2", "0.25"])]      # one real-MCMC run on the same files
            t["depth"] = 8
        tasks.append(t)
    return tasks


def meeting(e):
    """harness-side regime gauge only (no verdict): non-reference haplotypes with P(occurs) >= threshold in some sample"""
    th = Fraction(e["theta"][0], e["theta"][1])
    hit = set()
    for p in e["post"]:
        occ = {}
        for g, c in p:
            for h in set(g):
                occ[h] = occ.get(h, 0) + c
        hit |= {h for h, c in occ.items() if h != 0 and c > 0 and Fraction(c, e["m"]) >= th}
    return len(hit)


def wide_notes(ck, events):
    wide = [e for e in events if e.get("wide")]
    gauge = [meeting(e) for e in wide]
    over127 = sum(1 for g in gauge if g > 127)
    over255 = sum(1 for g in gauge if g > 255)
    ck.note("wide_events", len(wide))
    ck.note("wide_events_real_mcmc", sum(1 for e in wide if e["wide"] == "mcmc"))
    ck.note("wide_events_over_127_alt", over127)
    ck.note("wide_events_over_255_alt", over255)
    ck.note("wide_events_refmasked", sum(1 for e in wide if e["out"]["masked"]))
    ck.note("wide_events_with_dot_gt", sum(1 for e in wide if any(-1 in s["gt"] for s in e["out"]["samples"])))
    ck.note("wide_max_samples", max([len(e["ps"]) for e in wide] or [0]))
    ck.note("wide_max_alt", max([len(e["out"]["alt"]) for e in wide] or [0]))
    ck.note("wide_max_gt_allele", max([a for e in wide for s in e["out"]["samples"] for a in s["gt"]] or [0]))
    if not ck.violations and (over127 < 2 or over255 < 1):
        ck.machinery_failure("the wide-locus generator did not reach the regime (events over 127 ALT: %d, over 255: %d)"
                             % (over127, over255))
    if wide:
        e = wide[-1]
        ck.sample({"kind": "recorded-wide-locus", "wide": e["wide"], "argv": e["argv"], "n_samples": len(e["ps"]), "k": e["k"], "m": e["m"],
                   "theta": e["theta"], "n_alt": len(e["out"]["alt"]), "masked": e["out"]["masked"],
                   "gt_first_samples": [s["gt"] for s in e["out"]["samples"][:12]]})
    return wide


def wide_corruptions(ck, wide):
    """binding demonstration on wide loci: a listed allele numbered above 127 printed as '.', and an allele number
    above 255 printed modulo 256, must both be rejected"""
    bad = []
    for lim, fn in ((127, lambda a: -1), (255, lambda a: a - 256)):
        for e in wide:
            hit = [(si, j) for si, s in enumerate(e["out"]["samples"]) for j, a in enumerate(s["gt"]) if a > lim]
            if hit:
                x = json.loads(json.dumps(e))
                si, j = hit[0]
                g = x["out"]["samples"][si]["gt"]
                g[j] = fn(g[j])
                x["out"]["samples"][si]["gt"] = sorted([a for a in g if a >= 0]) + [a for a in g if a < 0]
                bad.append(x)
                break
    if len(bad) < 2 and not ck.violations:
        ck.machinery_failure("could not build corrupted wide traces (no GT with an allele number above 127 / 255)")
    return bad


def trace_part(ck):
    tier = ck.tier
    nrun = 16 if tier == "quick" else 120
    data_dir = os.path.join(ck.wd, "data")       # copied by the spec -> code part
    tasks = [{"op": "programs", "seed": ck.seed * 1000 + i, "index": i, "data_dir": data_dir} for i in range(nrun)]
    tasks += wide_tasks(ck)
    import time

    t0 = time.time()
    res = pool.map_tasks("impl.c13", tasks, mode="jit", nproc=min(env.NCPU, 6 if tier == "quick" else 12))
    ck.note("seconds_recorded_runs", round(time.time() - t0, 1))
    events = []
    for t, rr in zip(tasks, res):
        if not rr["ok"]:
            ck.violation("impl-error", {"task": t, "error": rr["error"], "tb": rr.get("tb", "")[-1500:]},
                         key={"site": "program-run"})
            continue
        for e in rr["result"]:
            if "fatal" in e:
                ck.violation("program-exception", e, key={"site": "assemble", "error": e["fatal"]})
            else:
                events.append(e)
    if not events:
        ck.machinery_failure("no program events recorded")
    t0 = time.time()
    validate_events(ck, events, "trace.json")
    ck.note("seconds_trace_validation", round(time.time() - t0, 1))
    ck.traces += len(events)
    ck.evaluations += len(events)
    ck.nontrivial += sum(1 for e in events if e["out"]["masked"] or any(-1 in s["gt"] for s in e["out"]["samples"])
                         or len(e["out"]["alt"]) >= 2)
    ck.note("recorded_events", len(events))
    ck.note("recorded_events_refmasked", sum(1 for e in events if e["out"]["masked"]))
    ck.note("recorded_events_with_dot_gt", sum(1 for e in events if any(-1 in s["gt"] for s in e["out"]["samples"])))
    ck.sample({"kind": "recorded-assemble-locus", "event": events[0]})
    wide = wide_notes(ck, events)
    # binding demonstration: corrupted recorded fields must be rejected
    bad = []
    for e in events:
        if len(e["out"]["alt"]) >= 2 and not bad:
            x = json.loads(json.dumps(e))
            x["out"]["alt"] = x["out"]["alt"][:-1]          # an ALT allele that met the threshold is dropped
            bad.append(x)
        elif e["k"] > 1 and len(bad) == 1:
            x = json.loads(json.dumps(e))
            x["out"]["masked"] = not x["out"]["masked"]
            bad.append(x)
        elif e["k"] > 1 and len(bad) == 2:
            x = json.loads(json.dumps(e))
            g = x["out"]["samples"][0]["gt"]
            x["out"]["samples"][0]["gt"] = [(-1 if a >= 0 else 0) for a in g]
            bad.append(x)
            break
    if len(bad) < 3:
        ck.machinery_failure("could not build corrupted traces")
    wbad = wide_corruptions(ck, wide)
    bad += wbad
    tfb = os.path.join(ck.wd, "trace-corrupt.json")
    with open(tfb, "w") as fh:
        json.dump(bad, fh)
    t = tlc.run(SPEC, "TraceHapCalling", "Trace.cfg", workers=1, extra_env={"TRACE_FILE": tfb})
    rej = [p for p in t.printed if "reject" in p]
    if len(rej) != len(bad):
        ck.machinery_failure("corrupted trace lines not all rejected: %s of %d" % (rej, len(bad)))
    if len(wbad) == 2:
        got = [p["clause"] for p in rej if p["reject"] > len(bad) - 2]
        if got != ["GtDotIffExcluded", "GtAlleleNumberIsAltIndex"]:
            ck.machinery_failure("corrupted wide traces rejected by unexpected clauses: %s" % got)
        ck.note("corrupted_wide_traces_rejected", 2)
    ck.note("corrupted_traces_rejected", len(rej))


if __name__ == "__main__":
    main()
