"""X01 (extra): sampler start states and per-sample quality fields.

spec  : spec/StartAndQuality/
          GreedyCaller.tla       start state of `mchap call` / `call-pedigree` (greedy_caller) over CallModel's exact weights
          StartState.tla         start of one `mchap assemble` chain (mean read distribution, draws, fixed SNVs, temperature ladder)
          Mec.tla  Phred.tla     MEC / MECP / read_assignment and the phred quality of GQ / SQ (qual_of_prob)
          TraceGreedyCaller.tla  TraceQuality.tla   code -> spec
bind  : spec -> code  every TLC instance of GreedyCaller -> compiled and interpreted greedy_caller; every StartState
                      instance -> _read_mean_dist and DenovoMCMC.fit (what reaches the sampler must be one of the model's
                      start states / ladders / rejections); every Mec state -> minimum_error_correction and
                      read_assignment; the Phred threshold table -> qual_of_prob on EVERY 6-decimal probability
        code -> spec  interpreted greedy_caller recordings (model, random and real `mchap call` / `call-pedigree` runs on the
                      repository's test data) -> TraceGreedyCaller; assemble / call / call-exact / call-pedigree runs on the
                      repository's test data: the read calls + genotype handed to the MEC computation, the internal GPM /
                      SPM and the PRINTED MEC / MECP / GQ / SQ, and every state handed to the assemble sampler -> TraceQuality
"""
import json
import math
import os
import random
import sys
import threading
import time
from concurrent.futures import ThreadPoolExecutor
from decimal import Decimal, getcontext
from fractions import Fraction

sys.path.insert(0, os.path.dirname(os.path.abspath(__file__)))
from vlib import env, tlc, pool, datasets
from vlib.report import Check

SPEC = os.path.join(env.SPEC, "StartAndQuality")
_T0 = time.time()
SITE_START = "DenovoMCMC._mcmc"


def log(msg):
    print("[X01 %6.1fs] %s" % (time.time() - _T0, msg), flush=True)


def unlimb(l):
    v = 0
    for x in reversed(l):
        v = v * 10000 + x
    return v


def chunks(seq, n):
    return [seq[i:i + n] for i in range(0, len(seq), n)]


def jkey(x):
    return json.dumps(x, sort_keys=True)


# ------------------------------------------------------------------------------------------------ TLC
def run_models(ck, tier):
    """all model-checking runs (tier models + mutant specs) concurrently, a few TLC workers each"""
    w = max(2, env.NCPU // 4)
    jobs = [("GreedyCaller", "MC_%s.cfg" % tier, None), ("StartState", "Start_%s.cfg" % tier, None),
            ("Mec", "Mec_%s.cfg" % tier, None), ("Phred", "Phred_%s.cfg" % tier, None)]
    mutants = [
        ("GreedyCaller", "Mutant_geq.cfg", "StepChoosesFirstMaximiser"), ("GreedyCaller", "Mutant_noprior.cfg", "StepChoosesFirstMaximiser"),
        ("GreedyCaller", "Mutant_noperms.cfg", "StepChoosesFirstMaximiser"), ("GreedyCaller", "Mutant_nosort.cfg", "ResultWellFormed"),
        ("GreedyCaller", "Info_mode.cfg", "GreedyIsPosteriorMode"),
        ("StartState", "Start_Mutant_gapfill.cfg", "StartInGenotypeSpace"), ("StartState", "Start_Mutant_nosortladder.cfg", "LadderAscendingEndsCold"),
        ("StartState", "Start_Mutant_nolastcheck.cfg", "LadderAscendingEndsCold"),
        ("Mec", "Mec_Mutant_gapmismatch.cfg", "MecIsMinimumErrorCorrection"), ("Mec", "Mec_Mutant_firsthap.cfg", "MecIsMinimumErrorCorrection"),
        ("Mec", "Mec_Mutant_max.cfg", "MecIsMinimumErrorCorrection"),
        ("Phred", "Phred_Mutant_floor.cfg", "ThresholdsExact"), ("Phred", "Phred_Mutant_ceil.cfg", "ThresholdsExact"),
    ]
    out = {}

    def one(job):
        mod, cfg, _ = job
        return job, tlc.run(SPEC, mod, cfg, workers=w, timeout=3000, keep_stdout=False)

    try:
        with ThreadPoolExecutor(max_workers=4) as ex:
            for job, r in ex.map(one, jobs + mutants):
                out[(job[0], job[1])] = r
    except tlc.TLCError as e:
        ck.machinery_failure(str(e))
    killed = 0
    for mod, cfg, inv in mutants:
        r = out[(mod, cfg)]
        if r.violated != inv:
            ck.machinery_failure("mutant spec %s/%s not killed (%s)" % (mod, cfg, r.violated))
        if cfg != "Info_mode.cfg":
            killed += 1
    ck.note("mutant_specs_killed", killed)
    ck.note("model_finding_greedy_start_is_not_always_the_posterior_mode", True)
    res = {}
    for mod, cfg, _ in jobs:
        r = out[(mod, cfg)]
        ck.add_tlc(r, mod)
        if r.violated:
            ck.violation("model", {"module": mod, "invariant": r.violated, "text": r.error_text[:1500]}, key={"model": mod})
        res[mod] = r
    return res


def validate(ck, module, events_by_case, label, expect_reject=False, njvm=None):
    """events_by_case: list of event lists (a case is never split between JVMs).  Returns (n_events, rejects)."""
    cases = [c for c in events_by_case if c]
    if not cases:
        return 0, []
    total = sum(len(c) for c in cases)
    njvm = njvm or max(1, min(env.NCPU, 8, total // 400 or 1))
    parts = [[] for _ in range(njvm)]
    load = [0] * njvm
    weight = lambda c: sum(sum(r_.get("cnt", 1) for r_ in e.get("reads", [])) + 4 for e in c) * (len(c) if "begin" == c[0].get("op") else 1)  # noqa: E731
    for c in sorted(cases, key=weight, reverse=True):
        k = load.index(min(load))
        parts[k].append(c)
        load[k] += weight(c)
    results = [None] * njvm
    errors = []

    def work(k):
        ev = [e for c in parts[k] for e in c]
        if not ev:
            results[k] = ([], None)
            return
        tf = os.path.join(ck.wd, "trace-%s-%d.json" % (label, k))
        with open(tf, "w") as fh:
            json.dump(ev, fh)
        try:
            t = tlc.run(SPEC, module, "Trace.cfg", workers=1, extra_env={"TRACE_FILE": tf}, name="%s-%s-%d" % (module, label, k),
                        timeout=3000, keep_stdout=False)
        except tlc.TLCError as e:
            errors.append(str(e))
            return
        results[k] = (ev, t)

    ths = [threading.Thread(target=work, args=(k,)) for k in range(njvm)]
    for t in ths:
        t.start()
    for t in ths:
        t.join()
    if errors:
        ck.machinery_failure("trace validation (%s): %s" % (label, errors[0][-1500:]))
    n, rejects = 0, []
    for k, (ev, t) in enumerate(results):
        if t is None:
            continue
        ck.add_tlc(t, "%s-%s-%d" % (module, label, k))
        consumed = [p for p in t.printed if "consumed" in p]
        if not consumed or consumed[0]["consumed"] != len(ev):
            ck.machinery_failure("trace %s-%d not fully consumed: %s" % (label, k, consumed))
        n += len(ev)
        for p in t.printed:
            if "reject" in p:
                i = p["reject"] - 1
                h = i
                while h > 0 and ev[h]["op"] not in ("begin",) and module == "TraceGreedyCaller":
                    h -= 1
                rejects.append({"line": p["reject"], "clause": p["clause"], "event": ev[i], "head": ev[h] if module == "TraceGreedyCaller" else ev[i],
                                "row": p.get("row")})
    return n, rejects


# ------------------------------------------------------------------------------------------------ A. greedy
def tie_info(rows):
    """(has exact tie for the maximum, has near tie) along the model's path"""
    exact = near = False
    for row in rows:
        v = sorted((unlimb(x) for x in row), reverse=True)
        if len(v) > 1 and v[0] > 0:
            if v[1] == v[0]:
                exact = True
            elif v[1] > 0 and Fraction(v[0], v[1]) - 1 < Fraction(1, 10**6):
                near = True
    return exact, near


def random_greedy_instance(rnd):
    P = rnd.randint(1, 6)
    while True:
        K = rnd.randint(2, 6)
        N = rnd.randint(1, 4)
        A = [rnd.randint(2, 3) for _ in range(N)]
        H = [[rnd.randrange(A[j]) for j in range(N)] for _ in range(K)]
        if len({tuple(h) for h in H}) == K:
            break
    w = [rnd.choice([0, 1, 1, 2, 3, 5]) for _ in range(K)]
    if not any(w):
        w[rnd.randrange(K)] = 1
    Fn = rnd.choice([0, 0, 1, 3, 5, 8, 11, 15])
    cells = set()
    for _ in range(rnd.randint(0, 6)):
        cells.add(tuple(rnd.choice([-1] + list(range(A[j]))) for j in range(N)))
    reads = [{"cells": list(c), "cnt": rnd.randint(1, 4)} for c in sorted(cells)]
    return {"P": P, "m": "random", "Fn": Fn, "Fd": 16, "pat": "random", "K": K, "N": N, "H": H, "A": A, "w": w, "reads": reads}


def part_greedy(ck, r, tier, rnd, S):
    dumps = sorted(r.printed, key=lambda d: jkey(d["inst"]))      # TLC's print order depends on worker scheduling
    insts = [d["inst"] for d in dumps]
    log("GreedyCaller: %d instances" % len(insts))
    ck.note("greedy_instances", len(insts))
    # ---- spec -> code: compiled
    cs = chunks(list(range(len(insts))), 400)
    res = pool.map_tasks("impl.x01", [{"op": "greedy", "insts": [insts[i] for i in c]} for c in cs], mode="jit")
    jit_final = {}
    ties = 0
    for c, rr in zip(cs, res):
        if not rr["ok"]:
            ck.violation("impl-error", {"error": rr["error"], "tb": rr.get("tb")}, key={"site": "greedy_caller", "mode": "jit"})
            continue
        for i, o in zip(c, rr["result"]):
            d = dumps[i]
            ck.evaluations += 1
            jit_final[i] = o["freq"]
            if d["final"] != [0] * d["inst"]["P"]:
                ck.nontrivial += 1
            exact, near = tie_info(d["rows"])
            for variant in ("freq", "none"):
                if variant not in o:
                    continue
                got = o[variant]
                if len(got) != d["inst"]["P"] or got != sorted(got) or any(a < 0 or a >= d["inst"]["K"] for a in got):
                    ck.violation("greedy-result", {"what": "result is not a sorted genotype of ploidy entries", "impl": got, "inst": d["inst"]},
                                 key=dict(d["key"], site="greedy_caller", field="well-formed"))
                elif got != d["final"]:
                    if exact or near:
                        ties += 1       # several maximisers (or a numerical near-tie): every step of the path actually taken is
                        continue        # judged by TraceGreedyCaller below
                    ck.violation("greedy-result", {"impl": got, "model": d["final"], "model_order": d["order"], "frequencies": variant,
                                                   "rows": [[unlimb(x) for x in row] for row in d["rows"]], "inst": d["inst"]},
                                 key=dict(d["key"], site="greedy_caller", field="result"))
    ck.note("greedy_results_differing_only_at_ties", ties)
    ck.sample({"kind": "greedy-instance", "inst": dumps[len(dumps) // 2]["inst"], "model_order": dumps[len(dumps) // 2]["order"],
               "model_final": dumps[len(dumps) // 2]["final"], "impl": jit_final.get(len(dumps) // 2)})
    log("greedy compiled replay done (%d tie divergences)" % ties)

    # ---- code -> spec: interpreted recordings of the same instances + random larger ones
    n_rand = 300 if tier == "quick" else 10000
    rinsts = [random_greedy_instance(rnd) for _ in range(n_rand)]
    allp = insts + rinsts
    cs = chunks(list(range(len(allp))), 250)
    res = pool.map_tasks("impl.x01", [{"op": "greedy_py", "insts": [allp[i] for i in c]} for c in cs], mode="py")
    cases = []
    for c, rr in zip(cs, res):
        if not rr["ok"]:
            ck.violation("impl-error", {"error": rr["error"], "tb": rr.get("tb")}, key={"site": "greedy_caller", "mode": "py"})
            continue
        for i, ev in zip(c, rr["result"]):
            ev[0]["idx"] = i
            cases.append(ev)
            if i < len(insts) and i in jit_final and ev[-1]["result"] != jit_final[i] and not any(tie_info(dumps[i]["rows"])):
                ck.violation("greedy-result", {"what": "compiled and interpreted results differ", "jit": jit_final[i], "py": ev[-1]["result"], "inst": insts[i]},
                             key=dict(dumps[i]["key"], site="greedy_caller", field="jit-vs-py"))
    log("greedy interpreted recordings: %d" % len(cases))

    # ---- real programs on the repository's test data (interpreted): every greedy_caller invocation
    common = ["--ploidy", "4", "--base-error-rate", "0.125", "--mcmc-steps", "30", "--mcmc-burn", "10", "--mcmc-seed", str(11 + ck.seed)]
    shallow, mixed = S["bams"]["shallow"], S["bams"]["mixed"]
    ptasks = [
        {"op": "call_greedy", "prog": "call", "argv": ["--bam"] + mixed + common + ["--haplotypes", S["hap_vcfs"]["mixed"], "--inbreeding", "0.25"], "tag": "call-mixed"},
        {"op": "call_greedy", "prog": "call", "argv": ["--bam"] + shallow + common + ["--haplotypes", S["hap_vcfs"]["mock"], "--prior-frequencies", "AFP"], "tag": "call-prior"},
        {"op": "call_greedy", "prog": "call-pedigree", "argv": ["--bam"] + shallow + common + ["--haplotypes", S["hap_vcfs"]["mixed"], "--sample-parents", S["pedigree"],
                                                                "--gamete-error", "0.1"], "tag": "pedigree"},
    ]
    if tier == "thorough":
        ptasks.append({"op": "call_greedy", "prog": "call-pedigree", "argv": ["--bam"] + mixed + common + ["--haplotypes", S["hap_vcfs"]["mock"], "--prior-frequencies", "AFP",
                                                                                                   "--sample-parents", S["pedigree"], "--gamete-error", "0.1"],
                       "tag": "pedigree-prior"})
    res = pool.map_tasks("impl.x01", ptasks, mode="py")
    prog_cases, skipped, not_forwarded = [], 0, 0
    for t, rr in zip(ptasks, res):
        if not rr["ok"]:
            ck.violation("cli-error", {"argv": t["argv"], "error": rr["error"], "tb": rr.get("tb")}, key={"site": "mchap " + t["prog"], "field": "exception"})
            continue
        o = rr["result"]
        skipped += len(o["skipped"])
        if o["calls"] == 0:
            ck.machinery_failure("mchap %s made no greedy_caller call" % t["prog"])
        for ev in o["traces"]:
            if "--prior-frequencies" in t["argv"] and not ev[0]["freq_given"]:
                not_forwarded += 1
            prog_cases.append(ev)
    ck.note("program_greedy_invocations_recorded", len(prog_cases))
    ck.note("program_greedy_invocations_outside_exact_family", skipped)
    ck.note("observation_prior_frequencies_not_forwarded_to_greedy_caller", not_forwarded)
    log("greedy recordings from mchap call / call-pedigree: %d" % len(prog_cases))

    strip = lambda ev: [dict(e) for e in ev]  # noqa: E731
    n_ev, rej = validate(ck, "TraceGreedyCaller", [strip(c) for c in cases + prog_cases], "greedy")
    near = 0
    for x in rej:
        if x["clause"] == "ChoiceMaximisesExactScore" and x.get("row"):
            v = [unlimb(y) for y in x["row"]]
            pick_rank = x["event"]["rank"]
            pick = pick_rank.index(max(pick_rank))
            if v[pick] > 0 and Fraction(max(v), v[pick]) - 1 < Fraction(1, 10**6):
                near += 1
                continue
        head = x["head"]
        ck.violation("trace-reject", {"line": x["line"], "clause": x["clause"], "event": x["event"], "instance": head},
                     key={"site": "greedy_caller", "clause": x["clause"], "source": (head.get("tag") or "direct").split("#")[0]})
    ck.note("greedy_near_ties_accepted", near)
    ck.traces += len(cases) + len(prog_cases)
    ck.evaluations += n_ev
    ck.note("greedy_trace_events_validated", n_ev)
    if prog_cases:
        ck.sample({"kind": "greedy-trace from mchap %s" % prog_cases[0][0]["tag"], "events": prog_cases[0][:2]})
    log("greedy traces validated (%d events, %d near ties)" % (n_ev, near))

    # ---- binding demonstration: corrupted traces
    rejected_heads = {x["head"].get("idx") for x in rej}
    base = next((c for c in cases if c[0]["idx"] not in rejected_heads and c[0]["P"] >= 3 and c[0]["K"] >= 3 and len(c[0]["reads"]) >= 1
                 and len(set(c[-1]["result"])) > 1 and len(c) == c[0]["P"] + 2), None)
    bad, expect = [], []
    if base:
        b = strip(json.loads(json.dumps(base)))
        b[-1]["result"] = list(reversed(b[-1]["result"]))
        bad.append(b); expect.append("ResultSorted")
        b = strip(json.loads(json.dumps(base)))
        st = b[1]
        lo = st["rank"].index(min(st["rank"]))
        if min(st["rank"]) < max(st["rank"]):
            st["rank"][lo] = max(st["rank"]) + 1       # the worst candidate is made the recorded winner
            bad.append(b); expect.append("ChoiceMaximisesExactScore")
        b = strip(json.loads(json.dumps(base)))
        b[2]["prefix"] = [(b[2]["prefix"][0] + 1) % b[0]["K"]]
        bad.append(b); expect.append("PrefixIsCommittedChoices")
        b = strip(json.loads(json.dumps(base)))
        b[1]["cands"] = b[1]["cands"][:-1]
        b[1]["rank"] = b[1]["rank"][:-1]
        bad.append(b); expect.append("EveryHaplotypeIsACandidateInOrder")
    if bad:
        _, rej = validate(ck, "TraceGreedyCaller", bad, "greedy-corrupt", expect_reject=True, njvm=1)
        got = {x["clause"] for x in rej}
        if not set(expect) <= got:
            if ck.violations:       # the tree under test is broken: the recorded base trace is not a sound starting point
                return 0
            ck.machinery_failure("corrupted greedy traces not rejected as expected: %s vs %s" % (expect, sorted(got)))
        return len(expect)
    return 0


# ------------------------------------------------------------------------------------------------ B. assemble start
def part_start(ck, r, tier, rnd):
    by = {}
    for d in r.printed:
        k = jkey(d["inst"])
        e = by.setdefault(k, {"inst": d["inst"], "end": set(), "genos": set(), "dist": d["dist"], "het": d["het"], "ladder": d["ladder"]})
        e["end"].add(d["end"])
        e["genos"].add(tuple(tuple(h) for h in d["geno"]))
        if d["end"] == "running":
            e["ladder"] = d["ladder"]
    items = [by[k] for k in sorted(by)]
    for e in items:
        if len(e["end"]) != 1:
            ck.machinery_failure("StartState: instance with several outcomes %s" % e["inst"])
        e["end"] = next(iter(e["end"]))
    log("StartState: %d instances, %d (instance, start state) pairs" % (len(items), len(r.printed)))
    ck.note("start_instances", len(items))

    # ---- _read_mean_dist on every instance with reads and a sampled column
    md = [e for e in items if e["inst"]["reads"] and e["het"]]
    cs = chunks(md, 300)
    res = pool.map_tasks("impl.x01", [{"op": "meandist", "insts": [e["inst"] for e in c]} for c in cs], mode="jit", warm_first=False)
    for c, rr in zip(cs, res):
        if not rr["ok"]:
            ck.violation("impl-error", {"error": rr["error"], "tb": rr.get("tb")}, key={"site": "_read_mean_dist"})
            continue
        for e, o in zip(c, rr["result"]):
            ck.evaluations += 1
            A = e["inst"]["A"]
            for ci, j in enumerate(e["het"]):
                want = [Fraction(n, e["dist"][ci]["den"]) for n in e["dist"][ci]["num"]]
                got = o["dist"][ci]
                covered = any(row[j - 1] >= 0 for row in e["inst"]["reads"])
                outside = [x for x in range(len(got)) if x >= A[j - 1] and got[x] != 0]
                if outside or abs(sum(got) - 1) > 1e-9 or any(not (v >= 0) for v in got):
                    ck.violation("mean-dist", {"what": "row is not a distribution over the alleles of the SNV", "column": j, "impl": got, "inst": e["inst"]},
                                 key={"site": "_read_mean_dist", "clause": "DistIsProper", "column": "covered" if covered else "uncovered"})
                elif covered and any(abs(g - float(w)) > 1e-12 for g, w in zip(got, want)):
                    ck.violation("mean-dist", {"what": "row is not the normalised mean of the read probabilities", "column": j, "impl": got,
                                               "model": [str(w) for w in want], "inst": e["inst"]},
                                 key={"site": "_read_mean_dist", "clause": "DistIsReadMean"})
                elif not covered and any(abs(g - float(w)) > 1e-12 for g, w in zip(got, want)):
                    ck.bump("uncovered_columns_not_uniform_over_alleles")        # informational: the documentation leaves this free
            if not o["pure"]:
                ck.violation("mean-dist", {"what": "argument modified", "inst": e["inst"]}, key={"site": "_read_mean_dist", "clause": "pure"})
    log("_read_mean_dist replay done (%d instances)" % len(md))

    # ---- DenovoMCMC.fit: what reaches the sampler (compiled; the homozygous-fix decision driven by the model)
    nseed = 8 if tier == "quick" else 24
    seeds = [ck.seed * 1000 + s for s in range(nseed)]
    cs = chunks(items, 60)
    res = pool.map_tasks("impl.x01", [{"op": "start", "insts": [e["inst"] for e in c], "seeds": seeds} for c in cs], mode="jit")
    start_events = []
    seen, possible = 0, 0
    for c, rr in zip(cs, res):
        if not rr["ok"]:
            ck.violation("impl-error", {"error": rr["error"], "tb": rr.get("tb")}, key={"site": SITE_START, "mode": "jit"})
            continue
        for e, o in zip(c, rr["result"]):
            inst = e["inst"]
            A = inst["A"]
            het = e["het"]
            ck.evaluations += 1
            ctx = {"A": A, "P": inst["P"], "reads": inst["reads"], "fixed": inst["fixed"], "temps": inst["temps"]}
            if e["end"] == "rejected":
                if o["error"] != "AssertionError" or o["starts"]:
                    ck.violation("ladder", {"what": "a ladder that does not end in 1.0 / starts below 0 reached the sampler", "impl": o["starts"][:1], "inst": ctx},
                                 key={"site": SITE_START, "clause": "RejectedIffBadLadder"})
                continue
            if o["error"]:
                ck.violation("ladder", {"what": "a valid ladder was rejected", "error": o["error"], "inst": ctx}, key={"site": SITE_START, "clause": "RejectedIffBadLadder"})
                continue
            if e["end"] == "allfixed":
                if o["starts"] or o["allfixed"] != len(seeds) or not o.get("trace_zero", False):
                    ck.violation("start", {"what": "all SNVs fixed: the sampler must not run and the trace is the fixed haplotype", "impl": o, "inst": ctx},
                                 key={"site": SITE_START, "clause": "AllFixed"})
                continue
            if len(o["starts"]) != len(seeds):
                ck.violation("start", {"what": "one sampler call per chain expected", "calls": len(o["starts"]), "inst": ctx}, key={"site": SITE_START, "clause": "OneStartPerChain"})
            got = set()
            for s in o["starts"]:
                g = tuple(tuple(h) for h in s["geno"])
                got.add(g)
                want_na = [A[j - 1] for j in het]
                if s["n_alleles"] != want_na or not s["reads_match"]:
                    ck.violation("start", {"what": "the sampler must receive exactly the non-fixed columns", "n_alleles": s["n_alleles"], "model": want_na,
                                           "reads_match": s["reads_match"], "inst": ctx}, key={"site": SITE_START, "clause": "HetColumnsOnly"})
                if [round(t * 4) for t in s["temps"]] != e["ladder"] or any(abs(t * 4 - round(t * 4)) > 1e-12 for t in s["temps"]):
                    ck.violation("ladder", {"impl": s["temps"], "model_quarters": e["ladder"], "inst": ctx}, key={"site": SITE_START, "clause": "LadderAscendingEndsCold"})
                if g not in e["genos"]:
                    badc = sorted({het[c_] for h in s["geno"] for c_, a in enumerate(h) if c_ < len(het) and not (0 <= a < A[het[c_] - 1])})
                    unc = [j for j in badc if not any(row[j - 1] >= 0 for row in inst["reads"])]
                    ck.violation("start", {"what": "start genotype outside the genotype space (allele index >= n_alleles of its SNV)" if badc else
                                           "start genotype is not a state the model can start from", "impl": s["geno"], "n_alleles": want_na,
                                           "bad_columns": badc, "seed": s["seed"], "inst": ctx},
                                 key={"site": SITE_START, "clause": "StartInGenotypeSpace" if badc else "StartFromSupport",
                                      "column": ("uncovered" if unc else "covered") if badc else "-", "reads": "some" if inst["reads"] else "none"})
                start_events.append({"op": "start", "P": inst["P"], "n_alleles": s["n_alleles"], "geno": s["geno"],
                                     "temps": [int(round(t * 1000000)) for t in s["temps"]], "draws": []})
            seen += len(got & e["genos"])
            possible += len(e["genos"])
    ck.note("start_states_seen_of_model_start_states", "%d / %d" % (seen, possible))
    log("DenovoMCMC.fit start replay done (%d instances x %d seeds)" % (len(items), nseed))

    # ---- interpreted: every random_choice row of the start (a sample of the instances)
    sel = [e for e in items if e["end"] == "running"]
    sel = rnd.sample(sel, min(len(sel), 200 if tier == "quick" else 1200))
    cs = chunks(sel, 40)
    res = pool.map_tasks("impl.x01", [{"op": "start", "insts": [e["inst"] for e in c], "seeds": seeds[:2], "draws": True} for c in cs], mode="py")
    draw_rows = 0
    for c, rr in zip(cs, res):
        if not rr["ok"]:
            ck.violation("impl-error", {"error": rr["error"], "tb": rr.get("tb")}, key={"site": SITE_START, "mode": "py"})
            continue
        for e, o in zip(c, rr["result"]):
            inst = e["inst"]
            n = len(e["het"])
            for s in o["starts"]:
                for k, dr in enumerate(s["draws"] if len(s["draws"]) == inst["P"] * n else []):     # a wrong count is judged by TraceQuality
                    ci = k % n
                    j = e["het"][ci]
                    covered = any(row[j - 1] >= 0 for row in inst["reads"])
                    want = [Fraction(x, e["dist"][ci]["den"]) for x in e["dist"][ci]["num"]]
                    draw_rows += 1
                    if covered and (len(dr["p"]) != len(want) or any(abs(g - float(w)) > 1e-12 for g, w in zip(dr["p"], want))):
                        ck.violation("start", {"what": "the draw is not made from the mean read distribution of its column", "column": j, "row": dr["p"],
                                               "model": [str(w) for w in want], "inst": inst}, key={"site": SITE_START, "clause": "DrawFromReadMean"})
                start_events.append({"op": "start", "P": inst["P"], "n_alleles": s["n_alleles"], "geno": s["geno"],
                                     "temps": [int(round(t * 1000000)) for t in s["temps"]],
                                     "draws": [{"p": [int(round(v * 1000000)) for v in dr["p"]], "x": dr["x"]} for dr in s["draws"]]
                                              or [{"p": [1000000], "x": 0}]})      # never empty here: an empty list means "not recorded"
    ck.note("start_draw_rows_checked", draw_rows)
    log("interpreted start recordings done (%d random_choice rows)" % draw_rows)
    return start_events


# ------------------------------------------------------------------------------------------------ C. MEC
def part_mec(ck, r, tier):
    states = sorted(r.printed, key=jkey)
    log("Mec: %d states" % len(states))
    ck.note("mec_states", len(states))
    for dtype, flip in (("int8", False), ("int64", True)):
        sel = states if not flip else states[::3]
        sub = []
        for s in sel:
            if flip:
                order = list(range(len(s["reads"])))[::-1]
                sub.append({"reads": [s["reads"][i] for i in order], "geno": s["geno"][::-1]})
            else:
                sub.append({"reads": s["reads"], "geno": s["geno"]})
        cs = chunks(list(range(len(sel))), 3000)
        res = pool.map_tasks("impl.x01", [{"op": "mec", "states": [sub[i] for i in c], "dtype": dtype} for c in cs], mode="jit", warm_first=False)
        for c, rr in zip(cs, res):
            if not rr["ok"]:
                ck.violation("impl-error", {"error": rr["error"], "tb": rr.get("tb")}, key={"site": "minimum_error_correction"})
                continue
            for i, o in zip(c, rr["result"]):
                s = sel[i]
                ck.evaluations += 1
                R, P = len(s["reads"]), len(s["geno"])
                per = s["permin"][::-1] if flip else s["permin"]
                arg = [row[::-1] for row in (s["argmin"][::-1] if flip else s["argmin"])]  if flip else s["argmin"]
                if not flip and s["mec"] > 0:
                    ck.nontrivial += 1
                key = {"N": len(s["geno"][0]), "A": s["A"], "P": P, "R": R}
                if o["per"] != per or o["shape"] != [R]:
                    ck.violation("mec", {"what": "per-read minimum error correction", "impl": o["per"], "model": per, "state": sub[i], "dtype": dtype},
                                 key=dict(key, site="minimum_error_correction", field="per-read"))
                if o["sum"] != s["mec"]:
                    ck.violation("mec", {"what": "MEC", "impl": o["sum"], "model": s["mec"], "state": sub[i], "dtype": dtype},
                                 key=dict(key, site="minimum_error_correction", field="sum"))
                want = [[(1.0 / sum(row) if x else 0.0) for x in row] for row in arg]
                if o["ashape"] != [R, P] or any(abs(a - b) > 1e-12 for ra, rb in zip(o["asg"], want) for a, b in zip(ra, rb)):
                    ck.violation("mec", {"what": "read_assignment", "impl": o["asg"], "model": want, "state": sub[i], "dtype": dtype},
                                 key=dict(key, site="read_assignment", field="assignment"))
                if not o["pure"]:
                    ck.violation("mec", {"what": "arguments modified", "state": sub[i]}, key=dict(key, site="minimum_error_correction", field="pure"))
    s = states[len(states) // 2]
    ck.sample({"kind": "mec-state", "reads": s["reads"], "genotype": s["geno"], "model_per_read": s["permin"], "model_mec": s["mec"], "called": s["called"]})
    log("MEC replay done")


# ------------------------------------------------------------------------------------------------ D. phred
def part_phred(ck, r, tier):
    tables = {d["prec"]: d["thr"] for d in r.printed}
    if 6 not in tables:
        ck.machinery_failure("Phred: no table for precision 6")
    reach = sorted(q for q in range(61) if tables[6][q] <= (1000000 if q == 0 else tables[6][q - 1] - 1))
    ck.note("phred_reachable_qualities_precision6", reach)
    ck.note("model_finding_unreachable_GQ_values", sorted(set(range(61)) - set(reach)))
    tasks = []
    for prec, thr in sorted(tables.items()):
        scale = 10 ** prec
        step = 50000
        for a in range(0, scale + 1, step):
            tasks.append({"op": "qual_sweep", "prec": prec, "thr": thr, "lo": a, "hi": min(scale, a + step - 1)})
    res = pool.map_tasks("impl.x01", tasks, mode="jit", warm_first=False)
    n = 0
    for t, rr in zip(tasks, res):
        if not rr["ok"]:
            ck.violation("impl-error", {"error": rr["error"], "tb": rr.get("tb")}, key={"site": "qual_of_prob"})
            continue
        o = rr["result"]
        n += o["n"]
        for b in o["bad"][:5]:
            ck.violation("phred", dict(b), key={"site": "qual_of_prob", "precision": t["prec"], "kind": b["kind"],
                                                 "band": "cap" if b["prob"] > 1 - 2 * 10.0 ** -t["prec"] else "inner"})
    ck.evaluations += n
    ck.nontrivial += n
    ck.note("qual_of_prob_inputs_evaluated", n)
    ck.sample({"kind": "phred-table", "precision": 6, "thresholds_least_error_units_with_quality_at_most_q": tables[6][:12] + ["..."] + tables[6][-8:]})
    log("qual_of_prob sweep done (%d inputs)" % n)
    # prob_of_qual / qual_of_char
    quals = list(range(0, 94))
    chars = "".join(chr(33 + q) for q in quals)
    rr = pool.map_tasks("impl.x01", [{"op": "qual_misc", "quals": quals, "chars": chars}], mode="jit")[0]
    events = []
    if not rr["ok"]:
        ck.violation("impl-error", {"error": rr["error"], "tb": rr.get("tb")}, key={"site": "qual_misc"})
        return events
    o = rr["result"]
    getcontext().prec = 50
    for q, p, pa in zip(quals, o["prob_of_qual"], o["prob_of_qual_array"]):
        exact = 1 - Decimal(10) ** (Decimal(-q) / Decimal(10))
        ck.evaluations += 1
        if abs(Decimal(p) - exact) > Decimal("1e-12") or abs(Decimal(pa) - exact) > Decimal("1e-12"):
            ck.violation("phred", {"what": "prob_of_qual", "q": q, "impl": p, "impl_array": pa, "exact": str(exact)}, key={"site": "prob_of_qual"})
        events.append({"op": "poq", "q": q, "e": int(round((1 - p) * 1000000))})
    for q, c, v, va in zip(quals, chars, o["qual_of_char"], o["qual_of_char_array"]):
        ck.evaluations += 1
        if va != v:
            ck.violation("phred", {"what": "qual_of_char scalar and array forms differ", "char": c, "scalar": v, "array": va}, key={"site": "qual_of_char"})
        events.append({"op": "qoc", "c": c, "q": v})
    if not o["char_array_pure"]:
        ck.violation("phred", {"what": "qual_of_char modified its argument"}, key={"site": "qual_of_char", "field": "pure"})
    return events


# ------------------------------------------------------------------------------------------------ E. programs
def rank(g):
    return sum(math.comb(a + i, i + 1) for i, a in enumerate(g))


def unrank_all(P, K):
    import itertools

    gs = list(itertools.combinations_with_replacement(range(K), P))
    gs.sort(key=rank)
    return gs


def floor_cands(p):
    xf = Fraction(p) * 1000000
    fl = xf.numerator // xf.denominator
    c = [int(fl)]
    if xf - fl > 1 - Fraction(1, 10**9):
        c.append(int(fl) + 1)
    return c


def fmt_int(s):
    return -1 if s in (".", None) else int(s)


def part_programs(ck, tier, S, rnd):
    shallow, mixed, deep = S["bams"]["shallow"], S["bams"]["mixed"], S["bams"]["deep"]
    asm = ["--targets", S["bed"], "--variants", S["snv_vcf"], "--reference", S["ref"], "--ploidy", "4"]
    mc = ["--mcmc-steps", "400" if tier == "quick" else "1200", "--mcmc-burn", "100", "--mcmc-seed", str(11 + ck.seed)]
    runs = [
        ("assemble", ["--bam"] + mixed + asm + mc),
        ("assemble", ["--bam"] + shallow + asm + mc + ["--base-error-rate", "0.125", "--mcmc-temperatures", "0.5", "0.25", "--inbreeding", "0.1"]),
        ("assemble", ["--bam"] + shallow + asm + mc + ["--mapping-quality", "61"]),              # no read passes: every SNV is uncovered
        ("assemble", ["--bam"] + deep + asm[:-2] + mc + ["--sample-pool", S["pools"], "--ploidy", S["pools_ploidy"]]),
        ("call", ["--bam"] + mixed + ["--ploidy", "4", "--haplotypes", S["hap_vcfs"]["mixed"]] + mc),
        ("call", ["--bam"] + shallow + ["--ploidy", "4", "--haplotypes", S["hap_vcfs"]["mock"], "--prior-frequencies", "AFP", "--inbreeding", "0.25"] + mc),
        ("call-exact", ["--bam"] + mixed + ["--ploidy", "4", "--haplotypes", S["hap_vcfs"]["mixed"]]),
        ("call-exact", ["--bam"] + mixed + ["--ploidy", "4", "--haplotypes", S["hap_vcfs"]["mixed"], "--report", "GP", "--inbreeding", "0.3"]),
        ("call-exact", ["--bam"] + shallow + ["--ploidy", "4", "--haplotypes", S["hap_vcfs"]["mock"], "--prior-frequencies", "AFP", "--report", "GP"]),
        ("call-exact", ["--bam"] + shallow + ["--ploidy", "4", "--haplotypes", S["hap_vcfs"]["mixed"], "--mapping-quality", "61"]),
        ("call-pedigree", ["--bam"] + mixed + ["--ploidy", "4", "--haplotypes", S["hap_vcfs"]["mixed"], "--sample-parents", S["pedigree"], "--gamete-error", "0.1"] + mc),
        # tetraploid data called as diploid: reads that fit no haplotype of the genotype (MEC > 0)
        ("assemble", ["--bam"] + mixed + asm[:-1] + ["2"] + mc),
        ("call", ["--bam"] + shallow + ["--ploidy", "2", "--haplotypes", S["hap_vcfs"]["mixed"]] + mc),
        ("call-exact", ["--bam"] + mixed + ["--ploidy", "2", "--haplotypes", S["hap_vcfs"]["mixed"], "--report", "GP"]),
        ("call-pedigree", ["--bam"] + shallow + ["--ploidy", "2", "--haplotypes", S["hap_vcfs"]["mixed"], "--sample-parents", S["pedigree"], "--gamete-error", "0.1"] + mc),
    ]
    if tier == "thorough":
        for sd in (1, 2, 3):
            runs.append(("assemble", ["--bam"] + shallow + asm + ["--mcmc-steps", "800", "--mcmc-burn", "100", "--mcmc-seed", str(100 + sd + ck.seed), "--mapping-quality", "61",
                                                                    "--mcmc-temperatures", "0.3", "1.0"]))
            runs.append(("call", ["--bam"] + shallow + ["--ploidy", "4", "--haplotypes", S["hap_vcfs"]["mixed"], "--mcmc-steps", "800", "--mcmc-burn", "100",
                                                         "--mcmc-seed", str(200 + sd + ck.seed), "--base-error-rate", "0.05"]))
    tasks = [{"op": "prog", "prog": p, "argv": a} for p, a in runs]
    res = pool.map_tasks("impl.x01", tasks, mode="jit")
    events, n_samples = [], 0
    sq_vs_gq = 0
    for t, rr in zip(tasks, res):
        prog = t["prog"]
        if not rr["ok"]:
            ck.violation("cli-error", {"prog": prog, "argv": t["argv"], "error": rr["error"], "tb": rr.get("tb")}, key={"site": "mchap " + prog, "field": "exception"})
            continue
        o = rr["result"]
        if o["error"]:
            ck.violation("cli-error", {"prog": prog, "argv": t["argv"], "chain": o["error"]}, key={"site": "mchap " + prog, "field": "exception"})
            continue
        if not o["records"]:
            ck.machinery_failure("mchap %s printed no record" % prog)
        zero_reads = "61" in t["argv"]
        for s in o["starts"]:
            A = s["n_alleles"]
            events.append({"op": "start", "P": len(s["geno"]), "n_alleles": A, "geno": s["geno"], "temps": [int(round(x * 1000000)) for x in s["temps"]], "draws": [],
                           "_src": {"prog": prog, "zero_reads": zero_reads}})
        for rec in o["records"]:
            if "capture_error" in rec:
                ck.machinery_failure("capture failed: %s" % rec["capture_error"])
            cols = rec["line"].split("\t")
            keys = cols[8].split(":")
            ref, alts = cols[3], ([] if cols[4] == "." else cols[4].split(","))
            haps = [ref] + alts
            for si, smp in enumerate(rec["samples"]):
                vals = dict(zip(keys, cols[9 + si].split(":")))
                gt = smp["gt"]
                missing = 1 if gt is None or all(a < 0 for a in gt) else 0
                called = sum(r_["cnt"] * sum(1 for x in r_["cells"] if x >= 0) for r_ in smp["read_calls"])
                ev = {"op": "sample", "P": smp["ploidy"], "reads": smp["read_calls"], "called": called, "missing": missing,
                      "mec": fmt_int(vals.get("MEC")), "mecp": -1 if vals.get("MECP") in (".", None) else int(round(float(vals["MECP"]) * 1000)),
                      "gq": fmt_int(vals.get("GQ")), "sq": fmt_int(vals.get("SQ")), "rcalls": fmt_int(vals.get("RCALLS")),
                      "geno": smp.get("mec_geno", []), "gpm": [0], "spm": [0],
                      "_src": {"prog": prog, "locus": cols[2], "sample": smp["name"], "printed": cols[9 + si], "format": cols[8]}}
                n_samples += 1
                if not missing:
                    if "mec_geno" not in smp or smp["iGPM"] is None or smp["iSPM"] is None:
                        ck.violation("quality-capture", {"what": "a called sample without MEC computation / GPM / SPM", "src": ev["_src"], "mec_calls": rec["mec_calls"]},
                                     key={"site": "mchap " + prog, "field": "capture"})
                        continue
                    ev["gpm"], ev["spm"] = floor_cands(smp["iGPM"]), floor_cands(smp["iSPM"])
                    if not smp["mec_reads_same"]:
                        ck.violation("quality-source", {"what": "MEC computed on something else than the sample's read calls", "src": ev["_src"]},
                                     key={"site": "mchap " + prog, "field": "mec-reads"})
                    # the genotype handed to the MEC computation is the printed genotype (as a multiset of haplotypes:
                    # assemble numbers the alleles after the computation; unknown alleles '.' are not comparable)
                    if rec["snv_alleles"] is not None:
                        want = sorted([rec["snv_alleles"][j].index(haps[a][pos]) for j, pos in enumerate(rec["positions"])]
                                      for a in gt if 0 <= a < len(haps))
                        pool_ = sorted(smp["mec_geno"])
                        ok = len(smp["mec_geno"]) == len(gt)
                        for row in want:
                            if row in pool_:
                                pool_.remove(row)
                            else:
                                ok = False
                        if not ok:
                            ck.violation("quality-source", {"what": "MEC computed on a genotype that differs from the printed GT", "gt": gt,
                                                            "mec_genotype": smp["mec_geno"], "printed_haplotypes": want, "src": ev["_src"]},
                                         key={"site": "mchap " + prog, "field": "mec-genotype"})
                    # the probabilities handed to qual_of_prob are the printed GPM / SPM
                    if "quals" in smp:
                        got = sorted(q["prob"] for q in smp["quals"])
                        if got != sorted([smp["iGPM"], smp["iSPM"]]):
                            ck.violation("quality-source", {"what": "GQ / SQ computed from other probabilities than GPM / SPM", "qual_of_prob_args": got,
                                                            "GPM": smp["iGPM"], "SPM": smp["iSPM"], "src": ev["_src"]}, key={"site": "mchap " + prog, "field": "phred-source"})
                    # call-exact --report GP: GPM / SPM recomputed from the printed-precision-free posterior array
                    if prog == "call-exact" and "gp" in smp and len(haps) >= 1:
                        gp = smp["gp"]
                        gs = unrank_all(smp["ploidy"], len(haps))
                        if len(gs) == len(gp):
                            top = max(gp)
                            modes = [g for g, p in zip(gs, gp) if p == top]
                            spms = [sum(p for g, p in zip(gs, gp) if set(g) == set(m)) for m in modes]
                            ck.evaluations += 1
                            if abs(top - smp["iGPM"]) > 1e-9 or all(abs(x - smp["iSPM"]) > 1e-6 for x in spms):
                                ck.violation("quality-source", {"what": "GPM / SPM are not the mode / mode-support mass of the posterior array", "GPM": smp["iGPM"],
                                                                "SPM": smp["iSPM"], "from_GP": [top, spms], "src": ev["_src"]},
                                             key={"site": "mchap call-exact", "field": "gpm-from-gp"})
                events.append(ev)
    ck.note("program_runs", len(runs))
    ck.note("program_samples_validated", n_samples)
    ck.note("program_samples_with_positive_MEC", sum(1 for e in events if e["op"] == "sample" and e["mec"] > 0))
    ck.note("program_samples_with_GQ_strictly_between_0_and_60", sum(1 for e in events if e["op"] == "sample" and 0 < e["gq"] < 60))
    log("program runs done: %d sample events, %d start events" % (n_samples, sum(1 for e in events if e["op"] == "start")))
    return events


def judge_quality(ck, events, label):
    src = {id(e): e.pop("_src", None) for e in events}
    n_ev, rej = validate(ck, "TraceQuality", [[e] for e in events], label)
    for x in rej:
        e = x["event"]
        s = src.get(id(e))
        if e["op"] == "start":
            key = {"site": SITE_START, "clause": x["clause"]}
            if x["clause"] == "StartInGenotypeSpace":
                key.update({"column": "uncovered" if (s or {}).get("zero_reads") else "unknown", "reads": "none" if (s or {}).get("zero_reads") else "some",
                            "source": "mchap assemble" if s else "fit"})
            ck.violation("trace-reject", {"line": x["line"], "clause": x["clause"], "event": e, "source": s}, key=key)
        elif e["op"] == "sample":
            ck.violation("trace-reject", {"line": x["line"], "clause": x["clause"], "source": s, "event": {k: v for k, v in e.items() if k != "reads"},
                                          "reads": e["reads"][:12]}, key={"site": "mchap " + (s or {}).get("prog", "?"), "clause": x["clause"]})
        else:
            ck.violation("trace-reject", {"line": x["line"], "clause": x["clause"], "event": e}, key={"site": e["op"], "clause": x["clause"]})
    return n_ev, {id(x["event"]) for x in rej}


def corrupted_quality(ck, events, rejected_ids):
    ok = [e for e in events if id(e) not in rejected_ids]
    smp = next((e for e in ok if e["op"] == "sample" and not e["missing"] and e["called"] > 0 and e["mec"] >= 0 and 0 < e["gq"] < 60), None)
    st = next((e for e in ok if e["op"] == "start" and len(e["temps"]) >= 2), None) or next((e for e in ok if e["op"] == "start"), None)
    bad, expect = [], []
    if smp:
        b = json.loads(json.dumps(smp)); b["mec"] += 1
        bad.append(b); expect.append("MecIsSumOfPerReadMinimum")
        b = json.loads(json.dumps(smp)); b["mecp"] += 3
        bad.append(b); expect.append("MecpIsMecOverCalledBases")
        b = json.loads(json.dumps(smp)); b["gq"] += 1; b["sq"] = max(b["sq"], b["gq"])
        bad.append(b); expect.append("GqIsPhredOfGenotypeProbability")
        b = json.loads(json.dumps(smp)); b["geno"] = b["geno"][:-1]
        bad.append(b); expect.append("GenotypeHasPloidyRows")
    if st:
        b = json.loads(json.dumps(st)); b["geno"][0][0] = b["n_alleles"][0]
        bad.append(b); expect.append("StartInGenotypeSpace")
        b = json.loads(json.dumps(st)); b["temps"][-1] = 900000
        bad.append(b); expect.append("LadderEndsCold")
        if len(st["temps"]) >= 2:
            b = json.loads(json.dumps(st)); b["temps"][0], b["temps"][1] = 1000000, b["temps"][0]
            bad.append(b); expect.append("LadderAscending")
    bad.append({"op": "poq", "q": 30, "e": 1003}); expect.append("ProbOfQualIsOneMinusTenToMinusQOverTen")
    bad.append({"op": "qoc", "c": "I", "q": 41}); expect.append("QualOfCharIsPhred33")
    for b in bad:
        b.pop("_src", None)
    _, rej = validate(ck, "TraceQuality", [[b] for b in bad], "quality-corrupt", expect_reject=True, njvm=1)
    got = [x["clause"] for x in rej]
    if sorted(got) != sorted(expect):
        if ck.violations:           # the tree under test is broken: recorded events are not a sound starting point
            return 0
        ck.machinery_failure("corrupted quality traces not rejected as expected: %s vs %s" % (sorted(expect), sorted(got)))
    return len(bad)


def replay(ck, path):
    """./check X01 --replay work/X01/violation-N.json : re-run exactly the recorded input against the tree under test"""
    with open(path) as fh:
        rec = json.load(fh)
    d, kind, key = rec["detail"], rec["kind"], rec.get("key") or {}
    site = key.get("site", "")
    print("replay %s kind=%s key=%s" % (path, kind, key))
    bad = False
    inst = d.get("inst") or d.get("instance")
    if site == "greedy_caller" and inst:
        inst = {k: v for k, v in inst.items() if k not in ("op", "tag", "idx", "freq_given")}
        inst.setdefault("A", [1 + max(h[j] for h in inst["H"]) for j in range(inst["N"])])
        rr = pool.map_tasks("impl.x01", [{"op": "greedy_py", "insts": [inst]}], mode="py")[0]
        rj = pool.map_tasks("impl.x01", [{"op": "greedy", "insts": [inst]}], mode="jit")[0]
        if not rr["ok"] or not rj["ok"]:
            print("implementation raised: %s" % (rr.get("error") or rj.get("error")))
            sys.exit(1)
        ev = rr["result"][0]
        _, rej = validate(ck, "TraceGreedyCaller", [ev], "replay", expect_reject=True, njvm=1)
        print("instance: %s" % json.dumps(inst))
        print("interpreted result %s, compiled result %s" % (ev[-1]["result"], rj["result"][0]["freq"]))
        for x in rej:
            print("REJECT clause=%s event=%s" % (x["clause"], json.dumps(x["event"])[:400]))
        bad = bool(rej) or ev[-1]["result"] != rj["result"][0]["freq"] or ("model" in d and rj["result"][0]["freq"] != d["model"])
    elif site in (SITE_START, "_read_mean_dist") and isinstance(d.get("inst"), dict) and "A" in d["inst"]:
        inst = dict(d["inst"])
        seeds = [d["seed"]] if "seed" in d else [ck.seed * 1000 + s_ for s_ in range(8)]
        rr = pool.map_tasks("impl.x01", [{"op": "start", "insts": [inst], "seeds": seeds}], mode="jit")[0]
        if not rr["ok"]:
            print("implementation raised: %s" % rr["error"])
            sys.exit(1)
        o = rr["result"][0]
        het = [j for j, f in enumerate(inst["fixed"]) if not f]
        print("instance: %s" % json.dumps(inst))
        print("error: %s" % o["error"])
        ev = []
        for s_ in o["starts"]:
            print("seed %s start %s n_alleles %s temps %s" % (s_["seed"], s_["geno"], s_["n_alleles"], s_["temps"]))
            ev.append({"op": "start", "P": inst["P"], "n_alleles": [inst["A"][j] for j in het], "geno": s_["geno"],
                       "temps": [int(round(t * 1000000)) for t in s_["temps"]], "draws": []})
        if ev:
            _, rej = validate(ck, "TraceQuality", [[e] for e in ev], "replay", expect_reject=True, njvm=1)
            for x in rej:
                print("REJECT clause=%s event=%s" % (x["clause"], json.dumps(x["event"])[:400]))
            bad = bool(rej)
    elif kind == "mec" and "state" in d:
        rr = pool.map_tasks("impl.x01", [{"op": "mec", "states": [d["state"]], "dtype": d.get("dtype", "int8")}], mode="jit")[0]
        print("state: %s" % json.dumps(d["state"]))
        print("implementation: %s" % (rr.get("result") or rr.get("error")))
        print("model (%s): %s" % (d.get("what"), d.get("model")))
        bad = True if not rr["ok"] else (rr["result"][0]["per"] != d["model"] if d.get("what", "").startswith("per-read") else True)
    elif kind == "phred" and "prob" in d:
        thr = None
        r = tlc.run(SPEC, "Phred", "Phred_quick.cfg")
        for t in r.printed:
            if t["prec"] == d.get("precision", 6):
                thr = t["thr"]
        m = int(Fraction(d["prob"]) * 10 ** d.get("precision", 6))
        rr = pool.map_tasks("impl.x01", [{"op": "qual_sweep", "prec": d.get("precision", 6), "thr": thr, "lo": max(0, m - 1), "hi": m + 1}], mode="jit")[0]
        print("qual_of_prob around %r: %s" % (d["prob"], rr.get("result") or rr.get("error")))
        bad = (not rr["ok"]) or rr["result"]["nbad"] > 0
    else:
        print(json.dumps(d, indent=1)[:4000])
        print("(no targeted replay for this kind: run ./check X01)")
        sys.exit(1)
    print("replay verdict: %s" % ("VIOLATION" if bad else "not reproduced on this tree"))
    sys.exit(1 if bad else 0)


def main():
    ck = Check("X01")
    tier = ck.tier
    rnd = random.Random(ck.seed)
    if os.environ.get("VERIF_REPLAY"):
        replay(ck, os.environ["VERIF_REPLAY"])
    ck.rule = (
        "TLC enumerates (a) every instance of a haplotype-menu x read-bag x ploidy x F x frequency-pattern grid for the greedy start state, "
        "(b) every (allele counts, read rows, fixed SNV set, ladder) instance with all its reachable assemble start states, (c) every read-matrix x genotype "
        "of small shapes for MEC with the minimum over ALL read-to-haplotype assignments, (d) the phred step function by bisection; each state is replayed "
        "into the real functions; qual_of_prob is evaluated on every 6-decimal probability. Non-trivial = greedy result other than all-reference, "
        "MEC > 0 states, every phred input."
    )
    S = datasets.repo_simple(env.REPO, os.path.join(ck.wd, "repo-data"))
    models = run_models(ck, tier)
    log("TLC done: %s" % {k: v.distinct for k, v in models.items()})
    corrupted = part_greedy(ck, models["GreedyCaller"], tier, rnd, S)
    start_events = part_start(ck, models["StartState"], tier, rnd)
    part_mec(ck, models["Mec"], tier)
    misc_events = part_phred(ck, models["Phred"], tier)
    prog_events = part_programs(ck, tier, S, rnd)
    events = start_events + misc_events + prog_events
    n_ev, rejected_ids = judge_quality(ck, events, "quality")
    ck.traces += len(events)
    ck.evaluations += n_ev
    ck.note("quality_trace_events_validated", n_ev)
    smp = next((e for e in prog_events if e["op"] == "sample" and not e["missing"]), None)
    if smp:
        ck.sample({"kind": "sample event (reads truncated)", "event": {k: (v[:4] if k == "reads" else v) for k, v in smp.items()}})
    log("quality / start traces validated (%d events)" % n_ev)
    corrupted += corrupted_quality(ck, events, rejected_ids)
    ck.note("corrupted_traces_rejected", corrupted)
    ck.exhaustive = True
    ck.assumptions = [
        "TLC, the CommunityModules Json/IOUtils operators, Python fractions / decimal are correct",
        "exhaustive within the instance grids of the cfgs; larger greedy instances are sampled (seeded) and judged by the trace spec; the real programs "
        "are run on the repository's test data only",
        "greedy ties (several exact maximisers, or relative gap < 1e-6) accept any maximiser; 'first maximiser' is decided on the recorded float scores",
        "the homozygous-fix decision of DenovoMCMC._mcmc is driven (its value is C15's subject); random_choice draws from the row it is given (C01)",
        "qual_of_prob inputs are m / 10^p and (m + 1/2) / 10^p as doubles; a double a hair below m / 10^p may be truncated to m or m - 1",
    ]
    ck.finish()


if __name__ == "__main__":
    main()
