"""X02 (extra): command-line configuration state.

spec  : spec/Arguments/{Arguments,TraceArguments}.tla
        state machine Options -> Discover -> Pool -> Extend -> Values -> Report -> Mcmc -> Pedigree of how
        assemble / call / call-exact / call-pedigree / find-snvs turn arguments and side files into the
        per-sample configuration; invariants = the documented guarantees (help texts, docs/*.rst, docstrings)
bind  : spec -> code  every final state TLC reaches (accepted configuration or named rejection) is concretised
                      into a real argument vector + side files over a five-BAM world and replayed into
                      program.cli(argv) and run_stdout(); three observation points (attributes after cli,
                      values reaching the engines, output text) are compared with the model's configuration;
                      configurations that differ only in value-file entries of non-analysed names must give
                      byte-identical output
        code -> spec  seeded random argument vectors (valid, perturbed, invalid) over the same world and runs of
                      the real programs on the repository's test data are recorded and judged line by line by
                      TraceArguments.tla (accepted-with-this-configuration vs rejected)
        binding demonstrations: mutant specs killed by TLC, corrupted recorded traces rejected
"""
import copy
import json
import os
import random
import shutil
import sys
import time

sys.path.insert(0, os.path.dirname(os.path.abspath(__file__)))
from vlib import env, tlc, pool, argworld
from vlib.report import Check

SPEC = os.path.join(env.SPEC, "Arguments")
SCENARIOS = ["report", "mcmc", "disc", "ped", "maps"]
MUTANTS = [  # cfg, invariant TLC must report violated, scenario in which it is looked for
    ("Mutant_values_by_member.cfg", "ByPoolName", "maps"),
    ("Mutant_total_over_file.cfg", "ExtrasIrrelevant", "maps"),
    ("Mutant_pool_missing.cfg", "EverySampleUsed", "maps"),
    ("Mutant_ladder.cfg", "McmcSane", "mcmc"),
    ("Mutant_gamete_sum.cfg", "PedigreeSane", "ped"),
    ("Mutant_pairfile_dup.cfg", "UniqueColumns", "disc"),
    ("Mutant_info_prefix.cfg", "ReportSides", "report"),
]
INFO_OPT = {"AFPRIOR", "ACP", "AFP", "AOP", "AOPSUM", "SNVDP"}
FORMAT_OPT = {"ACP", "AFP", "AOP", "GP", "GL", "SNVDP"}


# ---------------------------------------------------------------------------------------------
# observed configuration (three views) in the model's vocabulary
def views(res, baseline, prog):
    """-> {view name: {field: value}}; representation only (names, index -> column name)."""
    out = {}
    a, e, t = res.get("attrs"), res.get("engine"), res.get("text")
    base = baseline.get(prog)
    if a is not None:
        v = {"columns": a["samples"], "members": a["sample_bams"], "ploidy": a["sample_ploidy"], "rg": a["read_group_field"]}
        if a["sample_inbreeding"] is not None:
            v["inbreeding"] = a["sample_inbreeding"]
        if base is not None:
            v["info"] = sorted(set(a["info"]) - set(base["info"]))
            v["format"] = sorted((set(a["format"]) - set(base["format"])) | ({"PEDERR"} & set(a["format"])))
        if prog != "call-exact":
            v["mcmc"] = {"steps": a["steps"], "burn": a["burn"], "chains": a["chains"], "seed": a["random_seed"]}
        if prog == "assemble":
            v["temps"] = a["temps"]
        if prog == "call-pedigree":
            for k in ("parents", "tau", "ibd", "err"):
                v[k] = a[k]
        out["attrs"] = v
    if t is not None and t.get("columns") is not None:
        cols = t["columns"]
        v = {"columns": cols}
        if prog != "find-snvs":
            if base is not None:
                v["info"] = sorted(set(t["info"]) - set(base["info"]))
                v["format"] = sorted((set(t["format"]) - set(base["format"])) | ({"PEDERR"} & set(t["format"])))
            if t["records"]:
                r = t["records"][0]
                if len(r["gt_len"]) == len(cols) and len(set(cols)) == len(cols):
                    v["ploidy"] = dict(zip(cols, r["gt_len"]))
                v["total"] = sum(r["gt_len"])
        out["text"] = v
        if e is not None and prog != "find-snvs":
            w = {}
            # one record per target locus: the same configuration must reach the engine at every locus
            nrec = max(1, len(t["records"]))

            def per_locus(seq):
                if len(seq) % nrec:
                    return None
                k = len(seq) // nrec
                parts = [seq[i * k:(i + 1) * k] for i in range(nrec)]
                return parts[0] if all(p == parts[0] for p in parts) else None

            e = {"reads": per_locus(e["reads"]), "calls": per_locus(e["calls"]), "ped": per_locus(e["ped"])}
            if None in e.values():
                w["columns"] = ["<configuration differs between loci>"]
                e = {"reads": [], "calls": [], "ped": []}
            if e["reads"]:
                w["reads"] = [[r[0], r[1]] for r in e["reads"]]
                ids = {r[2] for r in e["reads"]}
                if len(ids) == 1:
                    w["rg"] = ids.pop()
            calls = e["calls"]
            if calls and len(calls) == len(cols) and len(set(cols)) == len(cols):
                w["ploidy"] = {c: k.get("ploidy") for c, k in zip(cols, calls)}
                w["inbreeding"] = {c: k.get("inbreeding") for c, k in zip(cols, calls)}
                if "steps" in calls[0]:
                    ms = [{"steps": k["steps"], "chains": k["chains"], "seed": k["random_seed"]} for k in calls]
                    if all(m == ms[0] for m in ms):
                        w["mcmc"] = ms[0]
                    else:
                        w["mcmc"] = {"steps": -1}
                if "temperatures" in calls[0]:
                    w["temps"] = {c: k["temperatures"] for c, k in zip(cols, calls)}
            elif calls:
                w["ploidy"] = {"<engine-call-count>": len(calls)}
            if e["ped"] and len(set(cols)) == len(cols):
                p = e["ped"][0]
                n = len(cols)
                if len(p["ploidy"]) == n:
                    nm = lambda i: "." if i < 0 else (cols[i] if i < n else "<out-of-range>")  # noqa: E731
                    w["ploidy"] = dict(zip(cols, p["ploidy"]))
                    w["inbreeding"] = dict(zip(cols, p["inbreeding"]))
                    w["parents"] = {c: [nm(x) for x in r] for c, r in zip(cols, p["parents"])}
                    w["tau"] = dict(zip(cols, p["tau"]))
                    w["ibd"] = dict(zip(cols, p["ibd"]))
                    w["err"] = dict(zip(cols, p["err"]))
                    w["mcmc"] = {"steps": p["steps"], "burn": p["annealing"], "chains": p["chains"], "seed": p["random_seed"]}
                else:
                    w["ploidy"] = {"<engine-array-length>": len(p["ploidy"])}
            if w:
                out["engine"] = w
    return out


def field_ok(f, o, cfg, inp):
    """python twin of TraceArguments!FieldOk, used for the spec -> code direction"""
    cols = cfg["columns"]
    cs = set(cols)

    def over(o, m):
        return isinstance(o, dict) and cs <= set(o) and all(o[c] == m[c] for c in cs)

    def pairs(x):
        return sorted(tuple(p) for p in x)

    if f == "columns":
        return len(o) == len(cols) and set(o) == cs
    if f == "members":
        return isinstance(o, dict) and cs <= set(o) and all(pairs(o[c]) == pairs(cfg["members"][c]) for c in cs)
    if f == "reads":
        want = sorted(tuple(p) for c in cols for p in cfg["members"][c])
        return pairs(o) == want
    if f in ("ploidy", "inbreeding"):
        return over(o, cfg[f])
    if f == "total":
        return o == cfg["total"]
    if f in ("info", "format"):
        return sorted(o) == sorted(cfg[f])
    if f == "mcmc":
        return all(k in cfg["mcmc"] and o[k] == cfg["mcmc"][k] for k in o)
    if f in ("temps", "parents", "tau", "ibd", "err"):
        return f in cfg and over(o, cfg[f])
    if f == "rg":
        return o == ("SM" if inp["rg"] == "default" else inp["rg"])
    return False


def err_class(res):
    e = res.get("error") or ["?"]
    return e[-1].split(":")[0]


# ---------------------------------------------------------------------------------------------
def replay(ck, paths, recs, baseline, label, groups=None):
    """recs: list of model records {inp, verdict, why, may, cfg[, strip]} -> runs them, compares."""
    items = []
    for r in recs:
        prog, argv = argworld.concretise(paths, r["inp"])
        items.append({"prog": prog, "argv": argv})
    results = run_items(ck, items, label)
    for r, it, o in zip(recs, items, results):
        if o is None:
            continue
        ck.evaluations += 1
        judge(ck, r, it, o, baseline, label)
    # value-file entries of names that are not analysed must not influence any output
    if groups is not None:
        for r, it, o in zip(recs, items, results):
            if o is None or o["outcome"] != "accepted" or r["verdict"] != "accept" or not o.get("text"):
                continue
            key = json.dumps(r.get("strip", r["inp"]), sort_keys=True)
            g = groups.setdefault(key, {"sha": o["text"]["sha"], "argv": it["argv"], "n": 0})
            g["n"] += 1
            if g["sha"] != o["text"]["sha"]:
                ck.violation("extra-entries-influence-output",
                             {"argv": it["argv"], "same_configuration_argv": g["argv"], "inp": r["inp"]},
                             key={"site": "output", "prog": it["prog"], "rule": "extras-irrelevant"})
    return results


def run_items(ck, items, label, size=60):
    """items -> results (same order).  A worker that dies (the code under test took the interpreter down)
    loses its whole chunk: those items are run again one per task, and an item that kills its worker
    again is an outcome of its own: rejected, phase "crash" (the process ended with a signal)."""
    chunks = [list(range(i, min(i + size, len(items)))) for i in range(0, len(items), size)]
    res = pool.map_tasks("impl.x02", [{"op": "replay", "items": [items[i] for i in c]} for c in chunks], mode="jit")
    results = [None] * len(items)
    again = []
    for c, rr in zip(chunks, res):
        if rr["ok"]:
            for i, o in zip(c, rr["result"]):
                results[i] = o
        elif rr.get("crash"):
            again += c
        else:
            ck.violation("impl-error", {"error": rr["error"], "first_argv": items[c[0]]}, key={"site": "worker", "label": label})
    if again:
        res = pool.map_tasks("impl.x02", [{"op": "replay", "items": [items[i]]} for i in again], mode="jit", warm_first=False)
        for i, rr in zip(again, res):
            if rr["ok"]:
                results[i] = rr["result"][0]
            elif rr.get("crash"):
                ck.bump("interpreter_crashes")
                if "crash_example" not in ck.extra:
                    ck.note("crash_example", {"argv": items[i]["argv"], "error": rr["error"][-300:]})
                results[i] = {"prog": items[i]["prog"], "outcome": "rejected", "phase": "crash",
                              "error": ["ProcessDied: " + rr["error"][-200:]], "attrs": None, "engine": None, "text": None}
            else:
                ck.violation("impl-error", {"error": rr["error"], "first_argv": items[i]}, key={"site": "worker", "label": label})
    return results


def judge(ck, r, it, o, baseline, label):
    inp, prog = r["inp"], it["prog"]
    if r["verdict"] == "reject":
        if o["outcome"] != "rejected":
            ck.violation("accepted-invalid-input",
                         {"rule": r["why"], "prog": prog, "argv": it["argv"], "inp": inp,
                          "columns_written": (o.get("text") or {}).get("columns")},
                         key={"site": "cli+run", "rule": r["why"], "prog": prog, "form": inp["bamForm"]})
        else:
            ck.bump("rejected_as_required")
            ck.bump("rejected_in_phase_" + o["phase"])
        return
    if o["outcome"] == "rejected":
        if r["may"]:
            ck.bump("tolerated_rejections")
        else:
            ck.violation("rejected-valid-input",
                         {"prog": prog, "argv": it["argv"], "inp": inp, "phase": o["phase"], "error": o["error"], "model_cfg": r["cfg"]},
                         key={"site": "cli+run", "prog": prog, "phase": o["phase"], "error": err_class(o), "scen": inp.get("scen", label)})
        return
    if prog == "atomize":
        ck.bump("accepted_as_required")
        return
    ck.nontrivial += 1
    vs = views(o, baseline, prog)
    if not vs:
        ck.violation("no-observation", {"prog": prog, "argv": it["argv"]}, key={"site": "worker", "prog": prog})
    for vname, v in vs.items():
        for f, val in v.items():
            if not field_ok(f, val, r["cfg"], inp):
                ck.violation("configuration-mismatch",
                             {"view": vname, "field": f, "observed": val, "model": r["cfg"].get(f, r["cfg"].get("members") if f == "reads" else None),
                              "prog": prog, "argv": it["argv"], "inp": inp},
                             key={"site": vname, "field": f, "prog": prog, "scen": inp.get("scen", label)})
        if "columns" in v and v["columns"] != r["cfg"]["columns"] and set(v["columns"]) == set(r["cfg"]["columns"]):
            ck.bump("column_order_differs_from_model_" + vname)
    ck.bump("accepted_as_required")


# ---------------------------------------------------------------------------------------------
# random inputs for the code -> spec direction (input distribution only; no expectation)
NOPOOL = {"kind": "none", "name": "", "lines": []}
NOV = {"kind": "default", "num": 0, "entries": []}


def base_input(prog):
    return {"scen": "random", "prog": prog, "empty": False, "bamForm": "list", "bams": ["b2"], "pairNames": [], "rg": "default",
            "pool": dict(NOPOOL), "ploidy": dict(NOV), "inbreeding": dict(NOV), "report": {"given": False, "tokens": []},
            "mcmc": {"given": False, "steps": 0, "burn": 0, "seed": 0, "chains": 0},
            "temps": {"kind": "default", "values": [], "entries": []}, "locus": "none",
            "ped": {"given": False, "parents": [], "tau": dict(NOV), "ibd": dict(NOV), "err": dict(NOV)}}


def keys_of(world, b, field):
    out = []
    for rg in world.get(b, []):
        k = rg["id"] if field == "ID" else rg["sm"]
        if k not in out:
            out.append(k)
    return out


TOKENS = sorted(INFO_OPT | FORMAT_OPT) + ["INFO/" + f for f in sorted(INFO_OPT)] + ["FORMAT/" + f for f in sorted(FORMAT_OPT)]


def random_input(rnd, world):
    """A mostly valid configuration, then 0..2 perturbations."""
    prog = rnd.choice(["assemble", "call", "call-exact", "call-exact", "call-pedigree", "call-pedigree", "find-snvs"])
    inp = base_input(prog)
    inp["locus"] = "targets" if prog in ("assemble", "find-snvs") else "none"
    if prog == "assemble" and rnd.random() < 0.3:
        inp["locus"] = "region"
    bams = sorted(world)
    rnd.shuffle(bams)
    inp["rg"] = rnd.choice(["default", "SM", "ID", "SM"])
    field = "ID" if inp["rg"] == "ID" else "SM"
    chosen, seen = [], set()
    for b in bams[: rnd.randint(1, 3)]:
        ks = keys_of(world, b, field)
        if rnd.random() < 0.85 and seen & set(ks):
            continue
        chosen.append(b)
        seen |= set(ks)
    chosen = chosen or [bams[0]]
    inp["bams"] = chosen
    inp["bamForm"] = rnd.choice(["list", "list", "pathfile", "pairfile"])
    names = []
    if inp["bamForm"] == "pairfile":
        for b in chosen:
            ks = keys_of(world, b, field)
            names.append(rnd.choice(ks))
        inp["pairNames"] = list(names)
    else:
        for b in chosen:
            names += [k for k in keys_of(world, b, field) if k not in names]
    cols = list(names)
    if prog != "find-snvs":
        u = rnd.random()
        if u < 0.2:
            inp["pool"] = {"kind": "name", "name": "P1", "lines": []}
            cols = ["P1"]
        elif u < 0.55:
            pools = rnd.sample(["P1", "P2", "P3"] + names[:1], rnd.randint(1, 3))
            lines = []
            for s in names:
                for p in rnd.sample(pools, rnd.randint(1, min(2, len(pools)))):
                    lines.append([s, p])
            rnd.shuffle(lines)
            inp["pool"] = {"kind": "file", "name": "", "lines": lines}
            cols = []
            for s, p in lines:
                if p not in cols:
                    cols.append(p)
    if prog == "call-pedigree":
        ped_names = list(cols) + (["X9"] if rnd.random() < 0.3 else [])
        parents = []
        for i, c in enumerate(ped_names):
            prev = ped_names[:i]
            p = rnd.choice(prev + ["."]) if prev else "."
            q = rnd.choice(prev + ["."]) if prev else "."
            parents.append([c, p, q])
        inp["ped"]["given"] = True
        inp["ped"]["parents"] = parents
        cols = ped_names
    extras = ["Q1", "Z9"] + [n for n in names if n not in cols]
    if prog != "find-snvs":
        u = rnd.random()
        even = prog == "call-pedigree"
        if u < 0.3:
            inp["ploidy"] = {"kind": "num", "num": rnd.choice([2, 4] if even else [1, 2, 3, 4]), "entries": []}
        elif u < 0.8:
            ent = [[c, rnd.choice([2, 4] if even else [1, 2, 3, 4, 6])] for c in cols] + [[x, rnd.choice([0, 2, 5])] for x in extras if rnd.random() < 0.4]
            rnd.shuffle(ent)
            inp["ploidy"] = {"kind": "file", "num": 0, "entries": ent}
        if prog != "call-pedigree":
            u = rnd.random()
            if u < 0.3:
                inp["inbreeding"] = {"kind": "num", "num": rnd.choice([0, 10, 25, 99]), "entries": []}
            elif u < 0.6:
                ent = [[c, rnd.choice([0, 5, 50, 75])] for c in cols] + [[x, rnd.choice([0, 150])] for x in extras if rnd.random() < 0.4]
                rnd.shuffle(ent)
                inp["inbreeding"] = {"kind": "file", "num": 0, "entries": ent}
        if rnd.random() < 0.5:
            inp["report"] = {"given": True, "tokens": rnd.sample(TOKENS, rnd.randint(0, 3))}
        if prog != "call-exact":
            steps = rnd.choice([40, 64])
            inp["mcmc"] = {"given": True, "steps": steps, "burn": rnd.choice([0, 8, steps // 2]), "seed": rnd.randint(0, 99), "chains": rnd.choice([1, 2])}
        if prog == "assemble":
            u = rnd.random()
            if u < 0.3:
                inp["temps"] = {"kind": "list", "values": rnd.sample([10, 25, 50, 75, 100], rnd.randint(1, 3)), "entries": []}
            elif u < 0.5:
                inp["temps"] = {"kind": "file", "values": [], "entries": [[c, rnd.sample([5, 20, 60, 100], rnd.randint(1, 3))] for c in cols if rnd.random() < 0.6]}
        if prog == "call-pedigree":
            pl = {c: 2 for c in cols}
            if inp["ploidy"]["kind"] == "num":
                pl = {c: inp["ploidy"]["num"] for c in cols}
            elif inp["ploidy"]["kind"] == "file":
                d = dict((a, b) for a, b in inp["ploidy"]["entries"])
                pl = {c: d[c] for c in cols}
            u = rnd.random()
            if u < 0.4:
                ent = [[c, pl[c] // 2, pl[c] - pl[c] // 2] for c in cols] + [["Q1", 3, 4]]
                if rnd.random() < 0.5:
                    ent = [[c, 1, 3] if c in pl and pl[c] == 4 and rnd.random() < 0.5 else [c, a, b] for c, a, b in ent]
                inp["ped"]["tau"] = {"kind": "file", "num": 0, "entries": ent}
            u = rnd.random()
            if u < 0.25:
                inp["ped"]["err"] = {"kind": "num", "num": rnd.choice([0, 1, 5, 100]), "entries": []}
            elif u < 0.45:
                inp["ped"]["err"] = {"kind": "file", "num": 0, "entries": [[c, rnd.choice([0, 1, 10]), rnd.choice([1, 50])] for c in cols]}
            if rnd.random() < 0.3:
                tau = {c: (pl[c] // 2, pl[c] // 2) for c in cols}
                if inp["ped"]["tau"]["kind"] == "file":
                    tau = {c: (a, b) for c, a, b in inp["ped"]["tau"]["entries"]}
                inp["ped"]["ibd"] = {"kind": "file", "num": 0,
                                     "entries": [[c, rnd.choice([0, 25]) if tau[c][0] == 2 else 0, rnd.choice([0, 100]) if tau[c][1] == 2 else 0] for c in cols]}
    # perturbations
    for _ in range(rnd.choice([0, 0, 1, 1, 2])):
        perturb(rnd, inp, world, cols, names)
    return inp


def perturb(rnd, inp, world, cols, names):
    k = rnd.randint(0, 17)
    prog = inp["prog"]
    if k == 0:
        inp["rg"] = "LB"
    elif k == 1:
        inp["bams"] = inp["bams"] + ["nx"]
        if inp["bamForm"] == "pairfile":
            inp["pairNames"] = inp["pairNames"] + ["S1"]
    elif k == 2 and inp["bamForm"] == "pairfile":
        inp["pairNames"][rnd.randrange(len(inp["pairNames"]))] = "X9"
    elif k == 3 and inp["pool"]["kind"] == "file" and inp["pool"]["lines"]:
        s = inp["pool"]["lines"][0][0]
        inp["pool"]["lines"] = [l for l in inp["pool"]["lines"] if l[0] != s]
    elif k == 4 and inp["pool"]["kind"] == "file":
        inp["pool"]["lines"] = inp["pool"]["lines"] + [["X9", "P1"]]
    elif k == 5 and inp["ploidy"]["kind"] == "file" and inp["ploidy"]["entries"]:
        inp["ploidy"]["entries"] = inp["ploidy"]["entries"][1:]
    elif k == 6 and inp["inbreeding"]["kind"] == "file" and inp["inbreeding"]["entries"]:
        inp["inbreeding"]["entries"][0][1] = rnd.choice([100, 130])
    elif k == 7:
        inp["ploidy"] = {"kind": "num", "num": 0, "entries": []}
    elif k == 8 and prog != "find-snvs":
        inp["inbreeding"] = {"kind": "num", "num": rnd.choice([100, 25]), "entries": []}
    elif k == 9 and inp["mcmc"]["given"]:
        inp["mcmc"]["burn"] = inp["mcmc"]["steps"] + rnd.choice([0, 5])
    elif k == 10:
        inp["temps"] = {"kind": "list", "values": [rnd.choice([0, 50, 120]), 30], "entries": []}
    elif k == 11:
        inp["locus"] = rnd.choice(["none", "targets", "region", "both"])
    elif k == 12 and inp["ped"]["given"] and inp["ped"]["parents"]:
        inp["ped"]["parents"][-1][rnd.choice([1, 2])] = "Z9"
    elif k == 13 and inp["ped"]["tau"]["kind"] == "file" and inp["ped"]["tau"]["entries"]:
        inp["ped"]["tau"]["entries"][0][1] += 1
    elif k == 14 and prog == "call-pedigree":
        inp["ped"]["err"] = {"kind": "num", "num": rnd.choice([150, 101]), "entries": []}
    elif k == 15 and prog == "call-pedigree":
        inp["ped"]["ibd"] = {"kind": "num", "num": rnd.choice([50, 150]), "entries": []}
    elif k == 16:
        inp["report"] = {"given": True, "tokens": inp["report"]["tokens"] + [rnd.choice(["FOO", "INFO/GL", "afp"])]}
    elif k == 17:
        inp["prog"] = rnd.choice(["assemble", "call", "call-exact", "call-pedigree", "find-snvs"])


# ---------------------------------------------------------------------------------------------
def events_of(inp, o, baseline):
    """one event per observation point"""
    prog = inp["prog"]
    if o["outcome"] == "rejected":
        return [{"inp": inp, "outcome": "rejected", "view": "outcome", "obs": {}}]
    vs = views(o, baseline, prog)
    return [{"inp": inp, "outcome": "accepted", "view": k, "obs": v} for k, v in vs.items()] or \
           [{"inp": inp, "outcome": "accepted", "view": "outcome", "obs": {}}]


def validate_trace(ck, events, name, expect_rejects=None):
    tf = os.path.join(ck.wd, name + ".json")
    with open(tf, "w") as fh:
        json.dump(events, fh)
    try:
        t = tlc.run(SPEC, "TraceArguments", "Trace.cfg", workers=1, extra_env={"TRACE_FILE": tf}, timeout=1800, name="TraceArguments-" + name)
    except tlc.TLCError as e:
        ck.machinery_failure(str(e)[-2500:])
    if t.violated:
        ck.machinery_failure("trace spec run ended with %s: %s" % (t.violated, t.error_text[:1500]))
    consumed = [p for p in t.printed if "consumed" in p]
    if not consumed or consumed[0]["consumed"] != len(events):
        ck.machinery_failure("trace %s not fully consumed: %s of %d" % (name, consumed, len(events)))
    rejects = [p for p in t.printed if "reject" in p]
    notes = [p for p in t.printed if "note" in p]
    if expect_rejects is None:
        ck.add_tlc(t, "TraceArguments:" + name)
        for p in rejects:
            e = events[p["reject"] - 1]
            clause = sorted(p["clause"])
            key = {"site": "trace:" + e["view"], "clause": clause[0], "prog": e["inp"]["prog"]}
            if clause[0].startswith("must-reject:"):
                key["rule"] = clause[0].split(":", 1)[1]  # the same rule name as in the spec -> code direction
                key["form"] = e["inp"]["bamForm"]
            ck.violation("trace-reject", {"line": p["reject"], "clause": clause, "model": p["model"], "event": e,
                                          "argv": e.get("argv")}, key=key)
        for p in notes:
            ck.bump("trace_note_" + p["what"].replace("-", "_"))
    return rejects


def main():
    ck = Check("X02")
    tier = ck.tier
    rnd = random.Random(ck.seed * 7919 + 17)
    ck.rule = (
        "TLC enumerates the configuration space scenario by scenario (discovery forms x read-group field x pooling; pool files x "
        "ploidy / inbreeding value files over {S2,S5} with unknown and superfluous names; --report token sequences per program; MCMC "
        "counts, temperature lists / files, option groups per program; pedigree / gamete files) and every final state is replayed "
        "into program.cli + run_stdout. evaluations = argument vectors executed; non-trivial = accepted configurations compared "
        "field by field at three observation points."
    )
    world_dir = os.path.join(ck.wd, "world")
    paths = argworld.build(world_dir)
    baseline = {}
    groups = {}
    per_scen = {}
    only = [x for x in os.environ.get("VERIF_X02_ONLY", "").split(",") if x]
    if only:
        ck.note("restricted_to", only)
    scen_list = [x for x in SCENARIOS + (["maps2"] if tier == "thorough" else []) if not only or x in only or x == "report"]
    try:
        for scen in scen_list:
            r = tlc.run(SPEC, "Arguments", "MC_%s.cfg" % tier, extra_env={"X02_SCEN": scen}, timeout=3000, name="Arguments-" + scen)
            ck.add_tlc(r, "Arguments:" + scen)
            if r.violated:
                ck.violation("model", {"invariant": r.violated, "text": r.error_text[:2000]}, key={"model": "Arguments", "scen": scen})
                continue
            w = [p for p in r.printed if "world" in p]
            if not w or {b: [(g["id"], g["sm"]) for g in v] for b, v in w[0]["world"].items()} != argworld.WORLD_RG:
                ck.machinery_failure("the world on disk differs from Arguments!World")
            recs = [p for p in r.printed if "verdict" in p]
            del r
            if scen == "report":
                # the fields a program reports without --report: taken from its own run without the option
                b_recs = [x for x in recs if not x["inp"]["report"]["given"]]
                res = replay(ck, paths, b_recs, {}, "baseline")
                for x, o in zip(b_recs, res):
                    if o is None or o["outcome"] != "accepted":
                        ck.machinery_failure("baseline run without --report failed for %s: %s" % (x["inp"]["prog"], o and o["error"]))
                    if set(o["attrs"]["info"]) != set(o["text"]["info"]) or set(o["attrs"]["format"]) != set(o["text"]["format"]):
                        ck.violation("configuration-mismatch", {"view": "text", "field": "header-vs-attributes", "prog": x["inp"]["prog"]},
                                     key={"site": "text", "field": "header", "prog": x["inp"]["prog"]})
                    baseline[x["inp"]["prog"]] = {"info": o["attrs"]["info"], "format": [f for f in o["attrs"]["format"] if f != "PEDERR"]}
                baseline["find-snvs"] = {"info": [], "format": []}
            if only and scen not in only:
                continue  # only needed for the baseline
            t0 = time.time()
            replay(ck, paths, recs, baseline, scen, groups if scen in ("maps", "maps2", "ped") else None)
            per_scen[scen] = {"configurations": len(recs), "accept": sum(1 for x in recs if x["verdict"] == "accept"),
                              "replay_s": round(time.time() - t0, 1)}
            if recs:
                ck.sample({"kind": "configuration", "scen": scen, "model": recs[len(recs) // 3]})
            ck.traces += len(recs)
            del recs
        ck.note("scenarios", per_scen)
        ck.note("extras_groups", {"groups": len(groups), "with_several_members": sum(1 for g in groups.values() if g["n"] > 1)})
        # ---- binding demonstration 1: mutant specs ------------------------------------------
        killed = 0
        for cfg, inv, scen in ([] if only else MUTANTS):
            m = tlc.run(SPEC, "Arguments", cfg, timeout=900, extra_env={"X02_SCEN": scen})
            if m.violated != inv:
                ck.machinery_failure("mutant spec %s not killed by %s (got %s)" % (cfg, inv, m.violated))
            killed += 1
        ck.note("mutant_specs_killed", killed)
    except tlc.TLCError as e:
        ck.machinery_failure(str(e)[-3000:])

    # ---- code -> spec: random argument vectors ----------------------------------------------
    world = {b: [{"id": i, "sm": s} for i, s in v] for b, v in argworld.WORLD_RG.items()}
    n_rand = 1000 if tier == "quick" else 12000
    if only and "random" not in only:
        n_rand = 0
    inputs = [random_input(rnd, world) for _ in range(n_rand)]
    items = []
    for inp in inputs:
        prog, argv = argworld.concretise(paths, inp)
        items.append({"prog": prog, "argv": argv})
    results = run_items(ck, items, "random", size=50)
    events = []
    acc = 0
    for i, o in enumerate(results):
        if o is None:
            continue
        ck.evaluations += 1
        acc += o["outcome"] == "accepted"
        for e in events_of(inputs[i], o, baseline):
            e["argv"] = items[i]["argv"]
            events.append(e)
    ck.note("random_vectors", {"n": n_rand, "accepted": acc, "events": len(events)})
    if events:
        validate_trace(ck, events, "trace-random")
        ck.traces += n_rand
        ck.sample({"kind": "recorded-run", "event": {k: v for k, v in events[len(events) // 2].items()}})

    # ---- code -> spec: the real programs on the repository's test data -----------------------
    repo_events = repo_runs(ck, baseline) if (not only or "repo" in only) else []
    if repo_events:
        validate_trace(ck, repo_events, "trace-repo")
        ck.traces += len({json.dumps(e["argv"]) for e in repo_events})

    # ---- binding demonstration 2: corrupted recorded traces must be rejected ------------------
    good = [e for e in events if e["outcome"] == "accepted" and e["view"] == "attrs" and "ploidy" in e["obs"]][:3]
    bad = []
    for e in good:
        b = copy.deepcopy(e)
        c = sorted(b["obs"]["ploidy"])[0]
        b["obs"]["ploidy"][c] += 1
        bad.append(b)
    for e in [x for x in events if x["outcome"] == "rejected"][:2]:
        b = copy.deepcopy(e)
        b["outcome"] = "accepted"  # an invalid vector recorded as accepted
        bad.append(b)
    for e in [x for x in events if x["outcome"] == "accepted" and x["view"] == "text"][:2]:
        b = copy.deepcopy(e)
        b["obs"]["columns"] = b["obs"]["columns"] + ["GHOST"]
        bad.append(b)
    if bad:
        rej = validate_trace(ck, bad, "trace-corrupt", expect_rejects=len(bad))
        if len(rej) != len(bad):
            ck.machinery_failure("corrupted traces rejected: %d of %d" % (len(rej), len(bad)))
        ck.note("corrupted_traces_rejected", len(bad))
    if ck.violations:
        from collections import Counter

        ck.note("violation_keys", [[k, n] for k, n in Counter(json.dumps(v.get("key"), sort_keys=True) for v in ck.violations).most_common(60)])
        for k, n in ck.extra["violation_keys"]:
            print("  violations %5d  %s" % (n, k), flush=True)
    ck.exhaustive = True
    ck.assumptions = [
        "TLC and CommunityModules Json are correct",
        "exhaustive within the enumerated scenario domains (see Arguments.tla: *Seeds / *Pick); wider combinations are sampled (seeded)",
        "rejection = non-zero exit or exception from program.cli / run_stdout in-process before the run completes",
        "the fields reported without --report are taken from the program's own run without the option (relational)",
    ]
    ck.finish()


# ---------------------------------------------------------------------------------------------
def repo_runs(ck, baseline):
    """The repository's own small data set (copied, never written in place): the argument vectors of the
    repository's application tests plus variations, described abstractly by reading the side files."""
    import pysam

    src = os.path.join(env.REPO, "mchap", "tests", "test_io", "data")
    dst = os.path.join(ck.wd, "repo-data")
    os.makedirs(dst, exist_ok=True)
    need = ["simple.fasta", "simple.fasta.fai", "simple.vcf.gz", "simple.vcf.gz.tbi", "simple.bed", "simple.pools",
            "simple.pools-ploidy", "simple.pedigree.132.txt", "simple.tau.132.txt", "simple.output.assemble.vcf"]
    for i in (1, 2, 3):
        need += ["simple.sample%d.bam" % i, "simple.sample%d.bam.bai" % i]
    for n in need:
        if not os.path.exists(os.path.join(src, n)):
            ck.note("repo_data_missing", n)
            return []
        shutil.copyfile(os.path.join(src, n), os.path.join(dst, n))
    for n in need:
        if n.endswith((".bai", ".fai", ".tbi")):
            os.utime(os.path.join(dst, n), None)
    hap_plain = os.path.join(dst, "haps.vcf")
    shutil.copyfile(os.path.join(dst, "simple.output.assemble.vcf"), hap_plain)
    for p in (hap_plain + ".gz", hap_plain + ".gz.tbi"):
        if os.path.exists(p):
            os.unlink(p)
    pysam.tabix_index(hap_plain, preset="vcf", force=True)
    bams = {"simple.sample%d" % i: os.path.join(dst, "simple.sample%d.bam" % i) for i in (1, 2, 3)}
    RB = sorted(bams)
    world = {}
    for b, p in bams.items():
        with pysam.AlignmentFile(p) as f:
            world[b] = [{"id": rg["ID"], "sm": rg["SM"]} for rg in f.header.to_dict()["RG"]]

    def table(name):
        with open(os.path.join(dst, name)) as fh:
            return [l.rstrip("\n").split("\t") for l in fh if l.strip()]

    paths = {"bams": bams, "notbam": os.path.join(dst, "nosuch.bam"), "ref": os.path.join(dst, "simple.fasta"),
             "bed": os.path.join(dst, "simple.bed"), "snv_vcf": os.path.join(dst, "simple.vcf.gz"),
             "hap_vcf": hap_plain + ".gz", "files": os.path.join(dst, "files")}
    os.makedirs(paths["files"], exist_ok=True)
    pools = table("simple.pools")
    pools_ploidy = [[a, int(b)] for a, b in table("simple.pools-ploidy")]
    ped = table("simple.pedigree.132.txt")
    tau = [[a, int(b), int(c)] for a, b, c in table("simple.tau.132.txt")]
    inputs = []
    for prog in ("assemble", "call", "call-exact"):
        for form in ("list", "pathfile"):
            for rg in ("default", "ID"):
                i = base_input(prog)
                i.update({"world": world, "bams": list(RB), "bamForm": form, "rg": rg,
                          "locus": "targets" if prog == "assemble" else "none",
                          "ploidy": {"kind": "num", "num": 4, "entries": []}})
                if prog != "call-exact":
                    i["mcmc"] = {"given": True, "steps": 100, "burn": 50, "seed": 11, "chains": 2}
                inputs.append(i)
                if rg == "default":
                    j = copy.deepcopy(i)
                    j["pool"] = {"kind": "file", "name": "", "lines": pools}
                    j["ploidy"] = {"kind": "file", "num": 0, "entries": pools_ploidy}
                    j["report"] = {"given": True, "tokens": ["AFP", "INFO/AOP"]}
                    inputs.append(j)
                    k = copy.deepcopy(j)
                    k["ploidy"] = {"kind": "num", "num": 4, "entries": []}
                    k["inbreeding"] = {"kind": "file", "num": 0, "entries": [[a, 10] for a, _ in pools_ploidy[:-1]]}  # one pool missing
                    inputs.append(k)
    names = [w[0]["sm"] for w in world.values()]
    i = base_input("call-pedigree")
    i.update({"world": world, "bams": list(RB), "ploidy": {"kind": "num", "num": 4, "entries": []},
              "mcmc": {"given": True, "steps": 100, "burn": 50, "seed": 11, "chains": 2}})
    i["ped"] = {"given": True, "parents": ped, "tau": {"kind": "file", "num": 0, "entries": tau}, "ibd": dict(NOV), "err": dict(NOV)}
    inputs.append(i)
    j = copy.deepcopy(i)
    j["ped"]["tau"] = dict(NOV)
    inputs.append(j)
    k = copy.deepcopy(i)
    k["ploidy"] = {"kind": "num", "num": 2, "entries": []}  # the tau file then no longer sums to the ploidy
    inputs.append(k)
    f = base_input("find-snvs")
    f.update({"world": world, "bams": list(RB), "locus": "targets"})
    inputs.append(f)
    g = copy.deepcopy(f)
    g["bamForm"] = "pairfile"
    g["pairNames"] = list(names)
    inputs.append(g)
    items = []
    for inp in inputs:
        prog, argv = argworld.concretise(paths, inp)
        items.append({"prog": prog, "argv": argv})
    res = pool.map_tasks("impl.x02", [{"op": "replay", "items": [it]} for it in items], mode="jit")
    events = []
    acc = 0
    for inp, it, rr in zip(inputs, items, res):
        if not rr["ok"]:
            ck.violation("impl-error", {"error": rr["error"], "argv": it["argv"]}, key={"site": "worker", "label": "repo-data"})
            continue
        o = rr["result"][0]
        ck.evaluations += 1
        acc += o["outcome"] == "accepted"
        for e in events_of(inp, o, baseline):
            e["argv"] = it["argv"]
            events.append(e)
    ck.note("repo_data_runs", {"n": len(inputs), "accepted": acc, "events": len(events)})
    return events


if __name__ == "__main__":
    main()
